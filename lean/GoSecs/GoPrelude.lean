/-
  Meaning of the Go constructs that tools/go2lean emits (the vocabulary of `GoSecs/Gen/Funcs.lean`).
  This file is part of the trusted base of the translator tie (T1): every definition is meant to be
  readable as the Go language specification's rule for the construct.  Core Lean only (the driver links it).

  Representation
  * every Go integer type is `Int`.  `int`/`int64` are treated as unbounded (overflow of a 64-bit signed
    value is outside the model); every other width is wrapped explicitly after each operation that can
    leave the range: `Go.wrapU k x` is `uintK(x)`, `Go.wrapS k x` is `intK(x)` (two's complement).
    `k = 0` is an untyped constant conversion (identity).
  * `[]byte`, `[N]byte` and `string` are `Go.Bytes = List UInt8` (an array value is a list of exactly N bytes).
  * a panic (index / slice bound out of range, short buffer handed to `binary.BigEndian`, explicit `panic`)
    is `none`: a function that contains an operation which can panic returns `Option _`.
  * `error` is `Go.Err = Option String`: `nil` is `none`, a non-nil error is identified by the sentinel it
    wraps (`fmt.Errorf("…%w…", ErrX)` and `ErrX` are both `some "ErrX"`) or by its literal message.
-/
namespace Go

abbrev Bytes := List UInt8
abbrev Err := Option String

/-! ### fixed-width integers -/

def wrapU (k : Nat) (x : Int) : Int := if k = 0 then x else x % (2 ^ k : Int)

def wrapS (k : Nat) (x : Int) : Int :=
  if k = 0 then x else
  let m := x % (2 ^ k : Int)
  if m < 2 ^ (k - 1) then m else m - 2 ^ k

theorem wrapU_of_range (k : Nat) (x : Int) (h0 : 0 ≤ x) (h1 : x < 2 ^ k) : wrapU k x = x := by
  unfold wrapU; split
  · rfl
  · exact Int.emod_eq_of_lt h0 h1

/-- `a << k` before truncation to the operand type (the translator wraps the result). -/
def shl (a k : Int) : Int := a * 2 ^ k.toNat
/-- `a >> k`: floor division (logical shift for unsigned, arithmetic for signed operands). -/
def shr (a k : Int) : Int := a / 2 ^ k.toNat
/-- `a & b`, `a | b`, `a ^ b` on non-negative operands (the translator only emits them for unsigned types). -/
def band (a b : Int) : Int := ((a.toNat &&& b.toNat : Nat) : Int)
def bor (a b : Int) : Int := ((a.toNat ||| b.toNat : Nat) : Int)
def bxor (a b : Int) : Int := ((a.toNat ^^^ b.toNat : Nat) : Int)

/-! ### bytes -/

/-- `byte(x)` stored into a byte slice; `x` is already in `[0, 256)`. -/
def byte (x : Int) : UInt8 := UInt8.ofNat x.toNat
/-- the value of a stored byte as a Go integer. -/
def u8 (b : UInt8) : Int := (b.toNat : Int)
def len (b : Bytes) : Int := (b.length : Int)
/-- `b[i]` where the bound is known statically (constant index into an array). -/
def getB (b : Bytes) (i : Nat) : Int := u8 (b.getD i 0)
/-- `b[i]` with the run-time bounds check. -/
def idx? (b : Bytes) (i : Int) : Option Int :=
  if 0 ≤ i then (b[i.toNat]?).map u8 else none
/-- `b[i:j]` where the bounds are known statically. -/
def slice (b : Bytes) (i j : Nat) : Bytes := (b.drop i).take (j - i)
/-- `b[i:j]` with the run-time bounds check `0 ≤ i ≤ j ≤ len(b)` (slicing past `len` into spare capacity is
    treated as a panic). -/
def slice? (b : Bytes) (i j : Int) : Option Bytes :=
  if 0 ≤ i ∧ i ≤ j ∧ j ≤ (b.length : Int) then some (slice b i.toNat j.toNat) else none
/-- `b[i] = v` with a statically known bound. -/
def set (b : Bytes) (i : Nat) (v : Int) : Bytes := b.set i (byte v)
def set? (b : Bytes) (i : Int) (v : Int) : Option Bytes :=
  if 0 ≤ i ∧ i < (b.length : Int) then some (set b i.toNat v) else none
/-- the new contents of `dst` after `copy(dst, src)`: `min(len dst, len src)` bytes are overwritten. -/
def copy (dst src : Bytes) : Bytes := src.take dst.length ++ dst.drop src.length
/-- `b` after its window `b[i : i+len seg]` has been replaced by `seg` (write through a sub-slice). -/
def splice (b : Bytes) (i : Nat) (seg : Bytes) : Bytes := b.take i ++ seg ++ b.drop (i + seg.length)
/-- `make([]byte, n)` / `make([]byte, n, c)`: panics when `n < 0` or `c < n`. -/
def make? (n c : Int) : Option Bytes := if 0 ≤ n ∧ n ≤ c then some (List.replicate n.toNat 0) else none
/-- `[N]byte(b)`: panics when `len(b) < N`. -/
def toArray? (n : Nat) (b : Bytes) : Option Bytes := if n ≤ b.length then some (b.take n) else none

/-! ### encoding/binary (big endian) -/

def be16 (v : Int) : Bytes := [byte (v / 256 % 256), byte (v % 256)]
def be32 (v : Int) : Bytes :=
  [byte (v / 16777216 % 256), byte (v / 65536 % 256), byte (v / 256 % 256), byte (v % 256)]
def be64 (v : Int) : Bytes := be32 (v / 4294967296 % 4294967296) ++ be32 (v % 4294967296)
def beU16 (b : Bytes) : Int := getB b 0 * 256 + getB b 1
def beU32 (b : Bytes) : Int := getB b 0 * 16777216 + getB b 1 * 65536 + getB b 2 * 256 + getB b 3
def beU64 (b : Bytes) : Int := beU32 b * 4294967296 + beU32 (b.drop 4)
def beU16? (b : Bytes) : Option Int := if 2 ≤ b.length then some (beU16 b) else none
def beU32? (b : Bytes) : Option Int := if 4 ≤ b.length then some (beU32 b) else none
def beU64? (b : Bytes) : Option Int := if 8 ≤ b.length then some (beU64 b) else none
/-- contents of `dst` after `binary.BigEndian.PutUintN(dst, v)` (panics when `dst` is too short). -/
def put? (dst src : Bytes) : Option Bytes := if src.length ≤ dst.length then some (copy dst src) else none

/-! ### loops

  `for i, v := range b` is a fold over the list; `for i := lo; i < hi; i += step` (constant positive step,
  `i` and `hi` not assigned in the body) runs exactly `iters lo hi step` times.  Bodies that `return`,
  `break` or `continue` produce a `Ctl`; the loop yields `.error r` when the body returned `r` and
  `.ok s` (the loop-carried variables) when it ran to completion or broke out.  The `…M` variants are the
  same loops for bodies that may panic. -/

inductive Ctl (σ ρ : Type) where
  | next (s : σ)
  | brk (s : σ)
  | ret (r : ρ)

def iters (lo hi step : Int) : Nat := if lo < hi then ((hi - lo + step - 1) / step).toNat else 0

def foldBFrom {σ : Type} (f : Int → Int → σ → σ) : Int → Bytes → σ → σ
  | _, [], s => s
  | i, x :: xs, s => foldBFrom f (i + 1) xs (f i (u8 x) s)
def foldB {σ : Type} (b : Bytes) (f : Int → Int → σ → σ) (s : σ) : σ := foldBFrom f 0 b s

def foldBFromM {σ : Type} (f : Int → Int → σ → Option σ) : Int → Bytes → σ → Option σ
  | _, [], s => some s
  | i, x :: xs, s => (f i (u8 x) s).bind (foldBFromM f (i + 1) xs)
def foldBM {σ : Type} (b : Bytes) (f : Int → Int → σ → Option σ) (s : σ) : Option σ := foldBFromM f 0 b s

def loopBFrom {σ ρ : Type} (f : Int → Int → σ → Ctl σ ρ) : Int → Bytes → σ → Except ρ σ
  | _, [], s => .ok s
  | i, x :: xs, s =>
    match f i (u8 x) s with
    | .next s' => loopBFrom f (i + 1) xs s'
    | .brk s' => .ok s'
    | .ret r => .error r
def loopB {σ ρ : Type} (b : Bytes) (f : Int → Int → σ → Ctl σ ρ) (s : σ) : Except ρ σ := loopBFrom f 0 b s

def loopBFromM {σ ρ : Type} (f : Int → Int → σ → Option (Ctl σ ρ)) : Int → Bytes → σ → Option (Except ρ σ)
  | _, [], s => some (.ok s)
  | i, x :: xs, s =>
    match f i (u8 x) s with
    | none => none
    | some (.next s') => loopBFromM f (i + 1) xs s'
    | some (.brk s') => some (.ok s')
    | some (.ret r) => some (.error r)
def loopBM {σ ρ : Type} (b : Bytes) (f : Int → Int → σ → Option (Ctl σ ρ)) (s : σ) : Option (Except ρ σ) :=
  loopBFromM f 0 b s

def foldUpN {σ : Type} (step : Int) (f : Int → σ → σ) : Nat → Int → σ → σ
  | 0, _, s => s
  | n + 1, i, s => foldUpN step f n (i + step) (f i s)
def foldUp {σ : Type} (lo hi step : Int) (f : Int → σ → σ) (s : σ) : σ := foldUpN step f (iters lo hi step) lo s

def foldUpNM {σ : Type} (step : Int) (f : Int → σ → Option σ) : Nat → Int → σ → Option σ
  | 0, _, s => some s
  | n + 1, i, s => (f i s).bind (foldUpNM step f n (i + step))
def foldUpM {σ : Type} (lo hi step : Int) (f : Int → σ → Option σ) (s : σ) : Option σ :=
  foldUpNM step f (iters lo hi step) lo s

def loopUpN {σ ρ : Type} (step : Int) (f : Int → σ → Ctl σ ρ) : Nat → Int → σ → Except ρ σ
  | 0, _, s => .ok s
  | n + 1, i, s =>
    match f i s with
    | .next s' => loopUpN step f n (i + step) s'
    | .brk s' => .ok s'
    | .ret r => .error r
def loopUp {σ ρ : Type} (lo hi step : Int) (f : Int → σ → Ctl σ ρ) (s : σ) : Except ρ σ :=
  loopUpN step f (iters lo hi step) lo s

def loopUpNM {σ ρ : Type} (step : Int) (f : Int → σ → Option (Ctl σ ρ)) : Nat → Int → σ → Option (Except ρ σ)
  | 0, _, s => some (.ok s)
  | n + 1, i, s =>
    match f i s with
    | none => none
    | some (.next s') => loopUpNM step f n (i + step) s'
    | some (.brk s') => some (.ok s')
    | some (.ret r) => some (.error r)
def loopUpM {σ ρ : Type} (lo hi step : Int) (f : Int → σ → Option (Ctl σ ρ)) (s : σ) : Option (Except ρ σ) :=
  loopUpNM step f (iters lo hi step) lo s

end Go

/-! ### read-only slices of structs (`[]T` ↦ `List T`): len, checked index, range loops

  The same four loop shapes as for byte strings; the element is passed as it is. -/
namespace Go

def lenL {α : Type} (l : List α) : Int := (l.length : Int)
def idxL? {α : Type} (l : List α) (i : Int) : Option α := if 0 ≤ i then l[i.toNat]? else none

def foldLFrom {α σ : Type} (f : Int → α → σ → σ) : Int → List α → σ → σ
  | _, [], s => s
  | i, x :: xs, s => foldLFrom f (i + 1) xs (f i x s)
def foldL {α σ : Type} (l : List α) (f : Int → α → σ → σ) (s : σ) : σ := foldLFrom f 0 l s

def foldLFromM {α σ : Type} (f : Int → α → σ → Option σ) : Int → List α → σ → Option σ
  | _, [], s => some s
  | i, x :: xs, s => (f i x s).bind (foldLFromM f (i + 1) xs)
def foldLM {α σ : Type} (l : List α) (f : Int → α → σ → Option σ) (s : σ) : Option σ := foldLFromM f 0 l s

def loopLFrom {α σ ρ : Type} (f : Int → α → σ → Ctl σ ρ) : Int → List α → σ → Except ρ σ
  | _, [], s => .ok s
  | i, x :: xs, s =>
    match f i x s with
    | .next s' => loopLFrom f (i + 1) xs s'
    | .brk s' => .ok s'
    | .ret r => .error r
def loopL {α σ ρ : Type} (l : List α) (f : Int → α → σ → Ctl σ ρ) (s : σ) : Except ρ σ := loopLFrom f 0 l s

def loopLFromM {α σ ρ : Type} (f : Int → α → σ → Option (Ctl σ ρ)) : Int → List α → σ → Option (Except ρ σ)
  | _, [], s => some (.ok s)
  | i, x :: xs, s =>
    match f i x s with
    | none => none
    | some (.next s') => loopLFromM f (i + 1) xs s'
    | some (.brk s') => some (.ok s')
    | some (.ret r) => some (.error r)
def loopLM {α σ ρ : Type} (l : List α) (f : Int → α → σ → Option (Ctl σ ρ)) (s : σ) : Option (Except ρ σ) :=
  loopLFromM f 0 l s

end Go

/-! ### state, atomics, effects, oracles (the EFFECT/STATE discipline of tools/go2lean; see translate.go)

  A function that does more than compute a value is translated in *effect mode*.  Its Lean value is a tuple

      (receiver after the call)?  ×  results…  ×  List Go.Effect  ×  (unused oracle values)?

  * A method on `*T` that writes fields of its receiver takes the receiver as a value and returns the updated
    value first (state passing; the translator rejects every use of the receiver that could alias it).
  * A field of type `atomic.Uint32/Uint64/Int32/Int64/Bool` is a plain field.  `.Load()`, `.Store(v)`, `.Add(d)`,
    `.Swap(v)`, `.CompareAndSwap(o, n)` read / write it with the SEQUENTIAL meaning, and each operation also
    appends `Effect.atomic "<Type>.<field>" "<Op>" [operands…]` to the trace.  The sequential meaning is the
    meaning of ONE goroutine's code when no other goroutine writes the location between two of its own atomic
    operations; what other goroutines do in between is the business of the hand-written interleaving model,
    whose atomic actions the trace lets a theorem line up with the code.
  * A call that is not translated — a method of an interface value, a function-valued field, a repository
    function listed in the translator's `asEffect` table, a channel send — appends `Effect.call "<callee>" args`
    (`Effect.send "<Type>.<chan field>" [v]`) to the trace.  Arguments are the translated values
    (a struct contributes its leaves in field order, `T.toVals`); an argument outside the subset is `Val.opaque`.
  * When the RESULT of such a call is used, the call is still recorded in the trace and its result is the next
    value of the *oracle list*, an extra parameter `orc_ : List Go.Val` of the generated function that is
    consumed in call order (`Go.orc`); a missing or ill-typed oracle value reads as the zero value.
  * Callees listed in the translator's ignore table (loggers, mutex Lock/Unlock, metrics) leave no trace. -/
namespace Go

/-- A value that crosses the boundary of the translated code (effect argument / oracle result). -/
inductive Val where
  | int (i : Int)
  | bool (b : Bool)
  | bytes (b : Bytes)
  | err (e : Err)
  | opaque
  deriving DecidableEq, Repr, Inhabited

def Val.asInt : Val → Int
  | .int i => i
  | _ => 0
def Val.asBool : Val → Bool
  | .bool b => b
  | _ => false
def Val.asBytes : Val → Bytes
  | .bytes b => b
  | _ => []
def Val.asErr : Val → Err
  | .err e => e
  | _ => none

inductive Effect where
  /-- `obj.Op(args)` on an atomic field (`obj` = "<Type>.<field>") -/
  | atomic (obj op : String) (args : List Val)
  /-- a call that is not translated (`callee` = "<pkg>.<Func>", "<pkg>.<Type>.<Method or func field>") -/
  | call (callee : String) (args : List Val)
  /-- `ch <- v` (`chan` = "<Type>.<field>") -/
  | send (chan : String) (args : List Val)
  deriving DecidableEq, Repr, Inhabited

/-- the next oracle value (the result of the next untranslated call whose result is used) -/
def orc (o : List Val) : Val := o.headD .opaque

/-- `for init; cond; post { body }` whose trip count is not evident: at most `fuel` iterations are unrolled;
    `none` = a panic inside the loop, OR the loop was still running after `fuel` iterations (no claim is made
    about such runs: every tie theorem proves its function returns `some _`).  `continue` runs `post`. -/
def loopWhileM {σ ρ : Type} (cond : σ → Option (Bool × σ)) (body : σ → Option (Ctl σ ρ)) (post : σ → Option σ) :
    Nat → σ → Option (Except ρ σ)
  | 0, _ => none
  | fuel + 1, s =>
    match cond s with
    | none => none
    | some (false, s1) => some (.ok s1)
    | some (true, s1) =>
      match body s1 with
      | none => none
      | some (.brk s2) => some (.ok s2)
      | some (.ret r) => some (.error r)
      | some (.next s2) =>
        match post s2 with
        | none => none
        | some s3 => loopWhileM cond body post fuel s3

end Go

namespace Go
/-- `fmt.Errorf("…%w…", e)` for an error VALUE `e`: the result is identified by what it wraps (by the format
    when `e` is nil). -/
def wrapErr (format : String) (e : Err) : Err :=
  match e with
  | some s => some s
  | none => some format
end Go
