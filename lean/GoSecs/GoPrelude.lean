/-
  Meaning of the Go fixed-width conversions that tools/go2lean emits.
  `Go.wrapU k x` is `uintK(x)`, `Go.wrapS k x` is `intK(x)` (two's complement wrap-around).
  `k = 0` is an untyped constant conversion (identity).
-/
namespace Go

def wrapU (k : Nat) (x : Int) : Int := if k = 0 then x else x % (2 ^ k : Int)

def wrapS (k : Nat) (x : Int) : Int :=
  if k = 0 then x else
  let m := x % (2 ^ k : Int)
  if m < 2 ^ (k - 1) then m else m - 2 ^ k

theorem wrapU_of_range (k : Nat) (x : Int) (h0 : 0 ≤ x) (h1 : x < 2 ^ k) : wrapU k x = x := by
  unfold wrapU; split
  · rfl
  · exact Int.emod_eq_of_lt h0 h1

end Go
