/-
  Byte-level helpers shared by every model: big-endian packing of naturals,
  hex rendering for the line protocol.  Core Lean only (the driver links this).
-/
namespace GoSecs

abbrev Bytes := List UInt8

/-- `k` bytes, big-endian, of `v mod 256^k` (what Go's `byte(v >> 8*i)` sequence produces). -/
def beBytes : Nat → Nat → Bytes
  | 0, _ => []
  | k+1, v => UInt8.ofNat (v / 256 ^ k % 256) :: beBytes k v

/-- Big-endian value of a byte string. -/
def beVal : Bytes → Nat
  | [] => 0
  | b :: bs => b.toNat * 256 ^ bs.length + beVal bs

@[simp] theorem beBytes_length (k v : Nat) : (beBytes k v).length = k := by
  induction k with
  | zero => rfl
  | succ k ih => simp [beBytes, ih]

theorem beVal_lt (bs : Bytes) : beVal bs < 256 ^ bs.length := by
  induction bs with
  | nil => simp [beVal]
  | cons b bs ih =>
    simp only [beVal, List.length_cons, Nat.pow_succ]
    have := b.toNat_lt
    have h : b.toNat * 256 ^ bs.length ≤ 255 * 256 ^ bs.length := Nat.mul_le_mul_right _ (by omega)
    omega

theorem beVal_beBytes (k v : Nat) : beVal (beBytes k v) = v % 256 ^ k := by
  induction k with
  | zero => simp [beBytes, beVal, Nat.mod_one]
  | succ k ih =>
    simp only [beBytes, beVal, beBytes_length, ih]
    have h : (UInt8.ofNat (v / 256 ^ k % 256)).toNat = v / 256 ^ k % 256 := by
      simp [UInt8.toNat_ofNat']
    rw [h, Nat.pow_succ, Nat.mod_mul, Nat.mul_comm]
    omega

/-- beBytes depends only on the value mod 256^k. -/
theorem beBytes_congr (k a b : Nat) (h : a % 256 ^ k = b % 256 ^ k) : beBytes k a = beBytes k b := by
  induction k with
  | zero => rfl
  | succ k ih =>
    simp only [beBytes]
    have hk : a % 256 ^ k = b % 256 ^ k := by
      have := congrArg (· % 256 ^ k) h
      simpa [Nat.pow_succ, Nat.mod_mul_right_mod] using this
    have hd : a / 256 ^ k % 256 = b / 256 ^ k % 256 := by
      have e1 : a % 256 ^ (k+1) / 256 ^ k = a / 256 ^ k % 256 := by
        rw [Nat.pow_succ, Nat.mod_mul_right_div_self]
      have e2 : b % 256 ^ (k+1) / 256 ^ k = b / 256 ^ k % 256 := by
        rw [Nat.pow_succ, Nat.mod_mul_right_div_self]
      rw [← e1, ← e2, h]
    rw [hd, ih hk]

theorem beBytes_mod (k v : Nat) : beBytes k (v % 256 ^ k) = beBytes k v :=
  beBytes_congr k _ _ (Nat.mod_mod _ _)

theorem beBytes_beVal (bs : Bytes) : beBytes bs.length (beVal bs) = bs := by
  induction bs with
  | nil => rfl
  | cons b bs ih =>
    simp only [List.length_cons, beBytes, beVal]
    have hlt := beVal_lt bs
    have hb := b.toNat_lt
    have hp : 0 < 256 ^ bs.length := Nat.pow_pos (by omega)
    have h1 : (b.toNat * 256 ^ bs.length + beVal bs) / 256 ^ bs.length = b.toNat := by
      rw [Nat.mul_comm, Nat.mul_add_div hp, Nat.div_eq_of_lt hlt]; omega
    rw [h1, Nat.mod_eq_of_lt hb]
    congr 1
    · simp
    · -- lower bytes only depend on value mod 256^len
      refine (beBytes_congr _ _ _ ?_).trans ih
      rw [Nat.mul_comm, Nat.mul_add_mod]

/-! Hex for the line protocol. -/
def hexDigit (n : Nat) : Char :=
  if n < 10 then Char.ofNat (48 + n) else Char.ofNat (87 + n)

def hexOfBytes (bs : Bytes) : String :=
  if bs.isEmpty then "-" else
  String.ofList (bs.foldr (fun b acc => hexDigit (b.toNat / 16) :: hexDigit (b.toNat % 16) :: acc) [])

def hexVal (c : Char) : Option Nat :=
  if '0' ≤ c ∧ c ≤ '9' then some (c.toNat - 48)
  else if 'a' ≤ c ∧ c ≤ 'f' then some (c.toNat - 87)
  else if 'A' ≤ c ∧ c ≤ 'F' then some (c.toNat - 55)
  else none

def bytesOfHexChars : List Char → Option Bytes
  | [] => some []
  | [_] => none
  | a :: b :: rest => do
    let x ← hexVal a
    let y ← hexVal b
    let r ← bytesOfHexChars rest
    pure (UInt8.ofNat (x * 16 + y) :: r)

def bytesOfHex (s : String) : Option Bytes :=
  if s == "-" then some [] else bytesOfHexChars s.toList

end GoSecs
