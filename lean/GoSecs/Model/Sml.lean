/-
  Model of package sml (SECS Message Language text) and of the per-type `ToSML` methods of secs2.

  (a) `toSMLAt` / `toSML`      secs2/*.go ToSML, secs2/list.go formatSML(level)
  (b) `encodeItem` / `encodeMsg` sml/encoder.go (default = non-strict; strict = writeStrictASCII)
  (c) `parseAll` / `parseMessage` / `parseHeader`   sml/parser.go, byte-exact, strict and non-strict,
      by recursion on fuel; with the recursion depth reached and the bytes pre-allocated from size
      hints as extra outputs
  (d) `newParseError`          sml/errors.go

  External library behaviour is a parameter (`Oracle`, DESIGN §4.4): float formatting/parsing,
  integer tokens outside the decimal / 0x / 0b subset, `strconv.Quote` on non-ASCII text.
  Decimal, `0x..` and `0b..` tokens are modelled here.

  Core Lean only: the protocol driver links this file.  Every function is structurally recursive
  (fuel where needed) so that closed instances reduce in the kernel.
-/
import GoSecs.Model.Secs2

namespace GoSecs.Sml
open GoSecs GoSecs.Secs2

/-- `b!"text"`: the UTF-8 bytes of a string literal as an explicit `List UInt8` literal. -/
scoped macro:max "b!" s:str : term => do
  let bs := s.getString.toUTF8.toList.toArray
  let elems ← bs.mapM fun b => `(($(Lean.quote b.toNat) : UInt8))
  `([$elems,*])

/-! ### Characters -/
abbrev cLT : UInt8 := 60   -- '<'
abbrev cGT : UInt8 := 62   -- '>'
abbrev cDQ : UInt8 := 34   -- '"'
abbrev cSQ : UInt8 := 39   -- '\''
abbrev cBS : UInt8 := 92   -- '\\'
abbrev cSP : UInt8 := 32
abbrev cNL : UInt8 := 10
abbrev cDot : UInt8 := 46
abbrev cLB : UInt8 := 91   -- '['
abbrev cRB : UInt8 := 93   -- ']'

/-! ### External library behaviour (parameters) -/

/-- What the model does not compute itself.  The driver fills it from the oracle dictionary the
    harness ships with each case (results computed by the Go standard library). -/
structure Oracle where
  /-- `strconv.FormatFloat(v, 'G', 9|17, 32|64)` of the value with these bits. -/
  fmtF : FWidth → Nat → Bytes
  /-- `strconv.ParseFloat(tok, 32|64)`: bits of the result, `none` on any error. -/
  parseF : FWidth → Bytes → Option Nat
  /-- `strconv.ParseInt(tok, 0, 64)` for tokens outside the modelled subset. -/
  parseI : Bytes → Option Int
  /-- `strconv.ParseUint(tok, 0, 64)` for tokens outside the modelled subset. -/
  parseU : Bytes → Option Nat
  /-- `strconv.Quote(s)` for strings containing a byte ≥ 0x80. -/
  quote : Bytes → Bytes
  /-- `strconv.Unquote("\"" + body + "\"")` for a body containing a backslash; `none` on error. -/
  unquote : Bytes → Option Bytes

/-! ### Number rendering (strconv.Itoa / FormatInt / FormatUint base 10, %02X, base 2) -/

def digitChar (d : Nat) : UInt8 := UInt8.ofNat (48 + d)

/-- Decimal digits of `n`, most significant first, in front of `acc`.  `fuel` bounds the digit count. -/
def showDecAux : Nat → Nat → Bytes → Bytes
  | 0, _, acc => acc
  | f+1, n, acc =>
    if n < 10 then digitChar n :: acc else showDecAux f (n / 10) (digitChar (n % 10) :: acc)

/-- `strconv.FormatUint(n, 10)`. -/
def showDec (n : Nat) : Bytes := showDecAux (n + 1) n []

/-- `strconv.FormatInt(v, 10)`. -/
def showInt (v : Int) : Bytes :=
  if v < 0 then 45 :: showDec v.natAbs else showDec v.natAbs

def hexUpper (n : Nat) : UInt8 := if n < 10 then UInt8.ofNat (48 + n) else UInt8.ofNat (55 + n)
def hexLower (n : Nat) : UInt8 := if n < 10 then UInt8.ofNat (48 + n) else UInt8.ofNat (87 + n)

/-- `0x%02X`. -/
def hexTok (b : UInt8) : Bytes := [48, 120, hexUpper (b.toNat / 16), hexUpper (b.toNat % 16)]

def showBinAux : Nat → Nat → Bytes → Bytes
  | 0, _, acc => acc
  | f+1, n, acc =>
    if n < 2 then digitChar n :: acc else showBinAux f (n / 2) (digitChar (n % 2) :: acc)

/-- `"0b" + strconv.FormatInt(b, 2)` (unpadded). -/
def binTok (b : UInt8) : Bytes := 48 :: 98 :: showBinAux 8 b.toNat []

/-! ### strconv.Quote on ASCII (W items) -/

def isPrintASCII (c : UInt8) : Bool := decide (32 ≤ c.toNat) && decide (c.toNat < 127)

/-- One byte < 0x80 inside `strconv.Quote` output. -/
def quoteByteASCII (c : UInt8) : Bytes :=
  if c = cDQ then [cBS, cDQ] else if c = cBS then [cBS, cBS]
  else if isPrintASCII c then [c]
  else if c = 7 then b!"\\a" else if c = 8 then b!"\\b" else if c = 12 then b!"\\f"
  else if c = 10 then b!"\\n" else if c = 13 then b!"\\r" else if c = 9 then b!"\\t"
  else if c = 11 then b!"\\v"
  else [cBS, 120, hexLower (c.toNat / 16), hexLower (c.toNat % 16)]

def isASCIIStr (s : Bytes) : Bool := s.all (fun c => decide (c.toNat < 128))

def quoteBodyASCII : Bytes → Bytes
  | [] => []
  | c :: cs => quoteByteASCII c ++ quoteBodyASCII cs

/-- `strconv.Quote(s)` (= `%q`). -/
def goQuote (O : Oracle) (s : Bytes) : Bytes :=
  if isASCIIStr s then cDQ :: (quoteBodyASCII s ++ [cDQ]) else O.quote s

/-! ### (a) Item.ToSML -/

def repeatB (unit : Bytes) : Nat → Bytes
  | 0 => []
  | n+1 => unit ++ repeatB unit n

/-- " tok" for every element. -/
def spaced {α} (f : α → Bytes) : List α → Bytes
  | [] => []
  | v :: vs => cSP :: (f v ++ spaced f vs)

def boolTok (b : Bool) : Bytes := if b then b!"True" else b!"False"

/-- `<TAG[n] v1 v2 …>`; both renderers produce exactly this for numeric / boolean / binary items
    (for n = 0 it is `<TAG[0]>`). -/
def numItem {α} (tag : Bytes) (f : α → Bytes) (vs : List α) : Bytes :=
  cLT :: (tag ++ (cLB :: (showDec vs.length ++ (cRB :: (spaced f vs ++ [cGT])))))

def intTag (w : Width) : Bytes := 73 :: showDec w.bytes
def uintTag (w : Width) : Bytes := 85 :: showDec w.bytes
def floatTag (w : FWidth) : Bytes := 70 :: showDec w.bytes

/-- `<A[n] "…">` / `<J[n] "…">` with the raw value between quotes. -/
def strItem (tag : UInt8) (q : UInt8) (s : Bytes) : Bytes :=
  cLT :: tag :: cLB :: (showDec s.length ++ (cRB :: cSP :: q :: (s ++ [q, cGT])))

/-- `ToSML` of a non-list item (secs2/{ascii,jis8,localized_str,binary,boolean,int,uint,float}.go). -/
def leafSML (O : Oracle) : Item → Bytes
  | .empty => []
  | .list _ => []
  | .binary bs => numItem b!"B" hexTok bs
  | .boolean vs => numItem b!"BOOLEAN" boolTok vs
  | .ascii s => strItem 65 cDQ s
  | .jis8 s => strItem 74 cDQ s
  | .lstr _ s => b!"<W " ++ (goQuote O s ++ [cGT])
  | .int w vs => numItem (intTag w) showInt vs
  | .uint w vs => numItem (uintTag w) showDec vs
  | .float w vs => numItem (floatTag w) (O.fmtF w) vs

def ind2 (level : Nat) : Bytes := repeatB [cSP, cSP] level

mutual
/-- `ListItem.formatSML(level)` for a list, `ToSML()` for every other item (level unused). -/
def toSMLAt (O : Oracle) (level : Nat) : Item → Bytes
  | .list cs =>
    match cs with
    | [] => ind2 level ++ b!"<L[0]>"
    | _ :: _ =>
      ind2 level ++ (b!"<L[" ++ (showDec cs.length ++ (b!"]\n" ++ (kidsSML O level cs ++ (ind2 level ++ [cGT])))))
  | it => leafSML O it
/-- The per-child lines of `formatSML(level)`. -/
def kidsSML (O : Oracle) (level : Nat) : List Item → Bytes
  | [] => []
  | c :: cs =>
    (match c with
     | .list _ => toSMLAt O (level + 1) c
     | _ => ind2 level ++ ([cSP, cSP] ++ toSMLAt O 0 c)) ++ (cNL :: kidsSML O level cs)
end

/-- `Item.ToSML()`. -/
def toSML (O : Oracle) (it : Item) : Bytes := toSMLAt O 0 it

/-! ### (b) sml.Encoder -/

inductive QuoteStyle where
  | double | single | none
  deriving DecidableEq, Repr, Inhabited

structure Opts where
  strict : Bool
  asciiQuote : QuoteStyle   -- as stored (WithASCIIQuote maps QuoteNone to QuoteDouble)
  sfQuote : QuoteStyle
  binLiteral : Bool
  indent : Bytes

/-- `NewEncoder()` with no options. -/
def defaultOpts : Opts := ⟨false, .double, .none, false, [cSP, cSP]⟩

/-- `WithASCIIQuote`. -/
def withASCIIQuote (q : QuoteStyle) (o : Opts) : Opts :=
  { o with asciiQuote := if q = .none then .double else q }

def Opts.quoteByte (o : Opts) : UInt8 := if o.asciiQuote = .single then cSQ else cDQ

/-- The run / token state machine of `writeStrictASCII` for a non-empty string. -/
def strictRuns (q : UInt8) : Bool → Bool → Bytes → Bytes
  | _, inRun, [] => if inRun then [q] else []
  | first, inRun, c :: cs =>
    if isPrintASCII c then
      (if inRun then [] else (if first then [] else [cSP]) ++ [q]) ++
        ((if c = q ∨ c = cBS ∨ c = cGT then [cBS] else []) ++ (c :: strictRuns q false true cs))
    else
      (if inRun then [q] else []) ++
        ((if first then [] else [cSP]) ++ ([48, 120, hexUpper (c.toNat / 16), hexUpper (c.toNat % 16)] ++
          strictRuns q false false cs))

/-- `writeStrictASCII`. -/
def writeStrictASCII (q : UInt8) (s : Bytes) : Bytes :=
  match s with
  | [] => [q, q]
  | _ => strictRuns q true false s

/-- `Encoder.encodeString`. -/
def encodeString (tag : UInt8) (q : UInt8) (strict : Bool) (s : Bytes) : Bytes :=
  if strict then
    cLT :: tag :: cLB :: (showDec s.length ++ (cRB :: cSP :: (writeStrictASCII q s ++ [cGT])))
  else strItem tag q s

/-- `Encoder.encodeItem` for a non-list item. -/
def encodeLeaf (O : Oracle) (o : Opts) : Item → Bytes
  | .empty => []
  | .list _ => []
  | .binary bs => numItem b!"B" (if o.binLiteral then binTok else hexTok) bs
  | .boolean vs => numItem b!"BOOLEAN" boolTok vs
  | .ascii s => encodeString 65 o.quoteByte o.strict s
  | .jis8 s => encodeString 74 o.quoteByte false s
  | .lstr _ s => b!"<W " ++ (goQuote O s ++ [cGT])
  | .int w vs => numItem (intTag w) showInt vs
  | .uint w vs => numItem (uintTag w) showDec vs
  | .float w vs => numItem (floatTag w) (O.fmtF w) vs

mutual
/-- `Encoder.encodeItem(sb, it, level)` (lists: `encodeList`). -/
def encodeItem (O : Oracle) (o : Opts) (level : Nat) : Item → Bytes
  | .list cs =>
    match cs with
    | [] => repeatB o.indent level ++ b!"<L[0]>"
    | _ :: _ =>
      repeatB o.indent level ++ (b!"<L[" ++ (showDec cs.length ++ (b!"]\n" ++
        (encodeKids O o level cs ++ (repeatB o.indent level ++ [cGT])))))
  | it => encodeLeaf O o it
def encodeKids (O : Oracle) (o : Opts) (level : Nat) : List Item → Bytes
  | [] => []
  | c :: cs =>
    (match c with
     | .list _ => encodeItem O o (level + 1) c
     | _ => repeatB o.indent (level + 1) ++ encodeItem O o (level + 1) c) ++ (cNL :: encodeKids O o level cs)
end

/-- `sml.Encode(item)`. -/
def encodeDefault (O : Oracle) (it : Item) : Bytes := encodeItem O defaultOpts 0 it

/-- A data message as SML sees it: stream, function, W-bit, body. -/
structure Msg where
  s : Nat
  f : Nat
  w : Bool
  body : Item
  deriving Inhabited

def sfQuoteBytes : QuoteStyle → Bytes
  | .single => [cSQ] | .double => [cDQ] | .none => []

/-- `Encoder.writeHeader`. -/
def writeHeader (o : Opts) (m : Msg) : Bytes :=
  sfQuoteBytes o.sfQuote ++ (83 :: (showDec m.s ++ (70 :: (showDec m.f ++ (sfQuoteBytes o.sfQuote ++
    (if m.w then b!" W" else []))))))

/-- `Encoder.EncodeMessage`. -/
def encodeMsg (O : Oracle) (o : Opts) (m : Msg) : Bytes :=
  writeHeader o m ++ (cNL :: (encodeItem O o 0 m.body ++ b!"\n."))

/-! ### Token parsing (modelled subset of strconv.ParseInt/ParseUint base 0) -/

def isDigit (c : UInt8) : Bool := decide (48 ≤ c.toNat) && decide (c.toNat ≤ 57)

/-- Value of a digit string in base 10 (`acc` = value so far). -/
def decVal (acc : Nat) : Bytes → Nat
  | [] => acc
  | c :: cs => decVal (acc * 10 + (c.toNat - 48)) cs

/-- Non-empty, all digits, no leading zero unless the token is "0": what base-0 parsing reads as decimal. -/
def canonDec : Bytes → Bool
  | [] => false
  | [c] => isDigit c
  | c :: cs => isDigit c && c != 48 && cs.all isDigit

def hexDigitVal (c : UInt8) : Option Nat :=
  if isDigit c then some (c.toNat - 48)
  else if 65 ≤ c.toNat ∧ c.toNat ≤ 70 then some (c.toNat - 55)
  else if 97 ≤ c.toNat ∧ c.toNat ≤ 102 then some (c.toNat - 87)
  else none

def hexVal (acc : Nat) : Bytes → Option Nat
  | [] => some acc
  | c :: cs => match hexDigitVal c with
    | some d => hexVal (acc * 16 + d) cs
    | none => none

def binVal (acc : Nat) : Bytes → Option Nat
  | [] => some acc
  | c :: cs => if c = 48 then binVal (acc * 2) cs else if c = 49 then binVal (acc * 2 + 1) cs else none

/-- Unsigned literal in the modelled subset: canonical decimal, `0x`/`0X` hex, `0b`/`0B` binary
    (no underscores).  `none` = outside the subset (ask the oracle). -/
def natLit (tok : Bytes) : Option Nat :=
  if canonDec tok then some (decVal 0 tok)
  else match tok with
    | 48 :: x :: d :: ds =>
      if x = 120 ∨ x = 88 then hexVal 0 (d :: ds)
      else if x = 98 ∨ x = 66 then binVal 0 (d :: ds)
      else none
    | _ => none

/-- `strconv.ParseUint(tok, 0, 64)`: value, `none` on syntax or range error. -/
def parseUint64 (O : Oracle) (tok : Bytes) : Option Nat :=
  match natLit tok with
  | some v => if v < 2 ^ 64 then some v else none
  | none => O.parseU tok

/-- `strconv.ParseInt(tok, 0, 64)`. -/
def parseInt64 (O : Oracle) (tok : Bytes) : Option Int :=
  match natLit tok with
  | some v => if v < 2 ^ 63 then some (v : Int) else none
  | none =>
    match tok with
    | 45 :: rest =>
      if canonDec rest then
        (let v := decVal 0 rest
         if v ≤ 2 ^ 63 then some (-(v : Int)) else none)
      else O.parseI tok
    | _ => O.parseI tok

/-- `ParseUint(tok, 0, 8·k)`. -/
def parseUintW (O : Oracle) (k : Nat) (tok : Bytes) : Option Nat :=
  match parseUint64 O tok with
  | some v => if v < 256 ^ k then some v else none
  | none => none

/-- `ParseInt(tok, 0, 8·k)`. -/
def parseIntW (O : Oracle) (k : Nat) (tok : Bytes) : Option Int :=
  match parseInt64 O tok with
  | some v => if intLo k ≤ v ∧ v ≤ intHi k then some v else none
  | none => none

/-- ASCII upper-casing plus the one non-ASCII rune `strings.ToUpper` maps onto a letter of
    TRUE/FALSE: U+017F (C5 BF) ↦ 'S'. -/
def upperTok : Bytes → Bytes
  | [] => []
  | 0xC5 :: 0xBF :: r => 83 :: upperTok r
  | c :: r => (if 97 ≤ c.toNat ∧ c.toNat ≤ 122 then c - 32 else c) :: upperTok r

def parseBoolTok (tok : Bytes) : Option Bool :=
  let u := upperTok tok
  if u = b!"TRUE" ∨ u = b!"T" then some true
  else if u = b!"FALSE" ∨ u = b!"F" then some false
  else none

/-- `ParseInt(tok, 0, 0)` then the `[0,256)` check of `parseBinary`. -/
def parseBinTok (O : Oracle) (tok : Bytes) : Option UInt8 :=
  match parseInt64 O tok with
  | some v => if 0 ≤ v ∧ v < 256 then some (UInt8.ofNat v.toNat) else none
  | none => none

/-- `ParseUint(numStr, 0, 0)` then the `> MaxLatin1` check of `parseASCIIStrict`. -/
def parseCharTok (O : Oracle) (tok : Bytes) : Option UInt8 :=
  match parseUint64 O tok with
  | some v => if v ≤ 255 then some (UInt8.ofNat v) else none
  | none => none

/-! ### strings.Fields -/

/-- Width of the `unicode.IsSpace` rune starting here, 0 if none. -/
def spaceWidth : Bytes → Nat
  | 0xC2 :: 0x85 :: _ => 2
  | 0xC2 :: 0xA0 :: _ => 2
  | 0xE1 :: 0x9A :: 0x80 :: _ => 3
  | 0xE2 :: 0x80 :: b :: _ =>
    if (0x80 ≤ b.toNat ∧ b.toNat ≤ 0x8A) ∨ b = 0xA8 ∨ b = 0xA9 ∨ b = 0xAF then 3 else 0
  | 0xE2 :: 0x81 :: 0x9F :: _ => 3
  | 0xE3 :: 0x80 :: 0x80 :: _ => 3
  | c :: _ => if (9 ≤ c.toNat ∧ c.toNat ≤ 13) ∨ c = 32 then 1 else 0
  | [] => 0

/-- `strings.Fields`: `cur` is the current token reversed, `skip` the remaining bytes of a
    multi-byte space rune. -/
def fieldsAux : Bytes → Nat → Bytes → List Bytes
  | cur, _, [] => if cur.isEmpty then [] else [cur.reverse]
  | cur, skip+1, _ :: r => fieldsAux cur skip r
  | cur, 0, c :: r =>
    match spaceWidth (c :: r) with
    | 0 => fieldsAux (c :: cur) 0 r
    | w+1 => if cur.isEmpty then fieldsAux [] w r else cur.reverse :: fieldsAux [] w r

def fields (bs : Bytes) : List Bytes := fieldsAux [] 0 bs

/-! ### UTF-8 decoding as `for _, ch := range s` performs it -/

def isCont (b : UInt8) : Bool := decide (0x80 ≤ b.toNat) && decide (b.toNat ≤ 0xBF)

/-- Width (2..4) of the valid multi-byte sequence starting here, 0 if the first byte is invalid
    here (Go then yields U+FFFD and advances one byte). -/
def utf8Width : Bytes → Nat
  | b0 :: b1 :: r =>
    let n0 := b0.toNat
    let n1 := b1.toNat
    if 0xC2 ≤ n0 ∧ n0 ≤ 0xDF then (if isCont b1 then 2 else 0)
    else if 0xE0 ≤ n0 ∧ n0 ≤ 0xEF then
      let lo := if n0 = 0xE0 then 0xA0 else 0x80
      let hi := if n0 = 0xED then 0x9F else 0xBF
      if lo ≤ n1 ∧ n1 ≤ hi then
        (match r with | b2 :: _ => if isCont b2 then 3 else 0 | [] => 0)
      else 0
    else if 0xF0 ≤ n0 ∧ n0 ≤ 0xF4 then
      let lo := if n0 = 0xF0 then 0x90 else 0x80
      let hi := if n0 = 0xF4 then 0x8F else 0xBF
      if lo ≤ n1 ∧ n1 ≤ hi then
        (match r with | b2 :: b3 :: _ => if isCont b2 && isCont b3 then 4 else 0 | _ => 0)
      else 0
    else 0
  | _ => 0

/-- Bytes that `WriteRune(ch)` / `string(ch)` produce for the rune starting at this (≥ 0x80) byte,
    and how many further input bytes belong to it. -/
def runeOut (bs : Bytes) : Bytes × Nat :=
  match utf8Width bs with
  | 0 => ([0xEF, 0xBF, 0xBD], 0)
  | w+1 => (bs.take (w+1), w)

/-! ### (c) Parser -/

/-- Parser scan state (`Parser.pos`, `Parser.data`, `Parser.len`) plus the two resource counters. -/
structure St where
  pos : Nat
  data : Bytes
  len : Nat
  alloc : Nat      -- bytes requested by `make(…, 0, size)` / `sb.Grow(size)` from size hints
  maxDepth : Nat   -- deepest `parseItem` activation so far
  deriving Inhabited

inductive ErrKind where
  | syn (off : Nat)   -- *ParseError at this raw offset (before newParseError's clamp)
  | plain             -- error from hsms.NewDataMessage (invalid reply flag, item error)
  | panic             -- run-time panic (index out of range)
  deriving DecidableEq, Repr, Inhabited

structure Fail where
  kind : ErrKind
  alloc : Nat
  maxDepth : Nat
  deriving Inhabited

abbrev P (α : Type) := Except Fail (α × St)

def synAt {α} (off : Nat) (st : St) : Except Fail α := .error ⟨.syn off, st.alloc, st.maxDepth⟩
def syn {α} (st : St) : Except Fail α := synAt st.pos st

def isWS (c : UInt8) : Bool := c = 32 || c = 9 || c = 13 || c = 10

/-- `Parser.forward(n)`. -/
def fwd (n : Nat) (st : St) : St :=
  if lenLt st.data n then st else { st with pos := st.pos + n, data := st.data.drop n }

/-- Leading white-space count and the rest. -/
def wsSpan : Nat → Bytes → Nat × Bytes
  | n, [] => (n, [])
  | n, c :: r => if isWS c then wsSpan (n + 1) r else (n, c :: r)

/-- `Parser.skipSpace`: moves to the first non-space byte; false (and no move) if there is none. -/
def skipSpace (st : St) : Bool × St :=
  match wsSpan 0 st.data with
  | (_, []) => (false, st)
  | (n, r) => (true, { st with pos := st.pos + n, data := r })

def indexByte (b : UInt8) : Nat → Bytes → Option Nat
  | _, [] => none
  | i, c :: r => if c = b then some i else indexByte b (i + 1) r

/-- `strings.Index(data, "*/")`. -/
def indexStarSlash : Nat → Bytes → Option Nat
  | _, [] => none
  | i, c :: r =>
    match r with
    | d :: _ => if c = 42 ∧ d = 47 then some i else indexStarSlash (i + 1) r
    | [] => none

/-- `strings.IndexAny(data, "\n.")`. -/
def indexTerm : Nat → Bytes → Option Nat
  | _, [] => none
  | i, c :: r => if c = cNL ∨ c = cDot then some i else indexTerm (i + 1) r

/-- `Parser.skipComment`: white space, then at most one comment. -/
def skipComment (st : St) : St :=
  match skipSpace st with
  | (false, st) => st
  | (true, st) =>
    match st.data with
    | 47 :: 47 :: _ =>
      (match indexByte cNL 0 st.data with
       | none => st
       | some i => fwd (i + 1) st)
    | 47 :: 42 :: _ =>
      (match indexStarSlash 0 st.data with
       | none => st
       | some i => fwd (i + 2) st)
    | _ => st

/-- `peekRune` (none = eof). -/
def peekRune (st : St) : Option UInt8 := st.data.head?

/-- `peekNonSpaceRune`. -/
def peekNS (st : St) : Option UInt8 × St :=
  match skipSpace st with
  | (false, st) => (none, st)
  | (true, st) => (st.data.head?, st)

/-- `nextRune`. -/
def nextRune (st : St) : Option UInt8 × St :=
  match st.data with
  | [] => (none, st)
  | c :: r => (some c, { st with pos := st.pos + 1, data := r })

/-- `nextNonSpaceRune`. -/
def nextNS (st : St) : Option UInt8 × St :=
  match skipSpace st with
  | (false, st) => (none, st)
  | (true, st) => nextRune st

/-- Leading digit count. -/
def digitSpan : Nat → Bytes → Nat × Bytes
  | n, [] => (n, [])
  | n, c :: r => if isDigit c then digitSpan (n + 1) r else (n, c :: r)

/-- `nextCode` (limit 255) / `nextItemSize` (limit 2^31−1): a non-empty digit run followed by a
    non-digit, value within the limit. -/
def nextNumber (limit : Nat) (st : St) : P Nat :=
  match st.data with
  | [] => syn st
  | _ =>
    match digitSpan 0 st.data with
    | (_, []) => syn st
    | (0, _) => syn st
    | (k, r) =>
      let v := decVal 0 (st.data.take k)
      if v ≤ limit then .ok (v, { st with pos := st.pos + k, data := r }) else syn st

def upperB (c : UInt8) : UInt8 := if 97 ≤ c.toNat ∧ c.toNat ≤ 122 then c - 32 else c

inductive Ty where
  | list | ascii | jis8 | lstr | boolean | binary
  | float (w : FWidth) | int (w : Width) | uint (w : Width)
  deriving DecidableEq, Repr, Inhabited

def widthOfDigit (c : UInt8) : Option Width :=
  if c = 49 then some .w1 else if c = 50 then some .w2 else if c = 52 then some .w4
  else if c = 56 then some .w8 else none

/-- `parseItemType` after its `skipSpace`: the type and the number of bytes it forwards. -/
def parseItemType (data : Bytes) : Option (Ty × Nat) :=
  match data with
  | [] => none
  | c0 :: r =>
    let f := upperB c0
    if f = 76 then some (.list, 1)
    else if f = 65 then some (.ascii, 1)
    else if f = 74 then some (.jis8, 1)
    else if f = 87 then some (.lstr, 1)
    else if f = 66 then
      match r with
      | [] => some (.binary, 1)
      | c1 :: _ =>
        let s := upperB c1
        if s = 79 then
          (if (data.take 7).map upperB = b!"BOOLEAN" then some (.boolean, 7) else some (.binary, 1))
        else if s = cSP ∨ s = cLB then some (.binary, 1)
        else none
    else if f = 70 then
      match r with
      | [] => none
      | c1 :: _ => if c1 = 52 then some (.float .f4, 2) else if c1 = 56 then some (.float .f8, 2) else none
    else if f = 73 then
      match r with
      | [] => none
      | c1 :: _ => (widthOfDigit c1).map (fun w => (.int w, 2))
    else if f = 85 then
      match r with
      | [] => none
      | c1 :: _ => (widthOfDigit c1).map (fun w => (.uint w, 2))
    else none

def maxInt32 : Nat := 2147483647

/-- `parseItemSize`; `last` is the byte just before `st` (needed by the `backward(1)` that follows
    a `nextNonSpaceRune` which hit end of input without moving). Returns (minSize, maxSize). -/
def parseItemSize (last : UInt8) (st : St) : P (Nat × Nat) :=
  match skipSpace st with
  | (false, _) => .ok ((0, 0), { st with pos := st.pos - 1, data := last :: st.data })
  | (true, st1) =>
    match st1.data with
    | [] => .ok ((0, 0), st1)
    | c :: r =>
      if c ≠ cLB then .ok ((0, 0), st1)
      else
        let st2 : St := { st1 with pos := st1.pos + 1, data := r }
        let fin (mn mx : Nat) (st : St) : P (Nat × Nat) :=
          match nextNS st with
          | (some 93, st') => if mn > mx then syn st' else .ok ((mn, mx), st')
          | (_, st') => syn st'
        match peekNS st2 with
        | (some 46, st3) =>
          (match nextNumber maxInt32 (fwd 2 st3) with
           | .error e => .error e
           | .ok (mx, st4) => fin 0 mx st4)
        | (_, st3) =>
          match nextNumber maxInt32 st3 with
          | .error e => .error e
          | .ok (mn, st4) =>
            match peekNS st4 with
            | (some 46, st5) =>
              let st6 := fwd 2 st5
              if peekRune st6 = some cRB then fin mn mn st6
              else (match nextNumber maxInt32 st6 with
                | .error e => .error e
                | .ok (mx, st7) => fin mn mx st7)
            | (_, st5) => fin mn mn st5

/-- `getItemValueStrings`, the `make(…, 0, len(values))` of `k`-byte elements, and the per-token
    conversion; every failure is reported at `start`. -/
def parseValues {α} (k : Nat) (conv : Bytes → Option α) (st : St) : P (List α) :=
  match indexByte cGT 0 st.data with
  | none => syn { st with alloc := st.alloc + k }      -- `[]string{""}`: one empty token, fails every conversion
  | some i =>
    let toks := fields (st.data.take i)
    let st : St := { st with alloc := st.alloc + k * toks.length }
    match toks.mapM conv with
    | none => syn st
    | some vs => .ok (vs, { st with pos := st.pos + (i + 1), data := st.data.drop (i + 1) })

/-- Quote detection of `parseASCIIStrict`: the first `'` or `"` before the first `>`. -/
def detectQuote : Bytes → UInt8
  | [] => cDQ
  | c :: r => if c = cGT then cDQ else if c = cSQ ∨ c = cDQ then c else detectQuote r

inductive AMode where
  | dflt
  | quoted (esc : Bool)
  | num (tok : Bytes)      -- numStr so far, reversed
  deriving Inhabited

/-- The `for i, ch := range p.data` loop of `parseASCIIStrict`.  `acc` is the builder content
    reversed, `i` the byte index, `skip` the remaining bytes of the current multi-byte rune.
    Result: the item's bytes and the number of input bytes consumed (`i+1` at the accepting `>`);
    `none` = any of its errors (all reported at the position where the value started). -/
def strictLoop (O : Oracle) (q : UInt8) : AMode → Bytes → Nat → Nat → Bytes → Option (Bytes × Nat)
  | _, _, _, _, [] => none
  | m, acc, i, skip+1, _ :: r => strictLoop O q m acc (i + 1) skip r
  | m, acc, i, 0, c :: r =>
    let ro : Bytes × Nat := if c.toNat < 128 then ([c], 0) else runeOut (c :: r)
    match m with
    | .quoted esc =>
      if c = cBS then
        (if esc then strictLoop O q (.quoted false) (c :: acc) (i + 1) 0 r
         else strictLoop O q (.quoted true) acc (i + 1) 0 r)
      else if c = q then
        (if esc then strictLoop O q (.quoted false) (c :: acc) (i + 1) 0 r
         else strictLoop O q .dflt acc (i + 1) 0 r)
      else if c = cGT then
        (if esc then strictLoop O q (.quoted false) (c :: acc) (i + 1) 0 r else none)
      else strictLoop O q (.quoted false) (ro.1.reverse ++ acc) (i + 1) ro.2 r
    | .num tok =>
      if c = cSP then
        (match parseCharTok O tok.reverse with
         | none => none
         | some b => strictLoop O q .dflt (b :: acc) (i + 1) 0 r)
      else if c = cGT then
        (match parseCharTok O tok.reverse with
         | none => none
         | some b => some ((b :: acc).reverse, i + 1))
      else strictLoop O q (.num (ro.1.reverse ++ tok)) acc (i + 1) ro.2 r
    | .dflt =>
      if c = q then strictLoop O q (.quoted false) acc (i + 1) 0 r
      else if c = cSP then strictLoop O q .dflt acc (i + 1) 0 r
      else if c = cGT then some (acc.reverse, i + 1)
      else strictLoop O q (.num ro.1.reverse) acc (i + 1) ro.2 r

/-- `min(size, strings.IndexByte(p.data, '>')+1)`: what `sb.Grow` reserves. -/
def asciiPrealloc (size : Nat) (data : Bytes) : Nat :=
  match indexByte cGT 0 data with
  | none => 0
  | some i => min size (i + 1)

/-- `parseASCIIStrict(size)`. -/
def parseASCIIStrict (O : Oracle) (size : Nat) (st : St) : P Item :=
  let st := { st with alloc := st.alloc + asciiPrealloc size st.data }
  match strictLoop O (detectQuote st.data) .dflt [] 0 0 st.data with
  | none => syn st
  | some (s, n) => .ok (.ascii s, fwd n st)

inductive Close where
  | no | yes (n : Nat)
  deriving DecidableEq, Repr, Inhabited

/-- The white-space scan of `checkASCIICloseQuote` from index `nidx` of `p.data`. -/
def closeScan : Nat → Bytes → Close
  | _, [] => .no
  | nidx, c :: r =>
    if isWS c then closeScan (nidx + 1) r else if c = cGT then .yes (nidx + 1) else .no

/-- `checkASCIICloseQuote(idx, q)` where `rest = p.data[idx:]` is non-empty at every call site. -/
def checkClose (q : UInt8) (idx : Nat) (rest : Bytes) : Close :=
  match rest with
  | [] => .no
  | c :: r => if r.isEmpty ∨ c ≠ q then .no else closeScan (idx + 1) r

/-- The byte-by-byte fallback loop of `parseASCIIFast`; `pre` = `p.data[:i]` reversed. -/
def fastLoop (q : UInt8) : Bytes → Nat → Bytes → Option (Bytes × Nat)
  | _, _, [] => none
  | pre, i, c :: r =>
    match checkClose q i (c :: r) with
    | .yes n => some (pre.reverse, n)
    | .no => fastLoop q (c :: pre) (i + 1) r

/-- `parseASCIIFast(maxSize)`. -/
def parseASCIIFast (maxSize : Nat) (st : St) : P Item :=
  match nextNS st with
  | (some 62, st) => .ok (.ascii [], st)
  | (some c, st) =>
    if c ≠ cSQ ∧ c ≠ cDQ then syn st
    else
      let slow : P Item :=
        match fastLoop c [] 0 st.data with
        | none => syn st
        | some (s, n) => .ok (.ascii s, fwd n st)
      if maxSize > 0 then
        if lenLt st.data (maxSize + 2) then syn st
        else match checkClose c maxSize (st.data.drop maxSize) with
          | .yes n => .ok (.ascii (st.data.take maxSize), fwd n st)
          | .no => slow
      else slow
  | (none, st) => syn st

/-- The scan shared by `parseJIS8` and `parseLocalizedStr`: `(lastQuotePos, i)` at the first `>`
    with `lastQuotePos ≥ i−1`. -/
def scanQuoted (q : UInt8) : Nat → Nat → Bytes → Option (Nat × Nat)
  | _, _, [] => none
  | i, lq, c :: r =>
    if c = q then scanQuoted q (i + 1) i r
    else if c = cGT then (if lq + 1 < i then scanQuoted q (i + 1) lq r else some (lq, i))
    else scanQuoted q (i + 1) lq r

/-- `unquoteLocalizedStr(data, quoteCh)`: double-quoted text with a backslash that is a valid Go
    string-literal body is unquoted, everything else is taken as it stands. -/
def unquoteW (O : Oracle) (q : UInt8) (data : Bytes) : Bytes :=
  if q ≠ cDQ ∨ !(data.contains cBS) then data
  else match O.unquote data with
    | some s => s
    | none => data

/-- `parseJIS8` / `parseLocalizedStr` (`mk` gets the quote character and the text between the quotes). -/
def parseQuoted (mk : UInt8 → Bytes → Item) (st : St) : P Item :=
  match nextNS st with
  | (some 62, st) => .ok (mk cDQ [], st)
  | (some c, st) =>
    if c ≠ cSQ ∧ c ≠ cDQ then syn st
    else match scanQuoted c 0 0 st.data with
      | none => syn st
      | some (lq, i) => .ok (mk c (st.data.take lq), fwd (i + 1) st)
  | (none, st) => syn st

def bumpAlloc (n : Nat) (st : St) : St := { st with alloc := st.alloc + n }

/-- `maxListPrealloc`. -/
def maxListPrealloc : Nat := 64

/-- `min(size, len(p.data)/3, maxListPrealloc)` (only the first 3·64 bytes of `data` matter). -/
def listPrealloc (size : Nat) (data : Bytes) : Nat :=
  min size (min ((data.take (3 * maxListPrealloc)).length / 3) maxListPrealloc)

/-- The body of a non-list item: the `switch itemType` arms of `parseItem` other than the list's
    (`size` = the maxSize hint; only the strict-ASCII arm still looks at it, capped by the input). -/
def parseLeaf (O : Oracle) (strict : Bool) (ty : Ty) (size : Nat) (st : St) : P Item :=
  match ty with
  | .list => syn st     -- not used: `parseItem` handles lists itself
  | .ascii => if strict then parseASCIIStrict O size st else parseASCIIFast size st
  | .jis8 => parseQuoted (fun _ s => .jis8 s) st
  | .lstr => parseQuoted (fun q s => .lstr 2 (unquoteW O q s)) st
  | .boolean =>
    (match parseValues 1 parseBoolTok st with
     | .error e => .error e | .ok (vs, st) => .ok (.boolean vs, st))
  | .binary =>
    (match parseValues 1 (parseBinTok O) st with
     | .error e => .error e | .ok (vs, st) => .ok (.binary vs, st))
  | .float w =>
    (match parseValues 8 (O.parseF w) st with
     | .error e => .error e | .ok (vs, st) => .ok (.float w vs, st))
  | .int w =>
    (match parseValues 8 (parseIntW O w.bytes) st with
     | .error e => .error e | .ok (vs, st) => .ok (.int w vs, st))
  | .uint w =>
    (match parseValues 8 (parseUintW O w.bytes) st with
     | .error e => .error e | .ok (vs, st) => .ok (.uint w vs, st))

mutual
/-- `parseItem`; `depth` = number of enclosing `parseItem` activations + 1 (= `p.depth + 1`): a list
    is refused when `p.depth >= MaxListDepth`, i.e. `depth > maxListDepth`. -/
def parseItem (O : Oracle) (strict : Bool) : Nat → Nat → St → P Item
  | 0, _, st => syn st      -- out of fuel (never with fuel ≥ |input|+1)
  | fuel+1, depth, st =>
    let st := { st with maxDepth := max st.maxDepth depth }
    match nextNS st with
    | (some 60, st) =>
      let st := (skipSpace st).2
      (match parseItemType st.data with
       | none => syn st
       | some (ty, k) =>
         let last := (st.data.drop (k - 1)).headD 0
         match parseItemSize last (fwd k st) with
         | .error e => .error e
         | .ok ((_, size), st) =>
           let st := skipComment st
           let r : P Item :=
             match ty with
             | .list =>
               if depth > maxListDepth then syn st
               else parseList O strict fuel depth [] (bumpAlloc (16 * listPrealloc size st.data) st)
             | _ => parseLeaf O strict ty size st
           match r with
           | .error e => .error e
           | .ok (it, st) => .ok (it, skipComment st))
    | (_, st) => syn st
/-- The loop of `parseList`; `acc` = children so far, reversed. -/
def parseList (O : Oracle) (strict : Bool) : Nat → Nat → List Item → St → P Item
  | 0, _, _, st => syn st
  | fuel+1, depth, acc, st =>
    match peekNS st with
    | (some 60, st) =>
      (match parseItem O strict fuel (depth + 1) st with
       | .error e => .error e
       | .ok (it, st) => parseList O strict fuel depth (it :: acc) st)
    | (some 62, st) =>
      .ok (.list acc.reverse, { st with pos := st.pos + 1, data := st.data.drop 1 })
    | (_, st) => syn st
end

mutual
/-- Does `NewDataMessage` accept the body (no deferred item error)?  Only the E5 size caps can
    make a parsed item carry an error. -/
def sizeOK : Item → Bool
  | .empty => true
  | .list cs => decide (cs.length ≤ maxByteSize) && sizeOKL cs
  | .binary bs => decide (bs.length ≤ maxByteSize)
  | .boolean vs => decide (vs.length ≤ maxByteSize)
  | .ascii s => decide (s.length ≤ maxByteSize)
  | .jis8 s => decide (s.length ≤ maxByteSize)
  | .lstr _ s => decide (s.length + 2 ≤ maxByteSize)
  | .int w vs => decide (vs.length * w.bytes ≤ maxByteSize)
  | .uint w vs => decide (vs.length * w.bytes ≤ maxByteSize)
  | .float w vs => decide (vs.length * w.bytes ≤ maxByteSize)
def sizeOKL : List Item → Bool
  | [] => true
  | c :: cs => sizeOK c && sizeOKL cs
end

/-- The optional message name: everything up to the first `:` that lies before
    `max(first newline-or-dot, first '<')` is skipped. -/
def skipName (st : St) (firstTerm : Nat) : St :=
  let i := match indexByte cLT 0 st.data with
    | none => firstTerm
    | some b => max firstTerm b
  match indexByte 58 0 (st.data.take i) with
  | none => st
  | some m => fwd (m + 1) st

/-- `ch := p.peekNonSpaceRune(); if ch == '\'' || ch == '"' { p.forward(1) }`. -/
def skipQuote (st : St) : St :=
  match peekNS st with
  | (some c, st) => if c = cSQ ∨ c = cDQ then fwd 1 st else st
  | (none, st) => st

/-- The optional `W` after the stream/function code. -/
def headerWBit (s f : Nat) (st : St) : P (Nat × Nat × Bool) :=
  match peekNS st with
  | (some 87, st) => .ok ((s, f, true), fwd 1 st)
  | (_, st) => .ok ((s, f, false), st)

/-- `parseHSMSHeader`: (stream, function, wbit). -/
def parseHeaderLine (st : St) : P (Nat × Nat × Bool) :=
  match indexTerm 0 st.data with
  | none => syn st
  | some firstTerm =>
    match nextRune (skipQuote (skipName st firstTerm)) with
    | (some 83, st) =>
      (match nextNumber 255 st with
       | .error e => .error e
       | .ok (s, st) =>
         if s > 127 then syn st
         else match nextRune st with
           | (some 70, st) =>
             (match nextNumber 255 st with
              | .error e => .error e
              | .ok (f, st) => headerWBit s f (skipQuote st))
           | (_, st) => syn st)
    | (_, st) => syn st

def plainErr {α} (st : St) : Except Fail α := .error ⟨.plain, st.alloc, st.maxDepth⟩

/-- `parseText` after its `skipComment`: a `.` means an empty body.  The fuel `2·(bytes left) + 1`
    never runs out (`fuel_suffices`: every larger fuel gives the same result). -/
def parseBody (O : Oracle) (strict : Bool) (st : St) : P Item :=
  match peekNS st with
  | (some 46, st) => .ok (.empty, st)
  | (_, st) => parseItem O strict (2 * st.data.length + 1) 1 st

/-- `parseMsg(headerOnly)`: `none` = no more messages. -/
def parseMsg (O : Oracle) (strict headerOnly : Bool) (st : St) : P (Option Msg) :=
  let st := skipComment st
  match peekNS st with
  | (none, st) => .ok (none, st)
  | (some _, st) =>
    match parseHeaderLine st with
    | .error e => .error e
    | .ok ((s, f, w), st) =>
      if headerOnly then
        (if w ∧ f % 2 = 0 then plainErr st else .ok (some ⟨s, f, w, .empty⟩, st))
      else
        match parseBody O strict (skipComment st) with
        | .error e => .error e
        | .ok (it, st) =>
          match nextNS st with
          | (some 46, st) =>
            if !sizeOK it then plainErr st
            else if w ∧ f % 2 = 0 then plainErr st
            else .ok (some ⟨s, f, w, it⟩, st)
          | (_, st) => syn st

/-- The loop of `Parser.Parse`. -/
def parseLoop (O : Oracle) (strict : Bool) : Nat → List Msg → St → Except Fail (List Msg × St)
  | 0, acc, st => .ok (acc.reverse, st)
  | fuel+1, acc, st =>
    match parseMsg O strict false st with
    | .error e => .error e
    | .ok (none, st) => .ok (acc.reverse, st)
    | .ok (some m, st) => parseLoop O strict fuel (m :: acc) st

/-! ### (d) newParseError -/

structure Pos where
  offset : Nat
  line : Nat
  col : Nat
  deriving DecidableEq, Repr, Inhabited

/-- The line/col loop over `input[0:offset)`. -/
def lineCol : Nat → Nat → Nat → Bytes → Nat × Nat
  | _, line, col, [] => (line, col)
  | 0, line, col, _ => (line, col)
  | n+1, line, col, c :: r => if c = cNL then lineCol n (line + 1) 1 r else lineCol n line (col + 1) r

/-- `newParseError(input, offset, _)`. -/
def newParseError (input : Bytes) (offset : Nat) : Pos :=
  let off := if offset > input.length then input.length else offset
  let lc := lineCol off 1 1 input
  ⟨off, lc.1, lc.2⟩

/-! ### Entry points -/

inductive Res where
  | ok (ms : List Msg)
  | noMessage
  | syntax (p : Pos)
  | plain
  | panic
  deriving Inhabited

structure Out where
  res : Res
  alloc : Nat
  maxDepth : Nat
  deriving Inhabited

def initSt (input : Bytes) : St := ⟨0, input, input.length, 0, 0⟩

def failOut (input : Bytes) (e : Fail) : Out :=
  match e.kind with
  | .syn off => ⟨.syntax (newParseError input off), e.alloc, e.maxDepth⟩
  | .plain => ⟨.plain, e.alloc, e.maxDepth⟩
  | .panic => ⟨.panic, e.alloc, e.maxDepth⟩

/-- `Parser.Parse(input)`. -/
def parseAll (O : Oracle) (strict : Bool) (input : Bytes) : Out :=
  match parseLoop O strict (input.length + 1) [] (initSt input) with
  | .error e => failOut input e
  | .ok (ms, st) => ⟨.ok ms, st.alloc, st.maxDepth⟩

/-- `Parser.ParseMessage(input)` (`headerOnly = false`) / `Parser.ParseHeader(input)`. -/
def parseOne (O : Oracle) (strict headerOnly : Bool) (input : Bytes) : Out :=
  match parseMsg O strict headerOnly (initSt input) with
  | .error e => failOut input e
  | .ok (none, st) => ⟨.noMessage, st.alloc, st.maxDepth⟩
  | .ok (some m, st) => ⟨.ok [m], st.alloc, st.maxDepth⟩

end GoSecs.Sml
