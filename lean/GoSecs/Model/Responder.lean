/-
  Model of the HSMS-SS receive-side control logic, transcribed from the Go code:

    hsmsss/transport_recv.go      dispatchFrame            -> `dispatch`
    hsmsss/transport_control.go   handleSelectReq / handleDeselectReq / handleLinktestReq /
                                  handleSeparateReq / sendReject / sendRejectNotSelected /
                                  sendRejectTransactionNotOpen
    hsmsss/transport_active.go    startActive / runSelectProcedure -> `Ev.tcpUp`, `Ev.t6Select`, `handleResponse`
    hsmsss/transport_procedures.go armT7 / cancelT7 / runT7   -> the `t7` flag, `Ev.t7`
    hsmsss/transport_recv.go      readFrame / readN T8         -> `Ev.t8`
    hsmsss/transport_passive.go   acceptLoop               -> `acceptStep`
    hsms/connection_runtime.go    DeliverOwnedFrame / checkSessionID / RouteReply
    hsms/connection_send.go       sendWaitReply / sendNoReply / SendAsync / writeFrame gates -> `send`

  The connection state machine proper (hsms/supervisor.go) is modelled elsewhere (C05); here the
  logical state is just NotConnected / NotSelected / Selected with the SYNCHRONOUS commits the recv
  goroutine performs (CommitSelected before Select.rsp is queued; right after a status-0 Select.rsp
  is routed; CommitSelectLost on Deselect). The recv loop is a single sequential reader, so the model
  is a pure function of (state, event). Timers appear as EVENTS (`Ev.t6Select`, `Ev.t7`, `Ev.t8`): durations
  stay abstract, the environment may inject "timer X fired" only while X is armed (`Enabled`).

  Core Lean only (linked into the driver).
-/
namespace GoSecs.Responder

/-! ## Frames -/

inductive St
  | notConnected | notSelected | selected
  deriving DecidableEq, Repr

/-- One inbound frame as `readFrame` hands it to `dispatchFrame`: the 10 header bytes (as numbers) and the
    number of body bytes that follow (`len(frame) - 10`). -/
structure Frame where
  session : Nat   -- header bytes 0..1
  b2 : Nat        -- header byte 2 (W-bit | stream for data; rejected type for Reject.req)
  b3 : Nat        -- header byte 3 (function for data; status / reason for control)
  ptype : Nat     -- header byte 4
  stype : Nat     -- header byte 5
  sys : Nat       -- header bytes 6..9
  bodyLen : Nat
  deriving DecidableEq, Repr

/-- What handling one frame makes the library do, in order. -/
inductive Out
  /-- a header-only control frame (PType 0) queued on the outbound FIFO -/
  | ctrl (session b2 b3 stype sys : Nat)
  /-- an S9F1 data message from our own session id, fresh system bytes, body = MHEAD of `offending` -/
  | s9f1 (session : Nat) (offending : Frame)
  /-- the data message is handed to the application's handlers -/
  | deliver (f : Frame)
  deriving DecidableEq, Repr

inductive Effect
  | none
  /-- peer Separate.req while Selected: `rt.TCPDown(errPeerSeparate)`, recv loop ends, no farewell -/
  | peerSeparate
  /-- the reply routed to our own pending Select.req makes `runSelectProcedure` call `rt.TCPDown` -/
  | selectFailed
  /-- T7 (NOT SELECTED dwell) expired while NotSelected: `rt.T7Expired()` drops the link -/
  | t7Expired
  /-- T8 (inter-character) expired inside a frame: read error, `rt.TCPDown` -/
  | t8Expired
  deriving DecidableEq, Repr

/-! ## Constants (tied to `GoSecs.Gen` in Props/C08) -/

def stData : Nat := 0
def stSelectReq : Nat := 1
def stSelectRsp : Nat := 2
def stDeselectReq : Nat := 3
def stDeselectRsp : Nat := 4
def stLinktestReq : Nat := 5
def stLinktestRsp : Nat := 6
def stRejectReq : Nat := 7
def stSeparateReq : Nat := 9

def rejectSTypeNotSupported : Nat := 1
def rejectPTypeNotSupported : Nat := 2
def rejectTransactionNotOpen : Nat := 3
def rejectNotSelected : Nat := 4

def selectStatusSuccess : Nat := 0
def selectStatusAlreadyActive : Nat := 1
def deselectStatusSuccess : Nat := 0
def deselectStatusNotEstablished : Nat := 1

/-- `hsms.IsValidSType` (message.go). -/
def isValidSType (s : Nat) : Bool :=
  s == 0 || s == 1 || s == 2 || s == 3 || s == 4 || s == 5 || s == 6 || s == 7 || s == 9

/-! ## State -/

structure Cfg where
  /-- WithSessionIDValidation -/
  validate : Bool
  /-- the connection's own configured session id -/
  sessionID : Nat
  /-- T7 > 0 (a zero T7 disables the dwell timer: `armT7` returns early) -/
  t7 : Bool
  deriving DecidableEq, Repr

/-- Receive-side state: the logical connection state, the per-generation reply registry keyed by system
    bytes — our own pending Select.req (active role, `runSelectProcedure`, a control transaction bounded by
    T6), the other open CONTROL transactions (linktest probes) and the open DATA transactions (W-bit sends
    awaiting their secondary) — and whether the T7 dwell timer is armed. -/
structure RState where
  st : St
  openSel : Option Nat
  openOther : List Nat
  openData : List Nat
  t7 : Bool
  deriving DecidableEq, Repr

/-- Teardown of the generation: NotConnected, every waiter released, every timer cancelled (genCtx). -/
def down (_s : RState) : RState := ⟨.notConnected, none, [], [], false⟩

/-! ## The responders -/

/-- `hsms.NewRejectReqRaw(sessionID, pType, sType, sys, reason)`: byte 2 is the PType for reason 2, else the SType. -/
def rejectRaw (session ptype stype sys reason : Nat) : Out :=
  .ctrl session (if reason = rejectPTypeNotSupported then ptype else stype) reason stRejectReq sys

/-- `transport.sendReject(frame, pType, sType)`. -/
def sendReject (f : Frame) (ptype stype : Nat) : Out :=
  rejectRaw f.session ptype stype f.sys
    (if ptype ≠ 0 then rejectPTypeNotSupported else rejectSTypeNotSupported)

def sendRejectNotSelected (f : Frame) : Out := rejectRaw f.session 0 0 f.sys rejectNotSelected

def sendRejectTransactionNotOpen (f : Frame) : Out := rejectRaw f.session 0 f.stype f.sys rejectTransactionNotOpen

def isS9F1 (f : Frame) : Bool := f.b2 % 128 == 9 && f.b3 == 1

/-- `isSecondaryReply`: W-bit clear and even function. -/
def isSecondaryReply (f : Frame) : Bool := decide (f.b2 < 128) && f.b3 % 2 == 0

/-- `RouteReply`: which registry entry, if any, the system bytes hit. The registry is kind-aware: a control
    response completes only control waiters, a data secondary only data waiters, a Reject.req either. -/
inductive Hit
  | miss | ownSelect | other | data
  deriving DecidableEq, Repr

/-- a control response (Select/Deselect/Linktest.rsp): control waiters only -/
def lookup (s : RState) (sys : Nat) : Hit :=
  if s.openSel = some sys then .ownSelect else if sys ∈ s.openOther then .other else .miss

/-- a Reject.req: any waiter -/
def lookupAny (s : RState) (sys : Nat) : Hit :=
  if s.openSel = some sys then .ownSelect else if sys ∈ s.openOther then .other
  else if sys ∈ s.openData then .data else .miss

/-- The transaction is over once its waiter got a reply (the waiter deregisters on wake-up). -/
def close (s : RState) (sys : Nat) : RState :=
  if s.openSel = some sys then { s with openSel := none } else { s with openOther := s.openOther.erase sys }

def closeData (s : RState) (sys : Nat) : RState := { s with openData := s.openData.erase sys }

/-- `CommitSelected`: guarded CAS NotSelected → Selected; a genuine commit cancels the T7 dwell (`cancelT7`). -/
def commitSelected (s : RState) : RState × Bool :=
  if s.st = .notSelected then ({ s with st := .selected, t7 := false }, true) else (s, false)

/-- DATA frame: `dispatchFrame` case DataMsgType + `DeliverOwnedFrame`. -/
def handleData (c : Cfg) (s : RState) (f : Frame) : RState × List Out × Effect :=
  if s.st ≠ .selected then (s, [sendRejectNotSelected f], .none)
  else if c.validate && !isS9F1 f && f.session != c.sessionID then (s, [.s9f1 c.sessionID f], .none)
  else if isSecondaryReply f then
    if f.sys ∈ s.openData then (closeData s f.sys, [], .none)   -- consumed as the reply of a local sender
    else (s, [.deliver f], .none)                                 -- orphan secondary: delivered as unsolicited
  else (s, [.deliver f], .none)

/-- Select.rsp / Deselect.rsp / Linktest.rsp / Reject.req: route by system bytes (and kind). What
    `runSelectProcedure` does with the reply routed to our own Select.req is folded in here. -/
def handleResponse (s : RState) (f : Frame) : RState × List Out × Effect :=
  if f.stype = stRejectReq then
    match lookupAny s f.sys with
    | .miss => (s, [], .none)                                   -- orphan Reject.req: dropped, never re-rejected
    | .other => (close s f.sys, [], .none)
    | .data => (closeData s f.sys, [], .none)                   -- the data sender gets a *RejectError
    | .ownSelect => (down s, [], .selectFailed)                 -- WriteMessage(Select.req) fails: TCPDown
  else
    match lookup s f.sys with
    | .miss | .data => (s, [sendRejectTransactionNotOpen f], .none)
    | .other =>
      let s1 := close s f.sys
      if f.stype = stSelectRsp ∧ f.b3 = selectStatusSuccess then ((commitSelected s1).1, [], .none) else (s1, [], .none)
    | .ownSelect =>
      let s1 := close s f.sys
      if f.stype = stSelectRsp ∧ f.b3 = selectStatusSuccess then ((commitSelected s1).1, [], .none)   -- H2 initiator commit
      else if f.stype = stSelectRsp ∧ f.b3 = selectStatusAlreadyActive then (s1, [], .none)          -- success, no commit
      else (down s, [], .selectFailed)            -- other status / Deselect.rsp / Linktest.rsp: TCPDown(errSelectRejected)

/-- `handleSelectReq`: commit FIRST, then queue Select.rsp (status 0 on a genuine transition, else 1). -/
def handleSelectReq (s : RState) (f : Frame) : RState × List Out × Effect :=
  let (s1, fresh) := commitSelected s
  (s1, [.ctrl f.session 0 (if fresh then selectStatusSuccess else selectStatusAlreadyActive) stSelectRsp f.sys], .none)

def handleLinktestReq (s : RState) (f : Frame) : RState × List Out × Effect :=
  (s, [.ctrl 0xFFFF 0 0 stLinktestRsp f.sys], .none)

/-- `handleDeselectReq`. -/
def handleDeselectReq (c : Cfg) (s : RState) (f : Frame) : RState × List Out × Effect :=
  if s.st = .selected then   -- SelectLost, stopLinktest, armT7: the NOT SELECTED dwell applies again
    ({ s with st := .notSelected, t7 := c.t7 }, [.ctrl f.session 0 deselectStatusSuccess stDeselectRsp f.sys], .none)
  else (s, [.ctrl f.session 0 deselectStatusNotEstablished stDeselectRsp f.sys], .none)

/-- `handleSeparateReq`. -/
def handleSeparateReq (s : RState) : RState × List Out × Effect :=
  if s.st = .selected then (down s, [], .peerSeparate) else (s, [], .none)

/-- `dispatchFrame`, one frame. In NotConnected there is no recv loop: nothing happens. -/
def dispatch (c : Cfg) (s : RState) (f : Frame) : RState × List Out × Effect :=
  if s.st = .notConnected then (s, [], .none)
  else if f.ptype ≠ 0 || !isValidSType f.stype then (s, [sendReject f f.ptype f.stype], .none)
  else if f.stype ≠ stData && f.bodyLen ≠ 0 then (s, [sendReject f f.ptype f.stype], .none)
  else if f.stype = stData then handleData c s f
  else if f.stype = stSelectRsp ∨ f.stype = stDeselectRsp ∨ f.stype = stLinktestRsp ∨ f.stype = stRejectReq then
    handleResponse s f
  else if f.stype = stSelectReq then handleSelectReq s f
  else if f.stype = stLinktestReq then handleLinktestReq s f
  else if f.stype = stDeselectReq then handleDeselectReq c s f
  else if f.stype = stSeparateReq then handleSeparateReq s
  else (s, [], .none)

/-- The sequential receive step over a whole frame sequence: outputs per frame, in order. -/
def run (c : Cfg) : RState → List Frame → RState × List (List Out × Effect)
  | s, [] => (s, [])
  | s, f :: fs =>
    let (s1, o, e) := dispatch c s f
    let (s2, rest) := run c s1 fs
    (s2, (o, e) :: rest)

/-! ## Events: connection establishment, frames, timers -/

inductive Ev
  /-- TCP connection adopted (`startActive` after the dial / `acceptLoop` first accept): `rt.TCPUp`, recv loop
      started, T7 armed; the active role also sends Select.req with system bytes `sys` (T6-bounded). -/
  | tcpUp (active : Bool) (sys : Nat)
  | frame (f : Frame)
  /-- T6 of our own Select.req expired with no reply routed -/
  | t6Select
  /-- the T7 dwell timer fired -/
  | t7
  /-- T8 expired between two bytes of a frame -/
  | t8
  deriving DecidableEq, Repr

/-- A timer event can only happen while its timer is armed. -/
def Enabled (s : RState) : Ev → Prop
  | .tcpUp _ _ => s.st = .notConnected
  | .frame _ => s.st ≠ .notConnected
  | .t6Select => s.openSel ≠ none
  | .t7 => s.t7 = true
  | .t8 => s.st ≠ .notConnected

def step (c : Cfg) (s : RState) : Ev → RState × List Out × Effect
  | .tcpUp active sys =>
    if s.st = .notConnected then
      (⟨.notSelected, if active then some sys else none, [], [], c.t7⟩,
       if active then [.ctrl c.sessionID 0 0 stSelectReq sys] else [], .none)
    else (s, [], .none)
  | .frame f => dispatch c s f
  | .t6Select =>
    -- WriteMessage returns ErrT6Timeout: "active Select procedure failed" → TCPDown, whatever the state
    if s.openSel ≠ none ∧ s.st ≠ .notConnected then (down s, [], .selectFailed) else (s, [], .none)
  | .t7 =>
    -- runT7 → rt.T7Expired → evT7Timeout: drops the link only from NotSelected, a no-op otherwise
    if s.t7 then
      if s.st = .notSelected then (down s, [], .t7Expired) else ({ s with t7 := false }, [], .none)
    else (s, [], .none)
  | .t8 => if s.st ≠ .notConnected then (down s, [], .t8Expired) else (s, [], .none)

def runEv (c : Cfg) : RState → List Ev → RState × List (List Out × Effect)
  | s, [] => (s, [])
  | s, e :: es =>
    let r := step c s e
    let rest := runEv c r.1 es
    (rest.1, (r.2.1, r.2.2) :: rest.2)

/-- Before the first TCP connection. -/
def RState.idle : RState := ⟨.notConnected, none, [], [], false⟩

/-- All outputs of a run, flattened. -/
def outs (c : Cfg) (s : RState) (fs : List Frame) : List Out :=
  ((run c s fs).2.map (·.1)).flatten

/-! ## Passive accept loop -/

inductive AcceptAct
  | adopt    -- first connection of the generation: becomes the session (TCPUp, recv loop)
  | refuse   -- any further connection: closed immediately, the live session is not touched
  deriving DecidableEq, Repr

/-- `acceptLoop`: `live` = this generation already adopted a connection. -/
def acceptStep (live : Bool) : Bool × AcceptAct := if live then (true, .refuse) else (true, .adopt)

/-- The whole passive endpoint: a TCP connect event does not reach the responder state unless adopted. -/
def acceptConn (live : Bool) (s : RState) : Bool × RState × AcceptAct :=
  match acceptStep live with
  | (l, .adopt) => (l, ⟨.notSelected, none, [], [], true⟩, .adopt)   -- TCPUp: NotConnected→NotSelected, T7 armed
  | (l, .refuse) => (l, s, .refuse)

/-! ## Send gates (C07) -/

/-- The data-sending entry points of SECS2Endpoint and what they funnel into. -/
inductive Entry
  | sync          -- SendDataMessage / SendSECS2Message      → sendWaitReply
  | async         -- SendDataMessageAsync                      → SendAsync
  | reply         -- ReplyDataMessage                          → SendAsync
  | forward       -- ForwardDataMessage                        → sendNoReply
  | forwardAsync  -- ForwardDataMessageAsync                   → SendAsync
  deriving DecidableEq, Repr

inductive SendErr
  | ok | notOpen | notSelected | connClosed
  deriving DecidableEq, Repr

/-- Sender-visible state: has Open ever created an epoch (`c.cur != nil`), is that epoch's generation
    still live, the drop counter, what has been put on the wire — each record keeps (message id, is it a data
    message, the logical state read under the write lock when it was written) — and the async queue. -/
structure GState where
  opened : Bool
  live : Bool
  drops : Nat
  wire : List (Nat × Bool × St)   -- tr.Write calls, in order
  queued : List (Nat × Bool)      -- accepted onto the async channel, not yet written: (id, isData)
  deriving DecidableEq, Repr

def Entry.isAsync : Entry → Bool
  | .async | .reply | .forwardAsync => true
  | _ => false

/-- `writeFrame` under the write lock: B2 re-check for data, then `tr.Write`. `stW` is the logical state
    read at the write boundary. -/
def writeFrame (g : GState) (isData : Bool) (stW : St) (id : Nat) : GState × SendErr :=
  if !g.live then (g, .connClosed)
  else if isData && stW ≠ .selected then ({ g with drops := g.drops + 1 }, .notSelected)
  else ({ g with wire := g.wire ++ [(id, isData, stW)] }, .ok)

/-- One call of an entry point with a message (`isData` false = control message through the same paths).
    `st1` is the state the B1 gate reads at entry, `stW` the state read at the write boundary (for the
    async entries the write happens later on the sender goroutine: see `drain`). -/
def send (g : GState) (e : Entry) (isData : Bool) (st1 stW : St) (id : Nat) : GState × SendErr :=
  if !g.opened then (g, .notOpen)
  else if isData && st1 ≠ .selected then ({ g with drops := g.drops + 1 }, .notSelected)   -- B1 + B3 chokepoint
  else if e.isAsync then
    if g.live then ({ g with queued := g.queued ++ [(id, isData)] }, .ok) else (g, .connClosed)
  else writeFrame g isData stW id

/-- `drainSendCh` writing one queued message; `stW` is the state at that (later) write boundary. -/
def drain (g : GState) (stW : St) : GState × SendErr :=
  match g.queued with
  | [] => (g, .ok)
  | (id, isData) :: rest => writeFrame { g with queued := rest } isData stW id

/-- Any history of application calls and sender-goroutine writes, with the logical state changing
    arbitrarily in between (each operation carries the states it happens to read). -/
inductive GOp
  | call (e : Entry) (isData : Bool) (st1 stW : St) (id : Nat)
  | drain (stW : St)
  deriving DecidableEq, Repr

def applyOp (g : GState) : GOp → GState × SendErr
  | .call e d s1 sw id => send g e d s1 sw id
  | .drain sw => drain g sw

def runOps : GState → List GOp → GState × List SendErr
  | g, [] => (g, [])
  | g, op :: ops =>
    let (g1, r) := applyOp g op
    let (g2, rs) := runOps g1 ops
    (g2, r :: rs)

end GoSecs.Responder
