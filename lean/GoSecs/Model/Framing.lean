/-
  Model of the HSMS-SS receive path's stream framing (hsmsss/transport_recv.go: recvLoop →
  readFrame → readN, then dispatchFrame's frame-level classification).

  The reader is a fold over *read events* `(gap, chunk)`: `gap` nanoseconds after the previous
  event, `chunk` arrives on the socket.  `readFrame` consumes exactly the bytes it needs
  (`conn.Read(buf[read:])`), so bytes of a following frame that arrived in the same chunk stay queued and
  are returned by the next `Read` at once; the model therefore feeds a chunk byte by byte.

  Timing (`readN`): while `started` is false (no byte of the current frame read yet) the read deadline is
  cleared — an idle link never times out; once a byte of the frame has been read the deadline is re-armed to
  now + T8 before every `Read`, so the link is dropped iff more than T8 passes without a byte while inside
  a frame (including inside the 4-byte length prefix).  `idle` accumulates the time since the last byte.

  Length gate (`readFrame`): the 4-byte big-endian length must satisfy 10 ≤ L ≤ cap *before* `allocFrame(L)`
  is called; otherwise the read fails (link dropped) and nothing was allocated.  `alloc` counts the bytes
  requested from `allocFrame`.

  Core Lean only: the protocol driver links this file.
-/
import GoSecs.Model.Hsms

namespace GoSecs.Framing
open GoSecs GoSecs.Hsms

/-- Why `readFrame` returned an error (→ `rt.TCPDown`, the link is dropped). -/
inductive Drop where
  | timeout   -- T8 expired inside a frame
  | lenSmall  -- length field < 10
  | lenBig    -- length field > cap
  deriving DecidableEq, Repr, Inhabited

def Drop.name : Drop → String
  | .timeout => "timeout" | .lenSmall => "lenSmall" | .lenBig => "lenBig"

/-- One read event: `chunk` arrives `gap` ns after the previous event. -/
structure Event where
  gap : Nat
  chunk : Bytes
  deriving Repr, Inhabited

/-- Receiver state between `Read` calls. -/
structure RState where
  /-- bytes of the current frame read so far (length prefix included), newest first -/
  rbuf : Bytes := []
  /-- `rbuf.length` (kept so the per-byte step is O(1)) -/
  got : Nat := 0
  /-- `none` while the 4-byte prefix is being read, `some L` once `L` passed the gate -/
  len : Option Nat := none
  /-- `readFrame`'s `started` flag -/
  started : Bool := false
  /-- complete frames `[header ‖ body]` handed to `dispatchFrame`, newest first -/
  out : List Bytes := []
  /-- total bytes requested from `allocFrame` -/
  alloc : Nat := 0
  /-- ns since the last byte arrived (or since the wait began) -/
  idle : Nat := 0
  dropped : Option Drop := none
  deriving Repr, Inhabited

def RState.init : RState := {}

/-- `readFrame`'s length gate: the decoded 4-byte length `L` must satisfy `10 ≤ L ≤ cap` before anything is
    allocated.  `stepByte` applies exactly this gate when the prefix is complete (`stepByte_gate`,
    Lemmas/HsmsGen); the translation of that part of `readFrame` is tied to it in Props/C04. -/
def lengthGate (cap L : Nat) : Except Drop Nat :=
  if L < 10 then .error .lenSmall else if L > cap then .error .lenBig else .ok L

/-- Consume one byte (`Read` returned it). -/
def stepByte (cap : Nat) (s : RState) (b : UInt8) : RState :=
  match s.dropped with
  | some _ => s
  | none =>
    let rbuf := b :: s.rbuf
    let got := s.got + 1
    match s.len with
    | none =>
      if got < 4 then { s with rbuf := rbuf, got := got, started := true, idle := 0 }
      else
        -- the length prefix is complete: validate BEFORE allocating
        let L := beVal rbuf.reverse
        if L < 10 then { s with rbuf := rbuf, got := got, started := true, idle := 0, dropped := some .lenSmall }
        else if L > cap then { s with rbuf := rbuf, got := got, started := true, idle := 0, dropped := some .lenBig }
        else { s with rbuf := rbuf, got := got, started := true, idle := 0, len := some L, alloc := s.alloc + L }
    | some L =>
      if got < 4 + L then { s with rbuf := rbuf, got := got, started := true, idle := 0 }
      else
        -- frame complete: deliver, the next `readFrame` starts with `started = false`
        { s with rbuf := [], got := 0, len := none, started := false, idle := 0,
                 out := (rbuf.reverse.drop 4) :: s.out }

/-- Consume the bytes of one chunk. -/
def feed (cap : Nat) (s : RState) (bs : Bytes) : RState := bs.foldl (stepByte cap) s

/-- One read event: time passes, then the chunk (possibly empty) arrives.  The deadline only exists
    while `started`. -/
def stepEvent (t8 cap : Nat) (s : RState) (e : Event) : RState :=
  match s.dropped with
  | some _ => s
  | none =>
    let idle := s.idle + e.gap
    if s.started && idle > t8 then { s with idle := idle, dropped := some .timeout }
    else feed cap { s with idle := idle } e.chunk

/-- The receive loop over a whole schedule of read events. -/
def run (t8 cap : Nat) (s : RState) (evs : List Event) : RState := evs.foldl (stepEvent t8 cap) s

/-- The byte stream a schedule carries. -/
def stream (evs : List Event) : Bytes := (evs.map Event.chunk).flatten

/-- Everything observable about the receiver except the idle clock: delivered frames (oldest first),
    link drop, partial frame, `started`, allocation. -/
structure Obs where
  frames : List Bytes
  dropped : Option Drop
  partialFrame : Bytes
  started : Bool
  alloc : Nat
  deriving DecidableEq, Repr

def RState.obs (s : RState) : Obs :=
  ⟨s.out.reverse, s.dropped, s.rbuf.reverse, s.started, s.alloc⟩

/-- Reference semantics of a byte stream, independent of segmentation and timing. -/
def parseStream (cap : Nat) (bs : Bytes) : RState := feed cap .init bs

/-- "Every in-frame gap is within T8": whenever an event arrives while a frame is in progress, the time
    since the last byte does not exceed T8.  Gaps between frames are unconstrained. -/
def GapsOK (t8 cap : Nat) : RState → List Event → Prop
  | _, [] => True
  | s, e :: es =>
    (s.dropped = none → s.started = true → s.idle + e.gap ≤ t8) ∧ GapsOK t8 cap (stepEvent t8 cap s e) es

instance decGapsOK (t8 cap : Nat) : ∀ (s : RState) (evs : List Event), Decidable (GapsOK t8 cap s evs)
  | _, [] => isTrue trivial
  | s, e :: es =>
    have : Decidable (GapsOK t8 cap (stepEvent t8 cap s e) es) := decGapsOK t8 cap _ es
    show Decidable (_ ∧ _) from inferInstance

/-! ### Frame-level classification in `dispatchFrame` -/

inductive FrameClass where
  | data            -- PType 0, SType 0: handed to the core (`DeliverOwnedFrame`) when Selected
  | control (stype : Nat)  -- header-only control frame, handled by the control procedures
  | rejectPType     -- PType ≠ 0  → Reject.req reason 2, link stays up
  | rejectSType     -- undefined SType → Reject.req reason 1, link stays up
  | rejectCtlBody   -- control SType with a body → Reject.req reason 1, link stays up
  deriving DecidableEq, Repr, Inhabited

def FrameClass.name : FrameClass → String
  | .data => "data" | .control s => s!"control{s}" | .rejectPType => "rejectPType"
  | .rejectSType => "rejectSType" | .rejectCtlBody => "rejectCtlBody"

/-- `dispatchFrame` on a frame of at least ten bytes (readFrame guarantees it). -/
def classify (frame : Bytes) : Option FrameClass :=
  match Header.ofBytes frame with
  | none => none
  | some (h, body) =>
    if h.ptype != 0 then some .rejectPType
    else if !definedSType h.stype.toNat then some .rejectSType
    else if h.stype.toNat == stData then some .data
    else if body.isEmpty then some (.control h.stype.toNat)
    else some .rejectCtlBody

/-- The Reject.req `sendReject(frame, pType, sType)` emits: reason 2 when PType ≠ 0, else reason 1. -/
def rejectFor (frame : Bytes) : Option ControlMsg :=
  match Header.ofBytes frame with
  | none => none
  | some (h, _) =>
    let reason : UInt8 := if h.ptype != 0 then 2 else 1
    some (newRejectReqRaw h.sessionID h.ptype h.stype h.sys reason)

end GoSecs.Framing
