/-
  Model of the hsms send/reply routing core (properties C06, C20, C09).

  Code modelled (line by line):
    hsms/sysbytes.go            sysBytesGen.next                       -> `begin`
    hsms/connection_send.go     sendWaitReply / sendNoReply / SendAsync / writeFrame / drainSendCh
    hsms/reply_registry.go      register (Store, overwrites; waiter kind) / deregister (Delete, by key) / route (kind match, non-blocking, cap 1)
    hsms/connection_runtime.go  DeliverOwnedFrame / isSecondaryReply / RouteReply / RouteData
    hsmsss/transport_recv.go    dispatchFrame (Selected gate for data, control responses routed by system bytes)
    hsms/session.go             SendDataMessage (`dm, _ := reply.(*DataMessage)`), recvDataMsg fan-out
    hsms/epoch.go               epoch identity, ctx, conn, teardown (cancel + closeSocket), join
    hsms/connection_metrics.go  counters / gauges

  Style (DESIGN 4.2): a configuration `Cfg`, atomic `Action`s that are the linearisation points of the code,
  a total `step : Cfg -> Action -> Cfg` (a disabled action is a no-op) and "every interleaving" = every finite
  `List Action` (`run`).  Maps are functions `Nat -> _` with point update `upd` (easy to reason about; the
  driver only replays short histories).  Time is abstract: the protocol timer alternative of the four-way
  `select` is always enabled (T3/T6 as wall time is measured by the harness, not modelled).

  Core Lean only (the driver links this file).
-/
namespace GoSecs.Router

/-- 2^32: `sysBytesGen.n` is an `atomic.Uint32`; `next` returns `n.Add(1)` (wraps). -/
def wrap : Nat := 4294967296

/-- point update of a function map -/
def upd {β : Type} (f : Nat → β) (k : Nat) (v : β) : Nat → β := fun x => if x = k then v else f x

@[simp] theorem upd_same {β : Type} (f : Nat → β) (k : Nat) (v : β) : upd f k v k = v := by simp [upd]
theorem upd_other {β : Type} (f : Nat → β) (k x : Nat) (v : β) (h : x ≠ k) : upd f k v x = f x := by simp [upd, h]

/-- What kind of send a sender thread performs. -/
inductive Kind where
  | sync    -- W-bit data message through sendWaitReply (SendDataMessage / SendSECS2Message, reply expected)
  | ff      -- data message written synchronously without reply correlation (non-W sendWaitReply, sendNoReply)
  | async   -- data message through SendAsync (queued on the generation's sendCh)
  | ctrl    -- control transaction through sendWaitReply (Select.req / Linktest.req ...; T6, no gate, no data counters)
  deriving DecidableEq, Repr

/-- What the receive goroutine put into a sender-owned reply channel (`replyResult`). -/
inductive Res where
  | data (fid sb fn : Nat) (w : Bool)   -- a routed *DataMessage (frame identity `fid`)
  | ctrl (fid sb stype : Nat)           -- a routed *ControlMessage (Select/Deselect/Linktest.rsp)
  | rej (reason : Nat)                  -- &RejectError{Reason}
  deriving DecidableEq, Repr

/-- Return value of the send API, as the caller sees it. -/
inductive Outcome where
  | reply (fid sb fn : Nat) (w : Bool)  -- (dm, nil)
  | ctrlReply (fid sb stype : Nat)      -- sendWaitReply returned a control message to a control sender
  | nilnil (fid : Nat)                  -- SendDataMessage returned (nil, nil): a control message was routed to a data sender
  | reject (reason : Nat)               -- (nil, *RejectError)
  | timeout                             -- ErrT3Timeout (data) / ErrT6Timeout (control)
  | closed                              -- ErrConnClosed
  | ctx                                 -- the caller's ctx error
  | notOpen                             -- ErrNotOpen
  | notSelected                         -- ErrNotSelectedState (B1 or B2 gate)
  | writeErr                            -- transport write error
  | sent                                -- fire-and-forget / async accepted: nil error, no reply expected
  deriving DecidableEq, Repr

/-- Program counter of a sender thread. -/
inductive Pc where
  | new          -- not started
  | begun        -- system bytes drawn (session.SendDataMessage: sysGen.next())
  | pinned       -- e := c.cur.Load()
  | gated        -- passed the B1 gate
  | registered   -- e.replies.register(key) done, deregister deferred
  | checked      -- inside writeFrame under writeMu: conn captured non-nil, ctx not done, B2 gate passed
  | written      -- writeFrame returned nil
  | waiting      -- in-flight gauge incremented (data W-bit only), parked in the four-way select
  | decided      -- a select branch was taken; deferred calls not yet run
  | unwinding    -- in-flight gauge decremented (or never incremented); deregister still pending
  | done
  deriving DecidableEq, Repr

structure Sender where
  kind : Kind := .sync
  pc : Pc := .new
  raw : Nat := 0                 -- ghost: unwrapped draw number of the generator
  sb : Nat := 0                  -- system bytes = raw % 2^32
  ep : Nat := 0                  -- pinned epoch (valid from `pinned` on)
  out : Option Outcome := none
  cancelled : Bool := false      -- caller ctx cancelled
  chan : Option Res := none      -- the sender-owned `chan replyResult` (capacity 1)
  dSent : Nat := 0               -- ghost: this call's contribution to DataMsgSendCount
  dErr : Nat := 0                -- ghost: ... to DataMsgErrCount
  dDrop : Nat := 0               -- ghost: ... to DataMsgDropNotSelectedCount
  dAsyncErr : Nat := 0           -- ghost: ... to AsyncSendErrCount

structure Epoch where
  ctxDone : Bool := false        -- e.cancel() ran (teardown started)
  connOpen : Bool := false       -- e.conn set and not closed
  joined : Bool := false         -- recv loop and tasks joined (e.done closed)
  deriving DecidableEq, Repr

structure Metrics where
  sent : Nat := 0
  recv : Nat := 0
  inflight : Int := 0
  err : Nat := 0
  drop : Nat := 0
  asyncErr : Nat := 0
  retry : Int := 0
  deriving DecidableEq, Repr

/-- A frame the peer sends. `fid` is the frame's identity (position in the peer's total send order). -/
inductive Frame where
  | data (fid sb fn : Nat) (w : Bool)    -- PType 0, SType 0, >= 10 bytes: a well-formed data frame
  | ctrlRsp (fid sb stype : Nat)         -- Select.rsp (2) / Deselect.rsp (4) / Linktest.rsp (6)
  | reject (fid sb reason : Nat)         -- Reject.req (7), reason = header byte 3
  | bad (fid : Nat)                      -- bad PType / SType / control frame with a body: answered with Reject, never routed
  | foreign (fid : Nat)                  -- a well-formed data frame (not S9F1) whose SessionID is not the connection's own,
                                         -- received with WithSessionIDValidation on: counted at the receive chokepoint FIRST,
                                         -- then screened (answered with S9F1 and dropped, never routed)
  deriving DecidableEq, Repr

def Frame.fid : Frame → Nat
  | .data f _ _ _ => f | .ctrlRsp f _ _ => f | .reject f _ _ => f | .bad f => f | .foreign f => f

/-- Where one inbound frame went. -/
inductive Recipient where
  | sender (i : Nat)       -- put into sender i's reply channel
  | dupDrop (i : Nat)      -- registry hit but the channel was full: discarded (duplicate reply)
  | lateDrop (i : Nat)     -- registry hit after sender i already left its select: buffered, never read (duplicate / late reply)
  | handlers (n : Nat)     -- fanned out to handlers 0..n-1 in order
  | tornDown               -- recvDataMsg fast-exit: the generation is already torn down
  | notSelected            -- data while not Selected: Reject(4), not counted, not routed
  | orphanCtrl             -- control response with no open transaction: Reject(TransactionNotOpen)
  | orphanReject           -- Reject.req with no open transaction: dropped
  | foreignSession         -- checkSessionID: SessionID mismatch, answered with S9F1 and dropped (after being counted)
  | malformed
  deriving DecidableEq, Repr

structure Deliv where
  ep : Nat                 -- epoch of the receive loop that read the frame
  reg : Option Nat         -- epoch whose registry was consulted (c.cur at route time)
  frame : Frame
  to : Recipient
  deriving DecidableEq, Repr

/-- One frame on the wire. `sock` is the epoch whose socket carried it. -/
structure WireEv where
  sock : Nat
  src : Nat                -- sender thread
  sb : Nat
  data : Bool
  deriving DecidableEq, Repr

structure Cfg where
  gen : Nat := 0                         -- draws made from the system-bytes generator
  nEpochs : Nat := 0
  cur : Option Nat := none               -- c.cur
  ep : Nat → Epoch := fun _ => {}
  reg : Nat → Nat → Option Nat := fun _ _ => none   -- epoch -> system bytes -> sender whose channel is stored
  s : Nat → Sender := fun _ => {}
  selected : Bool := false
  handlers : Nat := 0
  queue : Nat → List Nat := fun _ => []  -- epoch -> queued async senders (e.sendCh), head first
  wire : List WireEv := []               -- newest first
  deliv : List Deliv := []               -- newest first
  m : Metrics := {}
  loops : Nat := 0                       -- live reconnect loops
  started : List Nat := []               -- ghost: senders that have begun, newest first

def init : Cfg := {}

/-- Which branch of the four-way select a parked sender takes. -/
inductive Choice where
  | recv | timer | closed | ctx
  deriving DecidableEq, Repr

inductive Action where
  -- lifecycle / environment (the state machine and Open/Close are modelled elsewhere: only what the send gate needs)
  | publish                      -- a fresh epoch becomes c.cur (Open / connectLoop; only after the previous one is fully joined)
  | connUp                       -- TCPUp: socket published on the current epoch
  | setSelected (b : Bool)
  | teardown (e : Nat)           -- e.cancel(); e.closeSocket()
  | join (e : Nat)               -- recv loop + tasks of e joined, e.done closed
  | loopStart | loopEnd          -- connectLoop entry (incConnRetry) / exit (deferred decConnRetry)
  | addHandler
  | cancel (i : Nat)             -- caller cancels sender i's ctx
  -- sender thread i
  | begin (i : Nat) (k : Kind)
  | pin (i : Nat)
  | gate (i : Nat)
  | register (i : Nat)
  | wcheck (i : Nat)             -- writeFrame: lock writeMu, capture e's conn, e.ctx check, B2 gate
  | write (i : Nat) (ok : Bool)  -- writeFrame: tr.Write on the captured conn; ok = the transport accepts the frame if the socket is still open
  | incInflight (i : Nat)
  | decide (i : Nat) (ch : Choice)
  | decInflight (i : Nat)
  | deregister (i : Nat)
  | enqueue (i : Nat) (ch : Choice)   -- SendAsync's three-way select (recv = queued)
  -- per-generation goroutines
  | drain (e : Nat) (ok : Bool)  -- drainSendCh takes the head of e.sendCh and runs writeFrame
  | recv (e : Nat) (f : Frame)   -- the recv loop of epoch e dispatches one complete frame
  deriving DecidableEq, Repr

/-! ## pieces -/

def isSecondaryReply (w : Bool) (fn : Nat) : Bool := !w && fn % 2 == 0

def Kind.isData : Kind → Bool
  | .ctrl => false
  | _ => true

/-- registers in the reply registry -/
def Kind.correlates : Kind → Bool
  | .sync => true
  | .ctrl => true
  | _ => false

def b2n (b : Bool) : Nat := if b then 1 else 0

def setS (c : Cfg) (i : Nat) (w : Sender) : Cfg := { c with s := upd c.s i w }

/-- what SendDataMessage / sendWaitReply hands back for a received channel value -/
def outcomeOfRes (k : Kind) : Res → Outcome
  | .data fid sb fn w => .reply fid sb fn w
  | .ctrl fid sb st => if k = .ctrl then .ctrlReply fid sb st else .nilnil fid
  | .rej r => .reject r

/-- Result of writeFrame's pre-write checks / of the write itself. -/
inductive WRes where
  | ok | closed | notSelected | err
  deriving DecidableEq, Repr

/-- writeFrame before the write, on epoch e (the epoch the CALLER passes: its pinned epoch). -/
def checkRes (c : Cfg) (e : Nat) (isData : Bool) : WRes :=
  if !(c.ep e).connOpen then .closed          -- conn == nil: never up, or teardown closed and niled it
  else if (c.ep e).ctxDone then .closed       -- e.ctx.Done()
  else if isData && !c.selected then .notSelected   -- B2
  else .ok

/-- tr.Write on the conn captured by the check: fails if teardown closed that socket in between. -/
def xmitRes (c : Cfg) (e : Nat) (ok : Bool) : WRes :=
  if (c.ep e).connOpen && ok then .ok else .err

/-- drainSendCh: writeFrame as one step (check, then write) -/
def drainRes (c : Cfg) (e : Nat) (ok : Bool) : WRes :=
  match checkRes c e true with
  | .ok => xmitRes c e ok
  | r => r

def WRes.outcome : WRes → Outcome
  | .ok => .sent | .closed => .closed | .notSelected => .notSelected | .err => .writeErr

/-! ### what a sender's own record becomes (thread-local part of each step) -/

/-- return from the send call with nothing deferred left to run -/
def Sender.finish (w : Sender) (o : Outcome) : Sender := { w with pc := .done, out := some o }

/-- leave sendWaitReply after the register: the deferred deregister is still to run -/
def Sender.leave (w : Sender) (o : Outcome) : Sender :=
  if w.kind.correlates then { w with pc := .unwinding, out := some o } else w.finish o

def Sender.afterPin (w : Sender) : Option Nat → Sender
  | none => w.finish .notOpen
  | some e => { w with pc := .pinned, ep := e }

/-- B1 gate -/
def Sender.afterGate (w : Sender) (selected : Bool) : Sender :=
  if w.kind.isData && !selected then { w.finish .notSelected with dDrop := w.dDrop + 1 } else { w with pc := .gated }

def Sender.afterCheck (w : Sender) : WRes → Sender
  | .ok => { w with pc := .checked }
  | .notSelected => { w.leave .notSelected with dDrop := w.dDrop + 1 }
  | r => w.leave r.outcome

def Sender.afterWrite (w : Sender) : WRes → Sender
  | .ok => if w.kind.correlates then { w with pc := .written, dSent := w.dSent + b2n w.kind.isData }
           else { w.finish .sent with dSent := w.dSent + b2n w.kind.isData }
  | _ => { w.leave .writeErr with dErr := w.dErr + b2n w.kind.isData }   -- isCountedSendErr: a genuine transport error on a data send

def Sender.afterDecide (w : Sender) : Choice → Sender
  | .recv => match w.chan with
    | none => w
    | some r => { w with pc := .decided, chan := none, out := some (outcomeOfRes w.kind r) }
  | .timer => { w with pc := .decided, out := some .timeout, dErr := w.dErr + b2n (w.kind = .sync) }
  | .closed => { w with pc := .decided, out := some .closed }
  | .ctx => { w with pc := .decided, out := some .ctx }

def Sender.afterEnqueue (w : Sender) : Choice → Sender
  | .recv => w.finish .sent
  | .closed => w.finish .closed
  | .ctx => w.finish .ctx
  | .timer => w

/-- the async sender goroutine ran writeFrame for this (already returned) SendAsync call -/
def Sender.afterDrain (w : Sender) : WRes → Sender
  | .ok => { w with dSent := w.dSent + 1 }
  | .notSelected => { w with dDrop := w.dDrop + 1, dAsyncErr := w.dAsyncErr + 1 }
  | _ => { w with dAsyncErr := w.dAsyncErr + 1 }

/-! ### receive side -/

/-- the sender whose channel the registry of the CURRENT epoch (`c.cur.Load()` in RouteReply) holds for these system bytes -/
def lookup (c : Cfg) (sb : Nat) : Option Nat :=
  match c.cur with
  | none => none
  | some ce => c.reg ce sb

/-- recipient of a registry hit on sender i: non-blocking send into its capacity-1 channel -/
def hitRecipient (w : Sender) (i : Nat) : Recipient :=
  match w.chan with
  | some _ => .dupDrop i
  | none => if w.pc = .decided || w.pc = .unwinding then .lateDrop i else .sender i

/-- RouteData -> session.recvDataMsg: fan out unless the generation is already torn down -/
def fanout (c : Cfg) : Recipient :=
  match c.cur with
  | none => .tornDown          -- rt.Done() returns the closed channel
  | some ce => if (c.ep ce).ctxDone then .tornDown else .handlers c.handlers

/-- what is offered to the registry, with the value that would be put in the channel -/
def Frame.offer : Frame → Option (Nat × Res)
  | .data fid sb fn w => if isSecondaryReply w fn then some (sb, .data fid sb fn w) else none
  | .ctrlRsp fid sb st => some (sb, .ctrl fid sb st)
  | .reject _ sb reason => some (sb, .rej reason)
  | .bad _ => none
  | .foreign _ => none

def Frame.isData : Frame → Bool
  | .data .. => true
  | .foreign _ => true
  | _ => false

/-- `replyKind` match (reply_registry.go route): a data secondary completes only a data transaction, a control
    response only a control transaction, a Reject.req either -/
def Frame.matches (k : Kind) : Frame → Bool
  | .data .. => k.isData
  | .ctrlRsp .. => !k.isData
  | .reject .. => true
  | .bad _ => false
  | .foreign _ => false

/-- recipient when the registry is missed (or not consulted) -/
def missRecipient (c : Cfg) : Frame → Recipient
  | .data .. => fanout c
  | .ctrlRsp .. => .orphanCtrl
  | .reject .. => .orphanReject
  | .bad _ => .malformed
  | .foreign _ => .foreignSession

/-- dispatchFrame + DeliverOwnedFrame + RouteReply for one frame: (recipient, channel fill) -/
def dispatch (c : Cfg) (f : Frame) : Recipient × Option (Nat × Res) :=
  if f.isData && !c.selected then (.notSelected, none)      -- Reject(4), not counted, not routed
  else match f.offer with
    | none => (missRecipient c f, none)
    | some (sb, r) =>
      match lookup c sb with
      | none => (missRecipient c f, none)
      | some i =>
        if f.matches (c.s i).kind then (hitRecipient (c.s i) i, if (c.s i).chan.isNone then some (i, r) else none)
        else (missRecipient c f, none)     -- a waiter of the other kind: a miss, exactly as if the key were absent

/-- DeliverOwnedFrame's receive chokepoint: a well-formed data frame while Selected -/
def counted (c : Cfg) (f : Frame) : Bool := f.isData && c.selected

/-! ## enabledness -/

def curJoined (c : Cfg) : Bool :=
  match c.cur with
  | none => true
  | some e => (c.ep e).joined

def enabled (c : Cfg) : Action → Bool
  | .publish => curJoined c
  | .connUp => match c.cur with
    | none => false
    | some e => !(c.ep e).ctxDone && !(c.ep e).connOpen
  | .setSelected _ => true
  | .teardown e => e < c.nEpochs
  | .join e => e < c.nEpochs && (c.ep e).ctxDone
  | .loopStart => true
  | .loopEnd => 0 < c.loops
  | .addHandler => true
  | .cancel _ => true
  | .begin i _ => (c.s i).pc = .new
  | .pin i => (c.s i).pc = .begun
  | .gate i => (c.s i).pc = .pinned
  | .register i => (c.s i).pc = .gated && (c.s i).kind.correlates
  | .wcheck i => ((c.s i).pc = .registered && (c.s i).kind.correlates) || ((c.s i).pc = .gated && (c.s i).kind = .ff)
  | .write i _ => (c.s i).pc = .checked
  | .incInflight i => (c.s i).pc = .written
  | .decide i ch => (c.s i).pc = .waiting && (match ch with
    | .recv => (c.s i).chan.isSome
    | .timer => true
    | .closed => (c.ep (c.s i).ep).ctxDone
    | .ctx => (c.s i).cancelled)
  | .decInflight i => (c.s i).pc = .decided
  | .deregister i => (c.s i).pc = .unwinding
  | .enqueue i ch => (c.s i).pc = .gated && (c.s i).kind = .async && (match ch with
    | .recv => true
    | .timer => false
    | .closed => (c.ep (c.s i).ep).ctxDone
    | .ctx => (c.s i).cancelled)
  | .drain e _ => e < c.nEpochs && !(c.queue e).isEmpty
  | .recv e _ => e < c.nEpochs && !(c.ep e).joined

/-! ## effects (only meaningful when enabled): a global part, then at most one sender record rewritten -/

def apply (c : Cfg) : Action → Cfg
  | .publish => { c with cur := some c.nEpochs, nEpochs := c.nEpochs + 1 }
  | .connUp => match c.cur with
    | none => c
    | some e => { c with ep := upd c.ep e { c.ep e with connOpen := true } }
  | .setSelected b => { c with selected := b }
  | .teardown e => { c with ep := upd c.ep e { c.ep e with ctxDone := true, connOpen := false } }
  | .join e => { c with ep := upd c.ep e { c.ep e with joined := true } }
  | .loopStart => { c with loops := c.loops + 1, m := { c.m with retry := c.m.retry + 1 } }
  | .loopEnd => { c with loops := c.loops - 1, m := { c.m with retry := c.m.retry - 1 } }
  | .addHandler => { c with handlers := c.handlers + 1 }
  | .cancel i => setS c i { c.s i with cancelled := true }
  | .begin i k =>
    setS { c with gen := c.gen + 1, started := i :: c.started } i
      { c.s i with kind := k, pc := .begun, raw := c.gen + 1, sb := (c.gen + 1) % wrap }
  | .pin i => setS c i ((c.s i).afterPin c.cur)
  | .gate i =>
    setS { c with m := { c.m with drop := c.m.drop + b2n ((c.s i).kind.isData && !c.selected) } } i ((c.s i).afterGate c.selected)
  | .register i =>
    setS { c with reg := upd c.reg (c.s i).ep (upd (c.reg (c.s i).ep) (c.s i).sb (some i)) } i
      { c.s i with pc := .registered, chan := none }
  | .wcheck i =>
    let r := checkRes c (c.s i).ep (c.s i).kind.isData
    setS { c with m := { c.m with drop := c.m.drop + b2n (r = .notSelected) } } i ((c.s i).afterCheck r)
  | .write i ok =>
    let w := c.s i
    let r := xmitRes c w.ep ok
    let d := b2n w.kind.isData
    setS (match r with
      | .ok => { c with wire := { sock := w.ep, src := i, sb := w.sb, data := w.kind.isData } :: c.wire,
                        m := { c.m with sent := c.m.sent + d } }
      | _ => { c with m := { c.m with err := c.m.err + d } }) i (w.afterWrite r)
  | .incInflight i =>
    setS { c with m := { c.m with inflight := c.m.inflight + (b2n ((c.s i).kind = .sync) : Nat) } } i { c.s i with pc := .waiting }
  | .decide i ch =>
    setS { c with m := { c.m with err := c.m.err + b2n (ch = .timer && (c.s i).kind = .sync) } } i ((c.s i).afterDecide ch)
  | .decInflight i =>
    setS { c with m := { c.m with inflight := c.m.inflight - (b2n ((c.s i).kind = .sync) : Nat) } } i { c.s i with pc := .unwinding }
  | .deregister i =>
    setS { c with reg := upd c.reg (c.s i).ep (upd (c.reg (c.s i).ep) (c.s i).sb none) } i { c.s i with pc := .done }
  | .enqueue i ch =>
    setS { c with queue := if ch = .recv then upd c.queue (c.s i).ep (c.queue (c.s i).ep ++ [i]) else c.queue } i
      ((c.s i).afterEnqueue ch)
  | .drain e ok =>
    match c.queue e with
    | [] => c
    | i :: rest =>
      let r := drainRes c e ok
      setS { c with queue := upd c.queue e rest,
                    wire := if r = .ok then { sock := e, src := i, sb := (c.s i).sb, data := true } :: c.wire else c.wire,
                    m := { c.m with sent := c.m.sent + b2n (r = .ok), drop := c.m.drop + b2n (r = .notSelected),
                                    asyncErr := c.m.asyncErr + b2n (r != .ok) } } i ((c.s i).afterDrain r)
  | .recv e f =>
    let d := dispatch c f
    let c1 := { c with deliv := ⟨e, c.cur, f, d.1⟩ :: c.deliv, m := { c.m with recv := c.m.recv + b2n (counted c f) } }
    match d.2 with
    | none => c1
    | some (i, r) => setS c1 i { c.s i with chan := some r }

def step (c : Cfg) (a : Action) : Cfg := if enabled c a then apply c a else c

def run (c : Cfg) : List Action → Cfg
  | [] => c
  | a :: as => run (step c a) as

end GoSecs.Router
