/-
  Model of the HSMS-SS auto-linktest loop (hsmsss/transport_procedures.go `runLinktest`).

  One `Obs` is everything the loop reads from the outside world during ONE timer wake-up while
  Selected (the ctx-cancel / left-Selected exits end the history):

    active       sinceLastActivity() < interval                (suppression rule 1)
    inflightPre  DataMsgInflight() at the rule-2 check
    probeOk      the Linktest transaction returned a Linktest.rsp (false = T6 timeout / write error)
    sentAt       monoNanos() taken just before the probe is written
    recvNow      lastRecvStamp at failure-evaluation time
    inflight     DataMsgInflight() at failure-evaluation time
    finalInflight, finalRecv   the FRESH re-reads taken by the pre-disconnect re-check

  The two decision functions are hand-written here as the SPEC reducers (`failureStep`,
  `disconnectRecheck`); Props/C19 proves the functions translated from the Go source on every run
  (`GoSecs.Gen.hsmsss_linktestFailureStep/‥DisconnectRecheck`) equal to them for all inputs.

  Core Lean only (linked into the driver).
-/
namespace GoSecs.Linktest

/-- "Life" as suppression rule 3 defines it at failure-evaluation time: a frame arrived after the probe
    went out, or a data reply is still outstanding. -/
def life (recvNow sentAt inflight : Int) : Bool :=
  decide (recvNow > sentAt) || decide (inflight > 0)

/-- SPEC reducer for a failed probe. Result: (new consecutive-failure run, new receive stamp of the last
    counted failure, credited?). -/
def failureStep (suppress : Bool) (recvNow sentAt inflight fails recvAtLastFail : Int) : Int × Int × Bool :=
  if suppress && life recvNow sentAt inflight then (0, recvAtLastFail, true)          -- credit: run resets
  else if suppress && decide (fails > 0) && decide (recvNow > recvAtLastFail) then
    (1, recvNow, false)                                                               -- life between counted failures
  else (fails + 1, recvNow, false)                                                    -- consecutive in silence

/-- SPEC of the final pre-disconnect re-check: `true` = go ahead with TCPDown. -/
def disconnectRecheck (suppress : Bool) (inflight recvNow sentAt : Int) : Bool :=
  !suppress || !(life recvNow sentAt inflight)

structure Cfg where
  suppress : Bool
  threshold : Int
  deriving Repr, DecidableEq

structure Obs where
  active : Bool
  inflightPre : Int
  probeOk : Bool
  sentAt : Int
  recvNow : Int
  inflight : Int
  finalInflight : Int
  finalRecv : Int
  deriving Repr, DecidableEq

structure LState where
  fails : Int
  recvAtLastFail : Int
  deriving Repr, DecidableEq

def LState.init : LState := ⟨0, 0⟩

/-- What one wake-up of the loop did (each constructor = one set of metric increments). -/
inductive Act
  | suppressed        -- rule 1 or 2: no probe sent                     (LinktestSuppressed+1)
  | probeOk           -- probe answered                                 (Send+1, Recv+1)
  | counted           -- probe timed out, counted toward the threshold  (Send+1, Err+1)
  | credited          -- probe timed out, credited by the reducer       (Send+1, Err+1, Credited+1)
  | recheckCredited   -- threshold reached but the fresh re-check saw life (Send+1, Err+1, Credited+1)
  | disconnect        -- threshold reached, re-check confirmed: TCPDown (Send+1, Err+1)
  deriving Repr, DecidableEq

def Act.name : Act → String
  | .suppressed => "suppressed" | .probeOk => "ok" | .counted => "counted" | .credited => "credited"
  | .recheckCredited => "recheck-credited" | .disconnect => "disconnect"

/-- Did this wake-up put a Linktest.req on the wire? -/
def Act.probed : Act → Bool
  | .suppressed => false
  | _ => true

/-- Was the probe sent and did it time out? -/
def Act.timedOut : Act → Bool
  | .suppressed | .probeOk => false
  | _ => true

/-- One iteration of the `for` loop in `runLinktest`, after the timer fired, while Selected. -/
def step (c : Cfg) (s : LState) (o : Obs) : LState × Act :=
  if c.suppress && (o.active || decide (o.inflightPre > 0)) then (s, .suppressed)
  else if o.probeOk then (⟨0, s.recvAtLastFail⟩, .probeOk)
  else
    let inflight := if c.suppress then o.inflight else 0
    let r := failureStep c.suppress o.recvNow o.sentAt inflight s.fails s.recvAtLastFail
    let fails := r.1
    let ral := r.2.1
    let credited := r.2.2
    if decide (fails ≥ c.threshold) then
      let finalInflight := if c.suppress then o.finalInflight else 0
      if disconnectRecheck c.suppress finalInflight o.finalRecv o.sentAt then (⟨fails, ral⟩, .disconnect)
      else (⟨0, s.recvAtLastFail⟩, .recheckCredited)
    else (⟨fails, ral⟩, if credited then .credited else .counted)

/-- The loop over a history of observations; it ends at the first disconnect. -/
def run (c : Cfg) : LState → List Obs → LState × List Act
  | s, [] => (s, [])
  | s, o :: os =>
    let (s', a) := step c s o
    if a = .disconnect then (s', [a])
    else
      let (s'', as) := run c s' os
      (s'', a :: as)

/-- Index of the observation at which the loop disconnects (calls `rt.TCPDown`), if it does. -/
def discAt (c : Cfg) : LState → List Obs → Option Nat
  | _, [] => none
  | s, o :: os =>
    if (step c s o).2 = .disconnect then some 0
    else (discAt c (step c s o).1 os).map (· + 1)

/-! ### History-level specifications (independent of the two-variable loop state) -/

/-- A wake-up that sends a probe which then times out. -/
def Obs.timesOut (c : Cfg) (o : Obs) : Bool :=
  !(c.suppress && (o.active || decide (o.inflightPre > 0))) && !o.probeOk

/-- `k ≤ |l|` and the first `k` observations are all probe timeouts (suppression off: every wake-up probes). -/
def prefixTimeouts (k : Nat) (l : List Obs) : Bool :=
  decide (k ≤ l.length) && (l.take k).all (fun o => !o.probeOk)

/-- Somewhere in the history there are `k` consecutive probe timeouts. -/
def hasRun (k : Nat) : List Obs → Bool
  | [] => prefixTimeouts k []
  | o :: r => prefixTimeouts k (o :: r) || hasRun k r

/-- Events of the failure accounting, most recent first. -/
inductive Ev
  | skip                 -- no probe
  | reset                -- answered probe, or a credited timeout
  | counted (recv : Int) -- counted timeout, with the receive stamp it was evaluated at
  deriving Repr, DecidableEq

/-- Receive stamp of the most recent counted failure with no reset since. -/
def prevCounted : List Ev → Option Int
  | [] => none
  | .skip :: r => prevCounted r
  | .reset :: _ => none
  | .counted x :: _ => some x

/-- The number of counted failures since the last receive activity / reset, read off the event history
    (most recent first): a counted failure evaluated at a receive stamp later than the previous counted
    failure's starts a new run of length 1. -/
def silentRun : List Ev → Nat
  | [] => 0
  | .skip :: r => silentRun r
  | .reset :: _ => 0
  | .counted x :: r =>
    match prevCounted r with
    | some p => if x > p then 1 else silentRun r + 1
    | none => 1

/-- The event an act contributes (a disconnect is a counted failure). -/
def evOf (o : Obs) : Act → Ev
  | .suppressed => .skip
  | .probeOk | .credited | .recheckCredited => .reset
  | .counted | .disconnect => .counted o.recvNow

/-- Event history (most recent first) of a run. -/
def events (c : Cfg) : LState → List Obs → List Ev → List Ev
  | _, [], acc => acc
  | s, o :: os, acc =>
    let (s', a) := step c s o
    if a = .disconnect then evOf o a :: acc else events c s' os (evOf o a :: acc)

/-- "Every probe timeout is preceded by life": it shows life at evaluation time (frame after the probe, or
    reply outstanding), or a frame was received since the previous probe timeout (`last` = receive stamp
    that timeout was evaluated at; `none` after an answered probe / at the start). -/
def AliveHistory (c : Cfg) : Option Int → List Obs → Prop
  | _, [] => True
  | last, o :: r =>
    if c.suppress && (o.active || decide (o.inflightPre > 0)) then AliveHistory c last r
    else if o.probeOk then AliveHistory c none r
    else if life o.recvNow o.sentAt o.inflight then AliveHistory c none r
    else (match last with | none => True | some p => o.recvNow > p) ∧ AliveHistory c (some o.recvNow) r

end GoSecs.Linktest
