/-
  Connection-lifecycle model (C10, C11; reused by C09/C20).

  Source files modelled (read line by line):
    hsms/connection_lifecycle.go  Open / Close / react / startConnectLoop / connectLoop /
                                  nextBackoffDelay / reconnectSleep / TCPUp / TCPDown
    hsms/epoch.go                 teardown (closeOnce) / join / wait
    hsms/supervisor.go            run / step (only the part that drives teardown and reconnect)
    hsmsss/transport.go           Start / Stop / ArmStart (start gate `stopping`), transport_active.go,
    secs1/transport.go            transport_passive.go (same gate and Stop discipline)

  WHAT IS AN ATOMIC ACTION HERE (DESIGN §4.2).  One action = one linearisation point of the code:
    * a critical section under one mutex:  Close's {reconnectGen++; shutdown:=true; e:=cur} and the
      loop's {re-check; ArmStart; cur:=e} are both under `publishMu`;  Start's {stopping? ; register
      goroutines ; TCPUp} is under `startGate.RLock`;  Stop's {stopping:=true; capture bundle} is
      under `startGate.Lock`;  teardown's body is under `closeOnce`;
    * one supervisor `step` (the run goroutine is the only reader of the event queue);
    * a blocking wait becomes an action that is enabled only when the awaited condition holds
      (`<-e.done`, `connectLoopWg.Wait`, `supWg.Wait`);
    * `supervisor.inject` is a GUARANTEED send on the 16-slot `events` channel: it parks while the
      channel is full and `run()` is alive (`injectOk`), so `requestClose` (Close) and the transport
      goroutines' `TCPDown` / `T7Expired` are enabled only when there is room or `run()` has returned.
  Open and Close run entirely under `lifeMu`, so at most one of them is past its entry; the model keeps
  ONE api program counter and the entry actions are enabled only when it is idle (callers queued on
  `lifeMu` are simply actions that have not happened yet).

  WHAT IS NOT MODELLED (stated limits, see Props/C10.lean):
    * the supervisor's `lastReacted` de-duplication and its evTCPUp/evSelectAccepted bookkeeping
      events (property C05, Model/Supervisor).  Upward moves are the synchronous CAS commits; the
      reaction into NotConnected fires when a downward event finds the state ≠ NotConnected.  This
      coincides with the code as long as an evTCPUp is processed before later events of its own
      generation (FIFO queue + program order of the goroutine that calls TCPUp); a stale evTCPUp
      processed across a whole reconnect is finding F7's territory and is excluded here.
    * `reconnectCancel` (it only shortens the backoff sleep: a closed cancel channel implies the
      F3 fence fails, so "sleep elapsed, then fence" covers the cancelled exit),
      the courtesy Separate, sends, UpdateConfigOptions (they never touch the lifecycle fences),
      abandoned stragglers after a bounded-join timeout, wall-clock time.
  Core Lean only (the driver links this file).
-/
namespace GoSecs.Lifecycle

/-! ## Reconnect backoff (C11) -/

/-- The integer part of `nextBackoffDelay`: `scaled` stands for Go's
    `time.Duration(float64(cur) * multiplier)` (a parameter: float arithmetic is not modelled). -/
def clampNext (scaled ceil : Int) : Int :=
  if scaled ≤ 0 ∨ scaled > ceil then ceil else scaled

/-- `sleepFor := delay; if sleepFor > T5 { sleepFor = T5 }` in `connectLoop`. -/
def sleepFor (delay ceil : Int) : Int := if delay > ceil then ceil else delay

/-- `delay` held by `connectLoop` when it starts attempt `k` (0-based): the configured initial value,
    then `nextBackoffDelay` of the previous one.  `scaled k` / `ceil k` are the float product and the
    live T5 read in iteration `k` (the loop reloads the config every iteration). -/
def delayAt (initial : Int) (scaled ceil : Nat → Int) : Nat → Int
  | 0 => initial
  | k+1 => clampNext (scaled k) (ceil k)

/-- The sleep that precedes dial attempt `k`. -/
def sleepAt (initial : Int) (scaled ceil : Nat → Int) (k : Nat) : Int :=
  sleepFor (delayAt initial scaled ceil k) (ceil k)

/-- Executable form used by the driver: the sleeps of a run given `(scaled_k, ceil_k)` per attempt. -/
def backoffRun (delay : Int) : List (Int × Int) → List Int
  | [] => []
  | (sc, ceil) :: rest => sleepFor delay ceil :: backoffRun (clampNext sc ceil) rest

/-! ## Lifecycle configuration -/

inductive St | nc | ns | sel
  deriving DecidableEq, Repr, Hashable, Inhabited

/-- Events that reach the supervisor queue in this model (downward ones only, see header). -/
inductive Ev | disc | t7 | close
  deriving DecidableEq, Repr, Hashable, Inhabited

/-- Life of one epoch (one TCP generation). `torn`: teardown's closeOnce body ran (ctx cancelled,
    socket closed, spawns sealed, join goroutine launched). `sealed`: the join goroutine's
    `tr.Stop` has set `stopping` under `startGate.Lock`. `stopped`: `tr.Stop` returned (transport
    goroutines joined). `done`: the bounded task join finished and `e.done` is closed. -/
inductive Phase | live | torn | sealed | stopped | done
  deriving DecidableEq, Repr, Hashable, Inhabited

structure Epoch where
  published : Bool := false   -- was ever stored into `cur`
  phase : Phase := .live
  deriving DecidableEq, Repr, Hashable, Inhabited

inductive LoopPc
  | waitPrev            -- `prev.wait()`
  | sleep               -- `reconnectSleep`
  | fence               -- slept; `delay = nextBackoffDelay(..)`; at the F3 check
  | publish (e : Nat)   -- built epoch `e` (unpublished); at `publishMu.Lock()`
  | start (e : Nat)     -- published; sender spawned; inside `tr.Start`
  | failWait (e : Nat)  -- Start failed: `e.teardown()` issued; at `e.wait()`
  | exited
  deriving DecidableEq, Repr, Hashable, Inhabited

structure Loop where
  prev : Nat
  gen : Nat             -- `reconnectGen` captured by `startConnectLoop`
  count : Bool          -- `countReconnect`
  pc : LoopPc := .waitPrev
  k : Nat := 0          -- completed backoff sleeps (index into the backoff sequence)
  deriving DecidableEq, Repr, Hashable, Inhabited

/-- Program counter of the supervisor's run goroutine. `closing` = the event being processed is evClose. -/
inductive RunPc
  | idle
  | reactCheck (closing : Bool)              -- in `react`: about to load `cur` and `shutdown`
  | reactSpawn (e : Nat) (closing : Bool)    -- `!shutdown` seen: about to `startConnectLoop(e, true)`
  | reactTeardown (e : Nat) (closing : Bool) -- about to `e.teardown()`
  | closeTeardown                            -- evClose tail: `closeEpoch.teardown()`
  | exited                                   -- `run()` returned (runDone closed)
  deriving DecidableEq, Repr, Hashable, Inhabited

structure Sup where
  st : St := .nc
  closed : Bool := false
  queue : List Ev := []
  pc : RunPc := .idle
  stopReq : Bool := false          -- `stopCh` closed
  closeEpoch : Option Nat := none
  deriving DecidableEq, Repr, Hashable, Inhabited

/-- The transport singleton: the start gate, which generation's goroutines it currently runs, and
    whether that generation can still deliver a (passive) first accept → TCPUp. -/
structure Tr where
  stopping : Bool := false
  owner : Option Nat := none
  acceptAvail : Bool := false
  deriving DecidableEq, Repr, Hashable, Inhabited

inductive Mode | wait | background
  deriving DecidableEq, Repr, Hashable, Inhabited

/-- Program counter of the (single) `lifeMu` holder. -/
inductive ApiPc
  | idle
  | openJoin (m : Mode)               -- guard passed, fence bumped; at `connectLoopWg.Wait()`
  | openStart (m : Mode) (e : Nat)    -- epoch + supervisor created, transport armed; inside `tr.Start`
  | openColdWait (e : Nat)            -- cold peer (background, active): `e.teardown()`; at `e.wait()`
  | openRollbackWait (e : Nat)        -- `shutdown:=true; requestClose(e)`; at `e.wait()`
  | openRollbackSup                   -- `s.stop()`; at `supWg.Wait()`
  | openWaitSel (e : Nat)             -- `waitSelected`
  | closeReq (e : Nat)                -- fence + re-pin done; about to `requestClose(e)`
  | closeWaitEpoch (e : Nat)          -- at `e.wait()`
  | closeJoinSup                      -- `s.stop()`; at `supWg.Wait()`
  | closeJoinLoops                    -- at `connectLoopWg.Wait()`
  deriving DecidableEq, Repr, Hashable, Inhabited

inductive WaitRes | selected | ctxDone | epochDone
  deriving DecidableEq, Repr, Hashable, Inhabited

structure Cfg where
  active : Bool := true
  api : ApiPc := .idle
  shutdown : Bool := false
  gen : Nat := 0
  cur : Option Nat := none
  sup : Option Sup := none
  epochs : List Epoch := []
  loops : List Loop := []
  tr : Tr := {}
  reconnects : Nat := 0      -- `Metrics().Reconnects()`
  dials : Nat := 0           -- number of `tr.Start` calls that reached the dialer / listener
  deriving DecidableEq, Repr, Hashable, Inhabited

def init (active : Bool) : Cfg := { active := active }

inductive Act
  -- the lifeMu holder
  | openEnter (m : Mode) | openArm | openStartOk | openStartFail | openColdDone
  | openRollbackEpoch | openRollbackDone | openWaitRet (r : WaitRes)
  | closeEnter | closeRequest | closeEpochDone | closeSupDone | closeLoopsDone
  -- the supervisor run goroutine
  | supStep | reactCheck | reactSpawn | reactTeardown | closeTeardown | supExit
  -- the join goroutine of epoch `e`
  | joinSeal (e : Nat) | joinStop (e : Nat) | joinDone (e : Nat)
  -- reconnect loop `i`
  | loopWake (i : Nat) | loopSleep (i : Nat) | loopFence (i : Nat) | loopPublish (i : Nat)
  | loopStartOk (i : Nat) | loopStartFail (i : Nat) | loopFailDone (i : Nat)
  -- the environment: goroutines of the generation the transport currently runs, and the peer
  | envAccept | envSelected | envSelectLost | envDown | envT7
  deriving DecidableEq, Repr, Hashable, Inhabited

/-! ### helpers -/

def phaseOf (c : Cfg) (e : Nat) : Phase := (c.epochs[e]?.map (·.phase)).getD .done

def isDone (c : Cfg) (e : Nat) : Bool := phaseOf c e == .done

def setPhase (c : Cfg) (e : Nat) (p : Phase) : Cfg :=
  { c with epochs := c.epochs.modify e (fun ep => { ep with phase := p }) }

/-- `e.teardown(..)`: the closeOnce body runs at most once. -/
def teardown (c : Cfg) (e : Nat) : Cfg :=
  if phaseOf c e == .live then setPhase c e .torn else c

def loopsExited (c : Cfg) : Bool := c.loops.all (fun l => l.pc == .exited)

def setLoop (c : Cfg) (i : Nat) (f : Loop → Loop) : Cfg := { c with loops := c.loops.modify i f }

def setSup (c : Cfg) (f : Sup → Sup) : Cfg := { c with sup := c.sup.map f }

def supSt (c : Cfg) : St := (c.sup.map (·.st)).getD .nc

/-- `CommitConnected`: CAS NotConnected → NotSelected on the current supervisor. -/
def commitConnected (c : Cfg) : Cfg := setSup c (fun s => if s.st = .nc then { s with st := .ns } else s)

/-- `inject(ev)`: enqueue while `run()` lives; a no-op once it has returned (runDone). -/
def inject (c : Cfg) (ev : Ev) : Cfg :=
  setSup c (fun s => if s.pc = .exited then s else { s with queue := s.queue ++ [ev] })

/-- Successful `tr.Start` for generation `e` (the `startGate.RLock` section): register the
    generation's goroutines; active role drives `TCPUp` synchronously, passive arms the accept. -/
def register (c : Cfg) (e : Nat) : Cfg :=
  { c with
    tr := { c.tr with owner := some e, acceptAvail := !c.active },
    sup := c.sup.map (fun s => if c.active = true ∧ s.st = .nc then { s with st := .ns } else s) }

def stale (c : Cfg) (l : Loop) : Bool := c.shutdown || c.gen != l.gen

/-- `supervisorEventsCap`: capacity of the supervisor's `events` channel (hsms/supervisor.go). -/
def eventsCap : Nat := 16

/-- Can `inject` complete now?  `select { case s.events <- ev: case <-s.runDone: }` — the send is
    GUARANTEED, i.e. it BLOCKS while the buffered channel is full and `run()` is alive; it falls through
    once `run()` has returned.  (The supervisor goroutine itself never injects and never blocks in a
    reaction, so a blocked injector is always released by the next `supStep` or by `supExit`.) -/
def injectOk (c : Cfg) : Bool :=
  match c.sup with
  | none => true
  | some s => s.pc == .exited || s.queue.length < eventsCap

/-! ### the step function (`none` = the action is not enabled) -/

def step? (c : Cfg) : Act → Option Cfg
  /- ---------- Open ---------- -/
  | .openEnter m =>
    if c.api ≠ .idle then none
    else if c.sup.isSome ∧ ¬ c.shutdown then some c                       -- ErrAlreadyOpen, no effect
    else some { c with gen := c.gen + 1, shutdown := false, api := .openJoin m }
  | .openArm =>
    match c.api with
    | .openJoin m =>
      if loopsExited c then
        let e := c.epochs.length
        some { c with epochs := c.epochs ++ [{ published := true }], cur := some e, sup := some {},
                      tr := { c.tr with stopping := false }, api := .openStart m e }
      else none
    | _ => none
  | .openStartOk =>
    match c.api with
    | .openStart m e =>
      let c1 := { c with dials := c.dials + 1 }
      if c1.tr.stopping then none   -- cannot happen in Open (armed under lifeMu); kept disabled
      else
        let c2 := register c1 e
        some { c2 with api := (match m with | .wait => .openWaitSel e | .background => .idle) }
    | _ => none
  | .openStartFail =>
    match c.api with
    | .openStart m e =>
      let c1 := { c with dials := c.dials + 1 }
      if m = .background ∧ c.active ∧ supSt c = .nc then
        some { teardown c1 e with api := .openColdWait e }
      else
        let c2 := { c1 with shutdown := true }
        -- (the events queue of the supervisor this Open created is still empty here — invariant S6a —
        --  so this `inject` never parks and needs no `injectOk` guard)
        let c3 := inject (setSup c2 (fun s => { s with closeEpoch := some e })) .close
        some { c3 with api := .openRollbackWait e }
    | _ => none
  | .openColdDone =>
    match c.api with
    | .openColdWait e =>
      if isDone c e then
        some { c with loops := c.loops ++ [{ prev := e, gen := c.gen, count := false }], api := .idle }
      else none
    | _ => none
  | .openRollbackEpoch =>
    match c.api with
    | .openRollbackWait e =>
      if isDone c e then some { setSup c (fun s => { s with stopReq := true }) with api := .openRollbackSup }
      else none
    | _ => none
  | .openRollbackDone =>
    match c.api with
    | .openRollbackSup => if (c.sup.map (·.pc)) = some .exited then some { c with api := .idle } else none
    | _ => none
  | .openWaitRet r =>
    match c.api with
    | .openWaitSel e =>
      let ok : Bool := match r with
        | .selected => supSt c == .sel
        | .ctxDone => true
        | .epochDone => isDone c e
      if ok then some { c with api := .idle } else none
    | _ => none
  /- ---------- Close ---------- -/
  | .closeEnter =>
    if c.api ≠ .idle then none
    else match c.cur, c.sup with
      | none, _ => some c                                                  -- ErrNotOpen
      | some _, none => some c                                             -- unreachable (Open stores both)
      | some e, some s =>
        if s.pc = .exited then (if isDone c e then some c else none)       -- idempotent re-Close: `e.wait()`
        else some { c with gen := c.gen + 1, shutdown := true, api := .closeReq e }   -- publishMu section
  | .closeRequest =>
    match c.api with
    | .closeReq e =>
      if injectOk c then
        let c1 := inject (setSup c (fun s => { s with closeEpoch := some e })) .close
        some { c1 with api := .closeWaitEpoch e }
      else none                                                           -- parked on the full events channel
    | _ => none
  | .closeEpochDone =>
    match c.api with
    | .closeWaitEpoch e =>
      if isDone c e then some { setSup c (fun s => { s with stopReq := true }) with api := .closeJoinSup }
      else none
    | _ => none
  | .closeSupDone =>
    match c.api with
    | .closeJoinSup => if (c.sup.map (·.pc)) = some .exited then some { c with api := .closeJoinLoops } else none
    | _ => none
  | .closeLoopsDone =>
    match c.api with
    | .closeJoinLoops =>
      -- `connectLoopWg.Wait()` returned; then `s.state.Store(NotConnected)` (every committer is joined)
      if loopsExited c then some { setSup c (fun s => { s with st := .nc }) with api := .idle } else none
    | _ => none
  /- ---------- supervisor run goroutine ---------- -/
  | .supStep =>
    match c.sup with
    | none => none
    | some s =>
      if s.pc ≠ .idle then none else
      match s.queue with
      | [] => none
      | ev :: q =>
        let s1 := { s with queue := q }
        if s.closed then some { c with sup := some s1 } else
        match ev with
        | .disc =>
          if s.st ≠ .nc then some { c with sup := some { s1 with st := .nc, pc := .reactCheck false } }
          else some { c with sup := some s1 }
        | .t7 =>
          if s.st = .ns then some { c with sup := some { s1 with st := .nc, pc := .reactCheck false } }
          else some { c with sup := some s1 }
        | .close =>
          if s.st ≠ .nc then some { c with sup := some { s1 with st := .nc, closed := true, pc := .reactCheck true } }
          else some { c with sup := some { s1 with closed := true, pc := .closeTeardown } }
  | .reactCheck =>
    match c.sup with
    | some s =>
      (match s.pc with
       | .reactCheck closing =>
         let nxt : RunPc := match c.cur with
           | none => if closing then .closeTeardown else .idle
           | some e => if c.shutdown then .reactTeardown e closing else .reactSpawn e closing
         some { c with sup := some { s with pc := nxt } }
       | _ => none)
    | none => none
  | .reactSpawn =>
    match c.sup with
    | some s =>
      (match s.pc with
       | .reactSpawn e closing =>
         some { c with loops := c.loops ++ [{ prev := e, gen := c.gen, count := true }],
                       sup := some { s with pc := .reactTeardown e closing } }
       | _ => none)
    | none => none
  | .reactTeardown =>
    match c.sup with
    | some s =>
      (match s.pc with
       | .reactTeardown e closing =>
         some (teardown { c with sup := some { s with pc := if closing then .closeTeardown else .idle } } e)
       | _ => none)
    | none => none
  | .closeTeardown =>
    match c.sup with
    | some s =>
      (match s.pc with
       | .closeTeardown =>
         let c1 := { c with sup := some { s with pc := .idle } }
         some (match s.closeEpoch with | some e => teardown c1 e | none => c1)
       | _ => none)
    | none => none
  | .supExit =>
    match c.sup with
    | some s => if s.pc = .idle ∧ s.stopReq then some { c with sup := some { s with pc := .exited } } else none
    | none => none
  /- ---------- join goroutine ---------- -/
  | .joinSeal e =>
    if phaseOf c e == .torn then some { setPhase c e .sealed with tr := { c.tr with stopping := true } } else none
  | .joinStop e =>
    if phaseOf c e == .sealed then
      some { setPhase c e .stopped with tr := { c.tr with owner := none, acceptAvail := false } }
    else none
  | .joinDone e =>
    if phaseOf c e == .stopped then some (setPhase c e .done) else none
  /- ---------- reconnect loop ---------- -/
  | .loopWake i =>
    match c.loops[i]? with
    | some l => if l.pc = .waitPrev ∧ isDone c l.prev then some (setLoop c i (fun l => { l with pc := .sleep })) else none
    | none => none
  | .loopSleep i =>
    match c.loops[i]? with
    | some l => if l.pc = .sleep then some (setLoop c i (fun l => { l with pc := .fence, k := l.k + 1 })) else none
    | none => none
  | .loopFence i =>
    match c.loops[i]? with
    | some l =>
      if l.pc = .fence then
        if stale c l then some (setLoop c i (fun l => { l with pc := .exited }))
        else
          let e := c.epochs.length
          some (setLoop { c with epochs := c.epochs ++ [{}] } i (fun l => { l with pc := .publish e }))
      else none
    | none => none
  | .loopPublish i =>
    match c.loops[i]? with
    | some l =>
      (match l.pc with
       | .publish e =>
         if stale c l then some (setLoop c i (fun l => { l with pc := .exited }))
         else
           let c1 := { c with tr := { c.tr with stopping := false }, cur := some e,
                              epochs := c.epochs.modify e (fun ep => { ep with published := true }) }
           some (setLoop c1 i (fun l => { l with pc := .start e }))
       | _ => none)
    | none => none
  | .loopStartOk i =>
    match c.loops[i]? with
    | some l =>
      (match l.pc with
       | .start e =>
         let c1 := { c with dials := c.dials + 1 }
         if c1.tr.stopping then   -- errStartSealed: dialled, then aborted under the gate
           some (setLoop (teardown c1 e) i (fun l => { l with pc := .failWait e }))
         else
           let c2 := register c1 e
           some (setLoop { c2 with reconnects := c2.reconnects + (if l.count then 1 else 0) } i
                   (fun l => { l with pc := .exited }))
       | _ => none)
    | none => none
  | .loopStartFail i =>
    match c.loops[i]? with
    | some l =>
      (match l.pc with
       | .start e =>
         some (setLoop (teardown { c with dials := c.dials + 1 } e) i (fun l => { l with pc := .failWait e }))
       | _ => none)
    | none => none
  | .loopFailDone i =>
    match c.loops[i]? with
    | some l =>
      (match l.pc with
       | .failWait e => if isDone c e then some (setLoop c i (fun l => { l with pc := .sleep })) else none
       | _ => none)
    | none => none
  /- ---------- environment ---------- -/
  | .envAccept =>
    if c.tr.owner.isSome ∧ c.tr.acceptAvail then
      some (commitConnected { c with tr := { c.tr with acceptAvail := false } })
    else none
  | .envSelected =>
    if c.tr.owner.isSome ∧ supSt c = .ns then some (setSup c (fun s => { s with st := .sel })) else none
  | .envSelectLost =>
    if c.tr.owner.isSome ∧ supSt c = .sel then some (setSup c (fun s => { s with st := .ns })) else none
  | .envDown => if c.tr.owner.isSome ∧ injectOk c then some (inject c .disc) else none
  | .envT7 => if c.tr.owner.isSome ∧ injectOk c then some (inject c .t7) else none

/-- Total step: a disabled action leaves the configuration unchanged. -/
def step (c : Cfg) (a : Act) : Cfg := (step? c a).getD c

/-- "Every interleaving" = every finite action list. -/
def run (c : Cfg) (as : List Act) : Cfg := as.foldl step c

/-! ### Failure causes (C11): how each involuntary loss enters the supervisor

  Taken from hsmsss/transport_recv.go (`recvLoop`: any `readFrame` error — peer close, reset, T8
  inter-byte stall, malformed length — calls `rt.TCPDown`), transport_active.go
  (`runSelectProcedure`: T6 expiry / write error / non-zero select status call `rt.TCPDown`),
  transport_procedures.go (linktest failure threshold → `TCPDown`; T7 dwell → `rt.T7Expired`;
  peer Separate while Selected → `TCPDown`), connection_send.go (write error / write timeout →
  `TCPDown`), secs1/transport.go (`lineEngine` read / EOT-write errors → `TCPDown`). -/
inductive Cause
  | peerClose | peerReset | t8Stall | badLength | t6SelectTimeout | selectRejected
  | writeError | writeTimeout | linktestFail | peerSeparate | t7Dwell
  deriving DecidableEq, Repr, Inhabited

def Cause.act : Cause → Act
  | .t7Dwell => .envT7
  | _ => .envDown

end GoSecs.Lifecycle
