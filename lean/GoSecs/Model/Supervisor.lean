/-
  Model of hsms/supervisor.go: the E37 connection-state machine under every interleaving of
  the run goroutine with the three lock-free synchronous commits.

  Atomic actions = the linearisation points of the code (plus `closeReturn`, the final store of Close()):
    * `casConnected/casSelected/casSelectLost` — the CompareAndSwap of CommitConnected/CommitSelected/
      CommitSelectLost; on success the event to inject is parked in the committer's pending slot
      (`pendStart` for the start/connect thread, `pendRecv` for the receive goroutine: each thread
      injects before its next CAS, so one slot per thread is exact);
    * `injStart/injRecv` — that thread's `s.inject(ev)` (channel send);
    * `inject k` — a direct inject (TCPDown → evDisconnect tagged with the current TCP generation,
      T7Expired → evT7Timeout tagged with the current NotSelected dwell, requestClose → evClose);
    * `runLoad` — run(): receive the next event; step(): closed check, `state.Load()`, stale select-lost abandon;
    * `runCommit` — step(): stale-tag check (generation / dwell read after the state), transition,
      Store / T7 CompareAndSwap, deduped fireTransition, close latch;
    * `deliver` — the notifier takes one buffered notification.

  Sequence tags.  `gen` counts TCP-up commits, `dwell` counts entries into NotSelected (the two commits
  into NotSelected and the run goroutine's own store of NotSelected).  In the code a commit advances its
  counters BEFORE its CAS and takes them back if the CAS fails; the model performs counter and CAS in one
  action at the CAS.  Between the two instructions the state still has its old value (NotConnected resp.
  Selected), from which a disconnect / T7 event is a no-op whether or not it is recognised as stale, and an
  injector that already reads the new number behaves as one running right after the CAS; so every schedule
  of the split instructions has the same observable outcome as one of the fused action.  Likewise
  `runCommit` fuses the counter load with the store that follows it (as it already does for
  `deselectPending`).
  The events channel is modelled unbounded (a superset of the real schedules: a full channel only
  delays the sender); the notify buffer has its real capacity because dropping is observable.

  Core Lean only.
-/
namespace GoSecs.Sup

inductive St where
  | NC | NS | S
  deriving DecidableEq, Repr, Inhabited

/-- Events as they travel through the queue. `disc g` carries the TCP generation in which the drop was
    reported, `t7 d` the NotSelected dwell in which the timer expired. -/
inductive Ev where
  | tcpUp | selAcc | selLost | disc (g : Nat) | close | t7 (d : Nat)
  deriving DecidableEq, Repr, Inhabited

def St.toNat : St → Nat
  | .NC => 0 | .NS => 1 | .S => 2

/-- Go's iota numbering of fsmEvent. -/
def Ev.toNat : Ev → Nat
  | .tcpUp => 0 | .selAcc => 1 | .selLost => 2 | .disc _ => 3 | .close => 4 | .t7 _ => 5

@[simp] def Ev.isT7 : Ev → Bool
  | .t7 _ => true
  | _ => false

/-- The E37 table (hand-written specification; `Props/C05.transition_gen` ties it to the Go source). -/
def transition : St → Ev → St × Bool
  | .NC, .tcpUp => (.NS, true)
  | .NS, .tcpUp => (.NS, true)
  | .NS, .selAcc => (.S, true)
  | .S, .selAcc => (.S, true)
  | .S, .selLost => (.NS, true)
  | .NS, .selLost => (.NS, true)
  | .S, .disc _ => (.NC, true)
  | .NS, .disc _ => (.NC, true)
  | .NS, .t7 _ => (.NC, true)
  | _, .close => (.NC, true)
  | cur, _ => (cur, false)

/-- Run goroutine program counter: between `state.Load()` and the store it holds the event and the
    value it loaded. -/
inductive RunPc where
  | idle
  | loaded (ev : Ev) (cur : St)
  deriving DecidableEq, Repr, Inhabited

/-- `supervisorNotifyCap`. -/
def notifyCap : Nat := 16

structure Cfg where
  st : St := .NC
  queue : List Ev := []
  pc : RunPc := .idle
  lastReacted : St := .NC
  closed : Bool := false
  pendStart : Option Ev := none
  pendRecv : Option Ev := none
  notify : List (St × St) := []
  dropped : Nat := 0
  emitted : List (St × St) := []      -- ghost: every notification ever emitted, in order
  delivered : List (St × St) := []    -- what handlers have seen, in order
  reactions : List (St × St) := []    -- react(prev, next) calls, in order
  stopped : Bool := false             -- Close has returned: supervisor stopped, every generation and loop joined
  gen : Nat := 0                      -- `generation`: TCP-up commits so far
  dwell : Nat := 0                    -- `dwell`: entries into NotSelected so far
  deriving Repr, Inhabited

def init : Cfg := {}

/-- The direct injectors: TCPDown, T7Expired, requestClose. -/
inductive Inj where
  | disc | t7 | close
  deriving DecidableEq, Repr, Inhabited

inductive Act where
  | casConnected | casSelected | casSelectLost
  | injStart | injRecv
  | inject (k : Inj)
  | runLoad | runCommit
  | deliver
  | closeReturn   -- the tail of Close(): after evClose was processed and everything joined, publish NotConnected
  deriving DecidableEq, Repr, Inhabited

/-- `emit`: non-blocking send, dropping the oldest buffered notification when the buffer is full. -/
def emit (c : Cfg) (sc : St × St) : Cfg :=
  if c.notify.length < notifyCap then
    { c with notify := c.notify ++ [sc], emitted := c.emitted ++ [sc] }
  else
    { c with notify := c.notify.drop 1 ++ [sc], emitted := c.emitted ++ [sc], dropped := c.dropped + 1 }

/-- `fireTransition` + `lastReacted = next` (the relative order of react and emit is not observable here). -/
def fire (c : Cfg) (next : St) : Cfg :=
  let c1 := emit c (c.lastReacted, next)
  { c1 with reactions := c1.reactions ++ [(c.lastReacted, next)], lastReacted := next }

/-- Deduplicated reaction: `if next != s.lastReacted { fireTransition; lastReacted = next }`. -/
def reactTo (c : Cfg) (next : St) : Cfg := if next = c.lastReacted then c else fire c next

/-- `if ev == evClose { s.closed = true; teardown }`. -/
def latch (c : Cfg) (ev : Ev) : Cfg := if ev = .close then { c with closed := true } else c

/-- Which branch of `step`'s store half is taken, as a function of the event, the loaded value
    and the value of the atomic at the store. -/
inductive Outcome where
  | noop      -- illegal pair: nothing but the close latch
  | react     -- legal, next = cur: no store, deduped reaction
  | abandon   -- T7 CompareAndSwap lost the tie to a concurrent commit: early return
  | store     -- Store(next) (or successful T7 CAS), deduped reaction
  deriving DecidableEq, Repr

def outcome (ev : Ev) (cur st : St) (deselPending : Bool) : Outcome :=
  if (transition cur ev).2 = false then .noop
  else if (transition cur ev).1 = cur then .react
  else if ev.isT7 ∧ st ≠ cur then .abandon
  else if ev = .selAcc ∧ deselPending then .react   -- superseded by a later Deselect commit: reaction only
  else .store

/-- `deselectPending > 0`: a select-lost event published by CommitSelectLost is still on its way
    (parked before its inject, or queued). -/
def deselPending (c : Cfg) : Bool := decide (Ev.selLost ∈ c.queue) || (c.pendRecv == some .selLost)

/-- `step`'s own store of NotSelected (an entry no commit pre-stored) opens a new dwell as well. -/
def dwellAfterStore (c : Cfg) (next : St) : Nat := if next = .NS then c.dwell + 1 else c.dwell

/-- The store half of `step` for a loaded `(ev, cur)`. -/
def commit (c : Cfg) (ev : Ev) (cur : St) : Cfg :=
  match outcome ev cur c.st (deselPending c) with
  | .noop => latch { c with pc := .idle } ev
  | .react => latch (reactTo { c with pc := .idle } (transition cur ev).1) ev
  | .abandon => { c with pc := .idle }
  | .store =>
    latch (reactTo { c with pc := .idle, st := (transition cur ev).1, dwell := dwellAfterStore c (transition cur ev).1 }
      (transition cur ev).1) ev

/-- What an injector enqueues: the event tagged with the sequence number current at the call. -/
def Inj.toEv (c : Cfg) : Inj → Ev
  | .disc => .disc c.gen
  | .t7 => .t7 c.dwell
  | .close => .close

/-- `step`'s stale check: a disconnect of an earlier TCP generation, a T7 expiry of an earlier dwell. -/
def stale (c : Cfg) : Ev → Bool
  | .disc g => decide (g < c.gen)
  | .t7 d => decide (d < c.dwell)
  | _ => false

/-- One atomic action while the connection's goroutines are alive. -/
def stepLive (c : Cfg) : Act → Cfg
  | .casConnected =>
    if c.pendStart.isNone ∧ c.st = .NC then
      { c with st := .NS, pendStart := some .tcpUp, gen := c.gen + 1, dwell := c.dwell + 1 } else c
  | .casSelected =>
    if c.pendRecv.isNone ∧ c.st = .NS then { c with st := .S, pendRecv := some .selAcc } else c
  | .casSelectLost =>
    if c.pendRecv.isNone ∧ c.st = .S then { c with st := .NS, pendRecv := some .selLost, dwell := c.dwell + 1 } else c
  | .injStart =>
    match c.pendStart with
    | some e => { c with pendStart := none, queue := c.queue ++ [e] }
    | none => c
  | .injRecv =>
    match c.pendRecv with
    | some e => { c with pendRecv := none, queue := c.queue ++ [e] }
    | none => c
  | .inject k => { c with queue := c.queue ++ [k.toEv c] }
  | .runLoad =>
    match c.pc, c.queue with
    | .idle, e :: q =>
      if c.closed then { c with queue := q }
      else if e = .selLost ∧ c.st = .S then { c with queue := q }
      else { c with queue := q, pc := .loaded e c.st }
    | _, _ => c
  | .runCommit =>
    match c.pc with
    | .idle => c
    | .loaded ev cur => if stale c ev then { c with pc := .idle } else commit c ev cur
  | .deliver =>
    match c.notify with
    | [] => c
    | sc :: rest => { c with notify := rest, delivered := c.delivered ++ [sc] }
  | .closeReturn =>
    -- Close() returns only after evClose was processed (e.wait), the supervisor stopped and all
    -- loops joined; its last act is `s.state.Store(NotConnected)`.
    if c.closed ∧ c.pc = .idle then { c with st := .NC, stopped := true } else c

/-- After Close has returned nothing runs any more (the joins are the lifecycle argument, DESIGN §5 C10;
    here they are the rule that no action is enabled once `stopped`). -/
def step (c : Cfg) (a : Act) : Cfg := if c.stopped then c else stepLive c a

/-- Every interleaving is a finite list of actions. -/
def run (c : Cfg) (as : List Act) : Cfg := as.foldl step c

/-- The state-diagram edges of SEMI E37 §5.4–5.6. -/
def Edge : St → St → Prop
  | .NC, .NS => True
  | .NS, .S => True
  | .S, .NS => True
  | .NS, .NC => True
  | .S, .NC => True
  | _, _ => False

instance : DecidablePred (fun p : St × St => Edge p.1 p.2) := fun p => by
  cases p with | mk a b => cases a <;> cases b <;> simp [Edge] <;> infer_instance

/-- What the synchronous commits alone can make of a loaded value (the load/store window). -/
def CommitReach : St → St → Prop
  | .NC, _ => True
  | .NS, .NS => True
  | .NS, .S => True
  | .S, .S => True
  | .S, .NS => True
  | _, _ => False

/-- State a commit event announces (the CAS target). -/
def tgt : Ev → Option St
  | .tcpUp => some .NS
  | .selAcc => some .S
  | .selLost => some .NS
  | _ => none

end GoSecs.Sup
