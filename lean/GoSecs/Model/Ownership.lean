/-
  Ownership (region) model for property C12 — items and messages are immutable, alias-free and safe for
  concurrent readers.

  A pure model of an item is immutable by construction, so what has to be modelled is OWNERSHIP of the
  mutable Go backing arrays ("regions"):

    * a `State` has a heap (region → bytes), the set of ITEM-OWNED regions (storage an item or message
      reads when it is observed) and the set of CALLER-REACHABLE mutable regions (every slice the
      application passed in or got back and may therefore write to);
    * every API call is one `Op`; its `Kind` is what the regenerated provenance table
      (`Gen.returnProvenance` / `Gen.paramRetention`, tools/go2lean/provenance.go) says about the Go
      function: constructors / copying decoders are `constructCopy`, the documented ownership-transfer
      entry points are `constructTransfer` (the caller relinquishes the region — that is the contract),
      an accessor returning `fresh | clone | value | string | nil` is `accessFresh`, `append-param`
      (AppendTo-style helpers) is `appendTo`; `constructRetain` and `accessView` are what a `retained`
      parameter without such a contract and a `view:` result would be — the two UNSAFE kinds;
    * `callerMutate` lets the application overwrite any byte of any region it can reach.

  `observe` reads the item-owned regions.  Props/C12 proves that sequences of safe-kind operations keep the
  two sets disjoint, so no observation ever changes, and that the two unsafe kinds really break this.

  The second half models the `sync.Once` memo cells (`treeBody.once/enc`, `decodeState.once/item/err`)
  as a small-step system over an arbitrary number of goroutines.

  Core Lean only (the driver links this file).
-/
import GoSecs.Model.Bytes

namespace GoSecs.Ownership

abbrev Region := Nat

/-- Operation kinds: what the provenance table classifies each API entry as. -/
inductive Kind where
  | callerAlloc        -- the application allocates a buffer of its own
  | constructCopy      -- constructor / copying decode entry point: reads the argument, keeps a private copy
  | constructTransfer  -- documented ownership transfer: the item keeps the argument, the caller gives it up
  | constructRetain    -- UNSAFE: the item keeps the argument while the caller can still reach it
  | accessFresh        -- accessor / serializer result is a fresh copy (or a value / immutable string / nil)
  | accessView         -- UNSAFE: the result IS item-owned storage
  | appendTo           -- append helper: writes a copy of item storage into the caller's buffer, returns that buffer
  | callerMutate       -- the application overwrites a byte of a region it can reach
  deriving DecidableEq, Repr

/-- The kinds an alias-free API is allowed to consist of. -/
def Kind.safe : Kind → Bool
  | .constructRetain => false
  | .accessView => false
  | _ => true

inductive Op where
  | callerAlloc (content : Bytes)
  | constructCopy (arg : Region)
  | constructTransfer (arg : Region)
  | constructRetain (arg : Region)
  | accessFresh (src : Region)
  | accessView (src : Region)
  | appendTo (src buf : Region)
  | callerMutate (r : Region) (i : Nat) (v : UInt8)

def Op.kind : Op → Kind
  | .callerAlloc _ => .callerAlloc
  | .constructCopy _ => .constructCopy
  | .constructTransfer _ => .constructTransfer
  | .constructRetain _ => .constructRetain
  | .accessFresh _ => .accessFresh
  | .accessView _ => .accessView
  | .appendTo _ _ => .appendTo
  | .callerMutate _ _ _ => .callerMutate

structure State where
  heap : Region → Bytes
  next : Region            -- allocation frontier: every region in use is < next
  owned : List Region      -- item-owned regions, newest first
  caller : List Region     -- caller-reachable mutable regions

def init : State := { heap := fun _ => [], next := 0, owned := [], caller := [] }

def put (h : Region → Bytes) (r : Region) (c : Bytes) : Region → Bytes :=
  fun x => if x = r then c else h x

/-- One API call / application write.  Operations naming a region the actor cannot reach are no-ops
    (the application can only pass or write buffers it holds; an accessor only reads its own item). -/
def step (s : State) : Op → State
  | .callerAlloc c =>
    { s with heap := put s.heap s.next c, next := s.next + 1, caller := s.next :: s.caller }
  | .constructCopy a =>
    if a ∈ s.caller then
      { s with heap := put s.heap s.next (s.heap a), next := s.next + 1, owned := s.next :: s.owned }
    else s
  | .constructTransfer a =>
    if a ∈ s.caller then { s with owned := a :: s.owned, caller := s.caller.filter (· != a) } else s
  | .constructRetain a =>
    if a ∈ s.caller then { s with owned := a :: s.owned } else s
  | .accessFresh src =>
    if src ∈ s.owned then
      { s with heap := put s.heap s.next (s.heap src), next := s.next + 1, caller := s.next :: s.caller }
    else s
  | .accessView src =>
    if src ∈ s.owned then { s with caller := src :: s.caller } else s
  | .appendTo src buf =>
    if src ∈ s.owned ∧ buf ∈ s.caller then { s with heap := put s.heap buf (s.heap buf ++ s.heap src) } else s
  | .callerMutate r i v =>
    if r ∈ s.caller then { s with heap := put s.heap r ((s.heap r).set i v) } else s

def run (s : State) (ops : List Op) : State := ops.foldl step s

/-- What all accessors of all live items can see: the contents of every item-owned region. -/
def observe (s : State) : List (Region × Bytes) := s.owned.map (fun r => (r, s.heap r))

/-- Item-owned and caller-reachable regions are disjoint, and both lie below the allocation frontier. -/
def Separated (s : State) : Prop :=
  (∀ r, r ∈ s.owned → r ∉ s.caller) ∧ (∀ r, r ∈ s.owned → r < s.next) ∧ (∀ r, r ∈ s.caller → r < s.next)

/-! ### provenance classes → operation kinds -/

/-- Result classes that hand the caller memory no item reads. -/
def freshClasses : List String := ["fresh", "clone", "value", "string", "nil"]

def kindOfReturnClass (c : String) : Kind :=
  if c == "append-param" then .appendTo
  else if freshClasses.contains c then .accessFresh
  else .accessView     -- view:… / via:… / unknown:… — assume the worst

/-- `documented` = the function is one of the documented ownership-transfer entry points. -/
def kindOfParamClass (documented : Bool) (c : String) : Kind :=
  if c == "copied" then .constructCopy
  else if c == "retained" && documented then .constructTransfer
  else .constructRetain  -- retained without a contract, or unknown:…

/-! ## sync.Once memo cells -/
namespace Once

/-- `sync.Once`: idle, running `f` on behalf of goroutine `owner`, done. -/
inductive OnceSt where
  | idle
  | running (owner : Nat)
  | done
  deriving DecidableEq, Repr

/-- A caller of `Item()` / `DecodeErr()` / `encoded()`: about to call `once.Do`, inside `f` (only the
    goroutine that won), returned from `Do`, finished with the value it read from the cell. -/
inductive G (V : Type) where
  | want
  | inF
  | afterDo
  | got (v : Option V)
  deriving DecidableEq

structure Cfg (B V : Type) where
  body : B                 -- the immutable message body / item tree the memo is computed from
  once : OnceSt
  cell : Option V          -- dec.item,dec.err / enc
  computations : Nat       -- how many times `f` ran
  gs : Nat → G V           -- every goroutine (and every re-stamped copy: they share the same cell pointer)

def init {B V : Type} (b : B) : Cfg B V :=
  { body := b, once := .idle, cell := none, computations := 0, gs := fun _ => .want }

def setG {V : Type} (gs : Nat → G V) (g : Nat) (x : G V) : Nat → G V := fun i => if i = g then x else gs i

/-- Goroutine `g` takes one step.  `Do` blocks (no progress) while another goroutine runs `f`;
    the winner computes `f body`, stores it and marks the Once done in that order. -/
def step {B V : Type} (f : B → V) (c : Cfg B V) (g : Nat) : Cfg B V :=
  match c.gs g with
  | .want =>
    match c.once with
    | .idle => { c with once := .running g, gs := setG c.gs g .inF }
    | .running _ => c
    | .done => { c with gs := setG c.gs g .afterDo }
  | .inF => { c with cell := some (f c.body), computations := c.computations + 1, once := .done,
                      gs := setG c.gs g .afterDo }
  | .afterDo => { c with gs := setG c.gs g (.got c.cell) }
  | .got _ => c

def run {B V : Type} (f : B → V) (c : Cfg B V) (sched : List Nat) : Cfg B V := sched.foldl (step f) c

end Once

end GoSecs.Ownership
