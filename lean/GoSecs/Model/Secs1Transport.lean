/-
  Model of the SECS-I transport's generation / hand-off layer (properties C09 and C20 on SECS-I connections).

  Code modelled (line by line):
    secs1/transport.go   genState / t.gen (atomic pointer), startActive / acceptLoop (publish the bundle, TCPUp,
                         CommitSelected, spawn the line engine), Write (gen.Load, I1 conn check, hand-off select,
                         result select — as repaired by c77bf45: its genDone branch first takes a report that is already in), lineEngine (loop: genDone / take a request / poll / receive), runSend,
                         Stop (seal, gen.Store(nil), engineCancel, close(genDone), conn.Close, bounded join), ArmStart
    secs1/line.go        sendBlock as far as it decides WHICH socket carries a block, what is counted
                         (incBlockSendCount / incBlockRetryCount / incBlockSendFailedCount) and that a block taken during a
                         contention yield is delivered INLINE (`deliver(recv)`) from inside the pending send
    secs1/assembler.go   accept: the per-generation partial message, completion -> deliverFrame (= rt.DeliverOwnedFrame)
    hsms/connection_send.go   the caller of Write: sendWaitReply / sendNoReply / drainSendCh -> writeFrame (e.writeMu,
                         liveConn, e.ctx, B2 gate, incDataMsgSend on nil), isCountedSendErr, the in-flight gauge, the
                         four-way reply wait
    hsms/connection_runtime.go  DeliverOwnedFrame: incDataMsgRecv, then routing / handlers INLINE on the calling goroutine
    hsms/epoch.go        teardown = cancel + closeSocket, then (own goroutine) stopTransport = transport.Stop, then done

  What is abstracted: the block-level exchange of one request is a nondeterministic sequence of transmission attempts
  (`xmit g acked`) closed by one outcome (`finish g r`, r = ok | sendFailed | aborted | ioErr) — the E4 retry / contention
  discipline and exactly-once reassembly under line faults are proved separately (C17 / C18, Model/Secs1.lean).  What is
  kept: WHICH generation's socket carries every block, WHO is released WHEN, WHAT is counted.  The assembler is reduced to
  its open partial message (the list of blocks it holds, each tagged with the socket it was read from) and the effect
  `Asm` of one `accept` call.  Reply correlation (which sender a delivered secondary completes) is C06's subject (shared
  core, Model/Router.lean): here the reply branch of the wait is an input.

  Generations and epochs share one index: the core publishes epoch g, `Start` publishes the transport bundle of the same g.
  Two "current" pointers exist and both are modelled: `cur` (hsms `c.cur`, never cleared) and `tgen` (secs1 `t.gen`,
  cleared by Stop).

  Style as Model/Router.lean: `Cfg`, atomic `Action`s = linearisation points, total `step`, every interleaving = every
  finite action list.  Core Lean only (the driver links this file).
-/
import GoSecs.Model.Router

namespace GoSecs.S1T
open GoSecs.Router (upd upd_same upd_other b2n)

inductive Kind where
  | sync     -- W-bit data message through sendWaitReply (reply expected)
  | ff       -- data message written synchronously without reply correlation (non-W send, a reply message, sendNoReply)
  | async    -- SendAsync: queued on the epoch's sendCh, written by the epoch's drain goroutine
  deriving DecidableEq, Repr

/-- What `writeFrame` got: from its own pre-write checks or from `transport.Write`. -/
inductive WRes where
  | ok            -- every block ACKed: Write returned nil
  | closed        -- ErrConnClosed: conn nil / ctx done (core), gen nil / other generation's conn / genDone (transport)
  | notSelected   -- B2 gate
  | sendFailed    -- ErrSendFailed: retry limit exhausted on some block
  | aborted       -- the engine's ctx error: sendBlock saw the generation's context cancelled
  | ioErr         -- a write error on the (closed) socket
  deriving DecidableEq, Repr

inductive Outcome where
  | reply | timeout | closed | ctx | notOpen | notSelected | sendFailed | aborted | ioErr | sent
  deriving DecidableEq, Repr

def WRes.outcome : WRes → Outcome
  | .ok => .sent | .closed => .closed | .notSelected => .notSelected | .sendFailed => .sendFailed
  | .aborted => .aborted | .ioErr => .ioErr

/-- isCountedSendErr: a genuine transport failure (not a refusal, not teardown, not a context error) -/
def WRes.counted : WRes → Bool
  | .sendFailed => true | .ioErr => true | _ => false

inductive Pc where
  | new
  | begun      -- the call exists (kind, number of blocks fixed)
  | pinned     -- e := c.cur.Load()
  | gated      -- B1 gate passed
  | queued     -- async only: accepted into e.sendCh, the caller has returned
  | locked     -- e.writeMu held
  | checked    -- writeFrame: conn := e.liveConn() non-nil, e.ctx not done, B2 passed; about to call tr.Write(conn)
  | loaded     -- Write: gs := t.gen.Load(), gs != nil, gs.conn == conn; parked in select { gs.sendReqCh <- req | <-gs.genDone }
  | handed     -- the engine took req; parked in select { <-req.done | <-gs.genDone } (the genDone branch takes a result
               -- that is already in: `select { case err := <-req.done: return err; default: }` before ErrConnClosed)
  | returned   -- Write (or a pre-write check) returned; e.writeMu still held
  | written    -- W-bit only: writeFrame returned nil (send counted, lock released)
  | waiting    -- in-flight gauge incremented, parked in the four-way reply wait
  | decided    -- a branch of the reply wait was taken; the deferred decrement has not run
  | done
  deriving DecidableEq, Repr

def Pc.rank : Pc → Nat
  | .new => 0 | .begun => 1 | .pinned => 2 | .gated => 3 | .queued => 4 | .locked => 5 | .checked => 6 | .loaded => 7
  | .handed => 8 | .returned => 9 | .written => 10 | .waiting => 11 | .decided => 12 | .done => 13

structure Sender where
  kind : Kind := .sync
  pc : Pc := .new
  nblk : Nat := 1                -- blocks of the message (splitFrame)
  ep : Nat := 0                  -- pinned epoch (valid from `pinned` on); its conn is what writeFrame passes to Write
  gs : Option Nat := none        -- the generation bundle Write loaded from t.gen (after the I1 check)
  acked : Nat := 0               -- blocks of this request ACKed so far (engine side)
  done : Option WRes := none     -- req.done (capacity 1): the engine's report
  late : Bool := false           -- ghost: the engine's report came after the sender had left Write (through genDone)
  wres : Option WRes := none     -- what writeFrame got
  out : Option Outcome := none
  cancelled : Bool := false      -- caller ctx cancelled
  dSent : Nat := 0               -- ghost: this call's contribution to DataMsgSendCount
  dErr : Nat := 0                -- ... DataMsgErrCount
  dDrop : Nat := 0               -- ... DataMsgDropNotSelectedCount
  dAsyncErr : Nat := 0           -- ... AsyncSendErrCount

/-- Position of a generation's line-engine goroutine. -/
inductive Eng where
  | notStarted
  | idle                         -- top of the loop / the hand-off select / the idle poll
  | sending (i : Nat)            -- inside runSend for sender i's request
  | handler (pend : Option Nat)  -- inside sink(blk) -> DeliverOwnedFrame -> application handler, INLINE; `pend` = the
                                 -- request whose runSend this happens in (contention yield), if any
  | exited
  deriving DecidableEq, Repr

structure Gen where
  ctxDone : Bool := false        -- e.cancel(): the epoch context, parent of the engine context
  connUp : Bool := false         -- e.conn set (TCPUp) and not niled by closeSocket
  sockOpen : Bool := false       -- the net.Conn is open at both ends
  stopped : Bool := false        -- Stop sealed the generation and cleared t.gen
  genDone : Bool := false        -- close(genDone)
  joined : Bool := false         -- e.done closed: Stop returned (engine exited, or abandoned inside a handler)
  lock : Option Nat := none      -- e.writeMu holder
  eng : Eng := .notStarted
  part : Option (List Nat) := none   -- the engine's assembler: blocks of the open partial message (socket each was read on)
  deriving DecidableEq, Repr

/-- What one `assembler.accept` call did with a block. -/
inductive Asm where
  | drop               -- device id / direction / duplicate / not a valid first block with nothing open: state unchanged
  | discard            -- an open partial discarded (T4 or mismatch); the block itself is not a valid first block
  | first (e : Bool)   -- (after discarding an open partial, if any) the block starts a message; e = E-bit: it completes it
  | cont (e : Bool)    -- the block continues the open partial; e = E-bit: it completes it
  deriving DecidableEq, Repr

/-- new partial, and the blocks of the message completed (if any) -/
def asmStep (p : Option (List Nat)) (sock : Nat) : Asm → Option (List Nat) × Option (List Nat)
  | .drop => (p, none)
  | .discard => (none, none)
  | .first false => (some [sock], none)
  | .first true => (none, some [sock])
  | .cont e => match p with
    | none => (none, none)
    | some bs => if e then (none, some (bs ++ [sock])) else (some (bs ++ [sock]), none)

structure Metrics where
  sent : Nat := 0                -- DataMsgSendCount
  recv : Nat := 0                -- DataMsgRecvCount
  inflight : Int := 0            -- DataMsgInflightCount
  err : Nat := 0                 -- DataMsgErrCount
  drop : Nat := 0                -- DataMsgDropNotSelectedCount
  asyncErr : Nat := 0            -- AsyncSendErrCount
  blockSend : Nat := 0           -- secs1 BlockSendCount
  blockRecv : Nat := 0           -- secs1 BlockRecvCount
  blockRetry : Nat := 0          -- secs1 BlockRetryCount (retries of our own transmissions)
  blockSendFailed : Nat := 0     -- secs1 BlockSendFailedCount
  deriving DecidableEq, Repr

/-- One transmission attempt of one block. `sock` = the generation whose socket carried it. -/
structure WireEv where
  sock : Nat
  src : Nat
  acked : Bool
  deriving DecidableEq, Repr

/-- One complete message handed to the core (`DeliverOwnedFrame`). -/
structure Deliv where
  gen : Nat                 -- the engine (generation) that delivered it
  cur : Option Nat          -- c.cur at that moment (whose reply registry RouteReply consults)
  blocks : List Nat         -- socket each of its blocks was read on
  inSend : Option Nat       -- delivered from inside this sender's pending send (contention yield)
  deriving DecidableEq, Repr

structure Cfg where
  nGens : Nat := 0
  cur : Option Nat := none       -- hsms c.cur
  tgen : Option Nat := none      -- secs1 t.gen
  g : Nat → Gen := fun _ => {}
  s : Nat → Sender := fun _ => {}
  selected : Bool := false
  wire : List WireEv := []       -- newest first
  rxlog : List Nat := []         -- socket of every block received and ACKed, newest first
  deliv : List Deliv := []       -- newest first
  m : Metrics := {}
  started : List Nat := []       -- ghost: calls that have begun, newest first

def init : Cfg := {}

inductive Choice where
  | recv | timer | closed | ctx
  deriving DecidableEq, Repr

inductive Action where
  -- lifecycle / environment
  | publish                       -- ArmStart + a fresh epoch becomes c.cur (only after the previous one is done)
  | connUp                        -- Start: dial ok, t.gen.Store(bundle), TCPUp(conn)
  | spawn (g : Nat)               -- go lineEngine (fresh lineIO, fresh assembler)
  | setSelected (b : Bool)        -- CommitSelected (auto-commit) / the supervisor leaving Selected
  | peerDrop (g : Nat)            -- the peer closes the line
  | cancel (g : Nat)              -- epoch.teardown: e.cancel(); e.closeSocket()
  | stopSeal (g : Nat)            -- Stop: stopping = true; t.gen.Store(nil)
  | stopDone (g : Nat)            -- Stop: engineCancel(); close(genDone); conn.Close()
  | join (g : Nat)                -- Stop returned (bounded join), e.done closed
  | ctxCancel (i : Nat)
  -- the sending side: the caller's goroutine (sync, ff) or the epoch's drain goroutine (async, from `queued` on)
  | begin (i : Nat) (k : Kind) (n : Nat)
  | pin (i : Nat)
  | gate (i : Nat)
  | enqueue (i : Nat) (ch : Choice)
  | lock (i : Nat)
  | check (i : Nat)
  | load (i : Nat)
  | take (i : Nat)                -- the hand-off rendezvous: sender i's `gs.sendReqCh <- req` meets the engine's receive
  | bail (i : Nat)                -- `<-gs.genDone`: in the hand-off select; in the result select only with req.done still empty
  | result (i : Nat)              -- `<-req.done`
  | unlock (i : Nat)              -- writeFrame returns: counters, e.writeMu released
  | incInflight (i : Nat)
  | decide (i : Nat) (ch : Choice)
  | decInflight (i : Nat)
  -- generation g's line engine
  | xmit (g : Nat) (acked : Bool) -- one transmission attempt of the current block of the current request
  | finish (g : Nat) (r : WRes)   -- runSend returns; req.done <- r
  | rx (g : Nat) (a : Asm)        -- a block received and ACKed (idle path, or contention yield inside a send) -> sink(blk)
  | ret (g : Nat)                 -- the inline handler returns
  | exit (g : Nat)
  deriving DecidableEq, Repr

/-! ## pieces -/

def setS (c : Cfg) (i : Nat) (w : Sender) : Cfg := { c with s := upd c.s i w }
def setG (c : Cfg) (g : Nat) (x : Gen) : Cfg := { c with g := upd c.g g x }

/-- writeFrame's checks before tr.Write, on the caller's pinned epoch e -/
def checkRes (c : Cfg) (e : Nat) : WRes :=
  if !(c.g e).connUp then .closed
  else if (c.g e).ctxDone then .closed
  else if !c.selected then .notSelected
  else .ok

def Sender.finish (w : Sender) (o : Outcome) : Sender := { w with pc := .done, out := some o }

def Sender.afterPin (w : Sender) : Option Nat → Sender
  | none => w.finish .notOpen
  | some e => { w with pc := .pinned, ep := e }

def Sender.afterGate (w : Sender) (selected : Bool) : Sender :=
  if selected then { w with pc := .gated } else { w.finish .notSelected with dDrop := w.dDrop + 1 }

def Sender.afterEnqueue (w : Sender) : Choice → Sender
  | .recv => { w with pc := .queued, out := some .sent }
  | .closed => w.finish .closed
  | .ctx => w.finish .ctx
  | .timer => w

def Sender.failWith (w : Sender) (r : WRes) : Sender := { w with pc := .returned, wres := some r }

def Sender.afterCheck (w : Sender) : WRes → Sender
  | .ok => { w with pc := .checked }
  | .notSelected => { w.failWith .notSelected with dDrop := w.dDrop + 1 }
  | r => w.failWith r

/-- Write: `gs := t.gen.Load(); if gs == nil || gs.conn != conn { return ErrConnClosed }` -/
def Sender.afterLoad (w : Sender) : Option Nat → Sender
  | none => w.failWith .closed
  | some g => if g = w.ep then { w with pc := .loaded, gs := some g } else w.failWith .closed

/-- writeFrame returns r (its own check, or Write's answer): the per-call counter contributions and where the call goes -/
def Sender.afterUnlock (w : Sender) : Sender :=
  let r := w.wres.getD .closed
  match w.kind with
  | .async => { w with pc := .done, dSent := w.dSent + b2n (r = .ok), dAsyncErr := w.dAsyncErr + b2n (r != .ok) }
  | .ff => { w with pc := .done, out := some r.outcome, dSent := w.dSent + b2n (r = .ok), dErr := w.dErr + b2n r.counted }
  | .sync =>
    if r = .ok then { w with pc := .written, dSent := w.dSent + 1 }
    else { w with pc := .done, out := some r.outcome, dErr := w.dErr + b2n r.counted }

def Sender.afterDecide (w : Sender) : Choice → Sender
  | .recv => { w with pc := .decided, out := some .reply }
  | .timer => { w with pc := .decided, out := some .timeout, dErr := w.dErr + 1 }
  | .closed => { w with pc := .decided, out := some .closed }
  | .ctx => { w with pc := .decided, out := some .ctx }

def curJoined (c : Cfg) : Bool :=
  match c.cur with
  | none => true
  | some g => (c.g g).joined

/-- the request the engine is working on (directly, or around an inline handler) -/
def Eng.req : Eng → Option Nat
  | .sending i => some i
  | .handler p => p
  | _ => none

/-- may `runSend` return r now? -/
def finishOk (c : Cfg) (g i : Nat) : WRes → Bool
  | .ok => (c.s i).acked = (c.s i).nblk         -- the last block ACKed
  | .sendFailed => true                          -- retry limit exhausted (C18: after RetryLimit+1 attempts of one block)
  | .aborted => (c.g g).ctxDone                  -- sendBlock: <-ctx.Done()
  | .ioErr => !(c.g g).sockOpen                  -- write error on a closed socket
  | _ => false

/-! ## enabledness -/

def enabled (c : Cfg) : Action → Bool
  | .publish => curJoined c
  | .connUp => match c.cur with
    | none => false
    | some g => !(c.g g).ctxDone && !(c.g g).connUp && !(c.g g).stopped
  | .spawn g => (c.g g).connUp && (c.g g).eng = .notStarted && !(c.g g).stopped
  | .setSelected _ => true
  | .peerDrop g => (c.g g).sockOpen
  | .cancel g => g < c.nGens
  | .stopSeal g => (c.g g).ctxDone && !(c.g g).stopped
  | .stopDone g => (c.g g).stopped && !(c.g g).genDone
  | .join g => (c.g g).genDone && !(c.g g).joined &&
      (match (c.g g).eng with | .notStarted => true | .exited => true | .handler _ => true | _ => false)
  | .ctxCancel _ => true
  | .begin i _ n => (c.s i).pc = .new && 0 < n
  | .pin i => (c.s i).pc = .begun
  | .gate i => (c.s i).pc = .pinned
  | .enqueue i ch => (c.s i).pc = .gated && (c.s i).kind = .async && (match ch with
    | .recv => true
    | .timer => false
    | .closed => (c.g (c.s i).ep).ctxDone
    | .ctx => (c.s i).cancelled)
  | .lock i => (((c.s i).pc = .gated && (c.s i).kind != .async) || (c.s i).pc = .queued) && (c.g (c.s i).ep).lock = none
  | .check i => (c.s i).pc = .locked
  | .load i => (c.s i).pc = .checked
  | .take i => (c.s i).pc = .loaded && (match (c.s i).gs with
    | none => false
    | some g => (c.g g).eng = .idle)
  | .bail i => ((c.s i).pc = .loaded || ((c.s i).pc = .handed && (c.s i).done.isNone)) && (match (c.s i).gs with
    | none => false
    | some g => (c.g g).genDone)
  | .result i => (c.s i).pc = .handed && (c.s i).done.isSome
  | .unlock i => (c.s i).pc = .returned
  | .incInflight i => (c.s i).pc = .written
  | .decide i ch => (c.s i).pc = .waiting && (match ch with
    | .recv => true
    | .timer => true
    | .closed => (c.g (c.s i).ep).ctxDone
    | .ctx => (c.s i).cancelled)
  | .decInflight i => (c.s i).pc = .decided
  | .xmit g _ => (match (c.g g).eng with
    | .sending i => (c.g g).sockOpen && (c.s i).acked < (c.s i).nblk
    | _ => false)
  | .finish g r => (match (c.g g).eng with
    | .sending i => finishOk c g i r
    | _ => false)
  | .rx g a => (c.g g).sockOpen && (match (c.g g).eng with | .idle => true | .sending _ => true | _ => false) &&
      (match a with | .cont _ => (c.g g).part.isSome | _ => true)
  | .ret g => (match (c.g g).eng with | .handler _ => true | _ => false)
  | .exit g => (c.g g).eng = .idle && ((c.g g).genDone || !(c.g g).sockOpen)

/-! ## effects (only meaningful when enabled; written without a top-level `match` so that every case is one record update) -/

def apply (c : Cfg) : Action → Cfg
  | .publish => { c with cur := some c.nGens, nGens := c.nGens + 1 }
  | .connUp =>
    let g := c.cur.getD 0
    setG { c with tgen := some g } g { c.g g with connUp := true, sockOpen := true }
  | .spawn g => setG c g { c.g g with eng := .idle, part := none }
  | .setSelected b => { c with selected := b }
  | .peerDrop g => setG c g { c.g g with sockOpen := false }
  | .cancel g => setG c g { c.g g with ctxDone := true, connUp := false, sockOpen := false }
  | .stopSeal g => setG { c with tgen := none } g { c.g g with stopped := true }
  | .stopDone g => setG c g { c.g g with genDone := true, sockOpen := false }
  | .join g => setG c g { c.g g with joined := true }
  | .ctxCancel i => setS c i { c.s i with cancelled := true }
  | .begin i k n => setS { c with started := i :: c.started } i { c.s i with kind := k, pc := .begun, nblk := n }
  | .pin i => setS c i ((c.s i).afterPin c.cur)
  | .gate i => setS { c with m := { c.m with drop := c.m.drop + b2n (!c.selected) } } i ((c.s i).afterGate c.selected)
  | .enqueue i ch => setS c i ((c.s i).afterEnqueue ch)
  | .lock i => setS (setG c (c.s i).ep { c.g (c.s i).ep with lock := some i }) i { c.s i with pc := .locked }
  | .check i =>
    let r := checkRes c (c.s i).ep
    setS { c with m := { c.m with drop := c.m.drop + b2n (r = .notSelected) } } i ((c.s i).afterCheck r)
  | .load i => setS c i ((c.s i).afterLoad c.tgen)
  | .take i =>
    let g := (c.s i).gs.getD 0
    setS (setG c g { c.g g with eng := .sending i }) i { c.s i with pc := .handed }
  | .bail i => setS c i ((c.s i).failWith .closed)
  | .result i => setS c i ((c.s i).failWith ((c.s i).done.getD .closed))
  | .unlock i =>
    let w := c.s i
    let r := w.wres.getD .closed
    let a := w.kind = .async
    setS (setG { c with m := { c.m with sent := c.m.sent + b2n (r = .ok),
                                         err := c.m.err + b2n (!a && r.counted),
                                         asyncErr := c.m.asyncErr + b2n (a && r != .ok) } }
            w.ep { c.g w.ep with lock := none }) i w.afterUnlock
  | .incInflight i => setS { c with m := { c.m with inflight := c.m.inflight + 1 } } i { c.s i with pc := .waiting }
  | .decide i ch =>
    setS { c with m := { c.m with err := c.m.err + b2n (ch = .timer) } } i ((c.s i).afterDecide ch)
  | .decInflight i => setS { c with m := { c.m with inflight := c.m.inflight - 1 } } i { c.s i with pc := .done }
  | .xmit g ak =>
    let i := (c.g g).eng.req.getD 0
    setS { c with wire := ⟨g, i, ak⟩ :: c.wire,
                  m := { c.m with blockSend := c.m.blockSend + b2n ak, blockRetry := c.m.blockRetry + b2n (!ak) } } i
      { c.s i with acked := (c.s i).acked + b2n ak }
  | .finish g r =>
    let i := (c.g g).eng.req.getD 0
    setS (setG { c with m := { c.m with blockSendFailed := c.m.blockSendFailed + b2n (r = .sendFailed) } } g
            { c.g g with eng := .idle }) i { c.s i with done := some r, late := decide ((c.s i).pc ≠ .handed) }
  | .rx g a =>
    let x := c.g g
    let st := asmStep x.part g a
    setG { c with rxlog := g :: c.rxlog,
                  deliv := (match st.2 with | none => c.deliv | some bs => ⟨g, c.cur, bs, x.eng.req⟩ :: c.deliv),
                  m := { c.m with blockRecv := c.m.blockRecv + 1, recv := c.m.recv + b2n st.2.isSome } } g
      { x with part := st.1, eng := if st.2.isSome then .handler x.eng.req else x.eng }
  | .ret g => setG c g { c.g g with eng := (match (c.g g).eng.req with | none => .idle | some i => .sending i) }
  | .exit g => setG c g { c.g g with eng := .exited }

def step (c : Cfg) (a : Action) : Cfg := if enabled c a then apply c a else c

def run (c : Cfg) : List Action → Cfg
  | [] => c
  | a :: as => run (step c a) as

end GoSecs.S1T
