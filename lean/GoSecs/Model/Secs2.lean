/-
  Model of package secs2: item trees, the SEMI E5 encoder, the decoder
  (`decodeItem` with its depth limit and list child-count pre-check) and `Equal`.

  Anchors: secs2/item.go (appendHeaderBytesFC, headerLen), secs2/{int,uint,float,boolean,binary,
  ascii,jis8,localized_str,list}.go (AppendTo / EncodedLen), secs2/decode.go (decodeItem,
  decode{Int,Uint,Float}Item), secs2/equal.go.

  Core Lean only: the protocol driver links this file.
-/
import GoSecs.Model.Bytes

namespace GoSecs.Secs2

/-- Integer element width (byteSize 1, 2, 4, 8). -/
inductive Width where
  | w1 | w2 | w4 | w8
  deriving DecidableEq, Repr, Inhabited

def Width.bytes : Width → Nat
  | .w1 => 1 | .w2 => 2 | .w4 => 4 | .w8 => 8

/-- Float element width (byteSize 4, 8). -/
inductive FWidth where
  | f4 | f8
  deriving DecidableEq, Repr, Inhabited

def FWidth.bytes : FWidth → Nat
  | .f4 => 4 | .f8 => 8

/-- Logical SECS-II item value.  Floats are carried as IEEE-754 bit patterns (DESIGN §4.3). -/
inductive Item where
  | empty
  | list (cs : List Item)
  | binary (bs : Bytes)
  | boolean (vs : List Bool)
  | ascii (bs : Bytes)
  | jis8 (bs : Bytes)
  | lstr (lsh : Nat) (bs : Bytes)
  | int (w : Width) (vs : List Int)
  | uint (w : Width) (vs : List Nat)
  | float (w : FWidth) (bits : List Nat)
  deriving Inhabited

/-- SEMI E5 cap on the length field (`MaxByteSize`, tied to the source by Gen.Consts). -/
def maxByteSize : Nat := 16777215
/-- `MaxListDepth`. -/
def maxListDepth : Nat := 64

/-! ### Format codes (SEMI E5 §9.2, octal in the Go source) -/
def fcList : Nat := 0
def fcBinary : Nat := 8
def fcBoolean : Nat := 9
def fcASCII : Nat := 16
def fcJIS8 : Nat := 17
def fcLStr : Nat := 18
def fcInt : Width → Nat
  | .w8 => 24 | .w1 => 25 | .w2 => 26 | .w4 => 28
def fcFloat : FWidth → Nat
  | .f8 => 32 | .f4 => 36
def fcUint : Width → Nat
  | .w8 => 40 | .w1 => 41 | .w2 => 42 | .w4 => 44

/-! ### Header -/

/-- Number of length bytes E5 prescribes: the minimal count (1 for 0..255, 2 up to 65535, else 3). -/
def lenCount (n : Nat) : Nat := if n ≤ 255 then 1 else if n ≤ 65535 then 2 else 3

/-- Reference `headerLen` (format byte + minimal length bytes). -/
def headerLen (n : Nat) : Nat := 1 + lenCount n

/-- Item header: `fc<<2 | lenCount` then the length field big-endian. -/
def header (fc n : Nat) : Bytes :=
  UInt8.ofNat (fc * 4 + lenCount n) :: beBytes (lenCount n) n

/-! ### Element payloads -/

def boolByte (b : Bool) : UInt8 := if b then 1 else 0

/-- Two's complement image of `v` in `k` bytes. -/
def intToU (k : Nat) (v : Int) : Nat := (v % (256 ^ k : Nat)).toNat

/-- Sign-extended reading of a `k`-byte unsigned value. -/
def intOfU (k : Nat) (u : Nat) : Int :=
  if 2 * u < 256 ^ k then (u : Int) else (u : Int) - (256 ^ k : Nat)

def encNats (k : Nat) : List Nat → Bytes
  | [] => []
  | v :: vs => beBytes k v ++ encNats k vs

def encInts (k : Nat) : List Int → Bytes
  | [] => []
  | v :: vs => beBytes k (intToU k v) ++ encInts k vs

/-! ### Encoder (the E5 reference) -/
mutual
def enc : Item → Bytes
  | .empty => []
  | .list cs => header fcList cs.length ++ encL cs
  | .binary bs => header fcBinary bs.length ++ bs
  | .boolean vs => header fcBoolean vs.length ++ vs.map boolByte
  | .ascii bs => header fcASCII bs.length ++ bs
  | .jis8 bs => header fcJIS8 bs.length ++ bs
  | .lstr lsh bs => header fcLStr (bs.length + 2) ++ (beBytes 2 lsh ++ bs)
  | .int w vs => header (fcInt w) (vs.length * w.bytes) ++ encInts w.bytes vs
  | .uint w vs => header (fcUint w) (vs.length * w.bytes) ++ encNats w.bytes vs
  | .float w vs => header (fcFloat w) (vs.length * w.bytes) ++ encNats w.bytes vs
def encL : List Item → Bytes
  | [] => []
  | c :: cs => enc c ++ encL cs
end

mutual
/-- `EncodedLen` for a constructed (raw-less) item. -/
def encodedLen : Item → Nat
  | .empty => 0
  | .list cs => headerLen cs.length + encodedLenL cs
  | .binary bs => headerLen bs.length + bs.length
  | .boolean vs => headerLen vs.length + vs.length
  | .ascii bs => headerLen bs.length + bs.length
  | .jis8 bs => headerLen bs.length + bs.length
  | .lstr _ bs => headerLen (bs.length + 2) + (bs.length + 2)
  | .int w vs => headerLen (vs.length * w.bytes) + vs.length * w.bytes
  | .uint w vs => headerLen (vs.length * w.bytes) + vs.length * w.bytes
  | .float w vs => headerLen (vs.length * w.bytes) + vs.length * w.bytes
def encodedLenL : List Item → Nat
  | [] => 0
  | c :: cs => encodedLen c + encodedLenL cs
end

/-- `AppendTo`: the model appends, so the prefix is untouched by construction; the correspondence
    check validates that the implementation does the same into a poisoned spare-capacity buffer. -/
def appendTo (dst : Bytes) (it : Item) : Bytes := dst ++ enc it

/-! ### Decoder -/

inductive DErr where
  | eofFormat | zeroLen | eofLen | depth | count | eofPayload | lstrShort | width | unknownFc | fuel
  deriving DecidableEq, Repr, Inhabited

def DErr.name : DErr → String
  | .eofFormat => "eofFormat" | .zeroLen => "zeroLen" | .eofLen => "eofLen" | .depth => "depth"
  | .count => "count" | .eofPayload => "eofPayload" | .lstrShort => "lstrShort" | .width => "width"
  | .unknownFc => "unknownFc" | .fuel => "fuel"

/-- `bs.length < n`, computed in O(n) rather than O(|bs|) (the decoder asks this at every item
    about the whole remaining input). -/
def lenLt (bs : Bytes) (n : Nat) : Bool := decide ((bs.take n).length < n)

theorem lenLt_iff (bs : Bytes) (n : Nat) : lenLt bs n = true ↔ bs.length < n := by
  simp only [lenLt, decide_eq_true_eq, List.length_take]; omega

theorem lenLt_false_iff (bs : Bytes) (n : Nat) : lenLt bs n = false ↔ n ≤ bs.length := by
  rw [← Bool.not_eq_true, lenLt_iff]; omega

/-- Split a payload into `k`-byte big-endian naturals (`k > 0`, length a multiple of `k`). -/
def decNats (k : Nat) : Nat → Bytes → List Nat
  | 0, _ => []
  | c+1, bs => beVal (bs.take k) :: decNats k c (bs.drop k)

def widthOfIntFc (fc : Nat) : Option Width :=
  if fc = 24 then some .w8 else if fc = 25 then some .w1 else if fc = 26 then some .w2
  else if fc = 28 then some .w4 else none
def widthOfUintFc (fc : Nat) : Option Width :=
  if fc = 40 then some .w8 else if fc = 41 then some .w1 else if fc = 42 then some .w2
  else if fc = 44 then some .w4 else none
def widthOfFloatFc (fc : Nat) : Option FWidth :=
  if fc = 32 then some .f8 else if fc = 36 then some .f4 else none

/-- Non-list item body: `fc`, length field `n`, bytes after the header. -/
def decLeaf (fc n : Nat) (r : Bytes) : Except DErr (Item × Bytes) :=
  if fc = fcASCII then
    if lenLt r n then .error .eofPayload else .ok (.ascii (r.take n), r.drop n)
  else if fc = fcJIS8 then
    if lenLt r n then .error .eofPayload else .ok (.jis8 (r.take n), r.drop n)
  else if fc = fcBinary then
    if lenLt r n then .error .eofPayload else .ok (.binary (r.take n), r.drop n)
  else if fc = fcBoolean then
    if lenLt r n then .error .eofPayload
    else .ok (.boolean ((r.take n).map (fun b => b != 0)), r.drop n)
  else if fc = fcLStr then
    if n < 2 then .error .lstrShort
    else if lenLt r n then .error .eofPayload
    else .ok (.lstr (beVal (r.take 2)) ((r.take n).drop 2), r.drop n)
  else match widthOfIntFc fc with
  | some w =>
    if n % w.bytes ≠ 0 then .error .width
    else if lenLt r n then .error .eofPayload
    else .ok (.int w ((decNats w.bytes (n / w.bytes) (r.take n)).map (intOfU w.bytes)), r.drop n)
  | none => match widthOfUintFc fc with
  | some w =>
    if n % w.bytes ≠ 0 then .error .width
    else if lenLt r n then .error .eofPayload
    else .ok (.uint w (decNats w.bytes (n / w.bytes) (r.take n)), r.drop n)
  | none => match widthOfFloatFc fc with
  | some w =>
    if n % w.bytes ≠ 0 then .error .width
    else if lenLt r n then .error .eofPayload
    else .ok (.float w (decNats w.bytes (n / w.bytes) (r.take n)), r.drop n)
  | none => .error .unknownFc

mutual
/-- `decodeItem(owned, pos, depth)`: `fuel` is a structural-recursion budget only (any fuel above
    the input length decides the same, `dec_fuel_mono`); `depth` is Go's `depth` argument. -/
def dec : Nat → Nat → Bytes → Except DErr (Item × Bytes)
  | 0, _, _ => .error .fuel
  | fuel+1, depth, bs =>
    match bs with
    | [] => .error .eofFormat
    | fb :: r1 =>
      let fc := fb.toNat / 4
      let k := fb.toNat % 4
      if k = 0 then .error .zeroLen
      else if lenLt r1 k then .error .eofLen
      else
        let n := beVal (r1.take k)
        let r2 := r1.drop k
        if fc = fcList then
          if depth + 1 > maxListDepth then .error .depth
          else if lenLt r2 (n * 2) then .error .count
          else match decL fuel (depth + 1) n r2 with
            | .error e => .error e
            | .ok (cs, r3) => .ok (.list cs, r3)
        else decLeaf fc n r2
def decL : Nat → Nat → Nat → Bytes → Except DErr (List Item × Bytes)
  | 0, _, _, _ => .error .fuel
  | _+1, _, 0, bs => .ok ([], bs)
  | fuel+1, depth, c+1, bs =>
    match dec fuel depth bs with
    | .error e => .error e
    | .ok (it, r) =>
      match decL fuel depth c r with
      | .error e => .error e
      | .ok (its, r') => .ok (it :: its, r')
end

/-- The item header at the front of `bs` — `decodeItem` from its entry up to its `switch formatCode`:
    format code, number of length bytes (1..3, zero rejected), length field, and what follows the header.
    `dec` parses exactly this header (`dec_via_decHeader`, Lemmas/Secs2Gen); the translation of that part of the Go
    function is tied to it in Props/C02. -/
def decHeader (bs : Bytes) : Except DErr (Nat × Nat × Nat × Bytes) :=
  match bs with
  | [] => .error .eofFormat
  | fb :: r1 =>
    let k := fb.toNat % 4
    if k = 0 then .error .zeroLen
    else if lenLt r1 k then .error .eofLen
    else .ok (fb.toNat / 4, k, beVal (r1.take k), r1.drop k)

/-- Fuel that is always enough: every recursive call consumes at least one unit and every item
    at least two bytes. -/
def fuelFor (bs : Bytes) : Nat := 2 * bs.length + 2

/-- `Decode` / `DecodeOwned` (they share `decodeItem`; trailing bytes are ignored):
    the item and the number of bytes consumed. -/
def decode (bs : Bytes) : Except DErr (Item × Nat) :=
  match bs with
  | [] => .ok (.empty, 0)
  | _ => match dec (fuelFor bs) 0 bs with
    | .error e => .error e
    | .ok (it, rest) => .ok (it, bs.length - rest.length)

/-! ### Equal -/

def isNaN32 (b : Nat) : Bool := (b / 8388608) % 256 == 255 && b % 8388608 != 0
def isNaN64 (b : Nat) : Bool := (b / 4503599627370496) % 2048 == 2047 && b % 4503599627370496 != 0

/-- `equalFloat` compares bit patterns (F4: the float32-narrowed pattern both sides would transmit):
    a NaN equals exactly the NaN with the same payload, +0 and −0 differ. -/
def floatBitsEq (_w : FWidth) (a b : Nat) : Bool := a == b

def listAll2 {α} (f : α → α → Bool) : List α → List α → Bool
  | [], [] => true
  | a :: as, b :: bs => f a b && listAll2 f as bs
  | _, _ => false

mutual
/-- `secs2.Equal` on error-free items: same type, size and every element (floats by bit pattern). -/
def equalItem : Item → Item → Bool
  | .empty, .empty => true
  | .list as, .list bs => equalItems as bs
  | .binary a, .binary b => a == b
  | .boolean a, .boolean b => a == b
  | .ascii a, .ascii b => a == b
  | .jis8 a, .jis8 b => a == b
  | .lstr l a, .lstr m b => l == m && a == b
  | .int w a, .int v b => w == v && a == b
  | .uint w a, .uint v b => w == v && a == b
  | .float w a, .float v b => w == v && listAll2 (floatBitsEq w) a b
  | _, _ => false
def equalItems : List Item → List Item → Bool
  | [], [] => true
  | a :: as, b :: bs => equalItem a b && equalItems as bs
  | _, _ => false
end

/-! ### Well-formedness: what the constructors return without a deferred error (C16 ties this) -/

def intLo (k : Nat) : Int := -((256 ^ k / 2 : Nat) : Int)
def intHi (k : Nat) : Int := ((256 ^ k / 2 : Nat) : Int) - 1

mutual
/-- Error-free constructible and encodable as a decodable prefix: sizes within the E5 cap, element
    values within their width, and no `empty` placeholder (top level or below a list). -/
def WF : Item → Prop
  | .empty => False
  | .list cs => cs.length ≤ maxByteSize ∧ WFL cs
  | .binary bs => bs.length ≤ maxByteSize
  | .boolean vs => vs.length ≤ maxByteSize
  | .ascii bs => bs.length ≤ maxByteSize
  | .jis8 bs => bs.length ≤ maxByteSize
  | .lstr lsh bs => lsh < 65536 ∧ bs.length + 2 ≤ maxByteSize
  | .int w vs => vs.length * w.bytes ≤ maxByteSize ∧ ∀ v ∈ vs, intLo w.bytes ≤ v ∧ v ≤ intHi w.bytes
  | .uint w vs => vs.length * w.bytes ≤ maxByteSize ∧ ∀ v ∈ vs, v < 256 ^ w.bytes
  | .float w vs => vs.length * w.bytes ≤ maxByteSize ∧ ∀ v ∈ vs, v < 256 ^ w.bytes
def WFL : List Item → Prop
  | [] => True
  | c :: cs => WF c ∧ WFL cs
end

mutual
/-- List nesting depth as the decoder counts it (a leaf is 0, a list is 1 + deepest child). -/
def depth : Item → Nat
  | .list cs => 1 + depthL cs
  | _ => 0
def depthL : List Item → Nat
  | [] => 0
  | c :: cs => max (depth c) (depthL cs)
end

mutual
/-- Number of nodes (fuel accounting). -/
def nodes : Item → Nat
  | .list cs => 1 + nodesL cs
  | _ => 1
def nodesL : List Item → Nat
  | [] => 0
  | c :: cs => nodes c + nodesL cs
end

end GoSecs.Secs2

namespace GoSecs.Secs2

/-! ### Allocation cost: bytes requested from `make` whose size derives from lengths the INPUT claims

  Mirrors decode.go: `make([]Item, 0, length)` for a list (16-byte interface slots, after the
  child-count pre-check), `make([]int64|uint64|float64, count)` for numeric payloads, `make([]bool, n)`
  for booleans; ASCII/JIS-8/binary/localized payloads alias the owned buffer (no allocation).
  Fixed per-item struct overhead (slab chunks) is O(1) per decoded item and is not input-claimed. -/

def allocLeaf (fc n : Nat) (r : Bytes) : Nat :=
  match decLeaf fc n r with
  | .error _ => 0
  | .ok (.boolean _, _) => n
  | .ok (.int w _, _) => 8 * (n / w.bytes)
  | .ok (.uint w _, _) => 8 * (n / w.bytes)
  | .ok (.float w _, _) => 8 * (n / w.bytes)
  | .ok _ => 0

mutual
def allocDec : Nat → Nat → Bytes → Nat
  | 0, _, _ => 0
  | fuel+1, depth, bs =>
    match bs with
    | [] => 0
    | fb :: r1 =>
      let fc := fb.toNat / 4
      let k := fb.toNat % 4
      if k = 0 then 0
      else if lenLt r1 k then 0
      else
        let n := beVal (r1.take k)
        let r2 := r1.drop k
        if fc = fcList then
          if depth + 1 > maxListDepth then 0
          else if lenLt r2 (n * 2) then 0
          else 16 * n + allocDecL fuel (depth + 1) n r2
        else allocLeaf fc n r2
def allocDecL : Nat → Nat → Nat → Bytes → Nat
  | 0, _, _, _ => 0
  | _+1, _, 0, _ => 0
  | fuel+1, depth, c+1, bs =>
    allocDec fuel depth bs +
      (match dec fuel depth bs with
       | .error _ => 0
       | .ok (_, r) => allocDecL fuel depth c r)
end

/-- `Decode`: the defensive clone of the input plus everything `decodeItem` allocates. -/
def allocDecode (bs : Bytes) : Nat := bs.length + allocDec (fuelFor bs) 0 bs

end GoSecs.Secs2
