/-
  Model of package secs1 (SEMI E4 block transfer over TCP).

  Part 1 (C17): `buildHeader`, `splitBody`, `block.appendTo` (checksum), `parseBlock`,
  `assembleFrame`, and the inbound assembler `accept` state machine with an injected clock
  (durations and instants are `Nat` nanoseconds, DESIGN §4.5).
  Part 2 (C18): one `sendBlock` RTY / contention-yield loop, `receiveBlock`, and the composition of
  two endpoints over a faulty line as a step function over fault schedules.

  Anchors: secs1/block.go, secs1/message.go, secs1/adapter.go, secs1/assembler.go, secs1/line.go,
  secs1/transport.go (lineEngine, runSend).

  Fixed-width behaviour is explicit where the Go code truncates (DESIGN §4.1): `byte(x)` is
  `UInt8.ofNat x`, `x & 0x7F` is `x % 128`, `x | 0x80` on a byte is `x % 128 + 128`,
  `uint16(sum & 0xFFFF)` is `sum % 65536`.  The `uint32` accumulator of the checksum loops cannot wrap
  for blocks of at most 2^24 bytes and is modelled unbounded.

  Core Lean only: the protocol driver links this file.
-/
import GoSecs.Model.Bytes

namespace GoSecs.Secs1

/-! ## Constants (tied to `GoSecs.Gen.secs1_*` in Props/C17, Props/C18) -/
def maxBlockBodySize : Nat := 244
def blockHeaderSize : Nat := 10
def checksumSize : Nat := 2
def minBlockLength : Nat := 10
def maxBlockLength : Nat := 254
def maxBlockNumber : Nat := 32767
def hsmsHeaderLen : Nat := 10

def ENQ : UInt8 := 0x05
def EOT : UInt8 := 0x04
def ACK : UInt8 := 0x06
def NAK : UInt8 := 0x15

/-! ## Headers -/

/-- `messageHeader`: the block-invariant fields.  `deviceID` is a Go `uint16`, `stream`/`function`
    are `uint8`; the model keeps them as `Nat` and truncates where the code does. -/
structure MsgHeader where
  deviceID : Nat := 0
  rBit : Bool := false
  stream : Nat := 0
  function : Nat := 0
  waitBit : Bool := false
  s0 : UInt8 := 0
  s1 : UInt8 := 0
  s2 : UInt8 := 0
  s3 : UInt8 := 0
  deriving DecidableEq, Repr, Inhabited

/-- The 10-byte SECS-I block header (`[10]byte`). -/
structure Hdr where
  b0 : UInt8 := 0
  b1 : UInt8 := 0
  b2 : UInt8 := 0
  b3 : UInt8 := 0
  b4 : UInt8 := 0
  b5 : UInt8 := 0
  b6 : UInt8 := 0
  b7 : UInt8 := 0
  b8 : UInt8 := 0
  b9 : UInt8 := 0
  deriving DecidableEq, Repr, Inhabited

def Hdr.toList (h : Hdr) : Bytes := [h.b0, h.b1, h.b2, h.b3, h.b4, h.b5, h.b6, h.b7, h.b8, h.b9]

/-- First ten bytes of a byte string as a header (missing bytes read as 0; callers check lengths). -/
def Hdr.ofList (l : Bytes) : Hdr :=
  ⟨l.getD 0 0, l.getD 1 0, l.getD 2 0, l.getD 3 0, l.getD 4 0,
   l.getD 5 0, l.getD 6 0, l.getD 7 0, l.getD 8 0, l.getD 9 0⟩

/-- `x | 0x80` when `set`, on a byte value `x < 256`. -/
def orTop (x : Nat) (set : Bool) : Nat := if set then x % 128 + 128 else x

/-- `buildHeader` (block.go): big-endian 15-bit device id with the R-bit on top of byte 0, W-bit on
    top of the stream byte, big-endian 15-bit block number with the E-bit on top of byte 4. -/
def buildHeader (h : MsgHeader) (blockNumber : Nat) (last : Bool) : Hdr :=
  { b0 := UInt8.ofNat (orTop (h.deviceID / 256 % 256) h.rBit)
    b1 := UInt8.ofNat (h.deviceID % 256)
    b2 := UInt8.ofNat (orTop (h.stream % 128) h.waitBit)
    b3 := UInt8.ofNat (h.function % 256)
    b4 := UInt8.ofNat (orTop (blockNumber / 256 % 256) last)
    b5 := UInt8.ofNat (blockNumber % 256)
    b6 := h.s0, b7 := h.s1, b8 := h.s2, b9 := h.s3 }

/-! Accessors (`block.deviceID()` …). -/
def Hdr.deviceID (h : Hdr) : Nat := h.b0.toNat % 128 * 256 + h.b1.toNat
def Hdr.rBit (h : Hdr) : Bool := decide (128 ≤ h.b0.toNat)
def Hdr.stream (h : Hdr) : Nat := h.b2.toNat % 128
def Hdr.waitBit (h : Hdr) : Bool := decide (128 ≤ h.b2.toNat)
def Hdr.function (h : Hdr) : Nat := h.b3.toNat
def Hdr.blockNumber (h : Hdr) : Nat := h.b4.toNat % 128 * 256 + h.b5.toNat
def Hdr.eBit (h : Hdr) : Bool := decide (128 ≤ h.b4.toNat)

def Hdr.msgHeader (h : Hdr) : MsgHeader :=
  { deviceID := h.deviceID, rBit := h.rBit, stream := h.stream, function := h.function,
    waitBit := h.waitBit, s0 := h.b6, s1 := h.b7, s2 := h.b8, s3 := h.b9 }

/-! ## Blocks, checksum, wire form -/

structure Block where
  hdr : Hdr := {}
  body : Bytes := []
  deriving DecidableEq, Repr, Inhabited

def sumBytes : Bytes → Nat
  | [] => 0
  | b :: bs => b.toNat + sumBytes bs

/-- 16-bit arithmetic sum of header and body (SEMI E4 §8; the length byte is not included). -/
def checksum (p : Bytes) : Nat := sumBytes p % 65536

def Block.payload (b : Block) : Bytes := b.hdr.toList ++ b.body

/-- `block.appendTo(nil)`: `[length][header(10)][body][checksum hi][checksum lo]`. -/
def Block.wire (b : Block) : Bytes :=
  UInt8.ofNat (blockHeaderSize + b.body.length) :: (b.payload ++ beBytes 2 (checksum b.payload))

def appendTo (dst : Bytes) (b : Block) : Bytes := dst ++ b.wire

inductive ParseErr where
  | invalidLength
  | checksumMismatch
  deriving DecidableEq, Repr

def ParseErr.name : ParseErr → String
  | .invalidLength => "length"
  | .checksumMismatch => "checksum"

/-- `parseBlock(lengthByte, rest)`, `rest = header ++ body ++ checksum`. -/
def parseBlock (lengthByte : UInt8) (rest : Bytes) : Except ParseErr Block :=
  let n := lengthByte.toNat
  if n < minBlockLength ∨ n > maxBlockLength then .error .invalidLength
  else if rest.length ≠ n + checksumSize then .error .invalidLength
  else if checksum (rest.take n) ≠ beVal (rest.drop n) then .error .checksumMismatch
  else .ok { hdr := Hdr.ofList rest, body := (rest.take n).drop blockHeaderSize }

/-- A whole serialized block (length byte first). -/
def parseWire : Bytes → Except ParseErr Block
  | [] => .error .invalidLength
  | lb :: rest => parseBlock lb rest

/-! ## splitBody -/

inductive SplitErr where
  | invalidHeader
  | tooLarge
  deriving DecidableEq, Repr

def SplitErr.name : SplitErr → String
  | .invalidHeader => "header"
  | .tooLarge => "toolarge"

/-- The `for off := 0; off < total; off += 244` loop on the not yet emitted rest of the body
    (non-empty on entry). `fuel` bounds the iterations (never exhausted: lemmas `splitLoop_length`, `splitLoop_get`, `splitLoop_bodies`). -/
def splitLoop (h : MsgHeader) : Nat → Nat → Bytes → List Block
  | 0, _, _ => []
  | fuel+1, bn, rest =>
    let tl := rest.drop maxBlockBodySize
    if tl.isEmpty then [{ hdr := buildHeader h bn true, body := rest }]
    else { hdr := buildHeader h bn false, body := rest.take maxBlockBodySize } :: splitLoop h fuel (bn+1) tl

/-- `splitBody` given the body length (so the length is computed once). -/
def splitBodyN (body : Bytes) (total : Nat) (h : MsgHeader) : Except SplitErr (List Block) :=
  if h.deviceID > 0x7FFF then .error .invalidHeader
  else if h.stream > 0x7F then .error .invalidHeader
  else if total > maxBlockBodySize * maxBlockNumber then .error .tooLarge
  else if total = 0 then .ok [{ hdr := buildHeader h 1 true, body := [] }]
  else .ok (splitLoop h (total / maxBlockBodySize + 1) 1 body)

def splitBody (body : Bytes) (h : MsgHeader) : Except SplitErr (List Block) :=
  splitBodyN body body.length h

/-- Number of blocks `splitBody` emits for a body of `n` bytes. -/
def blockCount (n : Nat) : Nat := if n = 0 then 1 else (n + (maxBlockBodySize - 1)) / maxBlockBodySize

/-! ## assembleFrame -/

inductive FrameErr where
  | empty
  | blockNumber
  | eBit
  | header
  deriving DecidableEq, Repr

def FrameErr.name : FrameErr → String
  | .empty => "empty"
  | .blockNumber => "number"
  | .eBit => "ebit"
  | .header => "header"

/-- The validation loop of `assembleFrame`: position `i` (0-based) of `n` blocks. -/
def checkBlocks (first : MsgHeader) (single0 : Bool) (n : Nat) : Nat → List Block → Option FrameErr
  | _, [] => none
  | i, b :: bs =>
    let want := if single0 then 0 else i + 1
    if b.hdr.blockNumber ≠ want then some .blockNumber
    else if b.hdr.eBit ≠ decide (i + 1 = n) then some .eBit
    else if b.hdr.msgHeader ≠ first then some .header
    else checkBlocks first single0 n (i + 1) bs

/-- The synthesized 10-byte HSMS header: session id = device id, W|stream, function, PType 0,
    SType 0, system bytes. -/
def hsmsHeader (h : MsgHeader) : Bytes :=
  [UInt8.ofNat (h.deviceID / 256 % 256), UInt8.ofNat (h.deviceID % 256),
   UInt8.ofNat (orTop (h.stream % 128) h.waitBit), UInt8.ofNat (h.function % 256), 0, 0,
   h.s0, h.s1, h.s2, h.s3]

def bodiesOf (bs : List Block) : Bytes := (bs.map (·.body)).flatten

def assembleFrame (blocks : List Block) : Except FrameErr Bytes :=
  match blocks with
  | [] => .error .empty
  | b0 :: _ =>
    let first := b0.hdr.msgHeader
    let single0 := blocks.length == 1 && b0.hdr.blockNumber == 0
    match checkBlocks first single0 blocks.length 0 blocks with
    | some e => .error e
    | none => .ok (hsmsHeader first ++ bodiesOf blocks)

/-! ## The inbound assembler -/

inductive Violation where
  | deviceID | blockNumber | header | invalidFirst
  deriving DecidableEq, Repr

/-- Observable effects of one `accept` call, in program order: metric increments, `notify` calls,
    the delivered frame, or an `assembleFrame` error (the only way `accept` can return non-nil apart
    from a `deliverFrame` error). -/
inductive AEv where
  | devMismatch                   -- incDeviceIDMismatchCount + report(ErrDeviceIDMismatch)
  | dirDrop                       -- incBlockDirDropCount
  | t4Discard                     -- incPartialTimeoutCount
  | dupDrop                       -- incBlockDupDropCount
  | mismatch (v : Violation)      -- incBlockNumberMismatchCount + report(v)
  | invalidFirst (notified : Bool) -- not a valid first block (counter/report only when notified)
  | started
  | appended
  | delivered (frame : Bytes)
  | frameErr (e : FrameErr)
  deriving DecidableEq, Repr

structure Asm where
  isEquip : Bool := false
  deviceID : Nat := 0
  t4 : Nat := 0
  isOpen : Bool := false
  header : MsgHeader := {}
  blocks : List Block := []
  expected : Nat := 0
  lastTime : Nat := 0
  lastHeader : Hdr := {}
  haveLast : Bool := false
  deriving Repr

def Asm.init (isEquip : Bool) (deviceID t4 : Nat) : Asm := { isEquip, deviceID, t4 }

def Asm.reset (a : Asm) : Asm :=
  { a with isOpen := false, header := {}, blocks := [], expected := 0, lastTime := 0 }

def Asm.complete (a : Asm) : Asm × List AEv :=
  match assembleFrame a.blocks with
  | .error e => (a.reset, [.frameErr e])
  | .ok f => (a.reset, [.delivered f])

def Asm.startMessage (a : Asm) (now : Nat) (blk : Block) (notifyOnInvalid : Bool) : Asm × List AEv :=
  let num := blk.hdr.blockNumber
  if num = 1 ∨ (num = 0 ∧ blk.hdr.eBit = true) then
    let a' := { a with isOpen := true, header := blk.hdr.msgHeader, blocks := [blk], expected := num + 1,
                       lastTime := now, lastHeader := blk.hdr, haveLast := true }
    if blk.hdr.eBit then
      let r := a'.complete
      (r.1, .started :: r.2)
    else (a', [.started])
  else (a, [.invalidFirst notifyOnInvalid])

def Asm.appendBlock (a : Asm) (now : Nat) (blk : Block) : Asm × List AEv :=
  let a' := { a with blocks := a.blocks ++ [blk], expected := blk.hdr.blockNumber + 1, lastTime := now,
                     lastHeader := blk.hdr, haveLast := true }
  if blk.hdr.eBit then
    let r := a'.complete
    (r.1, .appended :: r.2)
  else (a', [.appended])

/-- Step 2 of `accept`: the lazy T4 inter-block deadline. -/
def Asm.expire (a : Asm) (now : Nat) : Asm × List AEv :=
  if a.isOpen && decide (now - a.lastTime > a.t4) then (a.reset, [.t4Discard]) else (a, [])

/-- Steps 3–5 of `accept` (duplicate detection, continuation or (re)start, completion) for a block that
    passed the device-id and direction checks, after the T4 check. -/
def Asm.acceptAddressed (a : Asm) (now : Nat) (blk : Block) : Asm × List AEv :=
  if a.haveLast = true ∧ blk.hdr = a.lastHeader then (a, [.dupDrop])
  else if a.isOpen then
    if blk.hdr.blockNumber = a.expected ∧ blk.hdr.msgHeader = a.header then a.appendBlock now blk
    else
      let v := if blk.hdr.blockNumber ≠ a.expected then Violation.blockNumber else Violation.header
      let r := a.reset.startMessage now blk false
      (r.1, .mismatch v :: r.2)
  else a.startMessage now blk true

/-- `assembler.accept` with the clock reading `now` for this call. -/
def Asm.accept (a : Asm) (now : Nat) (blk : Block) : Asm × List AEv :=
  if blk.hdr.deviceID ≠ a.deviceID then (a, [.devMismatch])
  else if blk.hdr.rBit = a.isEquip then (a, [.dirDrop])
  else
    let x := a.expire now
    let r := x.1.acceptAddressed now blk
    (r.1, x.2 ++ r.2)

/-- A timed inbound block (already checksum-valid and ACKed by the line layer). -/
structure TBlock where
  time : Nat
  blk : Block
  deriving Repr

/-- Feed a sequence; returns the final state and the per-block event traces. -/
def Asm.run (a : Asm) : List TBlock → Asm × List (List AEv)
  | [] => (a, [])
  | e :: es =>
    let r := a.accept e.time e.blk
    let rs := r.1.run es
    (rs.1, r.2 :: rs.2)

/-- The frame delivered by one `accept` trace, if any. -/
def deliveredOf : List AEv → Option Bytes
  | [] => none
  | .delivered f :: _ => some f
  | _ :: es => deliveredOf es

def hasFrameErr : List AEv → Bool
  | [] => false
  | .frameErr _ :: _ => true
  | _ :: es => hasFrameErr es


/-! # Part 2 (C18): the half-duplex line

  ## 2a. One `sendBlock` call against a scripted peer (line level)

  `PeerAct` is what the peer does in answer to one ENQ of the sender under test.  The model gives, per
  attempt, the outcome the RTY loop sees, every byte the sender writes, and the blocks handed to
  `deliver` during contention yields.  T1/T2 appear only as "the awaited character never came". -/

inductive PeerAct where
  | grantAck                    -- EOT, takes the block, ACK
  | grantNak                    -- EOT, takes the block, NAK
  | grantOther                  -- EOT, takes the block, answers some other character
  | grantSilent                 -- EOT, takes the block, answers nothing within T2
  | silent                      -- no EOT within T2 (ENQ or EOT lost, or delayed beyond T2)
  | noiseGrantAck               -- line noise (not ENQ/EOT), then EOT, block, ACK
  | contendGood (blk : Block)   -- answers ENQ with ENQ; sends `blk` intact if granted; yields if refused
  | contendBad (blk : Block)    -- same, but one character of `blk` is corrupted on the way
  | contendSilent               -- answers ENQ with ENQ and then nothing
  deriving Repr

inductive Attempt where
  | ok              -- sendOK
  | retry           -- sendRetry
  | yieldDelivered  -- sendContention, master's block received and delivered: retry counter reset
  | yieldFailed     -- sendContention, receive failed: counted as a retry
  deriving DecidableEq, Repr

/-- One `sendBlockOnce` (+ the yield action of `sendBlock`): outcome, bytes the sender writes,
    block delivered. `isEquip` = the sender is the master. -/
def sendAttempt (isEquip : Bool) (blk : Block) : PeerAct → Attempt × Bytes × Option Block
  | .grantAck => (.ok, ENQ :: blk.wire, none)
  | .noiseGrantAck => (.ok, ENQ :: blk.wire, none)
  | .grantNak => (.retry, ENQ :: blk.wire, none)
  | .grantOther => (.retry, ENQ :: blk.wire, none)
  | .grantSilent => (.retry, ENQ :: blk.wire, none)
  | .silent => (.retry, [ENQ], none)
  | .contendGood b =>
    if isEquip then (.ok, ENQ :: blk.wire, none)          -- master ignores the ENQ; the peer yields
    else (.yieldDelivered, [ENQ, EOT, ACK], some b)       -- slave yields, takes the block, ACKs it
  | .contendBad _ =>
    if isEquip then (.ok, ENQ :: blk.wire, none)
    else (.yieldFailed, [ENQ, EOT, NAK], none)            -- checksum error: NAK, nothing delivered
  | .contendSilent =>
    if isEquip then (.retry, [ENQ], none)                 -- no EOT ever comes
    else (.yieldFailed, [ENQ, EOT, NAK], none)            -- T2 waiting for the length byte: NAK

structure SendTrace where
  ok : Bool := false                 -- `sendBlock` returned nil (else ErrSendFailed)
  attempts : List Attempt := []
  line : Bytes := []                 -- everything the sender wrote, in order
  delivered : List Block := []       -- blocks handed to `deliver`
  rest : List PeerAct := []          -- unconsumed schedule
  deriving Repr

def SendTrace.push (t : SendTrace) (a : Attempt) (out : Bytes) (d : Option Block) : SendTrace :=
  { t with attempts := a :: t.attempts, line := out ++ t.line, delivered := d.toList ++ t.delivered }

/-- Attempts against a peer that has stopped answering (schedule exhausted). -/
def sendSilent : Nat → SendTrace
  | 0 => {}
  | n+1 => (sendSilent n).push .retry [ENQ] none

/-- The RTY loop `for retry <= retryLimit` of `sendBlock`. -/
def sendLoop (isEquip : Bool) (limit : Nat) (blk : Block) : Nat → List PeerAct → SendTrace
  | retry, [] => sendSilent (limit + 1 - retry)
  | retry, act :: rest =>
    if retry > limit then { rest := act :: rest }
    else
      let r := sendAttempt isEquip blk act
      match r.1 with
      | .ok => ({ ok := true, rest := rest } : SendTrace).push .ok r.2.1 r.2.2
      | .retry => (sendLoop isEquip limit blk (retry + 1) rest).push .retry r.2.1 r.2.2
      | .yieldFailed => (sendLoop isEquip limit blk (retry + 1) rest).push .yieldFailed r.2.1 r.2.2
      | .yieldDelivered => (sendLoop isEquip limit blk 0 rest).push .yieldDelivered r.2.1 r.2.2

def sendBlock (isEquip : Bool) (limit : Nat) (blk : Block) (sched : List PeerAct) : SendTrace :=
  sendLoop isEquip limit blk 0 sched

/-- Longest run of attempts not separated by a successful yield. -/
def maxRun : List Attempt → Nat → Nat → Nat
  | [], cur, best => max cur best
  | .yieldDelivered :: as, cur, best => maxRun as 0 (max cur best)
  | _ :: as, cur, best => maxRun as (cur + 1) best

/-! ### `receiveBlock` after our EOT -/

inductive SenderAct where
  | intact (blk : Block)                 -- the whole wire form arrives
  | raw (bytes : Bytes)                  -- these bytes arrive, then silence (corrupt / truncated / wrong length / nothing)
  deriving Repr

inductive RecvResult where
  | block (b : Block)        -- ACK sent
  | t2                       -- nothing within T2: NAK
  | badLength                -- length byte out of range: drain, NAK
  | t1                       -- block incomplete when T1 expired: NAK
  | parse (e : ParseErr)     -- complete but invalid: drain, NAK
  deriving Repr

def receiveBytes : Bytes → RecvResult
  | [] => .t2
  | lb :: rest =>
    let n := lb.toNat
    if n < minBlockLength ∨ n > maxBlockLength then .badLength
    else if rest.length < n + checksumSize then .t1
    else match parseBlock lb (rest.take (n + checksumSize)) with
      | .ok b => .block b
      | .error e => .parse e

def receiveBlock : SenderAct → RecvResult
  | .intact b => receiveBytes b.wire
  | .raw bs => receiveBytes bs

def RecvResult.answer : RecvResult → UInt8
  | .block _ => ACK
  | _ => NAK

/-! ## 2b. Two endpoints and a faulty line (block-transfer level)

  One step = one block-transfer attempt by the endpoint that holds the line: the master whenever it
  has something to send (a contending slave yields), otherwise the slave.  A fault schedule gives the
  fate of each attempt.  Time is not modelled: every inter-block gap is within T4 (stated hypothesis of
  the C18 theorems), so the assemblers run on a constant clock. -/

/-- What the line does to one block-transfer attempt (the fault kinds of the property). -/
inductive Fault where
  | none          -- delivered intact, ACK received
  | flipChar      -- one character of the block corrupted: checksum/length error, NAK
  | truncate      -- block cut short or dropped: T1/T2 at the receiver, NAK
  | nak           -- receiver answers NAK
  | dropEnq       -- ENQ dropped or replaced: no grant within T2
  | dropEot       -- EOT dropped or replaced: no grant within T2
  | dropAck       -- block received and accepted, ACK dropped, replaced or delayed beyond T2
  deriving DecidableEq, Repr

inductive Effect where
  | transferred     -- receiver took the block and the sender saw the ACK
  | notReceived     -- receiver did not take the block; sender retries
  | ackLost         -- receiver took the block; sender did not see the ACK and retries
  deriving DecidableEq, Repr

def Fault.effect : Fault → Effect
  | .none => .transferred
  | .flipChar => .notReceived
  | .truncate => .notReceived
  | .nak => .notReceived
  | .dropEnq => .notReceived
  | .dropEot => .notReceived
  | .dropAck => .ackLost

structure OutMsg where
  hdr : MsgHeader
  body : Bytes
  deriving DecidableEq, Repr

def OutMsg.image (m : OutMsg) : Bytes := hsmsHeader m.hdr ++ m.body

structure Endpoint where
  isEquip : Bool
  deviceID : Nat
  limit : Nat
  queue : List OutMsg := []                    -- accepted by Write, not yet on the line
  cur : Option (OutMsg × List Block) := none   -- message on the line and its not yet ACKed blocks
  retry : Nat := 0
  asm : Asm := {}
  delivered : List Bytes := []                 -- frames handed to the handlers, newest first
  succeeded : List OutMsg := []                -- sends that returned nil, newest first
  failed : List OutMsg := []                   -- sends that returned an error, newest first
  started : List OutMsg := []                  -- ghost: every message put on the line so far, newest first
  deriving Repr

def Endpoint.init (isEquip : Bool) (deviceID limit : Nat) (queue : List OutMsg) : Endpoint :=
  { isEquip, deviceID, limit, queue, asm := Asm.init isEquip deviceID 0 }

/-- Start the next queued message if the line engine is free (`Write` → `splitFrame` → hand-off). A
    message `splitBody` rejects fails at once, without line activity. -/
def Endpoint.load (e : Endpoint) : Endpoint :=
  match e.cur, e.queue with
  | none, m :: q =>
    (match splitBody m.body m.hdr with
     | .ok (b :: bs) => { e with queue := q, cur := some (m, b :: bs), retry := 0, started := m :: e.started }
     | _ => { e with queue := q, failed := m :: e.failed })
  | _, _ => e

/-- The inbound side takes a block (already ACKed by `receiveBlock`). -/
def Endpoint.take (e : Endpoint) (blk : Block) : Endpoint :=
  let r := e.asm.accept 0 blk
  match deliveredOf r.2 with
  | some f => { e with asm := r.1, delivered := f :: e.delivered }
  | none => { e with asm := r.1 }

/-- The sender saw the ACK of its current block. -/
def Endpoint.acked (e : Endpoint) : Endpoint :=
  match e.cur with
  | some (m, _ :: b :: bs) => { e with cur := some (m, b :: bs), retry := 0 }
  | some (m, _) => { e with cur := none, retry := 0, succeeded := m :: e.succeeded }
  | none => e

/-- A new connection generation: fresh assembler, the message on the line (if any) has failed. -/
def Endpoint.teardown (e : Endpoint) : Endpoint :=
  { e with cur := none, retry := 0, asm := Asm.init e.isEquip e.deviceID 0,
           failed := (match e.cur with | some (m, _) => m :: e.failed | none => e.failed) }

structure Line where
  master : Endpoint
  slave : Endpoint
  deriving Repr

def Line.settle (l : Line) : Line :=
  if l.master.retry > l.master.limit ∨ l.slave.retry > l.slave.limit then
    { master := l.master.teardown, slave := l.slave.teardown }          -- ErrSendFailed: link re-established
  else l

/-- One block-transfer attempt under fault `f`. -/
def Line.step (l : Line) (f : Fault) : Line :=
  let m := l.master.load
  let s := l.slave.load
  match m.cur with
  | some (_, blk :: _) =>
    -- the master holds the line; a slave with a pending send contends and yields
    let contending := s.cur.isSome
    (match f.effect with
     | .transferred =>
       Line.settle { master := m.acked, slave := { s.take blk with retry := if contending then 0 else s.retry } }
     | .ackLost =>
       Line.settle { master := { m with retry := m.retry + 1 },
                     slave := { s.take blk with retry := if contending then 0 else s.retry } }
     | .notReceived =>
       Line.settle { master := { m with retry := m.retry + 1 },
                     slave := { s with retry := if contending then s.retry + 1 else s.retry } })
  | _ =>
    match s.cur with
    | some (_, blk :: _) =>
      (match f.effect with
       | .transferred => Line.settle { master := m.take blk, slave := s.acked }
       | .ackLost => Line.settle { master := m.take blk, slave := { s with retry := s.retry + 1 } }
       | .notReceived => Line.settle { master := m, slave := { s with retry := s.retry + 1 } })
    | _ => { master := m, slave := s }

def Line.run (l : Line) : List Fault → Line
  | [] => l
  | f :: fs => (l.step f).run fs

/-! ### Messages offered while the line is running (the straddle case)

  `Write` may hand a new message to an endpoint at any moment — in particular while the peer is in the
  middle of a multi-block message.  The endpoint's two receive paths — the idle path of `lineEngine`
  (`sink(blk)` after an inbound ENQ) and the yield path of `sendBlock` (`deliver(recv)` after a contention
  yield) — are the SAME per-generation sink, i.e. one assembler: both are `Endpoint.take`. -/

abbrev Endpoint.takeIdle (e : Endpoint) (blk : Block) : Endpoint := e.take blk
abbrev Endpoint.takeYield (e : Endpoint) (blk : Block) : Endpoint := e.take blk

/-- `Write` hands a message to this endpoint's line engine. -/
def Endpoint.offer (e : Endpoint) (m : OutMsg) : Endpoint := { e with queue := e.queue ++ [m] }

inductive LineEvent where
  | fault (f : Fault)
  | offerMaster (m : OutMsg)
  | offerSlave (m : OutMsg)
  deriving Repr

def Line.apply (l : Line) : LineEvent → Line
  | .fault f => l.step f
  | .offerMaster m => { l with master := l.master.offer m }
  | .offerSlave m => { l with slave := l.slave.offer m }

def Line.runEvents (l : Line) : List LineEvent → Line
  | [] => l
  | e :: es => (l.apply e).runEvents es

/-- Nothing left to send anywhere. -/
def Line.quiescent (l : Line) : Bool :=
  l.master.queue.isEmpty && l.master.cur.isNone && l.slave.queue.isEmpty && l.slave.cur.isNone

end GoSecs.Secs1
