/-
  Cost semantics of the SML parser model (C14, the TIME clause).

  `Model/Sml.lean` says WHAT `sml/parser.go` computes; this file says HOW MANY STEPS it takes, without
  touching the model: for every parser function `f` there is a cost function `fCost`, defined by the
  same recursion and the same case analysis as `f`, in which every branch is selected by the value the
  MODEL function computes (`match nextNS st with …`, `match parseItem … with …`), so the counted run is
  the model's run by construction.  The entry points come as instrumented pairs
  `parseAllC` / `parseOneC : … → Out × Nat` whose first component is the model function itself (`erase`
  is `rfl`): every theorem about the model is a theorem about the instrumented parser.

  What a step is
    * one per activation of a parser method (`skipSpace`, `skipComment`, `peekNonSpaceRune`, `forward`,
      `parseItem`, one per `parseList` / `Parse` loop iteration, `checkASCIICloseQuote`, …);
    * one per input byte EXAMINED by a scan, every time it is examined: the `skipSpace` loop, every
      `strings.IndexByte` / `IndexAny` / `Index(…, "*/")` over the unread input (header terminator, first
      `<`, message-name colon, comment end, first `>` of a value item / of `sb.Grow`), the quote-detection
      loop and the main loop of `parseASCIIStrict`, the `checkASCIICloseQuote` white-space scans of
      `parseASCIIFast` (one per candidate quote), the `parseJIS8` / `parseLocalizedStr` loop, the digit
      loops of `nextCode` / `nextItemSize` (digits read twice: loop + `strconv.ParseUint`),
      `strings.Fields` (two passes) and the per-token conversions (two passes per token, as
      `strconv.Parse*(…, 0, …)` and `strings.ToUpper` make), `HasPrefix` (2 bytes each), the
      `BOOLEAN` upper-casing (14), the `IndexByte('\\')` + `strconv.Unquote` of a W item, and the
      line/column loop of `newParseError` over `input[:offset]`;
    * one per byte COPIED by `numStr += string(ch)` in `parseASCIIStrict` (Go strings are immutable:
      every append copies the token so far — the quadratic term of strict mode).
  Not counted: building the result values (`secs2.New…Item`, `hsms.NewDataMessage` and its validation,
  `append` growth, `fmt.Sprintf` of the error text) — linear in the size of the value built.

  Core Lean only (the driver links this file for `sml.steps`).
-/
import GoSecs.Model.Sml

namespace GoSecs.Sml
open GoSecs GoSecs.Secs2

/-! ### Bytes examined by the elementary scans -/

/-- A scan for the first byte satisfying `p` examines everything up to and including that byte, or
    everything if there is none (`strings.IndexByte`, `strings.IndexAny`, the `skipSpace` loop, the
    digit loops, the white-space scan of `checkASCIICloseQuote`, quote detection). -/
def idxExam (p : UInt8 → Bool) : Bytes → Nat
  | [] => 0
  | c :: r => 1 + if p c then 0 else idxExam p r

/-- `strings.Index(data, "*/")`. -/
def starSlashExam : Bytes → Nat
  | [] => 0
  | c :: r =>
    match r with
    | [] => 1
    | d :: _ => if c = 42 ∧ d = 47 then 2 else 1 + starSlashExam r

def isByte (b : UInt8) : UInt8 → Bool := fun c => c == b
def notWS : UInt8 → Bool := fun c => !isWS c
def notDigit : UInt8 → Bool := fun c => !isDigit c
def isTerm : UInt8 → Bool := fun c => c == cNL || c == cDot
def isQuoteOrGT : UInt8 → Bool := fun c => c == cGT || c == cSQ || c == cDQ

/-! ### Scanner primitives -/

/-- `forward(n)` / `backward(n)`: constant. -/
def fwdCost : Nat := 1

/-- `skipSpace`: its loop, and `forward(i)` when a non-space byte was found. -/
def skipSpaceCost (st : St) : Nat :=
  1 + idxExam notWS st.data + (if (skipSpace st).1 then fwdCost else 0)

/-- `skipComment`: `skipSpace`, two `HasPrefix`, and the search for the end of the comment — over the
    whole unread input when the comment is not terminated (then nothing is consumed). -/
def skipCommentCost (st : St) : Nat :=
  1 + skipSpaceCost st +
  match skipSpace st with
  | (false, _) => 0
  | (true, st1) =>
    match st1.data with
    | 47 :: 47 :: _ =>
      2 + idxExam (isByte cNL) st1.data + (match indexByte cNL 0 st1.data with | none => 0 | some _ => fwdCost)
    | 47 :: 42 :: _ =>
      4 + starSlashExam st1.data + (match indexStarSlash 0 st1.data with | none => 0 | some _ => fwdCost)
    | _ => 4

/-- `peekNonSpaceRune` (`skipSpace` + `peekRune`). -/
def peekNSCost (st : St) : Nat :=
  1 + skipSpaceCost st + (if (skipSpace st).1 then 1 else 0)

/-- `nextRune` (with its `forward(1)`). -/
def nextRuneCost (st : St) : Nat :=
  1 + (if st.data.isEmpty then 0 else fwdCost)

/-- `nextNonSpaceRune`. -/
def nextNSCost (st : St) : Nat :=
  1 + skipSpaceCost st + (if (skipSpace st).1 then nextRuneCost (skipSpace st).2 else 0)

/-- `nextCode` / `nextItemSize`: the `range` loop over the digits and their terminator, then
    `strconv.ParseUint` over the digits again, then `forward`. -/
def nextNumberCost (st : St) : Nat :=
  1 + 2 * idxExam notDigit st.data + fwdCost

/-- `parseItemType` after its `skipSpace`: two bytes looked at, `strings.ToUpper(p.data[:7])` for
    `BO…`, one `forward`. -/
def parseItemTypeCost (data : Bytes) : Nat :=
  1 + 2 +
  (match data with
   | c0 :: c1 :: _ => if upperB c0 = 66 ∧ upperB c1 = 79 then 14 else 0
   | _ => 0) + fwdCost

/-- `parseItemSize`, following its branches. -/
def parseItemSizeCost (st : St) : Nat :=
  1 + nextNSCost st +
  match skipSpace st with
  | (false, _) => fwdCost                                   -- backward(1)
  | (true, st1) =>
    match st1.data with
    | [] => fwdCost
    | c :: r =>
      if c ≠ cLB then fwdCost                               -- backward(1)
      else
        let st2 : St := { st1 with pos := st1.pos + 1, data := r }
        peekNSCost st2 +
        match peekNS st2 with
        | (some 46, st3) =>
          fwdCost + nextNumberCost (fwd 2 st3) +
          (match nextNumber maxInt32 (fwd 2 st3) with
           | .error _ => 0
           | .ok (_, st4) => nextNSCost st4)
        | (_, st3) =>
          nextNumberCost st3 +
          match nextNumber maxInt32 st3 with
          | .error _ => 0
          | .ok (_, st4) =>
            peekNSCost st4 +
            match peekNS st4 with
            | (some 46, st5) =>
              let st6 := fwd 2 st5
              fwdCost + 1 +
              (if peekRune st6 = some cRB then nextNSCost st6
               else nextNumberCost st6 +
                 (match nextNumber maxInt32 st6 with
                  | .error _ => 0
                  | .ok (_, st7) => nextNSCost st7))
            | (_, st5) => nextNSCost st5

/-! ### Value items -/

/-- The conversions `parseBoolean` … `parseUint` run on the tokens, up to and including the first
    that fails: two passes over each token (`strconv.Parse*` with base 0 checks underscores, then
    converts; `strings.ToUpper` checks, then maps). -/
def convCost {α} (conv : Bytes → Option α) : List Bytes → Nat
  | [] => 0
  | t :: ts => 2 * t.length + 1 + (match conv t with | none => 0 | some _ => convCost conv ts)

/-- `parseBoolean` … `parseUint` with `getItemValueStrings`: `IndexByte('>')`, `strings.Fields` (two
    passes over the value text), `forward`, the conversions. -/
def parseValuesCost {α} (conv : Bytes → Option α) (st : St) : Nat :=
  1 + 1 + idxExam (isByte cGT) st.data +
  match indexByte cGT 0 st.data with
  | none => 1
  | some i => 2 * i + fwdCost + convCost conv (fields (st.data.take i))

/-- The main loop of `parseASCIIStrict` (same recursion as `strictLoop`): one step per byte visited,
    plus, in a numeric token, the length of the token after each `numStr += string(ch)` (the copy) and
    the length of the token for each `strconv.ParseUint(numStr, 0, 0)`. -/
def strictCost (O : Oracle) (q : UInt8) : AMode → Nat → Bytes → Nat
  | _, _, [] => 0
  | m, skip+1, _ :: r => 1 + strictCost O q m skip r
  | m, 0, c :: r =>
    let ro : Bytes × Nat := if c.toNat < 128 then ([c], 0) else runeOut (c :: r)
    1 +
    match m with
    | .quoted esc =>
      if c = cBS then
        (if esc then strictCost O q (.quoted false) 0 r else strictCost O q (.quoted true) 0 r)
      else if c = q then
        (if esc then strictCost O q (.quoted false) 0 r else strictCost O q .dflt 0 r)
      else if c = cGT then
        (if esc then strictCost O q (.quoted false) 0 r else 0)
      else strictCost O q (.quoted false) ro.2 r
    | .num tok =>
      if c = cSP then
        tok.length +
        (match parseCharTok O tok.reverse with
         | none => 0
         | some _ => strictCost O q .dflt 0 r)
      else if c = cGT then tok.length
      else (tok.length + ro.1.length) + strictCost O q (.num (ro.1.reverse ++ tok)) ro.2 r
    | .dflt =>
      if c = q then strictCost O q (.quoted false) 0 r
      else if c = cSP then strictCost O q .dflt 0 r
      else if c = cGT then 0
      else ro.1.length + strictCost O q (.num ro.1.reverse) ro.2 r

/-- `parseASCIIStrict`: quote detection, `IndexByte('>')` for `sb.Grow`, the main loop, `forward`. -/
def parseASCIIStrictCost (O : Oracle) (st : St) : Nat :=
  1 + idxExam isQuoteOrGT st.data + idxExam (isByte cGT) st.data +
  strictCost O (detectQuote st.data) .dflt 0 st.data +
  (match strictLoop O (detectQuote st.data) .dflt [] 0 0 st.data with
   | none => 0
   | some _ => fwdCost)

/-- `checkASCIICloseQuote(idx, q)` on `rest = p.data[idx:]`: the byte at `idx`, and — when it is the
    quote — the white space behind it up to the byte that decides. -/
def checkCloseCost (q : UInt8) (rest : Bytes) : Nat :=
  1 +
  match rest with
  | [] => 0
  | c :: r => if r.isEmpty ∨ c ≠ q then 1 else 1 + idxExam notWS r

/-- The byte-by-byte fallback loop of `parseASCIIFast`: one `checkASCIICloseQuote` per index. -/
def fastCost (q : UInt8) : Nat → Bytes → Nat
  | _, [] => 0
  | i, c :: r =>
    checkCloseCost q (c :: r) +
    match checkClose q i (c :: r) with
    | .yes _ => 0
    | .no => fastCost q (i + 1) r

/-- `parseASCIIFast(maxSize)`. -/
def parseASCIIFastCost (maxSize : Nat) (st : St) : Nat :=
  1 + nextNSCost st +
  match nextNS st with
  | (some 62, _) => 0
  | (some c, st) =>
    if c ≠ cSQ ∧ c ≠ cDQ then 0
    else
      let slow : Nat :=
        fastCost c 0 st.data +
        (match fastLoop c [] 0 st.data with
         | none => 0
         | some _ => fwdCost)
      if maxSize > 0 then
        if lenLt st.data (maxSize + 2) then 0
        else checkCloseCost c (st.data.drop maxSize) +
          (match checkClose c maxSize (st.data.drop maxSize) with
           | .yes _ => fwdCost
           | .no => slow)
      else slow
  | (none, _) => 0

/-- Bytes the `parseJIS8` / `parseLocalizedStr` loop visits (same recursion as `scanQuoted`). -/
def scanQuotedExam (q : UInt8) : Nat → Nat → Bytes → Nat
  | _, _, [] => 0
  | i, lq, c :: r =>
    1 +
    (if c = q then scanQuotedExam q (i + 1) i r
     else if c = cGT then (if lq + 1 < i then scanQuotedExam q (i + 1) lq r else 0)
     else scanQuotedExam q (i + 1) lq r)

/-- `parseJIS8` (`w = false`) / `parseLocalizedStr` (`w = true`: `unquoteLocalizedStr` scans the text
    between the quotes for a backslash and may hand it to `strconv.Unquote`: two more passes, each over
    at most the bytes the loop has just visited). -/
def parseQuotedCost (w : Bool) (st : St) : Nat :=
  1 + nextNSCost st +
  match nextNS st with
  | (some 62, _) => 0
  | (some c, st) =>
    if c ≠ cSQ ∧ c ≠ cDQ then 0
    else
      scanQuotedExam c 0 0 st.data +
      (match scanQuoted c 0 0 st.data with
       | none => 0
       | some _ => fwdCost + (if w then 2 * scanQuotedExam c 0 0 st.data else 0))
  | (none, _) => 0

/-- The body of a non-list item. -/
def parseLeafCost (O : Oracle) (strict : Bool) (ty : Ty) (size : Nat) (st : St) : Nat :=
  match ty with
  | .list => 0
  | .ascii => if strict then parseASCIIStrictCost O st else parseASCIIFastCost size st
  | .jis8 => parseQuotedCost false st
  | .lstr => parseQuotedCost true st
  | .boolean => parseValuesCost parseBoolTok st
  | .binary => parseValuesCost (parseBinTok O) st
  | .float w => parseValuesCost (O.parseF w) st
  | .int w => parseValuesCost (parseIntW O w.bytes) st
  | .uint w => parseValuesCost (parseUintW O w.bytes) st

/-! ### Items and lists -/

mutual
/-- Steps of `parseItem`: same recursion and same branches as the model function, whose own results
    (`nextNS`, `parseItemType`, `parseItemSize`, `parseLeaf`, `parseList`) select the branch. -/
def parseItemCost (O : Oracle) (strict : Bool) : Nat → Nat → St → Nat
  | 0, _, _ => 1
  | fuel+1, depth, st =>
    let st := { st with maxDepth := max st.maxDepth depth }
    1 + nextNSCost st +
    match nextNS st with
    | (some 60, st) =>
      let st1 := (skipSpace st).2
      skipSpaceCost st + parseItemTypeCost st1.data +
      (match parseItemType st1.data with
       | none => 0
       | some (ty, k) =>
         let last := (st1.data.drop (k - 1)).headD 0
         parseItemSizeCost (fwd k st1) +
         match parseItemSize last (fwd k st1) with
         | .error _ => 0
         | .ok ((_, size), st3) =>
           let st4 := skipComment st3
           skipCommentCost st3 +
           match ty with
           | .list =>
             if depth > maxListDepth then 0
             else
               let stl := bumpAlloc (16 * listPrealloc size st4.data) st4
               parseListCost O strict fuel depth [] 0 stl +
               (match parseList O strict fuel depth [] stl with
                | .error _ => 0
                | .ok (_, st5) => skipCommentCost st5)
           | _ =>
             parseLeafCost O strict ty size st4 +
             (match parseLeaf O strict ty size st4 with
              | .error _ => 0
              | .ok (_, st5) => skipCommentCost st5))
    | (_, _) => 0
/-- Steps of the `parseList` loop on top of `steps` (an accumulator, so that the loop stays a loop):
    one per iteration, the `peekNonSpaceRune`, the child. -/
def parseListCost (O : Oracle) (strict : Bool) : Nat → Nat → List Item → Nat → St → Nat
  | 0, _, _, steps, _ => steps + 1
  | fuel+1, depth, acc, steps, st =>
    let c1 := steps + 1 + peekNSCost st
    match peekNS st with
    | (some 60, st1) =>
      let c2 := c1 + parseItemCost O strict fuel (depth + 1) st1
      (match parseItem O strict fuel (depth + 1) st1 with
       | .error _ => c2
       | .ok (it, st2) => parseListCost O strict fuel depth (it :: acc) c2 st2)
    | (some 62, _) => c1 + fwdCost
    | (_, _) => c1
end

/-! ### Header, message, message loop -/

/-- The message-name part of `parseHSMSHeader`: `IndexByte('<')` over the unread input (all of it
    when neither this message nor a later one has a body), `IndexByte(':')` over the header. -/
def skipNameCost (st : St) (firstTerm : Nat) : Nat :=
  let i := match indexByte cLT 0 st.data with
    | none => firstTerm
    | some b => max firstTerm b
  idxExam (isByte cLT) st.data + idxExam (isByte 58) (st.data.take i) +
  (match indexByte 58 0 (st.data.take i) with | none => 0 | some _ => fwdCost)

def skipQuoteCost (st : St) : Nat :=
  peekNSCost st +
  (match peekNS st with
   | (some c, _) => if c = cSQ ∨ c = cDQ then fwdCost else 0
   | (none, _) => 0)

def headerWBitCost (st : St) : Nat :=
  peekNSCost st +
  (match peekNS st with
   | (some 87, _) => fwdCost
   | (_, _) => 0)

/-- `parseHSMSHeader`, following its branches. -/
def parseHeaderLineCost (st : St) : Nat :=
  1 + idxExam isTerm st.data +
  match indexTerm 0 st.data with
  | none => 0
  | some firstTerm =>
    skipNameCost st firstTerm + skipQuoteCost (skipName st firstTerm) +
    nextRuneCost (skipQuote (skipName st firstTerm)) +
    match nextRune (skipQuote (skipName st firstTerm)) with
    | (some 83, st) =>
      nextNumberCost st +
      (match nextNumber 255 st with
       | .error _ => 0
       | .ok (s, st) =>
         if s > 127 then 0
         else nextRuneCost st +
           match nextRune st with
           | (some 70, st) =>
             nextNumberCost st +
             (match nextNumber 255 st with
              | .error _ => 0
              | .ok (_, st) => skipQuoteCost st + headerWBitCost (skipQuote st))
           | (_, _) => 0)
    | (_, _) => 0

/-- `parseText` after its `skipComment`. -/
def parseBodyCost (O : Oracle) (strict : Bool) (st : St) : Nat :=
  1 + peekNSCost st +
  match peekNS st with
  | (some 46, _) => 0
  | (_, st) => parseItemCost O strict (2 * st.data.length + 1) 1 st

/-- Steps of `parseMsg(headerOnly)`. -/
def parseMsgCost (O : Oracle) (strict headerOnly : Bool) (st : St) : Nat :=
  let st1 := skipComment st
  1 + skipCommentCost st + peekNSCost st1 +
  match peekNS st1 with
  | (none, _) => 0
  | (some _, st2) =>
    parseHeaderLineCost st2 +
    match parseHeaderLine st2 with
    | .error _ => 0
    | .ok (_, st3) =>
      if headerOnly then 1
      else
        skipCommentCost st3 + parseBodyCost O strict (skipComment st3) +
        match parseBody O strict (skipComment st3) with
        | .error _ => 0
        | .ok (_, st4) =>
          nextNSCost st4 +
          (match nextNS st4 with
           | (some 46, _) => 1
           | (_, _) => 0)

/-- Steps of the `Parser.Parse` loop on top of `steps`: one per iteration plus the message. -/
def parseLoopCost (O : Oracle) (strict : Bool) : Nat → List Msg → Nat → St → Nat
  | 0, _, steps, _ => steps
  | fuel+1, acc, steps, st =>
    let c := steps + 1 + parseMsgCost O strict false st
    match parseMsg O strict false st with
    | .error _ => c
    | .ok (none, _) => c
    | .ok (some m, st) => parseLoopCost O strict fuel (m :: acc) c st

/-! ### Entry points -/

/-- Building the error: `newParseError` walks `input[:offset]` once for line and column. -/
def failCost (input : Bytes) (e : Fail) : Nat :=
  match e.kind with
  | .syn off => 1 + min off input.length
  | .plain => 0
  | .panic => 0

/-- Steps of `Parser.Parse(input)`. -/
def parseAllSteps (O : Oracle) (strict : Bool) (input : Bytes) : Nat :=
  parseLoopCost O strict (input.length + 1) [] 1 (initSt input) +
  match parseLoop O strict (input.length + 1) [] (initSt input) with
  | .error e => failCost input e
  | .ok _ => 0

/-- Steps of `Parser.ParseMessage(input)` / `Parser.ParseHeader(input)`. -/
def parseOneSteps (O : Oracle) (strict headerOnly : Bool) (input : Bytes) : Nat :=
  1 + parseMsgCost O strict headerOnly (initSt input) +
  match parseMsg O strict headerOnly (initSt input) with
  | .error e => failCost input e
  | .ok _ => 0

/-- The instrumented entry points: `(result, steps)`.  The result component IS the model function
    (`parseAllC_erase`, `parseOneC_erase` hold by `rfl`), so every theorem about `parseAll` /
    `parseOne` is a theorem about the instrumented parser. -/
def parseAllC (O : Oracle) (strict : Bool) (input : Bytes) : Out × Nat :=
  (parseAll O strict input, parseAllSteps O strict input)

def parseOneC (O : Oracle) (strict headerOnly : Bool) (input : Bytes) : Out × Nat :=
  (parseOne O strict headerOnly input, parseOneSteps O strict headerOnly input)

end GoSecs.Sml
