/-
  Model of the secs2 item constructors' argument semantics (NewIntItem / NewUintItem /
  NewBinaryItem / NewBooleanItem / NewListItem): clamping, error classes, shapes, and the
  list error aggregation with its cached `clean` flag.

  Anchors: secs2/int.go (intScalarFastPath, combineIntValues[Slow], clampInt64), secs2/uint.go,
  secs2/binary.go, secs2/boolean.go, secs2/list.go (NewListItem, childClean, Error), secs2/equal.go.

  String arguments go through strconv.ParseInt/ParseUint (base 0): that library call is a parameter —
  the argument carries the parse outcome (`StrParse`) as computed by the Go standard library.
  Float construction (clampF4, float32 narrowing) is IEEE arithmetic and is checked by the harness
  against an independent Go-side oracle, not modelled here (DESIGN §4.3).

  Core Lean only.
-/
import GoSecs.Model.Secs2

namespace GoSecs.Construct
open GoSecs GoSecs.Secs2

/-- Outcome of `strconv.ParseInt(s, 0, 64)` / `ParseUint(s, 0, 64)`: a value, a range error (the
    library returns the nearest bound, which the constructors keep and then clamp), or a syntax error. -/
inductive StrParse where
  | val (v : Int)
  | range (bound : Int)
  | syntax
  deriving Repr, Inhabited

/-- One variadic argument, by dynamic type class. Integer scalars/slices carry their mathematical value
    (any of the ten Go integer types; the value is within that type's range). -/
inductive Arg where
  | int (v : Int)
  | ints (vs : List Int)
  | str (p : StrParse)
  | strs (ps : List StrParse)
  | bool (b : Bool)
  | bools (bs : List Bool)
  | float              -- float32/float64 scalar or slice (unsupported by int/uint/binary/boolean constructors)
  | other              -- nil, or any other dynamic type
  deriving Repr, Inhabited

def clampI (v lo hi : Int) : Int := if v < lo then lo else if v > hi then hi else v

def widthOfSize (byteSize : Int) : Option Width :=
  if byteSize = 1 then some .w1 else if byteSize = 2 then some .w2 else if byteSize = 4 then some .w4
  else if byteSize = 8 then some .w8 else none

def strVal : StrParse → Option Int
  | .val v => some v
  | .range b => some b
  | .syntax => none

/-! ### NewIntItem -/

def intArg (lo hi : Int) : Arg → Option (List Int)
  | .int v => some [clampI v lo hi]
  | .ints vs => some (vs.map (clampI · lo hi))
  | .str p => (strVal p).map (fun v => [clampI v lo hi])
  | .strs ps => (ps.mapM strVal).map (·.map (clampI · lo hi))
  | _ => none

def intArgs (lo hi : Int) : List Arg → Option (List Int)
  | [] => some []
  | a :: as => do
    let x ← intArg lo hi a
    let xs ← intArgs lo hi as
    pure (x ++ xs)

/-- `NewIntItem(byteSize, values...)`: `none` = the item carries a deferred error. -/
def newInt (byteSize : Int) (args : List Arg) : Option Item :=
  match widthOfSize byteSize with
  | none => none
  | some w =>
    match intArgs (intLo w.bytes) (intHi w.bytes) args with
    | none => none
    | some vs => if vs.length * w.bytes > maxByteSize then none else some (.int w vs)

/-! ### NewUintItem (negative integers are an error, not a clamp) -/

def uintArg (hi : Int) : Arg → Option (List Nat)
  | .int v => if v < 0 then none else some [(clampI v 0 hi).toNat]
  | .ints vs => if vs.any (· < 0) then none else some (vs.map (fun v => (clampI v 0 hi).toNat))
  | .str p => match strVal p with
    | some v => if v < 0 then none else some [(clampI v 0 hi).toNat]
    | none => none
  | .strs ps => match ps.mapM strVal with
    | some vs => if vs.any (· < 0) then none else some (vs.map (fun v => (clampI v 0 hi).toNat))
    | none => none
  | _ => none

def uintArgs (hi : Int) : List Arg → Option (List Nat)
  | [] => some []
  | a :: as => do
    let x ← uintArg hi a
    let xs ← uintArgs hi as
    pure (x ++ xs)

def newUint (byteSize : Int) (args : List Arg) : Option Item :=
  match widthOfSize byteSize with
  | none => none
  | some w =>
    match uintArgs ((256 ^ w.bytes : Nat) - 1) args with
    | none => none
    | some vs => if vs.length * w.bytes > maxByteSize then none else some (.uint w vs)

/-! ### NewBinaryItem (out-of-range is an error: a byte has no "nearest bound" reading in the API doc) -/

def binArg : Arg → Option (List UInt8)
  | .int v => if v < 0 ∨ v > 255 then none else some [UInt8.ofNat v.toNat]
  | .ints vs => if vs.any (fun v => v < 0 ∨ v > 255) then none else some (vs.map (fun v => UInt8.ofNat v.toNat))
  | .str (.val v) => if v < 0 ∨ v > 255 then none else some [UInt8.ofNat v.toNat]
  | _ => none

def binArgs : List Arg → Option (List UInt8)
  | [] => some []
  | a :: as => do
    let x ← binArg a
    let xs ← binArgs as
    pure (x ++ xs)

def newBinary (args : List Arg) : Option Item :=
  match binArgs args with
  | none => none
  | some bs => if bs.length > maxByteSize then none else some (.binary bs)

/-! ### NewBooleanItem -/

def boolArg : Arg → Option (List Bool)
  | .bool b => some [b]
  | .bools bs => some bs
  | _ => none

def boolArgs : List Arg → Option (List Bool)
  | [] => some []
  | a :: as => do
    let x ← boolArg a
    let xs ← boolArgs as
    pure (x ++ xs)

def newBoolean (args : List Arg) : Option Item :=
  match boolArgs args with
  | none => none
  | some bs => if bs.length > maxByteSize then none else some (.boolean bs)

/-! ### Built items with deferred errors; lists -/

/-- A constructed item as the API sees it: a value tree in which any node may carry a deferred
    error (`Error() != nil`). `clean` is the cached flag NewListItem computes. -/
inductive Built where
  | leaf (it : Option Item)                               -- `none`: errored leaf
  | list (own : Bool) (clean : Bool) (kids : List Built)   -- own = the list's own size error
  | empty
  deriving Inhabited

mutual
/-- The recursive definition of "carries an error directly or in any nested child". -/
def Built.errored : Built → Bool
  | .leaf it => it.isNone
  | .list own _ kids => own || Built.erroredL kids
  | .empty => false
def Built.erroredL : List Built → Bool
  | [] => false
  | k :: ks => k.errored || Built.erroredL ks
end

/-- `childClean`: what NewListItem reads off a child without calling Error(). -/
def childClean : Built → Bool
  | .leaf it => it.isSome
  | .list own clean _ => !own && clean
  | .empty => true

/-- `NewListItem(children...)`: empty children are skipped; the clean flag is the conjunction of the
    children's cached flags. (nil children are skipped by the caller-side encoding.) -/
def keepChild : Built → Bool
  | .empty => false
  | _ => true

def newList (kids : List Built) : Built :=
  if kids.length > maxByteSize then .list true false []
  else
    let kept := kids.filter keepChild
    .list false (kids.all childClean) kept

/-- `ListItem.Error()`: the O(1) fast path on the cached flag, else the recursive walk. -/
def Built.errorNonNil : Built → Bool
  | .leaf it => it.isNone
  | .list own clean kids => if clean then false else (own || Built.erroredL kids)
  | .empty => false

/-- Every `list` node's cached flag was computed by `newList` from children built the same way. -/
inductive Built.Constructed : Built → Prop
  | leaf (it) : Built.Constructed (.leaf it)
  | empty : Built.Constructed .empty
  | list (kids : List Built) : (∀ k ∈ kids, Built.Constructed k) → Built.Constructed (newList kids)

mutual
/-- The logical value of an error-free built item. -/
def Built.value : Built → Item
  | .leaf (some it) => it
  | .leaf none => .empty
  | .list _ _ kids => .list (Built.values kids)
  | .empty => .empty
def Built.values : List Built → List Item
  | [] => []
  | k :: ks => k.value :: Built.values ks
end

/-- `secs2.Equal` on constructed items: never equal if either side carries an error anywhere. -/
def equalBuilt (a b : Built) : Bool :=
  !a.errored && !b.errored && equalItem a.value b.value

/-- The message-construction gate: `NewDataMessage` refuses iff `item.Error() != nil`. -/
def messageAccepts (b : Built) : Bool := !b.errorNonNil

end GoSecs.Construct
