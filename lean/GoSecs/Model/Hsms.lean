/-
  Model of the HSMS message layer (package hsms): the 10-byte header, data / control message
  construction with the Q3 validation gate, `ToBytes`, the three decode entry points,
  re-stamping (`WithSessionID` / `WithSystemBytes` / `WithID`), `Derive…Build`, and
  `buildFrameBuffers` (the slices a connection hands to the socket).

  Anchors: hsms/message.go (MsgType, IsValidSType), hsms/data_msg.go, hsms/control_msg.go,
  hsms/decode.go, hsms/connection_send.go (buildFrameBuffers), hsms/id_gen.go
  (ToSystemBytes / FromSystemBytes), hsms/equal.go, internal/wire/body.go (treeBody / rawFrameBody).

  Core Lean only: the protocol driver links this file.
-/
import GoSecs.Model.Secs2

namespace GoSecs.Hsms
open GoSecs GoSecs.Secs2

/-! ### Constants (tied to the regenerated `GoSecs.Gen.hsms_*` in Props/C03, C04) -/

/-- `maxHSMSMsgLen` (= `secs2.MaxByteSize`): cap on the HSMS length field (header + body). -/
def maxMsgLen : Nat := 16777215
/-- `MaxStreamCode`. -/
def maxStream : Nat := 127

def stData : Nat := 0
def stSelectReq : Nat := 1
def stSelectRsp : Nat := 2
def stDeselectReq : Nat := 3
def stDeselectRsp : Nat := 4
def stLinktestReq : Nat := 5
def stLinktestRsp : Nat := 6
def stRejectReq : Nat := 7
def stSeparateReq : Nat := 9
def stUndefined : Nat := 255

def rejectSTypeNotSupported : Nat := 1
def rejectPTypeNotSupported : Nat := 2
def rejectTransactionNotOpen : Nat := 3
def rejectNotSelected : Nat := 4

/-- SEMI E37 §7.10.3: the defined STypes are 0 (data) and 1–7, 9 (control). -/
def definedSType (s : Nat) : Bool := s ≤ 7 || s == 9

/-- The eight control STypes `decodeOwnedFrame` lists. -/
def controlSType (s : Nat) : Bool := (1 ≤ s && s ≤ 7) || s == 9

/-! ### Header: ten bytes, by E37 position -/

/-- `[10]byte` header.  Field names follow E37: bytes 0–1 session id, byte 2 (W | stream for data,
    0 / echoed PType or SType for a reject), byte 3 (function / status / reason), PType, SType,
    bytes 6–9 system bytes. -/
structure Header where
  sid0 : UInt8
  sid1 : UInt8
  b2 : UInt8
  b3 : UInt8
  ptype : UInt8
  stype : UInt8
  sys0 : UInt8
  sys1 : UInt8
  sys2 : UInt8
  sys3 : UInt8
  deriving DecidableEq, Repr, Inhabited

def Header.toBytes (h : Header) : Bytes :=
  [h.sid0, h.sid1, h.b2, h.b3, h.ptype, h.stype, h.sys0, h.sys1, h.sys2, h.sys3]

/-- `copy(h[:], owned[0:10])`: the first ten bytes, and what follows them. -/
def Header.ofBytes : Bytes → Option (Header × Bytes)
  | a :: b :: c :: d :: e :: f :: g :: h :: i :: j :: rest => some (⟨a, b, c, d, e, f, g, h, i, j⟩, rest)
  | _ => none

/-- Four system bytes (`[4]byte`). -/
structure Sys where
  y0 : UInt8
  y1 : UInt8
  y2 : UInt8
  y3 : UInt8
  deriving DecidableEq, Repr, Inhabited

def Sys.toBytes (s : Sys) : Bytes := [s.y0, s.y1, s.y2, s.y3]

/-- `ToSystemBytes(id)`: big-endian, `id` taken mod 2^32 (it is a `uint32`). -/
def sysOfID (id : Nat) : Sys :=
  ⟨UInt8.ofNat (id / 16777216 % 256), UInt8.ofNat (id / 65536 % 256), UInt8.ofNat (id / 256 % 256), UInt8.ofNat (id % 256)⟩

/-- `FromSystemBytes`. -/
def idOfSys (s : Sys) : Nat := beVal s.toBytes

/-- High / low byte of a `uint16` session id (`binary.BigEndian.PutUint16`). -/
def sidHi (sid : Nat) : UInt8 := UInt8.ofNat (sid / 256 % 256)
def sidLo (sid : Nat) : UInt8 := UInt8.ofNat (sid % 256)

def Header.sessionID (h : Header) : Nat := h.sid0.toNat * 256 + h.sid1.toNat
def Header.sys (h : Header) : Sys := ⟨h.sys0, h.sys1, h.sys2, h.sys3⟩
/-- `Stream()`: `header[2] & 0x7F`. -/
def Header.stream (h : Header) : UInt8 := UInt8.ofNat (h.b2.toNat &&& 0x7F)
/-- `WaitBit()` of a data message: `header[2]>>7 != 0`. -/
def Header.wbit (h : Header) : Bool := h.b2.toNat >>> 7 != 0
def Header.function (h : Header) : UInt8 := h.b3

def Header.withSessionID (h : Header) (sid : Nat) : Header := { h with sid0 := sidHi sid, sid1 := sidLo sid }
def Header.withSys (h : Header) (s : Sys) : Header :=
  { h with sys0 := s.y0, sys1 := s.y1, sys2 := s.y2, sys3 := s.y3 }

/-! ### Bodies (internal/wire/body.go) -/

/-- A constructed message owns an item tree (`treeBody`: `Len` is `EncodedLen`, the bytes are the
    memoised `AppendTo`); a received one owns raw bytes (`rawFrameBody`). -/
inductive Body where
  | tree (it : Item)
  | raw (bs : Bytes)
  deriving Inhabited

/-- `Body.Len()`. -/
def Body.len : Body → Nat
  | .tree it => encodedLen it
  | .raw bs => bs.length

/-- `Body.AppendTo(nil)` / the single slice of `Body.Buffers()`. -/
def Body.bytes : Body → Bytes
  | .tree it => enc it
  | .raw bs => bs

/-! ### Messages -/

structure DataMsg where
  hdr : Header
  body : Body
  deriving Inhabited

structure ControlMsg where
  hdr : Header
  replyExpected : Bool
  deriving DecidableEq, Repr, Inhabited

inductive Msg where
  | data (m : DataMsg)
  | control (m : ControlMsg)
  deriving Inhabited

def Msg.hdr : Msg → Header
  | .data m => m.hdr
  | .control m => m.hdr

/-- `ControlMessage.Type()`: the SType byte, or `UndefinedMsgType` when E37 does not define it. -/
def ControlMsg.type (m : ControlMsg) : Nat :=
  if definedSType m.hdr.stype.toNat then m.hdr.stype.toNat else stUndefined

/-- `Message.Type()`: a `*DataMessage` always answers `DataMsgType`. -/
def Msg.type : Msg → Nat
  | .data _ => stData
  | .control m => m.type

/-- The lazily decoded body (`decodeState`): a function of the body only, hence identical for every
    holder, every re-stamped copy and every call.  A constructed message is pre-seeded with its item;
    a received one decodes its bytes (`secs2.DecodeOwnedFrame`), the empty body being `EmptyItem`. -/
def Body.item : Body → Except DErr Item
  | .tree it => .ok it
  | .raw bs => match Secs2.decode bs with
    | .ok (it, _) => .ok it
    | .error e => .error e

def DataMsg.item (m : DataMsg) : Except DErr Item := m.body.item

/-- `DecodeErr()`. -/
def DataMsg.decodeErr (m : DataMsg) : Option DErr :=
  match m.item with
  | .ok _ => none
  | .error e => some e

/-! ### Construction -/

inductive CErr where
  | invalidStream | itemError | invalidRspMsg | invalidPType | notDataSType | wrongReqType
  deriving DecidableEq, Repr, Inhabited

def CErr.name : CErr → String
  | .invalidStream => "invalidStream" | .itemError => "itemError" | .invalidRspMsg => "invalidRspMsg"
  | .invalidPType => "invalidPType" | .notDataSType => "notDataSType" | .wrongReqType => "wrongReqType"

/-- The `item` argument of `NewDataMessage`: nil, an error-free item, or an item carrying a
    deferred error (`item.Error() != nil`). -/
inductive ItemArg where
  | nil
  | ok (it : Item)
  | errored
  deriving Inhabited

/-- Header byte 2 of a data message: `stream & 0x7F`, `| 0x80` when a reply is expected. -/
def wStreamByte (stream : UInt8) (w : Bool) : UInt8 :=
  UInt8.ofNat ((stream.toNat &&& 0x7F) ||| (if w then 0x80 else 0))

/-- `NewDataMessage`: the gate, in the code's order, then header packing. -/
def newDataMessage (stream function : UInt8) (w : Bool) (sid : Nat) (sys : Sys) (item : ItemArg) :
    Except CErr DataMsg :=
  if stream.toNat > maxStream then .error .invalidStream
  else match item with
    | .errored => .error .itemError
    | .nil | .ok _ =>
      if w && function.toNat % 2 == 0 then .error .invalidRspMsg
      else
        let it := match item with | .ok it => it | _ => Item.empty
        .ok { hdr := ⟨sidHi sid, sidLo sid, wStreamByte stream w, function, 0, 0, sys.y0, sys.y1, sys.y2, sys.y3⟩,
              body := .tree it }

/-- `NewDataMessageFromHeader`. -/
def newDataMessageFromHeader (h : Header) (item : ItemArg) : Except CErr DataMsg :=
  if h.ptype != 0 then .error .invalidPType
  else if h.stype != 0 then .error .notDataSType
  else newDataMessage h.stream h.function h.wbit h.sessionID h.sys item

def ctlHeader (sid0 sid1 b2 b3 : UInt8) (stype : Nat) (sys : Sys) : Header :=
  ⟨sid0, sid1, b2, b3, 0, UInt8.ofNat stype, sys.y0, sys.y1, sys.y2, sys.y3⟩

def newSelectReq (sid : Nat) (sys : Sys) : ControlMsg :=
  ⟨ctlHeader (sidHi sid) (sidLo sid) 0 0 stSelectReq sys, true⟩
def newDeselectReq (sid : Nat) (sys : Sys) : ControlMsg :=
  ⟨ctlHeader (sidHi sid) (sidLo sid) 0 0 stDeselectReq sys, true⟩
def newSeparateReq (sid : Nat) (sys : Sys) : ControlMsg :=
  ⟨ctlHeader (sidHi sid) (sidLo sid) 0 0 stSeparateReq sys, false⟩
/-- Linktest session id is always 0xFFFF. -/
def newLinktestReq (sys : Sys) : ControlMsg :=
  ⟨ctlHeader 0xFF 0xFF 0 0 stLinktestReq sys, true⟩

/-- `NewSelectRsp(req, status)`: session id and system bytes copied from the request, status in
    header byte 3. -/
def newSelectRsp (req : ControlMsg) (status : UInt8) : Except CErr ControlMsg :=
  if req.type != stSelectReq then .error .wrongReqType
  else .ok ⟨ctlHeader req.hdr.sid0 req.hdr.sid1 0 status stSelectRsp req.hdr.sys, false⟩
def newDeselectRsp (req : ControlMsg) (status : UInt8) : Except CErr ControlMsg :=
  if req.type != stDeselectReq then .error .wrongReqType
  else .ok ⟨ctlHeader req.hdr.sid0 req.hdr.sid1 0 status stDeselectRsp req.hdr.sys, false⟩
def newLinktestRsp (req : ControlMsg) : Except CErr ControlMsg :=
  if req.type != stLinktestReq then .error .wrongReqType
  else .ok ⟨ctlHeader 0xFF 0xFF 0 0 stLinktestRsp req.hdr.sys, false⟩

/-- `NewRejectReq(rejected, reason)`: byte 2 echoes the rejected PType (reason 2) or SType
    (any other reason) — 0 for a data message —, byte 3 is the reason. -/
def newRejectReq (rejected : Msg) (reason : UInt8) : ControlMsg :=
  let h := rejected.hdr
  let b2 : UInt8 :=
    if rejected.type == stData then 0
    else if reason.toNat == rejectPTypeNotSupported then h.ptype else h.stype
  ⟨ctlHeader h.sid0 h.sid1 b2 reason stRejectReq h.sys, false⟩

/-- `NewRejectReqRaw`. -/
def newRejectReqRaw (sid : Nat) (ptype stype : UInt8) (sys : Sys) (reason : UInt8) : ControlMsg :=
  let b2 := if reason.toNat == rejectPTypeNotSupported then ptype else stype
  ⟨ctlHeader (sidHi sid) (sidLo sid) b2 reason stRejectReq sys, false⟩

/-! ### Re-stamping -/

def DataMsg.withSessionID (m : DataMsg) (sid : Nat) : DataMsg := { m with hdr := m.hdr.withSessionID sid }
def DataMsg.withSys (m : DataMsg) (s : Sys) : DataMsg := { m with hdr := m.hdr.withSys s }
def DataMsg.withID (m : DataMsg) (id : Nat) : DataMsg := m.withSys (sysOfID id)
def ControlMsg.withSessionID (m : ControlMsg) (sid : Nat) : ControlMsg := { m with hdr := m.hdr.withSessionID sid }
def ControlMsg.withSys (m : ControlMsg) (s : Sys) : ControlMsg := { m with hdr := m.hdr.withSys s }

def Msg.withSessionID : Msg → Nat → Msg
  | .data m, sid => .data (m.withSessionID sid)
  | .control m, sid => .control (m.withSessionID sid)
def Msg.withSys : Msg → Sys → Msg
  | .data m, s => .data (m.withSys s)
  | .control m, s => .control (m.withSys s)

/-- One step of a re-stamp chain. -/
inductive Stamp where
  | sid (v : Nat)
  | sys (s : Sys)
  | id (v : Nat)
  deriving Repr, Inhabited

def Msg.stamp (m : Msg) : Stamp → Msg
  | .sid v => m.withSessionID v
  | .sys s => m.withSys s
  | .id v => m.withSys (sysOfID v)

def Msg.stamps (m : Msg) (l : List Stamp) : Msg := l.foldl Msg.stamp m

/-! ### Derive … Build -/

structure Builder where
  sid : Nat
  sys : Sys
  stream : UInt8
  function : UInt8
  w : Bool
  item : ItemArg
  deriving Inhabited

/-- `Derive()`: a body that fails to decode seeds the builder with the empty item. -/
def DataMsg.derive (m : DataMsg) : Builder :=
  { sid := m.hdr.sessionID, sys := m.hdr.sys, stream := m.hdr.stream, function := m.hdr.function,
    w := m.hdr.wbit, item := match m.item with | .ok it => .ok it | .error _ => .ok .empty }

def Builder.build (b : Builder) : Except CErr DataMsg :=
  newDataMessage b.stream b.function b.w b.sid b.sys b.item

/-! ### Serialisation -/

/-- `ToBytes`.  A data message writes `uint32(10 + body.Len())` big-endian, the header, the body;
    a control message is always the 14 bytes `00 00 00 0A` + header. -/
def Msg.toBytes : Msg → Bytes
  | .data m => beBytes 4 (10 + m.body.len) ++ m.hdr.toBytes ++ m.body.bytes
  | .control m => [0, 0, 0, 10] ++ m.hdr.toBytes

/-- `buildFrameBuffers`: the slices handed to `writev`.  The length is computed from the body
    *buffers* (not `Body.Len`); a control message or an empty body takes the single-slice branch. -/
def Msg.frameBuffers : Msg → List Bytes
  | .data m =>
    let bodyBufs := [m.body.bytes]
    let n := (bodyBufs.map List.length).sum
    if n > 0 then (beBytes 4 (10 + n) ++ m.hdr.toBytes) :: bodyBufs
    else [beBytes 4 10 ++ m.hdr.toBytes]
  | .control m => [beBytes 4 10 ++ m.hdr.toBytes]

/-- What reaches the socket: the concatenation of the buffers. -/
def Msg.wire (m : Msg) : Bytes := m.frameBuffers.flatten

/-! ### Decoding -/

inductive FErr where
  | tooShort | lenSmall | lenBig | mismatch | ptype | stype
  deriving DecidableEq, Repr, Inhabited

def FErr.name : FErr → String
  | .tooShort => "tooShort" | .lenSmall => "lenSmall" | .lenBig => "lenBig" | .mismatch => "mismatch"
  | .ptype => "ptype" | .stype => "stype"

/-- `decodeOwnedFrame(owned)`: `[header ‖ body]`. -/
def decodeOwnedFrame (owned : Bytes) : Except FErr Msg :=
  match Header.ofBytes owned with
  | none => .error .tooShort
  | some (h, body) =>
    if h.ptype != 0 then .error .ptype
    else if h.stype.toNat == stData then .ok (.data ⟨h, .raw body⟩)
    else if controlSType h.stype.toNat then .ok (.control ⟨h, false⟩)
    else .error .stype

/-- `DecodeHSMSMessage(data)`: 4-byte length prefix then exactly that many bytes. -/
def decodeHSMSMessage (data : Bytes) : Except FErr Msg :=
  if lenLt data 14 then .error .tooShort
  else
    let msgLen := beVal (data.take 4)
    if msgLen < 10 then .error .lenSmall
    else if msgLen > maxMsgLen then .error .lenBig
    else if (data.drop 4).length != msgLen then .error .mismatch
    else decodeOwnedFrame (data.drop 4)

/-- `DecodeHSMSPayload` / `DecodeOwnedHSMSPayload` (they differ only in copying): header + body,
    no length prefix. -/
def decodeHSMSPayload (payload : Bytes) : Except FErr Msg :=
  if lenLt payload 10 then .error .tooShort
  else if payload.length > maxMsgLen then .error .lenBig
  else decodeOwnedFrame payload

/-- The length gate of `DecodeHSMSMessage` (everything before `decodeOwnedFrame`): the owned `[header ‖ body]`
    bytes, or the reason the frame is refused.  `decodeHSMSMessage` is this gate followed by
    `decodeOwnedFrame` (`decodeHSMSMessage_guard`, Lemmas/HsmsGen); the translation of that part of the Go
    function is tied to it in Props/C03 and C04. -/
def frameGuard (data : Bytes) : Except FErr Bytes :=
  if lenLt data 14 then .error .tooShort
  else
    let msgLen := beVal (data.take 4)
    if msgLen < 10 then .error .lenSmall
    else if msgLen > maxMsgLen then .error .lenBig
    else if (data.drop 4).length != msgLen then .error .mismatch
    else .ok (data.drop 4)

/-- The gate of `DecodeHSMSPayload` / `DecodeOwnedHSMSPayload`. -/
def payloadGuard (payload : Bytes) : Except FErr Unit :=
  if lenLt payload 10 then .error .tooShort
  else if payload.length > maxMsgLen then .error .lenBig
  else .ok ()

/-- `(*DataMessage).Equal`: identical header and both bodies decode to `secs2.Equal` items. -/
def DataMsg.equal (a b : DataMsg) : Bool :=
  a.hdr == b.hdr &&
  match a.item, b.item with
  | .ok x, .ok y => equalItem x y
  | _, _ => false

end GoSecs.Hsms
