/-
  Line-protocol handlers for the HSMS message model (`hsms.*`) and the stream-framing model
  (`framing.*`).

  hsms.data  <stream> <function> <w 0|1> <sid> <sys hex8> (nil | err | item tokens…)
             → ok <frame hex> <buffers hex|hex> | err <kind>
  hsms.ctl   selectReq|deselectReq|separateReq <sid> <sys> | linktestReq <sys>
             | selectRsp|deselectRsp <req header hex20> <status> | linktestRsp <req header hex20>
             | rejectReq <D|C> <header hex20> <reason> | rejectRaw <sid> <ptype> <stype> <sys> <reason>
             → ok <frame hex> <replyExpected> <type> | err <kind>
  hsms.decode|hsms.payload <hex>
             → err <kind> | ok D <header> <body> <reframe> (item <text> | bodyerr <kind>) | ok C <header> <type> <reframe>
  hsms.stamp <D|C> <header hex20> <body hex> (s:<sid> | y:<sys hex8> | i:<id>)*
             → <frame hex> <buffers>
  hsms.derive <frame hex> → ok <frame hex> | err <kind>
  hsms.stype <n> → true|false
-/
import GoSecs.Model.Hsms
import GoSecs.Model.Framing
import GoSecs.Drv.Secs2

namespace GoSecs.Drv.Hsms
open GoSecs GoSecs.Secs2 GoSecs.Hsms

def sysOfHex (s : String) : Option Sys :=
  match bytesOfHex s with
  | some [a, b, c, d] => some ⟨a, b, c, d⟩
  | _ => none

def hdrOfHex (s : String) : Option Header :=
  match bytesOfHex s with
  | some bs => match Header.ofBytes bs with
    | some (h, []) => some h
    | _ => none
  | none => none

def byteOf (s : String) : Option UInt8 := do
  let n ← s.toNat?
  if n < 256 then some (UInt8.ofNat n) else none

def bufsStr (bs : List Bytes) : String := "|".intercalate (bs.map hexOfBytes)

def msgOut (m : Msg) : String := s!"{hexOfBytes m.toBytes} {bufsStr m.frameBuffers}"

def ctlOut (r : Except CErr ControlMsg) : String :=
  match r with
  | .error e => "err " ++ e.name
  | .ok c => s!"ok {hexOfBytes (Msg.control c).toBytes} {c.replyExpected} {c.type}"

def msgOfParts (kind hdr body : String) : Option Msg := do
  let h ← hdrOfHex hdr
  let b ← bytesOfHex body
  if kind == "D" then some (.data ⟨h, .raw b⟩)
  else if kind == "C" then some (.control ⟨h, false⟩)
  else none

def stampOfTok (t : String) : Option Stamp :=
  if t.startsWith "s:" then (t.drop 2).toString.toNat?.map Stamp.sid
  else if t.startsWith "y:" then (sysOfHex (t.drop 2).toString).map Stamp.sys
  else if t.startsWith "i:" then (t.drop 2).toString.toNat?.map Stamp.id
  else none

def decodeOut (r : Except FErr Msg) : String :=
  match r with
  | .error e => "err " ++ e.name
  | .ok (.data d) =>
    let body := match d.item with
      | .ok it => "item " ++ Drv.Secs2.showItem it
      | .error e => "bodyerr " ++ e.name
    s!"ok D {hexOfBytes d.hdr.toBytes} {hexOfBytes d.body.bytes} {hexOfBytes (Msg.data d).toBytes} {body}"
  | .ok (.control c) =>
    s!"ok C {hexOfBytes c.hdr.toBytes} {c.type} {hexOfBytes (Msg.control c).toBytes}"

def itemArgOf (ts : List String) : Option ItemArg :=
  match ts with
  | ["nil"] => some .nil
  | ["err"] => some .errored
  | _ => (Drv.Secs2.parseWhole ts).map ItemArg.ok

def handleHsms (cmd : String) (args : List String) : Option String :=
  match cmd with
  | "hsms.data" =>
    some (match args with
      | st :: f :: w :: sid :: sys :: item =>
        (match byteOf st, byteOf f, sid.toNat?, sysOfHex sys, itemArgOf item with
        | some st, some f, some sid, some sys, some item =>
          (match newDataMessage st f (w == "1") sid sys item with
          | .error e => "err " ++ e.name
          | .ok m => "ok " ++ msgOut (.data m))
        | _, _, _, _, _ => "bad-op")
      | _ => "bad-op")
  | "hsms.ctl" =>
    some (match args with
      | ["selectReq", sid, sys] => (match sid.toNat?, sysOfHex sys with
        | some sid, some sys => ctlOut (.ok (newSelectReq sid sys)) | _, _ => "bad-op")
      | ["deselectReq", sid, sys] => (match sid.toNat?, sysOfHex sys with
        | some sid, some sys => ctlOut (.ok (newDeselectReq sid sys)) | _, _ => "bad-op")
      | ["separateReq", sid, sys] => (match sid.toNat?, sysOfHex sys with
        | some sid, some sys => ctlOut (.ok (newSeparateReq sid sys)) | _, _ => "bad-op")
      | ["linktestReq", sys] => (match sysOfHex sys with
        | some sys => ctlOut (.ok (newLinktestReq sys)) | _ => "bad-op")
      | ["selectRsp", req, status] => (match hdrOfHex req, byteOf status with
        | some h, some s => ctlOut (newSelectRsp ⟨h, false⟩ s) | _, _ => "bad-op")
      | ["deselectRsp", req, status] => (match hdrOfHex req, byteOf status with
        | some h, some s => ctlOut (newDeselectRsp ⟨h, false⟩ s) | _, _ => "bad-op")
      | ["linktestRsp", req] => (match hdrOfHex req with
        | some h => ctlOut (newLinktestRsp ⟨h, false⟩) | _ => "bad-op")
      | ["rejectReq", kind, hdr, reason] => (match msgOfParts kind hdr "-", byteOf reason with
        | some m, some r => ctlOut (.ok (newRejectReq m r)) | _, _ => "bad-op")
      | ["rejectRaw", sid, pt, stp, sys, reason] =>
        (match sid.toNat?, byteOf pt, byteOf stp, sysOfHex sys, byteOf reason with
        | some sid, some pt, some stp, some sys, some r => ctlOut (.ok (newRejectReqRaw sid pt stp sys r))
        | _, _, _, _, _ => "bad-op")
      | _ => "bad-op")
  | "hsms.decode" =>
    some (match args with
      | [h] => (match bytesOfHex h with
        | some bs => decodeOut (decodeHSMSMessage bs)
        | none => "bad-op")
      | _ => "bad-op")
  | "hsms.payload" =>
    some (match args with
      | [h] => (match bytesOfHex h with
        | some bs => decodeOut (decodeHSMSPayload bs)
        | none => "bad-op")
      | _ => "bad-op")
  | "hsms.stamp" =>
    some (match args with
      | kind :: hdr :: body :: stamps =>
        (match msgOfParts kind hdr body, stamps.mapM stampOfTok with
        | some m, some l => msgOut (m.stamps l)
        | _, _ => "bad-op")
      | _ => "bad-op")
  | "hsms.derive" =>
    some (match args with
      | [h] => (match bytesOfHex h with
        | some bs => (match decodeHSMSMessage bs with
          | .ok (.data d) => (match d.derive.build with
            | .ok m => "ok " ++ hexOfBytes (Msg.data m).toBytes
            | .error e => "err " ++ e.name)
          | _ => "bad-op")
        | none => "bad-op")
      | _ => "bad-op")
  | "hsms.stype" =>
    some (match args with
      | [n] => (match n.toNat? with
        | some n => toString (definedSType n)
        | none => "bad-op")
      | _ => "bad-op")
  | _ => none

/-! framing.run <t8> <cap> (<gap>:<chunk hex>)*
      → frames=<hex|hex…> drop=<none|kind> partial=<hex> started=<bool> alloc=<n> classes=<c[:reject hex],…>
    framing.classify <frame hex> → <class> <reject frame hex | -> -/

def eventOfTok (t : String) : Option Framing.Event :=
  match t.splitOn ":" with
  | [g, h] => do
    let g ← g.toNat?
    let bs ← bytesOfHex h
    pure ⟨g, bs⟩
  | _ => none

def classStr (f : Bytes) : String :=
  match Framing.classify f with
  | some c => c.name
  | none => "short"

/-- class, plus the Reject.req frame the receive path answers with (`name:hex`) for the reject classes. -/
def reactStr (f : Bytes) : String :=
  match Framing.classify f, Framing.rejectFor f with
  | some .rejectPType, some r | some .rejectSType, some r | some .rejectCtlBody, some r =>
    classStr f ++ ":" ++ hexOfBytes (Msg.control r).toBytes
  | _, _ => classStr f

def handleFraming (cmd : String) (args : List String) : Option String :=
  match cmd with
  | "framing.run" =>
    some (match args with
      | t8 :: cap :: evs =>
        (match t8.toNat?, cap.toNat?, evs.mapM eventOfTok with
        | some t8, some cap, some evs =>
          let o := (Framing.run t8 cap .init evs).obs
          let drop := match o.dropped with | some d => d.name | none => "none"
          let cls := ",".intercalate (o.frames.map reactStr)
          s!"frames={bufsStr o.frames} drop={drop} partial={hexOfBytes o.partialFrame} started={o.started} alloc={o.alloc} classes={cls}"
        | _, _, _ => "bad-op")
      | _ => "bad-op")
  | "framing.classify" =>
    some (match args with
      | [h] => (match bytesOfHex h with
        | some f =>
          let rj := match Framing.classify f, Framing.rejectFor f with
            | some .rejectPType, some r | some .rejectSType, some r | some .rejectCtlBody, some r =>
              hexOfBytes (Msg.control r).toBytes
            | _, _ => "-"
          s!"{classStr f} {rj}"
        | none => "bad-op")
      | _ => "bad-op")
  | _ => none

def handle (cmd : String) (args : List String) : Option String :=
  match handleHsms cmd args with
  | some r => some r
  | none => handleFraming cmd args

end GoSecs.Drv.Hsms
