/-
  Line-protocol handlers for the sml model (commands prefixed `sml.`).

  Item text: as in Drv/Secs2.  Oracle dictionary `<dict>` (DESIGN §4.4): `-` or comma-separated
  `key=value` entries computed by the Go standard library on the harness side:
    f4:<bits>=<hex text>   f8:<bits>=<hex text>      strconv.FormatFloat(v,'G',9|17,32|64)
    p4:<hex tok>=<bits>|x  p8:<hex tok>=<bits>|x      strconv.ParseFloat(tok,32|64)   (x = error)
    pi:<hex tok>=<int>|x   pu:<hex tok>=<nat>|x       strconv.ParseInt/ParseUint(tok,0,64)
    q:<hex s>=<hex text>                              strconv.Quote(s)
    uq:<hex body>=<hex text>|x                        strconv.Unquote("\"" + body + "\"")     (x = error)

  Commands
    sml.tosml  <dict> <item…>                                       -> hex
    sml.encode <strict> <aq> <sq> <bin> <indent hex> <dict> <item…> -> hex
    sml.encmsg <strict> <aq> <sq> <bin> <indent hex> <S> <F> <W> <dict> <item…> -> hex
    sml.parse  <strict> <all|one|hdr> <dict> <hex input>            -> <alloc> <depth> <result>
    sml.perr   <offset> <hex input>                                 -> <offset> <line> <col>
    sml.steps  <strict> <all|one|hdr> <dict> <hex input>            -> <steps>   (Model/SmlCost.lean)
  (strict/bin/W: 0|1;  aq/sq: d|s|n = the QuoteStyle passed to WithASCIIQuote / WithSFQuote)
-/
import GoSecs.Model.Sml
import GoSecs.Model.SmlCost
import GoSecs.Drv.Secs2
import Std.Data.HashMap

namespace GoSecs.Drv.Sml
open GoSecs GoSecs.Secs2 GoSecs.Sml

abbrev Dict := Std.HashMap String String

def parseDict (s : String) : Dict :=
  if s == "-" then {} else
  (s.splitOn ",").foldl (fun d e =>
    match e.splitOn "=" with
    | [k, v] => d.insert k v
    | _ => d) {}

/-- Bytes every strconv numeric parser accepts at most: digits, letters, `_ + - .`.  A token with
    any other byte is a syntax error for ParseInt/ParseUint/ParseFloat, so it needs no entry. -/
def plausibleNum (tok : Bytes) : Bool :=
  !tok.isEmpty && tok.all (fun c =>
    let n := c.toNat
    (48 ≤ n && n ≤ 57) || (65 ≤ n && n ≤ 90) || (97 ≤ n && n ≤ 122) || n == 95 || n == 43 || n == 45 || n == 46)

/-- The oracle read from the dictionary.  `poison`: what a parse lookup answers for a missing key
    (false: error, true: the value 0); `sml.parse` runs both and only answers when they agree. -/
def mkOracle (d : Dict) (poison : Bool) : Oracle where
  fmtF w b := match d.get? s!"f{w.bytes}:{b}" with
    | some h => (bytesOfHex h).getD [63, 63]
    | none => [63, 109, 105, 115, 115, 63]
  parseF w tok :=
    if !plausibleNum tok then none else
    match d.get? s!"p{w.bytes}:{hexOfBytes tok}" with
    | some v => v.toNat?
    | none => if poison then some 0 else none
  parseI tok :=
    if !plausibleNum tok then none else
    match d.get? s!"pi:{hexOfBytes tok}" with
    | some v => v.toInt?
    | none => if poison then some 0 else none
  parseU tok :=
    if !plausibleNum tok then none else
    match d.get? s!"pu:{hexOfBytes tok}" with
    | some v => v.toNat?
    | none => if poison then some 0 else none
  quote s := match d.get? s!"q:{hexOfBytes s}" with
    | some h => (bytesOfHex h).getD [63, 63]
    | none => [63, 109, 105, 115, 115, 63]
  unquote s := match d.get? s!"uq:{hexOfBytes s}" with
    | some h => if h == "x" then none else bytesOfHex h
    | none => if poison then some [63] else none

def quoteOfTok (s : String) : Option QuoteStyle :=
  if s == "d" then some .double else if s == "s" then some .single else if s == "n" then some .none else none

def boolOfTok (s : String) : Option Bool :=
  if s == "1" then some true else if s == "0" then some false else none

def mkOpts (strict aq sq bin ind : String) : Option Opts := do
  let strict ← boolOfTok strict
  let aq ← quoteOfTok aq
  let sq ← quoteOfTok sq
  let bin ← boolOfTok bin
  let ind ← bytesOfHex ind
  pure (withASCIIQuote aq ⟨strict, .double, sq, bin, ind⟩)

def showMsg (m : Msg) : String :=
  s!" | {m.s} {m.f} {if m.w then 1 else 0} " ++ Drv.Secs2.showItem m.body

def showRes : Res → String
  | .ok ms => s!"ok {ms.length}" ++ String.join (ms.map showMsg)
  | .noMessage => "nomsg"
  | .syntax p => s!"syn {p.offset} {p.line} {p.col}"
  | .plain => "plain"
  | .panic => "panic"

def showOut (o : Out) : String := s!"{o.alloc} {o.maxDepth} " ++ showRes o.res

def runParse (O : Oracle) (strict : Bool) (entry : String) (input : Bytes) : Option Out :=
  if entry == "all" then some (parseAll O strict input)
  else if entry == "one" then some (parseOne O strict false input)
  else if entry == "hdr" then some (parseOne O strict true input)
  else none

def runSteps (O : Oracle) (strict : Bool) (entry : String) (input : Bytes) : Option Nat :=
  if entry == "all" then some (parseAllC O strict input).2
  else if entry == "one" then some (parseOneC O strict false input).2
  else if entry == "hdr" then some (parseOneC O strict true input).2
  else none

def handle (cmd : String) (args : List String) : Option String :=
  match cmd with
  | "sml.tosml" =>
    some (match args with
      | d :: it => (match Drv.Secs2.parseWhole it with
        | some it => hexOfBytes (toSML (mkOracle (parseDict d) false) it)
        | none => "bad-op")
      | _ => "bad-op")
  | "sml.encode" =>
    some (match args with
      | st :: aq :: sq :: bin :: ind :: d :: it =>
        (match mkOpts st aq sq bin ind, Drv.Secs2.parseWhole it with
         | some o, some it => hexOfBytes (encodeItem (mkOracle (parseDict d) false) o 0 it)
         | _, _ => "bad-op")
      | _ => "bad-op")
  | "sml.encmsg" =>
    some (match args with
      | st :: aq :: sq :: bin :: ind :: s :: f :: w :: d :: it =>
        (match mkOpts st aq sq bin ind, s.toNat?, f.toNat?, boolOfTok w, Drv.Secs2.parseWhole it with
         | some o, some s, some f, some w, some it =>
           hexOfBytes (encodeMsg (mkOracle (parseDict d) false) o ⟨s, f, w, it⟩)
         | _, _, _, _, _ => "bad-op")
      | _ => "bad-op")
  | "sml.parse" =>
    some (match args with
      | [st, entry, d, h] =>
        (match boolOfTok st, bytesOfHex h with
         | some strict, some input =>
           let dict := parseDict d
           (match runParse (mkOracle dict false) strict entry input,
                  runParse (mkOracle dict true) strict entry input with
            | some a, some b =>
              let sa := showOut a
              if sa == showOut b then sa else "undetermined"
            | _, _ => "bad-op")
         | _, _ => "bad-op")
      | _ => "bad-op")
  | "sml.steps" =>
    some (match args with
      | [st, entry, d, h] =>
        (match boolOfTok st, bytesOfHex h with
         | some strict, some input =>
           let dict := parseDict d
           (match runSteps (mkOracle dict false) strict entry input,
                  runSteps (mkOracle dict true) strict entry input with
            | some a, some b => if a == b then toString a else "undetermined"
            | _, _ => "bad-op")
         | _, _ => "bad-op")
      | _ => "bad-op")
  | "sml.perr" =>
    some (match args with
      | [off, h] =>
        (match off.toNat?, bytesOfHex h with
         | some off, some input =>
           let p := newParseError input off
           s!"{p.offset} {p.line} {p.col}"
         | _, _ => "bad-op")
      | _ => "bad-op")
  | _ => none

end GoSecs.Drv.Sml
