/-
  Line-protocol handlers for the lifecycle model (commands prefixed `life.`).

    life.clamp <scaled> <ceil>                        → clampNext
    life.backoff <initial> (<scaled> <ceil>)*          → the sleeps of a reconnect run
    life.run <active|passive> <act>*                   → summary of the configuration after the actions
                                                         (`!` prefix on an action = it must be enabled)
    life.hist <active|passive> <obs>*                  → ok | reject <index> <obs>: is the observed
                                                         history a trace of the model (hidden actions
                                                         closed nondeterministically)?
  Action tokens: openEnter.wait openEnter.bg openArm openStartOk openStartFail openColdDone
    openRollbackEpoch openRollbackDone openWaitRet.sel|ctx|done closeEnter closeRequest closeEpochDone
    closeSupDone closeLoopsDone supStep reactCheck reactSpawn reactTeardown closeTeardown supExit
    joinSeal:<e> joinStop:<e> joinDone:<e> loopWake:<i> loopSleep:<i> loopFence:<i> loopPublish:<i>
    loopStartOk:<i> loopStartFail:<i> loopFailDone:<i> envAccept envSelected envSelectLost envDown envT7
-/
import GoSecs.Model.Lifecycle
import Std.Data.HashSet

namespace GoSecs.Drv.Lifecycle
open GoSecs.Lifecycle

def parseAct (t : String) : Option Act :=
  match t.splitOn ":" with
  | [name] =>
    match name with
    | "openEnter.wait" => some (.openEnter .wait)
    | "openEnter.bg" => some (.openEnter .background)
    | "openArm" => some .openArm
    | "openStartOk" => some .openStartOk
    | "openStartFail" => some .openStartFail
    | "openColdDone" => some .openColdDone
    | "openRollbackEpoch" => some .openRollbackEpoch
    | "openRollbackDone" => some .openRollbackDone
    | "openWaitRet.sel" => some (.openWaitRet .selected)
    | "openWaitRet.ctx" => some (.openWaitRet .ctxDone)
    | "openWaitRet.done" => some (.openWaitRet .epochDone)
    | "closeEnter" => some .closeEnter
    | "closeRequest" => some .closeRequest
    | "closeEpochDone" => some .closeEpochDone
    | "closeSupDone" => some .closeSupDone
    | "closeLoopsDone" => some .closeLoopsDone
    | "supStep" => some .supStep
    | "reactCheck" => some .reactCheck
    | "reactSpawn" => some .reactSpawn
    | "reactTeardown" => some .reactTeardown
    | "closeTeardown" => some .closeTeardown
    | "supExit" => some .supExit
    | "envAccept" => some .envAccept
    | "envSelected" => some .envSelected
    | "envSelectLost" => some .envSelectLost
    | "envDown" => some .envDown
    | "envT7" => some .envT7
    | _ => none
  | [name, n] => do
    let n ← n.toNat?
    match name with
    | "joinSeal" => some (.joinSeal n)
    | "joinStop" => some (.joinStop n)
    | "joinDone" => some (.joinDone n)
    | "loopWake" => some (.loopWake n)
    | "loopSleep" => some (.loopSleep n)
    | "loopFence" => some (.loopFence n)
    | "loopPublish" => some (.loopPublish n)
    | "loopStartOk" => some (.loopStartOk n)
    | "loopStartFail" => some (.loopStartFail n)
    | "loopFailDone" => some (.loopFailDone n)
    | _ => none
  | _ => none

def stStr : St → String
  | .nc => "NC" | .ns => "NS" | .sel => "S"

def b01 (b : Bool) : String := if b then "1" else "0"

def liveLoops (c : Cfg) : Nat := (c.loops.filter (fun l => l.pc != .exited)).length

def undone (c : Cfg) : Nat := (c.epochs.filter (fun e => e.published && e.phase != .done)).length

def apiIdle (c : Cfg) : Bool := c.api == .idle

def supExited (c : Cfg) : Bool := (c.sup.map (·.pc == .exited)).getD false

/-- One-line summary compared with the implementation's observable state. -/
def summary (c : Cfg) : String :=
  s!"st={stStr (supSt c)} idle={b01 (apiIdle c)} shutdown={b01 c.shutdown} dials={c.dials} " ++
  s!"reconnects={c.reconnects} liveloops={liveLoops c} undone={undone c} owner={b01 c.tr.owner.isSome} " ++
  s!"sup={if c.sup.isNone then "none" else if supExited c then "exited" else "run"} epochs={c.epochs.length}"

def roleOf (t : String) : Option Bool :=
  if t == "active" then some true else if t == "passive" then some false else none

/-- Run a scripted action list; `!act` requires `act` to be enabled. -/
def runScript (c : Cfg) : List String → Except String Cfg
  | [] => .ok c
  | t :: ts =>
    let must := t.startsWith "!"
    let name := if must then (t.drop 1).toString else t
    match parseAct name with
    | none => .error s!"bad-act {name}"
    | some a =>
      match step? c a with
      | some c' => runScript c' ts
      | none => if must then .error s!"disabled {name}" else runScript c ts

/-! ### History acceptance

  Observations (what the harness can see from outside, in a total order taken under its own lock):
    call.open.wait:<t> call.open.bg:<t> call.close:<t>     an API call starts on harness goroutine t
    ret.open.ok:<t> ret.open.already:<t> ret.open.err:<t> ret.open.waiterr:<t>
    ret.close.ok:<t> ret.close.notopen:<t>                an API call returns
    dial.ok dial.fail                                      the harness-owned dialer/listener factory
                                                           was invoked and gave this outcome
    accept                                                 (passive) the peer connected to the listener
    drop                                                   the harness cut the current link
  Everything else is hidden: between two observations the model may take any hidden actions.
  A `ret` must be produced by the api thread that belongs to caller t.
-/

structure HState where
  c : Cfg
  /-- queued callers: (tid, isOpen, mode, mask). `mask` collects the EFFECT-FREE results this call could
      have returned at some moment since it was issued (lock free, result available):
      1 = open.already, 2 = close.notopen, 4 = close.ok (idempotent re-close). Such a call changes
      nothing, so it is linearised lazily at its `ret` instead of being branched on eagerly. -/
  pending : List (Nat × Bool × Mode × Nat)
  owner : Option (Nat × Bool)            -- the caller currently inside lifeMu: (tid, isOpen)
  /-- results already determined but not yet observed: (tid, result token) -/
  rets : List (Nat × String)
  drops : Nat                            -- link cuts not yet turned into a TCPDown
  free : Bool := false                   -- C10 mode: the link may fail at any time (no cut credits needed)
  deriving DecidableEq, Hashable, Inhabited

/-! Reductions used only by the history checker (not by the model or the theorems).  Each keeps the
    set of observable traces unchanged:
    * exited loops are dropped (nothing refers to a loop by index except actions);
    * `reconnectGen` is renormalised (only equality with a loop's captured value is ever tested);
    * a stopped supervisor's leftovers (queue, latch, pinned epoch) are cleared (nothing reads them);
    * the three join steps of a torn-down epoch run as one hidden step: `joinStop`/`joinDone` only
      enable other actions or clear transport ownership that a sealed gate has already made unusable,
      so every run can be reordered to take them right after `joinSeal`. -/
def canon (c : Cfg) : Cfg :=
  let loops := (c.loops.filter (fun l => l.pc != .exited)).map
    (fun l => { l with gen := if l.gen = c.gen then 1 else 0, k := 0 })
  let sup := c.sup.map fun s =>
    if s.pc = .exited then { st := s.st, pc := .exited, stopReq := true } else s
  { c with loops := loops, gen := 1, sup := sup, reconnects := 0, dials := 0 }

def joinChain (c : Cfg) (e : Nat) : Option Cfg := do
  let c1 ← step? c (.joinSeal e)
  let c2 ← step? c1 (.joinStop e)
  step? c2 (.joinDone e)

def hiddenActs (c : Cfg) : List Act :=
  [.openArm, .openColdDone, .openRollbackEpoch, .openRollbackDone,
   .closeRequest, .closeEpochDone, .closeSupDone, .closeLoopsDone,
   .supStep, .reactCheck, .reactSpawn, .reactTeardown, .closeTeardown, .supExit,
   .envSelected, .envSelectLost, .envAccept]
  ++ (List.range c.loops.length).flatMap (fun i =>
        [.loopWake i, .loopSleep i, .loopFence i, .loopPublish i, .loopFailDone i])

def insPending (p : Nat × Bool × Mode × Nat) : List (Nat × Bool × Mode × Nat) → List (Nat × Bool × Mode × Nat)
  | [] => [p]
  | q :: qs => if p.1 ≤ q.1 then p :: q :: qs else q :: insPending p qs

def insRet (p : Nat × String) : List (Nat × String) → List (Nat × String)
  | [] => [p]
  | q :: qs => if p.1 ≤ q.1 then p :: q :: qs else q :: insRet p qs

/-- The result token of an api action that returns to its caller, if it does. -/
def retOf (c c' : Cfg) (a : Act) : Option String :=
  if c'.api != .idle then none else
  match a with
  | .openEnter _ => if c.api == .idle then some "open.already" else none
  | .openStartOk => some "open.ok"
  | .openColdDone => some "open.ok"
  | .openRollbackDone => some "open.err"
  | .openWaitRet .selected => some "open.ok"
  | .openWaitRet _ => some "open.waiterr"
  | .closeEnter => if c.cur.isNone then some "close.notopen" else some "close.ok"
  | .closeLoopsDone => some "close.ok"
  | _ => none

/-- Apply an api action on behalf of the lock owner, recording a return if it returns. -/
def applyApi (h : HState) (a : Act) : Option HState :=
  match step? h.c a, h.owner with
  | some c', some (t, _) =>
    match retOf h.c c' a with
    | some r => some { h with c := canon c', owner := none, rets := insRet (t, r) h.rets }
    | none => some { h with c := canon c' }
  | _, _ => none

/-- The effect-free result (as a mask bit) a call would get if it took the free lock right now. -/
def noopBit (c : Cfg) (isOpen : Bool) : Nat :=
  if c.api != .idle then 0 else
  if isOpen then (if c.sup.isSome && !c.shutdown then 1 else 0)
  else match c.cur, c.sup with
    | none, _ => 2
    | some e, some s => if s.pc == .exited && isDone c e then 4 else 0
    | _, _ => 0

def refresh (h : HState) : HState :=
  if h.owner.isSome then h else
  { h with pending := h.pending.map fun (t, isOpen, m, mask) => (t, isOpen, m, mask ||| noopBit h.c isOpen) }

def maskOfTok (tok : String) : Nat :=
  if tok == "open.already" then 1 else if tok == "close.notopen" then 2 else if tok == "close.ok" then 4 else 0

/-- One hidden move. -/
def hiddenSucc (h : HState) : List HState :=
  -- (a) a queued caller takes lifeMu (only calls that have an effect; effect-free ones are lazy)
  let enters := if h.owner.isSome then [] else
    h.pending.filterMap fun p =>
      let (t, isOpen, m, _) := p
      let a : Act := if isOpen then .openEnter m else .closeEnter
      if noopBit h.c isOpen != 0 then none else
      let h1 := { h with pending := h.pending.erase p, owner := some (t, isOpen) }
      applyApi h1 a
  -- (b) library-internal actions
  let internal := (hiddenActs h.c).filterMap fun a =>
    match a with
    | .openArm | .openColdDone | .openRollbackEpoch | .openRollbackDone
    | .closeRequest | .closeEpochDone | .closeSupDone | .closeLoopsDone => applyApi h a
    | _ => (step? h.c a).map fun c' => { h with c := canon c' }
  let joins := (List.range h.c.epochs.length).filterMap fun e =>
    (joinChain h.c e).map fun c' => { h with c := canon c' }
  -- (c) OpenWaitSelected returning
  let waits := [WaitRes.selected, .ctxDone, .epochDone].filterMap fun r => applyApi h (.openWaitRet r)
  -- (d) a cut link (or any transport timer) surfaces as TCPDown / T7 while a generation is registered
  let downs := if h.drops > 0 then
      ([Act.envDown, .envT7].filterMap fun a => (step? h.c a).map fun c' => { h with c := c', drops := h.drops - 1 })
    else []
  let frees := if h.free && ((h.c.sup.map (·.queue.isEmpty)).getD false) then
      ((step? h.c .envDown).map fun c' => { h with c := c' }).toList
    else []
  (enters ++ internal ++ joins ++ waits ++ downs ++ frees).map refresh

def boundedH (h : HState) : Bool :=
  ((h.c.sup.map (·.queue.length)).getD 0) ≤ 6

partial def closure (work : List HState) (seen : Std.HashSet HState) : Std.HashSet HState :=
  match work with
  | [] => seen
  | h :: rest =>
    let (work', seen') := (hiddenSucc h).foldl (init := (rest, seen)) fun (w, s) h' =>
      if s.contains h' || !boundedH h' then (w, s) else (h' :: w, s.insert h')
    closure work' seen'

def tidOf (s : String) : Option Nat := s.toNat?

/-- Successors of one state under one observation (after hidden closure has been applied). -/
def observe (h : HState) (obs : String) : List HState :=
  match obs.splitOn ":" with
  | ["call.open.wait", t] => (tidOf t).toList.map fun t => refresh { h with pending := insPending (t, true, .wait, 0) h.pending }
  | ["call.open.bg", t] => (tidOf t).toList.map fun t => refresh { h with pending := insPending (t, true, .background, 0) h.pending }
  | ["call.close", t] => (tidOf t).toList.map fun t => refresh { h with pending := insPending (t, false, .wait, 0) h.pending }
  | ["dial.ok"] =>
    (((List.range h.c.loops.length).filterMap fun i => (step? h.c (.loopStartOk i)).map fun c' => { h with c := canon c' })
      ++ (applyApi h .openStartOk).toList)
  | ["dial.fail"] =>
    (((List.range h.c.loops.length).filterMap fun i => (step? h.c (.loopStartFail i)).map fun c' => { h with c := canon c' })
      ++ (applyApi h .openStartFail).toList)
  | ["accept"] => ((step? h.c .envAccept).map fun c' => { h with c := c' }).toList
  | ["drop"] => [{ h with drops := h.drops + 1 }]
  | [r, t] =>
    if r.startsWith "ret." then
      match tidOf t with
      | some t =>
        let tok := (r.drop 4).toString
        let eager := if h.rets.contains (t, tok) then [{ h with rets := h.rets.erase (t, tok) }] else []
        let lazy := h.pending.filterMap fun p =>
          if p.1 == t && (p.2.2.2 &&& maskOfTok tok) != 0 then some { h with pending := h.pending.erase p } else none
        eager ++ lazy
      | none => []
    else []
  | _ => []

def histLoop (states : Std.HashSet HState) (i : Nat) : List String → String
  | [] => s!"ok {states.size}"
  | o :: os =>
    let cl := closure states.toList states
    let next := cl.fold (init := (Std.HashSet.emptyWithCapacity : Std.HashSet HState)) fun acc h =>
      (observe h o).foldl (fun acc h' => acc.insert (refresh h')) acc
    if next.isEmpty then s!"reject {i} {o}" else histLoop next (i+1) os

def handle (cmd : String) (args : List String) : Option String :=
  match cmd with
  | "life.clamp" =>
    some (match args with
      | [s, c] => (match s.toInt?, c.toInt? with
        | some s, some c => toString (clampNext s c)
        | _, _ => "bad-op")
      | _ => "bad-op")
  | "life.backoff" =>
    some (match args with
      | i :: rest =>
        (match i.toInt?, rest.mapM String.toInt? with
         | some i, some vs =>
           let rec pairs : List Int → Option (List (Int × Int))
             | [] => some []
             | [_] => none
             | a :: b :: r => (pairs r).map ((a, b) :: ·)
           (match pairs vs with
            | some ps => " ".intercalate ((backoffRun i ps).map toString)
            | none => "bad-op")
         | _, _ => "bad-op")
      | _ => "bad-op")
  | "life.run" =>
    some (match args with
      | r :: acts =>
        (match roleOf r with
         | some active =>
           (match runScript (init active) acts with
            | .ok c => summary c
            | .error e => "err " ++ e)
         | none => "bad-op")
      | _ => "bad-op")
  | "life.hist" =>
    some (match args with
      | r :: obs =>
        (match roleOf r with
         | some active =>
           let free := obs.head? == some "+freefail"
           let obs := if free then obs.drop 1 else obs
           let h0 : HState := { c := init active, pending := [], owner := none, rets := [], drops := 0, free := free }
           histLoop ((Std.HashSet.emptyWithCapacity : Std.HashSet HState).insert h0) 0 obs
         | none => "bad-op")
      | _ => "bad-op")
  | _ => none

end GoSecs.Drv.Lifecycle
