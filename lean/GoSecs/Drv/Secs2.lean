/-
  Line-protocol handlers for the secs2 model.

  Item text (space-separated tokens):
    E | L n child*n | B hex | O hex | A hex | J hex | W lsh hex
    | I<w> n v* | U<w> n v* | F<w> n bits*          (hex "-" = empty; F elements: decimal bits or "nan")
-/
import GoSecs.Model.Secs2

namespace GoSecs.Drv.Secs2
open GoSecs GoSecs.Secs2

def widthOfTok (s : String) : Option Width :=
  if s == "1" then some .w1 else if s == "2" then some .w2 else if s == "4" then some .w4
  else if s == "8" then some .w8 else none

def takeN {α} (f : String → Option α) : Nat → List String → Option (List α × List String)
  | 0, ts => some ([], ts)
  | _+1, [] => none
  | n+1, t :: ts => do
    let v ← f t
    let (vs, r) ← takeN f n ts
    pure (v :: vs, r)

def floatTok (w : FWidth) (s : String) : Option Nat :=
  if s == "nan" then some (match w with | .f4 => 0x7fc00000 | .f8 => 0x7ff8000000000000) else s.toNat?

mutual
def parseItem : Nat → List String → Option (Item × List String)
  | 0, _ => none
  | fuel+1, ts =>
    match ts with
    | [] => none
    | "E" :: r => some (.empty, r)
    | "L" :: n :: r => do
      let n ← n.toNat?
      let (cs, r') ← parseItems fuel n r
      pure (.list cs, r')
    | "B" :: h :: r => do pure (.binary (← bytesOfHex h), r)
    | "O" :: h :: r => do pure (.boolean ((← bytesOfHex h).map (· != 0)), r)
    | "A" :: h :: r => do pure (.ascii (← bytesOfHex h), r)
    | "J" :: h :: r => do pure (.jis8 (← bytesOfHex h), r)
    | "W" :: l :: h :: r => do pure (.lstr (← l.toNat?) (← bytesOfHex h), r)
    | t :: n :: r =>
      if t.startsWith "I" then do
        let w ← widthOfTok (t.drop 1).toString
        let (vs, r') ← takeN String.toInt? (← n.toNat?) r
        pure (.int w vs, r')
      else if t.startsWith "U" then do
        let w ← widthOfTok (t.drop 1).toString
        let (vs, r') ← takeN String.toNat? (← n.toNat?) r
        pure (.uint w vs, r')
      else if t == "F4" then do
        let (vs, r') ← takeN (floatTok .f4) (← n.toNat?) r
        pure (.float .f4 vs, r')
      else if t == "F8" then do
        let (vs, r') ← takeN (floatTok .f8) (← n.toNat?) r
        pure (.float .f8 vs, r')
      else none
    | _ => none
def parseItems : Nat → Nat → List String → Option (List Item × List String)
  | 0, _, _ => none
  | _+1, 0, ts => some ([], ts)
  | fuel+1, n+1, ts => do
    let (c, r) ← parseItem fuel ts
    let (cs, r') ← parseItems fuel n r
    pure (c :: cs, r')
end

def natsStr (vs : List Nat) : String := " ".intercalate (vs.map toString)

def floatStr (w : FWidth) (b : Nat) : String :=
  match w with
  | .f4 => if isNaN32 b then "nan" else toString b
  | .f8 => if isNaN64 b then "nan" else toString b

def sp (s : String) : String := if s.isEmpty then "" else " " ++ s

mutual
def showItem : Item → String
  | .empty => "E"
  | .list cs => s!"L {cs.length}" ++ showItems cs
  | .binary bs => "B " ++ hexOfBytes bs
  | .boolean vs => "O " ++ hexOfBytes (vs.map boolByte)
  | .ascii bs => "A " ++ hexOfBytes bs
  | .jis8 bs => "J " ++ hexOfBytes bs
  | .lstr l bs => s!"W {l} " ++ hexOfBytes bs
  | .int w vs => s!"I{w.bytes} {vs.length}" ++ sp (" ".intercalate (vs.map toString))
  | .uint w vs => s!"U{w.bytes} {vs.length}" ++ sp (natsStr vs)
  | .float w vs => s!"F{w.bytes} {vs.length}" ++ sp (" ".intercalate (vs.map (floatStr w)))
def showItems : List Item → String
  | [] => ""
  | c :: cs => " " ++ showItem c ++ showItems cs
end

def parseWhole (ts : List String) : Option Item :=
  match parseItem (ts.length + 1) ts with
  | some (it, []) => some it
  | _ => none

def splitBar (ts : List String) : List String × List String :=
  (ts.takeWhile (· != "|"), (ts.dropWhile (· != "|")).drop 1)

def handle (cmd : String) (args : List String) : Option String :=
  match cmd with
  | "secs2.enc" =>
    some (match parseWhole args with
      | none => "bad-op"
      | some it => s!"{hexOfBytes (enc it)} {encodedLen it}")
  | "secs2.dec" =>
    some (match args with
      | [h] => (match bytesOfHex h with
        | none => "bad-op"
        | some bs => match decode bs with
          | .error e => "err " ++ e.name
          | .ok (it, n) => s!"ok {n} " ++ showItem it)
      | _ => "bad-op")
  | "secs2.header" =>
    some (match args with
      | [fc, n] => (match fc.toNat?, n.toNat? with
        | some fc, some n => hexOfBytes (header fc n)
        | _, _ => "bad-op")
      | _ => "bad-op")
  | "secs2.equal" =>
    let (a, b) := splitBar args
    some (match parseWhole a, parseWhole b with
      | some x, some y => toString (equalItem x y)
      | _, _ => "bad-op")
  | _ => none

end GoSecs.Drv.Secs2
