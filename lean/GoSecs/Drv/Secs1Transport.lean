/-
  Line-protocol handler for the SECS-I transport model (C09 / C20 on SECS-I connections).

  s1t.replay <tok>*      replay a linearised history of one SECS-I endpoint; every action must be enabled
      tokens:  pub | up | sp:g | sel:0|1 | pd:g | cn:g | ss:g | sd:g | jn:g | cx:i
               b:i:s|f|a:n | p:i | g:i | q:i:r|c|x | lk:i | ck:i | ld:i | tk:i | bl:i | rs:i | ul:i | ii:i | d:i:r|t|c|x | di:i
               xm:g:0|1 | fn:g:ok|sf|ab|io | rx:g:D|X|F0|F1|C0|C1 | rt:g | ex:g
               snap            (not an action: emits a metrics snapshot at this point)
      answer:  ok|disabled@k|bad-token@k  M=sent,recv,inflight,err,drop,asyncErr  B=blockSend,blockRecv,blockRetry,blockSendFailed
               O=i>outcome,...  W=sock>src>acked,...  D=gen>cur>nblocks>inSend,...  E=g>engine,...  S=snapshots;..  P=failed-predicates
-/
import GoSecs.Model.Secs1Transport

namespace GoSecs.Drv.Secs1Transport
open GoSecs GoSecs.S1T

def nat? (s : String) : Option Nat := s.toNat?
def bool? (s : String) : Option Bool := if s == "1" then some true else if s == "0" then some false else none

def kind? (s : String) : Option Kind :=
  if s == "s" then some .sync else if s == "f" then some .ff else if s == "a" then some .async else none

def choice? (s : String) : Option Choice :=
  if s == "r" then some .recv else if s == "t" then some .timer else if s == "c" then some .closed
  else if s == "x" then some .ctx else none

def wres? (s : String) : Option WRes :=
  if s == "ok" then some .ok else if s == "sf" then some .sendFailed else if s == "ab" then some .aborted
  else if s == "io" then some .ioErr else none

def asm? (s : String) : Option Asm :=
  if s == "D" then some .drop else if s == "X" then some .discard else if s == "F0" then some (.first false)
  else if s == "F1" then some (.first true) else if s == "C0" then some (.cont false) else if s == "C1" then some (.cont true)
  else none

inductive Cmd where
  | act (a : Action)
  | snap

def parseTok (t : String) : Option Cmd :=
  match t.splitOn ":" with
  | ["snap"] => some .snap
  | ["pub"] => some (.act .publish)
  | ["up"] => some (.act .connUp)
  | ["sp", g] => do pure (.act (.spawn (← nat? g)))
  | ["sel", b] => do pure (.act (.setSelected (← bool? b)))
  | ["pd", g] => do pure (.act (.peerDrop (← nat? g)))
  | ["cn", g] => do pure (.act (.cancel (← nat? g)))
  | ["ss", g] => do pure (.act (.stopSeal (← nat? g)))
  | ["sd", g] => do pure (.act (.stopDone (← nat? g)))
  | ["jn", g] => do pure (.act (.join (← nat? g)))
  | ["cx", i] => do pure (.act (.ctxCancel (← nat? i)))
  | ["b", i, k, n] => do pure (.act (.begin (← nat? i) (← kind? k) (← nat? n)))
  | ["p", i] => do pure (.act (.pin (← nat? i)))
  | ["g", i] => do pure (.act (.gate (← nat? i)))
  | ["q", i, ch] => do pure (.act (.enqueue (← nat? i) (← choice? ch)))
  | ["lk", i] => do pure (.act (.lock (← nat? i)))
  | ["ck", i] => do pure (.act (.check (← nat? i)))
  | ["ld", i] => do pure (.act (.load (← nat? i)))
  | ["tk", i] => do pure (.act (.take (← nat? i)))
  | ["bl", i] => do pure (.act (.bail (← nat? i)))
  | ["rs", i] => do pure (.act (.result (← nat? i)))
  | ["ul", i] => do pure (.act (.unlock (← nat? i)))
  | ["ii", i] => do pure (.act (.incInflight (← nat? i)))
  | ["d", i, ch] => do pure (.act (.decide (← nat? i) (← choice? ch)))
  | ["di", i] => do pure (.act (.decInflight (← nat? i)))
  | ["xm", g, ak] => do pure (.act (.xmit (← nat? g) (← bool? ak)))
  | ["fn", g, r] => do pure (.act (.finish (← nat? g) (← wres? r)))
  | ["rx", g, a] => do pure (.act (.rx (← nat? g) (← asm? a)))
  | ["rt", g] => do pure (.act (.ret (← nat? g)))
  | ["ex", g] => do pure (.act (.exit (← nat? g)))
  | _ => none

def showOutcome : Outcome → String
  | .reply => "reply" | .timeout => "timeout" | .closed => "closed" | .ctx => "ctx" | .notOpen => "notopen"
  | .notSelected => "notselected" | .sendFailed => "sendfailed" | .aborted => "aborted" | .ioErr => "ioerr" | .sent => "sent"

def showEng : Eng → String
  | .notStarted => "none" | .idle => "idle" | .sending i => s!"send{i}" | .handler none => "handler"
  | .handler (some i) => s!"handler{i}" | .exited => "exited"

def showMetrics (m : Metrics) : String := s!"{m.sent},{m.recv},{m.inflight},{m.err},{m.drop},{m.asyncErr}"
def showBlocks (m : Metrics) : String := s!"{m.blockSend},{m.blockRecv},{m.blockRetry},{m.blockSendFailed}"

def join (xs : List String) : String := if xs.isEmpty then "-" else ",".intercalate xs

def senderIds : List Cmd → List Nat
  | [] => []
  | .act (.begin i _ _) :: r => i :: senderIds r
  | _ :: r => senderIds r

def optNat : Option Nat → String
  | none => "-"
  | some n => toString n

/-! Property predicates evaluated on the replayed configuration (the theorems in Props/C09, C20 — sections "SECS-I transport" —
    say these can never fail on a reachable configuration). -/
def predicates (c : Cfg) (ids : List Nat) : List String :=
  let ws := ids.map (fun i => (i, c.s i))
  let p1 := c.wire.all (fun ev => ev.sock == (c.s ev.src).ep)
  let p2 := c.deliv.all (fun d => d.cur == some d.gen && d.blocks.all (· == d.gen))
  let p3 := c.m.inflight == ((ws.filter (fun (_, w) => w.pc == .waiting || w.pc == .decided)).length : Int)
  let p4 := c.m.sent == (ws.filter (fun (_, w) => w.wres == some .ok && decide (10 ≤ w.pc.rank))).length
  let p5 := c.m.recv == c.deliv.length && c.m.blockRecv == c.rxlog.length
  let p6 := c.m.blockSend + c.m.blockRetry == c.wire.length
  let p7 := ws.all (fun (i, w) => !(w.wres == some .ok) ||
    (c.wire.filter (fun ev => ev.src == i && ev.acked)).length == w.nblk)
  (if p1 then [] else ["block_goes_out_on_pinned_generation"]) ++
  (if p2 then [] else ["delivered_message_read_on_current_generation"]) ++
  (if p3 then [] else ["inflight_eq_waiting_senders"]) ++ (if p4 then [] else ["sent_eq_writes_returned_ok"]) ++
  (if p5 then [] else ["recv_eq_delivered_messages"]) ++ (if p6 then [] else ["retransmission_not_counted_twice"]) ++
  (if p7 then [] else ["counted_send_fully_acked_once"])

def runCmds (c : Cfg) (n : Nat) (snaps : List String) : List Cmd → Cfg × Option Nat × List String
  | [] => (c, none, snaps.reverse)
  | .snap :: r => runCmds c (n + 1) (showMetrics c.m :: snaps) r
  | .act a :: r => if enabled c a then runCmds (apply c a) (n + 1) snaps r else (c, some n, snaps.reverse)

def parseAll (n : Nat) : List String → Except Nat (List Cmd)
  | [] => .ok []
  | t :: ts => match parseTok t with
    | none => .error n
    | some cmd => do
      let r ← parseAll (n + 1) ts
      pure (cmd :: r)

def summary (c : Cfg) (ids : List Nat) (status : String) (snaps : List String) : String :=
  let outs := ids.map (fun i => s!"{i}>" ++ (match (c.s i).out with
    | some o => (if (c.s i).pc = .done || (c.s i).kind = .async then "" else "~") ++ showOutcome o
    | none => "none"))
  let wire := c.wire.reverse.map (fun ev => s!"{ev.sock}>{ev.src}>{if ev.acked then 1 else 0}")
  let dl := c.deliv.reverse.map (fun d => s!"{d.gen}>{optNat d.cur}>{d.blocks.length}>{optNat d.inSend}")
  let en := (List.range c.nGens).map (fun g => s!"{g}>{showEng (c.g g).eng}")
  let ps := predicates c ids
  s!"{status} M={showMetrics c.m} B={showBlocks c.m} O={join outs} W={join wire} D={join dl} E={join en} S={if snaps.isEmpty then "-" else ";".intercalate snaps} P={join ps}"

def handle (cmd : String) (args : List String) : Option String :=
  match cmd with
  | "s1t.replay" =>
    some (match parseAll 0 args with
      | .error n => s!"bad-token@{n}"
      | .ok cmds =>
        let ids := senderIds cmds
        let (c, dis, snaps) := runCmds init 0 [] cmds
        summary c ids (match dis with | none => "ok" | some n => s!"disabled@{n}") snaps)
  | _ => none

end GoSecs.Drv.Secs1Transport
