/-
  Line-protocol handlers for the router model (C06 / C20 / C09).

  router.replay <tok>*      replay a linearised history; every action must be enabled
      tokens:  pub | up | sel:0|1 | td:e | jn:e | ls | le | ah | cn:i
               b:i:s|f|a|c | p:i | g:i | r:i | wc:i | w:i:0|1 | ii:i | d:i:r|t|c|x | di:i | dr:i | q:i:r|c|x
               dn:e:0|1 | rv:e:D:fid:sb:fn:w | rv:e:C:fid:sb:st | rv:e:R:fid:sb:reason | rv:e:B:fid | rv:e:F:fid (foreign-session data frame)
               snap            (not an action: emits a metrics snapshot at this point)
      answer:  ok|disabled@k|bad-token@k  M=sent,recv,inflight,err,drop,asyncErr,retry  REG=n
               O=i>outcome,...  W=sock>src>sb,...  H=fid>n,...  D=fid>recipient,...  S=snapshots;..  P=failed-predicates
  router.secondary w fn     isSecondaryReply
  router.next n             system bytes produced by the (n)th draw
-/
import GoSecs.Model.Router

namespace GoSecs.Drv.Router
open GoSecs GoSecs.Router

def nat? (s : String) : Option Nat := s.toNat?
def bool? (s : String) : Option Bool := if s == "1" then some true else if s == "0" then some false else none

def kind? (s : String) : Option Kind :=
  if s == "s" then some .sync else if s == "f" then some .ff else if s == "a" then some .async
  else if s == "c" then some .ctrl else none

def choice? (s : String) : Option Choice :=
  if s == "r" then some .recv else if s == "t" then some .timer else if s == "c" then some .closed
  else if s == "x" then some .ctx else none

inductive Cmd where
  | act (a : Action)
  | snap

def parseTok (t : String) : Option Cmd :=
  match t.splitOn ":" with
  | ["snap"] => some .snap
  | ["pub"] => some (.act .publish)
  | ["up"] => some (.act .connUp)
  | ["sel", b] => do pure (.act (.setSelected (← bool? b)))
  | ["td", e] => do pure (.act (.teardown (← nat? e)))
  | ["jn", e] => do pure (.act (.join (← nat? e)))
  | ["ls"] => some (.act .loopStart)
  | ["le"] => some (.act .loopEnd)
  | ["ah"] => some (.act .addHandler)
  | ["cn", i] => do pure (.act (.cancel (← nat? i)))
  | ["b", i, k] => do pure (.act (.begin (← nat? i) (← kind? k)))
  | ["p", i] => do pure (.act (.pin (← nat? i)))
  | ["g", i] => do pure (.act (.gate (← nat? i)))
  | ["r", i] => do pure (.act (.register (← nat? i)))
  | ["wc", i] => do pure (.act (.wcheck (← nat? i)))
  | ["w", i, ok] => do pure (.act (.write (← nat? i) (← bool? ok)))
  | ["ii", i] => do pure (.act (.incInflight (← nat? i)))
  | ["d", i, ch] => do pure (.act (.decide (← nat? i) (← choice? ch)))
  | ["di", i] => do pure (.act (.decInflight (← nat? i)))
  | ["dr", i] => do pure (.act (.deregister (← nat? i)))
  | ["q", i, ch] => do pure (.act (.enqueue (← nat? i) (← choice? ch)))
  | ["dn", e, ok] => do pure (.act (.drain (← nat? e) (← bool? ok)))
  | ["rv", e, "D", fid, sb, fn, w] => do
    pure (.act (.recv (← nat? e) (.data (← nat? fid) (← nat? sb) (← nat? fn) (← bool? w))))
  | ["rv", e, "C", fid, sb, st] => do pure (.act (.recv (← nat? e) (.ctrlRsp (← nat? fid) (← nat? sb) (← nat? st))))
  | ["rv", e, "R", fid, sb, r] => do pure (.act (.recv (← nat? e) (.reject (← nat? fid) (← nat? sb) (← nat? r))))
  | ["rv", e, "B", fid] => do pure (.act (.recv (← nat? e) (.bad (← nat? fid))))
  | ["rv", e, "F", fid] => do pure (.act (.recv (← nat? e) (.foreign (← nat? fid))))
  | _ => none

def showOutcome : Outcome → String
  | .reply fid sb fn w => s!"reply:{fid}:{sb}:{fn}:{if w then 1 else 0}"
  | .ctrlReply fid sb st => s!"ctrlreply:{fid}:{sb}:{st}"
  | .nilnil fid => s!"nilnil:{fid}"
  | .reject r => s!"reject:{r}"
  | .timeout => "timeout"
  | .closed => "closed"
  | .ctx => "ctx"
  | .notOpen => "notopen"
  | .notSelected => "notselected"
  | .writeErr => "writeerr"
  | .sent => "sent"

def showRecipient : Recipient → String
  | .sender i => s!"s{i}"
  | .dupDrop i => s!"dup{i}"
  | .lateDrop i => s!"late{i}"
  | .handlers n => s!"h{n}"
  | .tornDown => "torn"
  | .notSelected => "notsel"
  | .orphanCtrl => "orphanctrl"
  | .orphanReject => "orphanrej"
  | .foreignSession => "foreign"
  | .malformed => "bad"

def showMetrics (m : Metrics) : String :=
  s!"{m.sent},{m.recv},{m.inflight},{m.err},{m.drop},{m.asyncErr},{m.retry}"

def join (xs : List String) : String := if xs.isEmpty then "-" else ",".intercalate xs

/-- sender ids mentioned by `begin` actions, in order -/
def senderIds : List Cmd → List Nat
  | [] => []
  | .act (.begin i _) :: r => i :: senderIds r
  | _ :: r => senderIds r

/-- registry entries still present, over the sender ids of this history (every entry was put by a listed sender) -/
def regCount (c : Cfg) (ids : List Nat) : Nat :=
  (ids.filter (fun i => c.reg (c.s i).ep (c.s i).sb == some i)).length

/-! Property predicates evaluated on the replayed configuration (the theorems in Props/C06, C20, C09 say these
    can never fail on a reachable configuration, except where a `_partial` theorem documents the exception). -/
def predicates (c : Cfg) (ids : List Nat) : List String :=
  let ws := ids.map (fun i => (i, c.s i))
  let p1 := ws.all (fun (_, w) => match w.out with
    | some (.reply _ sb fn wb) => sb == w.sb && isSecondaryReply wb fn
    | _ => true)
  let p2 := ws.all (fun (_, w) => match w.out with
    | some (.nilnil _) => false
    | _ => true)
  let p3 := c.m.inflight == ((ws.filter (fun (_, w) => w.kind == .sync && (w.pc == .waiting || w.pc == .decided))).length : Int)
  let p4 := c.m.sent == (c.wire.filter (·.data)).length
  let p5 := c.wire.all (fun ev => ev.sock == (c.s ev.src).ep)
  let p6 := ws.all (fun (i, w) => w.pc != .done || c.reg w.ep w.sb != some i)
  let p7 := c.deliv.all (fun d => match d.to with
    | .sender i => d.reg == some (c.s i).ep && d.ep == (c.s i).ep
    | _ => true)
  (if p1 then [] else ["reply_is_own_secondary"]) ++ (if p2 then [] else ["outcome_exhaustive"]) ++
  (if p3 then [] else ["inflight_eq_waiting_waiters"]) ++ (if p4 then [] else ["sent_eq_wire_frames"]) ++
  (if p5 then [] else ["write_lands_on_pinned_epoch"]) ++ (if p6 then [] else ["deregister_on_every_exit"]) ++
  (if p7 then [] else ["reply_completes_same_epoch_only"])

def runCmds (c : Cfg) (n : Nat) (snaps : List String) : List Cmd → Cfg × Option Nat × List String
  | [] => (c, none, snaps.reverse)
  | .snap :: r => runCmds c (n + 1) (showMetrics c.m :: snaps) r
  | .act a :: r => if enabled c a then runCmds (apply c a) (n + 1) snaps r else (c, some n, snaps.reverse)

def parseAll (n : Nat) : List String → Except Nat (List Cmd)
  | [] => .ok []
  | t :: ts => match parseTok t with
    | none => .error n
    | some cmd => do
      let r ← parseAll (n + 1) ts
      pure (cmd :: r)

def summary (c : Cfg) (ids : List Nat) (status : String) (snaps : List String) : String :=
  let outs := ids.map (fun i => s!"{i}>" ++ (match (c.s i).out with | some o => (if (c.s i).pc = .done then "" else "~") ++ showOutcome o | none => "none"))
  let wire := c.wire.reverse.map (fun ev => s!"{ev.sock}>{ev.src}>{ev.sb}")
  let hd := c.deliv.reverse.filterMap (fun d => match d.to with | .handlers n => some s!"{d.frame.fid}>{n}" | _ => none)
  let dl := c.deliv.reverse.map (fun d => s!"{d.frame.fid}>{showRecipient d.to}")
  let ps := predicates c ids
  s!"{status} M={showMetrics c.m} REG={regCount c ids} O={join outs} W={join wire} H={join hd} D={join dl} S={if snaps.isEmpty then "-" else ";".intercalate snaps} P={join ps}"

def handle (cmd : String) (args : List String) : Option String :=
  match cmd with
  | "router.replay" =>
    some (match parseAll 0 args with
      | .error n => s!"bad-token@{n}"
      | .ok cmds =>
        let ids := senderIds cmds
        let (c, dis, snaps) := runCmds init 0 [] cmds
        summary c ids (match dis with | none => "ok" | some n => s!"disabled@{n}") snaps)
  | "router.secondary" =>
    some (match args with
      | [w, fn] => (match bool? w, nat? fn with
        | some w, some fn => toString (isSecondaryReply w fn)
        | _, _ => "bad-op")
      | _ => "bad-op")
  | "router.next" =>
    some (match args with
      | [n] => (match nat? n with
        | some n => toString (n % wrap)
        | none => "bad-op")
      | _ => "bad-op")
  | _ => none

end GoSecs.Drv.Router
