/-
  Line-protocol handler for the constructor model.
    c16.new <int|uint|bin|bool> <byteSize> <arg>*
        args: i:<v> | is:<v,v,..> | s:v:<v> | s:r:<bound> | s:x | ss:<v1;r-5;x;..> | b:<0|1> | bs:<0101..> | f | o
      → ok <item text> | err
    c16.list <tree>     tree tokens: ( … ) = NewListItem(…), E = empty item, X = errored leaf, A = error-free leaf
      → errored=<0|1> error=<0|1> accepts=<0|1> size=<n>
-/
import GoSecs.Model.Construct
import GoSecs.Drv.Secs2

namespace GoSecs.Drv.Construct
open GoSecs GoSecs.Secs2 GoSecs.Construct

def splitNonEmpty (s : String) (sep : String) : List String := (s.splitOn sep).filter (· != "")

def strParseOfTok (t : String) : Option StrParse :=
  if t == "x" then some .syntax
  else if t.startsWith "v" then (t.drop 1).toString.toInt?.map .val
  else if t.startsWith "r" then (t.drop 1).toString.toInt?.map .range
  else none

def argOfTok (t : String) : Option Arg :=
  if t == "f" then some .float
  else if t == "o" then some .other
  else if t.startsWith "i:" then (t.drop 2).toString.toInt?.map .int
  else if t.startsWith "is:" then ((splitNonEmpty (t.drop 3).toString ",").mapM String.toInt?).map .ints
  else if t == "s:x" then some (.str .syntax)
  else if t.startsWith "s:v:" then (t.drop 4).toString.toInt?.map (fun v => .str (.val v))
  else if t.startsWith "s:r:" then (t.drop 4).toString.toInt?.map (fun v => .str (.range v))
  else if t.startsWith "ss:" then ((splitNonEmpty (t.drop 3).toString ";").mapM strParseOfTok).map .strs
  else if t == "b:1" then some (.bool true)
  else if t == "b:0" then some (.bool false)
  else if t.startsWith "bs:" then some (.bools ((t.drop 3).toString.toList.map (· == '1')))
  else none

/-- parse a tree; returns the built item and the remaining tokens -/
partial def parseTree : List String → Option (Built × List String)
  | "E" :: r => some (.empty, r)
  | "X" :: r => some (.leaf none, r)
  | "A" :: r => some (.leaf (some (.ascii [])), r)
  | "(" :: r =>
    let rec kids (ts : List String) (acc : List Built) : Option (List Built × List String) :=
      match ts with
      | ")" :: r' => some (acc.reverse, r')
      | [] => none
      | _ => match parseTree ts with
        | some (b, r') => kids r' (b :: acc)
        | none => none
    match kids r [] with
    | some (ks, r') => some (newList ks, r')
    | none => none
  | _ => none

def b2s (b : Bool) : String := if b then "1" else "0"

def handle (cmd : String) (args : List String) : Option String :=
  match cmd with
  | "c16.new" =>
    some (match args with
      | kind :: bs :: rest =>
        match bs.toInt?, rest.mapM argOfTok with
        | some byteSize, some as =>
          let r := match kind with
            | "int" => newInt byteSize as
            | "uint" => newUint byteSize as
            | "bin" => newBinary as
            | "bool" => newBoolean as
            | _ => none
          (match r with
            | some it => "ok " ++ Drv.Secs2.showItem it
            | none => "err")
        | _, _ => "bad-op"
      | _ => "bad-op")
  | "c16.list" =>
    some (match parseTree args with
      | some (b, []) =>
        let size := match b with | .list _ _ ks => ks.length | _ => 0
        s!"errored={b2s b.errored} error={b2s b.errorNonNil} accepts={b2s (messageAccepts b)} size={size}"
      | _ => "bad-op")
  | _ => none

end GoSecs.Drv.Construct
