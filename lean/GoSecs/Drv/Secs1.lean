/-
  Line-protocol handlers for the secs1 model (commands prefixed `secs1.`).

  Tokens: booleans `0|1`, byte strings hex (`-` = empty), headers 20 hex digits.
    secs1.hdr    dev r stream fn w sys(8 hex) blockNumber last      -> header hex
    secs1.split  dev r stream fn w sys bodyhex                       -> ok N wire1 wire2 … | err header|toolarge
    secs1.splitlen dev stream len                                    -> ok N | err …
    secs1.wire   hdrhex bodyhex                                      -> wire hex
    secs1.parse  lengthByte(hex2) resthex                            -> ok hdrhex bodyhex | err length|checksum
    secs1.frame  (hdrhex bodyhex)*                                   -> ok framehex | err empty|number|ebit|header
    secs1.asm    isEquip dev t4 (time hdrhex bodyhex)*               -> per block `events@open`, `;`-separated
    secs1.spec   isEquip dev t4 (time hdrhex bodyhex)*               -> per block `-` | D:framehex (reference receiver)
    secs1.send   isEquip limit hdrhex bodyhex act*                   -> ok|fail attempts linehex delivered rest
                 act = ga|gn|go|gs|si|ng|cs|cg:hdr:body|cb:hdr:body ; attempts letters o r y f
    secs1.recv   i:hdr:body | r:hex                                  -> block hdr body|t2|badlength|t1|parse:e , answer
    secs1.line   dev limitM limitS faults M msg* S msg*             -> two endpoints over a faulty line (see `lineCmd`)
                 faults letters n f t k q o a ; msg = stream:fn:w:sys:bodyhex
    secs1.lineev dev limitM limitS events M msg* S msg*              -> like secs1.line, but messages are OFFERED by events:
                 events letters = fault letters, `M` / `S` = offer the next listed master / slave message now
-/
import GoSecs.Model.Secs1
import GoSecs.Spec.E4Receive

namespace GoSecs.Drv.Secs1
open GoSecs GoSecs.Secs1

def boolTok (s : String) : Option Bool :=
  if s == "1" then some true else if s == "0" then some false else none

def parseMsgHeader (dev r st fn w sys : String) : Option MsgHeader := do
  let dev ← dev.toNat?
  let r ← boolTok r
  let st ← st.toNat?
  let fn ← fn.toNat?
  let w ← boolTok w
  match ← bytesOfHex sys with
  | [a, b, c, d] => pure { deviceID := dev, rBit := r, stream := st, function := fn, waitBit := w, s0 := a, s1 := b, s2 := c, s3 := d }
  | _ => none

def parseHdr (s : String) : Option Hdr := do
  let bs ← bytesOfHex s
  if bs.length = 10 then pure (Hdr.ofList bs) else none

def parseBlocks : List String → Option (List Block)
  | [] => some []
  | h :: b :: r => do
    let h ← parseHdr h
    let b ← bytesOfHex b
    let rest ← parseBlocks r
    pure ({ hdr := h, body := b } :: rest)
  | _ => none

def parseTBlocks : List String → Option (List TBlock)
  | [] => some []
  | t :: h :: b :: r => do
    let t ← t.toNat?
    let h ← parseHdr h
    let b ← bytesOfHex b
    let rest ← parseTBlocks r
    pure ({ time := t, blk := { hdr := h, body := b } } :: rest)
  | _ => none

def violName : Violation → String
  | .deviceID => "dev" | .blockNumber => "num" | .header => "hdr" | .invalidFirst => "first"

def evName : AEv → String
  | .devMismatch => "dev"
  | .dirDrop => "dir"
  | .t4Discard => "t4"
  | .dupDrop => "dup"
  | .mismatch v => "mm:" ++ violName v
  | .invalidFirst n => if n then "if" else "ifs"
  | .started => "st"
  | .appended => "ap"
  | .delivered f => "D:" ++ hexOfBytes f
  | .frameErr e => "E:" ++ e.name

/-- Per block: the event trace, then `@` and the partial-message state after the call
    (`-` = none open, else the number of accumulated blocks). -/
def asmTrace (a : Asm) : List TBlock → List String
  | [] => []
  | e :: es =>
    let r := a.accept e.time e.blk
    let st := if r.1.isOpen then toString r.1.blocks.length else "-"
    (",".intercalate (r.2.map evName) ++ "@" ++ st) :: asmTrace r.1 es

def splitColon (s : String) : List String := s.splitOn ":"

def parseAct (s : String) : Option PeerAct :=
  match splitColon s with
  | ["ga"] => some .grantAck
  | ["gn"] => some .grantNak
  | ["go"] => some .grantOther
  | ["gs"] => some .grantSilent
  | ["si"] => some .silent
  | ["ng"] => some .noiseGrantAck
  | ["cs"] => some .contendSilent
  | ["cg", h, b] => do pure (.contendGood { hdr := ← parseHdr h, body := ← bytesOfHex b })
  | ["cb", h, b] => do pure (.contendBad { hdr := ← parseHdr h, body := ← bytesOfHex b })
  | _ => none

def attemptLetter : Attempt → String
  | .ok => "o" | .retry => "r" | .yieldDelivered => "y" | .yieldFailed => "f"

def blockTok (b : Block) : String := hexOfBytes b.hdr.toList ++ ":" ++ hexOfBytes b.body

def parseFault (c : Char) : Option Fault :=
  match c with
  | 'n' => some .none | 'f' => some .flipChar | 't' => some .truncate | 'k' => some .nak
  | 'q' => some .dropEnq | 'o' => some .dropEot | 'a' => some .dropAck | _ => none

def parseOutMsg (dev : Nat) (r : Bool) (s : String) : Option OutMsg :=
  match splitColon s with
  | [st, fn, w, sys, body] => do
    let h ← parseMsgHeader (toString dev) (if r then "1" else "0") st fn w sys
    pure { hdr := h, body := ← bytesOfHex body }
  | _ => none

def sysTok (m : OutMsg) : String := hexOfBytes [m.hdr.s0, m.hdr.s1, m.hdr.s2, m.hdr.s3]

def endpointStr (e : Endpoint) : String :=
  let d := ",".intercalate (e.delivered.reverse.map hexOfBytes)
  let ok := ",".intercalate (e.succeeded.reverse.map sysTok)
  let bad := ",".intercalate (e.failed.reverse.map sysTok)
  s!"D[{d}] OK[{ok}] FAIL[{bad}] retry={e.retry}"

/-- Harness convention: once a send has failed (the link is being re-established) an endpoint offers no
    further messages in that scenario; the still queued ones count as failed. -/
def stopAfterFailure (l : Line) : Line :=
  let fix (e : Endpoint) : Endpoint :=
    if e.failed.isEmpty then e else { e with queue := [], failed := e.queue.reverse ++ e.failed }
  { master := fix l.master, slave := fix l.slave }

def runStop (l : Line) : List Fault → Line
  | [] => l
  | f :: fs => runStop (stopAfterFailure (l.step f)) fs

/-- `dev limitM limitS faults M msg* S msg*` -/
def lineCmd (args : List String) : Option String :=
  match args with
  | dev :: lm :: ls :: faults :: "M" :: rest => do
    let dev ← dev.toNat?
    let lm ← lm.toNat?
    let ls ← ls.toNat?
    let fs ← (if faults == "-" then some [] else faults.toList.mapM parseFault)
    let mm := rest.takeWhile (· != "S")
    let sm := (rest.dropWhile (· != "S")).drop 1
    let mq ← mm.mapM (parseOutMsg dev true)
    let sq ← sm.mapM (parseOutMsg dev false)
    let l : Line := { master := Endpoint.init true dev lm mq, slave := Endpoint.init false dev ls sq }
    -- after the schedule the line is undisturbed until everything queued has been settled
    let r := runStop l (fs ++ List.replicate 256 Fault.none)
    pure s!"M {endpointStr r.master} | S {endpointStr r.slave} | quiescent={r.quiescent}"
  | _ => none

/-- `dev limitM limitS events M msg* S msg*`: nothing is queued initially; `M`/`S` in `events` offer the next
    listed message of that side (the straddle case: an offer in the middle of the peer's message). -/
def lineEvCmd (args : List String) : Option String :=
  match args with
  | dev :: lm :: ls :: events :: "M" :: rest => do
    let dev ← dev.toNat?
    let lm ← lm.toNat?
    let ls ← ls.toNat?
    let mm := rest.takeWhile (· != "S")
    let sm := (rest.dropWhile (· != "S")).drop 1
    let mq ← mm.mapM (parseOutMsg dev true)
    let sq ← sm.mapM (parseOutMsg dev false)
    let rec go (l : Line) (mq sq : List OutMsg) : List Char → Option Line
      | [] => some l
      | 'M' :: cs => (match mq with
          | m :: mq' => go (l.apply (.offerMaster m)) mq' sq cs
          | [] => none)
      | 'S' :: cs => (match sq with
          | m :: sq' => go (l.apply (.offerSlave m)) mq sq' cs
          | [] => none)
      | c :: cs => do
        let f ← parseFault c
        go (stopAfterFailure (l.step f)) mq sq cs
    let l0 : Line := { master := Endpoint.init true dev lm [], slave := Endpoint.init false dev ls [] }
    let l ← go l0 mq sq (if events == "-" then [] else events.toList)
    let r := runStop l (List.replicate 256 Fault.none)
    pure s!"M {endpointStr r.master} | S {endpointStr r.slave} | quiescent={r.quiescent}"
  | _ => none

def handle (cmd : String) (args : List String) : Option String :=
  match cmd with
  | "secs1.hdr" =>
    some (match args with
      | [dev, r, st, fn, w, sys, bn, last] =>
        (match parseMsgHeader dev r st fn w sys, bn.toNat?, boolTok last with
         | some h, some bn, some l => hexOfBytes (buildHeader h bn l).toList
         | _, _, _ => "bad-op")
      | _ => "bad-op")
  | "secs1.split" =>
    some (match args with
      | [dev, r, st, fn, w, sys, body] =>
        (match parseMsgHeader dev r st fn w sys, bytesOfHex body with
         | some h, some b =>
           (match splitBody b h with
            | .error e => "err " ++ e.name
            | .ok bs => s!"ok {bs.length}" ++ String.join (bs.map (fun b => " " ++ hexOfBytes b.wire)))
         | _, _ => "bad-op")
      | _ => "bad-op")
  | "secs1.splitlen" =>
    some (match args with
      | [dev, st, len] =>
        (match dev.toNat?, st.toNat?, len.toNat? with
         | some dev, some st, some len =>
           (match splitBodyN [] len { deviceID := dev, stream := st } with
            | .error e => "err " ++ e.name
            | .ok _ => s!"ok {blockCount len}")
         | _, _, _ => "bad-op")
      | _ => "bad-op")
  | "secs1.wire" =>
    some (match args with
      | [h, b] =>
        (match parseHdr h, bytesOfHex b with
         | some h, some b => hexOfBytes (Block.wire { hdr := h, body := b })
         | _, _ => "bad-op")
      | _ => "bad-op")
  | "secs1.parse" =>
    some (match args with
      | [lb, rest] =>
        (match bytesOfHex lb, bytesOfHex rest with
         | some [lb], some rest =>
           (match parseBlock lb rest with
            | .error e => "err " ++ e.name
            | .ok b => s!"ok {hexOfBytes b.hdr.toList} {hexOfBytes b.body}")
         | _, _ => "bad-op")
      | _ => "bad-op")
  | "secs1.frame" =>
    some (match parseBlocks args with
      | none => "bad-op"
      | some bs =>
        match assembleFrame bs with
        | .error e => "err " ++ e.name
        | .ok f => "ok " ++ hexOfBytes f)
  | "secs1.asm" =>
    some (match args with
      | eq :: dev :: t4 :: rest =>
        (match boolTok eq, dev.toNat?, t4.toNat?, parseTBlocks rest with
         | some eq, some dev, some t4, some evs =>
           ";".intercalate (asmTrace (Asm.init eq dev t4) evs)
         | _, _, _, _ => "bad-op")
      | _ => "bad-op")
  | "secs1.spec" =>
    some (match args with
      | eq :: dev :: t4 :: rest =>
        (match boolTok eq, dev.toNat?, t4.toNat?, parseTBlocks rest with
         | some eq, some dev, some t4, some evs =>
           let ds := Spec.E4Receive.receive { isEquip := eq, deviceID := dev, t4 := t4 } evs
           ";".intercalate (ds.map (fun d => match d with
             | none => "-"
             | some m => "D:" ++ hexOfBytes m.image))
         | _, _, _, _ => "bad-op")
      | _ => "bad-op")
  | "secs1.send" =>
    some (match args with
      | eq :: lim :: h :: b :: acts =>
        (match boolTok eq, lim.toNat?, parseHdr h, bytesOfHex b, acts.mapM parseAct with
         | some eq, some lim, some h, some b, some acts =>
           let t := sendBlock eq lim { hdr := h, body := b } acts
           let res := if t.ok then "ok" else "fail"
           let att := String.join (t.attempts.map attemptLetter)
           let dl := if t.delivered.isEmpty then "-" else ",".intercalate (t.delivered.map blockTok)
           s!"{res} {if att.isEmpty then "-" else att} {hexOfBytes t.line} {dl} {t.rest.length}"
         | _, _, _, _, _ => "bad-op")
      | _ => "bad-op")
  | "secs1.recv" =>
    some (match args with
      | [a] =>
        let act : Option SenderAct := match splitColon a with
          | ["i", h, b] => do pure (.intact { hdr := ← parseHdr h, body := ← bytesOfHex b })
          | ["r", x] => do pure (.raw (← bytesOfHex x))
          | _ => none
        (match act with
         | none => "bad-op"
         | some act =>
           let r := receiveBlock act
           let what := match r with
             | .block b => s!"block {hexOfBytes b.hdr.toList} {hexOfBytes b.body}"
             | .t2 => "t2" | .badLength => "badlength" | .t1 => "t1"
             | .parse e => "parse:" ++ e.name
           s!"{what} {hexOfBytes [r.answer]}")
      | _ => "bad-op")
  | "secs1.line" => some ((lineCmd args).getD "bad-op")
  | "secs1.lineev" => some ((lineEvCmd args).getD "bad-op")
  | _ => none

end GoSecs.Drv.Secs1
