/-
  Line-protocol handler for the ownership (region) model of C12.

    own.run <op>*        ops (space separated):
        a:<hex>          the application allocates a buffer with these bytes            (callerAlloc)
        c:<r>            construct by copy from caller region r                          (constructCopy)
        t:<r>            documented ownership transfer of region r                      (constructTransfer)
        k:<r>            the item keeps r while the caller keeps using it               (constructRetain — contract violation)
        f:<i>            fresh-copy accessor on item i (items are numbered in creation order)   (accessFresh)
        p:<i>:<r>        item i appends itself into caller buffer r                      (appendTo)
        m:<r>:<idx>:<v>  the application writes byte v at index idx of region r         (callerMutate)
      → next=<n> items=<hex>,<hex>,… caller=<r>,<r>,…      ("-" for an empty list / empty contents)
-/
import GoSecs.Model.Ownership

namespace GoSecs.Drv.Ownership
open GoSecs GoSecs.Ownership

/-- region of item number i (creation order); an out-of-range index maps to the (unowned) frontier. -/
def itemRegion (s : State) (i : Nat) : Region := (s.owned.reverse[i]?).getD s.next

def opOfTok (s : State) (t : String) : Option Op :=
  match t.splitOn ":" with
  | ["a", h] => (bytesOfHex h).map .callerAlloc
  | ["c", r] => r.toNat?.map .constructCopy
  | ["t", r] => r.toNat?.map .constructTransfer
  | ["k", r] => r.toNat?.map .constructRetain
  | ["f", i] => i.toNat?.map (fun i => .accessFresh (itemRegion s i))
  | ["p", i, r] => do pure (.appendTo (itemRegion s (← i.toNat?)) (← r.toNat?))
  | ["m", r, i, v] => do pure (.callerMutate (← r.toNat?) (← i.toNat?) (UInt8.ofNat (← v.toNat?)))
  | _ => none

def runToks : State → List String → Option State
  | s, [] => some s
  | s, t :: ts => do
    let op ← opOfTok s t
    runToks (step s op) ts

def joinOr (xs : List String) : String := if xs.isEmpty then "-" else ",".intercalate xs

def render (s : State) : String :=
  s!"next={s.next} items={joinOr (s.owned.reverse.map (fun r => hexOfBytes (s.heap r)))} caller={joinOr (s.caller.reverse.map toString)}"

def handle (cmd : String) (args : List String) : Option String :=
  match cmd with
  | "own.run" => some (match runToks init args with | some s => render s | none => "bad-op")
  | _ => none

end GoSecs.Drv.Ownership
