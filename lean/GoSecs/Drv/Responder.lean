/-
  Line-protocol handlers for the responder model (commands prefixed `rsp.`).

    rsp.run <validate 0/1> <sessionID> <st 0|1|2> <openSel n|-> <openOther n,n,..|-> (<hdr-hex20> <bodyLen>)*
        -> per frame "<out>* ;" then "st=<n> sel=<n|-> other=<n,..|->"
           out: C:<hdr-hex20>            control frame queued
                S9:<session>:<hdr-hex20> S9F1 from <session> about the offending header
                D:<hdr-hex20>:<bodyLen>  delivered to the handlers
                E:separate | E:selectfail   link ends
    rsp.ev <validate 0/1> <sessionID> <t7 configured 0/1> <event>*   (from the idle endpoint)
        event: U:a:<sys> | U:p (TCP connection adopted, active / passive)   F:<hdr-hex20>:<bodyLen>
               T6 (own Select.req timed out) | T7 | T8 ; a timer event that is not enabled is answered "!disabled"
        -> per event "<out>* ;" then "st=<n> sel=<n|-> other=<..> t7=<0/1>"
    rsp.send <opened> <live> <entry sync|async|reply|forward|forwardAsync> <isData> <st1> <stW>
        -> "<err> drops=<n> wire=<n> queued=<n>"   (drop / wire / queue deltas of one call)
    rsp.accept <live 0/1>  -> adopt | refuse
-/
import GoSecs.Model.Bytes
import GoSecs.Model.Responder

namespace GoSecs.Drv.Responder
open GoSecs GoSecs.Responder

def hdrOf (session b2 b3 ptype stype sys : Nat) : String :=
  hexOfBytes (beBytes 2 session ++ [UInt8.ofNat b2, UInt8.ofNat b3, UInt8.ofNat ptype, UInt8.ofNat stype] ++ beBytes 4 sys)

def frameHdr (f : Frame) : String := hdrOf f.session f.b2 f.b3 f.ptype f.stype f.sys

def parseFrame (h : String) (n : String) : Option Frame := do
  let bs ← bytesOfHex h
  let n ← n.toNat?
  match bs with
  | [s0, s1, b2, b3, pt, st, y0, y1, y2, y3] =>
    pure ⟨beVal [s0, s1], b2.toNat, b3.toNat, pt.toNat, st.toNat, beVal [y0, y1, y2, y3], n⟩
  | _ => none

def parseFrames : List String → Option (List Frame)
  | [] => some []
  | h :: n :: rest => do
    let f ← parseFrame h n
    let fs ← parseFrames rest
    pure (f :: fs)
  | _ => none

def stOf (s : String) : Option St :=
  if s == "0" then some .notConnected else if s == "1" then some .notSelected else if s == "2" then some .selected else none

def stNum : St → String
  | .notConnected => "0" | .notSelected => "1" | .selected => "2"

def optNat (s : String) : Option (Option Nat) := if s == "-" then some none else s.toNat?.map some

def natList (s : String) : Option (List Nat) := if s == "-" then some [] else (s.splitOn ",").mapM String.toNat?

def showOut : Out → String
  | .ctrl se b2 b3 st sy => "C:" ++ hdrOf se b2 b3 0 st sy
  | .s9f1 se f => s!"S9:{se}:" ++ frameHdr f
  | .deliver f => "D:" ++ frameHdr f ++ s!":{f.bodyLen}"

def showEff : Effect → String
  | .none => "" | .peerSeparate => " E:separate" | .selectFailed => " E:selectfail"
  | .t7Expired => " E:t7" | .t8Expired => " E:t8"

def parseEv (t : String) : Option Ev :=
  match t.splitOn ":" with
  | ["U", "p"] => some (.tcpUp false 0)
  | ["U", "a", n] => n.toNat?.map (fun x => .tcpUp true x)
  | ["F", h, n] => (parseFrame h n).map .frame
  | ["T6"] => some .t6Select
  | ["T7"] => some .t7
  | ["T8"] => some .t8
  | _ => none

def enabledB (s : RState) : Ev → Bool
  | .tcpUp _ _ => s.st == .notConnected
  | .frame _ => s.st != .notConnected
  | .t6Select => s.openSel.isSome
  | .t7 => s.t7
  | .t8 => s.st != .notConnected

def showRes (r : List Out × Effect) : String :=
  String.join (r.1.map (fun o => showOut o ++ " ")) ++ (showEff r.2).trimAsciiStart.toString ++ (if r.2 == .none then "" else " ") ++ "; "

def runShow (c : Cfg) : RState → List Ev → String → RState × String
  | s, [], acc => (s, acc)
  | s, e :: es, acc =>
    if enabledB s e then
      let r := step c s e
      runShow c r.1 es (acc ++ showRes (r.2.1, r.2.2))
    else runShow c s es (acc ++ "!disabled ; ")

def showState (s : RState) : String :=
  let sel := match s.openSel with | some n => toString n | none => "-"
  let oth := if s.openOther.isEmpty then "-" else ",".intercalate (s.openOther.map toString)
  s!"st={stNum s.st} sel={sel} other={oth}"

def entryOf (s : String) : Option Entry :=
  if s == "sync" then some .sync else if s == "async" then some .async else if s == "reply" then some .reply
  else if s == "forward" then some .forward else if s == "forwardAsync" then some .forwardAsync else none

def errName : SendErr → String
  | .ok => "ok" | .notOpen => "not-open" | .notSelected => "not-selected" | .connClosed => "conn-closed"

def handle (cmd : String) (args : List String) : Option String :=
  match cmd with
  | "rsp.run" =>
    some (match args with
      | v :: sid :: st :: sel :: oth :: rest =>
        (match sid.toNat?, stOf st, optNat sel, natList oth, parseFrames rest with
         | some sid, some st, some sel, some oth, some fs =>
           let c : Cfg := ⟨v == "1", sid, true⟩
           let (s', res) := run c ⟨st, sel, oth, [], st == .notSelected⟩ fs
           String.join (res.map (fun r => String.join (r.1.map (fun o => showOut o ++ " ")) ++ (showEff r.2).trimAsciiStart.toString ++ (if r.2 == .none then "" else " ") ++ "; "))
             ++ showState s'
         | _, _, _, _, _ => "bad-op")
      | _ => "bad-op")
  | "rsp.ev" =>
    some (match args with
      | v :: sid :: t7 :: rest =>
        (match sid.toNat?, rest.mapM parseEv with
         | some sid, some es =>
           let c : Cfg := ⟨v == "1", sid, t7 == "1"⟩
           let (s', txt) := runShow c .idle es ""
           txt ++ showState s' ++ (if s'.t7 then " t7=1" else " t7=0")
         | _, _ => "bad-op")
      | _ => "bad-op")
  | "rsp.send" =>
    some (match args with
      | [op, lv, en, isd, s1, sw] =>
        (match entryOf en, stOf s1, stOf sw with
         | some e, some st1, some stW =>
           let g : GState := ⟨op == "1", lv == "1", 0, [], []⟩
           let (g', err) := send g e (isd == "1") st1 stW 1
           s!"{errName err} drops={g'.drops} wire={g'.wire.length} queued={g'.queued.length}"
         | _, _, _ => "bad-op")
      | _ => "bad-op")
  | "rsp.drain" =>
    some (match args with
      | [lv, isd, sw] =>
        (match stOf sw with
         | some stW =>
           let g : GState := ⟨true, lv == "1", 0, [], [(1, isd == "1")]⟩
           let (g', err) := drain g stW
           s!"{errName err} drops={g'.drops} wire={g'.wire.length} queued={g'.queued.length}"
         | none => "bad-op")
      | _ => "bad-op")
  | "rsp.accept" =>
    some (match args with
      | [lv] => (match (acceptStep (lv == "1")).2 with | .adopt => "adopt" | .refuse => "refuse")
      | _ => "bad-op")
  | _ => none

end GoSecs.Drv.Responder
