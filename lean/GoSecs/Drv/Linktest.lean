/-
  Line-protocol handlers for the linktest model (commands prefixed `lt.`).

    lt.fstep   s recvNow sentAt inflight fails ral   -> "<gen: fails ral credited> <spec: fails ral credited>"
    lt.recheck s inflight recvNow sentAt             -> "<gen> <spec>"
    lt.run     s threshold fails ral  obs*           -> "<fails> <ral> <disc index | -> <act>*"
       obs = 8 integers: active inflightPre probeOk sentAt recvNow inflight finalInflight finalRecv
  Booleans are 0/1.
-/
import GoSecs.Model.Linktest
import GoSecs.Gen.Funcs

namespace GoSecs.Drv.Linktest
open GoSecs GoSecs.Linktest

def b01 (b : Bool) : String := if b then "1" else "0"

def ints (args : List String) : Option (List Int) := args.mapM String.toInt?

def obsOf : List Int → Option (List Obs)
  | [] => some []
  | a :: ip :: ok :: sa :: rn :: inf :: fi :: fr :: rest => do
    let os ← obsOf rest
    pure (⟨a != 0, ip, ok != 0, sa, rn, inf, fi, fr⟩ :: os)
  | _ => none

def showR (r : Int × Int × Bool) : String := s!"{r.1} {r.2.1} {b01 r.2.2}"

def handle (cmd : String) (args : List String) : Option String :=
  match cmd with
  | "lt.fstep" =>
    some (match ints args with
      | some [s, rn, sa, inf, f, ral] =>
        showR (Gen.hsmsss_linktestFailureStep (s != 0) rn sa inf f ral) ++ " " ++ showR (failureStep (s != 0) rn sa inf f ral)
      | _ => "bad-op")
  | "lt.recheck" =>
    some (match ints args with
      | some [s, inf, rn, sa] =>
        b01 (Gen.hsmsss_linktestDisconnectRecheck (s != 0) inf rn sa) ++ " " ++ b01 (disconnectRecheck (s != 0) inf rn sa)
      | _ => "bad-op")
  | "lt.run" =>
    some (match ints args with
      | some (s :: th :: f :: ral :: rest) =>
        (match obsOf rest with
         | some os =>
           let c : Cfg := ⟨s != 0, th⟩
           let (st, acts) := run c ⟨f, ral⟩ os
           let d := match discAt c ⟨f, ral⟩ os with | some i => toString i | none => "-"
           s!"{st.fails} {st.recvAtLastFail} {d}" ++ String.join (acts.map (fun a => " " ++ a.name))
         | none => "bad-op")
      | _ => "bad-op")
  | _ => none

end GoSecs.Drv.Linktest
