/-
  Line-protocol handler for the supervisor model.
    sup.run <act>*      acts: cC cS cL iS iR jD jT jX rl rc dv
  →  sts=<digit per action> L=<d> closed=<0|1> dropped=<n> q=<n> pc=<i|l> deliv=<p>n,.. buf=<..> react=<..> gen=<n> dwell=<n>
  (jD / jT enqueue the event tagged with the generation / dwell current at that action, like TCPDown / T7Expired)
-/
import GoSecs.Model.Supervisor

namespace GoSecs.Drv.Supervisor
open GoSecs.Sup

def actOfTok : String → Option Act
  | "cC" => some .casConnected | "cS" => some .casSelected | "cL" => some .casSelectLost
  | "iS" => some .injStart | "iR" => some .injRecv
  | "jD" => some (.inject .disc) | "jT" => some (.inject .t7) | "jX" => some (.inject .close)
  | "rl" => some .runLoad | "rc" => some .runCommit | "dv" => some .deliver
  | _ => none

def showPairs (l : List (St × St)) : String :=
  if l.isEmpty then "-" else ",".intercalate (l.map fun (p, n) => s!"{p.toNat}>{n.toNat}")

def runTrace (c : Cfg) : List Act → List Nat → Cfg × List Nat
  | [], acc => (c, acc.reverse)
  | a :: as, acc => let c' := step c a; runTrace c' as (c'.st.toNat :: acc)

def handle (cmd : String) (args : List String) : Option String :=
  match cmd with
  | "sup.run" =>
    some (match args.mapM actOfTok with
      | none => "bad-op"
      | some acts =>
        let (c, sts) := runTrace init acts []
        let pc := match c.pc with | .idle => "i" | .loaded _ _ => "l"
        s!"sts={String.join (sts.map toString)} L={c.lastReacted.toNat} closed={if c.closed then 1 else 0} dropped={c.dropped} q={c.queue.length} pc={pc} deliv={showPairs c.delivered} buf={showPairs c.notify} react={showPairs c.reactions} gen={c.gen} dwell={c.dwell}")
  | _ => none

end GoSecs.Drv.Supervisor
