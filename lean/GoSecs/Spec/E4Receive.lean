/-
  SEMI E4 message receive rule — an independent specification of which runs of an inbound block
  sequence constitute a deliverable message.

  Written from the property text (C17) and SEMI E4 §8.2 (R-bit), §9.4.1 (device id routing),
  §9.4.2 (duplicate block detection), §9.4.3 (inter-block timeout T4) and §9.4.4 (message receive
  algorithm), NOT from secs1/assembler.go.  Only the 10-byte header layout (`Hdr` accessors) and the
  `Block` type are shared with the model.

  Two layers:
  * `IsMessage` — a purely declarative predicate: this run of timed blocks is one complete message
    (addressed to us, numbered 1..N or a lone 0 with E, E exactly on the last, equal invariant
    header, every inter-block gap ≤ T4) with this header and this body.
  * `step` / `receive` — the E4 reference receiver with the minimal state the standard talks about
    (header of the last accepted block; the accepted blocks of the message being received).  The
    expected block number, the "open" flag and the message header are *derived*, not stored.

  Core Lean only (the driver runs `receive` next to the model).
-/
import GoSecs.Model.Secs1

namespace GoSecs.Spec.E4Receive
open GoSecs GoSecs.Secs1

structure Cfg where
  isEquip : Bool
  deviceID : Nat
  t4 : Nat
  deriving Repr

/-- A block is ours to process when it carries our device id (§9.4.1) and is directed toward us:
    R = 0 travels to the equipment, R = 1 to the host (§8.2). -/
def addressed (c : Cfg) (b : Block) : Bool :=
  decide (b.hdr.deviceID = c.deviceID) && (b.hdr.rBit != c.isEquip)

structure Msg where
  hdr : MsgHeader
  body : Bytes
  deriving DecidableEq, Repr

/-- What the application sees: the 10-byte HSMS-style header image followed by the body. -/
def Msg.image (m : Msg) : Bytes := hsmsHeader m.hdr ++ m.body

def bodyOf (run : List TBlock) : Bytes := (run.map (·.blk.body)).flatten

/-- **Declarative**: `run` (in arrival order) is one complete message `m` for receiver `c`. -/
structure IsMessage (c : Cfg) (run : List TBlock) (m : Msg) : Prop where
  nonempty : run ≠ []
  addressed : ∀ e ∈ run, addressed c e.blk = true
  /-- numbered 1..N, or a single block numbered 0 -/
  numbered : (∀ i (h : i < run.length), run[i].blk.hdr.blockNumber = i + 1) ∨
             (run.length = 1 ∧ ∀ e ∈ run, e.blk.hdr.blockNumber = 0)
  /-- E-bit on exactly the last block -/
  ebit : ∀ i (h : i < run.length), run[i].blk.hdr.eBit = decide (i + 1 = run.length)
  /-- the block-invariant header fields are those of the message -/
  header : ∀ e ∈ run, e.blk.hdr.msgHeader = m.hdr
  /-- every inter-block gap is within T4 -/
  gaps : ∀ i (h : i + 1 < run.length), run[i+1].time - run[i].time ≤ c.t4
  body_eq : m.body = bodyOf run

/-! ## The reference receiver (E4 §9.4.4) -/

structure RState where
  /-- header of the last block accepted as part of a message (§9.4.2); persists across messages -/
  last : Option Hdr := none
  /-- accepted blocks of the message being received, most recent first; `[]` = none in progress -/
  part : List TBlock := []
  deriving Repr

/-- A block that may begin a message: number 1, or a single block numbered 0 (E-bit set). -/
def firstBlock (b : Block) : Bool :=
  decide (b.hdr.blockNumber = 1) || (decide (b.hdr.blockNumber = 0) && b.hdr.eBit)

/-- §9.4.3: a message in progress whose last block is older than T4 is abandoned. -/
def afterT4 (c : Cfg) (part : List TBlock) (now : Nat) : List TBlock :=
  match part with
  | [] => []
  | p :: _ => if now - p.time > c.t4 then [] else part

/-- Does `b` continue the message in progress: next number, same invariant header. -/
def continues (part : List TBlock) (b : Block) : Bool :=
  match part with
  | [] => false
  | p :: _ => decide (b.hdr.blockNumber = part.length + 1) && decide (b.hdr.msgHeader = p.blk.hdr.msgHeader)

/-- A block addressed to us, after the T4 rule has been applied to the message in progress. -/
def accept1 (s : RState) (e : TBlock) : RState × Option Msg :=
  if s.last = some e.blk.hdr then (s, none)                              -- retransmission: ignored
  else
    let part' : List TBlock :=
      if continues s.part e.blk then e :: s.part
      else if firstBlock e.blk then [e]                                  -- (aborts any message in progress)
      else []                                                            -- stray block: discarded with it
    match part' with
    | [] => ({ s with part := [] }, none)
    | _ :: _ =>
      if e.blk.hdr.eBit then
        ({ last := some e.blk.hdr, part := [] }, some ⟨e.blk.hdr.msgHeader, bodyOf part'.reverse⟩)
      else ({ last := some e.blk.hdr, part := part' }, none)

def step (c : Cfg) (s : RState) (e : TBlock) : RState × Option Msg :=
  if !addressed c e.blk then (s, none)                                   -- not ours: ignored
  else accept1 { s with part := afterT4 c s.part e.time } e

/-- Deliveries of the reference receiver, one entry per inbound block. -/
def run (c : Cfg) (s : RState) : List TBlock → RState × List (Option Msg)
  | [] => (s, [])
  | e :: es =>
    let r := step c s e
    let rs := run c r.1 es
    (rs.1, r.2 :: rs.2)

def receive (c : Cfg) (evs : List TBlock) : List (Option Msg) := (run c {} evs).2

end GoSecs.Spec.E4Receive
