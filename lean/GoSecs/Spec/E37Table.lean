/-
  SEMI E37 / E37.1 (HSMS-SS) — the prescribed reaction to one received frame, written as a TABLE
  over (frame class × session state × transaction state), independently of the Go code's control
  flow. Sources: E37 §7.4 (Select), §7.7 (Deselect), §7.8 (Linktest), §7.9 (Separate), §7.10 /
  §8.3.20–21 (Reject), E37.1 §3 (single session), E5 §10.13 (S9F1), and the property text C08/C07.

  It reuses only the DATA TYPES of Model/Responder (Frame, Out, St, RState, Effect, Cfg); none of its
  decision functions.
-/
import GoSecs.Model.Responder

namespace GoSecs.E37
open GoSecs.Responder

/-- Frame classes of the HSMS message-format table (E37 §8.2/§8.3). -/
inductive Class
  | unsupportedPType     -- PType ≠ 0 (not SECS-II)
  | undefinedSType       -- SType not in Table "SType" (0..7, 9)
  | controlWithBody      -- control SType whose Message Length ≠ 10
  | data
  | selectReq | selectRsp | deselectReq | deselectRsp | linktestReq | linktestRsp | rejectReq | separateReq
  deriving DecidableEq, Repr

/-- E37 SType table. -/
def stypeTable : List (Nat × Class) :=
  [(0, .data), (1, .selectReq), (2, .selectRsp), (3, .deselectReq), (4, .deselectRsp),
   (5, .linktestReq), (6, .linktestRsp), (7, .rejectReq), (9, .separateReq)]

/-- Classification precedence (E37 §7.10 / §8.3.21): PType is judged first, then SType, then the length
    rule for control messages. -/
def classOf (f : Frame) : Class :=
  if f.ptype ≠ 0 then .unsupportedPType
  else match stypeTable.lookup f.stype with
    | none => .undefinedSType
    | some .data => .data
    | some k => if f.bodyLen = 0 then k else .controlWithBody

/-- Reject.req for `f` (E37 §8.3.20–21): session id and system bytes of the rejected message, reason code in
    byte 3, and in byte 2 the offending type byte: the PType for reason 2, otherwise the SType. -/
def reject (f : Frame) (reason : Nat) : Out :=
  .ctrl f.session (if reason = 2 then f.ptype else f.stype) reason 7 f.sys

/-- A response to a control request echoes the request's system bytes. Select/Deselect.rsp carry the request's
    session id and the status in byte 3; Linktest.rsp carries session id 0xFFFF. -/
def selectRsp (f : Frame) (status : Nat) : Out := .ctrl f.session 0 status 2 f.sys
def deselectRsp (f : Frame) (status : Nat) : Out := .ctrl f.session 0 status 4 f.sys
def linktestRsp (f : Frame) : Out := .ctrl 0xFFFF 0 0 6 f.sys

/-- Which open transaction (if any) a frame's system bytes belong to. Transactions have a kind: a control
    response can only answer a control transaction, a data secondary only a data transaction; a Reject.req
    may refer to either (E37 §8.3.20). -/
inductive Tx
  | none        -- no open transaction of a matching kind with these system bytes
  | ownSelect   -- our own Select.req awaiting Select.rsp (T6)
  | other       -- another open CONTROL transaction of ours (linktest probe)
  | data        -- an open DATA transaction of ours (primary awaiting its reply, T3)
  deriving DecidableEq, Repr

/-- for a control response -/
def txOf (s : RState) (sys : Nat) : Tx :=
  match s.openSel with
  | some x => if x = sys then .ownSelect else if s.openOther.contains sys then .other else .none
  | none => if s.openOther.contains sys then .other else .none

/-- for a Reject.req -/
def txOfAny (s : RState) (sys : Nat) : Tx :=
  match txOf s sys with
  | .none => if s.openData.contains sys then .data else .none
  | t => t

def closeTx (s : RState) (sys : Nat) : RState :=
  match txOf s sys with
  | .ownSelect => { s with openSel := none }
  | _ => { s with openOther := s.openOther.erase sys }

def closeDataTx (s : RState) (sys : Nat) : RState := { s with openData := s.openData.erase sys }

def selected (s : RState) : Bool := s.st == .selected

/-- Entering SELECTED is only possible from NOT SELECTED (E37 state diagram); it ends the T7 dwell (§9.2.2). -/
def enterSelected (s : RState) : RState := if s.st = .notSelected then { s with st := .selected, t7 := false } else s

/-- Back to NOT SELECTED on the same TCP connection: the T7 dwell applies again (if T7 is configured). -/
def leaveSelected (c : Cfg) (s : RState) : RState := { s with st := .notSelected, t7 := c.t7 }

/-- NOT CONNECTED: every transaction is over, every timer stopped. -/
def disconnected : RState := ⟨.notConnected, none, [], [], false⟩

/-- S9F1 applies to a data message whose session id is not ours, unless it is itself an S9F1. -/
def wantsS9F1 (c : Cfg) (f : Frame) : Bool :=
  c.validate && f.session != c.sessionID && !(f.b2 % 128 == 9 && f.b3 == 1)

/-- A data message that is a reply: W-bit clear, even function. -/
def isReply (f : Frame) : Bool := f.b2 / 128 == 0 && f.b3 % 2 == 0

/-- THE TABLE: the prescribed (next state, actions, link effect) for a frame received on an established TCP
    connection (`s.st` is NotSelected or Selected). -/
def prescribed (c : Cfg) (s : RState) (f : Frame) : RState × List Out × Effect :=
  match classOf f with
  -- §7.10.3 / §8.3.21: malformed or unsupported → Reject.req, link and state untouched
  | .unsupportedPType => (s, [reject f 2], .none)
  | .undefinedSType => (s, [reject f 1], .none)
  | .controlWithBody => (s, [reject f 1], .none)
  -- §7.4.3: responder. First select establishes (status 0); a select while SELECTED is "already active" (1)
  | .selectReq =>
    if selected s then (s, [selectRsp f 1], .none) else (enterSelected s, [selectRsp f 0], .none)
  -- §7.7: deselect responder. Status 0 ends the selection; 1 = communication not established
  | .deselectReq =>
    if selected s then (leaveSelected c s, [deselectRsp f 0], .none) else (s, [deselectRsp f 1], .none)
  -- §7.8
  | .linktestReq => (s, [linktestRsp f], .none)
  -- §7.9.2: Separate ends the connection if SELECTED; never answered; ignored otherwise
  | .separateReq => if selected s then (disconnected, [], .peerSeparate) else (s, [], .none)
  -- responses
  | .selectRsp =>
    match txOf s f.sys with
    | .none | .data => (s, [reject f 3], .none)                           -- §8.3.20: no open transaction
    | .ownSelect =>
      if f.b3 = 0 then (enterSelected (closeTx s f.sys), [], .none)       -- §7.4.2: communication established
      else if f.b3 = 1 then (closeTx s f.sys, [], .none)                  -- already active: nothing to do
      else (disconnected, [], .selectFailed)                              -- select refused: communication failure
    | .other => if f.b3 = 0 then (enterSelected (closeTx s f.sys), [], .none) else (closeTx s f.sys, [], .none)
  | .deselectRsp | .linktestRsp =>
    match txOf s f.sys with
    | .none | .data => (s, [reject f 3], .none)
    | .ownSelect => (disconnected, [], .selectFailed)                     -- wrong response to our Select.req
    | .other => (closeTx s f.sys, [], .none)
  -- §8.3.20: a Reject.req is never itself rejected; it fails the transaction it refers to, if any
  | .rejectReq =>
    match txOfAny s f.sys with
    | .none => (s, [], .none)
    | .ownSelect => (disconnected, [], .selectFailed)
    | .other => (closeTx s f.sys, [], .none)
    | .data => (closeDataTx s f.sys, [], .none)
  -- data: only while SELECTED (§7.10.3 reason 4 otherwise, byte 2 = SType 0)
  | .data =>
    if !selected s then (s, [reject f 4], .none)
    else if wantsS9F1 c f then (s, [.s9f1 c.sessionID f], .none)
    else if isReply f && s.openData.contains f.sys then (closeDataTx s f.sys, [], .none)
    else (s, [.deliver f], .none)

/-- The table folded over a frame sequence; a link that went down answers nothing any more. -/
def runTable (c : Cfg) : RState → List Frame → RState × List (List Out × Effect)
  | s, [] => (s, [])
  | s, f :: fs =>
    let r := if s.st = .notConnected then (s, [], Effect.none) else prescribed c s f
    let rest := runTable c r.1 fs
    (rest.1, (r.2.1, r.2.2) :: rest.2)

/-! ### History view of the session state (passive role / no own transactions) -/

/-- What a frame does to the session, judged from the frame alone. -/
inductive Mark | establishes | releases | separates | neutral
  deriving DecidableEq, Repr

def markOf (f : Frame) : Mark :=
  match classOf f with
  | .selectReq => .establishes
  | .deselectReq => .releases
  | .separateReq => .separates
  | _ => .neutral

/-- The session is SELECTED after a history iff its most recent non-neutral frame is a Select.req
    (scanning from the most recent frame; `init` = selected before the history). -/
def selectedAfter (init : Bool) : List Frame → Bool
  | [] => init
  | f :: older =>
    match markOf f with
    | .establishes => true
    | .releases => false
    | .separates => false
    | .neutral => selectedAfter init older

end GoSecs.E37
