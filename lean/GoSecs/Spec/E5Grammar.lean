/-
  SEMI E5 item grammar as a specification independent of the decoder: which byte strings denote
  which item values.  Unlike the encoder it admits every header the standard allows — any length-byte
  count 1..3 that can hold the length (non-canonical, longer-than-needed length fields included) —
  and any non-zero byte for boolean true.

  `Parses it bs`  : `bs` is exactly one encoded item whose value is `it`.
  `ParsesL cs bs` : `bs` is the concatenation of encodings of `cs`, in order.
-/
import GoSecs.Model.Secs2

namespace GoSecs.Secs2

/-- Value of a non-list item with format code `fc` and payload `p`. -/
def LeafVal : Item → Nat → Bytes → Prop
  | .binary bs, fc, p => fc = fcBinary ∧ p = bs
  | .boolean vs, fc, p => fc = fcBoolean ∧ p.map (fun b => b != 0) = vs
  | .ascii bs, fc, p => fc = fcASCII ∧ p = bs
  | .jis8 bs, fc, p => fc = fcJIS8 ∧ p = bs
  | .lstr l bs, fc, p => fc = fcLStr ∧ ∃ a b, p = a :: b :: bs ∧ l = a.toNat * 256 + b.toNat
  | .int w vs, fc, p => fc = fcInt w ∧ p = encInts w.bytes vs ∧ ∀ v ∈ vs, intLo w.bytes ≤ v ∧ v ≤ intHi w.bytes
  | .uint w vs, fc, p => fc = fcUint w ∧ p = encNats w.bytes vs ∧ ∀ v ∈ vs, v < 256 ^ w.bytes
  | .float w vs, fc, p => fc = fcFloat w ∧ p = encNats w.bytes vs ∧ ∀ v ∈ vs, v < 256 ^ w.bytes
  | .list _, _, _ => False
  | .empty, _, _ => False

/-- A header: format byte `fc<<2 | k` with `k ∈ 1..3` length bytes `lb` holding `n` big-endian. -/
def IsHeader (fc n : Nat) (hdr : Bytes) : Prop :=
  ∃ k lb, 1 ≤ k ∧ k ≤ 3 ∧ fc < 64 ∧ lb.length = k ∧ beVal lb = n ∧ hdr = UInt8.ofNat (fc * 4 + k) :: lb

mutual
def Parses : Item → Bytes → Prop
  | .list cs, bs => ∃ hdr body, bs = hdr ++ body ∧ IsHeader fcList cs.length hdr ∧ ParsesL cs body
  | .empty, _ => False
  | .binary x, bs => ∃ fc hdr p, bs = hdr ++ p ∧ IsHeader fc p.length hdr ∧ LeafVal (.binary x) fc p
  | .boolean x, bs => ∃ fc hdr p, bs = hdr ++ p ∧ IsHeader fc p.length hdr ∧ LeafVal (.boolean x) fc p
  | .ascii x, bs => ∃ fc hdr p, bs = hdr ++ p ∧ IsHeader fc p.length hdr ∧ LeafVal (.ascii x) fc p
  | .jis8 x, bs => ∃ fc hdr p, bs = hdr ++ p ∧ IsHeader fc p.length hdr ∧ LeafVal (.jis8 x) fc p
  | .lstr l x, bs => ∃ fc hdr p, bs = hdr ++ p ∧ IsHeader fc p.length hdr ∧ LeafVal (.lstr l x) fc p
  | .int w x, bs => ∃ fc hdr p, bs = hdr ++ p ∧ IsHeader fc p.length hdr ∧ LeafVal (.int w x) fc p
  | .uint w x, bs => ∃ fc hdr p, bs = hdr ++ p ∧ IsHeader fc p.length hdr ∧ LeafVal (.uint w x) fc p
  | .float w x, bs => ∃ fc hdr p, bs = hdr ++ p ∧ IsHeader fc p.length hdr ∧ LeafVal (.float w x) fc p
def ParsesL : List Item → Bytes → Prop
  | [], bs => bs = []
  | c :: cs, bs => ∃ p q, bs = p ++ q ∧ Parses c p ∧ ParsesL cs q
end

end GoSecs.Secs2
