/-
  Router invariants, part 2: channel / outcome contents, async queue, epochs, wire, delivery log, generator.
-/
import GoSecs.Lemmas.Router

set_option linter.unnecessarySimpa false

namespace GoSecs.Router

/-! ## I-chan: what can sit in a sender's reply channel and what it can return -/

def ResFor (w : Sender) : Res → Prop
  | .data _ sb fn wb => sb = w.sb ∧ isSecondaryReply wb fn = true ∧ w.kind.isData = true
  | .ctrl _ sb _ => sb = w.sb ∧ w.kind = .ctrl
  | .rej _ => True

/-- what a send call of a given kind can return. `nilnil` — SendDataMessage's `(nil, nil)` for a routed control
    message, the F5 defect — is unreachable since the registry matches reply kinds; a control transaction
    is never completed by a data message (`reply` only for the W-bit data kind). -/
def OutFor (w : Sender) : Outcome → Prop
  | .reply _ sb fn wb => sb = w.sb ∧ isSecondaryReply wb fn = true ∧ w.kind = .sync
  | .ctrlReply _ sb _ => sb = w.sb ∧ w.kind = .ctrl
  | .nilnil _ => False
  | .reject _ => w.kind.correlates = true
  | .timeout => w.kind.correlates = true
  | .closed => True
  | .ctx => w.kind ≠ .ff
  | .notOpen => True
  | .notSelected => w.kind.isData = true
  | .writeErr => w.kind ≠ .async
  | .sent => w.kind = .ff ∨ w.kind = .async

structure ChanOk (w : Sender) : Prop where
  chan : ∀ r, w.chan = some r → ResFor w r
  out : ∀ o, w.out = some o → OutFor w o

theorem chanOk_init (j : Nat) : ChanOk (init.s j) := by
  constructor <;> simp [init]

theorem offer_resFor (f : Frame) (sb : Nat) (r : Res) (h : f.offer = some (sb, r)) (w : Sender) (hw : w.sb = sb)
    (hm : f.matches w.kind = true) : ResFor w r := by
  cases f <;> simp only [Frame.offer] at h
  · split at h
    · simp only [Option.some.injEq, Prod.mk.injEq] at h
      obtain ⟨rfl, rfl⟩ := h
      simp_all [ResFor, Frame.matches]
    · simp at h
  · simp only [Option.some.injEq, Prod.mk.injEq] at h
    obtain ⟨rfl, rfl⟩ := h
    simp only [Frame.matches, Bool.not_eq_true'] at hm
    refine ⟨hw.symm, ?_⟩
    cases hk : w.kind <;> simp_all [Kind.isData]
  · simp only [Option.some.injEq, Prod.mk.injEq] at h
    obtain ⟨rfl, rfl⟩ := h
    simp [ResFor]
  · simp at h
  · simp at h

theorem chanOk_apply (c : Cfg) (a : Action) (he : enabled c a = true) (hp : ∀ j, PcOk (c.s j)) (hr : RegOk c)
    (h : ∀ j, ChanOk (c.s j)) : ∀ j, ChanOk ((apply c a).s j) := by
  apply sender_step c a h
  intro i w ht
  have hi := h i
  have hpi := hp i
  cases a
  case drain e ok =>
    obtain ⟨rest, _, rfl⟩ := touched_drain c e ok i w ht
    obtain ⟨g1, g2⟩ := hi
    unfold Sender.afterDrain
    split <;> constructor <;> simp_all [ResFor, OutFor]
  case recv e f =>
    obtain ⟨r, hd, rfl⟩ := touched_recv c e f i w ht
    obtain ⟨sb, hoff, hl, _, hm⟩ := dispatch_target c f i r hd
    obtain ⟨ce, _, hreg⟩ := lookup_reg c sb i hl
    have hsb := (hr ce sb i hreg).2.1
    obtain ⟨g1, g2⟩ := hi
    constructor
    · intro r' hr'
      simp only [Option.some.injEq] at hr'
      subst hr'
      exact offer_resFor f sb r hoff _ hsb hm
    · exact g2
  sender_cases he ht
  all_goals (obtain ⟨g1, g2⟩ := hi; obtain ⟨f1, f2, f3, f4, f5⟩ := hpi)
  case decide i ch =>
    cases ch <;> simp only [Sender.afterDecide]
    · -- recv: the channel value becomes the outcome
      cases hc : (c.s i).chan with
      | none => simp [hc] at he
      | some r =>
        have hrf := g1 r hc
        have hk := f3 (Or.inr (Or.inr (Or.inl he.1)))
        constructor
        · simp
        · intro o ho
          simp only [Option.some.injEq] at ho
          subst ho
          cases r with
          | data fid sb fn wb =>
            simp only [outcomeOfRes, OutFor]
            obtain ⟨r1, r2, r3⟩ := hrf
            refine ⟨r1, r2, ?_⟩
            cases hkk : (c.s i).kind <;> simp_all [Kind.correlates, Kind.isData]
          | rej reason => simp_all [outcomeOfRes, OutFor]
          | ctrl fid sb st =>
            obtain ⟨r1, r2⟩ := hrf
            simp [outcomeOfRes, r2, OutFor, r1]
    all_goals (
      have hk := f3 (Or.inr (Or.inr (Or.inl he.1)))
      constructor <;> simp_all [OutFor, ResFor]
      (try (intro hff; simp [hff, Kind.correlates] at hk)))
  case wcheck i =>
    rcases checkRes_cases c (c.s i).ep (c.s i).kind.isData with hc | hc | ⟨hc, hd⟩ <;>
      simp only [hc, Sender.afterCheck, Sender.leave, Sender.finish, WRes.outcome] <;>
      (try split) <;> constructor <;> simp_all [OutFor, ResFor]
  all_goals unfold_after
  all_goals (repeat' split)
  all_goals (constructor <;> simp_all [OutFor, ResFor, Kind.correlates, Kind.isData])
  all_goals (intro hk; simp_all)


theorem out_none_pre {w : Sender} (hp : PcOk w) (h : w.pc.rank ≤ 7) : w.out = none := by
  cases ho : w.out with
  | none => rfl
  | some o =>
    have := hp.out_iff.mpr (by simp [ho])
    rcases this with h1 | h1 | h1 <;> simp [h1, Pc.rank] at h

/-! ## every step, seen from an arbitrary sender j -/

theorem apply_sender_stable (c : Cfg) (a : Action) (he : enabled c a = true) (j : Nat) :
    (c.s j).pc.rank ≤ ((apply c a).s j).pc.rank ∧
    ((c.s j).pc ≠ .new → ((apply c a).s j).kind = (c.s j).kind ∧ ((apply c a).s j).sb = (c.s j).sb ∧ ((apply c a).s j).raw = (c.s j).raw) ∧
    ((c.s j).pc ≠ .new → (c.s j).pc ≠ .begun → ((apply c a).s j).ep = (c.s j).ep) := by
  rw [apply_s]
  cases hta : touched c a with
  | none => simp
  | some p =>
    obtain ⟨i, w⟩ := p
    simp only [upd_apply]
    by_cases hj : j = i
    · subst hj
      simp only [if_true]
      exact touched_stable c a j w he hta
    · simp [hj]

theorem rank_done (p : Pc) (h : 10 ≤ p.rank) : p = .done := by
  cases p <;> simp [Pc.rank] at h ⊢

theorem rank_ge_written (p : Pc) : 6 ≤ p.rank ↔ (p = .written ∨ p = .waiting ∨ p = .decided ∨ p = .unwinding ∨ p = .done) := by
  cases p <;> simp [Pc.rank]

/-! ## I-queue: the per-generation async queue holds returned SendAsync calls pinned to that generation -/

def QueueOk (c : Cfg) : Prop :=
  ∀ e i, i ∈ c.queue e → (c.s i).kind = .async ∧ (c.s i).pc = .done ∧ (c.s i).ep = e

theorem queueOk_init : QueueOk init := by
  intro e i h; simp [init] at h

theorem queueOk_apply (c : Cfg) (a : Action) (he : enabled c a = true) (hq : QueueOk c) : QueueOk (apply c a) := by
  intro e j hj
  -- membership in the old queue, or j is the sender being enqueued
  have hmem : j ∈ c.queue e ∨ (∃ i, a = .enqueue i .recv ∧ j = i ∧ e = (c.s i).ep) := by
    rw [apply_queue] at hj
    cases a <;> simp only at hj <;> try (exact Or.inl hj)
    case enqueue i ch =>
      by_cases hch : ch = .recv
      · subst hch
        simp only [if_true, upd_apply] at hj
        by_cases h1 : e = (c.s i).ep
        · simp only [h1, if_true, List.mem_append, List.mem_singleton] at hj
          rcases hj with hj | hj
          · exact Or.inl (h1 ▸ hj)
          · exact Or.inr ⟨i, rfl, hj, h1⟩
        · simp only [h1, if_false] at hj
          exact Or.inl hj
      · simp only [hch, if_false] at hj
        exact Or.inl hj
    case drain e' ok =>
      cases hq' : c.queue e' with
      | nil => simp only [hq'] at hj; exact Or.inl hj
      | cons i0 rest =>
        simp only [hq', upd_apply] at hj
        by_cases h1 : e = e'
        · subst h1
          simp only [if_true] at hj
          exact Or.inl (by rw [hq']; exact List.mem_cons_of_mem _ hj)
        · simp only [h1, if_false] at hj
          exact Or.inl hj
  rcases hmem with hold | ⟨i, rfl, rfl, rfl⟩
  · obtain ⟨q1, q2, q3⟩ := hq e j hold
    obtain ⟨s1, s2, s3⟩ := apply_sender_stable c a he j
    have hn : (c.s j).pc ≠ .new := by simp [q2]
    have hb : (c.s j).pc ≠ .begun := by simp [q2]
    refine ⟨by rw [(s2 hn).1, q1], ?_, by rw [s3 hn hb, q3]⟩
    apply rank_done
    simpa [q2, Pc.rank] using s1
  · simp only [enabled, Bool.and_eq_true, decide_eq_true_eq] at he
    rw [apply_s]
    simp [touched, Sender.afterEnqueue, Sender.finish, he.1.2]

/-! ## I-epoch: generations -/

structure EpochOk (c : Cfg) : Prop where
  cur_lt : ∀ e, c.cur = some e → e < c.nEpochs
  alive : ∀ e, e < c.nEpochs → (c.ep e).joined = false → c.cur = some e
  down : ∀ e, (c.ep e).ctxDone = true → (c.ep e).connOpen = false

theorem epochOk_init : EpochOk init := by
  constructor <;> simp [init]

theorem epochOk_apply (c : Cfg) (a : Action) (he : enabled c a = true) (h : EpochOk c) : EpochOk (apply c a) := by
  obtain ⟨h1, h2, h3⟩ := h
  constructor
  · intro e hc
    rw [apply_cur] at hc
    rw [apply_nEpochs]
    cases a <;> simp only at hc ⊢ <;> first | exact h1 e hc | skip
    simp only [Option.some.injEq] at hc
    omega
  · intro e hlt hj
    rw [apply_nEpochs] at hlt
    rw [apply_ep] at hj
    rw [apply_cur]
    cases a <;> simp only at hlt hj ⊢ <;> first | exact h2 e hlt hj | skip
    case publish =>
      simp only [enabled, curJoined] at he
      by_cases hlt' : e < c.nEpochs
      · have := h2 e hlt' hj
        simp [this, hj] at he
      · congr 1; omega
    case connUp =>
      cases hc : c.cur with
      | none => simp only [hc] at hj; simpa [hc] using h2 e hlt hj
      | some ce =>
        simp only [hc, upd_apply] at hj
        split at hj
        · subst_vars; simpa [hc] using h2 _ hlt hj
        · simp [hc] at *; exact h2 e hlt hj
    case teardown e' =>
      simp only [upd_apply] at hj
      split at hj
      · subst_vars; exact h2 _ hlt hj
      · exact h2 e hlt hj
    case join e' =>
      simp only [upd_apply] at hj
      split at hj
      · simp at hj
      · exact h2 e hlt hj
  · intro e hd
    rw [apply_ep] at hd ⊢
    cases a <;> simp only at hd ⊢ <;> first | exact h3 e hd | skip
    case connUp =>
      simp only [enabled] at he
      cases hc : c.cur with
      | none => simp only [hc] at hd ⊢; exact h3 e hd
      | some ce =>
        simp only [hc, upd_apply] at hd ⊢ he
        split at hd
        · subst_vars; simp_all
        · simp_all
    case teardown e' =>
      simp only [upd_apply] at hd ⊢
      split
      · rfl
      · simp_all
    case join e' =>
      simp only [upd_apply] at hd ⊢
      split
      · subst_vars; simp_all
      · simp_all

end GoSecs.Router
