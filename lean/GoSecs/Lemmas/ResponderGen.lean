/-
  Tie between the HSMS-SS receive-side dispatcher regenerated from hsmsss/transport_recv.go and
  hsmsss/transport_control.go (GoSecs/Gen/Hsmsss.lean, effect mode: every call through `hsms.TransportRuntime` and
  every timer / linktest procedure is an entry of the effect trace, the runtime's answers come from the oracle
  list) and the model `Responder.dispatch` (GoSecs/Model/Responder.lean).

  The frame is `wire h body`: the ten header bytes `h` (GoSecs/Model/Hsms.lean) followed by the body; the model
  sees `frameOf h body`.  `answers` lists what the runtime answers along the dispatcher's path (State(), the decoded
  control message, RouteReply's verdict, CommitSelected's verdict), each computed from the model state at that
  point; `applyEff` gives every trace entry its meaning over the model's state.  `dispatch_gen_tie`: for every state
  with the link up and every frame, the regenerated dispatcher returns `some`, uses up exactly `answers`, returns
  false exactly on a peer Separate while Selected, and folding `applyEff` over its trace yields exactly
  `Responder.dispatch`.

  Assumptions visible here: hsms.Message values in package hsmsss are *hsms.ControlMessage (translator table
  devirtIn; decodeControlFrame is an oracle whose answer is the frame's own header, nil error); metrics and
  trace logging leave no trace (ignore table).  Core Lean only.
-/
import GoSecs.Lemmas.Responder
import GoSecs.Lemmas.HsmsGen
import GoSecs.Gen.Hsmsss

set_option linter.unusedSimpArgs false

namespace GoSecs.Responder
open GoSecs.Gen GoSecs.Hsms

/-- The frame `readFrame` hands over: the ten header bytes, then the body. -/
def wire (h : Header) (body : Bytes) : Bytes := h.toBytes ++ body

/-- The model's view of that frame. -/
def frameOf (h : Header) (body : Bytes) : Frame :=
  ⟨h.sessionID, h.b2.toNat, h.b3.toNat, h.ptype.toNat, h.stype.toNat, idOfSys h.sys, body.length⟩

theorem wire_eq (h : Header) (body : Bytes) :
    wire h body = h.sid0 :: h.sid1 :: h.b2 :: h.b3 :: h.ptype :: h.stype :: h.sys0 :: h.sys1 :: h.sys2 :: h.sys3 :: body := rfl

theorem idx4 (h : Header) (body : Bytes) : Go.idx? (wire h body) 4 = some (h.ptype.toNat : Int) := by
  simp [wire_eq, Go.idx?, Go.u8]
theorem idx5 (h : Header) (body : Bytes) : Go.idx? (wire h body) 5 = some (h.stype.toNat : Int) := by
  simp [wire_eq, Go.idx?, Go.u8]
theorem slice02 (h : Header) (body : Bytes) : Go.slice? (wire h body) 0 2 = some [h.sid0, h.sid1] := by
  simp [wire_eq, Go.slice?, Go.slice]; omega
theorem slice610 (h : Header) (body : Bytes) : Go.slice? (wire h body) 6 10 = some [h.sys0, h.sys1, h.sys2, h.sys3] := by
  simp [wire_eq, Go.slice?, Go.slice]; omega
theorem len_wire (h : Header) (body : Bytes) : Go.len (wire h body) = 10 + (body.length : Int) := by
  simp [wire_eq, Go.len]; omega
theorem beU16_sid (h : Header) : Go.beU16? [h.sid0, h.sid1] = some (h.sessionID : Int) := by
  simp [Go.beU16?, Go.beU16, Go.getB, Go.u8, Header.sessionID]

/-- what `SendAsync(ctx, m)` leaves in the trace -/
def sendEff (m : ControlMsg) : Go.Effect :=
  .call "hsms.TransportRuntime.SendAsync" [.opaque, .bytes m.hdr.toBytes, .bool m.replyExpected]

theorem toVals_toGen (m : ControlMsg) : hsms_ControlMessage.toVals m.toGen = [.bytes m.hdr.toBytes, .bool m.replyExpected] := rfl

theorem copy4 (a b c d : UInt8) : Go.copy (List.replicate 4 0) [a, b, c, d] = [a, b, c, d] := by
  simp [Go.copy]

theorem sendReject_gen (t : hsmsss_transport) (h : Header) (body : Bytes) :
    hsmsss_transport_sendReject t (wire h body) (h.ptype.toNat : Int) (h.stype.toNat : Int) =
      some [sendEff (newRejectReqRaw h.sessionID h.ptype h.stype h.sys
        (if h.ptype.toNat ≠ 0 then 2 else 1))] := by
  unfold hsmsss_transport_sendReject
  simp only [slice02, slice610, beU16_sid, Option.bind_some, copy4]
  have hs : [h.sys0, h.sys1, h.sys2, h.sys3] = h.sys.toBytes := rfl
  by_cases hp : h.ptype.toNat = 0
  · have hb : ((h.ptype.toNat : Int) != 0) = false := by simp [hp]
    have e : (if h.ptype.toNat ≠ 0 then (2 : UInt8) else 1) = 1 := by simp [hp]
    rw [e]
    simp only [hb, hs, Bool.false_eq_true, reduceIte, Option.bind_some]
    have := newRejectReqRaw_gen h.sessionID h.ptype h.stype h.sys 1
    have r1 : (((1 : UInt8).toNat : Nat) : Int) = (1 : Int) := rfl
    rw [r1] at this
    rw [this]
    simp [sendEff, toVals_toGen]
  · have hb : ((h.ptype.toNat : Int) != 0) = true := by simp; omega
    have e : (if h.ptype.toNat ≠ 0 then (2 : UInt8) else 1) = 2 := by simp [hp]
    rw [e]
    simp only [hb, hs, reduceIte, Option.bind_some]
    have := newRejectReqRaw_gen h.sessionID h.ptype h.stype h.sys 2
    have r2 : (((2 : UInt8).toNat : Nat) : Int) = (2 : Int) := rfl
    rw [r2] at this
    rw [this]
    simp [sendEff, toVals_toGen]

theorem sendRejectNotSelected_gen (t : hsmsss_transport) (h : Header) (body : Bytes) :
    hsmsss_transport_sendRejectNotSelected t (wire h body) =
      some [sendEff (newRejectReqRaw h.sessionID 0 0 h.sys 4)] := by
  unfold hsmsss_transport_sendRejectNotSelected
  simp only [slice02, slice610, beU16_sid, Option.bind_some, copy4]
  have hs : [h.sys0, h.sys1, h.sys2, h.sys3] = h.sys.toBytes := rfl
  have := newRejectReqRaw_gen h.sessionID 0 0 h.sys 4
  have r0 : (((0 : UInt8).toNat : Nat) : Int) = (0 : Int) := rfl
  have r4 : (((4 : UInt8).toNat : Nat) : Int) = (4 : Int) := rfl
  rw [r0, r4] at this
  rw [hs, this]
  simp [sendEff, toVals_toGen]

theorem sendRejectTransactionNotOpen_gen (t : hsmsss_transport) (h : Header) (body : Bytes) :
    hsmsss_transport_sendRejectTransactionNotOpen t (wire h body) =
      some [sendEff (newRejectReqRaw h.sessionID 0 h.stype h.sys 3)] := by
  unfold hsmsss_transport_sendRejectTransactionNotOpen
  simp only [slice02, slice610, beU16_sid, idx5, Option.bind_some, copy4]
  have hs : [h.sys0, h.sys1, h.sys2, h.sys3] = h.sys.toBytes := rfl
  have := newRejectReqRaw_gen h.sessionID 0 h.stype h.sys 3
  have r0 : (((0 : UInt8).toNat : Nat) : Int) = (0 : Int) := rfl
  have r3 : (((3 : UInt8).toNat : Nat) : Int) = (3 : Int) := rfl
  rw [r0, r3] at this
  rw [hs, this]
  simp [sendEff, toVals_toGen]

/-! ### the responders, on the decoded request `⟨h, re⟩` -/

theorem handleSelectReq_gen (t : hsmsss_transport) (g : hsmsss_genWG) (req : ControlMsg) (fresh : Bool)
    (rest : List Go.Val) (hty : req.type = Hsms.stSelectReq) :
    hsmsss_transport_handleSelectReq t g req.toGen (.bool fresh :: rest) =
      ([.call "hsms.TransportRuntime.CommitSelected" []] ++
        (if fresh then [.call "hsmsss.transport.cancelT7" [], .call "hsmsss.transport.startLinktest" []] else []) ++
        [sendEff ⟨ctlHeader req.hdr.sid0 req.hdr.sid1 0 (if fresh then 0 else 1) Hsms.stSelectRsp req.hdr.sys, false⟩], rest) := by
  unfold hsmsss_transport_handleSelectReq
  cases fresh
  · have := newSelectRsp_gen req 1
    have r1 : (((1 : UInt8).toNat : Nat) : Int) = (1 : Int) := rfl
    rw [r1] at this
    simp [Go.orc, Go.Val.asBool, this, newSelectRsp, hty, sendEff, toVals_toGen, hsmsss_genWG.toVals]
  · have := newSelectRsp_gen req 0
    have r0 : (((0 : UInt8).toNat : Nat) : Int) = (0 : Int) := rfl
    rw [r0] at this
    simp [Go.orc, Go.Val.asBool, this, newSelectRsp, hty, sendEff, toVals_toGen, hsmsss_genWG.toVals]

theorem handleLinktestReq_gen (t : hsmsss_transport) (req : ControlMsg) (hty : req.type = Hsms.stLinktestReq) :
    hsmsss_transport_handleLinktestReq t req.toGen =
      [sendEff ⟨ctlHeader 0xFF 0xFF 0 0 Hsms.stLinktestRsp req.hdr.sys, false⟩] := by
  unfold hsmsss_transport_handleLinktestReq
  simp [newLinktestRsp_gen req, newLinktestRsp, hty, sendEff, toVals_toGen]

theorem handleDeselectReq_gen (t : hsmsss_transport) (g : hsmsss_genWG) (req : ControlMsg) (st : Int)
    (rest : List Go.Val) (hty : req.type = Hsms.stDeselectReq) :
    hsmsss_transport_handleDeselectReq t g req.toGen (.int st :: rest) =
      ([.call "hsms.TransportRuntime.State" [],
        sendEff ⟨ctlHeader req.hdr.sid0 req.hdr.sid1 0 (if st = 2 then 0 else 1) Hsms.stDeselectRsp req.hdr.sys, false⟩] ++
        (if st = 2 then [.call "hsms.TransportRuntime.SelectLost" [], .call "hsmsss.transport.stopLinktest" [],
          .call "hsmsss.transport.armT7" []] else []), rest) := by
  unfold hsmsss_transport_handleDeselectReq
  by_cases h2 : st = 2
  · subst h2
    have := newDeselectRsp_gen req 0
    have r0 : (((0 : UInt8).toNat : Nat) : Int) = (0 : Int) := rfl
    rw [r0] at this
    simp [Go.orc, Go.Val.asInt, this, newDeselectRsp, hty, sendEff, toVals_toGen, hsmsss_genWG.toVals]
  · have := newDeselectRsp_gen req 1
    have r1 : (((1 : UInt8).toNat : Nat) : Int) = (1 : Int) := rfl
    rw [r1] at this
    simp [Go.orc, Go.Val.asInt, this, newDeselectRsp, hty, sendEff, toVals_toGen, hsmsss_genWG.toVals, h2]

theorem handleSeparateReq_gen (t : hsmsss_transport) (st : Int) (rest : List Go.Val) :
    hsmsss_transport_handleSeparateReq t (.int st :: rest) =
      (decide (st ≠ 2), [.call "hsms.TransportRuntime.State" []] ++
        (if st = 2 then [.call "hsms.TransportRuntime.TCPDown" [.err (some "errPeerSeparate")]] else []), rest) := by
  unfold hsmsss_transport_handleSeparateReq
  by_cases h2 : st = 2 <;> simp [Go.orc, Go.Val.asInt, h2]

/-! ## The runtime the dispatcher talks to, over the model's state

  `dispatchFrame` calls the core through `hsms.TransportRuntime` and four transport procedures.  Their meaning is
  the model's: `State()` reads `st`; `CommitSelected` is the guarded NotSelected → Selected commit; `SelectLost`
  the guarded Selected → NotSelected one; `cancelT7` / `armT7` clear / set the dwell flag (`armT7` is a no-op with
  T7 disabled); `TCPDown` takes the generation down; `SendAsync` queues the message; `DeliverOwnedFrame` is the
  core's session-id check / reply routing / delivery (`deliverRt`); `RouteReply` wakes the waiter registered under
  the system bytes, and what `runSelectProcedure` does when that waiter is our own Select.req is folded in
  (`routeRt`), exactly as in `Responder.handleResponse`. -/

def encSt : St → Int
  | .notConnected => 0
  | .notSelected => 1
  | .selected => 2

/-- `DeliverOwnedFrame`: the part of `handleData` behind the Selected check. -/
def deliverRt (c : Cfg) (s : RState) (f : Frame) : RState × List Out :=
  if c.validate && !isS9F1 f && f.session != c.sessionID then (s, [.s9f1 c.sessionID f])
  else if isSecondaryReply f then
    if f.sys ∈ s.openData then (closeData s f.sys, []) else (s, [.deliver f])
  else (s, [.deliver f])

/-- `RouteReply(msg)`: (state after the waiter ran, link effect, hit). -/
def routeRt (s : RState) (f : Frame) : RState × Effect × Bool :=
  if f.stype = stRejectReq then
    match lookupAny s f.sys with
    | .miss => (s, .none, false)
    | .other => (close s f.sys, .none, true)
    | .data => (closeData s f.sys, .none, true)
    | .ownSelect => (down s, .selectFailed, true)
  else
    match lookup s f.sys with
    | .miss | .data => (s, .none, false)
    | .other => (close s f.sys, .none, true)
    | .ownSelect =>
      if f.stype = stSelectRsp ∧ (f.b3 = selectStatusSuccess ∨ f.b3 = selectStatusAlreadyActive) then
        (close s f.sys, .none, true)
      else (down s, .selectFailed, true)

def outOfHeader (h : Header) : Out := .ctrl h.sessionID h.b2.toNat h.b3.toNat h.stype.toNat (idOfSys h.sys)

/-- One entry of the dispatcher's trace, applied to (state, frames queued so far, link effect). -/
def applyEff (c : Cfg) (acc : RState × List Out × Effect) (e : Go.Effect) : RState × List Out × Effect :=
  match e with
  | .call "hsms.TransportRuntime.SendAsync" [.opaque, .bytes hb, .bool _] =>
    match Header.ofBytes hb with
    | some (h, _) => (acc.1, acc.2.1 ++ [outOfHeader h], acc.2.2)
    | none => acc
  | .call "hsms.TransportRuntime.DeliverOwnedFrame" [.bytes fr] =>
    match Header.ofBytes fr with
    | some (h, body) => ((deliverRt c acc.1 (frameOf h body)).1, acc.2.1 ++ (deliverRt c acc.1 (frameOf h body)).2, acc.2.2)
    | none => acc
  | .call "hsms.TransportRuntime.RouteReply" [.bytes hb, .bool _] =>
    match Header.ofBytes hb with
    | some (h, body) => ((routeRt acc.1 (frameOf h body)).1, acc.2.1, (routeRt acc.1 (frameOf h body)).2.1)
    | none => acc
  | .call "hsms.TransportRuntime.CommitSelected" [] =>
    (if acc.1.st = .notSelected then { acc.1 with st := .selected } else acc.1, acc.2.1, acc.2.2)
  | .call "hsms.TransportRuntime.SelectLost" [] =>
    (if acc.1.st = .selected then { acc.1 with st := .notSelected } else acc.1, acc.2.1, acc.2.2)
  | .call "hsms.TransportRuntime.TCPDown" [.err (some "errPeerSeparate")] => (down acc.1, acc.2.1, .peerSeparate)
  | .call "hsmsss.transport.cancelT7" [] => ({ acc.1 with t7 := false }, acc.2.1, acc.2.2)
  | .call "hsmsss.transport.armT7" [] => ({ acc.1 with t7 := c.t7 }, acc.2.1, acc.2.2)
  | _ => acc

section
variable (c : Cfg) (acc : RState × List Out × Effect)
theorem applyEff_send (m : ControlMsg) :
    applyEff c acc (sendEff m) = (acc.1, acc.2.1 ++ [outOfHeader m.hdr], acc.2.2) := rfl
theorem applyEff_deliver (h : Header) (body : Bytes) :
    applyEff c acc (.call "hsms.TransportRuntime.DeliverOwnedFrame" [.bytes (h.toBytes ++ body)]) =
      ((deliverRt c acc.1 (frameOf h body)).1, acc.2.1 ++ (deliverRt c acc.1 (frameOf h body)).2, acc.2.2) := rfl
theorem applyEff_route (m : ControlMsg) :
    applyEff c acc (.call "hsms.TransportRuntime.RouteReply" [.bytes m.hdr.toBytes, .bool m.replyExpected]) =
      ((routeRt acc.1 (frameOf m.hdr [])).1, acc.2.1, (routeRt acc.1 (frameOf m.hdr [])).2.1) := rfl
theorem applyEff_commit :
    applyEff c acc (.call "hsms.TransportRuntime.CommitSelected" []) =
      (if acc.1.st = .notSelected then { acc.1 with st := .selected } else acc.1, acc.2.1, acc.2.2) := rfl
theorem applyEff_selectLost :
    applyEff c acc (.call "hsms.TransportRuntime.SelectLost" []) =
      (if acc.1.st = .selected then { acc.1 with st := .notSelected } else acc.1, acc.2.1, acc.2.2) := rfl
theorem applyEff_tcpDown :
    applyEff c acc (.call "hsms.TransportRuntime.TCPDown" [.err (some "errPeerSeparate")]) =
      (down acc.1, acc.2.1, .peerSeparate) := rfl
theorem applyEff_cancelT7 :
    applyEff c acc (.call "hsmsss.transport.cancelT7" []) = ({ acc.1 with t7 := false }, acc.2.1, acc.2.2) := rfl
theorem applyEff_armT7 :
    applyEff c acc (.call "hsmsss.transport.armT7" []) = ({ acc.1 with t7 := c.t7 }, acc.2.1, acc.2.2) := rfl
theorem applyEff_state : applyEff c acc (.call "hsms.TransportRuntime.State" []) = acc := rfl
theorem applyEff_decode (b : Bytes) : applyEff c acc (.call "hsmsss.decodeControlFrame" [.bytes b]) = acc := rfl
theorem applyEff_startLinktest : applyEff c acc (.call "hsmsss.transport.startLinktest" []) = acc := rfl
theorem applyEff_stopLinktest : applyEff c acc (.call "hsmsss.transport.stopLinktest" []) = acc := rfl
end

/-- What the runtime answers along the dispatcher's path for this frame: `State()`, the decoded control
    message `⟨h, re⟩` with a nil error, the `RouteReply` verdict, the `CommitSelected` verdict. -/
def answers (c : Cfg) (s : RState) (h : Header) (body : Bytes) (re : Bool) : List Go.Val :=
  let f := frameOf h body
  let decoded : List Go.Val := [.bytes h.toBytes, .bool re, .err none]
  if f.ptype ≠ 0 || !isValidSType f.stype then []
  else if f.stype ≠ stData && f.bodyLen ≠ 0 then []
  else if f.stype = stData then [.int (encSt s.st)]
  else if f.stype = stSelectRsp ∨ f.stype = stDeselectRsp ∨ f.stype = stLinktestRsp ∨ f.stype = stRejectReq then
    decoded ++ [.bool (routeRt s f).2.2] ++
      (if (routeRt s f).2.2 = true ∧ f.stype = stSelectRsp ∧ f.b3 = selectStatusSuccess then
        [.bool (decide ((routeRt s f).1.st = .notSelected))] else [])
  else if f.stype = stSelectReq then decoded ++ [.bool (decide (s.st = .notSelected))]
  else if f.stype = stLinktestReq then decoded
  else if f.stype = stDeselectReq then decoded ++ [.int (encSt s.st)]
  else if f.stype = stSeparateReq then [.int (encSt s.st)]
  else []

/-! ## `dispatchFrame` -/

set_option maxRecDepth 8192 in
theorem valid_table : ∀ n : Nat, n < 256 → definedSType n = isValidSType n := by decide

theorem isValid_gen (h : Header) : hsms_IsValidSType (h.stype.toNat : Int) = isValidSType h.stype.toNat := by
  rw [isValidSType_table _ h.stype.toNat_lt, valid_table _ h.stype.toNat_lt]

theorem sid_roundtrip (h : Header) : sidHi h.sessionID = h.sid0 ∧ sidLo h.sessionID = h.sid1 := by
  have a := h.sid0.toNat_lt
  have b := h.sid1.toNat_lt
  constructor
  · unfold sidHi Header.sessionID
    have : (h.sid0.toNat * 256 + h.sid1.toNat) / 256 % 256 = h.sid0.toNat := by omega
    rw [this]; exact Go.ofNat_toNat _
  · unfold sidLo Header.sessionID
    have : (h.sid0.toNat * 256 + h.sid1.toNat) % 256 = h.sid1.toNat := by omega
    rw [this]; exact Go.ofNat_toNat _

theorem ofBytes_toBytes (h : Header) : Header.ofBytes h.toBytes = some (h, []) := rfl
theorem ofBytes_wire (h : Header) (body : Bytes) : Header.ofBytes (wire h body) = some (h, body) := rfl

/-- the statement of the tie -/
def DispatchTie (c : Cfg) (s : RState) (h : Header) (body : Bytes) (re : Bool) (t : hsmsss_transport)
    (g : hsmsss_genWG) : Prop :=
  ∃ tr, hsmsss_transport_dispatchFrame t g (wire h body) (answers c s h body re) =
      some (decide ((dispatch c s (frameOf h body)).2.2 ≠ .peerSeparate), tr, []) ∧
    tr.foldl (applyEff c) (s, [], .none) = dispatch c s (frameOf h body)

theorem outOf_reject (h : Header) (p st reason : UInt8) :
    outOfHeader (newRejectReqRaw h.sessionID p st h.sys reason).hdr =
      rejectRaw h.sessionID p.toNat st.toNat (idOfSys h.sys) reason.toNat := by
  have ⟨e1, e2⟩ := sid_roundtrip h
  unfold newRejectReqRaw
  simp only [e1, e2]
  unfold outOfHeader rejectRaw ctlHeader
  by_cases hr : reason.toNat = 2 <;> simp [hr, Hsms.rejectPTypeNotSupported, Responder.rejectPTypeNotSupported,
    Hsms.stRejectReq, Responder.stRejectReq, Header.sessionID, Header.sys]

/-! the model's dispatcher, branch by branch -/

theorem dispatch_reject1 (c : Cfg) (s : RState) (f : Frame) (hs : s.st ≠ .notConnected)
    (hc : (decide (f.ptype ≠ 0) || !isValidSType f.stype) = true) :
    dispatch c s f = (s, [sendReject f f.ptype f.stype], .none) := by
  unfold dispatch; rw [if_neg hs, if_pos hc]

theorem dg_reject1 (c : Cfg) (s : RState) (h : Header) (body : Bytes) (re : Bool) (t : hsmsss_transport)
    (g : hsmsss_genWG) (hs : s.st ≠ .notConnected)
    (hc : h.ptype.toNat ≠ 0 ∨ isValidSType h.stype.toNat = false) : DispatchTie c s h body re t g := by
  have hcond : ((h.ptype.toNat : Int) != 0 || !isValidSType h.stype.toNat) = true := by
    rcases hc with hp | hv
    · have : ((h.ptype.toNat : Int) != 0) = true := by simp; omega
      simp [this]
    · simp [hv]
  have hcondN : (decide ((frameOf h body).ptype ≠ 0) || !isValidSType (frameOf h body).stype) = true := by
    show (decide (h.ptype.toNat ≠ 0) || !isValidSType h.stype.toNat) = true
    rcases hc with hp | hv
    · simp [hp]
    · simp [hv]
  have hd := dispatch_reject1 c s (frameOf h body) hs hcondN
  have ha : answers c s h body re = [] := by unfold answers; simp only []; rw [if_pos hcondN]
  refine ⟨[sendEff (newRejectReqRaw h.sessionID h.ptype h.stype h.sys (if h.ptype.toNat ≠ 0 then 2 else 1))], ?_, ?_⟩
  · unfold hsmsss_transport_dispatchFrame
    simp only [idx4, idx5, Option.bind_some, isValid_gen, hcond, reduceIte, sendReject_gen, ha, hd]
    simp
  · rw [hd]
    simp only [List.foldl, applyEff, sendEff, ofBytes_toBytes, List.nil_append, outOf_reject]
    simp only [sendReject, frameOf]
    by_cases hp : h.ptype.toNat = 0 <;> simp [hp, Responder.rejectPTypeNotSupported, Responder.rejectSTypeNotSupported]

theorem not_reject1 (h : Header) (body : Bytes) (hp : h.ptype.toNat = 0) (hv : isValidSType h.stype.toNat = true) :
    ¬ ((decide ((frameOf h body).ptype ≠ 0) || !isValidSType (frameOf h body).stype) = true) := by
  show ¬ ((decide (h.ptype.toNat ≠ 0) || !isValidSType h.stype.toNat) = true)
  simp [hp, hv]

theorem gen_not_reject1 (h : Header) (hp : h.ptype.toNat = 0) (hv : isValidSType h.stype.toNat = true) :
    ((h.ptype.toNat : Int) != 0 || !isValidSType h.stype.toNat) = false := by
  simp [hp, hv]

theorem dg_reject2 (c : Cfg) (s : RState) (h : Header) (body : Bytes) (re : Bool) (t : hsmsss_transport)
    (g : hsmsss_genWG) (hs : s.st ≠ .notConnected) (hp : h.ptype.toNat = 0) (hv : isValidSType h.stype.toNat = true)
    (hst : h.stype.toNat ≠ 0) (hb : body.length ≠ 0) : DispatchTie c s h body re t g := by
  have h2 : (decide ((frameOf h body).stype ≠ stData) && decide ((frameOf h body).bodyLen ≠ 0)) = true := by
    show (decide (h.stype.toNat ≠ 0) && decide (body.length ≠ 0)) = true
    simp [hst, hb]
  have hd : dispatch c s (frameOf h body) = (s, [sendReject (frameOf h body) (frameOf h body).ptype (frameOf h body).stype], .none) := by
    unfold dispatch; rw [if_neg hs, if_neg (not_reject1 h body hp hv), if_pos h2]
  have ha : answers c s h body re = [] := by
    unfold answers; simp only []; rw [if_neg (not_reject1 h body hp hv), if_pos h2]
  have g2 : ((h.stype.toNat : Int) != 0 && Go.len (wire h body) != 10) = true := by
    rw [len_wire]
    have : ((h.stype.toNat : Int) != 0) = true := by simp; omega
    have : ((10 + (body.length : Int)) != 10) = true := by simp; omega
    simp [*]
  refine ⟨[sendEff (newRejectReqRaw h.sessionID h.ptype h.stype h.sys (if h.ptype.toNat ≠ 0 then 2 else 1))], ?_, ?_⟩
  · unfold hsmsss_transport_dispatchFrame
    simp only [idx4, idx5, Option.bind_some, isValid_gen, gen_not_reject1 h hp hv, g2, reduceIte, sendReject_gen, ha, hd,
      Bool.false_eq_true]
    simp
  · rw [hd]
    simp only [List.foldl, applyEff, sendEff, ofBytes_toBytes, List.nil_append, outOf_reject]
    simp only [sendReject, frameOf]
    simp [hp, Responder.rejectPTypeNotSupported, Responder.rejectSTypeNotSupported]

theorem encSt_ne2 (s : RState) : (encSt s.st != 2) = decide (s.st ≠ .selected) := by
  cases s.st <;> rfl

theorem handleData_eff (c : Cfg) (s : RState) (f : Frame) : (handleData c s f).2.2 = .none := by
  unfold handleData; repeat' split
  all_goals rfl

theorem handleData_selected (c : Cfg) (s : RState) (f : Frame) (hsel : s.st = .selected) :
    handleData c s f = ((deliverRt c s f).1, (deliverRt c s f).2, .none) := by
  unfold handleData deliverRt
  have : ¬ (s.st ≠ .selected) := by simp [hsel]
  rw [if_neg this]
  repeat' split
  all_goals rfl

theorem dg_data (c : Cfg) (s : RState) (h : Header) (body : Bytes) (re : Bool) (t : hsmsss_transport)
    (g : hsmsss_genWG) (hs : s.st ≠ .notConnected) (hp : h.ptype.toNat = 0) (hst : h.stype.toNat = 0) :
    DispatchTie c s h body re t g := by
  have hv : isValidSType h.stype.toNat = true := by rw [hst]; rfl
  have h2 : ¬ ((decide ((frameOf h body).stype ≠ stData) && decide ((frameOf h body).bodyLen ≠ 0)) = true) := by
    show ¬ ((decide (h.stype.toNat ≠ 0) && decide (body.length ≠ 0)) = true)
    simp [hst]
  have h3 : (frameOf h body).stype = stData := hst
  have hd : dispatch c s (frameOf h body) = handleData c s (frameOf h body) := by
    unfold dispatch; rw [if_neg hs, if_neg (not_reject1 h body hp hv), if_neg h2, if_pos h3]
  have ha : answers c s h body re = [.int (encSt s.st)] := by
    unfold answers; simp only []; rw [if_neg (not_reject1 h body hp hv), if_neg h2, if_pos h3]
  have g2 : ((h.stype.toNat : Int) != 0 && Go.len (wire h body) != 10) = false := by simp [hst]
  have g3 : ((h.stype.toNat : Int) == 0) = true := by simp [hst]
  by_cases hsel : s.st = .selected
  · refine ⟨[.call "hsms.TransportRuntime.State" [], .call "hsms.TransportRuntime.DeliverOwnedFrame" [.bytes (wire h body)]], ?_, ?_⟩
    · unfold hsmsss_transport_dispatchFrame
      simp only [idx4, idx5, Option.bind_some, isValid_gen, gen_not_reject1 h hp hv, g2, g3, reduceIte, ha, hd,
        Bool.false_eq_true, ite_self, Go.orc, List.headD_cons, Go.Val.asInt, encSt_ne2, hsel]
      simp [handleData_eff, encSt]
    · rw [hd, handleData_selected c s _ hsel]
      simp only [List.foldl, applyEff_state, wire, applyEff_deliver, List.nil_append]
  · refine ⟨[.call "hsms.TransportRuntime.State" [], sendEff (newRejectReqRaw h.sessionID 0 0 h.sys 4)], ?_, ?_⟩
    · unfold hsmsss_transport_dispatchFrame
      simp only [idx4, idx5, Option.bind_some, isValid_gen, gen_not_reject1 h hp hv, g2, g3, reduceIte, ha, hd,
        Bool.false_eq_true, ite_self, Go.orc, List.headD_cons, Go.Val.asInt, encSt_ne2, hsel, sendRejectNotSelected_gen]
      simp [handleData_eff, hsel]
    · rw [hd]
      simp only [List.foldl, applyEff_state, applyEff_send, List.nil_append, outOf_reject]
      simp [handleData, hsel, sendRejectNotSelected, frameOf, Responder.rejectNotSelected]

theorem ofVals_decoded (h : Header) (re : Bool) (rest : List Go.Val) :
    hsms_ControlMessage.ofVals (.bytes h.toBytes :: .bool re :: rest) = ((⟨h, re⟩ : ControlMsg).toGen, rest) := rfl

theorem type_of (h : Header) (re : Bool) (hv : isValidSType h.stype.toNat = true) :
    (⟨h, re⟩ : ControlMsg).type = h.stype.toNat := by
  unfold ControlMsg.type
  rw [valid_table _ h.stype.toNat_lt, hv]; rfl

theorem outOf_ctl (h : Header) (b2 b3 : UInt8) (k : Nat) (hk : k < 256) :
    outOfHeader (ctlHeader h.sid0 h.sid1 b2 b3 k h.sys) = .ctrl h.sessionID b2.toNat b3.toNat k (idOfSys h.sys) := by
  unfold outOfHeader ctlHeader
  simp [Header.sessionID, Header.sys, Nat.mod_eq_of_lt hk]

/-- the common prefix of the three control-request branches and the separate branch -/
theorem dispatch_ctl (c : Cfg) (s : RState) (h : Header) (body : Bytes) (hs : s.st ≠ .notConnected)
    (hp : h.ptype.toNat = 0) (hv : isValidSType h.stype.toNat = true) (hst : h.stype.toNat ≠ 0) (hb : body = []) :
    dispatch c s (frameOf h body) =
      (let f := frameOf h body
       if f.stype = stSelectRsp ∨ f.stype = stDeselectRsp ∨ f.stype = stLinktestRsp ∨ f.stype = stRejectReq then
         handleResponse s f
       else if f.stype = stSelectReq then handleSelectReq s f
       else if f.stype = stLinktestReq then handleLinktestReq s f
       else if f.stype = stDeselectReq then handleDeselectReq c s f
       else if f.stype = stSeparateReq then handleSeparateReq s
       else (s, [], .none)) := by
  have h2 : ¬ ((decide ((frameOf h body).stype ≠ stData) && decide ((frameOf h body).bodyLen ≠ 0)) = true) := by
    show ¬ ((decide (h.stype.toNat ≠ 0) && decide (body.length ≠ 0)) = true)
    simp [hb]
  have h3 : ¬ (frameOf h body).stype = stData := hst
  unfold dispatch; rw [if_neg hs, if_neg (not_reject1 h body hp hv), if_neg h2, if_neg h3]

theorem answers_ctl (c : Cfg) (s : RState) (h : Header) (body : Bytes) (re : Bool)
    (hp : h.ptype.toNat = 0) (hv : isValidSType h.stype.toNat = true) (hst : h.stype.toNat ≠ 0) (hb : body = []) :
    answers c s h body re =
      (let f := frameOf h body
       let decoded : List Go.Val := [.bytes h.toBytes, .bool re, .err none]
       if f.stype = stSelectRsp ∨ f.stype = stDeselectRsp ∨ f.stype = stLinktestRsp ∨ f.stype = stRejectReq then
         decoded ++ [.bool (routeRt s f).2.2] ++
           (if (routeRt s f).2.2 = true ∧ f.stype = stSelectRsp ∧ f.b3 = selectStatusSuccess then
             [.bool (decide ((routeRt s f).1.st = .notSelected))] else [])
       else if f.stype = stSelectReq then decoded ++ [.bool (decide (s.st = .notSelected))]
       else if f.stype = stLinktestReq then decoded
       else if f.stype = stDeselectReq then decoded ++ [.int (encSt s.st)]
       else if f.stype = stSeparateReq then [.int (encSt s.st)]
       else []) := by
  have h2 : ¬ ((decide ((frameOf h body).stype ≠ stData) && decide ((frameOf h body).bodyLen ≠ 0)) = true) := by
    show ¬ ((decide (h.stype.toNat ≠ 0) && decide (body.length ≠ 0)) = true)
    simp [hb]
  have h3 : ¬ (frameOf h body).stype = stData := hst
  unfold answers; simp only []; rw [if_neg (not_reject1 h body hp hv), if_neg h2, if_neg h3]

/-- the generated dispatcher up to the switch, for a header-only control frame -/
theorem gen_prefix (h : Header) (hp : h.ptype.toNat = 0) (hv : isValidSType h.stype.toNat = true)
    (hst : h.stype.toNat ≠ 0) :
    ((h.ptype.toNat : Int) != 0 || !isValidSType h.stype.toNat) = false ∧
    ((h.stype.toNat : Int) != 0 && Go.len (wire h []) != 10) = false ∧
    ((h.stype.toNat : Int) == 0) = false := by
  refine ⟨gen_not_reject1 h hp hv, ?_, ?_⟩
  · rw [len_wire]; simp
  · simp; omega

@[simp] theorem frameOf_stype (h : Header) (b : Bytes) : (frameOf h b).stype = h.stype.toNat := rfl
@[simp] theorem frameOf_session (h : Header) (b : Bytes) : (frameOf h b).session = h.sessionID := rfl
@[simp] theorem frameOf_sys (h : Header) (b : Bytes) : (frameOf h b).sys = idOfSys h.sys := rfl
@[simp] theorem frameOf_b3 (h : Header) (b : Bytes) : (frameOf h b).b3 = h.b3.toNat := rfl

theorem dg_selectReq (c : Cfg) (s : RState) (h : Header) (re : Bool) (t : hsmsss_transport)
    (g : hsmsss_genWG) (hs : s.st ≠ .notConnected) (hp : h.ptype.toNat = 0) (hst : h.stype.toNat = 1) :
    DispatchTie c s h [] re t g := by
  have hv : isValidSType h.stype.toNat = true := by rw [hst]; rfl
  have hne : h.stype.toNat ≠ 0 := by omega
  obtain ⟨p1, p2, p3⟩ := gen_prefix h hp hv hne
  have hd : dispatch c s (frameOf h []) = handleSelectReq s (frameOf h []) := by
    rw [dispatch_ctl c s h [] hs hp hv hne rfl]
    simp [hst, stSelectRsp, stDeselectRsp, stLinktestRsp, stRejectReq, stSelectReq]
  have ha : answers c s h [] re =
      [.bytes h.toBytes, .bool re, .err none, .bool (decide (s.st = .notSelected))] := by
    rw [answers_ctl c s h [] re hp hv hne rfl]
    simp [hst, stSelectRsp, stDeselectRsp, stLinktestRsp, stRejectReq, stSelectReq]
  have hty := type_of h re hv
  have hsel := handleSelectReq_gen t g ⟨h, re⟩ (decide (s.st = .notSelected)) [] (by rw [hty, hst]; rfl)
  have hout0 := outOf_ctl h 0 0 2 (by decide)
  have hout1 := outOf_ctl h 0 1 2 (by decide)
  have u0 : (0 : UInt8).toNat = 0 := rfl
  have u1 : (1 : UInt8).toNat = 1 := rfl
  rw [u0] at hout0 hout1
  rw [u1] at hout1
  refine ⟨[.call "hsmsss.decodeControlFrame" [.bytes (wire h [])]] ++
      (hsmsss_transport_handleSelectReq t g (⟨h, re⟩ : ControlMsg).toGen [.bool (decide (s.st = .notSelected))]).1, ?_, ?_⟩
  · unfold hsmsss_transport_dispatchFrame
    simp only [idx4, idx5, Option.bind_some, isValid_gen, p1, p2, p3, reduceIte, Bool.false_eq_true, ite_self, ha]
    simp only [hst]
    simp [ofVals_decoded, Go.orc, Go.Val.asErr, hsmsss_transport_handleControlReq, controlType_gen, hty, hst, hsel]
    rw [hd]; simp [handleSelectReq]
  · rw [hsel, hd]
    by_cases hns : s.st = .notSelected
    · simp only [hns, decide_true, reduceIte, List.cons_append, List.nil_append, List.foldl, applyEff_decode,
        applyEff_commit, applyEff_cancelT7, applyEff_startLinktest, applyEff_send]
      simp [hout0, handleSelectReq, commitSelected, hns, Responder.stSelectRsp, Hsms.stSelectRsp,
        Responder.selectStatusSuccess]
    · simp only [hns, decide_false, Bool.false_eq_true, reduceIte, List.cons_append, List.nil_append, List.append_nil,
        List.foldl, applyEff_decode, applyEff_commit, applyEff_send]
      simp [hout1, handleSelectReq, commitSelected, hns, Responder.stSelectRsp, Hsms.stSelectRsp,
        Responder.selectStatusAlreadyActive]

set_option maxRecDepth 8192 in
theorem outOf_linktestRsp (sys : Sys) :
    outOfHeader (ctlHeader 0xFF 0xFF 0 0 Hsms.stLinktestRsp sys) = .ctrl 0xFFFF 0 0 6 (idOfSys sys) := by
  have a : (0xFF : UInt8).toNat = 255 := by decide
  have b : (0 : UInt8).toNat = 0 := by decide
  have d : (UInt8.ofNat Hsms.stLinktestRsp).toNat = 6 := by decide
  unfold outOfHeader ctlHeader
  simp only [Header.sessionID, Header.sys, a, b, d]

theorem dg_linktestReq (c : Cfg) (s : RState) (h : Header) (re : Bool) (t : hsmsss_transport)
    (g : hsmsss_genWG) (hs : s.st ≠ .notConnected) (hp : h.ptype.toNat = 0) (hst : h.stype.toNat = 5) :
    DispatchTie c s h [] re t g := by
  have hv : isValidSType h.stype.toNat = true := by rw [hst]; rfl
  have hne : h.stype.toNat ≠ 0 := by omega
  obtain ⟨p1, p2, p3⟩ := gen_prefix h hp hv hne
  have hd : dispatch c s (frameOf h []) = handleLinktestReq s (frameOf h []) := by
    rw [dispatch_ctl c s h [] hs hp hv hne rfl]
    simp [hst, stSelectRsp, stDeselectRsp, stLinktestRsp, stRejectReq, stSelectReq, stLinktestReq]
  have ha : answers c s h [] re = [.bytes h.toBytes, .bool re, .err none] := by
    rw [answers_ctl c s h [] re hp hv hne rfl]
    simp [hst, stSelectRsp, stDeselectRsp, stLinktestRsp, stRejectReq, stSelectReq, stLinktestReq]
  have hty := type_of h re hv
  have hlt := handleLinktestReq_gen t ⟨h, re⟩ (by rw [hty, hst]; rfl)
  refine ⟨[.call "hsmsss.decodeControlFrame" [.bytes (wire h [])],
      sendEff ⟨ctlHeader 0xFF 0xFF 0 0 Hsms.stLinktestRsp h.sys, false⟩], ?_, ?_⟩
  · unfold hsmsss_transport_dispatchFrame
    simp only [idx4, idx5, Option.bind_some, isValid_gen, p1, p2, p3, reduceIte, Bool.false_eq_true, ite_self, ha]
    simp only [hst]
    simp [ofVals_decoded, Go.orc, Go.Val.asErr, hsmsss_transport_handleControlReq, controlType_gen, hty, hst, hlt]
    rw [hd]; simp [handleLinktestReq]
  · rw [hd]
    simp only [List.foldl, applyEff_decode, applyEff_send, List.nil_append]
    rw [outOf_linktestRsp]
    simp [handleLinktestReq, Responder.stLinktestRsp]

theorem encSt_eq2 (s : RState) : (encSt s.st = 2) = (s.st = .selected) := by
  cases s.st <;> simp [encSt]

theorem dg_deselectReq (c : Cfg) (s : RState) (h : Header) (re : Bool) (t : hsmsss_transport)
    (g : hsmsss_genWG) (hs : s.st ≠ .notConnected) (hp : h.ptype.toNat = 0) (hst : h.stype.toNat = 3) :
    DispatchTie c s h [] re t g := by
  have hv : isValidSType h.stype.toNat = true := by rw [hst]; rfl
  have hne : h.stype.toNat ≠ 0 := by omega
  obtain ⟨p1, p2, p3⟩ := gen_prefix h hp hv hne
  have hd : dispatch c s (frameOf h []) = handleDeselectReq c s (frameOf h []) := by
    rw [dispatch_ctl c s h [] hs hp hv hne rfl]
    simp [hst, stSelectRsp, stDeselectRsp, stLinktestRsp, stRejectReq, stSelectReq, stLinktestReq, stDeselectReq]
  have ha : answers c s h [] re = [.bytes h.toBytes, .bool re, .err none, .int (encSt s.st)] := by
    rw [answers_ctl c s h [] re hp hv hne rfl]
    simp [hst, stSelectRsp, stDeselectRsp, stLinktestRsp, stRejectReq, stSelectReq, stLinktestReq, stDeselectReq]
  have hty := type_of h re hv
  have hds := handleDeselectReq_gen t g ⟨h, re⟩ (encSt s.st) [] (by rw [hty, hst]; rfl)
  have hout0 := outOf_ctl h 0 0 4 (by decide)
  have hout1 := outOf_ctl h 0 1 4 (by decide)
  have u0 : (0 : UInt8).toNat = 0 := rfl
  have u1 : (1 : UInt8).toNat = 1 := rfl
  rw [u0] at hout0 hout1
  rw [u1] at hout1
  refine ⟨[.call "hsmsss.decodeControlFrame" [.bytes (wire h [])]] ++
      (hsmsss_transport_handleDeselectReq t g (⟨h, re⟩ : ControlMsg).toGen [.int (encSt s.st)]).1, ?_, ?_⟩
  · unfold hsmsss_transport_dispatchFrame
    simp only [idx4, idx5, Option.bind_some, isValid_gen, p1, p2, p3, reduceIte, Bool.false_eq_true, ite_self, ha]
    simp only [hst]
    simp [ofVals_decoded, Go.orc, Go.Val.asErr, hsmsss_transport_handleControlReq, controlType_gen, hty, hst, hds]
    rw [hd]; unfold handleDeselectReq; split <;> simp
  · rw [hds, hd]
    by_cases hsel : s.st = .selected
    · have e2 : encSt s.st = 2 := by rw [hsel]; rfl
      simp only [e2, reduceIte, List.cons_append, List.nil_append, List.foldl, applyEff_decode, applyEff_state,
        applyEff_send, applyEff_selectLost, applyEff_stopLinktest, applyEff_armT7]
      simp [hout0, handleDeselectReq, hsel, Responder.stDeselectRsp, Hsms.stDeselectRsp,
        Responder.deselectStatusSuccess]
    · have e2 : ¬ encSt s.st = 2 := by rw [encSt_eq2]; exact hsel
      simp only [e2, reduceIte, List.cons_append, List.nil_append, List.append_nil, List.foldl, applyEff_decode,
        applyEff_state, applyEff_send]
      simp [hout1, handleDeselectReq, hsel, Responder.stDeselectRsp, Hsms.stDeselectRsp,
        Responder.deselectStatusNotEstablished]

theorem dg_separateReq (c : Cfg) (s : RState) (h : Header) (re : Bool) (t : hsmsss_transport)
    (g : hsmsss_genWG) (hs : s.st ≠ .notConnected) (hp : h.ptype.toNat = 0) (hst : h.stype.toNat = 9) :
    DispatchTie c s h [] re t g := by
  have hv : isValidSType h.stype.toNat = true := by rw [hst]; rfl
  have hne : h.stype.toNat ≠ 0 := by omega
  obtain ⟨p1, p2, p3⟩ := gen_prefix h hp hv hne
  have hd : dispatch c s (frameOf h []) = handleSeparateReq s := by
    rw [dispatch_ctl c s h [] hs hp hv hne rfl]
    simp [hst, stSelectRsp, stDeselectRsp, stLinktestRsp, stRejectReq, stSelectReq, stLinktestReq, stDeselectReq,
      stSeparateReq]
  have ha : answers c s h [] re = [.int (encSt s.st)] := by
    rw [answers_ctl c s h [] re hp hv hne rfl]
    simp [hst, stSelectRsp, stDeselectRsp, stLinktestRsp, stRejectReq, stSelectReq, stLinktestReq, stDeselectReq,
      stSeparateReq]
  have hsp := handleSeparateReq_gen t (encSt s.st) []
  refine ⟨(hsmsss_transport_handleSeparateReq t [.int (encSt s.st)]).2.1, ?_, ?_⟩
  · unfold hsmsss_transport_dispatchFrame
    simp only [idx4, idx5, Option.bind_some, isValid_gen, p1, p2, p3, reduceIte, Bool.false_eq_true, ite_self, ha]
    simp only [hst]
    simp [hsp]
    rw [hd]; unfold handleSeparateReq
    by_cases hsel : s.st = .selected
    · simp [hsel, encSt]
    · have e2 : ¬ encSt s.st = 2 := by rw [encSt_eq2]; exact hsel
      simp [hsel, e2]
  · rw [hsp, hd]
    by_cases hsel : s.st = .selected
    · have e2 : encSt s.st = 2 := by rw [hsel]; rfl
      simp only [e2, reduceIte, List.cons_append, List.nil_append, List.foldl, applyEff_state, applyEff_tcpDown]
      simp [handleSeparateReq, hsel]
    · have e2 : ¬ encSt s.st = 2 := by rw [encSt_eq2]; exact hsel
      simp only [e2, reduceIte, List.cons_append, List.nil_append, List.append_nil, List.foldl, applyEff_state]
      simp [handleSeparateReq, hsel]

/-- `handleResponse` is: route the reply; on a hit, commit when it is a status-0 Select.rsp; on a miss, answer
    an orphan response (not an orphan Reject.req) with Reject(TransactionNotOpen). -/
theorem handleResponse_eq (s : RState) (f : Frame) :
    handleResponse s f =
      (if (routeRt s f).2.2 = true then
        (if f.stype = stSelectRsp ∧ f.b3 = selectStatusSuccess then (commitSelected (routeRt s f).1).1
         else (routeRt s f).1, [], (routeRt s f).2.1)
       else if f.stype ≠ stRejectReq then (s, [sendRejectTransactionNotOpen f], .none)
       else (s, [], .none)) := by
  unfold handleResponse routeRt
  by_cases h7 : f.stype = stRejectReq
  · have : ¬ (f.stype = stSelectRsp) := by rw [h7]; decide
    simp only [h7, reduceIte]
    cases lookupAny s f.sys <;> simp [stRejectReq, stSelectRsp]
  · simp only [h7, reduceIte]
    cases lookup s f.sys
    · simp [h7]
    · by_cases ha : f.stype = stSelectRsp ∧ f.b3 = selectStatusSuccess
      · have hb : f.stype = stSelectRsp ∧ (f.b3 = selectStatusSuccess ∨ f.b3 = selectStatusAlreadyActive) :=
          ⟨ha.1, Or.inl ha.2⟩
        simp [ha, hb, selectStatusSuccess, selectStatusAlreadyActive, stSelectRsp, stRejectReq]
      · by_cases hc : f.stype = stSelectRsp ∧ f.b3 = selectStatusAlreadyActive
        · have hb : f.stype = stSelectRsp ∧ (f.b3 = selectStatusSuccess ∨ f.b3 = selectStatusAlreadyActive) :=
            ⟨hc.1, Or.inr hc.2⟩
          simp [ha, hb, hc, selectStatusSuccess, selectStatusAlreadyActive, stSelectRsp, stRejectReq]
        · have hb : ¬ (f.stype = stSelectRsp ∧ (f.b3 = selectStatusSuccess ∨ f.b3 = selectStatusAlreadyActive)) := by
            intro ⟨x, y⟩; rcases y with y | y
            · exact ha ⟨x, y⟩
            · exact hc ⟨x, y⟩
          simp [ha, hb, hc]
    · by_cases ha : f.stype = stSelectRsp ∧ f.b3 = selectStatusSuccess <;> simp [ha]
    · simp [h7]

theorem handleResponse_eff (s : RState) (f : Frame) : (handleResponse s f).2.2 ≠ .peerSeparate := by
  rw [handleResponse_eq]
  unfold routeRt
  repeat' split
  all_goals simp

theorem routeRt_miss (s : RState) (f : Frame) (h : (routeRt s f).2.2 = false) :
    (routeRt s f).1 = s ∧ (routeRt s f).2.1 = .none := by
  unfold routeRt at h ⊢
  by_cases h7 : f.stype = stRejectReq
  · simp only [h7, reduceIte] at h ⊢
    cases hl : lookupAny s f.sys <;> simp [hl] at h ⊢
  · simp only [h7, reduceIte] at h ⊢
    cases hl : lookup s f.sys <;> simp [hl] at h ⊢
    split at h <;> simp at h

theorem selectStatus_gen (h : Header) (re : Bool) :
    hsmsss_selectStatus (⟨h, re⟩ : ControlMsg).toGen = (h.b3.toNat : Int) := by
  unfold hsmsss_selectStatus
  rw [controlHeaderBytes_gen]
  simp [Header.toBytes, Go.getB, Go.u8]

theorem dg_response (c : Cfg) (s : RState) (h : Header) (re : Bool) (t : hsmsss_transport)
    (g : hsmsss_genWG) (hs : s.st ≠ .notConnected) (hp : h.ptype.toNat = 0) (k : Nat)
    (hk : k = 2 ∨ k = 4 ∨ k = 6 ∨ k = 7) (hst : h.stype.toNat = k) :
    DispatchTie c s h [] re t g := by
  have hv : isValidSType h.stype.toNat = true := by rcases hk with rfl | rfl | rfl | rfl <;> (rw [hst]; rfl)
  have hne : h.stype.toNat ≠ 0 := by omega
  obtain ⟨p1, p2, p3⟩ := gen_prefix h hp hv hne
  have hresp : (frameOf h []).stype = stSelectRsp ∨ (frameOf h []).stype = stDeselectRsp ∨
      (frameOf h []).stype = stLinktestRsp ∨ (frameOf h []).stype = stRejectReq := by
    simp only [frameOf_stype, hst, stSelectRsp, stDeselectRsp, stLinktestRsp, stRejectReq]; exact hk
  have hd : dispatch c s (frameOf h []) = handleResponse s (frameOf h []) := by
    rw [dispatch_ctl c s h [] hs hp hv hne rfl]; simp only []; rw [if_pos hresp]
  have ha := answers_ctl c s h [] re hp hv hne rfl
  simp only [] at ha; rw [if_pos hresp] at ha
  have hty := type_of h re hv
  have hb3 := selectStatus_gen h re
  have hTNO := sendRejectTransactionNotOpen_gen t h []
  have heff := handleResponse_eff s (frameOf h [])
  have u0 : (0 : UInt8).toNat = 0 := rfl
  have u3 : (3 : UInt8).toNat = 3 := rfl
  cases hhit : (routeRt s (frameOf h [])).2.2
  · -- miss
    obtain ⟨m1, m2⟩ := routeRt_miss s (frameOf h []) hhit
    by_cases h7 : k = 7
    · subst h7
      refine ⟨[.call "hsmsss.decodeControlFrame" [.bytes (wire h [])],
          .call "hsms.TransportRuntime.RouteReply" [.bytes h.toBytes, .bool re]], ?_, ?_⟩
      · unfold hsmsss_transport_dispatchFrame
        simp only [idx4, idx5, Option.bind_some, isValid_gen, p1, p2, p3, reduceIte, Bool.false_eq_true, ite_self, ha]
        simp only [hst]
        simp [ofVals_decoded, Go.orc, Go.Val.asErr, Go.Val.asBool, controlType_gen, hty, hst, hhit, toVals_toGen, hd, heff]
      · rw [hd, handleResponse_eq]
        simp only [List.foldl, applyEff_decode]
        rw [applyEff_route c _ ⟨h, re⟩]
        simp [hhit, hst, stRejectReq, m1, m2]
    · have hk7 : (k : Int) ≠ 7 := by omega
      refine ⟨[.call "hsmsss.decodeControlFrame" [.bytes (wire h [])],
          .call "hsms.TransportRuntime.RouteReply" [.bytes h.toBytes, .bool re],
          sendEff (newRejectReqRaw h.sessionID 0 h.stype h.sys 3)], ?_, ?_⟩
      · unfold hsmsss_transport_dispatchFrame
        simp only [idx4, idx5, Option.bind_some, isValid_gen, p1, p2, p3, reduceIte, Bool.false_eq_true, ite_self, ha]
        simp only [hst]
        rcases hk with rfl | rfl | rfl | rfl <;>
          simp [ofVals_decoded, Go.orc, Go.Val.asErr, Go.Val.asBool, controlType_gen, hty, hst, hhit, toVals_toGen, hd,
            heff, hTNO] <;> omega
      · rw [hd, handleResponse_eq]
        simp only [List.foldl, applyEff_decode, applyEff_send]
        rw [applyEff_route c _ ⟨h, re⟩]
        have hne7 : h.stype.toNat ≠ stRejectReq := by rw [hst]; unfold stRejectReq; exact h7
        simp [hhit, hne7, m1, m2, outOf_reject, u0, u3, sendRejectTransactionNotOpen, rejectTransactionNotOpen]
  · -- hit
    by_cases hsel0 : k = 2 ∧ h.b3.toNat = 0
    · obtain ⟨rfl, hb0⟩ := hsel0
      have hcond : (frameOf h []).stype = stSelectRsp ∧ (frameOf h []).b3 = selectStatusSuccess := ⟨hst, hb0⟩
      have hcond' : h.stype.toNat = stSelectRsp ∧ h.b3.toNat = selectStatusSuccess := hcond
      by_cases hns : (routeRt s (frameOf h [])).1.st = .notSelected
      · refine ⟨[.call "hsmsss.decodeControlFrame" [.bytes (wire h [])],
            .call "hsms.TransportRuntime.RouteReply" [.bytes h.toBytes, .bool re],
            .call "hsms.TransportRuntime.CommitSelected" [], .call "hsmsss.transport.cancelT7" [],
            .call "hsmsss.transport.startLinktest" []], ?_, ?_⟩
        · unfold hsmsss_transport_dispatchFrame
          simp only [idx4, idx5, Option.bind_some, isValid_gen, p1, p2, p3, reduceIte, Bool.false_eq_true, ite_self, ha]
          simp only [hst]
          simp [ofVals_decoded, Go.orc, Go.Val.asErr, Go.Val.asBool, controlType_gen, hty, hst, hhit, toVals_toGen, hd,
            heff, hb3, hb0, hns, hsmsss_genWG.toVals, stSelectRsp, selectStatusSuccess]
        · rw [hd, handleResponse_eq]
          simp only [List.foldl, applyEff_decode, applyEff_commit, applyEff_cancelT7, applyEff_startLinktest]
          rw [applyEff_route c _ ⟨h, re⟩]
          simp [hhit, hcond'.1, hcond'.2, hns, commitSelected]
      · refine ⟨[.call "hsmsss.decodeControlFrame" [.bytes (wire h [])],
            .call "hsms.TransportRuntime.RouteReply" [.bytes h.toBytes, .bool re],
            .call "hsms.TransportRuntime.CommitSelected" []], ?_, ?_⟩
        · unfold hsmsss_transport_dispatchFrame
          simp only [idx4, idx5, Option.bind_some, isValid_gen, p1, p2, p3, reduceIte, Bool.false_eq_true, ite_self, ha]
          simp only [hst]
          simp [ofVals_decoded, Go.orc, Go.Val.asErr, Go.Val.asBool, controlType_gen, hty, hst, hhit, toVals_toGen, hd,
            heff, hb3, hb0, hns, stSelectRsp, selectStatusSuccess]
        · rw [hd, handleResponse_eq]
          simp only [List.foldl, applyEff_decode, applyEff_commit]
          rw [applyEff_route c _ ⟨h, re⟩]
          simp [hhit, hcond'.1, hcond'.2, hns, commitSelected]
    · have hcond : ¬ ((frameOf h []).stype = stSelectRsp ∧ (frameOf h []).b3 = selectStatusSuccess) := by
        intro ⟨x, y⟩; apply hsel0
        simp only [frameOf_stype, frameOf_b3, stSelectRsp, selectStatusSuccess] at x y
        exact ⟨by omega, y⟩
      have hb3ne : k = 2 → ((h.b3.toNat : Int) == 0) = false := by
        intro hk2
        have : h.b3.toNat ≠ 0 := fun hb => hsel0 ⟨hk2, hb⟩
        simp; omega
      have hcond' : ¬ (h.stype.toNat = stSelectRsp ∧ h.b3.toNat = selectStatusSuccess) := hcond
      refine ⟨[.call "hsmsss.decodeControlFrame" [.bytes (wire h [])],
          .call "hsms.TransportRuntime.RouteReply" [.bytes h.toBytes, .bool re]], ?_, ?_⟩
      · unfold hsmsss_transport_dispatchFrame
        simp only [idx4, idx5, Option.bind_some, isValid_gen, p1, p2, p3, reduceIte, Bool.false_eq_true, ite_self, ha]
        simp only [hst]
        have hans : (if (routeRt s (frameOf h [])).2.2 = true ∧ (frameOf h []).stype = stSelectRsp ∧
            (frameOf h []).b3 = selectStatusSuccess then
              [Go.Val.bool (decide ((routeRt s (frameOf h [])).1.st = St.notSelected))] else []) = [] := by
          rw [if_neg]; intro ⟨_, y⟩; exact hcond y
        rw [hans]
        rcases hk with rfl | rfl | rfl | rfl <;>
          simp [ofVals_decoded, Go.orc, Go.Val.asErr, Go.Val.asBool, controlType_gen, hty, hst, hhit, toVals_toGen, hd,
            heff, hb3, hb3ne]
      · rw [hd, handleResponse_eq]
        simp only [List.foldl, applyEff_decode]
        rw [applyEff_route c _ ⟨h, re⟩]
        simp [hhit, hcond']

theorem valid_cases (n : Nat) (h : isValidSType n = true) :
    n = 0 ∨ n = 1 ∨ n = 2 ∨ n = 3 ∨ n = 4 ∨ n = 5 ∨ n = 6 ∨ n = 7 ∨ n = 9 := by
  unfold isValidSType at h
  simp only [Bool.or_eq_true, beq_iff_eq] at h
  omega

/-- **`dispatch_gen`.** For every established-link state, every ten header bytes and every body: the dispatcher
    regenerated from hsmsss/transport_recv.go and transport_control.go, run on the frame with the runtime's answers,
    does not panic, consumes exactly those answers, tells the receive loop to stop exactly when the model reports a
    peer Separate, and its trace — frames queued through SendAsync, deliveries, RouteReply, the CommitSelected /
    SelectLost commits, T7 armed / cancelled, TCPDown — interpreted in program order over the model's runtime, IS
    `Responder.dispatch`: same next state, same frames sent back, same link effect. -/
theorem dispatch_gen_tie (c : Cfg) (s : RState) (h : Header) (body : Bytes) (re : Bool) (t : hsmsss_transport)
    (g : hsmsss_genWG) (hs : s.st ≠ .notConnected) : DispatchTie c s h body re t g := by
  by_cases hc : h.ptype.toNat ≠ 0 ∨ isValidSType h.stype.toNat = false
  · exact dg_reject1 c s h body re t g hs hc
  · have hp : h.ptype.toNat = 0 := by
      by_cases x : h.ptype.toNat = 0
      · exact x
      · exact absurd (Or.inl x) hc
    have hv : isValidSType h.stype.toNat = true := by
      cases x : isValidSType h.stype.toNat
      · exact absurd (Or.inr x) hc
      · rfl
    by_cases h0 : h.stype.toNat = 0
    · exact dg_data c s h body re t g hs hp h0
    · by_cases hb : body.length ≠ 0
      · exact dg_reject2 c s h body re t g hs hp hv h0 hb
      · have hbe : body = [] := by
          cases body with
          | nil => rfl
          | cons a b => simp at hb
        subst hbe
        rcases valid_cases _ hv with e | e | e | e | e | e | e | e | e
        · exact absurd e h0
        · exact dg_selectReq c s h re t g hs hp e
        · exact dg_response c s h re t g hs hp 2 (by simp) e
        · exact dg_deselectReq c s h re t g hs hp e
        · exact dg_response c s h re t g hs hp 4 (by simp) e
        · exact dg_linktestReq c s h re t g hs hp e
        · exact dg_response c s h re t g hs hp 6 (by simp) e
        · exact dg_response c s h re t g hs hp 7 (by simp) e
        · exact dg_separateReq c s h re t g hs hp e

end GoSecs.Responder
