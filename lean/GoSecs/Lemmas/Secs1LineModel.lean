/-
  Part 2 of the SECS-I line-engine tie: on the script of environment answers that a PEER BEHAVIOUR induces, the
  sequential line engine of Lemmas/Secs1LineGen.lean (to which the functions regenerated from secs1/line.go are proved
  equal there) computes the character-level model of GoSecs/Model/Secs1.lean part 2a:

  * `receive_model`: when the bytes `bs` arrive after our EOT and the line then falls silent, `receiveS` answers with the
    character `(receiveBytes bs).answer`, returns the block iff the verdict is `.block`, and drains the line before the
    NAK exactly for the verdicts `.badLength` and `.parse` (never for the T2 / T1 timeouts).
  * `attempt_model`: one iteration of the RTY loop against one `PeerAct` is `sendAttempt`: same outcome (OK / retry /
    yield delivered → counter reset / yield failed → counted as a retry), the characters written are the model's, the
    block handed to `deliver` is the model's.
  * `sendBlock_model`: the whole `sendBlockS` against a peer schedule is `Model.sendBlock`: nil iff the model's `ok`,
    ErrSendFailed otherwise; everything written = `line`; everything delivered = `delivered` — for every retry limit,
    both roles, every schedule.  With `sendBlock_gen` this puts `attempts_le_retry_plus_one`, `send_ok_iff_single_ack`
    and the contention theorems of Props/C18 on the regenerated `sendBlock`.

  How a peer behaviour becomes answers (`Env`): every clock reading is `c`, the live timers are `tc` with `0 < T2`, a
  Write takes everything (`wrote len`), a timeout is a read error, `noise` is a character other than ENQ/EOT, `other` a
  character other than ACK, a corrupted block is any byte string `receiveBytes` does not accept.  Core Lean only.
-/
import GoSecs.Lemmas.Secs1LineGen
import GoSecs.Lemmas.Secs1

set_option linter.unusedSimpArgs false
set_option linter.unusedVariables false

namespace GoSecs.Secs1
open GoSecs.Gen GoSecs.Io

/-- the characters written, in order -/
def writes : List LnEv → Bytes
  | [] => []
  | .write p :: r => p ++ writes r
  | _ :: r => writes r

/-- the blocks handed to `deliver`, in order -/
def delivered : List LnEv → List secs1_block
  | [] => []
  | .deliver b :: r => b :: delivered r
  | _ :: r => delivered r

/-- the number of `Read`s (only `readFull` and `drainUntilSilence` read in chunks) that happened while draining is not
    separated out; instead: was there a drain, i.e. a Read that is not part of `readFull`?  We mark it by position:
    `drained evs` = some `Read` event occurs AFTER the last `readFull` Read … kept simple: count of Read events -/
def reads : List LnEv → Nat
  | [] => 0
  | .read _ :: r => reads r + 1
  | _ :: r => reads r

theorem writes_append (a b : List LnEv) : writes (a ++ b) = writes a ++ writes b := by
  induction a with
  | nil => rfl
  | cons x xs ih => cases x <;> simp [writes, ih]

theorem delivered_append (a b : List LnEv) : delivered (a ++ b) = delivered a ++ delivered b := by
  induction a with
  | nil => rfl
  | cons x xs ih => cases x <;> simp [delivered, ih]

theorem reads_append (a b : List LnEv) : reads (a ++ b) = reads a + reads b := by
  induction a with
  | nil => simp [reads]
  | cons x xs ih => cases x <;> simp [reads, ih] <;> omega

/-- how the environment answers -/
structure Env where
  tc : hsms_TimerConfig
  c : Int
  noise : UInt8
  other : UInt8
  /-- what arrives of a block that is corrupted on the way -/
  corrupt : Block → Bytes

structure Env.OK (env : Env) : Prop where
  t2 : 0 < env.tc.T2
  noiseEot : env.noise ≠ EOT
  noiseEnq : env.noise ≠ ENQ
  otherAck : env.other ≠ ACK
  corruptBad : ∀ b b', receiveBytes (env.corrupt b) ≠ .block b'

def timeoutErr : Go.Err := some "i/o timeout"

/-! ## building blocks -/

theorem readByte_ok (t : Int) (c : Int) (b : UInt8) (e : Go.Err) (rest : List Ans) :
    readByteS t (.clock c :: .err none :: .byte b e :: rest) = some (b, e, [.clock, .deadline (c + t), .readByte], rest) := rfl

theorem writeByte_ok (b : UInt8) (n : Int) (e : Go.Err) (rest : List Ans) :
    writeByteS b (.wrote n e :: rest) = some (e, [.write [b]], rest) := rfl

/-- a Write that takes everything at once -/
theorem writeAll_once (fuel : Nat) (data : Bytes) (hd : data ≠ []) (rest : List Ans) :
    writeAllS (fuel + 2) data (.wrote (data.length : Int) none :: rest) = some (none, [.write data], rest) := by
  have hpos : 0 < data.length := List.length_pos_iff.mpr hd
  have g0 : wrGuard data { script := .wrote (data.length : Int) none :: rest } = true := by
    simp [wrGuard]; omega
  have g1 : wrGuard data { evs := [.write data], script := rest, written := (data.length : Int) } = false := by
    simp [wrGuard]
  simp [writeAllS, mloop, g0, wrStep, expWrote, g1]

/-- one `Read` under a re-armed T1 deadline (events) -/
def t1Read (env : Env) (room : Nat) : List LnEv := [.clock, .timers, .deadline (env.c + env.tc.T1), .read room]

/-- the drain sees `rem` (if any) in one chunk, then silence for T1 -/
def drainScript (env : Env) (rem : Bytes) : List Ans :=
  (if rem = [] then [] else [.clock env.c, .timers env.tc, .read rem none]) ++
    [.clock env.c, .timers env.tc, .read [] timeoutErr]

def drainEvs (env : Env) (rem : Bytes) : List LnEv :=
  (if rem = [] then [] else t1Read env 256) ++ t1Read env 256

theorem drainBuf_length : drainBuf.length = 256 := by unfold drainBuf; exact List.length_replicate ..

theorem copy_length (dst src : Bytes) (h : src.length ≤ dst.length) : (Go.copy dst src).length = dst.length := by
  simp [Go.copy]; omega

theorem drain_model (env : Env) (fuel : Nat) (rem : Bytes) (rest : List Ans) :
    drainS (fuel + 2) (drainScript env rem ++ rest) = some (drainEvs env rem, rest) := by
  unfold drainS drainScript drainEvs
  by_cases hr : rem = []
  · simp [hr, mloop, drStep, expClock, expTimers, expRead, timeoutErr, t1Read, drainBuf_length]
  · have hl : (Go.copy drainBuf (List.take 256 rem)).length = 256 := by
      rw [copy_length _ _ (by rw [drainBuf_length]; simp; omega), drainBuf_length]
    simp [hr, mloop, drStep, expClock, expTimers, expRead, timeoutErr, t1Read, drainBuf_length, hl]

/-- the body of a block arriving under `readFull` into a buffer of `m` bytes: everything at once if there is enough,
    otherwise what there is (if anything) and then the T1 timeout -/
def rfScript (env : Env) (m : Nat) (body : Bytes) : List Ans :=
  if m ≤ body.length then [.clock env.c, .timers env.tc, .err none, .read body none]
  else (if body = [] then [] else [.clock env.c, .timers env.tc, .err none, .read body none]) ++
        [.clock env.c, .timers env.tc, .err none, .read [] timeoutErr]

def rfEvs (env : Env) (m : Nat) (body : Bytes) : List LnEv :=
  if m ≤ body.length then t1Read env m
  else (if body = [] then [] else t1Read env m) ++ t1Read env (m - body.length)

theorem readFull_complete (env : Env) (fuel m : Nat) (hm : 0 < m) (body : Bytes) (hb : m ≤ body.length) (rest : List Ans) :
    readFullS (fuel + 2) (List.replicate m 0) (rfScript env m body ++ rest) =
      some (none, body.take m, rfEvs env m body, rest) := by
  have g0 : rfGuard { script := rfScript env m body ++ rest, buf := List.replicate m 0 } = true := by
    simp [rfGuard, hm]
  have hmin : min m body.length = m := by omega
  simp only [readFullS, mloop, g0, reduceIte, rfStep, rfScript, rfEvs, hb, List.cons_append, List.nil_append, expClock,
    expTimers, expErr, expRead, Option.bind_some, Option.isSome_none, Bool.false_eq_true, List.length_replicate,
    Nat.sub_zero, List.take_zero, List.length_take, hmin, Nat.zero_add, List.drop_replicate, Nat.sub_self,
    List.replicate_zero, List.append_nil, t1Read]
  simp [rfGuard, hmin, hm]

theorem readFull_short (env : Env) (fuel m : Nat) (body : Bytes) (hb : ¬ m ≤ body.length) (rest : List Ans) :
    ∃ buf, readFullS (fuel + 2) (List.replicate m 0) (rfScript env m body ++ rest) =
      some (timeoutErr, buf, rfEvs env m body, rest) := by
  have hm : 0 < m := by omega
  unfold rfScript rfEvs
  rw [if_neg hb, if_neg hb]
  by_cases he : body = []
  · subst he
    rw [if_pos rfl, if_pos rfl]
    simp [readFullS, mloop, rfGuard, hm, rfStep, expClock, expTimers, expErr, expRead, timeoutErr, t1Read]
  · rw [if_neg he, if_neg he]
    have hpos : 0 < body.length := List.length_pos_iff.mpr he
    have hmin : min m body.length = body.length := by omega
    have h1 : body.length < body.length + (m - body.length) := by omega
    simp [readFullS, mloop, rfGuard, hm, rfStep, expClock, expTimers, expErr, expRead, timeoutErr, t1Read, hmin, h1]

/-! ## `receiveBlock` against the model's verdicts -/

def RecvResult.blockOpt : RecvResult → Option Block
  | .block b => some b
  | _ => none

def RecvResult.err : RecvResult → Go.Err
  | .block _ => none
  | .t2 => some "ErrT2Timeout"
  | .badLength => some "ErrInvalidLength"
  | .t1 => some "ErrT1Timeout"
  | .parse e => some e.goName

def nakEvs : List LnEv := [.write [NAK], .inc "incBlockNAKSentCount"]
def ackEvs : List LnEv := [.write [ACK], .inc "incBlockRecvCount"]

/-- the answers of the environment when, after our EOT, the bytes `bs` arrive and then nothing more -/
def recvScript (env : Env) : Bytes → List Ans
  | [] => [.poll false, .timers env.tc, .clock env.c, .err none, .byte 0 timeoutErr, .wrote 1 none]
  | lb :: body =>
    [.poll false, .timers env.tc, .clock env.c, .err none, .byte lb none] ++
    (if lb.toNat < 10 ∨ lb.toNat > 254 then drainScript env body ++ [.wrote 1 none]
     else
       rfScript env (lb.toNat + 2) body ++
       (if body.length < lb.toNat + 2 then [.wrote 1 none]
        else match parseBlock lb (body.take (lb.toNat + 2)) with
          | .ok _ => [.wrote 1 none]
          | .error _ => drainScript env (body.drop (lb.toNat + 2)) ++ [.wrote 1 none]))

/-- what `receiveBlock` does then: NOTE where the drain is (before the NAK, for a bad length and for a parse error) and
    where it is not (T2, T1) -/
def recvEvs (env : Env) : Bytes → List LnEv
  | [] => [.poll, .timers, .clock, .deadline (env.c + env.tc.T2), .readByte] ++ nakEvs
  | lb :: body =>
    [.poll, .timers, .clock, .deadline (env.c + env.tc.T2), .readByte] ++
    (if lb.toNat < 10 ∨ lb.toNat > 254 then drainEvs env body ++ nakEvs
     else
       rfEvs env (lb.toNat + 2) body ++
       (if body.length < lb.toNat + 2 then nakEvs
        else match parseBlock lb (body.take (lb.toNat + 2)) with
          | .ok _ => ackEvs
          | .error _ => drainEvs env (body.drop (lb.toNat + 2)) ++ nakEvs))

theorem nak_ok (n : Int) (e : Go.Err) (rest : List Ans) : nakS (.wrote n e :: rest) = some (nakEvs, rest) := rfl

/-- **`receiveBlock` computes the model's verdict**, for every byte string that arrives: the block iff
    `receiveBytes` says `.block`, the sentinel of the verdict otherwise, the events `recvEvs`. -/
theorem receive_model (env : Env) (fuel : Nat) (bs : Bytes) (rest : List Ans) :
    receiveS (fuel + 2) (recvScript env bs ++ rest) =
      some ((receiveBytes bs).blockOpt, (receiveBytes bs).err, recvEvs env bs, rest) := by
  cases bs with
  | nil =>
    simp [receiveS, recvScript, recvEvs, expPoll, expTimers, readByteS, expClock, expErr, expByte, timeoutErr, nakS,
      writeByteS, expWrote, receiveBytes, RecvResult.blockOpt, RecvResult.err, nakEvs]
  | cons lb body =>
    have hrb : ∀ tl : List Ans,
        readByteS env.tc.T2 (.clock env.c :: .err none :: .byte lb none :: tl) =
          some (lb, none, [.clock, .deadline (env.c + env.tc.T2), .readByte], tl) := fun tl => rfl
    simp only [receiveS, recvScript, recvEvs, List.cons_append, List.nil_append, List.append_assoc, expPoll,
      expTimers, Option.bind_some, Bool.false_eq_true, reduceIte, hrb, Option.isSome_none, receiveBytes,
      minBlockLength, maxBlockLength, checksumSize]
    by_cases hr : lb.toNat < 10 ∨ lb.toNat > 254
    · simp only [hr, reduceIte, List.append_assoc, drain_model, Option.bind_some, List.cons_append, List.nil_append,
        nak_ok, RecvResult.blockOpt, RecvResult.err]
    · simp only [hr, reduceIte, List.append_assoc]
      by_cases hs : body.length < lb.toNat + 2
      · obtain ⟨buf, hrf⟩ := readFull_short env fuel (lb.toNat + 2) body (by omega)
          (Ans.wrote 1 none :: rest)
        simp only [hs, reduceIte, hrf, Option.bind_some, timeoutErr, Option.isSome_some, List.cons_append,
          List.nil_append, nak_ok, RecvResult.blockOpt, RecvResult.err]
      · have hc := fun tl => readFull_complete env fuel (lb.toNat + 2) (by omega) body (by omega) tl
        simp only [hs, reduceIte, hc, Option.bind_some, Option.isSome_none, Bool.false_eq_true]
        cases hp : parseBlock lb (List.take (lb.toNat + 2) body) with
        | ok b =>
          simp [hp, writeByteS, expWrote, RecvResult.blockOpt, RecvResult.err, ackEvs]
        | error e =>
          simp only [hp, List.append_assoc, drain_model, Option.bind_some, List.cons_append, List.nil_append, nak_ok,
            RecvResult.blockOpt, RecvResult.err]

theorem writes_t1Read (env : Env) (r : Nat) : writes (t1Read env r) = [] := rfl
theorem writes_drainEvs (env : Env) (rem : Bytes) : writes (drainEvs env rem) = [] := by
  unfold drainEvs; split <;> simp [writes_append, writes_t1Read, writes]
theorem writes_rfEvs (env : Env) (m : Nat) (body : Bytes) : writes (rfEvs env m body) = [] := by
  unfold rfEvs; split <;> (try split) <;> simp [writes_append, writes_t1Read, writes]
theorem delivered_t1Read (env : Env) (r : Nat) : delivered (t1Read env r) = [] := rfl
theorem delivered_drainEvs (env : Env) (rem : Bytes) : delivered (drainEvs env rem) = [] := by
  unfold drainEvs; split <;> simp [delivered_append, delivered_t1Read, delivered]
theorem delivered_rfEvs (env : Env) (m : Nat) (body : Bytes) : delivered (rfEvs env m body) = [] := by
  unfold rfEvs; split <;> (try split) <;> simp [delivered_append, delivered_t1Read, delivered]

/-- the one character `receiveBlock` answers with is the model's -/
theorem recvEvs_writes (env : Env) (bs : Bytes) : writes (recvEvs env bs) = [(receiveBytes bs).answer] := by
  cases bs with
  | nil => rfl
  | cons lb body =>
    simp only [recvEvs, receiveBytes, minBlockLength, maxBlockLength, checksumSize]
    by_cases hr : lb.toNat < 10 ∨ lb.toNat > 254
    · simp [hr, writes_append, writes, writes_drainEvs, nakEvs, RecvResult.answer]
    · by_cases hs : body.length < lb.toNat + 2
      · simp [hr, hs, writes_append, writes, writes_rfEvs, nakEvs, RecvResult.answer]
      · simp only [hr, hs, reduceIte]
        cases hp : parseBlock lb (List.take (lb.toNat + 2) body) with
        | ok b => simp [writes_append, writes, writes_rfEvs, ackEvs, RecvResult.answer]
        | error e => simp [writes_append, writes, writes_rfEvs, writes_drainEvs, nakEvs, RecvResult.answer]

/-- nothing is delivered by `receiveBlock` itself -/
theorem recvEvs_delivered (env : Env) (bs : Bytes) : delivered (recvEvs env bs) = [] := by
  cases bs with
  | nil => rfl
  | cons lb body =>
    simp only [recvEvs]
    split
    · simp [delivered_append, delivered, delivered_drainEvs, nakEvs]
    · split
      · simp [delivered_append, delivered, delivered_rfEvs, nakEvs]
      · split
        · simp [delivered_append, delivered, delivered_rfEvs, ackEvs]
        · simp [delivered_append, delivered, delivered_rfEvs, delivered_drainEvs, nakEvs]

/-! ## one attempt of `sendBlockOnce` -/

/-- how a wait for EOT ends -/
inductive WaitEnd where
  | eot (reply : Ans)        -- EOT: the block goes out; `reply` answers the wait for ACK (a `.byte`)
  | enq                      -- ENQ seen by a slave
  | timeout                  -- T2: the read fails
  deriving Repr

/-- one iteration of the wait that reads character `b` -/
def waitScript (env : Env) (b : UInt8) (e : Go.Err) : List Ans :=
  [.poll false, .clock env.c, .clock env.c, .err none, .byte b e]

def waitEvs (env : Env) : List LnEv :=
  [.poll, .clock, .clock, .deadline (env.c + (env.c + env.tc.T2 - env.c)), .readByte]

def waitsScript (env : Env) : List UInt8 → List Ans
  | [] => []
  | b :: bs => waitScript env b none ++ waitsScript env bs

def waitsEvs (env : Env) : List UInt8 → List LnEv
  | [] => []
  | _ :: bs => waitEvs env ++ waitsEvs env bs

def dataScript (env : Env) (blk : Block) (reply : Ans) : List Ans :=
  [.wrote (blk.wire.length : Int) none, .timers env.tc, .clock env.c, .err none, reply]

def dataEvs (env : Env) (blk : Block) : List LnEv :=
  [.write blk.wire, .timers, .clock, .deadline (env.c + env.tc.T2), .readByte]

def WaitEnd.script (env : Env) (blk : Block) : WaitEnd → List Ans
  | .eot reply => waitScript env EOT none ++ dataScript env blk reply
  | .enq => waitScript env ENQ none
  | .timeout => waitScript env 0 timeoutErr

def WaitEnd.evs (env : Env) (blk : Block) : WaitEnd → List LnEv
  | .eot _ => waitEvs env ++ dataEvs env blk
  | _ => waitEvs env

/-- what the reply to the block means -/
def replyCode : Ans → Int × Go.Err
  | .byte b none => if b = ACK then (0, none) else (1, some "secs1: expected ACK (0x%02X), got 0x%02X")
  | _ => (1, some "ErrT2Timeout")

def WaitEnd.result : WaitEnd → Int × Go.Err
  | .eot reply => replyCode reply
  | .enq => (2, none)
  | .timeout => (1, some "ErrT2Timeout")

/-- a reply is one `ReadByte` answer: a character, or the timeout -/
def isReply : Ans → Prop
  | .byte _ none => True
  | .byte _ (some _) => True
  | _ => False

theorem wire_ne_nil (blk : Block) : blk.wire ≠ [] := by simp [Block.wire]

theorem sendData_model (env : Env) (fuel : Nat) (blk : Block) (reply : Ans) (hr : isReply reply) (rest : List Ans) :
    sendDataS (fuel + 2) blk (dataScript env blk reply ++ rest) =
      some ((replyCode reply).1, (replyCode reply).2, dataEvs env blk, rest) := by
  have hw := fun tl => writeAll_once fuel blk.wire (wire_ne_nil blk) tl
  cases reply with
  | byte b e =>
    cases e with
    | none =>
      by_cases hb : b = ACK
      · simp [sendDataS, dataScript, hw, expTimers, readByte_ok, replyCode, hb, dataEvs]
      · simp [sendDataS, dataScript, hw, expTimers, readByte_ok, replyCode, hb, dataEvs]
    | some e => simp [sendDataS, dataScript, hw, expTimers, readByte_ok, replyCode, dataEvs]
  | _ => simp [isReply] at hr

/-- characters the wait ignores: anything but EOT — and, at a slave, but ENQ -/
def Ignored (isEquip : Bool) (b : UInt8) : Prop := b ≠ EOT ∧ (b = ENQ → isEquip = true)

theorem soStep_ignored (env : Env) (hok : env.OK) (F : Nat) (isEquip : Bool) (blk : Block) (b : UInt8)
    (hb : Ignored isEquip b) (evs : List LnEv) (rest : List Ans) :
    soStep F isEquip blk (env.c + env.tc.T2) ⟨evs, waitScript env b none ++ rest⟩ =
      some (.next ⟨evs ++ waitEvs env, rest⟩) := by
  have hrem : ¬ (env.c + env.tc.T2 - env.c ≤ 0) := by have := hok.t2; omega
  have h2 : ¬ (b = ENQ ∧ isEquip = false) := by
    intro ⟨h1, h2⟩; have := hb.2 h1; simp [this] at h2
  simp [soStep, waitScript, expPoll, expClock, hrem, readByte_ok, hb.1, h2, waitEvs]

theorem soStep_end (env : Env) (hok : env.OK) (F : Nat) (isEquip : Bool) (blk : Block) (w : WaitEnd)
    (hw : match w with | .eot r => isReply r | .enq => isEquip = false | .timeout => True)
    (evs : List LnEv) (rest : List Ans) :
    soStep (F + 2) isEquip blk (env.c + env.tc.T2) ⟨evs, w.script env blk ++ rest⟩ =
      some (.done (w.result, ⟨evs ++ w.evs env blk, rest⟩)) := by
  have hrem : ¬ (env.c + env.tc.T2 - env.c ≤ 0) := by have := hok.t2; omega
  cases w with
  | eot reply =>
    have hd := fun tl => sendData_model env F blk reply hw tl
    simp [soStep, WaitEnd.script, waitScript, expPoll, expClock, hrem, readByte_ok, hd, WaitEnd.result,
      WaitEnd.evs, waitEvs, List.append_assoc]
  | enq =>
    have h1 : ENQ ≠ EOT := by decide
    simp [soStep, WaitEnd.script, waitScript, expPoll, expClock, hrem, readByte_ok, h1, hw, WaitEnd.result,
      WaitEnd.evs, waitEvs]
  | timeout =>
    simp [soStep, WaitEnd.script, waitScript, expPoll, expClock, hrem, readByte_ok, timeoutErr, WaitEnd.result,
      WaitEnd.evs, waitEvs]

/-- the wait loop: ignored characters, then the end -/
theorem soLoop_model (env : Env) (hok : env.OK) (F : Nat) (isEquip : Bool) (blk : Block) (w : WaitEnd)
    (hw : match w with | .eot r => isReply r | .enq => isEquip = false | .timeout => True) (rest : List Ans) :
    ∀ (ign : List UInt8), (∀ b ∈ ign, Ignored isEquip b) → ∀ (n : Nat) (evs : List LnEv), ign.length + 1 ≤ n →
      mloop (fun _ => true) (soStep (F + 2) isEquip blk (env.c + env.tc.T2)) n
          ⟨evs, waitsScript env ign ++ (w.script env blk ++ rest)⟩ =
        some (.error (w.result, ⟨evs ++ waitsEvs env ign ++ w.evs env blk, rest⟩)) := by
  intro ign
  induction ign with
  | nil =>
    intro _ n evs hn
    obtain ⟨n', rfl⟩ : ∃ n', n = n' + 1 := ⟨n - 1, by omega⟩
    simp [mloop, waitsScript, waitsEvs, soStep_end env hok F isEquip blk w hw]
  | cons b bs ih =>
    intro hall n evs hn
    obtain ⟨n', rfl⟩ : ∃ n', n = n' + 1 := ⟨n - 1, by simp at hn; omega⟩
    have hb := hall b (by simp)
    have hst := soStep_ignored env hok (F + 2) isEquip blk b hb evs
      (waitsScript env bs ++ (w.script env blk ++ rest))
    simp only [mloop, reduceIte, waitsScript, List.append_assoc, hst]
    rw [ih (fun x hx => hall x (by simp [hx])) n' _ (by simp at hn; omega)]
    simp [waitsEvs, List.append_assoc]

/-- one `sendBlockOnce` against ignored characters `ign` and the end `w` -/
def onceScript (env : Env) (blk : Block) (ign : List UInt8) (w : WaitEnd) : List Ans :=
  [.wrote 1 none, .clock env.c, .timers env.tc] ++ waitsScript env ign ++ w.script env blk

def onceEvs (env : Env) (blk : Block) (ign : List UInt8) (w : WaitEnd) : List LnEv :=
  [.write [ENQ], .clock, .timers] ++ waitsEvs env ign ++ w.evs env blk

theorem sendOnce_model (env : Env) (hok : env.OK) (F : Nat) (isEquip : Bool) (blk : Block) (ign : List UInt8)
    (hign : ∀ b ∈ ign, Ignored isEquip b) (w : WaitEnd)
    (hw : match w with | .eot r => isReply r | .enq => isEquip = false | .timeout => True)
    (hF : ign.length + 1 ≤ F + 2) (rest : List Ans) :
    sendOnceS (F + 2) isEquip blk (onceScript env blk ign w ++ rest) =
      some (w.result.1, w.result.2, onceEvs env blk ign w, rest) := by
  have hl := soLoop_model env hok F isEquip blk w hw rest ign hign (F + 2) [.write [ENQ], .clock, .timers] hF
  simp only [sendOnceS, onceScript, List.cons_append, List.nil_append, List.append_assoc, writeByte_ok,
    Option.bind_some, Option.isSome_none, Bool.false_eq_true, reduceIte, expClock, expTimers]
  simp only [List.cons_append, List.nil_append] at hl
  rw [hl]
  simp [onceEvs, List.append_assoc]

/-! ## one iteration of the RTY loop against one peer action -/

/-- what follows the attempt inside the iteration: after a detected contention, our EOT and the master's block -/
def yieldScript (env : Env) (w : WaitEnd) (arrival : Bytes) : List Ans :=
  match w with
  | .enq => .wrote 1 none :: recvScript env arrival
  | _ => []

/-- the events of one iteration -/
def iterEvs (env : Env) (blk : Block) (ign : List UInt8) (w : WaitEnd) (arrival : Bytes) : List LnEv :=
  .poll :: onceEvs env blk ign w ++
    (match w with
     | .enq =>
       .inc "incContentionYieldCount" :: .write [EOT] :: recvEvs env arrival ++
         (match receiveBytes arrival with
          | .block b => [.deliver b.toGen]
          | _ => [.inc "incBlockRetryCount"])
     | _ => if w.result.1 = 0 then [.inc "incBlockSendCount"] else [.inc "incBlockRetryCount"])

/-- the outcome of one iteration, as the model classifies it -/
def iterAttempt (w : WaitEnd) (arrival : Bytes) : Attempt :=
  match w with
  | .enq => (match receiveBytes arrival with | .block _ => .yieldDelivered | _ => .yieldFailed)
  | _ => if w.result.1 = 0 then .ok else .retry

def stepOf (a : Attempt) (ev : List LnEv) (rest : List Ans) (retry : Int) : Step SbSt (Go.Err × SbSt) :=
  match a with
  | .ok => .done (none, ⟨ev, rest, retry⟩)
  | .retry => .next ⟨ev, rest, retry + 1⟩
  | .yieldFailed => .next ⟨ev, rest, retry + 1⟩
  | .yieldDelivered => .next ⟨ev, rest, 0⟩

theorem replyCode_cases (r : Ans) : (replyCode r).1 = 0 ∧ (replyCode r).2 = none ∨ (replyCode r).1 = 1 := by
  unfold replyCode
  split
  · split <;> simp
  · simp

theorem sbStep_model (env : Env) (hok : env.OK) (F : Nat) (isEquip : Bool) (blk : Block) (ign : List UInt8)
    (hign : ∀ b ∈ ign, Ignored isEquip b) (w : WaitEnd)
    (hw : match w with | .eot r => isReply r | .enq => isEquip = false | .timeout => True)
    (hF : ign.length + 1 ≤ F + 2) (arrival : Bytes) (evs : List LnEv) (rest : List Ans) (retry : Int) :
    sbStep (F + 2) isEquip blk ⟨evs, .poll false :: (onceScript env blk ign w ++ (yieldScript env w arrival ++ rest)), retry⟩ =
      some (stepOf (iterAttempt w arrival) (evs ++ iterEvs env blk ign w arrival) rest retry) := by
  have ho := sendOnce_model env hok F isEquip blk ign hign w hw hF (yieldScript env w arrival ++ rest)
  simp only [sbStep, expPoll, Option.bind_some, Bool.false_eq_true, reduceIte, ho]
  cases w with
  | enq =>
    have hrec := receive_model env F arrival rest
    simp only [WaitEnd.result, yieldScript, List.cons_append, writeByte_ok, Option.bind_some, Option.isSome_none,
      Bool.false_eq_true, reduceIte, hrec]
    have h20 : ¬ ((2 : Int) = 0) := by decide
    simp only [h20, reduceIte]
    cases hv : receiveBytes arrival with
    | block b => simp [RecvResult.err, RecvResult.blockOpt, iterAttempt, hv, stepOf, iterEvs, blkGen, List.append_assoc]
    | t2 => simp [RecvResult.err, iterAttempt, hv, stepOf, iterEvs, List.append_assoc]
    | badLength => simp [RecvResult.err, iterAttempt, hv, stepOf, iterEvs, List.append_assoc]
    | t1 => simp [RecvResult.err, iterAttempt, hv, stepOf, iterEvs, List.append_assoc]
    | parse e => simp [RecvResult.err, iterAttempt, hv, stepOf, iterEvs, List.append_assoc]
  | timeout =>
    simp [WaitEnd.result, yieldScript, iterAttempt, stepOf, iterEvs, List.append_assoc]
  | eot reply =>
    rcases replyCode_cases reply with ⟨h0, he⟩ | h1
    · simp [WaitEnd.result, yieldScript, iterAttempt, stepOf, iterEvs, h0, he, List.append_assoc]
    · simp [WaitEnd.result, yieldScript, iterAttempt, stepOf, iterEvs, h1, List.append_assoc]

/-! ## peer actions -/

def actIgn (env : Env) (isEquip : Bool) : PeerAct → List UInt8
  | .noiseGrantAck => [env.noise]
  | .contendGood _ => if isEquip then [ENQ] else []
  | .contendBad _ => if isEquip then [ENQ] else []
  | .contendSilent => if isEquip then [ENQ] else []
  | _ => []

def actEnd (env : Env) (isEquip : Bool) : PeerAct → WaitEnd
  | .grantAck => .eot (.byte ACK none)
  | .grantNak => .eot (.byte NAK none)
  | .grantOther => .eot (.byte env.other none)
  | .grantSilent => .eot (.byte 0 timeoutErr)
  | .silent => .timeout
  | .noiseGrantAck => .eot (.byte ACK none)
  | .contendGood _ => if isEquip then .eot (.byte ACK none) else .enq
  | .contendBad _ => if isEquip then .eot (.byte ACK none) else .enq
  | .contendSilent => if isEquip then .timeout else .enq

/-- what the contending master sends once it is granted the line -/
def actArrival (env : Env) : PeerAct → Bytes
  | .contendGood b => b.wire
  | .contendBad b => env.corrupt b
  | _ => []

def PeerAct.WF : PeerAct → Prop
  | .contendGood b => b.body.length ≤ 244
  | _ => True

/-- the environment's answers during one iteration of the RTY loop against `act` -/
def actScript (env : Env) (isEquip : Bool) (blk : Block) (act : PeerAct) : List Ans :=
  .poll false :: (onceScript env blk (actIgn env isEquip act) (actEnd env isEquip act) ++
    yieldScript env (actEnd env isEquip act) (actArrival env act))

def actEvs (env : Env) (isEquip : Bool) (blk : Block) (act : PeerAct) : List LnEv :=
  iterEvs env blk (actIgn env isEquip act) (actEnd env isEquip act) (actArrival env act)

theorem receiveBytes_wire (b : Block) (hb : b.body.length ≤ 244) : receiveBytes b.wire = .block b := by
  have hlb : (UInt8.ofNat (blockHeaderSize + b.body.length)).toNat = 10 + b.body.length := by
    rw [ofNat_toNat]; simp only [blockHeaderSize]; omega
  have hl : (b.payload ++ beBytes 2 (checksum b.payload)).length = 10 + b.body.length + 2 := by simp [payload_length]
  have hp := parse_wire b hb
  simp only [Block.wire, parseWire] at hp
  simp only [Block.wire, receiveBytes, hlb, minBlockLength, maxBlockLength, checksumSize]
  have h1 : ¬ (10 + b.body.length < 10 ∨ 10 + b.body.length > 254) := by omega
  have h2 : ¬ ((b.payload ++ beBytes 2 (checksum b.payload)).length < 10 + b.body.length + 2) := by omega
  simp only [h1, h2, reduceIte]
  rw [List.take_of_length_le (by omega), hp]

theorem act_side (env : Env) (hok : env.OK) (isEquip : Bool) (act : PeerAct) :
    (∀ b ∈ actIgn env isEquip act, Ignored isEquip b) ∧
    (match actEnd env isEquip act with | .eot r => isReply r | .enq => isEquip = false | .timeout => True) ∧
    (actIgn env isEquip act).length ≤ 1 := by
  have h54 : ENQ ≠ EOT := by decide
  cases act <;> cases isEquip <;>
    simp [actIgn, actEnd, Ignored, isReply, timeoutErr, hok.noiseEot, hok.noiseEnq, h54]

/-- **one iteration of the RTY loop against a peer action is the model's `sendAttempt`**: outcome … -/
theorem act_attempt (env : Env) (hok : env.OK) (isEquip : Bool) (blk : Block) (act : PeerAct) (hwf : act.WF) :
    iterAttempt (actEnd env isEquip act) (actArrival env act) = (sendAttempt isEquip blk act).1 := by
  have hna : NAK ≠ ACK := by decide
  cases act with
  | contendGood b =>
    cases isEquip <;> simp [actEnd, actArrival, iterAttempt, sendAttempt, WaitEnd.result, replyCode,
      receiveBytes_wire b hwf]
  | contendBad b =>
    cases isEquip
    · simp only [actEnd, actArrival, iterAttempt, sendAttempt, Bool.false_eq_true, reduceIte]
      cases hv : receiveBytes (env.corrupt b) with
      | block b' => exact absurd hv (hok.corruptBad b b')
      | _ => rfl
    · simp [actEnd, iterAttempt, sendAttempt, WaitEnd.result, replyCode]
  | contendSilent =>
    cases isEquip <;> simp [actEnd, actArrival, iterAttempt, sendAttempt, WaitEnd.result, receiveBytes]
  | _ => simp [actEnd, iterAttempt, sendAttempt, WaitEnd.result, replyCode, hna, hok.otherAck, timeoutErr]

theorem writes_waitsEvs (env : Env) (ign : List UInt8) : writes (waitsEvs env ign) = [] := by
  induction ign with
  | nil => rfl
  | cons b bs ih => simp [waitsEvs, writes_append, ih, waitEvs, writes]

theorem delivered_waitsEvs (env : Env) (ign : List UInt8) : delivered (waitsEvs env ign) = [] := by
  induction ign with
  | nil => rfl
  | cons b bs ih => simp [waitsEvs, delivered_append, ih, waitEvs, delivered]

/-- … the characters written … -/
theorem act_writes (env : Env) (hok : env.OK) (isEquip : Bool) (blk : Block) (act : PeerAct) (hwf : act.WF) :
    writes (actEvs env isEquip blk act) = (sendAttempt isEquip blk act).2.1 := by
  have hna : NAK ≠ ACK := by decide
  cases act with
  | contendGood b =>
    cases isEquip <;> simp [actEvs, iterEvs, onceEvs, actEnd, actIgn, actArrival, sendAttempt, WaitEnd.evs, WaitEnd.result,
      replyCode, writes, writes_append, writes_waitsEvs, waitEvs, dataEvs, recvEvs_writes, receiveBytes_wire b hwf,
      RecvResult.answer]
  | contendBad b =>
    cases isEquip
    · simp only [actEvs, iterEvs, onceEvs, actEnd, actIgn, actArrival, sendAttempt, Bool.false_eq_true, reduceIte,
        WaitEnd.evs]
      cases hv : receiveBytes (env.corrupt b) with
      | block b' => exact absurd hv (hok.corruptBad b b')
      | _ => simp [writes, writes_append, writes_waitsEvs, waitsEvs, waitEvs, recvEvs_writes, hv, RecvResult.answer]
    · simp [actEvs, iterEvs, onceEvs, actEnd, actIgn, sendAttempt, WaitEnd.evs, WaitEnd.result, replyCode, writes,
        writes_append, waitsEvs, waitEvs, dataEvs]
  | contendSilent =>
    cases isEquip <;> simp [actEvs, iterEvs, onceEvs, actEnd, actIgn, actArrival, sendAttempt, WaitEnd.evs,
      WaitEnd.result, writes, writes_append, waitsEvs, waitEvs, recvEvs_writes, receiveBytes, RecvResult.answer]
  | _ =>
    simp [actEvs, iterEvs, onceEvs, actEnd, actIgn, sendAttempt, WaitEnd.evs, WaitEnd.result, replyCode, hna,
      hok.otherAck, timeoutErr, writes, writes_append, waitsEvs, waitEvs, dataEvs]

/-- … and the block handed to `deliver`. -/
theorem act_delivered (env : Env) (hok : env.OK) (isEquip : Bool) (blk : Block) (act : PeerAct) (hwf : act.WF) :
    delivered (actEvs env isEquip blk act) = ((sendAttempt isEquip blk act).2.2.map Block.toGen).toList := by
  have hna : NAK ≠ ACK := by decide
  cases act with
  | contendGood b =>
    cases isEquip <;> simp [actEvs, iterEvs, onceEvs, actEnd, actIgn, actArrival, sendAttempt, WaitEnd.evs, WaitEnd.result,
      replyCode, delivered, delivered_append, delivered_waitsEvs, waitsEvs, waitEvs, dataEvs, recvEvs_delivered,
      receiveBytes_wire b hwf]
  | contendBad b =>
    cases isEquip
    · simp only [actEvs, iterEvs, onceEvs, actEnd, actIgn, actArrival, sendAttempt, Bool.false_eq_true, reduceIte,
        WaitEnd.evs]
      cases hv : receiveBytes (env.corrupt b) with
      | block b' => exact absurd hv (hok.corruptBad b b')
      | _ => simp [delivered, delivered_append, waitsEvs, waitEvs, recvEvs_delivered, hv]
    · simp [actEvs, iterEvs, onceEvs, actEnd, actIgn, sendAttempt, WaitEnd.evs, WaitEnd.result, replyCode, delivered,
        delivered_append, waitsEvs, waitEvs, dataEvs]
  | contendSilent =>
    cases isEquip <;> simp [actEvs, iterEvs, onceEvs, actEnd, actIgn, actArrival, sendAttempt, WaitEnd.evs,
      WaitEnd.result, delivered, delivered_append, waitsEvs, waitEvs, recvEvs_delivered, receiveBytes]
  | _ =>
    simp [actEvs, iterEvs, onceEvs, actEnd, actIgn, sendAttempt, WaitEnd.evs, WaitEnd.result, replyCode, hna,
      hok.otherAck, timeoutErr, delivered, delivered_append, waitsEvs, waitEvs, dataEvs]

/-- one iteration, packaged -/
theorem attempt_model (env : Env) (hok : env.OK) (F : Nat) (isEquip : Bool) (blk : Block) (act : PeerAct)
    (hwf : act.WF) (evs : List LnEv) (rest : List Ans) (retry : Int) :
    sbStep (F + 2) isEquip blk ⟨evs, actScript env isEquip blk act ++ rest, retry⟩ =
      some (stepOf (sendAttempt isEquip blk act).1 (evs ++ actEvs env isEquip blk act) rest retry) := by
  obtain ⟨h1, h2, h3⟩ := act_side env hok isEquip act
  have := sbStep_model env hok F isEquip blk (actIgn env isEquip act) h1 (actEnd env isEquip act) h2 (by omega)
    (actArrival env act) evs rest retry
  rw [← act_attempt env hok isEquip blk act hwf]
  simpa [actScript, actEvs, List.append_assoc] using this

/-! ## the whole RTY loop against a peer schedule -/

def silentScript (env : Env) (isEquip : Bool) (blk : Block) : Nat → List Ans
  | 0 => []
  | n + 1 => actScript env isEquip blk .silent ++ silentScript env isEquip blk n

def silentEvs (env : Env) (isEquip : Bool) (blk : Block) : Nat → List LnEv
  | 0 => []
  | n + 1 => actEvs env isEquip blk .silent ++ silentEvs env isEquip blk n

/-- the environment's answers during one `sendBlock` call against the schedule (mirrors `sendLoop`: an exhausted
    schedule means the peer has stopped answering) -/
def schedScript (env : Env) (isEquip : Bool) (blk : Block) (limit : Nat) : Nat → List PeerAct → List Ans
  | retry, [] => silentScript env isEquip blk (limit + 1 - retry)
  | retry, act :: rest =>
    if retry > limit then []
    else actScript env isEquip blk act ++
      (match (sendAttempt isEquip blk act).1 with
       | .ok => []
       | .retry => schedScript env isEquip blk limit (retry + 1) rest
       | .yieldFailed => schedScript env isEquip blk limit (retry + 1) rest
       | .yieldDelivered => schedScript env isEquip blk limit 0 rest)

def schedEvs (env : Env) (isEquip : Bool) (blk : Block) (limit : Nat) : Nat → List PeerAct → List LnEv
  | retry, [] => silentEvs env isEquip blk (limit + 1 - retry)
  | retry, act :: rest =>
    if retry > limit then []
    else actEvs env isEquip blk act ++
      (match (sendAttempt isEquip blk act).1 with
       | .ok => []
       | .retry => schedEvs env isEquip blk limit (retry + 1) rest
       | .yieldFailed => schedEvs env isEquip blk limit (retry + 1) rest
       | .yieldDelivered => schedEvs env isEquip blk limit 0 rest)

theorem sendSilent_facts (k : Nat) :
    (sendSilent k).ok = false ∧ (sendSilent k).attempts.length = k ∧ (sendSilent k).delivered = [] := by
  induction k with
  | zero => exact ⟨rfl, rfl, rfl⟩
  | succ n ih => simp [sendSilent, SendTrace.push, ih]

theorem silent_attempt (isEquip : Bool) (blk : Block) : sendAttempt isEquip blk .silent = (.retry, [ENQ], none) := rfl

theorem silentLoop_model (env : Env) (hok : env.OK) (F : Nat) (isEquip : Bool) (blk : Block) (limit : Nat)
    (rest : List Ans) :
    ∀ (k retry n : Nat) (evs : List LnEv), k = limit + 1 - retry → k + 1 ≤ n →
      ∃ r' : Int, mloop (sbGuard (limit : Int)) (sbStep (F + 2) isEquip blk) n
          ⟨evs, silentScript env isEquip blk k ++ rest, (retry : Int)⟩ =
        some (.ok ⟨evs ++ silentEvs env isEquip blk k, rest, r'⟩) := by
  intro k
  induction k with
  | zero =>
    intro retry n evs hk hn
    obtain ⟨n', rfl⟩ : ∃ n', n = n' + 1 := ⟨n - 1, by omega⟩
    have hg : sbGuard (limit : Int) ⟨evs, rest, (retry : Int)⟩ = false := by
      simp [sbGuard]; omega
    exact ⟨retry, by simp [mloop, silentScript, silentEvs, hg]⟩
  | succ k ih =>
    intro retry n evs hk hn
    obtain ⟨n', rfl⟩ : ∃ n', n = n' + 1 := ⟨n - 1, by omega⟩
    have hg : sbGuard (limit : Int) ⟨evs, actScript env isEquip blk .silent ++ (silentScript env isEquip blk k ++ rest),
        (retry : Int)⟩ = true := by
      simp [sbGuard]; omega
    have hst := attempt_model env hok F isEquip blk .silent trivial evs (silentScript env isEquip blk k ++ rest) retry
    rw [silent_attempt] at hst
    obtain ⟨r', hr⟩ := ih (retry + 1) n' (evs ++ actEvs env isEquip blk .silent) (by omega) (by omega)
    refine ⟨r', ?_⟩
    simp only [silentScript, silentEvs, List.append_assoc, mloop, hg, reduceIte, hst, stepOf]
    have hc : ((retry : Int) + 1) = ((retry + 1 : Nat) : Int) := by omega
    rw [hc, hr]
    simp [List.append_assoc]

/-- **the RTY loop against a peer schedule is the model's `sendLoop`** (control flow): it ends with nil exactly when the
    model's trace is `ok`, having consumed exactly the answers of the attempts the model makes -/
theorem sendLoop_model (env : Env) (hok : env.OK) (F : Nat) (isEquip : Bool) (blk : Block) (limit : Nat)
    (rest : List Ans) :
    ∀ (sched : List PeerAct), (∀ a ∈ sched, a.WF) → ∀ (retry n : Nat) (evs : List LnEv),
      (sendLoop isEquip limit blk retry sched).attempts.length + 1 ≤ n →
      ∃ r' : Int, mloop (sbGuard (limit : Int)) (sbStep (F + 2) isEquip blk) n
          ⟨evs, schedScript env isEquip blk limit retry sched ++ rest, (retry : Int)⟩ =
        some (if (sendLoop isEquip limit blk retry sched).ok
              then .error (none, ⟨evs ++ schedEvs env isEquip blk limit retry sched, rest, r'⟩)
              else .ok ⟨evs ++ schedEvs env isEquip blk limit retry sched, rest, r'⟩) := by
  intro sched
  induction sched with
  | nil =>
    intro _ retry n evs hn
    have hf := sendSilent_facts (limit + 1 - retry)
    simp only [sendLoop, hf.2.1] at hn
    obtain ⟨r', hr⟩ := silentLoop_model env hok F isEquip blk limit rest (limit + 1 - retry) retry n evs rfl hn
    exact ⟨r', by simp [schedScript, schedEvs, sendLoop, hf.1, hr]⟩
  | cons act tl ih =>
    intro hwf retry n evs hn
    have hwa : act.WF := hwf act (by simp)
    have hwt : ∀ a ∈ tl, a.WF := fun a ha => hwf a (by simp [ha])
    by_cases hgt : retry > limit
    · obtain ⟨n', rfl⟩ : ∃ n', n = n' + 1 := ⟨n - 1, by omega⟩
      have hg : sbGuard (limit : Int) ⟨evs, rest, (retry : Int)⟩ = false := by simp [sbGuard]; omega
      exact ⟨retry, by simp [schedScript, schedEvs, sendLoop, hgt, mloop, hg]⟩
    · have hg : ∀ sc, sbGuard (limit : Int) ⟨evs, sc, (retry : Int)⟩ = true := by intro sc; simp [sbGuard]; omega
      cases ha : (sendAttempt isEquip blk act).1 with
      | ok =>
        simp only [sendLoop, hgt, reduceIte, ha, SendTrace.push] at hn ⊢
        obtain ⟨n', rfl⟩ : ∃ n', n = n' + 1 := ⟨n - 1, by omega⟩
        have hst := attempt_model env hok F isEquip blk act hwa evs rest retry
        rw [ha] at hst
        exact ⟨retry, by simp [schedScript, schedEvs, hgt, ha, mloop, hg, hst, stepOf]⟩
      | retry =>
        simp only [sendLoop, hgt, reduceIte, ha, SendTrace.push, List.length_cons] at hn ⊢
        obtain ⟨n', rfl⟩ : ∃ n', n = n' + 1 := ⟨n - 1, by omega⟩
        have hst := attempt_model env hok F isEquip blk act hwa evs
          (schedScript env isEquip blk limit (retry + 1) tl ++ rest) retry
        rw [ha] at hst
        obtain ⟨r', hr⟩ := ih hwt (retry + 1) n' (evs ++ actEvs env isEquip blk act) (by omega)
        refine ⟨r', ?_⟩
        have hc : ((retry : Int) + 1) = ((retry + 1 : Nat) : Int) := by omega
        simp only [schedScript, schedEvs, hgt, reduceIte, ha, List.append_assoc, mloop, hg, hst, stepOf]
        rw [hc, hr]
        simp [List.append_assoc]
      | yieldFailed =>
        simp only [sendLoop, hgt, reduceIte, ha, SendTrace.push, List.length_cons] at hn ⊢
        obtain ⟨n', rfl⟩ : ∃ n', n = n' + 1 := ⟨n - 1, by omega⟩
        have hst := attempt_model env hok F isEquip blk act hwa evs
          (schedScript env isEquip blk limit (retry + 1) tl ++ rest) retry
        rw [ha] at hst
        obtain ⟨r', hr⟩ := ih hwt (retry + 1) n' (evs ++ actEvs env isEquip blk act) (by omega)
        refine ⟨r', ?_⟩
        have hc : ((retry : Int) + 1) = ((retry + 1 : Nat) : Int) := by omega
        simp only [schedScript, schedEvs, hgt, reduceIte, ha, List.append_assoc, mloop, hg, hst, stepOf]
        rw [hc, hr]
        simp [List.append_assoc]
      | yieldDelivered =>
        simp only [sendLoop, hgt, reduceIte, ha, SendTrace.push, List.length_cons] at hn ⊢
        obtain ⟨n', rfl⟩ : ∃ n', n = n' + 1 := ⟨n - 1, by omega⟩
        have hst := attempt_model env hok F isEquip blk act hwa evs
          (schedScript env isEquip blk limit 0 tl ++ rest) retry
        rw [ha] at hst
        obtain ⟨r', hr⟩ := ih hwt 0 n' (evs ++ actEvs env isEquip blk act) (by omega)
        refine ⟨r', ?_⟩
        have hc : (0 : Int) = ((0 : Nat) : Int) := rfl
        simp only [schedScript, schedEvs, hgt, reduceIte, ha, List.append_assoc, mloop, hg, hst, stepOf]
        rw [hc, hr]
        simp [List.append_assoc]

theorem silentEvs_writes (env : Env) (hok : env.OK) (isEquip : Bool) (blk : Block) (k : Nat) :
    writes (silentEvs env isEquip blk k) = (sendSilent k).line ∧ delivered (silentEvs env isEquip blk k) = [] := by
  induction k with
  | zero => exact ⟨rfl, rfl⟩
  | succ n ih =>
    have hw := act_writes env hok isEquip blk .silent trivial
    have hd := act_delivered env hok isEquip blk .silent trivial
    rw [silent_attempt] at hw hd
    simp [silentEvs, sendSilent, SendTrace.push, writes_append, delivered_append, ih, hw, hd]

/-- everything written / delivered during the call is the model's `line` / `delivered` -/
theorem schedEvs_model (env : Env) (hok : env.OK) (isEquip : Bool) (blk : Block) (limit : Nat) :
    ∀ (sched : List PeerAct), (∀ a ∈ sched, a.WF) → ∀ retry : Nat,
      writes (schedEvs env isEquip blk limit retry sched) = (sendLoop isEquip limit blk retry sched).line ∧
      delivered (schedEvs env isEquip blk limit retry sched) =
        (sendLoop isEquip limit blk retry sched).delivered.map Block.toGen := by
  intro sched
  induction sched with
  | nil =>
    intro _ retry
    have h := silentEvs_writes env hok isEquip blk (limit + 1 - retry)
    have hf := sendSilent_facts (limit + 1 - retry)
    simp [schedEvs, sendLoop, h, hf]
  | cons act tl ih =>
    intro hwf retry
    have hwa : act.WF := hwf act (by simp)
    have hwt : ∀ a ∈ tl, a.WF := fun a ha => hwf a (by simp [ha])
    have hw := act_writes env hok isEquip blk act hwa
    have hd := act_delivered env hok isEquip blk act hwa
    by_cases hgt : retry > limit
    · simp [schedEvs, sendLoop, hgt, writes, delivered]
    · cases ha : (sendAttempt isEquip blk act).1 with
      | ok =>
        cases ho : (sendAttempt isEquip blk act).2.2 <;>
          simp [schedEvs, sendLoop, hgt, ha, SendTrace.push, writes_append, delivered_append, hw, hd, ho, writes,
            delivered]
      | retry =>
        have := ih hwt (retry + 1)
        cases ho : (sendAttempt isEquip blk act).2.2 <;>
          simp [schedEvs, sendLoop, hgt, ha, SendTrace.push, writes_append, delivered_append, hw, hd, ho, this]
      | yieldFailed =>
        have := ih hwt (retry + 1)
        cases ho : (sendAttempt isEquip blk act).2.2 <;>
          simp [schedEvs, sendLoop, hgt, ha, SendTrace.push, writes_append, delivered_append, hw, hd, ho, this]
      | yieldDelivered =>
        have := ih hwt 0
        cases ho : (sendAttempt isEquip blk act).2.2 <;>
          simp [schedEvs, sendLoop, hgt, ha, SendTrace.push, writes_append, delivered_append, hw, hd, ho, this]

/-- **`sendBlockS` against a peer schedule is the model's `sendBlock`**: for both roles, every block, every retry limit,
    every schedule of peer actions (a `contendGood` block being one that fits a block), every environment `env.OK`
    and every fuel above the number of attempts the model makes: nil iff the model's trace is `ok`, ErrSendFailed (after
    counting it) otherwise; the script is consumed exactly; the characters written are the model's `line`, the blocks
    handed to `deliver` the model's `delivered`. -/
theorem sendBlock_model (env : Env) (hok : env.OK) (F : Nat) (isEquip : Bool) (blk : Block) (limit : Nat)
    (sched : List PeerAct) (hwf : ∀ a ∈ sched, a.WF)
    (hF : (sendBlock isEquip limit blk sched).attempts.length + 1 ≤ F + 2) (rest : List Ans) :
    ∃ evs, sendBlockS (F + 2) isEquip blk (limit : Int) (schedScript env isEquip blk limit 0 sched ++ rest) =
        some (if (sendBlock isEquip limit blk sched).ok then none else some "ErrSendFailed", evs, rest) ∧
      writes evs = (sendBlock isEquip limit blk sched).line ∧
      delivered evs = (sendBlock isEquip limit blk sched).delivered.map Block.toGen := by
  obtain ⟨r', hr⟩ := sendLoop_model env hok F isEquip blk limit rest sched hwf 0 (F + 2) [] hF
  have hm := schedEvs_model env hok isEquip blk limit sched hwf 0
  have h0 : ((0 : Nat) : Int) = 0 := rfl
  rw [h0] at hr
  unfold sendBlockS sendBlock at *
  cases hok' : (sendLoop isEquip limit blk 0 sched).ok with
  | true =>
    simp only [hok', reduceIte] at hr
    refine ⟨schedEvs env isEquip blk limit 0 sched, ?_, hm.1, hm.2⟩
    have : ({ script := schedScript env isEquip blk limit 0 sched ++ rest } : SbSt) =
        ⟨[], schedScript env isEquip blk limit 0 sched ++ rest, 0⟩ := rfl
    rw [this, hr]
    simp
  | false =>
    simp only [hok', Bool.false_eq_true, reduceIte] at hr
    refine ⟨schedEvs env isEquip blk limit 0 sched ++ [.inc "incBlockSendFailedCount"], ?_, ?_, ?_⟩
    · have : ({ script := schedScript env isEquip blk limit 0 sched ++ rest } : SbSt) =
          ⟨[], schedScript env isEquip blk limit 0 sched ++ rest, 0⟩ := rfl
      rw [this, hr]
      simp
    · simp [writes_append, hm.1, writes]
    · simp [delivered_append, hm.2, delivered]

end GoSecs.Secs1
