/-
  The deadline decisions of the regenerated `readFrame` (Lemmas/ReadFrameGen.lean: `readFrame_gen`, `T8Rule`) are the
  decisions of the stream-framing model (GoSecs/Model/Framing.lean): `ModelRule`, `readFrame_model`.  Core Lean only.
-/
import GoSecs.Lemmas.ReadFrameGen
import GoSecs.Lemmas.Framing

set_option linter.unusedSimpArgs false
set_option linter.unusedVariables false

namespace GoSecs.Framing
open GoSecs.Gen GoSecs.Io GoSecs.Hsms

/-! ## The same decisions are the stream model's (GoSecs/Model/Framing.lean) -/

/-- **The rule in terms of the stream model**: walking through the `readN` events of a frame with the model's receiver
    state (`feed` consumes what each Read stored), every `SetReadDeadline` is the idle wait exactly when the model's
    state is not `started` — i.e. exactly when the model's `stepEvent` would NOT apply the T8 check to the next event. -/
def ModelRule (cap : Nat) : RState → List RdEv → Prop
  | _, [] => True
  | s, .arm d :: r => (d = .idle ↔ s.started = false) ∧ ModelRule cap s r
  | s, .read _ got :: r => ModelRule cap (feed cap s got) r

/-- the bytes stored by the Reads among these events -/
def gotOf : List RdEv → Bytes
  | [] => []
  | .arm _ :: r => gotOf r
  | .read _ got :: r => got ++ gotOf r

/-- `Q` holds of the bytes read so far (`acc` before these events) at every `SetReadDeadline` -/
def ArmsOK (Q : Bytes → Prop) : Bytes → List RdEv → Prop
  | _, [] => True
  | acc, .arm _ :: r => Q acc ∧ ArmsOK Q acc r
  | acc, .read _ got :: r => ArmsOK Q (acc ++ got) r

theorem gotOf_append (a b : List RdEv) : gotOf (a ++ b) = gotOf a ++ gotOf b := by
  induction a with
  | nil => rfl
  | cons x xs ih => cases x <;> simp [gotOf, ih]

theorem ArmsOK_append (Q : Bytes → Prop) (acc : Bytes) (a b : List RdEv) :
    ArmsOK Q acc (a ++ b) ↔ ArmsOK Q acc a ∧ ArmsOK Q (acc ++ gotOf a) b := by
  induction a generalizing acc with
  | nil => simp [ArmsOK, gotOf]
  | cons x xs ih => cases x <;> simp [ArmsOK, gotOf, ih, and_assoc, List.append_assoc]

theorem startedAfter_gotOf (s : Bool) (evs : List RdEv) : startedAfter s evs = (s || !(gotOf evs).isEmpty) := by
  induction evs generalizing s with
  | nil => simp [startedAfter, gotOf]
  | cons x xs ih =>
    cases x with
    | arm d => simp [startedAfter, gotOf, ih]
    | read r g => simp [startedAfter, gotOf, ih, Bool.or_assoc]; cases g <;> simp

theorem modelRule_of (cap : Nat) : ∀ (evs : List RdEv) (acc : Bytes), T8Rule (!acc.isEmpty) evs →
    ArmsOK (fun a => (feed cap .init a).started = !a.isEmpty) acc evs → ModelRule cap (feed cap .init acc) evs := by
  intro evs
  induction evs with
  | nil => intro _ _ _; trivial
  | cons x xs ih =>
    intro acc ht ha
    cases x with
    | arm d =>
      simp only [T8Rule, ArmsOK, ModelRule] at ht ha ⊢
      refine ⟨?_, ih acc ht.2 ha.2⟩
      rw [ha.1]; exact ht.1
    | read r g =>
      simp only [T8Rule, ArmsOK, ModelRule] at ht ha ⊢
      rw [← feed_append]
      apply ih (acc ++ g) _ ha
      have : (!(acc ++ g).isEmpty) = (!acc.isEmpty || !g.isEmpty) := by cases acc <;> cases g <;> simp
      rw [this]; exact ht

/-! ### the model's `started` while a frame is being read -/

/-- inside the 4-byte prefix -/
theorem feed_prefix (cap : Nat) : ∀ (bs : Bytes) (s : RState), s.dropped = none → s.len = none → s.got + bs.length < 4 →
    (feed cap s bs).dropped = none ∧ (feed cap s bs).len = none ∧ (feed cap s bs).got = s.got + bs.length ∧
    (feed cap s bs).rbuf = bs.reverse ++ s.rbuf ∧ (feed cap s bs).started = (s.started || !bs.isEmpty) ∧
    (feed cap s bs).alloc = s.alloc := by
  intro bs
  induction bs with
  | nil => intro s hd hl _; simp [feed, hd, hl]
  | cons b bs ih =>
    intro s hd hl hg
    simp only [List.length_cons] at hg
    have h4 : s.got + 1 < 4 := by omega
    have hst : stepByte cap s b = { s with rbuf := b :: s.rbuf, got := s.got + 1, started := true, idle := 0 } := by
      simp [stepByte, hd, hl, h4]
    rw [feed_cons, hst]
    obtain ⟨h1, h2, h3, h4', h5, h6⟩ := ih { s with rbuf := b :: s.rbuf, got := s.got + 1, started := true, idle := 0 }
      hd hl (by simp only; omega)
    refine ⟨h1, h2, by rw [h3]; simp only [List.length_cons]; omega, by rw [h4']; simp, by rw [h5]; simp, h6⟩

/-- inside header+body, once the length `L` passed the gate -/
theorem feed_body (cap L : Nat) : ∀ (bs : Bytes) (s : RState), s.dropped = none → s.len = some L →
    s.got + bs.length < 4 + L →
    (feed cap s bs).dropped = none ∧ (feed cap s bs).len = some L ∧ (feed cap s bs).got = s.got + bs.length ∧
    (feed cap s bs).started = (s.started || !bs.isEmpty) := by
  intro bs
  induction bs with
  | nil => intro s hd hl _; simp [feed, hd, hl]
  | cons b bs ih =>
    intro s hd hl hg
    simp only [List.length_cons] at hg
    have h4 : s.got + 1 < 4 + L := by omega
    have hst : stepByte cap s b = { s with rbuf := b :: s.rbuf, got := s.got + 1, started := true, idle := 0 } := by
      simp [stepByte, hd, hl, h4]
    rw [feed_cons, hst]
    obtain ⟨h1, h2, h3, h5⟩ := ih { s with rbuf := b :: s.rbuf, got := s.got + 1, started := true, idle := 0 }
      hd hl (by simp only; omega)
    refine ⟨h1, h2, by rw [h3]; simp only [List.length_cons]; omega, by rw [h5]; simp⟩

/-- after a prefix that passes the gate -/
theorem feed_gate_ok (cap L : Nat) (a0 a1 a2 a3 : UInt8) (hg : lengthGate cap (beVal [a0, a1, a2, a3]) = .ok L) :
    (feed cap .init [a0, a1, a2, a3]).dropped = none ∧ (feed cap .init [a0, a1, a2, a3]).len = some L ∧
    (feed cap .init [a0, a1, a2, a3]).got = 4 ∧ (feed cap .init [a0, a1, a2, a3]).started = true := by
  generalize hv : beVal [a0, a1, a2, a3] = v at hg
  unfold lengthGate at hg
  by_cases h10 : v < 10
  · simp [h10] at hg
  · by_cases hc : v > cap
    · simp [h10, hc] at hg
    · simp only [h10, hc, reduceIte, Except.ok.injEq] at hg
      subst hg
      have hr : ([a3, a2, a1, a0] : Bytes).reverse = [a0, a1, a2, a3] := rfl
      simp [feed, stepByte, RState.init, hr, hv, h10, hc]

/-- what `stored` keeps: the invariant "the bytes read so far are `buf[:read]`" -/
theorem stored_inv (Q : Bytes → Prop) (acc0 : Bytes) (n : Nat) (st : RdSt) (dl : Dl) (got : Bytes) (s3 : List Ans)
    (hA : ArmsOK Q acc0 st.evs) (hG : gotOf st.evs = st.buf.take st.read) (hlt : st.read < st.buf.length)
    (hlen : st.buf.length = n) (hgl : got.length ≤ st.buf.length - st.read) (hQst : Q (acc0 ++ gotOf st.evs)) :
    ArmsOK Q acc0 (st.stored dl got s3).evs ∧
      gotOf (st.stored dl got s3).evs = (st.stored dl got s3).buf.take (st.stored dl got s3).read ∧
      (st.stored dl got s3).read ≤ (st.stored dl got s3).buf.length ∧
      (st.stored dl got s3).buf.length = n := by
  have h1 : (st.buf.take st.read ++ got).length = st.read + got.length := by simp; omega
  refine ⟨?_, ?_, ?_, ?_⟩
  · show ArmsOK Q acc0 (st.evs ++ [.arm dl, .read _ got])
    rw [ArmsOK_append]; exact ⟨hA, hQst, trivial⟩
  · show gotOf (st.evs ++ [.arm dl, .read _ got]) =
      (st.buf.take st.read ++ got ++ st.buf.drop (st.read + got.length)).take (st.read + got.length)
    rw [gotOf_append, hG, List.take_left' h1]
    simp [gotOf]
  · show st.read + got.length ≤ (st.buf.take st.read ++ got ++ st.buf.drop (st.read + got.length)).length
    simp; omega
  · show (st.buf.take st.read ++ got ++ st.buf.drop (st.read + got.length)).length = n
    simp; omega

/-- the `readN` loop keeps "the bytes read so far are `buf[:read]`" and reaches every `SetReadDeadline` with
    `read < len(buf)` -/
theorem readN_arms (t8 : Int) (Q : Bytes → Prop) (acc0 : Bytes) (fuel : Nat) (script : List Ans) (buf : Bytes)
    (s0 : Bool) (out : RdOut) (h : readN t8 fuel script buf s0 = some out)
    (hQ : ∀ k, k < buf.length → ∀ b' : Bytes, b'.length = buf.length → Q (acc0 ++ b'.take k)) :
    ArmsOK Q acc0 out.evs ∧ (out.err = none → gotOf out.evs = out.buf) := by
  unfold readN at h
  cases hm : mloop readGuard (readStep t8) fuel { script := script, buf := buf, started := s0 } with
  | none => simp [hm] at h
  | some r =>
    let P : RdSt → Prop := fun st =>
      ArmsOK Q acc0 st.evs ∧ gotOf st.evs = st.buf.take st.read ∧ st.read ≤ st.buf.length ∧ st.buf.length = buf.length
    have inv := mloop_inv readGuard (readStep t8) P (fun r => P r.2 ∧ (r.1 = none → r.2.read = r.2.buf.length))
      (by
        intro st x hP hg hs
        obtain ⟨hA, hG, hle, hlen⟩ := hP
        simp only [readGuard, decide_eq_true_eq] at hg
        obtain ⟨dl, s1, ha, hx⟩ := readStep_cases t8 st x hs
        have hQst : Q (acc0 ++ gotOf st.evs) := by
          rw [hG]; exact hQ st.read (by omega) st.buf hlen
        rcases hx with ⟨e, s2, _, rfl⟩ | ⟨data, e, s3, _, rfl⟩
        · refine ⟨⟨?_, ?_, hle, hlen⟩, by simp⟩
          · show ArmsOK Q acc0 (st.evs ++ [.arm dl])
            rw [ArmsOK_append]; exact ⟨hA, hQst, trivial⟩
          · show gotOf (st.evs ++ [.arm dl]) = _
            rw [gotOf_append]; simpa [gotOf] using hG
        · have hgl : (data.take (st.buf.length - st.read)).length ≤ st.buf.length - st.read := by simp; omega
          have hP' := stored_inv Q acc0 buf.length st dl (data.take (st.buf.length - st.read)) s3 hA hG hg hlen hgl hQst
          have hbl : (st.stored dl (data.take (st.buf.length - st.read)) s3).buf.length = st.buf.length := by
            rw [hP'.2.2.2, hlen]
          by_cases h1 : (st.stored dl (data.take (st.buf.length - st.read)) s3).read = st.buf.length
          · rw [if_pos h1]
            exact ⟨hP', fun _ => by rw [h1, hbl]⟩
          · rw [if_neg h1]
            cases e with
            | none => exact hP'
            | some e => exact ⟨hP', fun hh => by simp at hh⟩)
      fuel { script := script, buf := buf, started := s0 } r ⟨trivial, by simp [gotOf], Nat.zero_le _, rfl⟩ hm
    cases r with
    | ok st =>
      simp only [hm, Option.some.injEq] at h; subst h
      obtain ⟨⟨hA, hG, hle, hlen⟩, hgf⟩ := inv
      simp only [readGuard, decide_eq_false_iff_not] at hgf
      refine ⟨hA, fun _ => ?_⟩
      show gotOf st.evs = st.buf
      rw [hG, List.take_of_length_le (by omega)]
    | error r =>
      obtain ⟨e, st⟩ := r
      simp only [hm, Option.some.injEq] at h; subst h
      obtain ⟨⟨hA, hG, hle, hlen⟩, hc⟩ := inv
      refine ⟨hA, fun he => ?_⟩
      show gotOf st.evs = st.buf
      rw [hG, hc he, List.take_of_length_le (Nat.le_refl _)]

theorem nonempty_append (a b : Bytes) : (!(a ++ b).isEmpty) = (!a.isEmpty || !b.isEmpty) := by
  cases a <;> cases b <;> simp

/-- **`readFrame`'s deadline decisions are the stream model's**, for every run in which the allocator hands out a
    buffer of the requested length (as the production allocator `makeFrame` does): before each `Read` of the frame the
    deadline is armed iff the model's receiver state after the bytes read so far is `started` — the condition under which
    `Framing.stepEvent` applies T8 to the next event (`inframe_gap_drops`), and otherwise does not
    (`idle_gap_never_times_out`). -/
theorem readFrame_model (fuel : Nat) (script : List Ans) (out : FrOut) (h : readFrame fuel script = some out)
    (halloc : ∀ n len, FrEv.alloc n len ∈ out.evs → len = n) :
    ModelRule maxMsgLen .init (rdEvs out.evs) := by
  have hrule := readFrame_rule fuel script out h
  have h0 : feed maxMsgLen .init ([] : Bytes) = .init := rfl
  rw [← h0]
  apply modelRule_of maxMsgLen _ [] hrule
  simp only [readFrame, Option.bind_eq_some_iff] at h
  obtain ⟨⟨tc, s1⟩, ht, o1, h1, h⟩ := h
  have l1 := readN_len tc.T8 fuel s1 _ false o1 h1
  have a1 := readN_arms tc.T8 (fun a => (feed maxMsgLen .init a).started = !a.isEmpty) [] fuel s1 _ false o1 h1
    (by
      intro k hk b' hb'
      simp only [List.length_replicate] at hk hb'
      have hl : (b'.take k).length = k := by simp; omega
      obtain ⟨_, _, _, _, h5, _⟩ := feed_prefix maxMsgLen (b'.take k) .init rfl rfl (by simp [RState.init, hl]; omega)
      simpa [RState.init] using h5)
  by_cases he : o1.err.isSome = true
  · simp only [he, reduceIte, Option.some.injEq] at h
    subst h
    simpa [rdEvs, rdEvs_map] using a1.1
  · simp only [he, Bool.false_eq_true, reduceIte] at h
    have hen : o1.err = none := by cases hh : o1.err <;> simp_all
    cases hg : lengthGate maxMsgLen (beVal o1.buf) with
    | error d =>
      simp only [hg, Option.some.injEq] at h
      subst h
      simpa [rdEvs, rdEvs_map] using a1.1
    | ok L =>
      simp only [hg, Option.bind_eq_some_iff] at h
      obtain ⟨⟨fr, s2⟩, hal, o2, h2, h⟩ := h
      obtain ⟨a0, b0, c0, d0, hb⟩ := four_bytes o1.buf (by simpa using l1)
      rw [hb] at hg
      obtain ⟨g1, g2, g3, g4⟩ := feed_gate_ok maxMsgLen L a0 b0 c0 d0 hg
      have hgot1 : gotOf o1.evs = [a0, b0, c0, d0] := by rw [a1.2 hen, hb]
      -- the second readN: every SetReadDeadline happens with prefix ++ frame[:k], k < L, read so far
      have a2 : fr.length = L → ArmsOK (fun a => (feed maxMsgLen .init a).started = !a.isEmpty) [a0, b0, c0, d0] o2.evs := by
        intro hfr
        exact (readN_arms tc.T8 _ [a0, b0, c0, d0] fuel s2 fr o1.started o2 h2
          (by
            intro k hk b' hb'
            have hl : (b'.take k).length = k := by simp; omega
            obtain ⟨_, _, _, h5⟩ := feed_body maxMsgLen L (b'.take k) (feed maxMsgLen .init [a0, b0, c0, d0]) g1 g2
              (by rw [g3, hl]; omega)
            rw [feed_append, h5, g4]
            simp)).1
      have key : ∀ (frame : Bytes) (err : Go.Err),
          out = ⟨frame, err, .timers :: (o1.evs.map .rd ++ .alloc L fr.length :: o2.evs.map .rd), o2.rest⟩ →
          ArmsOK (fun a => (feed maxMsgLen .init a).started = !a.isEmpty) [] (rdEvs out.evs) := by
        intro frame err ho
        have hfr : fr.length = L := halloc L fr.length (by rw [ho]; simp)
        rw [ho]
        simp only [rdEvs, rdEvs_append, rdEvs_map]
        rw [ArmsOK_append, hgot1]
        exact ⟨a1.1, by simpa using a2 hfr⟩
      by_cases he2 : o2.err.isSome = true
      · simp only [he2, reduceIte, Option.some.injEq] at h
        exact key _ _ h.symm
      · simp only [he2, Bool.false_eq_true, reduceIte, Option.some.injEq] at h
        exact key _ _ h.symm

end GoSecs.Framing
