/-
  The supervisor's per-goroutine code read SEQUENTIALLY, over the model's own vocabulary, and its agreement with
  the interleaving model GoSecs/Model/Supervisor.lean (no generated code here; GoSecs/Lemmas/SupervisorGen.lean
  proves that the functions regenerated from hsms/supervisor.go compute exactly these).

  `Loc` is the part of a configuration that ONE call of `step` / a commit / an injector reads and writes: the
  `state` atomic, the run-owned `lastReacted` / `closed`, and the three counters.  Each function returns the new
  `Loc` and the trace of atomic operations and untranslated calls (`Go.Effect`, GoSecs/GoPrelude.lean) in program
  order.  The `…_model` theorems: the `Loc` a function returns is the `Loc` of the configuration reached by the
  model's atomic actions of that thread run back to back (`runLoad; runCommit` for `step`, `cas…; inj…` for a
  commit, `inject k` for an injector), and the calls in the trace are the model's queue / reaction /
  notification updates.

  Core Lean only.
-/
import GoSecs.Lemmas.Supervisor
import GoSecs.GoPrelude

set_option linter.unusedSimpArgs false

namespace GoSecs.Sup

/-- The event value an injector sends for a model event (commit events and close are untagged). -/
def Ev.tag : Ev → Option Nat
  | .disc g => some g
  | .t7 d => some d
  | _ => none

def Ev.wire (e : Ev) : Int :=
  match e.tag with
  | some t => ((e.toNat + (t + 1) * 256 : Nat) : Int)
  | none => (e.toNat : Int)

def Ev.tagOk (e : Ev) : Prop :=
  match e.tag with
  | some t => t + 1 < 2 ^ 56
  | none => True

/-! ## The thread-local state and the sequential reading of the code -/

/-- What one call of `step`, a commit or an injector reads and writes. -/
structure Loc where
  st : St
  lastReacted : St
  closed : Bool
  /-- `deselectPending` -/
  desel : Nat
  /-- `generation` -/
  gen : Nat
  dwell : Nat
  deriving DecidableEq, Repr

/-- The nil-ness of the three optional hooks of a supervisor (everything else a step needs is in `Loc`). -/
structure Env where
  /-- `testHookAfterStateLoad != nil` (nil in production) -/
  hook : Bool
  /-- `closeEpoch.Load() != nil` (set by requestClose before evClose) -/
  epoch : Bool
  /-- `closeTimeout != nil` (the live close-timeout provider) -/
  timeoutFn : Bool

def stV (s : St) : Go.Val := .int (s.toNat : Int)

/-- `fireTransition`: notify before react for a terminal NotConnected, react before notify otherwise. -/
def fireTr (prev next : St) : List Go.Effect :=
  if next = .NC then
    [.call "hsms.supervisor.emit" [stV prev, stV next], .call "hsms.supervisor.react" [stV prev, stV next]]
  else
    [.call "hsms.supervisor.react" [stV prev, stV next], .call "hsms.supervisor.emit" [stV prev, stV next]]

/-- `if next != s.lastReacted { s.fireTransition(s.lastReacted, next); s.lastReacted = next }` -/
def reactLoc (l : Loc) (next : St) : Loc × List Go.Effect :=
  if next = l.lastReacted then (l, []) else ({ l with lastReacted := next }, fireTr l.lastReacted next)

/-- `if ev == evSelectLost { for n := Load(); n > 0; n = Load() { if CAS(n, n-1) { break } } }`: run alone, the
    CAS succeeds at once. -/
def consumeLoc (l : Loc) (e : Ev) : Loc × List Go.Effect :=
  if e = .selLost then
    if 0 < l.desel then
      ({ l with desel := l.desel - 1 },
        [.atomic "supervisor.deselectPending" "Load" [],
         .atomic "supervisor.deselectPending" "CompareAndSwap" [.int (l.desel : Int), .int ((l.desel - 1 : Nat) : Int)]])
    else (l, [.atomic "supervisor.deselectPending" "Load" []])
  else (l, [])

/-- the stale-tag checks: the counter is loaded only for a tagged event of its kind, AFTER the state. -/
def staleLoc (l : Loc) : Ev → Bool × List Go.Effect
  | .disc g => (decide (g < l.gen), [.atomic "supervisor.generation" "Load" []])
  | .t7 d => (decide (d < l.dwell), [.atomic "supervisor.dwell" "Load" []])
  | _ => (false, [])

/-- the store of `next` (≠ the loaded value): CAS for T7, nothing but the `deselectPending` load for a
    superseded Select, `dwell.Add(1)` before a plain Store of NotSelected, a plain Store otherwise. -/
def storeLoc (l : Loc) (e : Ev) (next : St) : Loc × List Go.Effect :=
  if next = l.st then (l, [])
  else if e.isT7 then
    ({ l with st := next }, [.atomic "supervisor.state" "CompareAndSwap" [stV l.st, stV next]])
  else
    let pre : List Go.Effect := if e = .selAcc then [.atomic "supervisor.deselectPending" "Load" []] else []
    if e = .selAcc ∧ 0 < l.desel then (l, pre)
    else if next = .NS then
      ({ l with st := next, dwell := l.dwell + 1 },
        pre ++ [.atomic "supervisor.dwell" "Add" [.int 1], .atomic "supervisor.state" "Store" [stV next]])
    else ({ l with st := next }, pre ++ [.atomic "supervisor.state" "Store" [stV next]])

/-- `if ev == evClose { s.closed = true; if e := s.closeEpoch.Load(); e != nil { e.teardown(s.resolveCloseTimeout()) } }` -/
def latchLoc (env : Env) (l : Loc) (e : Ev) (orc : List Go.Val) : Loc × List Go.Effect × List Go.Val :=
  if e = .close then
    ({ l with closed := true },
      [.atomic "supervisor.closeEpoch" "Load" []] ++
        (if env.epoch then
          (if env.timeoutFn then
            [.call "hsms.supervisor.closeTimeout" [], .call "hsms.epoch.teardown" [.int (Go.orc orc).asInt]]
           else [.call "hsms.epoch.teardown" [.int 10000000000]])
         else []),
      if env.epoch ∧ env.timeoutFn then orc.tail else orc)
  else (l, [], orc)

/-- **`supervisor.step`, read sequentially.** -/
def stepLoc (env : Env) (l : Loc) (e : Ev) (orc : List Go.Val) : Loc × List Go.Effect × List Go.Val :=
  let l1 := (consumeLoc l e).1
  let t1 := (consumeLoc l e).2
  if l1.closed then (l1, t1, orc) else
  let t2 := t1 ++ [.atomic "supervisor.state" "Load" []] ++
    (if env.hook then [.call "hsms.supervisor.testHookAfterStateLoad" [.int (e.toNat : Int)]] else [])
  if e = .selLost ∧ l1.st = .S then (l1, t2, orc) else
  let t3 := t2 ++ (staleLoc l1 e).2
  if (staleLoc l1 e).1 then (l1, t3, orc) else
  let next := (transition l1.st e).1
  let l2 := if (transition l1.st e).2 then (reactLoc (storeLoc l1 e next).1 next).1 else l1
  let t4 := if (transition l1.st e).2 then (storeLoc l1 e next).2 ++ (reactLoc (storeLoc l1 e next).1 next).2 else []
  ((latchLoc env l2 e orc).1, t3 ++ t4 ++ (latchLoc env l2 e orc).2.1, (latchLoc env l2 e orc).2.2)


/-! ## Commits and injectors -/

/-- 2^64 - 1: `Add(^uint64(0))`, the counter roll-back. -/
def minus1U64 : Int := 18446744073709551615

/-- `CommitConnected`: open the generation and the dwell, CAS NotConnected → NotSelected, then inject evTCPUp —
    or take both counters back. -/
def commitConnectedLoc (l : Loc) : Loc × Bool × List Go.Effect :=
  let pre : List Go.Effect :=
    [.atomic "supervisor.generation" "Add" [.int 1], .atomic "supervisor.dwell" "Add" [.int 1],
     .atomic "supervisor.state" "CompareAndSwap" [stV .NC, stV .NS]]
  if l.st = .NC then
    ({ l with st := .NS, gen := l.gen + 1, dwell := l.dwell + 1 }, true,
      pre ++ [.call "hsms.supervisor.inject" [.int Ev.tcpUp.wire]])
  else
    (l, false, pre ++ [.atomic "supervisor.generation" "Add" [.int minus1U64], .atomic "supervisor.dwell" "Add" [.int minus1U64]])

/-- `CommitSelected`: CAS NotSelected → Selected, then inject evSelectAccepted. -/
def commitSelectedLoc (l : Loc) : Loc × Bool × List Go.Effect :=
  let pre : List Go.Effect := [.atomic "supervisor.state" "CompareAndSwap" [stV .NS, stV .S]]
  if l.st = .NS then ({ l with st := .S }, true, pre ++ [.call "hsms.supervisor.inject" [.int Ev.selAcc.wire]])
  else (l, false, pre)

/-- `CommitSelectLost`: announce (deselectPending), open the dwell, CAS Selected → NotSelected, then inject
    evSelectLost — or take the announcement and the dwell back. -/
def commitSelectLostLoc (l : Loc) : Loc × Bool × List Go.Effect :=
  let pre : List Go.Effect :=
    [.atomic "supervisor.deselectPending" "Add" [.int 1], .atomic "supervisor.dwell" "Add" [.int 1],
     .atomic "supervisor.state" "CompareAndSwap" [stV .S, stV .NS]]
  if l.st = .S then
    ({ l with st := .NS, desel := l.desel + 1, dwell := l.dwell + 1 }, true,
      pre ++ [.call "hsms.supervisor.inject" [.int Ev.selLost.wire]])
  else
    (l, false, pre ++ [.atomic "supervisor.deselectPending" "Add" [.int (-1)], .atomic "supervisor.dwell" "Add" [.int minus1U64]])

/-- `injectDisconnect` / `injectT7Timeout`: load the counter, inject the event tagged with it. -/
def injectLoc (l : Loc) : Inj → List Go.Effect
  | .disc => [.atomic "supervisor.generation" "Load" [], .call "hsms.supervisor.inject" [.int (Ev.disc l.gen).wire]]
  | .t7 => [.atomic "supervisor.dwell" "Load" [], .call "hsms.supervisor.inject" [.int (Ev.t7 l.dwell).wire]]
  | .close => [.call "hsms.supervisor.inject" [.int Ev.close.wire]]

/-! ## Agreement with the interleaving model -/

/-- `deselectPending`: select-lost events published by CommitSelectLost and not yet consumed by `step`. -/
def deselCount (c : Cfg) : Nat := c.queue.count .selLost + (if c.pendRecv = some .selLost then 1 else 0)

/-- The thread-local part of a configuration. -/
def locOf (c : Cfg) : Loc :=
  { st := c.st, lastReacted := c.lastReacted, closed := c.closed, desel := deselCount c, gen := c.gen, dwell := c.dwell }

theorem deselPending_eq (c : Cfg) : deselPending c = decide (0 < deselCount c) := by
  unfold deselPending deselCount
  by_cases h1 : Ev.selLost ∈ c.queue
  · have := List.count_pos_iff.mpr h1
    simp [h1]; omega
  · have : c.queue.count Ev.selLost = 0 := List.count_eq_zero.mpr h1
    by_cases h2 : c.pendRecv = some Ev.selLost <;> simp [h1, h2, this]

def St.ofInt (i : Int) : St := if i = 0 then .NC else if i = 1 then .NS else .S

theorem St.ofInt_toNat (s : St) : St.ofInt (s.toNat : Int) = s := by cases s <;> rfl

/-- the `react(prev, next)` calls of a trace, in order -/
def reactsOf (tr : List Go.Effect) : List (St × St) :=
  tr.filterMap fun
    | .call "hsms.supervisor.react" [.int a, .int b] => some (St.ofInt a, St.ofInt b)
    | _ => none

/-- the `emit(stateChange{prev, next})` calls of a trace, in order -/
def emitsOf (tr : List Go.Effect) : List (St × St) :=
  tr.filterMap fun
    | .call "hsms.supervisor.emit" [.int a, .int b] => some (St.ofInt a, St.ofInt b)
    | _ => none

/-- the events handed to `inject`, in order (as wire values) -/
def injectsOf (tr : List Go.Effect) : List Int :=
  tr.filterMap fun
    | .call "hsms.supervisor.inject" [.int a] => some a
    | _ => none

set_option maxHeartbeats 1000000 in
/-- **`step` is `runLoad; runCommit`.** With the run goroutine idle and `e` at the head of the queue, the model's
    two actions of the run goroutine, run back to back, reach the configuration whose thread-local part is what
    `stepLoc` computes; the reactions fired and notifications emitted are the `react` / `emit` calls of its trace. -/
theorem stepLoc_model (env : Env) (c : Cfg) (e : Ev) (q : List Ev) (orc : List Go.Val)
    (hst : c.stopped = false) (hpc : c.pc = .idle) (hq : c.queue = e :: q) :
    (stepLoc env (locOf c) e orc).1 = locOf (run c [.runLoad, .runCommit]) := by
  obtain ⟨st, queue, pc, lr, closed, ps, pr, notify, dropped, emitted, delivered, reactions, stopped, gen, dwell⟩ := c
  simp only at hst hpc hq; subst hst hpc hq
  have hpos : 0 < List.count Ev.selLost q + 1 + (if pr = some Ev.selLost then 1 else 0) := by omega
  have hsub : List.count Ev.selLost q + 1 + (if pr = some Ev.selLost then 1 else 0) - 1 =
      List.count Ev.selLost q + (if pr = some Ev.selLost then 1 else 0) := by omega
  by_cases h0 : 0 < List.count Ev.selLost q + (if pr = some Ev.selLost then 1 else 0)
  all_goals cases closed
  all_goals cases e
  all_goals try (rename_i g; by_cases hg : g < gen <;> by_cases hd : g < dwell)
  all_goals cases st <;> cases lr <;>
      simp [run, step, stepLive, stepLoc, locOf, consumeLoc, staleLoc, storeLoc, reactLoc, latchLoc, stale, commit,
        outcome, transition, latch, reactTo, dwellAfterStore, deselPending_eq, deselCount, *]

/-! ### what a trace makes the model do: reactions fired, notifications emitted, events enqueued -/

theorem reactsOf_append (a b : List Go.Effect) : reactsOf (a ++ b) = reactsOf a ++ reactsOf b := by
  simp [reactsOf, List.filterMap_append]
theorem emitsOf_append (a b : List Go.Effect) : emitsOf (a ++ b) = emitsOf a ++ emitsOf b := by
  simp [emitsOf, List.filterMap_append]
theorem reactsOf_ite (b : Prop) [Decidable b] (x y : List Go.Effect) :
    reactsOf (if b then x else y) = if b then reactsOf x else reactsOf y := by split <;> rfl
theorem emitsOf_ite (b : Prop) [Decidable b] (x y : List Go.Effect) :
    emitsOf (if b then x else y) = if b then emitsOf x else emitsOf y := by split <;> rfl
theorem reactsOf_cons_atomic (o p : String) (a : List Go.Val) (t : List Go.Effect) :
    reactsOf (.atomic o p a :: t) = reactsOf t := by simp [reactsOf, List.filterMap_cons]
theorem emitsOf_cons_atomic (o p : String) (a : List Go.Val) (t : List Go.Effect) :
    emitsOf (.atomic o p a :: t) = emitsOf t := by simp [emitsOf, List.filterMap_cons]
@[simp] theorem reactsOf_nil : reactsOf [] = [] := rfl
@[simp] theorem emitsOf_nil : emitsOf [] = [] := rfl

theorem reactsOf_fireTr (p n : St) : reactsOf (fireTr p n) = [(p, n)] := by
  cases p <;> cases n <;> decide
theorem emitsOf_fireTr (p n : St) : emitsOf (fireTr p n) = [(p, n)] := by
  cases p <;> cases n <;> decide

theorem reactsOf_latch (env : Env) (l : Loc) (e : Ev) (orc : List Go.Val) : reactsOf (latchLoc env l e orc).2.1 = [] := by
  obtain ⟨h, ep, tf⟩ := env
  unfold latchLoc; split
  · cases ep <;> cases tf <;> simp [reactsOf, List.filterMap_cons]
  · rfl
theorem emitsOf_latch (env : Env) (l : Loc) (e : Ev) (orc : List Go.Val) : emitsOf (latchLoc env l e orc).2.1 = [] := by
  obtain ⟨h, ep, tf⟩ := env
  unfold latchLoc; split
  · cases ep <;> cases tf <;> simp [emitsOf, List.filterMap_cons]
  · rfl

theorem reactsOf_hook1 (v : Go.Val) :
    reactsOf [Go.Effect.call "hsms.supervisor.testHookAfterStateLoad" [v]] = [] := by simp [reactsOf]
theorem emitsOf_hook1 (v : Go.Val) :
    emitsOf [Go.Effect.call "hsms.supervisor.testHookAfterStateLoad" [v]] = [] := by simp [emitsOf]

set_option maxHeartbeats 1000000 in
theorem stepLoc_effects (env : Env) (c : Cfg) (e : Ev) (q : List Ev) (orc : List Go.Val)
    (hst : c.stopped = false) (hpc : c.pc = .idle) (hq : c.queue = e :: q) :
    (run c [.runLoad, .runCommit]).reactions = c.reactions ++ reactsOf (stepLoc env (locOf c) e orc).2.1 ∧
    (run c [.runLoad, .runCommit]).emitted = c.emitted ++ emitsOf (stepLoc env (locOf c) e orc).2.1 := by
  obtain ⟨st, queue, pc, lr, closed, ps, pr, notify, dropped, emitted, delivered, reactions, stopped, gen, dwell⟩ := c
  simp only at hst hpc hq; subst hst hpc hq
  have hpos : 0 < List.count Ev.selLost q + 1 + (if pr = some Ev.selLost then 1 else 0) := by omega
  by_cases h0 : 0 < List.count Ev.selLost q + (if pr = some Ev.selLost then 1 else 0)
  all_goals cases closed
  all_goals cases e
  all_goals try (rename_i g; by_cases hg : g < gen <;> by_cases hd : g < dwell)
  all_goals cases st <;> cases lr <;>
      simp [run, step, stepLive, stepLoc, locOf, consumeLoc, staleLoc, storeLoc, reactLoc, stale, commit,
        outcome, transition, latch, reactTo, dwellAfterStore, deselPending_eq, deselCount,
        reactsOf_append, reactsOf_ite, reactsOf_cons_atomic, reactsOf_fireTr, reactsOf_latch,
        emitsOf_append, emitsOf_ite, emitsOf_cons_atomic, emitsOf_fireTr, emitsOf_latch, reactsOf_hook1, emitsOf_hook1, *]

/-! ### commits: `cas…; inj…` of the committing thread, its pending slot empty -/

theorem injectsOf_append (a b : List Go.Effect) : injectsOf (a ++ b) = injectsOf a ++ injectsOf b := by
  simp [injectsOf, List.filterMap_append]
theorem injectsOf_cons_atomic (o p : String) (a : List Go.Val) (t : List Go.Effect) :
    injectsOf (.atomic o p a :: t) = injectsOf t := by simp [injectsOf]
@[simp] theorem injectsOf_nil : injectsOf [] = [] := rfl
theorem injectsOf_inject (v : Int) (t : List Go.Effect) :
    injectsOf (.call "hsms.supervisor.inject" [.int v] :: t) = v :: injectsOf t := by simp [injectsOf]

theorem commitConnectedLoc_model (c : Cfg) (hst : c.stopped = false) (hp : c.pendStart = none) :
    (commitConnectedLoc (locOf c)).1 = locOf (run c [.casConnected, .injStart]) ∧
    (run c [.casConnected, .injStart]).queue = c.queue ++ (if (commitConnectedLoc (locOf c)).2.1 then [.tcpUp] else []) ∧
    injectsOf (commitConnectedLoc (locOf c)).2.2 = (if (commitConnectedLoc (locOf c)).2.1 then [Ev.tcpUp.wire] else []) ∧
    (run c [.casConnected, .injStart]).pendStart = none := by
  obtain ⟨st, queue, pc, lr, closed, ps, pr, notify, dropped, emitted, delivered, reactions, stopped, gen, dwell⟩ := c
  simp only at hst hp; subst hst hp
  cases st <;>
    simp [run, step, stepLive, commitConnectedLoc, locOf, deselCount, injectsOf_append, injectsOf_cons_atomic,
      injectsOf_inject, List.count_append]

theorem commitSelectedLoc_model (c : Cfg) (hst : c.stopped = false) (hp : c.pendRecv = none) :
    (commitSelectedLoc (locOf c)).1 = locOf (run c [.casSelected, .injRecv]) ∧
    (run c [.casSelected, .injRecv]).queue = c.queue ++ (if (commitSelectedLoc (locOf c)).2.1 then [.selAcc] else []) ∧
    injectsOf (commitSelectedLoc (locOf c)).2.2 = (if (commitSelectedLoc (locOf c)).2.1 then [Ev.selAcc.wire] else []) ∧
    (run c [.casSelected, .injRecv]).pendRecv = none := by
  obtain ⟨st, queue, pc, lr, closed, ps, pr, notify, dropped, emitted, delivered, reactions, stopped, gen, dwell⟩ := c
  simp only at hst hp; subst hst hp
  cases st <;>
    simp [run, step, stepLive, commitSelectedLoc, locOf, deselCount, injectsOf_append, injectsOf_cons_atomic,
      injectsOf_inject, List.count_append]

theorem commitSelectLostLoc_model (c : Cfg) (hst : c.stopped = false) (hp : c.pendRecv = none) :
    (commitSelectLostLoc (locOf c)).1 = locOf (run c [.casSelectLost, .injRecv]) ∧
    (run c [.casSelectLost, .injRecv]).queue = c.queue ++ (if (commitSelectLostLoc (locOf c)).2.1 then [.selLost] else []) ∧
    injectsOf (commitSelectLostLoc (locOf c)).2.2 = (if (commitSelectLostLoc (locOf c)).2.1 then [Ev.selLost.wire] else []) ∧
    (run c [.casSelectLost, .injRecv]).pendRecv = none := by
  obtain ⟨st, queue, pc, lr, closed, ps, pr, notify, dropped, emitted, delivered, reactions, stopped, gen, dwell⟩ := c
  simp only at hst hp; subst hst hp
  cases st <;>
    simp [run, step, stepLive, commitSelectLostLoc, locOf, deselCount, injectsOf_append, injectsOf_cons_atomic,
      injectsOf_inject, List.count_append]

/-- An injector enqueues the event tagged with the counter it loads. -/
theorem injectLoc_model (c : Cfg) (k : Inj) (hst : c.stopped = false) :
    (run c [.inject k]).queue = c.queue ++ [k.toEv c] ∧ injectsOf (injectLoc (locOf c) k) = [(k.toEv c).wire] := by
  cases k <;> simp [run, step, stepLive, hst, injectLoc, locOf, Inj.toEv, injectsOf_cons_atomic, injectsOf_inject]

end GoSecs.Sup
