/-
  Lemmas for C18, part 2b: the two-endpoint line.  The direction invariant `Dir` ties the sender's
  bookkeeping (queue / message on the line / ACKed blocks / succeeded) to the peer's assembler (through the
  simulation relation with the E4 reference receiver) and its deliveries; every `Line.step` preserves it
  (`linv_step`), which yields "send succeeded ⇒ delivered exactly once, intact, in order" for the composed model.
  Core Lean only.
-/
import GoSecs.Lemmas.Secs1

namespace GoSecs.Secs1
open GoSecs.Spec.E4Receive


/-- A block as the peer's line engine hands it to the assembler in the two-endpoint model (constant clock). -/
def T0 (b : Block) : TBlock := ⟨0, b⟩

/-- What the receiver `c` needs to know about the blocks `all` of message `m`. -/
structure Blocks (c : Cfg) (m : OutMsg) (all : List Block) : Prop where
  ne : all ≠ []
  each : ∀ i (h : i < all.length), addressed c all[i] = true ∧ all[i].hdr.blockNumber = i + 1 ∧
          all[i].hdr.eBit = decide (i + 1 = all.length) ∧ all[i].hdr.msgHeader = m.hdr
  body : bodiesOf all = m.body

theorem blocks_of_split (c : Cfg) (m : OutMsg) (hs : Sendable c m) :
    ∃ all, splitBody m.body m.hdr = .ok all ∧ Blocks c m all := by
  obtain ⟨bs, h1, h2, h3, h4⟩ := split_ok m.body m.hdr hs.valid hs.len
  refine ⟨bs, h1, ?_, ?_, h4⟩
  · intro h; rw [h] at h2; simp at h2; omega
  · intro i hi
    have hb : 1 + i ≤ 32767 := by
      have : bs.length ≤ 32767 := by rw [h2]; have := hs.len; omega
      omega
    rw [h3 i hi]
    obtain ⟨e1, e2⟩ := buildHeader_blockNumber m.hdr (1 + i) hb (decide (i + 1 = bs.length))
    have e3 := buildHeader_msgHeader m.hdr hs.valid (1 + i) (decide (i + 1 = bs.length))
    refine ⟨?_, by simp only [e1]; omega, e2, e3⟩
    simp only [addressed]
    have hd : (buildHeader m.hdr (1 + i) (decide (i + 1 = bs.length))).deviceID = m.hdr.deviceID := by
      have := congrArg MsgHeader.deviceID e3; simpa [Hdr.msgHeader] using this
    have hr : (buildHeader m.hdr (1 + i) (decide (i + 1 = bs.length))).rBit = m.hdr.rBit := by
      have := congrArg MsgHeader.rBit e3; simpa [Hdr.msgHeader] using this
    rw [hd, hr, hs.dev, hs.dir]
    cases c.isEquip <;> simp

/-- Receiver state after it has accumulated the first `k` blocks of `all` (message `m`); `prev` are the
    sender's earlier messages. -/
def Acc (s : RState) (all : List Block) (k : Nat) (prev : List OutMsg) : Prop :=
  if k = 0 then s.part = [] ∧ ∀ h, s.last = some h → ∃ m' ∈ prev, h.msgHeader = m'.hdr
  else if k = all.length then s.part = [] ∧ ∃ (hk : k - 1 < all.length), s.last = some (all[k-1]).hdr
  else s.part = ((all.take k).map T0).reverse ∧ ∃ (hk : k - 1 < all.length), s.last = some (all[k-1]).hdr

@[simp] theorem T0_blk (b : Block) : (T0 b).blk = b := rfl
@[simp] theorem T0_time (b : Block) : (T0 b).time = 0 := rfl

theorem take_succ_map_reverse (all : List Block) (a : Nat) (h : a < all.length) :
    ((all.take (a + 1)).map T0).reverse = T0 all[a] :: ((all.take a).map T0).reverse := by
  rw [List.take_succ_eq_append_getElem h, List.map_append, List.reverse_append]; rfl

theorem step_first (c : Cfg) (s : RState) (e : TBlock) (had : addressed c e.blk = true) (hp : s.part = [])
    (hnd : s.last ≠ some e.blk.hdr) (hnum : e.blk.hdr.blockNumber = 1) :
    step c s e = if e.blk.hdr.eBit = true then
        ({ last := some e.blk.hdr, part := [] }, some ⟨e.blk.hdr.msgHeader, e.blk.body⟩)
      else ({ last := some e.blk.hdr, part := [e] }, none) := by
  have hfirst : firstBlock e.blk = true := by simp [firstBlock, hnum]
  by_cases hE : e.blk.hdr.eBit = true
  · simp only [step, had, Bool.not_true, Bool.false_eq_true, reduceIte, afterT4, hp, accept1, hnd, continues, hfirst, hE,
      List.reverse_cons, List.reverse_nil, List.nil_append, bodyOf, List.map_cons, List.map_nil, List.flatten_cons,
      List.flatten_nil, List.append_nil]
  · simp only [step, had, Bool.not_true, Bool.false_eq_true, reduceIte, afterT4, hp, accept1, hnd, continues, hfirst, hE]

theorem step_cont (c : Cfg) (s : RState) (e p : TBlock) (ps : List TBlock) (had : addressed c e.blk = true)
    (hp : s.part = p :: ps) (hT : ¬ e.time - p.time > c.t4) (hl : s.last = some p.blk.hdr)
    (hpn : p.blk.hdr.blockNumber = ps.length + 1) (hnum : e.blk.hdr.blockNumber = ps.length + 2)
    (hh : e.blk.hdr.msgHeader = p.blk.hdr.msgHeader) :
    step c s e = if e.blk.hdr.eBit = true then
        ({ last := some e.blk.hdr, part := [] }, some ⟨e.blk.hdr.msgHeader, bodyOf ((p :: ps).reverse ++ [e])⟩)
      else ({ last := some e.blk.hdr, part := e :: p :: ps }, none) := by
  have hnd : s.last ≠ some e.blk.hdr := by
    rw [hl]; intro h
    have h2 : p.blk.hdr.blockNumber ≠ e.blk.hdr.blockNumber := by omega
    exact hdr_ne_of_blockNumber_ne h2 (Option.some.inj h)
  have hcont : continues (p :: ps) e.blk = true := by
    simp only [continues, List.length_cons, hnum, hh, decide_true, Bool.and_self]
  have hT4 : afterT4 c s.part e.time = p :: ps := by simp only [afterT4, hp, hT, reduceIte]
  by_cases hE : e.blk.hdr.eBit = true
  · simp only [step, had, Bool.not_true, Bool.false_eq_true, reduceIte, hT4, accept1, hnd, hcont, hE, List.reverse_cons,
      List.append_assoc]
  · simp only [step, had, Bool.not_true, Bool.false_eq_true, reduceIte, hT4, accept1, hnd, hcont, hE]

theorem step_dup (c : Cfg) (s : RState) (e : TBlock) (had : addressed c e.blk = true) (hl : s.last = some e.blk.hdr)
    (hT : afterT4 c s.part e.time = s.part) : step c s e = (s, none) := by
  simp only [step, had, Bool.not_true, Bool.false_eq_true, reduceIte, hT, accept1, hl]
  cases s; simp_all

/-- The peer takes block `a` of the message while having accumulated `k ∈ {a, a+1}` blocks: it ends up with
    `a+1`, and delivers the message exactly when that completes it for the first time. -/
theorem take_step (c : Cfg) (m : OutMsg) (all : List Block) (hb : Blocks c m all) (prev : List OutMsg)
    (hnew : ∀ m' ∈ prev, m'.hdr ≠ m.hdr) (s : RState) (a k : Nat) (ha : a < all.length) (hk : k = a ∨ k = a + 1)
    (hacc : Acc s all k prev) :
    Acc (step c s (T0 all[a])).1 all (a + 1) prev ∧
    (step c s (T0 all[a])).2 = (if k = a ∧ a + 1 = all.length then some ⟨m.hdr, m.body⟩ else none) := by
  obtain ⟨had, hnum, hE, hhdr⟩ := hb.each a ha
  have hacc1 : ∀ s', s'.part = (if a + 1 = all.length then [] else ((all.take (a+1)).map T0).reverse) →
      s'.last = some (all[a]).hdr → Acc s' all (a + 1) prev := by
    intro s' h1 h2
    have h0 : ¬ a + 1 = 0 := by omega
    simp only [Acc, h0, reduceIte]
    by_cases hlen : a + 1 = all.length
    · simp only [hlen, reduceIte] at h1 ⊢
      refine ⟨h1, by omega, ?_⟩
      have e : all.length - 1 = a := by omega
      simp only [e]; exact h2
    · simp only [hlen, reduceIte] at h1 ⊢
      exact ⟨h1, by simpa using ha, by simpa using h2⟩
  rcases hk with rfl | rfl
  · by_cases h0 : k = 0
    · subst h0
      simp only [Acc, reduceIte] at hacc
      obtain ⟨hp, hl⟩ := hacc
      have hnd : s.last ≠ some (T0 all[0]).blk.hdr := by
        intro h
        obtain ⟨m', hm', e⟩ := hl _ h
        exact hnew m' hm' (by rw [← e]; exact hhdr)
      rw [step_first c s (T0 all[0]) had hp hnd hnum]
      by_cases hlen : 0 + 1 = all.length
      · have hEt : (T0 all[0]).blk.hdr.eBit = true := by simp only [T0_blk, hE]; simpa using hlen
        have hall : all = [all[0]] := by
          cases all with
          | nil => simp at ha
          | cons x xs => cases xs with
            | nil => rfl
            | cons y ys => simp at hlen
        have hbody : (all[0]).body = m.body := by
          have := hb.body; rw [hall] at this; simpa [bodiesOf] using this
        rw [if_pos hEt]
        refine ⟨hacc1 _ (by simp [hlen]) rfl, ?_⟩
        simp only [hlen, and_self, reduceIte, T0_blk, hhdr, hbody]
      · have hEf : ¬ (T0 all[0]).blk.hdr.eBit = true := by simp only [T0_blk, hE]; simpa using hlen
        rw [if_neg hEf]
        refine ⟨hacc1 _ ?_ rfl, ?_⟩
        · simp only [hlen, reduceIte]
          rw [take_succ_map_reverse all 0 ha]; simp
        · simp only [hlen, and_false, reduceIte]
    · have hkl : ¬ k = all.length := by omega
      simp only [Acc, h0, hkl, reduceIte] at hacc
      obtain ⟨hp, hk1, hl⟩ := hacc
      obtain ⟨_, hnum', _, hhdr'⟩ := hb.each (k - 1) hk1
      have hpre : ((all.take k).map T0).reverse = T0 all[k-1] :: ((all.take (k-1)).map T0).reverse := by
        have := take_succ_map_reverse all (k - 1) hk1
        have e : k - 1 + 1 = k := by omega
        rw [e] at this; exact this
      have hpslen : (((all.take (k-1)).map T0).reverse).length = k - 1 := by simp; omega
      rw [hpre] at hp
      rw [step_cont c s (T0 all[k]) (T0 all[k-1]) _ had hp (by simp) hl (by simp only [T0_blk, hpslen, hnum'] <;> omega)
        (by simp only [T0_blk, hpslen, hnum] <;> omega) (by simp only [T0_blk, hhdr, hhdr'])]
      by_cases hlen : k + 1 = all.length
      · have hEt : (T0 all[k]).blk.hdr.eBit = true := by simp only [T0_blk, hE]; simpa using hlen
        have hbody : bodyOf ((T0 all[k-1] :: ((all.take (k-1)).map T0).reverse).reverse ++ [T0 all[k]]) = m.body := by
          rw [← hpre, List.reverse_reverse, bodyOf_eq, List.map_append, List.map_map]
          have : (fun x => x.blk) ∘ T0 = id := by funext b; rfl
          rw [this, List.map_id]
          simp only [List.map_cons, List.map_nil, T0_blk]
          rw [← List.take_succ_eq_append_getElem ha, hlen, List.take_length, hb.body]
        rw [if_pos hEt]
        refine ⟨hacc1 _ (by simp [hlen]) rfl, ?_⟩
        simp only [hlen, and_self, reduceIte, T0_blk, hhdr, hbody]
      · have hEf : ¬ (T0 all[k]).blk.hdr.eBit = true := by simp only [T0_blk, hE]; simpa using hlen
        rw [if_neg hEf]
        refine ⟨hacc1 _ ?_ rfl, ?_⟩
        · simp only [hlen, reduceIte]
          rw [take_succ_map_reverse all k ha, hpre]
        · simp only [hlen, and_false, reduceIte]
  · have h0 : ¬ a + 1 = 0 := by omega
    have hacc' : ∃ (hk : a + 1 - 1 < all.length), s.last = some (all[a + 1 - 1]).hdr := by
      simp only [Acc, h0, reduceIte] at hacc
      split at hacc <;> exact hacc.2
    obtain ⟨_, hl⟩ := hacc'
    have hl' : s.last = some (T0 all[a]).blk.hdr := by simpa using hl
    have hT4 : afterT4 c s.part (T0 all[a]).time = s.part := by
      cases hp : s.part with
      | nil => rfl
      | cons p ps =>
        simp only [afterT4, T0_time]
        have : ¬ (0 - p.time > c.t4) := by omega
        simp only [this, reduceIte]
    have hne : ¬ (a + 1 = a ∧ a + 1 = all.length) := by omega
    rw [step_dup c s (T0 all[a]) had hl' hT4]
    simp only [hne, reduceIte]
    exact ⟨hacc, trivial⟩



/-- Direction X → Y of the two-endpoint line: what the receiver `Y` (configuration `c`, reference-receiver
    state `s`) has of the sender `X`'s messages; `D` = X's earlier messages that Y delivered (newest first). -/
structure Dir (c : Cfg) (X Y : Endpoint) (s : RState) (D : List OutMsg) : Prop where
  yrole : Y.isEquip = c.isEquip ∧ Y.deviceID = c.deviceID ∧ c.t4 = 0
  rel : Rel c Y.asm s
  inv : Inv Y.asm
  sendable : ∀ m ∈ X.queue.reverse ++ X.started, Sendable c m
  nodup : ((X.queue.reverse ++ X.started).map (·.hdr)).Nodup
  succ : X.succeeded.Sublist D
  cur : match X.cur with
    | none => D.Sublist X.started ∧ Y.delivered = D.map OutMsg.image ∧ s.part = [] ∧
              (∀ h, s.last = some h → ∃ m' ∈ X.started, h.msgHeader = m'.hdr)
    | some (m, rem) => ∃ all prev a k, X.started = m :: prev ∧ splitBody m.body m.hdr = .ok all ∧ Blocks c m all ∧
         rem = all.drop a ∧ a < all.length ∧ (k = a ∨ k = a + 1) ∧ D.Sublist prev ∧ Acc s all k prev ∧
         Y.delivered = (if k = all.length then m.image :: D.map OutMsg.image else D.map OutMsg.image)

/-- `Dir` only reads these fields. -/
theorem dir_congr {c : Cfg} {X Y X' Y' : Endpoint} {s : RState} {D : List OutMsg} (h : Dir c X Y s D)
    (h1 : X'.queue = X.queue) (h2 : X'.started = X.started) (h3 : X'.succeeded = X.succeeded) (h4 : X'.cur = X.cur)
    (h5 : Y'.asm = Y.asm) (h6 : Y'.delivered = Y.delivered) (h7 : Y'.isEquip = Y.isEquip) (h8 : Y'.deviceID = Y.deviceID) :
    Dir c X' Y' s D := by
  obtain ⟨a, b, c', d, e, f, g⟩ := h
  refine ⟨by rw [h7, h8]; exact a, by rw [h5]; exact b, by rw [h5]; exact c', by rw [h1, h2]; exact d,
    by rw [h1, h2]; exact e, by rw [h3]; exact f, ?_⟩
  rw [h4, h2, h6]; exact g

@[simp] theorem take_queue (e : Endpoint) (b : Block) : (e.take b).queue = e.queue := by
  simp only [Endpoint.take]; split <;> rfl
@[simp] theorem take_started (e : Endpoint) (b : Block) : (e.take b).started = e.started := by
  simp only [Endpoint.take]; split <;> rfl
@[simp] theorem take_isEquip (e : Endpoint) (b : Block) : (e.take b).isEquip = e.isEquip := by
  simp only [Endpoint.take]; split <;> rfl
@[simp] theorem take_deviceID (e : Endpoint) (b : Block) : (e.take b).deviceID = e.deviceID := by
  simp only [Endpoint.take]; split <;> rfl
@[simp] theorem take_asm (e : Endpoint) (b : Block) : (e.take b).asm = (e.asm.accept 0 b).1 := by
  simp only [Endpoint.take]; split <;> rfl
theorem take_delivered (e : Endpoint) (b : Block) :
    (e.take b).delivered = (match deliveredOf (e.asm.accept 0 b).2 with | some f => f :: e.delivered | none => e.delivered) := by
  simp only [Endpoint.take]; split <;> simp_all
@[simp] theorem acked_queue (e : Endpoint) : e.acked.queue = e.queue := by simp only [Endpoint.acked]; split <;> rfl
@[simp] theorem acked_started (e : Endpoint) : e.acked.started = e.started := by simp only [Endpoint.acked]; split <;> rfl
@[simp] theorem acked_asm (e : Endpoint) : e.acked.asm = e.asm := by simp only [Endpoint.acked]; split <;> rfl
@[simp] theorem acked_isEquip (e : Endpoint) : e.acked.isEquip = e.isEquip := by simp only [Endpoint.acked]; split <;> rfl
@[simp] theorem acked_deviceID (e : Endpoint) : e.acked.deviceID = e.deviceID := by simp only [Endpoint.acked]; split <;> rfl
@[simp] theorem load_asm (e : Endpoint) : e.load.asm = e.asm := by
  simp only [Endpoint.load]
  split
  · split <;> rfl
  · rfl
@[simp] theorem load_isEquip (e : Endpoint) : e.load.isEquip = e.isEquip := by
  simp only [Endpoint.load]
  split
  · split <;> rfl
  · rfl
@[simp] theorem load_deviceID (e : Endpoint) : e.load.deviceID = e.deviceID := by
  simp only [Endpoint.load]
  split
  · split <;> rfl
  · rfl

/-- Starting the next queued message keeps the direction invariant. -/
theorem dir_load {c : Cfg} {X Y : Endpoint} {s : RState} {D : List OutMsg} (h : Dir c X Y s D) : Dir c X.load Y s D := by
  cases hc : X.cur with
  | some p => 
    have : X.load = X := by simp only [Endpoint.load, hc]
    rw [this]; exact h
  | none =>
    cases hq : X.queue with
    | nil =>
      have : X.load = X := by simp only [Endpoint.load, hc, hq]
      rw [this]; exact h
    | cons m q =>
      have hsm : Sendable c m := h.sendable m (by rw [hq]; simp)
      obtain ⟨all, hsp, hb⟩ := blocks_of_split c m hsm
      obtain ⟨b, bs, hall⟩ : ∃ b bs, all = b :: bs := by
        cases all with
        | nil => exact absurd rfl hb.ne
        | cons b bs => exact ⟨b, bs, rfl⟩
      have hl : X.load = { X with queue := q, cur := some (m, b :: bs), retry := 0, started := m :: X.started } := by
        simp only [Endpoint.load, hc, hq, hsp, hall]
      have hcur := h.cur
      rw [hc] at hcur
      obtain ⟨d1, d2, d3, d4⟩ := hcur
      have hlist : q.reverse ++ (m :: X.started) = X.queue.reverse ++ X.started := by rw [hq]; simp
      rw [hl]
      refine ⟨h.yrole, h.rel, h.inv, ?_, ?_, h.succ, ?_⟩
      · simp only; rw [hlist]; exact h.sendable
      · simp only; rw [hlist]; exact h.nodup
      · simp only
        refine ⟨all, X.started, 0, 0, rfl, hsp, hb, by rw [hall]; rfl, by rw [hall]; simp, Or.inl rfl, d1, ?_, ?_⟩
        · simp only [Acc, reduceIte]; exact ⟨d3, d4⟩
        · have : ¬ (0 = all.length) := by rw [hall]; simp
          simp only [this, reduceIte]; exact d2


theorem image_eq (m : OutMsg) : Msg.image ⟨m.hdr, m.body⟩ = m.image := rfl

/-- The receiver is exactly one block ahead of (or level with) the sender's ACK count after taking the block
    under transfer. -/
structure Ahead (c : Cfg) (X Y : Endpoint) (s : RState) (D : List OutMsg) (m : OutMsg) (blk : Block) (rest : List Block) : Prop where
  ex : ∃ all prev a, X.started = m :: prev ∧ splitBody m.body m.hdr = .ok all ∧ Blocks c m all ∧
         blk :: rest = all.drop a ∧ a < all.length ∧ D.Sublist prev ∧ Acc s all (a + 1) prev ∧
         Y.delivered = (if a + 1 = all.length then m.image :: D.map OutMsg.image else D.map OutMsg.image)

/-- The peer takes the block the sender is transferring. -/
theorem dir_take {c : Cfg} {X Y : Endpoint} {s : RState} {D : List OutMsg} (h : Dir c X Y s D)
    (m : OutMsg) (blk : Block) (rest : List Block) (hc : X.cur = some (m, blk :: rest)) :
    ∃ s', Dir c X (Y.take blk) s' D ∧ Ahead c X (Y.take blk) s' D m blk rest := by
  have hcur := h.cur
  rw [hc] at hcur
  obtain ⟨all, prev, a, k, hst, hsp, hb, hrem, ha, hk, hD, hacc, hdel⟩ := hcur
  have hdrop : all.drop a = all[a] :: all.drop (a + 1) := List.drop_eq_getElem_cons ha
  have hblk : blk = all[a] := by rw [hdrop] at hrem; exact (List.cons.inj hrem).1
  have hnew : ∀ m' ∈ prev, m'.hdr ≠ m.hdr := by
    have hn := h.nodup
    rw [hst, List.map_append, List.map_cons] at hn
    have hn2 := (List.nodup_append.mp hn).2.1
    have := (List.nodup_cons.mp hn2).1
    intro m' hm' e
    exact this (by rw [← e]; exact List.mem_map_of_mem hm')
  obtain ⟨t1, t2⟩ := take_step c m all hb prev hnew s a k ha hk hacc
  obtain ⟨r1, r2, r3, _⟩ := accept_sim h.inv h.rel (T0 all[a])
  simp only [T0_blk, T0_time] at r1 r2 r3
  have hdel' : (Y.take blk).delivered =
      (if a + 1 = all.length then m.image :: D.map OutMsg.image else D.map OutMsg.image) := by
    rw [take_delivered, hblk, r3, t2, hdel]
    rcases hk with rfl | rfl
    · have : ¬ (k = all.length) := by omega
      simp only [this, reduceIte, true_and]
      by_cases hl : k + 1 = all.length
      · simp only [hl, reduceIte, Option.map_some, image_eq]
      · simp only [hl, reduceIte, Option.map_none]
    · have : ¬ (a + 1 = a ∧ a + 1 = all.length) := by omega
      simp only [this, reduceIte, Option.map_none]
  refine ⟨(step c s (T0 all[a])).1, ⟨by simpa using h.yrole, by rw [take_asm, hblk]; exact r2, by rw [take_asm, hblk]; exact r1,
    h.sendable, h.nodup, h.succ, ?_⟩, ⟨all, prev, a, hst, hsp, hb, hrem, ha, hD, t1, hdel'⟩⟩
  rw [hc]
  exact ⟨all, prev, a, a + 1, hst, hsp, hb, hrem, ha, Or.inr rfl, hD, t1, hdel'⟩

/-- The sender sees the ACK of a block the receiver has taken. -/
theorem dir_acked {c : Cfg} {X Y : Endpoint} {s : RState} {D : List OutMsg} (h : Dir c X Y s D)
    (m : OutMsg) (blk : Block) (rest : List Block) (hc : X.cur = some (m, blk :: rest))
    (hA : Ahead c X Y s D m blk rest) : ∃ D', Dir c X.acked Y s D' := by
  obtain ⟨all, prev, a, hst, hsp, hb, hrem, ha, hD, hacc, hdel⟩ := hA.ex
  have hdrop : all.drop a = all[a] :: all.drop (a + 1) := List.drop_eq_getElem_cons ha
  have hrest : rest = all.drop (a + 1) := by rw [hdrop] at hrem; exact (List.cons.inj hrem).2
  cases hr : rest with
  | nil =>
    -- last block ACKed: the send succeeds; the message was delivered
    have hlen : a + 1 = all.length := by
      have : (all.drop (a + 1)).length = 0 := by rw [← hrest, hr]; rfl
      simp at this; omega
    have hX : X.acked = { X with cur := none, retry := 0, succeeded := m :: X.succeeded } := by
      simp only [Endpoint.acked, hc, hr]
    have h0 : ¬ all.length = 0 := by omega
    simp only [Acc, hlen, h0, reduceIte] at hacc
    obtain ⟨hp, hk1, hl⟩ := hacc
    refine ⟨m :: D, ?_⟩
    rw [hX]
    refine ⟨h.yrole, h.rel, h.inv, h.sendable, h.nodup, List.Sublist.cons_cons m h.succ, ?_⟩
    simp only
    refine ⟨by rw [hst]; exact List.Sublist.cons_cons m hD, by rw [hdel]; simp [hlen], hp, ?_⟩
    intro hh hhl
    rw [hl] at hhl
    have := Option.some.inj hhl
    refine ⟨m, by rw [hst]; simp, ?_⟩
    rw [← this]; exact (hb.each _ hk1).2.2.2
  | cons b bs =>
    have hlen : a + 1 < all.length := by
      have : (all.drop (a + 1)).length = bs.length + 1 := by rw [← hrest, hr]; rfl
      simp at this; omega
    have hX : X.acked = { X with cur := some (m, b :: bs), retry := 0 } := by
      simp only [Endpoint.acked, hc, hr]
    refine ⟨D, ?_⟩
    rw [hX]
    refine ⟨h.yrole, h.rel, h.inv, h.sendable, h.nodup, h.succ, ?_⟩
    simp only
    refine ⟨all, prev, a + 1, a + 1, hst, hsp, hb, by rw [← hr, hrest], hlen, Or.inl rfl, hD, hacc, ?_⟩
    rw [hdel]

/-- A new connection generation. -/
theorem dir_teardown {c : Cfg} {X Y : Endpoint} {s : RState} {D : List OutMsg} (h : Dir c X Y s D) :
    ∃ D', Dir c X.teardown Y.teardown {} D' := by
  have hrel : Rel c (Asm.init Y.isEquip Y.deviceID 0) {} := by
    have := rel_init c
    rw [h.yrole.1, h.yrole.2.1, ← h.yrole.2.2]; exact this
  have hcur := h.cur
  cases hc : X.cur with
  | none =>
    rw [hc] at hcur
    obtain ⟨d1, d2, _, _⟩ := hcur
    refine ⟨D, h.yrole, hrel, inv_init _ _ _, h.sendable, h.nodup, h.succ, ?_⟩
    simp only [Endpoint.teardown]
    exact ⟨d1, d2, trivial, fun hh e => by cases e⟩
  | some p =>
    obtain ⟨m, rem⟩ := p
    rw [hc] at hcur
    obtain ⟨all, prev, a, k, hst, hsp, hb, hrem, ha, hk, hD, hacc, hdel⟩ := hcur
    by_cases hkl : k = all.length
    · refine ⟨m :: D, h.yrole, hrel, inv_init _ _ _, h.sendable, h.nodup, List.Sublist.cons m h.succ, ?_⟩
      simp only [Endpoint.teardown]
      refine ⟨by rw [hst]; exact List.Sublist.cons_cons m hD, by rw [hdel]; simp [hkl], trivial, fun hh e => by cases e⟩
    · refine ⟨D, h.yrole, hrel, inv_init _ _ _, h.sendable, h.nodup, h.succ, ?_⟩
      simp only [Endpoint.teardown]
      refine ⟨by rw [hst]; exact List.Sublist.cons m hD, by rw [hdel]; simp [hkl], trivial, fun hh e => by cases e⟩


theorem dir_cur_cons {c : Cfg} {X Y : Endpoint} {s : RState} {D : List OutMsg} (h : Dir c X Y s D)
    (m : OutMsg) (rem : List Block) (hc : X.cur = some (m, rem)) : ∃ blk rest, rem = blk :: rest := by
  have hcur := h.cur
  rw [hc] at hcur
  obtain ⟨all, prev, a, k, _, _, _, hrem, ha, _⟩ := hcur
  rw [hrem, List.drop_eq_getElem_cons ha]
  exact ⟨_, _, rfl⟩

/-- Invariant of the two-endpoint line: both directions. -/
def LInv (dev : Nat) (l : Line) : Prop :=
  ∃ s1 D1 s2 D2, Dir ⟨false, dev, 0⟩ l.master l.slave s1 D1 ∧ Dir ⟨true, dev, 0⟩ l.slave l.master s2 D2

theorem linv_settle {dev : Nat} {l : Line} (h : LInv dev l) : LInv dev l.settle := by
  obtain ⟨s1, D1, s2, D2, h1, h2⟩ := h
  rcases settle_cases l with e | ⟨e, _, _⟩
  · rw [e]
    obtain ⟨D1', t1⟩ := dir_teardown h1
    obtain ⟨D2', t2⟩ := dir_teardown h2
    exact ⟨{}, D1', {}, D2', t1, t2⟩
  · rw [e]; exact ⟨s1, D1, s2, D2, h1, h2⟩

theorem linv_load {dev : Nat} {l : Line} (h : LInv dev l) : LInv dev ⟨l.master.load, l.slave.load⟩ := by
  obtain ⟨s1, D1, s2, D2, h1, h2⟩ := h
  refine ⟨s1, D1, s2, D2, ?_, ?_⟩
  · exact dir_congr (X' := l.master.load) (Y' := l.slave.load) (dir_load h1) rfl rfl rfl rfl (by simp) (by simp) (by simp) (by simp)
  · exact dir_congr (X' := l.slave.load) (Y' := l.master.load) (dir_load h2) rfl rfl rfl rfl (by simp) (by simp) (by simp) (by simp)

/-- One transfer attempt X → Y with the three possible effects, retry bookkeeping left to the caller. -/
theorem linv_transfer {X Y : Endpoint} {cY cX : Cfg} {s1 s2 : RState} {D1 D2 : List OutMsg}
    (h1 : Dir cY X Y s1 D1) (h2 : Dir cX Y X s2 D2) (m : OutMsg) (blk : Block) (rest : List Block)
    (hc : X.cur = some (m, blk :: rest)) (rx ry : Nat) :
    (∃ s1' D1', Dir cY { X.acked with retry := rx } { Y.take blk with retry := ry } s1' D1' ∧
                Dir cX { Y.take blk with retry := ry } { X.acked with retry := rx } s2 D2) ∧
    (∃ s1', Dir cY { X with retry := rx } { Y.take blk with retry := ry } s1' D1 ∧
            Dir cX { Y.take blk with retry := ry } { X with retry := rx } s2 D2) ∧
    (Dir cY { X with retry := rx } { Y with retry := ry } s1 D1 ∧
     Dir cX { Y with retry := ry } { X with retry := rx } s2 D2) := by
  obtain ⟨s1', t1, tA⟩ := dir_take h1 m blk rest hc
  obtain ⟨D1', a1⟩ := dir_acked t1 m blk rest hc tA
  refine ⟨⟨s1', D1', ?_, ?_⟩, ⟨s1', ?_, ?_⟩, ?_, ?_⟩
  · exact dir_congr a1 rfl rfl rfl rfl rfl rfl rfl rfl
  · exact dir_congr h2 (by simp) (by simp) (by simp) (by simp) (by simp) (by simp) (by simp) (by simp)
  · exact dir_congr t1 rfl rfl rfl rfl rfl rfl rfl rfl
  · exact dir_congr h2 (by simp) (by simp) (by simp) (by simp) rfl rfl rfl rfl
  · exact dir_congr h1 rfl rfl rfl rfl rfl rfl rfl rfl
  · exact dir_congr h2 rfl rfl rfl rfl rfl rfl rfl rfl


theorem step_slave (l : Line) (f : Fault) (m : OutMsg) (blk : Block) (rest : List Block)
    (hm : l.master.load.cur = none) (hs : l.slave.load.cur = some (m, blk :: rest)) :
    l.step f = (match f.effect with
      | .transferred => Line.settle ⟨l.master.load.take blk, l.slave.load.acked⟩
      | .ackLost => Line.settle ⟨l.master.load.take blk, { l.slave.load with retry := l.slave.load.retry + 1 }⟩
      | .notReceived => Line.settle ⟨l.master.load, { l.slave.load with retry := l.slave.load.retry + 1 }⟩) := by
  simp only [Line.step, hm, hs]
  cases f.effect <;> simp only [hs]

theorem step_idle (l : Line) (f : Fault) (hm : l.master.load.cur = none) (hs : l.slave.load.cur = none) :
    l.step f = ⟨l.master.load, l.slave.load⟩ := by
  simp only [Line.step, hm, hs]

/-- **Every step preserves the invariant.** -/
theorem linv_step {dev : Nat} {l : Line} (h : LInv dev l) (f : Fault) : LInv dev (l.step f) := by
  have hL := linv_load h
  obtain ⟨s1, D1, s2, D2, h1, h2⟩ := hL
  simp only at h1 h2
  cases hm : l.master.load.cur with
  | some p =>
    obtain ⟨m, rem⟩ := p
    obtain ⟨blk, rest, hr⟩ := dir_cur_cons h1 m rem hm
    subst hr
    rw [step_master l f m blk rest hm]
    obtain ⟨⟨a1, a2, a3, a4⟩, ⟨b1, b2, b3⟩, c1, c2⟩ := linv_transfer h1 h2 m blk rest hm
      (match f.effect with
        | .transferred => 0
        | _ => l.master.load.retry + 1)
      (match f.effect with
        | .notReceived => if l.slave.load.cur.isSome then l.slave.load.retry + 1 else l.slave.load.retry
        | _ => if l.slave.load.cur.isSome then 0 else l.slave.load.retry)
    cases hf : f.effect <;> simp only [hf] at a3 a4 b2 b3 c1 c2 ⊢ <;> apply linv_settle
    · refine ⟨a1, a2, s2, D2, ?_, ?_⟩
      · exact dir_congr a3 (by simp) (by simp) (by simp) (by simp) rfl rfl rfl rfl
      · exact dir_congr a4 rfl rfl rfl rfl (by simp) (by simp) (by simp) (by simp)
    · exact ⟨s1, D1, s2, D2, c1, c2⟩
    · exact ⟨b1, D1, s2, D2, b2, b3⟩
  | none =>
    cases hs : l.slave.load.cur with
    | none => rw [step_idle l f hm hs]; exact ⟨s1, D1, s2, D2, h1, h2⟩
    | some p =>
      obtain ⟨m, rem⟩ := p
      obtain ⟨blk, rest, hr⟩ := dir_cur_cons h2 m rem hs
      subst hr
      rw [step_slave l f m blk rest hm hs]
      obtain ⟨⟨a1, a2, a3, a4⟩, ⟨b1, b2, b3⟩, c1, c2⟩ := linv_transfer h2 h1 m blk rest hs
        (match f.effect with
          | .transferred => l.slave.load.acked.retry
          | _ => l.slave.load.retry + 1)
        l.master.load.retry
      cases hf : f.effect <;> simp only [hf] at a3 a4 b2 b3 c1 c2 ⊢ <;> apply linv_settle
      · refine ⟨s1, D1, a1, a2, ?_, ?_⟩
        · exact dir_congr a4 rfl rfl rfl rfl rfl rfl rfl rfl
        · exact dir_congr a3 rfl rfl rfl rfl rfl rfl rfl rfl
      · exact ⟨s1, D1, s2, D2, dir_congr c2 rfl rfl rfl rfl rfl rfl rfl rfl, dir_congr c1 rfl rfl rfl rfl rfl rfl rfl rfl⟩
      · exact ⟨s1, D1, b1, D2, dir_congr b3 rfl rfl rfl rfl rfl rfl rfl rfl, dir_congr b2 rfl rfl rfl rfl rfl rfl rfl rfl⟩

theorem linv_run {dev : Nat} : ∀ (fs : List Fault) {l : Line}, LInv dev l → LInv dev (l.run fs) := by
  intro fs
  induction fs with
  | nil => intro l h; exact h
  | cons f fs ih => intro l h; exact ih (linv_step h f)


theorem dir_init (c : Cfg) (ht : c.t4 = 0) (X Y : Endpoint) (xe : Bool) (xd xl yl : Nat) (xq yq : List OutMsg)
    (hX : X = Endpoint.init xe xd xl xq) (hY : Y = Endpoint.init c.isEquip c.deviceID yl yq)
    (hs : ∀ m ∈ xq, Sendable c m) (hn : (xq.map (·.hdr)).Nodup) : Dir c X Y {} [] := by
  subst hX hY
  refine ⟨⟨rfl, rfl, ht⟩, ?_, inv_init _ _ _, ?_, ?_, List.Sublist.refl _, ?_⟩
  · have := rel_init c; rw [ht] at this; exact this
  · intro m hm; simp [Endpoint.init] at hm; exact hs m hm
  · simp only [Endpoint.init, List.append_nil, List.map_reverse]
    exact List.pairwise_reverse.mpr (List.Pairwise.imp (fun h => Ne.symm h) hn)
  · simp only [Endpoint.init]; exact ⟨List.Sublist.refl _, rfl, trivial, fun h e => by cases e⟩

theorem hsmsHeader_inj (h1 h2 : MsgHeader) (v1 : h1.Valid) (v2 : h2.Valid) (hd : h1.deviceID = h2.deviceID)
    (hr : h1.rBit = h2.rBit) (h : hsmsHeader h1 = hsmsHeader h2) : h1 = h2 := by
  obtain ⟨_, s1, f1⟩ := v1
  obtain ⟨_, s2, f2⟩ := v2
  cases h1 with
  | mk d1 r1 st1 fn1 w1 a1 b1 c1 e1 =>
  cases h2 with
  | mk d2 r2 st2 fn2 w2 a2 b2 c2 e2 =>
  simp only at hd hr s1 s2 f1 f2
  simp only [hsmsHeader, List.cons.injEq, and_true] at h
  obtain ⟨_, _, q3, q4, _, _, q7, q8, q9, q10⟩ := h
  have t3 := congrArg UInt8.toNat q3
  have t4 := congrArg UInt8.toNat q4
  simp only [ofNat_toNat, orTop] at t3 t4
  subst hd hr q7 q8 q9 q10
  have hw : w1 = w2 := by
    cases w1 <;> cases w2 <;> simp at t3 ⊢ <;> omega
  subst hw
  have hst : st1 = st2 := by cases w1 <;> simp at t3 <;> omega
  have hfn : fn1 = fn2 := by omega
  subst hst hfn
  rfl

theorem image_inj (c : Cfg) (m1 m2 : OutMsg) (h1 : Sendable c m1) (h2 : Sendable c m2) (h : m1.image = m2.image) :
    m1.hdr = m2.hdr := by
  have hl : (hsmsHeader m1.hdr).length = (hsmsHeader m2.hdr).length := rfl
  have := (List.append_inj h hl).1
  exact hsmsHeader_inj _ _ h1.valid h2.valid (by rw [h1.dev, h2.dev]) (by rw [h1.dir, h2.dir]) this

theorem nodup_map_image (c : Cfg) : ∀ (l : List OutMsg), (∀ m ∈ l, Sendable c m) → (l.map (·.hdr)).Nodup →
    (l.map OutMsg.image).Nodup := by
  intro l
  induction l with
  | nil => intro _ _; exact List.nodup_nil
  | cons m r ih =>
    intro hs hn
    simp only [List.map_cons, List.nodup_cons] at hn ⊢
    refine ⟨?_, ih (fun x hx => hs x (by simp [hx])) hn.2⟩
    intro hmem
    obtain ⟨m', hm', e⟩ := List.mem_map.mp hmem
    have := image_inj c m' m (hs m' (by simp [hm'])) (hs m (by simp)) e
    exact hn.1 (by rw [← this]; exact List.mem_map_of_mem hm')

/-- What the invariant says about one direction, without the internal bookkeeping. -/
theorem dir_summary {c : Cfg} {X Y : Endpoint} {s : RState} {D : List OutMsg} (h : Dir c X Y s D) :
    ∃ D', X.succeeded.Sublist D' ∧ D'.Sublist X.started ∧ Y.delivered = D'.map OutMsg.image ∧
      (∀ m ∈ X.started, Sendable c m) ∧ (X.started.map (·.hdr)).Nodup := by
  have hsend : ∀ m ∈ X.started, Sendable c m := fun m hm => h.sendable m (by simp [hm])
  have hnd : (X.started.map (·.hdr)).Nodup := by
    have := h.nodup
    rw [List.map_append] at this
    exact (List.nodup_append.mp this).2.1
  have hcur := h.cur
  cases hc : X.cur with
  | none =>
    rw [hc] at hcur
    exact ⟨D, h.succ, hcur.1, hcur.2.1, hsend, hnd⟩
  | some p =>
    obtain ⟨m, rem⟩ := p
    rw [hc] at hcur
    obtain ⟨all, prev, a, k, hst, _, _, _, _, _, hD, _, hdel⟩ := hcur
    by_cases hk : k = all.length
    · refine ⟨m :: D, List.Sublist.cons m h.succ, by rw [hst]; exact List.Sublist.cons_cons m hD, ?_, hsend, hnd⟩
      rw [hdel]; simp [hk]
    · refine ⟨D, h.succ, by rw [hst]; exact List.Sublist.cons m hD, ?_, hsend, hnd⟩
      rw [hdel]; simp [hk]


/-- Hypotheses of the composed exactly-once theorem: every queued message is one `splitBody` accepts and is
    addressed to the peer (device id `dev`, R-bit of the sender's role), and the messages of one direction have
    pairwise different headers (library-generated system bytes). -/
structure WellPosed (dev : Nat) (mq sq : List OutMsg) : Prop where
  toSlave : ∀ m ∈ mq, Sendable ⟨false, dev, 0⟩ m
  toMaster : ∀ m ∈ sq, Sendable ⟨true, dev, 0⟩ m
  nodupM : (mq.map (·.hdr)).Nodup
  nodupS : (sq.map (·.hdr)).Nodup

def Line.start (dev lm ls : Nat) (mq sq : List OutMsg) : Line :=
  { master := Endpoint.init true dev lm mq, slave := Endpoint.init false dev ls sq }

theorem linv_start (dev lm ls : Nat) (mq sq : List OutMsg) (hw : WellPosed dev mq sq) : LInv dev (Line.start dev lm ls mq sq) :=
  ⟨{}, [], {}, [],
    dir_init ⟨false, dev, 0⟩ rfl _ _ true dev lm ls mq sq rfl rfl hw.toSlave hw.nodupM,
    dir_init ⟨true, dev, 0⟩ rfl _ _ false dev ls lm sq mq rfl rfl hw.toMaster hw.nodupS⟩

/-- One direction of the composed result. -/
theorem dir_exactly_once {c : Cfg} {X Y : Endpoint} {s : RState} {D : List OutMsg} (h : Dir c X Y s D) :
    (∀ m ∈ X.succeeded, m.image ∈ Y.delivered) ∧ Y.delivered.Nodup ∧
    ∃ D', X.succeeded.Sublist D' ∧ D'.Sublist X.started ∧ Y.delivered = D'.map OutMsg.image := by
  obtain ⟨D', h1, h2, h3, h4, h5⟩ := dir_summary h
  refine ⟨?_, ?_, D', h1, h2, h3⟩
  · intro m hm
    rw [h3]
    exact List.mem_map_of_mem (h1.subset hm)
  · rw [h3]
    apply nodup_map_image c D' (fun m hm => h4 m (h2.subset hm))
    exact List.Pairwise.sublist (h2.map _) h5


/-! ## Termination: every enabled step decreases a lexicographic measure -/


/-- Blocks a queued message will put on the line (1 for a message `splitBody` rejects: it fails at once). -/
def msgWeight (m : OutMsg) : Nat :=
  match splitBody m.body m.hdr with
  | .ok (b :: bs) => (b :: bs).length
  | _ => 1

/-- Work left at one endpoint: blocks still to be ACKed, queued ones included. -/
def Endpoint.work (e : Endpoint) : Nat :=
  (e.queue.map msgWeight).sum + (match e.cur with | some (_, rem) => rem.length | none => 0)

/-- Retries the block on the line may still consume (an idle endpoint has its whole budget). -/
def Endpoint.slack (e : Endpoint) : Nat :=
  e.limit + 1 - (if e.cur.isSome then e.retry else 0)

def Line.work (l : Line) : Nat := l.master.work + l.slave.work

/-- No endpoint is "sending" an empty block list (true initially, preserved by every step). -/
def Endpoint.curOK (e : Endpoint) : Prop := ∀ m, e.cur ≠ some (m, [])

theorem load_limit (e : Endpoint) : e.load.limit = e.limit := by
  simp only [Endpoint.load]
  split
  · split <;> rfl
  · rfl

theorem load_cases (e : Endpoint) :
    e.load = e ∧ (e.cur.isSome ∨ e.queue = []) ∨
    (∃ m q, e.cur = none ∧ e.queue = m :: q ∧ msgWeight m = 1 ∧ e.load = { e with queue := q, failed := m :: e.failed }) ∨
    (∃ m q b bs, e.cur = none ∧ e.queue = m :: q ∧ msgWeight m = (b :: bs).length ∧
      e.load = { e with queue := q, cur := some (m, b :: bs), retry := 0, started := m :: e.started }) := by
  cases hc : e.cur with
  | some p => left; exact ⟨by simp only [Endpoint.load, hc], Or.inl rfl⟩
  | none =>
    cases hq : e.queue with
    | nil => left; exact ⟨by simp only [Endpoint.load, hc, hq], Or.inr rfl⟩
    | cons m q =>
      right
      cases hsp : splitBody m.body m.hdr with
      | error x => left; exact ⟨m, q, rfl, rfl, by simp only [msgWeight, hsp], by simp only [Endpoint.load, hc, hq, hsp]⟩
      | ok bs =>
        cases bs with
        | nil => left; exact ⟨m, q, rfl, rfl, by simp only [msgWeight, hsp], by simp only [Endpoint.load, hc, hq, hsp]⟩
        | cons b bs' =>
          right; exact ⟨m, q, b, bs', rfl, rfl, by simp only [msgWeight, hsp], by simp only [Endpoint.load, hc, hq, hsp]⟩

theorem load_work_slack (e : Endpoint) :
    e.load.work ≤ e.work ∧ e.load.slack = e.slack ∧ (e.load.cur = none → e.queue ≠ [] → e.load.work < e.work) ∧
    (e.curOK → e.load.curOK) ∧ (e.load.cur = none → e.cur = none) := by
  rcases load_cases e with ⟨h, hh⟩ | ⟨m, q, hc, hq, hw, hl⟩ | ⟨m, q, b, bs, hc, hq, hw, hl⟩
  · rw [h]
    refine ⟨Nat.le_refl _, rfl, ?_, id, id⟩
    intro h1 h2
    rcases hh with hh | hh
    · rw [h1] at hh; cases hh
    · exact absurd hh h2
  · rw [hl]
    refine ⟨?_, ?_, ?_, ?_, ?_⟩
    · simp only [Endpoint.work, hc, hq, List.map_cons, List.sum_cons]; omega
    · simp only [Endpoint.slack, hc]
    · intro _ _; simp only [Endpoint.work, hc, hq, List.map_cons, List.sum_cons, hw]; omega
    · intro _ m' h; simp only [hc] at h; cases h
    · intro _; exact hc
  · rw [hl]
    refine ⟨?_, ?_, ?_, ?_, ?_⟩
    · simp only [Endpoint.work, hc, hq, List.map_cons, List.sum_cons, hw]; omega
    · simp only [Endpoint.slack, hc, Option.isSome_some, Option.isSome_none, reduceIte, Bool.false_eq_true]
    · intro h; cases h
    · intro _ m' h; simp only [Option.some.injEq, Prod.mk.injEq] at h; cases h.2
    · intro h; cases h


theorem work_take (e : Endpoint) (b : Block) : (e.take b).work = e.work := by
  simp only [Endpoint.work, take_queue, take_cur]
theorem slack_take (e : Endpoint) (b : Block) : (e.take b).slack = e.slack := by
  simp only [Endpoint.slack, take_cur, take_retry, take_limit]
theorem curOK_take (e : Endpoint) (b : Block) (h : e.curOK) : (e.take b).curOK := by
  intro m; rw [take_cur]; exact h m

theorem work_acked (e : Endpoint) (m : OutMsg) (blk : Block) (rest : List Block) (h : e.cur = some (m, blk :: rest)) :
    e.acked.work + 1 = e.work ∧ e.acked.curOK := by
  cases rest with
  | nil =>
    have : e.acked = { e with cur := none, retry := 0, succeeded := m :: e.succeeded } := by simp only [Endpoint.acked, h]
    rw [this]
    refine ⟨by simp only [Endpoint.work, h, List.length_cons, List.length_nil], ?_⟩
    intro m' hh; cases hh
  | cons b bs =>
    have : e.acked = { e with cur := some (m, b :: bs), retry := 0 } := by simp only [Endpoint.acked, h]
    rw [this]
    refine ⟨by simp only [Endpoint.work, h, List.length_cons]; omega, ?_⟩
    intro m' hh; simp only [Option.some.injEq, Prod.mk.injEq] at hh; cases hh.2

theorem work_teardown (e : Endpoint) : e.teardown.work ≤ e.work ∧ e.teardown.curOK ∧
    (∀ m blk rest, e.cur = some (m, blk :: rest) → e.teardown.work < e.work) := by
  refine ⟨?_, ?_, ?_⟩
  · simp only [Endpoint.work, Endpoint.teardown]; omega
  · intro m h; cases h
  · intro m blk rest h
    simp only [Endpoint.work, Endpoint.teardown, h, List.length_cons]; omega

theorem slack_of_cur (e : Endpoint) (h : e.cur.isSome = true) : e.slack = e.limit + 1 - e.retry := by
  simp only [Endpoint.slack, h, reduceIte]

theorem slack_of_none (e : Endpoint) (h : e.cur = none) : e.slack = e.limit + 1 := by
  simp only [Endpoint.slack, h, Option.isSome_none, Bool.false_eq_true, reduceIte, Nat.sub_zero]

/-- `settle` never adds work; if it re-establishes the link while a block is on the line, work drops. -/
theorem settle_decr (A : Line) (hMok : A.master.curOK) (hSok : A.slave.curOK) :
    A.settle.master.curOK ∧ A.settle.slave.curOK ∧ A.settle.work ≤ A.work ∧
    ((A.settle = A ∧ A.master.retry ≤ A.master.limit ∧ A.slave.retry ≤ A.slave.limit) ∨
     (∀ m blk rest, (A.master.cur = some (m, blk :: rest) ∨ A.slave.cur = some (m, blk :: rest)) → A.settle.work < A.work)) := by
  rcases settle_cases A with e | ⟨e, e1, e2⟩
  · rw [e]
    obtain ⟨t1, t2, t3⟩ := work_teardown A.master
    obtain ⟨u1, u2, u3⟩ := work_teardown A.slave
    refine ⟨t2, u2, by simp only [Line.work]; omega, Or.inr ?_⟩
    intro m blk rest h
    rcases h with h | h
    · have := t3 m blk rest h; simp only [Line.work]; omega
    · have := u3 m blk rest h; simp only [Line.work]; omega
  · rw [e]; exact ⟨hMok, hSok, Nat.le_refl _, Or.inl ⟨rfl, e1, e2⟩⟩

/-- The three ways an enabled step makes progress, given the line `A` handed to `settle`. -/
theorem progress_of (l A : Line) (hMok : A.master.curOK) (hSok : A.slave.curOK)
    (hw : A.work ≤ l.work)
    (hcase : A.work < l.work ∨
      ((∃ m blk rest, A.master.cur = some (m, blk :: rest)) ∧
        (A.master.retry ≤ A.master.limit → A.master.limit + 1 - A.master.retry < l.master.slack)) ∨
      ((∃ m blk rest, A.slave.cur = some (m, blk :: rest)) ∧ A.master.cur = none ∧ A.master.limit + 1 = l.master.slack ∧
        (A.slave.retry ≤ A.slave.limit → A.slave.limit + 1 - A.slave.retry < l.slave.slack))) :
    (A.settle.work < l.work ∨ (A.settle.work = l.work ∧ A.settle.master.slack < l.master.slack) ∨
     (A.settle.work = l.work ∧ A.settle.master.slack = l.master.slack ∧ A.settle.slave.slack < l.slave.slack)) ∧
    A.settle.master.curOK ∧ A.settle.slave.curOK := by
  obtain ⟨o1, o2, o3, o4⟩ := settle_decr A hMok hSok
  refine ⟨?_, o1, o2⟩
  rcases hcase with h | ⟨⟨m, blk, rest, hc⟩, h⟩ | ⟨⟨m, blk, rest, hc⟩, hn, h1, h2⟩
  · left; omega
  · rcases o4 with ⟨e, e1, _⟩ | o4
    · rw [e]
      by_cases hwe : A.work = l.work
      · right; left
        refine ⟨hwe, ?_⟩
        rw [slack_of_cur A.master (by rw [hc]; rfl)]; exact h e1
      · left; omega
    · left; have := o4 m blk rest (Or.inl hc); omega
  · rcases o4 with ⟨e, _, e2⟩ | o4
    · rw [e]
      by_cases hwe : A.work = l.work
      · right; right
        refine ⟨hwe, ?_, ?_⟩
        · rw [slack_of_none A.master hn]; exact h1
        · rw [slack_of_cur A.slave (by rw [hc]; rfl)]; exact h2 e2
      · left; omega
    · left; have := o4 m blk rest (Or.inr hc); omega


theorem quiescent_false (l : Line) (h : l.quiescent = false) :
    l.master.queue ≠ [] ∨ l.master.cur ≠ none ∨ l.slave.queue ≠ [] ∨ l.slave.cur ≠ none := by
  simp only [Line.quiescent] at h
  cases h1 : l.master.queue <;> cases h2 : l.master.cur <;> cases h3 : l.slave.queue <;> cases h4 : l.slave.cur <;>
    simp_all

/-- **Every enabled step decreases the lexicographic measure** (work left, master's retry slack, slave's
    retry slack), in every non-quiescent configuration and under every fault. -/
theorem step_decreases (l : Line) (f : Fault) (hM : l.master.curOK) (hS : l.slave.curOK) (hq : l.quiescent = false) :
    ((l.step f).work < l.work ∨
     ((l.step f).work = l.work ∧ (l.step f).master.slack < l.master.slack) ∨
     ((l.step f).work = l.work ∧ (l.step f).master.slack = l.master.slack ∧ (l.step f).slave.slack < l.slave.slack)) ∧
    (l.step f).master.curOK ∧ (l.step f).slave.curOK := by
  obtain ⟨mw, ms, mlt, mok, mnone⟩ := load_work_slack l.master
  obtain ⟨sw, ss, slt, sok, snone⟩ := load_work_slack l.slave
  have hMok := mok hM
  have hSok := sok hS
  have hlw : l.work = l.master.work + l.slave.work := rfl
  cases hm : l.master.load.cur with
  | some p =>
    obtain ⟨m, rem⟩ := p
    cases rem with
    | nil => exact absurd hm (hMok m)
    | cons blk rest =>
      rw [step_master l f m blk rest hm]
      obtain ⟨wa, oka⟩ := work_acked l.master.load m blk rest hm
      have hsl := slack_of_cur l.master.load (by rw [hm]; rfl)
      cases hf : f.effect <;> simp only
      · apply progress_of l _ oka (curOK_take _ blk hSok)
        · have : (l.slave.load.take blk).work = l.slave.load.work := work_take _ _
          show l.master.load.acked.work + (l.slave.load.take blk).work ≤ _
          omega
        · left
          have : (l.slave.load.take blk).work = l.slave.load.work := work_take _ _
          show l.master.load.acked.work + (l.slave.load.take blk).work < _
          omega
      · apply progress_of l _ hMok hSok
        · show l.master.load.work + l.slave.load.work ≤ _; omega
        · right; left
          refine ⟨⟨m, blk, rest, hm⟩, ?_⟩
          intro h
          show l.master.load.limit + 1 - (l.master.load.retry + 1) < _
          have h' : l.master.load.retry + 1 ≤ l.master.load.limit := h
          omega
      · apply progress_of l _ hMok (curOK_take _ blk hSok)
        · have : (l.slave.load.take blk).work = l.slave.load.work := work_take _ _
          show l.master.load.work + (l.slave.load.take blk).work ≤ _; omega
        · right; left
          refine ⟨⟨m, blk, rest, hm⟩, ?_⟩
          intro h
          show l.master.load.limit + 1 - (l.master.load.retry + 1) < _
          have h' : l.master.load.retry + 1 ≤ l.master.load.limit := h
          omega
  | none =>
    have hmn := mnone hm
    have hmsl : l.master.load.limit + 1 = l.master.slack := by rw [← ms, slack_of_none _ hm]
    cases hs : l.slave.load.cur with
    | none =>
      rw [step_idle l f hm hs]
      refine ⟨Or.inl ?_, hMok, hSok⟩
      have hsn := snone hs
      rcases quiescent_false l hq with h | h | h | h
      · have := mlt hm h; show l.master.load.work + l.slave.load.work < _; omega
      · exact absurd hmn h
      · have := slt hs h; show l.master.load.work + l.slave.load.work < _; omega
      · exact absurd hsn h
    | some p =>
      obtain ⟨m, rem⟩ := p
      cases rem with
      | nil => exact absurd hs (hSok m)
      | cons blk rest =>
        rw [step_slave l f m blk rest hm hs]
        obtain ⟨wa, oka⟩ := work_acked l.slave.load m blk rest hs
        have hsl := slack_of_cur l.slave.load (by rw [hs]; rfl)
        cases hf : f.effect <;> simp only
        · apply progress_of l _ (curOK_take _ blk hMok) oka
          · have : (l.master.load.take blk).work = l.master.load.work := work_take _ _
            show (l.master.load.take blk).work + l.slave.load.acked.work ≤ _; omega
          · left
            have : (l.master.load.take blk).work = l.master.load.work := work_take _ _
            show (l.master.load.take blk).work + l.slave.load.acked.work < _; omega
        · apply progress_of l _ hMok hSok
          · show l.master.load.work + l.slave.load.work ≤ _; omega
          · right; right
            refine ⟨⟨m, blk, rest, hs⟩, hm, hmsl, ?_⟩
            intro h
            show l.slave.load.limit + 1 - (l.slave.load.retry + 1) < _
            have h' : l.slave.load.retry + 1 ≤ l.slave.load.limit := h
            omega
        · apply progress_of l _ (curOK_take _ blk hMok) hSok
          · have : (l.master.load.take blk).work = l.master.load.work := work_take _ _
            show (l.master.load.take blk).work + l.slave.load.work ≤ _; omega
          · right; right
            refine ⟨⟨m, blk, rest, hs⟩, by rw [take_cur]; exact hm, by rw [take_limit]; exact hmsl, ?_⟩
            intro h
            show l.slave.load.limit + 1 - (l.slave.load.retry + 1) < _
            have h' : l.slave.load.retry + 1 ≤ l.slave.load.limit := h
            omega


/-- The termination measure, ordered lexicographically. -/
def Line.measure (l : Line) : Nat × Nat × Nat := (l.work, l.master.slack, l.slave.slack)

abbrev MeasureLt : Nat × Nat × Nat → Nat × Nat × Nat → Prop :=
  Prod.Lex (· < ·) (Prod.Lex (· < ·) (· < ·))

theorem measure_decreases (l : Line) (f : Fault) (hM : l.master.curOK) (hS : l.slave.curOK) (hq : l.quiescent = false) :
    MeasureLt (l.step f).measure l.measure := by
  obtain ⟨h, _, _⟩ := step_decreases l f hM hS hq
  simp only [Line.measure]
  rcases h with h | ⟨e, h⟩ | ⟨e1, e2, h⟩
  · exact Prod.Lex.left _ _ h
  · rw [e]; exact Prod.Lex.right _ (Prod.Lex.left _ _ h)
  · rw [e1, e2]; exact Prod.Lex.right _ (Prod.Lex.right _ h)

theorem curOK_step (l : Line) (f : Fault) (hM : l.master.curOK) (hS : l.slave.curOK) :
    (l.step f).master.curOK ∧ (l.step f).slave.curOK := by
  cases hq : l.quiescent with
  | false => exact (step_decreases l f hM hS hq).2
  | true =>
    simp only [Line.quiescent, Bool.and_eq_true, List.isEmpty_iff, Option.isNone_iff_eq_none] at hq
    obtain ⟨⟨⟨q1, c1⟩, q2⟩, c2⟩ := hq
    have l1 : l.master.load = l.master := by simp only [Endpoint.load, c1, q1]
    have l2 : l.slave.load = l.slave := by simp only [Endpoint.load, c2, q2]
    rw [step_idle l f (by rw [l1]; exact c1) (by rw [l2]; exact c2), l1, l2]
    exact ⟨hM, hS⟩

theorem curOK_run : ∀ (fs : List Fault) (l : Line), l.master.curOK → l.slave.curOK →
    (l.run fs).master.curOK ∧ (l.run fs).slave.curOK := by
  intro fs
  induction fs with
  | nil => intro l h1 h2; exact ⟨h1, h2⟩
  | cons f fs ih =>
    intro l h1 h2
    obtain ⟨a, b⟩ := curOK_step l f h1 h2
    exact ih (l.step f) a b

theorem curOK_start (dev lm ls : Nat) (mq sq : List OutMsg) :
    (Line.start dev lm ls mq sq).master.curOK ∧ (Line.start dev lm ls mq sq).slave.curOK := by
  refine ⟨?_, ?_⟩ <;> intro m h <;> simp [Line.start, Endpoint.init] at h



/-! ## Messages offered while the line is running (the straddle case) -/


/-- Offering a fresh message to the sender side keeps the direction invariant. -/
theorem dir_offer {c : Cfg} {X Y : Endpoint} {s : RState} {D : List OutMsg} (h : Dir c X Y s D) (m : OutMsg)
    (hs : Sendable c m) (hfresh : m.hdr ∉ (X.queue.reverse ++ X.started).map (·.hdr)) : Dir c (X.offer m) Y s D := by
  obtain ⟨a, b, c', d, e, f, g⟩ := h
  refine ⟨a, b, c', ?_, ?_, f, g⟩
  · intro m' hm'
    simp only [Endpoint.offer, List.reverse_append, List.reverse_cons, List.reverse_nil, List.nil_append, List.cons_append,
      List.mem_cons] at hm'
    rcases hm' with rfl | hm'
    · exact hs
    · exact d m' hm'
  · simp only [Endpoint.offer, List.reverse_append, List.reverse_cons, List.reverse_nil, List.nil_append, List.cons_append,
      List.map_cons, List.nodup_cons]
    exact ⟨hfresh, e⟩

/-- A message may be offered at any moment, also in the middle of the peer's multi-block message. -/
theorem linv_offer_slave {dev : Nat} {l : Line} (h : LInv dev l) (m : OutMsg)
    (hs : Sendable ⟨true, dev, 0⟩ m)
    (hfresh : m.hdr ∉ (l.slave.queue.reverse ++ l.slave.started).map (·.hdr)) : LInv dev (l.apply (.offerSlave m)) := by
  obtain ⟨s1, D1, s2, D2, h1, h2⟩ := h
  refine ⟨s1, D1, s2, D2, ?_, ?_⟩
  · exact dir_congr (X' := l.master) (Y' := l.slave.offer m) h1 rfl rfl rfl rfl rfl rfl rfl rfl
  · exact dir_offer h2 m hs hfresh

theorem linv_offer_master {dev : Nat} {l : Line} (h : LInv dev l) (m : OutMsg)
    (hs : Sendable ⟨false, dev, 0⟩ m)
    (hfresh : m.hdr ∉ (l.master.queue.reverse ++ l.master.started).map (·.hdr)) : LInv dev (l.apply (.offerMaster m)) := by
  obtain ⟨s1, D1, s2, D2, h1, h2⟩ := h
  refine ⟨s1, D1, s2, D2, ?_, ?_⟩
  · exact dir_offer h1 m hs hfresh
  · exact dir_congr (X' := l.slave) (Y' := l.master.offer m) h2 rfl rfl rfl rfl rfl rfl rfl rfl

/-- In a master-holds step the slave's assembler after the step is its assembler before, fed the block —
    whether the slave was idle (idle path) or had a send pending (yield path). -/
theorem slave_take_same_assembler (l : Line) (f : Fault) (m : OutMsg) (blk : Block) (rest : List Block)
    (hm : l.master.load.cur = some (m, blk :: rest)) (hf : f.effect ≠ .notReceived)
    (hnt : (l.step f).slave.asm ≠ Asm.init l.slave.isEquip l.slave.deviceID 0) :
    (l.step f).slave.asm = (l.slave.asm.accept 0 blk).1 := by
  rw [step_master l f m blk rest hm] at hnt ⊢
  cases hfe : f.effect with
  | notReceived => exact absurd hfe hf
  | transferred =>
    simp only [hfe] at hnt ⊢
    rcases settle_cases ⟨l.master.load.acked, { l.slave.load.take blk with retry := if l.slave.load.cur.isSome then 0 else l.slave.load.retry }⟩ with e | ⟨e, _, _⟩
    · rw [e] at hnt; exact absurd (by simp [Endpoint.teardown]) hnt
    · rw [e]; simp
  | ackLost =>
    simp only [hfe] at hnt ⊢
    rcases settle_cases ⟨{ l.master.load with retry := l.master.load.retry + 1 }, { l.slave.load.take blk with retry := if l.slave.load.cur.isSome then 0 else l.slave.load.retry }⟩ with e | ⟨e, _, _⟩
    · rw [e] at hnt; exact absurd (by simp [Endpoint.teardown]) hnt
    · rw [e]; simp


end GoSecs.Secs1
