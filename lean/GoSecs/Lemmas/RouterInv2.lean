/-
  Router invariants, part 3: wire, delivery log, generator.
-/
import GoSecs.Lemmas.RouterInv

namespace GoSecs.Router

/-! ## I-wire: a frame is written on the socket of the epoch its sender pinned -/

def WireOk (c : Cfg) : Prop :=
  ∀ ev, ev ∈ c.wire → ev.sock = (c.s ev.src).ep ∧ ev.sb = (c.s ev.src).sb ∧ 6 ≤ (c.s ev.src).pc.rank

theorem wireOk_init : WireOk init := by
  intro ev h; simp [init] at h

theorem rank_ne_of_ge {p : Pc} {n : Nat} (h : n ≤ p.rank) (hn : 2 ≤ n) : p ≠ .new ∧ p ≠ .begun := by
  cases p <;> simp [Pc.rank] at h ⊢ <;> omega

theorem wireOk_old (c : Cfg) (a : Action) (he : enabled c a = true) (ev : WireEv)
    (h : ev.sock = (c.s ev.src).ep ∧ ev.sb = (c.s ev.src).sb ∧ 6 ≤ (c.s ev.src).pc.rank) :
    ev.sock = ((apply c a).s ev.src).ep ∧ ev.sb = ((apply c a).s ev.src).sb ∧ 6 ≤ ((apply c a).s ev.src).pc.rank := by
  obtain ⟨w1, w2, w3⟩ := h
  obtain ⟨s1, s2, s3⟩ := apply_sender_stable c a he ev.src
  obtain ⟨hn, hb⟩ := rank_ne_of_ge w3 (by omega)
  exact ⟨by rw [s3 hn hb]; exact w1, by rw [(s2 hn).2.1]; exact w2, by omega⟩

theorem wireOk_apply (c : Cfg) (a : Action) (he : enabled c a = true) (hq : QueueOk c) (h : WireOk c) : WireOk (apply c a) := by
  intro ev hev
  rw [apply_wire] at hev
  cases a <;> simp only at hev <;> try (exact wireOk_old c _ he ev (h ev hev))
  case write i ok =>
    split at hev
    · rename_i hx
      simp only [List.mem_cons] at hev
      rcases hev with rfl | hev
      · simp only [enabled, decide_eq_true_eq] at he
        simp only [apply_s, touched, hx, upd_apply, if_true, Sender.afterWrite]
        split <;> simp [Pc.rank, Sender.finish]
      · exact wireOk_old c _ he ev (h ev hev)
    · exact wireOk_old c _ he ev (h ev hev)
  case drain e ok =>
    cases hqe : c.queue e with
    | nil => simp only [hqe] at hev; exact wireOk_old c _ he ev (h ev hev)
    | cons i rest =>
      simp only [hqe] at hev
      split at hev
      · rename_i hx
        simp only [List.mem_cons] at hev
        rcases hev with rfl | hev
        · obtain ⟨q1, q2, q3⟩ := hq e i (by rw [hqe]; exact List.mem_cons_self)
          simp only [apply_s, touched, hqe, hx, upd_apply, if_true, Sender.afterDrain]
          simp [q2, q3, Pc.rank]
        · exact wireOk_old c _ he ev (h ev hev)
      · exact wireOk_old c _ he ev (h ev hev)

/-! ## I-deliv: a frame that hit the registry was read on, and looked up in, the epoch its sender pinned -/

def Recipient.hit : Recipient → Option Nat
  | .sender i => some i
  | .dupDrop i => some i
  | .lateDrop i => some i
  | _ => none

def DelivOk (c : Cfg) : Prop :=
  ∀ d, d ∈ c.deliv → ∀ i, d.to.hit = some i →
    d.reg = some (c.s i).ep ∧ d.ep = (c.s i).ep ∧ 4 ≤ (c.s i).pc.rank ∧ ∃ r, d.frame.offer = some ((c.s i).sb, r)

theorem delivOk_init : DelivOk init := by
  intro d h; simp [init] at h

theorem fanout_hit (c : Cfg) : (fanout c).hit = none := by
  unfold fanout
  split
  · rfl
  · split <;> rfl

theorem miss_hit (c : Cfg) (f : Frame) : (missRecipient c f).hit = none := by
  cases f <;> simp only [missRecipient, fanout_hit] <;> rfl

theorem hitRecipient_hit (w : Sender) (j : Nat) : (hitRecipient w j).hit = some j := by
  unfold hitRecipient
  repeat' split
  all_goals rfl

theorem dispatch_hit (c : Cfg) (f : Frame) (i : Nat) (h : (dispatch c f).1.hit = some i) :
    ∃ sb r, f.offer = some (sb, r) ∧ lookup c sb = some i ∧ f.matches (c.s i).kind = true := by
  unfold dispatch at h
  split at h
  · simp [Recipient.hit] at h
  · split at h
    · simp [miss_hit] at h
    · rename_i sb r hoff
      split at h
      · simp [miss_hit] at h
      · rename_i j hl
        split at h
        · rename_i hm
          simp only [hitRecipient_hit, Option.some.injEq] at h
          subst h
          exact ⟨sb, r, hoff, hl, hm⟩
        · simp [miss_hit] at h

theorem rank_open {p : Pc} (h : p.open = true) : 4 ≤ p.rank := by
  cases p <;> simp [Pc.open, Pc.rank] at h ⊢

theorem delivOk_apply (c : Cfg) (a : Action) (he : enabled c a = true) (hr : RegOk c) (hep : EpochOk c) (h : DelivOk c) :
    DelivOk (apply c a) := by
  have hold : ∀ d, d ∈ c.deliv → ∀ i, d.to.hit = some i →
      d.reg = some ((apply c a).s i).ep ∧ d.ep = ((apply c a).s i).ep ∧ 4 ≤ ((apply c a).s i).pc.rank ∧
        ∃ r, d.frame.offer = some (((apply c a).s i).sb, r) := by
    intro d hd i hi
    obtain ⟨d1, d2, d3, d4⟩ := h d hd i hi
    obtain ⟨s1, s2, s3⟩ := apply_sender_stable c a he i
    obtain ⟨hn, hb⟩ := rank_ne_of_ge d3 (by omega)
    rw [s3 hn hb, (s2 hn).2.1]
    exact ⟨d1, d2, by omega, d4⟩
  intro d hd
  rw [apply_deliv] at hd
  cases a <;> simp only at hd <;> try (exact hold d hd)
  case recv e f =>
    simp only [List.mem_cons] at hd
    rcases hd with rfl | hd
    · intro i hi
      simp only at hi
      obtain ⟨sb, r, hoff, hl, _⟩ := dispatch_hit c f i hi
      obtain ⟨ce, hcur, hreg⟩ := lookup_reg c sb i hl
      obtain ⟨r1, r2, r3, _⟩ := hr ce sb i hreg
      simp only [enabled, Bool.and_eq_true, decide_eq_true_eq, Bool.not_eq_true'] at he
      have hce : c.cur = some e := hep.alive e he.1 he.2
      have : ce = e := by rw [hcur] at hce; exact Option.some.inj hce
      subst this
      obtain ⟨s1, s2, s3⟩ := apply_sender_stable c (.recv ce f) (by simp [enabled, he.1, he.2]) i
      have h4 := rank_open r3
      obtain ⟨hn, hb⟩ := rank_ne_of_ge h4 (by omega)
      rw [s3 hn hb, (s2 hn).2.1, r1, r2]
      exact ⟨hcur, rfl, by omega, r, hoff⟩
    · exact hold d hd

/-! ## I-raw: the generator -/

structure RawOk (c : Cfg) : Prop where
  le : ∀ i, (c.s i).pc ≠ .new → (c.s i).raw ≤ c.gen
  inj : ∀ i j, i ≠ j → (c.s i).pc ≠ .new → (c.s j).pc ≠ .new → (c.s i).raw ≠ (c.s j).raw

theorem rawOk_init : RawOk init := by
  constructor <;> simp [init]

/-- only `begin` starts a sender -/
theorem stays_new (c : Cfg) (a : Action) (he : enabled c a = true) (j : Nat) (hn : (c.s j).pc = .new)
    (hb : ∀ k, a ≠ .begin j k) : ((apply c a).s j).pc = .new := by
  rw [apply_s]
  cases hta : touched c a with
  | none => simpa using hn
  | some p =>
    obtain ⟨i, w⟩ := p
    simp only [upd_apply]
    by_cases hj : j = i
    · subst hj
      simp only [if_true]
      cases a
      case drain e ok =>
        obtain ⟨rest, _, rfl⟩ := touched_drain c e ok j w hta
        unfold Sender.afterDrain
        split <;> simp_all
      case recv e f =>
        obtain ⟨r, _, rfl⟩ := touched_recv c e f j w hta
        simp_all
      case begin i k =>
        simp only [touched, Option.some.injEq, Prod.mk.injEq] at hta
        exact absurd (by rw [hta.1]) (hb k)
      sender_cases he hta
      all_goals simp_all
    · simpa [hj] using hn

theorem rawOk_apply (c : Cfg) (a : Action) (he : enabled c a = true) (h : RawOk c) : RawOk (apply c a) := by
  obtain ⟨h1, h2⟩ := h
  by_cases hb : ∃ i k, a = .begin i k
  · obtain ⟨i, k, rfl⟩ := hb
    simp only [enabled, decide_eq_true_eq] at he
    constructor
    · intro j hj
      simp only [apply_s, apply_gen, touched, upd_apply] at hj ⊢
      split
      · simp
      · rename_i hji
        simp only [hji, if_false] at hj
        have := h1 j hj
        omega
    · intro j1 j2 hne hj1 hj2
      simp only [apply_s, touched, upd_apply] at hj1 hj2 ⊢
      by_cases e1 : j1 = i <;> by_cases e2 : j2 = i
      · exact absurd (e1.trans e2.symm) hne
      · simp only [e1, e2, if_true, if_false] at hj2 ⊢
        have := h1 j2 hj2
        omega
      · simp only [e1, e2, if_true, if_false] at hj1 ⊢
        have := h1 j1 hj1
        omega
      · simp only [e1, e2, if_false] at hj1 hj2 ⊢
        exact h2 j1 j2 hne hj1 hj2
  · have hnb : ∀ j k, a ≠ .begin j k := fun j k hk => hb ⟨j, k, hk⟩
    have hgen : (apply c a).gen = c.gen := by
      rw [apply_gen]
      cases a <;> first | rfl | exact absurd rfl (hnb _ _)
    have hwas : ∀ j, ((apply c a).s j).pc ≠ .new → (c.s j).pc ≠ .new := by
      intro j hj hn
      exact hj (stays_new c a he j hn (hnb j))
    constructor
    · intro j hj
      have hn := hwas j hj
      rw [hgen, ((apply_sender_stable c a he j).2.1 hn).2.2]
      exact h1 j hn
    · intro j1 j2 hne hj1 hj2
      have hn1 := hwas j1 hj1
      have hn2 := hwas j2 hj2
      rw [((apply_sender_stable c a he j1).2.1 hn1).2.2, ((apply_sender_stable c a he j2).2.1 hn2).2.2]
      exact h2 j1 j2 hne hn1 hn2


/-! ## the bundle -/

structure Inv (c : Cfg) : Prop where
  pc : ∀ j, PcOk (c.s j)
  reg : RegOk c
  chan : ∀ j, ChanOk (c.s j)
  queue : QueueOk c
  epoch : EpochOk c
  wire : WireOk c
  deliv : DelivOk c
  raw : RawOk c

theorem inv_init : Inv init :=
  ⟨pcOk_init, regOk_init, chanOk_init, queueOk_init, epochOk_init, wireOk_init, delivOk_init, rawOk_init⟩

theorem inv_apply (c : Cfg) (a : Action) (he : enabled c a = true) (h : Inv c) : Inv (apply c a) :=
  ⟨pcOk_apply c a he h.pc h.reg, regOk_apply c a he h.reg, chanOk_apply c a he h.pc h.reg h.chan,
   queueOk_apply c a he h.queue, epochOk_apply c a he h.epoch, wireOk_apply c a he h.queue h.wire,
   delivOk_apply c a he h.reg h.epoch h.deliv, rawOk_apply c a he h.raw⟩

theorem inv_step (c : Cfg) (a : Action) (h : Inv c) : Inv (step c a) :=
  step_of_apply c a h (fun he => inv_apply c a he h)

theorem inv_reachable {c : Cfg} (hr : Reachable c) : Inv c :=
  reachable_of_inv inv_init inv_step hr

end GoSecs.Router
