/-
  Router invariants, part 6 (C20): every counter is the sum of the per-call contributions of the calls that have
  begun; the in-flight gauge is the number of W-bit data senders between "write returned" and "deferred dec ran".
-/
import GoSecs.Lemmas.RouterCount

set_option linter.unusedSimpArgs false

namespace GoSecs.Router

/-- a counter `μ` that every step moves by the change of one sender's contribution `g` equals the sum of the
    contributions of the senders that have begun -/
theorem ledger_apply (μ : Cfg → Int) (g : Sender → Nat) (c : Cfg) (a : Action) (he : enabled c a = true)
    (hst : StartedOk c)
    (hδn : touched c a = none → μ (apply c a) = μ c)
    (hδs : ∀ i w, touched c a = some (i, w) → μ (apply c a) + (g (c.s i) : Int) = μ c + (g w : Int))
    (hz : ∀ j, (c.s j).pc = .new → g (c.s j) = 0)
    (hz' : ∀ j, ((apply c a).s j).pc = .new → g ((apply c a).s j) = 0)
    (h : μ c = (((c.started.map (fun j => g (c.s j))).sum : Nat) : Int)) :
    μ (apply c a) = ((((apply c a).started.map (fun j => g ((apply c a).s j))).sum : Nat) : Int) := by
  by_cases hb : ∃ i k, a = .begin i k
  · obtain ⟨i, k, rfl⟩ := hb
    simp only [enabled, decide_eq_true_eq] at he
    have hnot : i ∉ c.started := by rw [hst.mem]; simp [he]
    have hta : ∃ w, touched c (.begin i k) = some (i, w) := ⟨_, rfl⟩
    obtain ⟨w, hta⟩ := hta
    have hd := hδs i w hta
    have hs : (apply c (.begin i k)).s = upd c.s i w := by rw [apply_s, hta]
    rw [apply_started, hs]
    simp only [List.map_cons, List.sum_cons, upd_same]
    have := sum_upd c.s i w g c.started hst.nodup
    simp only [hnot, if_false] at this
    have h0 : (g (c.s i) : Int) = 0 := by rw [hz i he]; rfl
    rw [h0, h] at hd
    push_cast
    rw [this]
    omega
  · have hnb : ∀ j k, a ≠ .begin j k := fun j k hk => hb ⟨j, k, hk⟩
    have hstd : (apply c a).started = c.started := by
      rw [apply_started]
      cases a <;> first | rfl | exact absurd rfl (hnb _ _)
    rw [hstd]
    cases hta : touched c a with
    | none =>
      have : (apply c a).s = c.s := by rw [apply_s, hta]
      rw [hδn hta, h, this]
    | some p =>
      obtain ⟨i, w⟩ := p
      have hs : (apply c a).s = upd c.s i w := by rw [apply_s, hta]
      have hd := hδs i w hta
      rw [h] at hd
      rw [hs]
      have := sum_upd c.s i w g c.started hst.nodup
      rw [this]
      by_cases hi : i ∈ c.started
      · simp only [hi, if_true]; omega
      · have hn : (c.s i).pc = .new := by
          cases hp : (c.s i).pc <;> first | rfl | exact absurd ((hst.mem i).mpr (by simp [hp])) hi
        have h0 := hz i hn
        have hw : w = (apply c a).s i := by rw [hs]; simp
        have hn' := stays_new c a he i hn (hnb i)
        have h0' := hz' i hn'
        rw [← hw] at h0'
        rw [h0, h0'] at hd
        simp only [hi, if_false]
        omega

/-! ## the five ledgers -/

def sumOver (c : Cfg) (g : Sender → Nat) : Nat := (c.started.map (fun j => g (c.s j))).sum

/-- in-flight indicator: a W-bit data sender whose write returned and whose deferred decrement has not run -/
def Sender.inflight (w : Sender) : Bool := w.kind = .sync && (w.pc = .waiting || w.pc = .decided)

structure LedgerOk (c : Cfg) : Prop where
  inflight : c.m.inflight = (sumOver c (fun w => b2n w.inflight) : Int)
  sent : (c.m.sent : Int) = (sumOver c (·.dSent) : Int)
  err : (c.m.err : Int) = (sumOver c (·.dErr) : Int)
  drop : (c.m.drop : Int) = (sumOver c (·.dDrop) : Int)
  asyncErr : (c.m.asyncErr : Int) = (sumOver c (·.dAsyncErr) : Int)

theorem ledgerOk_init : LedgerOk init := by
  constructor <;> simp [init, sumOver]


/-! ### how each step moves each counter: by the change of exactly one sender's contribution -/

/-- finishing tactic of the delta lemmas -/
macro "delta_fin" : tactic => `(tactic| (
  all_goals (try unfold_after)
  all_goals (repeat' split)
  all_goals (try dsimp only)
  all_goals (try (simp; done))
  all_goals (try (push_cast; omega))
  all_goals (try (simp_all; done))
  all_goals (try (simp_all; push_cast; omega))))



/-! ### how each step moves each counter: by the change of exactly one sender's contribution -/

macro "sender_cases0" ht:ident : tactic => `(tactic| (
  all_goals (simp only [touched, reduceCtorEq] at $ht:ident)
  all_goals (try simp only [Option.some.injEq, Prod.mk.injEq] at $ht:ident)
  all_goals (obtain ⟨h1, h2⟩ := $ht:ident; subst h1; subst h2)))

macro "delta_fin" : tactic => `(tactic| (
  all_goals (try unfold_after)
  all_goals (repeat' split)
  all_goals (try dsimp only)
  all_goals (try (simp_all [b2n, Sender.inflight]; done))
  all_goals (try omega)
  all_goals (try (simp_all [b2n, Sender.inflight]; omega))))

theorem counters_none (c : Cfg) (a : Action) (ht : touched c a = none) :
    (apply c a).m.err = c.m.err ∧ (apply c a).m.sent = c.m.sent ∧ (apply c a).m.drop = c.m.drop ∧
    (apply c a).m.asyncErr = c.m.asyncErr ∧ (apply c a).m.inflight = c.m.inflight := by
  rw [apply_err, apply_sent, apply_drop, apply_asyncErr, apply_inflight]
  cases a <;> simp only [touched, reduceCtorEq] at ht <;> simp only [and_self]
  case drain e ok => cases hq : c.queue e <;> simp_all

theorem err_delta (c : Cfg) (a : Action) (i : Nat) (w : Sender) (ht : touched c a = some (i, w)) :
    (apply c a).m.err + (c.s i).dErr = c.m.err + w.dErr := by
  cases a
  all_goals (rw [apply_err]; try simp only [])
  case drain e ok => obtain ⟨rest, hq, rfl⟩ := touched_drain c e ok i w ht; delta_fin
  case recv e f => obtain ⟨r, _, rfl⟩ := touched_recv c e f i w ht; delta_fin
  sender_cases0 ht
  case write i ok => rcases xmitRes_cases c (c.s i).ep ok with ⟨hx, _⟩ | hx <;> simp only [hx] <;> delta_fin
  case decide i ch => cases ch <;> delta_fin
  case wcheck i => rcases checkRes_cases c (c.s i).ep (c.s i).kind.isData with hc | hc | ⟨hc, _⟩ <;> simp only [hc] <;> delta_fin
  all_goals delta_fin


theorem sent_delta (c : Cfg) (a : Action) (i : Nat) (w : Sender) (ht : touched c a = some (i, w)) :
    (apply c a).m.sent + (c.s i).dSent = c.m.sent + w.dSent := by
  cases a
  all_goals (rw [apply_sent]; try simp only [])
  case drain e ok => obtain ⟨rest, hq, rfl⟩ := touched_drain c e ok i w ht; simp only [hq]; delta_fin
  case recv e f => obtain ⟨r, _, rfl⟩ := touched_recv c e f i w ht; delta_fin
  sender_cases0 ht
  case write i ok => rcases xmitRes_cases c (c.s i).ep ok with ⟨hx, _⟩ | hx <;> simp only [hx] <;> delta_fin
  case decide i ch => cases ch <;> delta_fin
  case wcheck i => rcases checkRes_cases c (c.s i).ep (c.s i).kind.isData with hc | hc | ⟨hc, _⟩ <;> simp only [hc] <;> delta_fin
  all_goals delta_fin

theorem drop_delta (c : Cfg) (a : Action) (i : Nat) (w : Sender) (ht : touched c a = some (i, w)) :
    (apply c a).m.drop + (c.s i).dDrop = c.m.drop + w.dDrop := by
  cases a
  all_goals (rw [apply_drop]; try simp only [])
  case drain e ok => obtain ⟨rest, hq, rfl⟩ := touched_drain c e ok i w ht; simp only [hq]; delta_fin
  case recv e f => obtain ⟨r, _, rfl⟩ := touched_recv c e f i w ht; delta_fin
  sender_cases0 ht
  case write i ok => rcases xmitRes_cases c (c.s i).ep ok with ⟨hx, _⟩ | hx <;> simp only [hx] <;> delta_fin
  case decide i ch => cases ch <;> delta_fin
  case wcheck i => rcases checkRes_cases c (c.s i).ep (c.s i).kind.isData with hc | hc | ⟨hc, _⟩ <;> simp only [hc] <;> delta_fin
  all_goals delta_fin

theorem asyncErr_delta (c : Cfg) (a : Action) (i : Nat) (w : Sender) (ht : touched c a = some (i, w)) :
    (apply c a).m.asyncErr + (c.s i).dAsyncErr = c.m.asyncErr + w.dAsyncErr := by
  cases a
  all_goals (rw [apply_asyncErr]; try simp only [])
  case drain e ok => obtain ⟨rest, hq, rfl⟩ := touched_drain c e ok i w ht; simp only [hq]; delta_fin
  case recv e f => obtain ⟨r, _, rfl⟩ := touched_recv c e f i w ht; delta_fin
  sender_cases0 ht
  case write i ok => rcases xmitRes_cases c (c.s i).ep ok with ⟨hx, _⟩ | hx <;> simp only [hx] <;> delta_fin
  case decide i ch => cases ch <;> delta_fin
  case wcheck i => rcases checkRes_cases c (c.s i).ep (c.s i).kind.isData with hc | hc | ⟨hc, _⟩ <;> simp only [hc] <;> delta_fin
  all_goals delta_fin

theorem inflight_delta (c : Cfg) (a : Action) (he : enabled c a = true) (hp : ∀ j, PcOk (c.s j)) (i : Nat) (w : Sender)
    (ht : touched c a = some (i, w)) :
    (apply c a).m.inflight + (b2n (c.s i).inflight : Nat) = c.m.inflight + (b2n w.inflight : Nat) := by
  have hpi := hp i
  cases a
  all_goals (rw [apply_inflight]; try simp only [])
  case drain e ok => obtain ⟨rest, hq, rfl⟩ := touched_drain c e ok i w ht; delta_fin
  case recv e f => obtain ⟨r, _, rfl⟩ := touched_recv c e f i w ht; delta_fin
  sender_cases he ht
  case write i ok => rcases xmitRes_cases c (c.s i).ep ok with ⟨hx, _⟩ | hx <;> simp only [hx] <;> delta_fin
  case decide i ch => cases ch <;> delta_fin
  case wcheck i =>
    rcases checkRes_cases c (c.s i).ep (c.s i).kind.isData with hc | hc | ⟨hc, _⟩ <;> simp only [hc] <;>
      (rcases he with ⟨he1, he2⟩ | ⟨he1, he2⟩) <;> delta_fin
  all_goals delta_fin


/-! ### the counting bundle -/

structure CInv (c : Cfg) : Prop where
  inv : Inv c
  started : StartedOk c
  cntPc : ∀ j, CntPc (c.s j)
  cntOut : ∀ j, CntOut (c.s j)
  cntSent : ∀ j, CntSent (c.s j)
  sent : SentOk c
  recv : RecvOk c
  retry : RetryOk c
  ledger : LedgerOk c

theorem inflight_new (w : Sender) (h : w.pc = .new) : b2n w.inflight = 0 := by
  simp [Sender.inflight, h, b2n]

theorem ledger_nat (μ : Cfg → Nat) (g : Sender → Nat) (c : Cfg) (a : Action) (he : enabled c a = true)
    (hst : StartedOk c)
    (hδn : touched c a = none → μ (apply c a) = μ c)
    (hδs : ∀ i w, touched c a = some (i, w) → μ (apply c a) + g (c.s i) = μ c + g w)
    (hz : ∀ j, (c.s j).pc = .new → g (c.s j) = 0)
    (hz' : ∀ j, ((apply c a).s j).pc = .new → g ((apply c a).s j) = 0)
    (h : (μ c : Int) = (((c.started.map (fun j => g (c.s j))).sum : Nat) : Int)) :
    (μ (apply c a) : Int) = ((((apply c a).started.map (fun j => g ((apply c a).s j))).sum : Nat) : Int) :=
  ledger_apply (fun c => (μ c : Int)) g c a he hst
    (fun ht => by show (μ (apply c a) : Int) = (μ c : Int); rw [hδn ht])
    (fun i w ht => by
      have := hδs i w ht
      show (μ (apply c a) : Int) + (g (c.s i) : Int) = (μ c : Int) + (g w : Int)
      omega) hz hz' h

theorem ledgerOk_apply (c : Cfg) (a : Action) (he : enabled c a = true) (hi : Inv c) (hst : StartedOk c)
    (hc : ∀ j, CntPc (c.s j)) (hc' : ∀ j, CntPc ((apply c a).s j)) (h : LedgerOk c) : LedgerOk (apply c a) := by
  obtain ⟨l1, l2, l3, l4, l5⟩ := h
  have hn := fun ht => counters_none c a ht
  constructor
  · exact ledger_apply (fun c => c.m.inflight) (fun w => b2n w.inflight) c a he hst
      (fun ht => (hn ht).2.2.2.2) (fun i w ht => inflight_delta c a he hi.pc i w ht)
      (fun j hj => inflight_new _ hj) (fun j hj => inflight_new _ hj) l1
  · exact ledger_nat (fun c => c.m.sent) (·.dSent) c a he hst
      (fun ht => (hn ht).2.1) (fun i w ht => sent_delta c a i w ht)
      (fun j hj => ((hc j).fresh hj).1) (fun j hj => ((hc' j).fresh hj).1) l2
  · exact ledger_nat (fun c => c.m.err) (·.dErr) c a he hst
      (fun ht => (hn ht).1) (fun i w ht => err_delta c a i w ht)
      (fun j hj => ((hc j).fresh hj).2.1) (fun j hj => ((hc' j).fresh hj).2.1) l3
  · exact ledger_nat (fun c => c.m.drop) (·.dDrop) c a he hst
      (fun ht => (hn ht).2.2.1) (fun i w ht => drop_delta c a i w ht)
      (fun j hj => ((hc j).fresh hj).2.2.1) (fun j hj => ((hc' j).fresh hj).2.2.1) l4
  · exact ledger_nat (fun c => c.m.asyncErr) (·.dAsyncErr) c a he hst
      (fun ht => (hn ht).2.2.2.1) (fun i w ht => asyncErr_delta c a i w ht)
      (fun j hj => ((hc j).fresh hj).2.2.2) (fun j hj => ((hc' j).fresh hj).2.2.2) l5

theorem cinv_init : CInv init :=
  ⟨inv_init, startedOk_init, cntPc_init, cntOut_init, cntSent_init, sentOk_init, recvOk_init, retryOk_init, ledgerOk_init⟩

theorem cinv_apply (c : Cfg) (a : Action) (he : enabled c a = true) (h : CInv c) : CInv (apply c a) :=
  have hpc' := cntPc_apply c a he h.inv.queue h.cntPc
  ⟨inv_apply c a he h.inv, startedOk_apply c a he h.started, hpc',
   cntOut_apply c a he h.inv.pc h.inv.queue h.cntPc h.cntOut, cntSent_apply c a he h.inv.pc h.inv.queue h.cntPc h.cntSent,
   sentOk_apply c a h.sent, recvOk_apply c a h.recv, retryOk_apply c a he h.retry,
   ledgerOk_apply c a he h.inv h.started h.cntPc hpc' h.ledger⟩

theorem cinv_step (c : Cfg) (a : Action) (h : CInv c) : CInv (step c a) :=
  step_of_apply c a h (fun he => cinv_apply c a he h)

theorem cinv_reachable {c : Cfg} (hr : Reachable c) : CInv c :=
  reachable_of_inv cinv_init cinv_step hr

/-- a sum of 0/1 indicators is the length of the filtered list -/
theorem sum_b2n (l : List Nat) (p : Nat → Bool) : (l.map (fun j => b2n (p j))).sum = (l.filter p).length := by
  induction l with
  | nil => rfl
  | cons x l ih =>
    simp only [List.map_cons, List.sum_cons, List.filter_cons, ih]
    cases p x <;> simp [b2n] <;> omega


end GoSecs.Router
