/-
  Helper lemmas for the router model: characterisation of `apply` field by field, the lifting of step
  invariants to every interleaving, and the invariants themselves.  Core Lean only.
-/
import GoSecs.Model.Router

namespace GoSecs.Router

/-! ## lifting -/

theorem run_append (c : Cfg) (as bs : List Action) : run c (as ++ bs) = run (run c as) bs := by
  induction as generalizing c with
  | nil => rfl
  | cons a as ih => simp [run, ih]

/-- A property preserved by every step holds after every interleaving. -/
theorem inv_run {P : Cfg → Prop} (hstep : ∀ c a, P c → P (step c a)) : ∀ (as : List Action) (c : Cfg), P c → P (run c as)
  | [], _, h => h
  | a :: as, c, h => inv_run hstep as (step c a) (hstep c a h)

/-- Reachable configurations: `run init as` for some finite action list. -/
def Reachable (c : Cfg) : Prop := ∃ as, c = run init as

theorem reachable_of_inv {P : Cfg → Prop} (h0 : P init) (hstep : ∀ c a, P c → P (step c a)) {c : Cfg} (hr : Reachable c) : P c := by
  obtain ⟨as, rfl⟩ := hr
  exact inv_run hstep as init h0

theorem Reachable.step {c : Cfg} (h : Reachable c) (a : Action) : Reachable (step c a) := by
  obtain ⟨as, rfl⟩ := h
  exact ⟨as ++ [a], by simp [run_append, run]⟩

/-- Step invariant from an `apply` invariant (a disabled action changes nothing). -/
theorem step_of_apply {P : Cfg → Prop} (c : Cfg) (a : Action) (h : P c) (ha : enabled c a = true → P (apply c a)) : P (step c a) := by
  unfold step
  by_cases he : enabled c a = true
  · simp only [he, if_true]; exact ha he
  · simp only [he]; exact h

/-! ## `apply`, field by field -/

theorem upd_apply {β : Type} (f : Nat → β) (k x : Nat) (v : β) : upd f k v x = if x = k then v else f x := rfl

theorem upd2_apply {β : Type} (f : Nat → Nat → β) (e k : Nat) (v : β) (e' k' : Nat) :
    upd f e (upd (f e) k v) e' k' = if e' = e ∧ k' = k then v else f e' k' := by
  unfold upd
  by_cases h1 : e' = e <;> by_cases h2 : k' = k <;> simp [h1, h2]

@[simp] theorem setS_s (c : Cfg) (i : Nat) (w : Sender) : (setS c i w).s = upd c.s i w := rfl
@[simp] theorem setS_reg (c : Cfg) (i : Nat) (w : Sender) : (setS c i w).reg = c.reg := rfl
@[simp] theorem setS_ep (c : Cfg) (i : Nat) (w : Sender) : (setS c i w).ep = c.ep := rfl
@[simp] theorem setS_cur (c : Cfg) (i : Nat) (w : Sender) : (setS c i w).cur = c.cur := rfl
@[simp] theorem setS_m (c : Cfg) (i : Nat) (w : Sender) : (setS c i w).m = c.m := rfl
@[simp] theorem setS_wire (c : Cfg) (i : Nat) (w : Sender) : (setS c i w).wire = c.wire := rfl
@[simp] theorem setS_deliv (c : Cfg) (i : Nat) (w : Sender) : (setS c i w).deliv = c.deliv := rfl
@[simp] theorem setS_gen (c : Cfg) (i : Nat) (w : Sender) : (setS c i w).gen = c.gen := rfl
@[simp] theorem setS_queue (c : Cfg) (i : Nat) (w : Sender) : (setS c i w).queue = c.queue := rfl
@[simp] theorem setS_started (c : Cfg) (i : Nat) (w : Sender) : (setS c i w).started = c.started := rfl
@[simp] theorem setS_nEpochs (c : Cfg) (i : Nat) (w : Sender) : (setS c i w).nEpochs = c.nEpochs := rfl
@[simp] theorem setS_selected (c : Cfg) (i : Nat) (w : Sender) : (setS c i w).selected = c.selected := rfl
@[simp] theorem setS_handlers (c : Cfg) (i : Nat) (w : Sender) : (setS c i w).handlers = c.handlers := rfl
@[simp] theorem setS_loops (c : Cfg) (i : Nat) (w : Sender) : (setS c i w).loops = c.loops := rfl

/-- The only sender record an action can rewrite, with the new record. -/
def touched (c : Cfg) : Action → Option (Nat × Sender)
  | .cancel i => some (i, { c.s i with cancelled := true })
  | .begin i k => some (i, { c.s i with kind := k, pc := .begun, raw := c.gen + 1, sb := (c.gen + 1) % wrap })
  | .pin i => some (i, (c.s i).afterPin c.cur)
  | .gate i => some (i, (c.s i).afterGate c.selected)
  | .register i => some (i, { c.s i with pc := .registered, chan := none })
  | .wcheck i => some (i, (c.s i).afterCheck (checkRes c (c.s i).ep (c.s i).kind.isData))
  | .write i ok => some (i, (c.s i).afterWrite (xmitRes c (c.s i).ep ok))
  | .incInflight i => some (i, { c.s i with pc := .waiting })
  | .decide i ch => some (i, (c.s i).afterDecide ch)
  | .decInflight i => some (i, { c.s i with pc := .unwinding })
  | .deregister i => some (i, { c.s i with pc := .done })
  | .enqueue i ch => some (i, (c.s i).afterEnqueue ch)
  | .drain e ok => match c.queue e with
    | [] => none
    | i :: _ => some (i, (c.s i).afterDrain (drainRes c e ok))
  | .recv _ f => match (dispatch c f).2 with
    | none => none
    | some (i, r) => some (i, { c.s i with chan := some r })
  | _ => none

theorem apply_s (c : Cfg) (a : Action) : (apply c a).s = match touched c a with
    | none => c.s
    | some (i, w) => upd c.s i w := by
  cases a <;> simp only [apply, touched, setS_s]
  case connUp => split <;> rfl
  case write i ok => cases xmitRes c (c.s i).ep ok <;> rfl
  case drain e ok =>
    cases c.queue e with
    | nil => rfl
    | cons i rest => rfl
  case recv e f =>
    cases (dispatch c f).2 with
    | none => rfl
    | some p => rfl

/-- A per-sender fact `Q` that every rewritten record satisfies is preserved. -/
theorem sender_step {Q : Sender → Prop} (c : Cfg) (a : Action) (h : ∀ j, Q (c.s j))
    (ht : ∀ i w, touched c a = some (i, w) → Q w) : ∀ j, Q ((apply c a).s j) := by
  intro j
  rw [apply_s]
  cases hta : touched c a with
  | none => exact h j
  | some p =>
    obtain ⟨i, w⟩ := p
    simp only [upd_apply]
    split
    · exact ht i w hta
    · exact h j


/-- closes the "other fields" characterisations: the field is untouched by `setS` and by the unrelated record updates -/
macro "field_cases" c:ident a:ident : tactic => `(tactic| (
  cases $a:ident <;> simp only [apply] <;> (try rfl) <;>
  first
    | (split <;> rfl)
    | (cases h : xmitRes $c _ _ <;> rfl)
    | (cases h : (dispatch $c _).2 <;> rfl)
    | (cases h : Cfg.cur $c <;> rfl)
    | (cases h : Cfg.queue $c _ <;> rfl)
    | skip))

theorem apply_reg (c : Cfg) (a : Action) : (apply c a).reg = match a with
    | .register i => upd c.reg (c.s i).ep (upd (c.reg (c.s i).ep) (c.s i).sb (some i))
    | .deregister i => upd c.reg (c.s i).ep (upd (c.reg (c.s i).ep) (c.s i).sb none)
    | _ => c.reg := by
  field_cases c a

theorem apply_cur (c : Cfg) (a : Action) : (apply c a).cur = match a with
    | .publish => some c.nEpochs
    | _ => c.cur := by
  field_cases c a

theorem apply_nEpochs (c : Cfg) (a : Action) : (apply c a).nEpochs = match a with
    | .publish => c.nEpochs + 1
    | _ => c.nEpochs := by
  field_cases c a

theorem apply_ep (c : Cfg) (a : Action) : (apply c a).ep = match a with
    | .connUp => (match c.cur with
      | none => c.ep
      | some e => upd c.ep e { c.ep e with connOpen := true })
    | .teardown e => upd c.ep e { c.ep e with ctxDone := true, connOpen := false }
    | .join e => upd c.ep e { c.ep e with joined := true }
    | _ => c.ep := by
  field_cases c a

theorem apply_gen (c : Cfg) (a : Action) : (apply c a).gen = match a with
    | .begin _ _ => c.gen + 1
    | _ => c.gen := by
  field_cases c a

theorem apply_started (c : Cfg) (a : Action) : (apply c a).started = match a with
    | .begin i _ => i :: c.started
    | _ => c.started := by
  field_cases c a

theorem apply_selected (c : Cfg) (a : Action) : (apply c a).selected = match a with
    | .setSelected b => b
    | _ => c.selected := by
  field_cases c a

theorem apply_handlers (c : Cfg) (a : Action) : (apply c a).handlers = match a with
    | .addHandler => c.handlers + 1
    | _ => c.handlers := by
  field_cases c a

theorem apply_deliv (c : Cfg) (a : Action) : (apply c a).deliv = match a with
    | .recv e f => ⟨e, c.cur, f, (dispatch c f).1⟩ :: c.deliv
    | _ => c.deliv := by
  field_cases c a

theorem apply_wire (c : Cfg) (a : Action) : (apply c a).wire = match a with
    | .write i ok => if xmitRes c (c.s i).ep ok = .ok
        then { sock := (c.s i).ep, src := i, sb := (c.s i).sb, data := (c.s i).kind.isData } :: c.wire else c.wire
    | .drain e ok => (match c.queue e with
      | [] => c.wire
      | i :: _ => if drainRes c e ok = .ok then { sock := e, src := i, sb := (c.s i).sb, data := true } :: c.wire else c.wire)
    | _ => c.wire := by
  field_cases c a

theorem apply_queue (c : Cfg) (a : Action) : (apply c a).queue = match a with
    | .enqueue i ch => if ch = .recv then upd c.queue (c.s i).ep (c.queue (c.s i).ep ++ [i]) else c.queue
    | .drain e _ => (match c.queue e with
      | [] => c.queue
      | _ :: rest => upd c.queue e rest)
    | _ => c.queue := by
  field_cases c a


theorem checkRes_cases (c : Cfg) (e : Nat) (d : Bool) :
    checkRes c e d = .ok ∨ checkRes c e d = .closed ∨ (checkRes c e d = .notSelected ∧ d = true) := by
  unfold checkRes
  repeat' split
  all_goals simp_all

theorem xmitRes_cases (c : Cfg) (e : Nat) (ok : Bool) :
    (xmitRes c e ok = .ok ∧ (c.ep e).connOpen = true) ∨ xmitRes c e ok = .err := by
  unfold xmitRes
  split <;> simp_all

theorem drainRes_cases (c : Cfg) (e : Nat) (ok : Bool) :
    (drainRes c e ok = .ok ∧ (c.ep e).connOpen = true ∧ (c.ep e).ctxDone = false) ∨ drainRes c e ok = .closed ∨
    drainRes c e ok = .notSelected ∨ drainRes c e ok = .err := by
  unfold drainRes
  rcases checkRes_cases c e true with h | h | ⟨h, _⟩
  · rw [h]
    rcases xmitRes_cases c e ok with ⟨h2, h3⟩ | h2
    · left
      refine ⟨h2, h3, ?_⟩
      unfold checkRes at h
      repeat' split at h
      all_goals simp_all
    · simp [h2]
  · simp [h]
  · simp [h]

/-! ## tactics for per-sender invariants -/

/-- unfold the thread-local transition functions -/
macro "unfold_after" : tactic => `(tactic| (
    (try unfold Sender.afterPin); (try unfold Sender.afterGate); (try unfold Sender.afterCheck); (try unfold Sender.afterWrite)
    (try unfold Sender.afterDecide); (try unfold Sender.afterEnqueue); (try unfold Sender.afterDrain)
    (try unfold Sender.leave); (try unfold Sender.finish)))

theorem touched_drain (c : Cfg) (e : Nat) (ok : Bool) (i : Nat) (w : Sender) (ht : touched c (.drain e ok) = some (i, w)) :
    ∃ rest, c.queue e = i :: rest ∧ w = (c.s i).afterDrain (drainRes c e ok) := by
  simp only [touched] at ht
  cases hq : c.queue e with
  | nil => simp [hq] at ht
  | cons i0 rest =>
    simp only [hq, Option.some.injEq, Prod.mk.injEq] at ht
    obtain ⟨rfl, rfl⟩ := ht
    exact ⟨rest, rfl, rfl⟩

theorem touched_recv (c : Cfg) (e : Nat) (f : Frame) (i : Nat) (w : Sender) (ht : touched c (.recv e f) = some (i, w)) :
    ∃ r, (dispatch c f).2 = some (i, r) ∧ w = { c.s i with chan := some r } := by
  simp only [touched] at ht
  cases hd : (dispatch c f).2 with
  | none => simp [hd] at ht
  | some p =>
    obtain ⟨i0, r⟩ := p
    simp only [hd, Option.some.injEq, Prod.mk.injEq] at ht
    obtain ⟨rfl, rfl⟩ := ht
    exact ⟨r, rfl, rfl⟩

/-- After `cases a` and separate treatment of `drain` / `recv`: for every remaining action, rewrite
    `ht : touched c a = some (i, w)` into the concrete new record (closing the actions that touch no sender)
    and simplify the guard `he`. -/
macro "sender_cases" he:ident ht:ident : tactic => `(tactic| (
  all_goals (simp only [touched, reduceCtorEq] at $ht:ident)
  all_goals (try simp only [enabled, Bool.and_eq_true, Bool.or_eq_true, decide_eq_true_eq, Bool.not_eq_true',
    Bool.not_eq_eq_eq_not, Bool.not_true] at $he:ident)
  all_goals (try simp only [Option.some.injEq, Prod.mk.injEq] at $ht:ident)
  all_goals (obtain ⟨h1, h2⟩ := $ht:ident; subst h1; subst h2)))

/-! ## I-pc: program counter / outcome / kind discipline (per sender) -/

def Pc.open (p : Pc) : Bool :=
  p = .registered || p = .checked || p = .written || p = .waiting || p = .decided || p = .unwinding

/-- facts about one sender record that only its own steps can change -/
structure PcOk (w : Sender) : Prop where
  fresh : w.pc = .new → w.out = none ∧ w.chan = none
  out_iff : (w.pc = .decided ∨ w.pc = .unwinding ∨ w.pc = .done) ↔ w.out ≠ none
  corr : (w.pc = .registered ∨ w.pc = .written ∨ w.pc = .waiting ∨ w.pc = .decided ∨ w.pc = .unwinding) → w.kind.correlates = true
  checked : w.pc = .checked → w.kind.correlates = true ∨ w.kind = .ff
  sb_raw : w.pc ≠ .new → w.sb = w.raw % wrap ∧ 1 ≤ w.raw

theorem pcOk_init (j : Nat) : PcOk (init.s j) := by
  constructor <;> simp [init]

/-- I-reg: a registry entry points at an open sender of that epoch with those system bytes -/
def RegOk (c : Cfg) : Prop :=
  ∀ e sb i, c.reg e sb = some i → (c.s i).ep = e ∧ (c.s i).sb = sb ∧ (c.s i).pc.open = true ∧ (c.s i).kind.correlates = true

theorem dispatch_target (c : Cfg) (f : Frame) (i : Nat) (r : Res) (h : (dispatch c f).2 = some (i, r)) :
    ∃ sb, f.offer = some (sb, r) ∧ lookup c sb = some i ∧ (c.s i).chan = none ∧ f.matches (c.s i).kind = true := by
  unfold dispatch at h
  split at h
  · simp at h
  · split at h
    · simp at h
    · rename_i sb r' hoff
      split at h
      · simp at h
      · rename_i j hl
        split at h
        · rename_i hm
          simp only at h
          split at h
          · rename_i hc
            simp only [Option.some.injEq, Prod.mk.injEq] at h
            obtain ⟨rfl, rfl⟩ := h
            exact ⟨sb, hoff, hl, by simpa using hc, hm⟩
          · simp at h
        · simp at h

theorem lookup_reg (c : Cfg) (sb i : Nat) (h : lookup c sb = some i) : ∃ ce, c.cur = some ce ∧ c.reg ce sb = some i := by
  unfold lookup at h
  split at h
  · simp at h
  · rename_i ce hc
    exact ⟨ce, hc, h⟩

theorem pcOk_apply (c : Cfg) (a : Action) (he : enabled c a = true) (h : ∀ j, PcOk (c.s j)) (hr : RegOk c) :
    ∀ j, PcOk ((apply c a).s j) := by
  apply sender_step c a h
  intro i w ht
  have hi := h i
  cases a
  case drain e ok =>
    obtain ⟨rest, _, rfl⟩ := touched_drain c e ok i w ht
    obtain ⟨f1, f2, f3, f4, f5⟩ := hi
    unfold Sender.afterDrain
    split <;> constructor <;> simp_all
  case recv e f =>
    obtain ⟨r, hd, rfl⟩ := touched_recv c e f i w ht
    obtain ⟨sb, _, hl, _, _⟩ := dispatch_target c f i r hd
    obtain ⟨ce, _, hreg⟩ := lookup_reg c sb i hl
    have hopen := (hr ce sb i hreg).2.2.1
    obtain ⟨f1, f2, f3, f4, f5⟩ := hi
    constructor <;> simp_all [Pc.open]
    intro hn; simp [hn] at hopen
  sender_cases he ht
  all_goals (obtain ⟨f1, f2, f3, f4, f5⟩ := hi)
  all_goals unfold_after
  all_goals (try (rcases he with ⟨he1, he2⟩ | ⟨he1, he2⟩))
  all_goals (repeat' split)
  all_goals (constructor <;> simp_all [Kind.correlates])


/-- no step of an open sender other than its own deregister closes it or changes its registry key;
    register is the step that opens it -/
theorem touched_keeps_open (c : Cfg) (a : Action) (i : Nat) (w : Sender) (he : enabled c a = true)
    (ht : touched c a = some (i, w)) (hopen : (c.s i).pc.open = true) (hk : (c.s i).pc = .checked → (c.s i).kind.correlates = true)
    (hd : ∀ j, a ≠ .deregister j) :
    w.ep = (c.s i).ep ∧ w.sb = (c.s i).sb ∧ w.pc.open = true ∧ w.kind = (c.s i).kind := by
  cases a
  case drain e ok =>
    obtain ⟨rest, _, rfl⟩ := touched_drain c e ok i w ht
    unfold Sender.afterDrain
    split <;> simp_all
  case recv e f =>
    obtain ⟨r, _, rfl⟩ := touched_recv c e f i w ht
    simp_all
  case deregister j => exact absurd rfl (hd j)
  sender_cases he ht
  all_goals unfold_after
  all_goals (try (rcases he with ⟨he1, he2⟩ | ⟨he1, he2⟩))
  all_goals (repeat' split)
  all_goals (simp_all [Pc.open])

theorem regOk_init : RegOk init := by
  intro e sb i h; simp [init] at h

theorem regOk_apply (c : Cfg) (a : Action) (he : enabled c a = true) (hr : RegOk c) : RegOk (apply c a) := by
  intro e sb j hreg
  rw [apply_reg] at hreg
  rw [apply_s]
  by_cases hreg_a : (∃ i, a = .register i) ∨ (∃ i, a = .deregister i)
  · rcases hreg_a with ⟨i, rfl⟩ | ⟨i, rfl⟩
    · -- register i
      simp only [enabled, Bool.and_eq_true, decide_eq_true_eq] at he
      simp only [touched, upd_apply, upd2_apply] at hreg ⊢
      by_cases h12 : e = (c.s i).ep ∧ sb = (c.s i).sb
      · simp only [h12, and_self, if_true, Option.some.injEq] at hreg
        subst hreg
        simp [Pc.open, h12.1, h12.2, he.2]
      · simp only [h12, if_false] at hreg
        obtain ⟨r1, r2, r3, r4⟩ := hr _ _ _ hreg
        by_cases hj : j = i
        · subst hj; simp [he.1, Pc.open] at r3
        · simp [hj, r1, r2, r3, r4]
    · -- deregister i
      simp only [enabled, decide_eq_true_eq] at he
      simp only [touched, upd_apply, upd2_apply] at hreg ⊢
      by_cases h12 : e = (c.s i).ep ∧ sb = (c.s i).sb
      · simp [h12] at hreg
      · simp only [h12, if_false] at hreg
        obtain ⟨r1, r2, r3, r4⟩ := hr _ _ _ hreg
        by_cases hj : j = i
        · subst hj; exact absurd ⟨r1.symm, r2.symm⟩ h12
        · simp [hj, r1, r2, r3, r4]
  · have hreg' : c.reg e sb = some j := by
      cases a <;> first | exact hreg | (exfalso; exact hreg_a (by simp))
    obtain ⟨r1, r2, r3, r4⟩ := hr _ _ _ hreg'
    cases hta : touched c a with
    | none => simp [r1, r2, r3, r4]
    | some p =>
      obtain ⟨i, w⟩ := p
      simp only [upd_apply]
      by_cases hj : j = i
      · subst hj
        simp only [if_true]
        obtain ⟨k1, k2, k3, k4⟩ := touched_keeps_open c a j w he hta r3 (fun _ => r4) (fun i h => hreg_a (Or.inr ⟨i, h⟩))
        simp [k1, k2, k3, k4, r1, r2, r4]
      · simp [hj, r1, r2, r3, r4]


/-! ## what a step can do to one sender record: monotone program counter, stable identity fields -/

def Pc.rank : Pc → Nat
  | .new => 0 | .begun => 1 | .pinned => 2 | .gated => 3 | .registered => 4 | .checked => 5
  | .written => 6 | .waiting => 7 | .decided => 8 | .unwinding => 9 | .done => 10

theorem touched_stable (c : Cfg) (a : Action) (i : Nat) (w : Sender) (he : enabled c a = true)
    (ht : touched c a = some (i, w)) :
    (c.s i).pc.rank ≤ w.pc.rank ∧
    ((c.s i).pc ≠ .new → w.kind = (c.s i).kind ∧ w.sb = (c.s i).sb ∧ w.raw = (c.s i).raw) ∧
    ((c.s i).pc ≠ .new → (c.s i).pc ≠ .begun → w.ep = (c.s i).ep) := by
  cases a
  case drain e ok =>
    obtain ⟨rest, _, rfl⟩ := touched_drain c e ok i w ht
    unfold Sender.afterDrain
    split <;> simp_all
  case recv e f =>
    obtain ⟨r, _, rfl⟩ := touched_recv c e f i w ht
    simp_all
  sender_cases he ht
  all_goals unfold_after
  all_goals (try (rcases he with ⟨he1, he2⟩ | ⟨he1, he2⟩))
  all_goals (repeat' split)
  all_goals (simp_all [Pc.rank])

end GoSecs.Router
