/-
  Decoder vs the E5 grammar: soundness and completeness lemmas (used by Props/C02).
-/
import GoSecs.Lemmas.Secs2
import GoSecs.Spec.E5Grammar

namespace GoSecs.Secs2

/-! ### numeric payload lemmas (decode direction) -/

theorem encNats_decNats (k : Nat) (hk : 0 < k) : ∀ (c : Nat) (bs : Bytes), bs.length = c * k →
    encNats k (decNats k c bs) = bs
  | 0, bs, h => by
    have : bs = [] := List.eq_nil_of_length_eq_zero (by simpa using h)
    simp [decNats, encNats, this]
  | c+1, bs, h => by
    have hlen : k ≤ bs.length := by rw [h, Nat.add_mul]; omega
    have ht : (bs.take k).length = k := by simp [List.length_take]; omega
    have hd : (bs.drop k).length = c * k := by simp [List.length_drop, h, Nat.add_mul]
    have := encNats_decNats k hk c (bs.drop k) hd
    simp only [decNats, encNats, this]
    have hb : beBytes k (beVal (bs.take k)) = bs.take k := by
      have := beBytes_beVal (bs.take k); rwa [ht] at this
    rw [hb, List.take_append_drop]

theorem decNats_lt (k : Nat) : ∀ (c : Nat) (bs : Bytes), bs.length = c * k →
    ∀ v ∈ decNats k c bs, v < 256 ^ k
  | 0, _, _ => by simp [decNats]
  | c+1, bs, h => by
    intro v hv
    simp only [decNats, List.mem_cons] at hv
    have hlen : k ≤ bs.length := by rw [h, Nat.add_mul]; omega
    rcases hv with rfl | hv
    · have := beVal_lt (bs.take k)
      have ht : (bs.take k).length = k := by simp [List.length_take]; omega
      rwa [ht] at this
    · exact decNats_lt k c (bs.drop k) (by simp [List.length_drop, h, Nat.add_mul]) v hv

theorem decNats_length (k : Nat) : ∀ (c : Nat) (bs : Bytes), (decNats k c bs).length = c
  | 0, _ => rfl
  | c+1, bs => by simp [decNats, decNats_length k c]

theorem intToU_intOfU (k : Nat) (hk : 0 < k) (u : Nat) (hu : u < 256 ^ k) : intToU k (intOfU k u) = u := by
  unfold intToU intOfU
  have hp : 0 < 256 ^ k := Nat.pow_pos (by omega)
  generalize 256 ^ k = M at *
  split
  · have : ((u : Int)) % (M : Int) = u := Int.emod_eq_of_lt (by omega) (by omega)
    rw [this]; simp
  · have : ((u : Int) - (M : Int)) % (M : Int) = u := by
      have h1 : ((u : Int) - (M : Int)) % (M : Int) = (u : Int) % (M : Int) := by simp
      rw [h1]; exact Int.emod_eq_of_lt (by omega) (by omega)
    rw [this]; simp

theorem intOfU_range (k : Nat) (hk : 0 < k) (u : Nat) (hu : u < 256 ^ k) :
    intLo k ≤ intOfU k u ∧ intOfU k u ≤ intHi k := by
  unfold intOfU intLo intHi
  have heven : 256 ^ k = 2 * (256 ^ k / 2) := by
    obtain ⟨j, rfl⟩ : ∃ j, k = j + 1 := ⟨k - 1, by omega⟩
    rw [Nat.pow_succ]; omega
  generalize 256 ^ k = M at *
  split <;> omega

theorem encInts_map_intOfU (k : Nat) (hk : 0 < k) (us : List Nat) (h : ∀ u ∈ us, u < 256 ^ k) :
    encInts k (us.map (intOfU k)) = encNats k us := by
  induction us with
  | nil => rfl
  | cons u us ih =>
    simp only [List.map_cons, encInts, encNats]
    rw [intToU_intOfU k hk u (h u (by simp)), ih (fun x hx => h x (by simp [hx]))]

/-! ### leaf soundness / completeness -/

theorem take_drop_of_not_lenLt (r : Bytes) (n : Nat) (h : lenLt r n = false) :
    r = r.take n ++ r.drop n ∧ (r.take n).length = n := by
  rw [lenLt_false_iff] at h
  exact ⟨(List.take_append_drop n r).symm, by simp [List.length_take]; omega⟩

theorem widthOfIntFc_some (fc : Nat) (w : Width) (h : widthOfIntFc fc = some w) : fc = fcInt w := by
  unfold widthOfIntFc at h
  (repeat' split at h) <;> cases h <;> simp_all [fcInt]
theorem widthOfUintFc_some (fc : Nat) (w : Width) (h : widthOfUintFc fc = some w) : fc = fcUint w := by
  unfold widthOfUintFc at h
  (repeat' split at h) <;> cases h <;> simp_all [fcUint]
theorem widthOfFloatFc_some (fc : Nat) (w : FWidth) (h : widthOfFloatFc fc = some w) : fc = fcFloat w := by
  unfold widthOfFloatFc at h
  (repeat' split at h) <;> cases h <;> simp_all [fcFloat]

/-- Everything `decLeaf` accepts is a grammatical leaf whose payload is exactly `n` bytes. -/
theorem decLeaf_sound (fc n : Nat) (r : Bytes) (it : Item) (r' : Bytes)
    (h : decLeaf fc n r = .ok (it, r')) :
    ∃ p, r = p ++ r' ∧ p.length = n ∧ LeafVal it fc p := by
  unfold decLeaf at h
  split at h
  · -- ascii
    split at h
    · cases h
    · rename_i hfc hl
      obtain ⟨h1, h2⟩ := take_drop_of_not_lenLt r n (by simpa using hl)
      injection h with h; injection h with ha hb; subst ha hb
      exact ⟨r.take n, h1, h2, hfc, rfl⟩
  · split at h
    · split at h
      · cases h
      · rename_i _ hfc hl
        obtain ⟨h1, h2⟩ := take_drop_of_not_lenLt r n (by simpa using hl)
        injection h with h; injection h with ha hb; subst ha hb
        exact ⟨r.take n, h1, h2, hfc, rfl⟩
    · split at h
      · split at h
        · cases h
        · rename_i _ _ hfc hl
          obtain ⟨h1, h2⟩ := take_drop_of_not_lenLt r n (by simpa using hl)
          injection h with h; injection h with ha hb; subst ha hb
          exact ⟨r.take n, h1, h2, hfc, rfl⟩
      · split at h
        · split at h
          · cases h
          · rename_i _ _ _ hfc hl
            obtain ⟨h1, h2⟩ := take_drop_of_not_lenLt r n (by simpa using hl)
            injection h with h; injection h with ha hb; subst ha hb
            exact ⟨r.take n, h1, h2, hfc, rfl⟩
        · split at h
          · -- lstr
            split at h
            · cases h
            · split at h
              · cases h
              · rename_i _ _ _ _ hfc hn hl
                obtain ⟨h1, h2⟩ := take_drop_of_not_lenLt r n (by simpa using hl)
                injection h with h; injection h with ha hb; subst ha hb
                refine ⟨r.take n, h1, h2, hfc, ?_⟩
                -- the payload has at least two bytes
                match hp : r.take n, h2 with
                | [], h2 => simp at h2; omega
                | [_], h2 => simp at h2; omega
                | a :: b :: rest, _ =>
                  refine ⟨a, b, ?_, ?_⟩
                  · have : (r.take 2) = [a, b] := by
                      have : r.take 2 = (r.take n).take 2 := by
                        rw [List.take_take]; congr 1; omega
                      rw [this, hp]; rfl
                    simp
                  · have : (r.take 2) = [a, b] := by
                      have : r.take 2 = (r.take n).take 2 := by
                        rw [List.take_take]; congr 1; omega
                      rw [this, hp]; rfl
                    rw [this]; simp [beVal]
          · -- numeric
            split at h
            · rename_i w hw
              have hfc := widthOfIntFc_some fc w hw
              split at h
              · cases h
              · split at h
                · cases h
                · rename_i hmod hl
                  obtain ⟨h1, h2⟩ := take_drop_of_not_lenLt r n (by simpa using hl)
                  injection h with h; injection h with ha hb; subst ha hb
                  have hp := w.bytes_pos
                  have hlen : (r.take n).length = n / w.bytes * w.bytes := by
                    rw [h2]; have : n % w.bytes = 0 := by simpa using hmod
                    exact (Nat.div_mul_cancel (Nat.dvd_of_mod_eq_zero this)).symm
                  have hlt := decNats_lt w.bytes _ _ hlen
                  refine ⟨r.take n, h1, h2, hfc, ?_, ?_⟩
                  · rw [encInts_map_intOfU w.bytes hp _ hlt, encNats_decNats w.bytes hp _ _ hlen]
                  · intro v hv
                    simp only [List.mem_map] at hv
                    obtain ⟨u, hu, rfl⟩ := hv
                    exact intOfU_range w.bytes hp u (hlt u hu)
            · split at h
              · rename_i w hw
                have hfc := widthOfUintFc_some fc w hw
                split at h
                · cases h
                · split at h
                  · cases h
                  · rename_i hmod hl
                    obtain ⟨h1, h2⟩ := take_drop_of_not_lenLt r n (by simpa using hl)
                    injection h with h; injection h with ha hb; subst ha hb
                    have hp := w.bytes_pos
                    have hlen : (r.take n).length = n / w.bytes * w.bytes := by
                      rw [h2]; have : n % w.bytes = 0 := by simpa using hmod
                      exact (Nat.div_mul_cancel (Nat.dvd_of_mod_eq_zero this)).symm
                    exact ⟨r.take n, h1, h2, hfc, (encNats_decNats w.bytes hp _ _ hlen).symm,
                      decNats_lt w.bytes _ _ hlen⟩
              · split at h
                · rename_i w hw
                  have hfc := widthOfFloatFc_some fc w hw
                  split at h
                  · cases h
                  · split at h
                    · cases h
                    · rename_i hmod hl
                      obtain ⟨h1, h2⟩ := take_drop_of_not_lenLt r n (by simpa using hl)
                      injection h with h; injection h with ha hb; subst ha hb
                      have hp := w.bytes_pos
                      have hlen : (r.take n).length = n / w.bytes * w.bytes := by
                        rw [h2]; have : n % w.bytes = 0 := by simpa using hmod
                        exact (Nat.div_mul_cancel (Nat.dvd_of_mod_eq_zero this)).symm
                      exact ⟨r.take n, h1, h2, hfc, (encNats_decNats w.bytes hp _ _ hlen).symm,
                        decNats_lt w.bytes _ _ hlen⟩
                · cases h

end GoSecs.Secs2

namespace GoSecs.Secs2

theorem decLeaf_complete (it : Item) (fc : Nat) (p rest : Bytes) (h : LeafVal it fc p) :
    decLeaf fc p.length (p ++ rest) = .ok (it, rest) := by
  cases it with
  | empty => exact h.elim
  | list _ => exact h.elim
  | binary bs => obtain ⟨rfl, rfl⟩ := h; exact decLeaf_binary _ rest
  | ascii bs => obtain ⟨rfl, rfl⟩ := h; exact decLeaf_ascii _ rest
  | jis8 bs => obtain ⟨rfl, rfl⟩ := h; exact decLeaf_jis8 _ rest
  | boolean vs =>
    obtain ⟨rfl, rfl⟩ := h
    obtain ⟨h1, h2, h3⟩ := take_drop_payload p.length p rest rfl
    simp only [decLeaf, fcBoolean, fcASCII, fcJIS8, fcBinary, h1, h2, h3,
      Nat.reduceEqDiff, reduceIte, Bool.false_eq_true]
  | lstr l bs =>
    obtain ⟨rfl, a, b, rfl, rfl⟩ := h
    obtain ⟨h1, h2, h3⟩ := take_drop_payload (a :: b :: bs).length (a :: b :: bs) rest rfl
    have h0 : ((a :: b :: bs) ++ rest).take 2 = [a, b] := by simp
    have h4 : (a :: b :: bs).drop 2 = bs := by simp
    have h6 : ¬ (a :: b :: bs).length < 2 := by simp
    simp only [decLeaf, fcLStr, fcBoolean, fcASCII, fcJIS8, fcBinary, h0, h1, h2, h3, h4, h6,
      Nat.reduceEqDiff, reduceIte, Bool.false_eq_true]
    simp [beVal]
  | int w vs =>
    obtain ⟨rfl, rfl, hr⟩ := h
    have := decLeaf_int w vs hr rest
    simpa using this
  | uint w vs =>
    obtain ⟨rfl, rfl, hr⟩ := h
    have := decLeaf_uint w vs hr rest
    simpa using this
  | float w vs =>
    obtain ⟨rfl, rfl, hr⟩ := h
    have := decLeaf_float w vs hr rest
    simpa using this

/-- What `dec` does after any grammatical header (canonical or not). -/
theorem dec_isHeader (fuel d fc n : Nat) (hdr body : Bytes) (hh : IsHeader fc n hdr) :
    dec (fuel+1) d (hdr ++ body) =
      if fc = fcList then
        if d + 1 > maxListDepth then .error .depth
        else if lenLt body (n * 2) then .error .count
        else match decL fuel (d + 1) n body with
          | .error e => .error e
          | .ok (cs, r3) => .ok (.list cs, r3)
      else decLeaf fc n body := by
  obtain ⟨k, lb, hk1, hk3, hfc, hlen, hval, rfl⟩ := hh
  have hb : (UInt8.ofNat (fc * 4 + k)).toNat = fc * 4 + k := by
    simp [UInt8.toNat_ofNat']; omega
  have hdiv : (fc * 4 + k) / 4 = fc := by omega
  have hmod : (fc * 4 + k) % 4 = k := by omega
  simp only [List.cons_append, dec, hb, hdiv, hmod]
  have hk : k ≠ 0 := by omega
  have htake : (lb ++ body).take k = lb := by subst hlen; simp
  have hdrop : (lb ++ body).drop k = body := by subst hlen; simp
  have hl : lenLt (lb ++ body) k = false := by
    rw [lenLt_false_iff]; simp; omega
  simp only [hk, if_false, hl, htake, hdrop, hval, Bool.false_eq_true]
  rfl

theorem isHeader_length (fc n : Nat) (hdr : Bytes) (h : IsHeader fc n hdr) : 2 ≤ hdr.length := by
  obtain ⟨k, lb, hk1, _, _, hlen, _, rfl⟩ := h
  simp; omega

theorem isHeader_fc_lt (fc n : Nat) (hdr : Bytes) (h : IsHeader fc n hdr) : fc < 64 := by
  obtain ⟨_, _, _, _, h, _⟩ := h; exact h

theorem parses_length_ge2 : ∀ (it : Item) (bs : Bytes), Parses it bs → 2 ≤ bs.length := by
  intro it bs h
  cases it <;> simp only [Parses] at h
  · obtain ⟨hdr, body, rfl, hh, _⟩ := h
    have := isHeader_length _ _ _ hh; simp; omega
  all_goals
    obtain ⟨fc, hdr, p, rfl, hh, _⟩ := h
    have := isHeader_length _ _ _ hh; simp; omega

theorem parsesL_length_ge : ∀ (cs : List Item) (bs : Bytes), ParsesL cs bs → 2 * cs.length ≤ bs.length
  | [], _, h => by simp
  | c :: cs, bs, h => by
    simp only [ParsesL] at h
    obtain ⟨p, q, rfl, hp, hq⟩ := h
    have := parses_length_ge2 c p hp
    have := parsesL_length_ge cs q hq
    simp; omega

theorem leafVal_fc_ne_list (it : Item) (fc : Nat) (p : Bytes) (h : LeafVal it fc p) : fc ≠ fcList := by
  cases it with
  | empty => exact h.elim
  | list _ => exact h.elim
  | binary _ => obtain ⟨rfl, _⟩ := h; simp [fcList, fcBinary]
  | boolean _ => obtain ⟨rfl, _⟩ := h; simp [fcList, fcBoolean]
  | ascii _ => obtain ⟨rfl, _⟩ := h; simp [fcList, fcASCII]
  | jis8 _ => obtain ⟨rfl, _⟩ := h; simp [fcList, fcJIS8]
  | lstr _ _ => obtain ⟨rfl, _⟩ := h; simp [fcList, fcLStr]
  | int w _ => obtain ⟨rfl, _⟩ := h; exact (fcInt_lt w).2
  | uint w _ => obtain ⟨rfl, _⟩ := h; exact (fcUint_lt w).2
  | float w _ => obtain ⟨rfl, _⟩ := h; exact (fcFloat_lt w).2

mutual
/-- **Completeness**: every grammatical encoding (any admissible header form) of an item within
    the depth limit is decoded to exactly that item, leaving the rest. -/
theorem dec_of_parses : ∀ (it : Item) (p : Bytes), Parses it p → ∀ (fuel d : Nat) (rest : Bytes),
    sz it ≤ fuel → d + depth it ≤ maxListDepth → dec fuel d (p ++ rest) = .ok (it, rest)
  | .empty, _, h, _, _, _, _, _ => by simp [Parses] at h
  | .list cs, p, h, fuel, d, rest, hf, hd => by
    obtain ⟨f, rfl⟩ : ∃ f, fuel = f + 1 := ⟨fuel - 1, by simp [sz] at hf; omega⟩
    simp only [Parses] at h
    obtain ⟨hdr, body, rfl, hh, hb⟩ := h
    rw [List.append_assoc, dec_isHeader f d fcList cs.length hdr _ hh]
    have hlen := parsesL_length_ge cs body hb
    simp only [depth] at hd
    have h1 : ¬ d + 1 > maxListDepth := by omega
    have h2 : lenLt (body ++ rest) (cs.length * 2) = false := by
      rw [lenLt_false_iff, List.length_append]; omega
    have h3 := decL_of_parsesL cs body hb f (d + 1) rest (by simp [sz] at hf; omega) (by omega)
    simp only [h1, h2, h3, if_true, if_false, Bool.false_eq_true]
  | .binary x, p, h, fuel, d, rest, hf, _ => by
    obtain ⟨f, rfl⟩ : ∃ f, fuel = f + 1 := ⟨fuel - 1, by simp [sz] at hf; omega⟩
    simp only [Parses] at h
    obtain ⟨fc, hdr, q, rfl, hh, hv⟩ := h
    rw [List.append_assoc, dec_isHeader f d fc q.length hdr _ hh, if_neg (leafVal_fc_ne_list _ _ _ hv)]
    exact decLeaf_complete _ fc q rest hv
  | .boolean x, p, h, fuel, d, rest, hf, _ => by
    obtain ⟨f, rfl⟩ : ∃ f, fuel = f + 1 := ⟨fuel - 1, by simp [sz] at hf; omega⟩
    simp only [Parses] at h
    obtain ⟨fc, hdr, q, rfl, hh, hv⟩ := h
    rw [List.append_assoc, dec_isHeader f d fc q.length hdr _ hh, if_neg (leafVal_fc_ne_list _ _ _ hv)]
    exact decLeaf_complete _ fc q rest hv
  | .ascii x, p, h, fuel, d, rest, hf, _ => by
    obtain ⟨f, rfl⟩ : ∃ f, fuel = f + 1 := ⟨fuel - 1, by simp [sz] at hf; omega⟩
    simp only [Parses] at h
    obtain ⟨fc, hdr, q, rfl, hh, hv⟩ := h
    rw [List.append_assoc, dec_isHeader f d fc q.length hdr _ hh, if_neg (leafVal_fc_ne_list _ _ _ hv)]
    exact decLeaf_complete _ fc q rest hv
  | .jis8 x, p, h, fuel, d, rest, hf, _ => by
    obtain ⟨f, rfl⟩ : ∃ f, fuel = f + 1 := ⟨fuel - 1, by simp [sz] at hf; omega⟩
    simp only [Parses] at h
    obtain ⟨fc, hdr, q, rfl, hh, hv⟩ := h
    rw [List.append_assoc, dec_isHeader f d fc q.length hdr _ hh, if_neg (leafVal_fc_ne_list _ _ _ hv)]
    exact decLeaf_complete _ fc q rest hv
  | .lstr l x, p, h, fuel, d, rest, hf, _ => by
    obtain ⟨f, rfl⟩ : ∃ f, fuel = f + 1 := ⟨fuel - 1, by simp [sz] at hf; omega⟩
    simp only [Parses] at h
    obtain ⟨fc, hdr, q, rfl, hh, hv⟩ := h
    rw [List.append_assoc, dec_isHeader f d fc q.length hdr _ hh, if_neg (leafVal_fc_ne_list _ _ _ hv)]
    exact decLeaf_complete _ fc q rest hv
  | .int w x, p, h, fuel, d, rest, hf, _ => by
    obtain ⟨f, rfl⟩ : ∃ f, fuel = f + 1 := ⟨fuel - 1, by simp [sz] at hf; omega⟩
    simp only [Parses] at h
    obtain ⟨fc, hdr, q, rfl, hh, hv⟩ := h
    rw [List.append_assoc, dec_isHeader f d fc q.length hdr _ hh, if_neg (leafVal_fc_ne_list _ _ _ hv)]
    exact decLeaf_complete _ fc q rest hv
  | .uint w x, p, h, fuel, d, rest, hf, _ => by
    obtain ⟨f, rfl⟩ : ∃ f, fuel = f + 1 := ⟨fuel - 1, by simp [sz] at hf; omega⟩
    simp only [Parses] at h
    obtain ⟨fc, hdr, q, rfl, hh, hv⟩ := h
    rw [List.append_assoc, dec_isHeader f d fc q.length hdr _ hh, if_neg (leafVal_fc_ne_list _ _ _ hv)]
    exact decLeaf_complete _ fc q rest hv
  | .float w x, p, h, fuel, d, rest, hf, _ => by
    obtain ⟨f, rfl⟩ : ∃ f, fuel = f + 1 := ⟨fuel - 1, by simp [sz] at hf; omega⟩
    simp only [Parses] at h
    obtain ⟨fc, hdr, q, rfl, hh, hv⟩ := h
    rw [List.append_assoc, dec_isHeader f d fc q.length hdr _ hh, if_neg (leafVal_fc_ne_list _ _ _ hv)]
    exact decLeaf_complete _ fc q rest hv
theorem decL_of_parsesL : ∀ (cs : List Item) (p : Bytes), ParsesL cs p → ∀ (fuel d : Nat) (rest : Bytes),
    szL cs ≤ fuel → d + depthL cs ≤ maxListDepth →
    decL fuel d cs.length (p ++ rest) = .ok (cs, rest)
  | [], p, h, fuel, d, rest, hf, _ => by
    obtain ⟨f, rfl⟩ : ∃ f, fuel = f + 1 := ⟨fuel - 1, by simp [szL] at hf; omega⟩
    simp only [ParsesL] at h; subst h
    simp [decL]
  | c :: cs, p, h, fuel, d, rest, hf, hd => by
    obtain ⟨f, rfl⟩ : ∃ f, fuel = f + 1 := ⟨fuel - 1, by simp [szL] at hf; omega⟩
    simp only [ParsesL] at h
    obtain ⟨p1, p2, rfl, h1, h2⟩ := h
    simp only [szL] at hf
    simp only [depthL] at hd
    have e1 := dec_of_parses c p1 h1 f d (p2 ++ rest) (by omega) (by omega)
    have e2 := decL_of_parsesL cs p2 h2 f d rest (by omega) (by omega)
    simp only [List.length_cons, List.append_assoc, decL, e1, e2]
end

end GoSecs.Secs2

namespace GoSecs.Secs2

theorem parses_of_leaf (it : Item) (fc : Nat) (hdr p : Bytes) (hv : LeafVal it fc p)
    (hh : IsHeader fc p.length hdr) : Parses it (hdr ++ p) := by
  cases it with
  | empty => exact hv.elim
  | list _ => exact hv.elim
  | _ => exact ⟨fc, hdr, p, rfl, hh, hv⟩

theorem depth_of_leaf (it : Item) (fc : Nat) (p : Bytes) (hv : LeafVal it fc p) : depth it = 0 := by
  cases it <;> first | exact hv.elim | rfl

theorem uint8_split (fb : UInt8) :
    fb = UInt8.ofNat (fb.toNat / 4 * 4 + fb.toNat % 4) ∧ fb.toNat / 4 < 64 ∧ fb.toNat % 4 ≤ 3 := by
  have h := fb.toNat_lt
  refine ⟨?_, by omega, by omega⟩
  have : fb.toNat / 4 * 4 + fb.toNat % 4 = fb.toNat := by omega
  rw [this]; simp

/-- **Soundness**, both decoders at once, by induction on the fuel. -/
theorem dec_sound_aux : ∀ (fuel : Nat),
    (∀ (d : Nat) (bs : Bytes) (it : Item) (r : Bytes), dec fuel d bs = .ok (it, r) →
      ∃ p, bs = p ++ r ∧ Parses it p ∧ (d ≤ maxListDepth → d + depth it ≤ maxListDepth)) ∧
    (∀ (d n : Nat) (bs : Bytes) (its : List Item) (r : Bytes),
      decL fuel d n bs = .ok (its, r) →
      ∃ p, bs = p ++ r ∧ ParsesL its p ∧ its.length = n ∧
        (d ≤ maxListDepth → d + depthL its ≤ maxListDepth)) := by
  intro fuel
  induction fuel with
  | zero =>
    constructor
    · intro d bs it r h; simp [dec] at h
    · intro d n bs its r h; simp [decL] at h
  | succ fuel ih =>
    obtain ⟨ihD, ihL⟩ := ih
    constructor
    · intro d bs it r h
      cases bs with
      | nil => simp [dec] at h
      | cons fb r1 =>
        simp only [dec] at h
        split at h
        · cases h
        · rename_i hk
          split at h
          · cases h
          · rename_i hl
            obtain ⟨hsplit, hklen⟩ := take_drop_of_not_lenLt r1 (fb.toNat % 4) (by simpa using hl)
            obtain ⟨hfb, hfc, hk3⟩ := uint8_split fb
            have hhdr : IsHeader (fb.toNat / 4) (beVal (r1.take (fb.toNat % 4))) (fb :: r1.take (fb.toNat % 4)) :=
              ⟨fb.toNat % 4, r1.take (fb.toNat % 4), by omega, hk3, hfc, hklen, rfl, by rw [← hfb]⟩
            split at h
            · -- list
              rename_i hlist
              split at h
              · cases h
              · rename_i hdep
                split at h
                · cases h
                · split at h
                  · cases h
                  · rename_i cs r3 hdl
                    injection h with h; injection h with ha hb; subst ha hb
                    obtain ⟨p, hp, hpl, hlen, hdd⟩ := ihL (d + 1) _ _ cs r3 hdl
                    refine ⟨fb :: r1.take (fb.toNat % 4) ++ p, ?_, ?_, ?_⟩
                    · simp only [List.cons_append, List.append_assoc]; rw [← hp, ← hsplit]
                    · simp only [Parses]
                      exact ⟨_, p, rfl, by rw [hlen, ← hlist]; exact hhdr, hpl⟩
                    · intro _; have := hdd (by omega); simp only [depth]; omega
            · -- leaf
              rename_i hnl
              obtain ⟨p, hp, hplen, hv⟩ := decLeaf_sound _ _ _ it r h
              refine ⟨fb :: r1.take (fb.toNat % 4) ++ p, ?_, ?_, ?_⟩
              · simp only [List.cons_append, List.append_assoc]; rw [← hp, ← hsplit]
              · exact parses_of_leaf it _ _ p hv (by rw [hplen]; exact hhdr)
              · intro _; rw [depth_of_leaf it _ p hv]; omega
    · intro d n bs its r h
      cases n with
      | zero =>
        simp only [decL] at h
        injection h with h; injection h with ha hb; subst ha hb
        exact ⟨[], rfl, rfl, rfl, by intro _; simp [depthL]; omega⟩
      | succ c =>
        simp only [decL] at h
        split at h
        · cases h
        · rename_i it r1 hd1
          split at h
          · cases h
          · rename_i its' r' hd2
            injection h with h; injection h with ha hb; subst ha hb
            obtain ⟨p1, hp1, hpp1, hdep1⟩ := ihD d bs it r1 hd1
            obtain ⟨p2, hp2, hpp2, hlen2, hdep2⟩ := ihL d c r1 its' r' hd2
            refine ⟨p1 ++ p2, by rw [hp1, hp2, List.append_assoc], ?_, by simp [hlen2], ?_⟩
            · simp only [ParsesL]; exact ⟨p1, p2, rfl, hpp1, hpp2⟩
            · intro hd; have := hdep1 hd; have := hdep2 hd; simp only [depthL]; omega

end GoSecs.Secs2

namespace GoSecs.Secs2

theorem dec_consumes (fuel d : Nat) (bs : Bytes) (it : Item) (r : Bytes)
    (h : dec fuel d bs = .ok (it, r)) : r.length + 2 ≤ bs.length := by
  obtain ⟨p, rfl, hp, _⟩ := (dec_sound_aux fuel).1 d bs it r h
  have := parses_length_ge2 it p hp
  simp; omega

theorem decLeaf_ne_fuel (fc n : Nat) (r : Bytes) : decLeaf fc n r ≠ .error .fuel := by
  unfold decLeaf
  repeat' split
  all_goals simp

/-- The recursion budget is never what stops the decoder: with the budget `fuelFor` provides,
    no `fuel` error can occur (so `fuel` is a proof device only). -/
theorem dec_no_fuel_aux : ∀ (fuel : Nat),
    (∀ (d : Nat) (bs : Bytes), 2 * bs.length + 1 ≤ fuel → dec fuel d bs ≠ .error .fuel) ∧
    (∀ (d n : Nat) (bs : Bytes), 2 * bs.length + 2 ≤ fuel → decL fuel d n bs ≠ .error .fuel) := by
  intro fuel
  induction fuel with
  | zero => exact ⟨fun _ _ h => by omega, fun _ _ _ h => by omega⟩
  | succ fuel ih =>
    obtain ⟨ihD, ihL⟩ := ih
    constructor
    · intro d bs hf
      cases bs with
      | nil => simp [dec]
      | cons fb r1 =>
        simp only [dec]
        split
        · simp
        · split
          · simp
          · rename_i hk hl
            split
            · split
              · simp
              · split
                · simp
                · have hlen : (r1.drop (fb.toNat % 4)).length + 1 ≤ r1.length := by
                    have := (lenLt_false_iff r1 (fb.toNat % 4)).1 (by simpa using hl)
                    simp [List.length_drop]; omega
                  have := ihL (d + 1) (beVal (r1.take (fb.toNat % 4))) (r1.drop (fb.toNat % 4))
                    (by simp only [List.length_cons] at hf; omega)
                  split
                  · rename_i e he; intro hc; injection hc with hc; subst hc; exact this he
                  · simp
            · exact decLeaf_ne_fuel _ _ _
    · intro d n bs hf
      cases n with
      | zero => simp [decL]
      | succ c =>
        simp only [decL]
        have h1 := ihD d bs (by omega)
        split
        · rename_i e he; intro hc; injection hc with hc; subst hc; exact h1 he
        · rename_i it r1 hd1
          have hc := dec_consumes fuel d bs it r1 hd1
          have h2 := ihL d c r1 (by omega)
          split
          · rename_i e he; intro hc; injection hc with hc; subst hc; exact h2 he
          · simp

theorem decode_ne_fuel (bs : Bytes) : decode bs ≠ .error .fuel := by
  unfold decode
  split
  · simp
  · rename_i hne
    have := (dec_no_fuel_aux (fuelFor bs)).1 0 bs (by simp [fuelFor])
    split
    · rename_i e he; intro hc; injection hc with hc; subst hc; exact this he
    · simp

end GoSecs.Secs2

namespace GoSecs.Secs2

theorem allocLeaf_le (fc n : Nat) (r : Bytes) :
    allocLeaf fc n r ≤ 8 * n ∧ (allocLeaf fc n r ≠ 0 → n ≤ r.length) := by
  unfold allocLeaf
  split
  · simp
  all_goals
    rename_i h
    obtain ⟨p, hp, hlen, _⟩ := decLeaf_sound _ _ _ _ _ h
    have hn : n ≤ r.length := by rw [hp]; simp; omega
  · exact ⟨by omega, fun _ => hn⟩
  · refine ⟨?_, fun _ => hn⟩; exact Nat.mul_le_mul_left 8 (Nat.div_le_self _ _)
  · refine ⟨?_, fun _ => hn⟩; exact Nat.mul_le_mul_left 8 (Nat.div_le_self _ _)
  · refine ⟨?_, fun _ => hn⟩; exact Nat.mul_le_mul_left 8 (Nat.div_le_self _ _)
  · simp

end GoSecs.Secs2

namespace GoSecs.Secs2

theorem wstep (m L : Nat) : 8 * (m + 1) * L = 8 * L + 8 * m * L := by
  rw [Nat.mul_add, Nat.add_mul, Nat.mul_one, Nat.add_comm]
theorem wone (M L : Nat) (hM : 1 ≤ M) : 8 * L ≤ 8 * M * L := by
  have : 8 * 1 ≤ 8 * M := Nat.mul_le_mul_left 8 hM
  have := Nat.mul_le_mul_right L this
  simpa using this
theorem wsplit (M a x : Nat) (hM : 1 ≤ M) : 8 * M * a + 8 * x ≤ 8 * M * (a + x) := by
  rw [Nat.mul_add]; have := wone M x hM; omega

/-- Allocation accounting, all four claims at once by induction on the fuel:
    success costs at most 8 bytes per consumed byte (minus the 2-byte header);
    any run at depth `d ≤ 64` costs at most `8·(65−d)` bytes per input byte. -/
theorem alloc_aux : ∀ (fuel : Nat),
    (∀ (d : Nat) (bs : Bytes) (it : Item) (r : Bytes), dec fuel d bs = .ok (it, r) →
      allocDec fuel d bs + 16 + 8 * r.length ≤ 8 * bs.length) ∧
    (∀ (d n : Nat) (bs : Bytes) (its : List Item) (r : Bytes), decL fuel d n bs = .ok (its, r) →
      allocDecL fuel d n bs + 16 * n + 8 * r.length ≤ 8 * bs.length) ∧
    (∀ (d : Nat) (bs : Bytes), d ≤ maxListDepth → allocDec fuel d bs ≤ 8 * (65 - d) * bs.length) ∧
    (∀ (d n : Nat) (bs : Bytes), d ≤ maxListDepth → allocDecL fuel d n bs ≤ 8 * (65 - d) * bs.length) := by
  intro fuel
  induction fuel with
  | zero =>
    refine ⟨?_, ?_, ?_, ?_⟩
    · intro d bs it r h; simp [dec] at h
    · intro d n bs its r h; simp [decL] at h
    · intro d bs _; simp [allocDec]
    · intro d n bs _; simp [allocDecL]
  | succ fuel ih =>
    obtain ⟨ihA, ihAL, ihB, ihBL⟩ := ih
    refine ⟨?_, ?_, ?_, ?_⟩
    · -- (A)
      intro d bs it r h
      cases bs with
      | nil => simp [dec] at h
      | cons fb r1 =>
        simp only [dec] at h
        simp only [allocDec]
        split at h
        · cases h
        · rename_i hk
          split at h
          · cases h
          · rename_i hl
            have hl' : lenLt r1 (fb.toNat % 4) = false := by simpa using hl
            have hr1 := (lenLt_false_iff _ _).1 hl'
            have hdrop : (r1.drop (fb.toNat % 4)).length = r1.length - fb.toNat % 4 := by simp
            simp only [hk, hl', if_false, Bool.false_eq_true]
            split at h
            · rename_i hlist
              simp only [hlist, if_true]
              split at h
              · cases h
              · rename_i hdep
                split at h
                · cases h
                · rename_i hcnt
                  have hcnt' : lenLt (r1.drop (fb.toNat % 4)) (beVal (r1.take (fb.toNat % 4)) * 2) = false := by
                    simpa using hcnt
                  simp only [hdep, hcnt', if_false, Bool.false_eq_true]
                  split at h
                  · cases h
                  · rename_i cs r3 hdl
                    injection h with h; injection h with ha hb; subst ha hb
                    have := ihAL _ _ _ _ _ hdl
                    simp only [List.length_cons]
                    omega
            · rename_i hnl
              simp only [hnl, if_false]
              obtain ⟨p, hp, hplen, _⟩ := decLeaf_sound _ _ _ it r h
              have h1 := (allocLeaf_le (fb.toNat / 4) (beVal (r1.take (fb.toNat % 4))) (r1.drop (fb.toNat % 4))).1
              have : (r1.drop (fb.toNat % 4)).length = p.length + r.length := by rw [hp]; simp
              simp only [List.length_cons]
              omega
    · -- (AL)
      intro d n bs its r h
      cases n with
      | zero =>
        simp only [decL] at h
        injection h with h; injection h with ha hb; subst ha hb
        simp [allocDecL]
      | succ c =>
        simp only [decL] at h
        simp only [allocDecL]
        split at h
        · cases h
        · rename_i it r1 hd1
          split at h
          · cases h
          · rename_i its' r' hd2
            injection h with h; injection h with ha hb; subst ha hb
            have h1 := ihA _ _ _ _ hd1
            have h2 := ihAL _ _ _ _ _ hd2
            omega
    · -- (B)
      intro d bs hd
      cases bs with
      | nil => simp [allocDec]
      | cons fb r1 =>
        simp only [allocDec]
        split
        · simp
        · split
          · simp
          · rename_i hk hl
            have hr1 := (lenLt_false_iff r1 (fb.toNat % 4)).1 (by simpa using hl)
            have hdrop : (r1.drop (fb.toNat % 4)).length + 1 ≤ (fb :: r1).length := by
              simp [List.length_drop]
            split
            · split
              · simp
              · rename_i hdep
                split
                · simp
                · rename_i hcnt
                  have hcnt' := (lenLt_false_iff _ _).1 (by simpa using hcnt)
                  have hmax : maxListDepth = 64 := rfl
                  have hBL := ihBL (d + 1) (beVal (r1.take (fb.toNat % 4))) (r1.drop (fb.toNat % 4)) (by omega)
                  have e1 : 65 - d = (65 - (d + 1)) + 1 := by omega
                  have hm : 8 * (65 - (d + 1)) * (r1.drop (fb.toNat % 4)).length
                      ≤ 8 * (65 - (d + 1)) * (fb :: r1).length := Nat.mul_le_mul_left _ (by omega)
                  rw [e1, wstep]
                  omega
            · have h1 := allocLeaf_le (fb.toNat / 4) (beVal (r1.take (fb.toNat % 4))) (r1.drop (fb.toNat % 4))
              by_cases hz : allocLeaf (fb.toNat / 4) (beVal (r1.take (fb.toNat % 4))) (r1.drop (fb.toNat % 4)) = 0
              · rw [hz]; exact Nat.zero_le _
              · have := h1.2 hz
                have hmax : maxListDepth = 64 := rfl
                have := wone (65 - d) (fb :: r1).length (by omega)
                omega
    · -- (BL)
      intro d n bs hd
      cases n with
      | zero => simp [allocDecL]
      | succ c =>
        simp only [allocDecL]
        have hB := ihB d bs hd
        have hmax : maxListDepth = 64 := rfl
        split
        · omega
        · rename_i it r1 hd1
          have hA := ihA _ _ _ _ hd1
          have hBL := ihBL d c r1 hd
          have hc := dec_consumes _ _ _ _ _ hd1
          have hs := wsplit (65 - d) r1.length (bs.length - r1.length) (by omega)
          have : r1.length + (bs.length - r1.length) = bs.length := by omega
          rw [this] at hs
          omega

/-- **Allocation bound.** Whatever lengths the input claims, `Decode` requests at most 521 bytes
    per input byte (1 for the defensive clone + 8·65 for the deepest failing nest). -/
theorem allocDecode_le (bs : Bytes) : allocDecode bs ≤ 521 * bs.length := by
  unfold allocDecode
  have := (alloc_aux (fuelFor bs)).2.2.1 0 bs (by simp [maxListDepth])
  omega

end GoSecs.Secs2

namespace GoSecs.Secs2

theorem isHeader_n_le (fc n : Nat) (hdr : Bytes) (h : IsHeader fc n hdr) : n ≤ maxByteSize := by
  obtain ⟨k, lb, hk1, hk3, _, hlen, hval, _⟩ := h
  have := beVal_lt lb
  rw [hlen] at this
  have h3 : 256 ^ k ≤ 256 ^ 3 := Nat.pow_le_pow_right (by omega) hk3
  simp only [maxByteSize]; omega

mutual
theorem parses_wf : ∀ (it : Item) (p : Bytes), Parses it p → WF it
  | .empty, _, h => by simp [Parses] at h
  | .list cs, p, h => by
    simp only [Parses] at h
    obtain ⟨hdr, body, _, hh, hb⟩ := h
    exact ⟨isHeader_n_le _ _ _ hh, parsesL_wf cs body hb⟩
  | .binary x, p, h => by
    simp only [Parses] at h
    obtain ⟨fc, hdr, q, _, hh, hv⟩ := h
    obtain ⟨_, rfl⟩ := hv
    exact isHeader_n_le _ _ _ hh
  | .ascii x, p, h => by
    simp only [Parses] at h
    obtain ⟨fc, hdr, q, _, hh, hv⟩ := h
    obtain ⟨_, rfl⟩ := hv
    exact isHeader_n_le _ _ _ hh
  | .jis8 x, p, h => by
    simp only [Parses] at h
    obtain ⟨fc, hdr, q, _, hh, hv⟩ := h
    obtain ⟨_, rfl⟩ := hv
    exact isHeader_n_le _ _ _ hh
  | .boolean x, p, h => by
    simp only [Parses] at h
    obtain ⟨fc, hdr, q, _, hh, hv⟩ := h
    obtain ⟨_, rfl⟩ := hv
    have := isHeader_n_le _ _ _ hh
    simpa [WF] using this
  | .lstr l x, p, h => by
    simp only [Parses] at h
    obtain ⟨fc, hdr, q, _, hh, hv⟩ := h
    obtain ⟨_, a, b, rfl, rfl⟩ := hv
    have := isHeader_n_le _ _ _ hh
    have ha := a.toNat_lt
    have hb := b.toNat_lt
    refine ⟨by omega, ?_⟩
    simpa using this
  | .int w x, p, h => by
    simp only [Parses] at h
    obtain ⟨fc, hdr, q, _, hh, hv⟩ := h
    obtain ⟨_, rfl, hr⟩ := hv
    have := isHeader_n_le _ _ _ hh
    exact ⟨by simpa using this, hr⟩
  | .uint w x, p, h => by
    simp only [Parses] at h
    obtain ⟨fc, hdr, q, _, hh, hv⟩ := h
    obtain ⟨_, rfl, hr⟩ := hv
    have := isHeader_n_le _ _ _ hh
    exact ⟨by simpa using this, hr⟩
  | .float w x, p, h => by
    simp only [Parses] at h
    obtain ⟨fc, hdr, q, _, hh, hv⟩ := h
    obtain ⟨_, rfl, hr⟩ := hv
    have := isHeader_n_le _ _ _ hh
    exact ⟨by simpa using this, hr⟩
theorem parsesL_wf : ∀ (cs : List Item) (p : Bytes), ParsesL cs p → WFL cs
  | [], _, _ => trivial
  | c :: cs, p, h => by
    simp only [ParsesL] at h
    obtain ⟨p1, p2, _, h1, h2⟩ := h
    exact ⟨parses_wf c p1 h1, parsesL_wf cs p2 h2⟩
end

/-- The canonical encoding is grammatical. -/
theorem header_isHeader (fc n : Nat) (hfc : fc < 64) (hn : n ≤ maxByteSize) : IsHeader fc n (header fc n) :=
  ⟨lenCount n, beBytes (lenCount n) n, lenCount_pos n, lenCount_le3 n, hfc, by simp,
    beVal_header_len n hn, rfl⟩

end GoSecs.Secs2
