import GoSecs.Model.Construct
import GoSecs.Lemmas.Secs2

namespace GoSecs.Construct
open GoSecs GoSecs.Secs2

theorem clampI_range (v lo hi : Int) (h : lo ≤ hi) : lo ≤ clampI v lo hi ∧ clampI v lo hi ≤ hi := by
  unfold clampI; split
  · omega
  · split <;> omega

theorem intLo_le_intHi (w : Width) : intLo w.bytes ≤ intHi w.bytes := by
  cases w <;> simp [intLo, intHi, Width.bytes]

theorem intArg_range (lo hi : Int) (h : lo ≤ hi) (a : Arg) (vs : List Int) (ha : intArg lo hi a = some vs) :
    ∀ v ∈ vs, lo ≤ v ∧ v ≤ hi := by
  cases a with
  | int v => simp [intArg] at ha; subst ha; intro x hx; simp at hx; subst hx; exact clampI_range _ _ _ h
  | ints l =>
    simp [intArg] at ha; subst ha; intro x hx
    simp at hx; obtain ⟨y, _, rfl⟩ := hx; exact clampI_range _ _ _ h
  | str p =>
    simp [intArg] at ha; obtain ⟨y, _, rfl⟩ := ha
    intro x hx; simp at hx; subst hx; exact clampI_range _ _ _ h
  | strs ps =>
    simp [intArg] at ha; obtain ⟨ys, _, rfl⟩ := ha
    intro x hx; simp at hx; obtain ⟨y, _, rfl⟩ := hx; exact clampI_range _ _ _ h
  | bool _ => simp [intArg] at ha
  | bools _ => simp [intArg] at ha
  | float => simp [intArg] at ha
  | other => simp [intArg] at ha

theorem intArgs_range (lo hi : Int) (h : lo ≤ hi) : ∀ (as : List Arg) (vs : List Int),
    intArgs lo hi as = some vs → ∀ v ∈ vs, lo ≤ v ∧ v ≤ hi
  | [], vs, ha => by simp [intArgs] at ha; subst ha; simp
  | a :: as, vs, ha => by
    simp only [intArgs, bind, Option.bind] at ha
    cases h1 : intArg lo hi a with
    | none => simp [h1] at ha
    | some x =>
      cases h2 : intArgs lo hi as with
      | none => simp [h1, h2] at ha
      | some xs =>
        simp [h1, h2] at ha; subst ha
        intro v hv
        rcases List.mem_append.1 hv with hv | hv
        · exact intArg_range lo hi h a x h1 v hv
        · exact intArgs_range lo hi h as xs h2 v hv

theorem erroredL_filter (kids : List Built) :
    Built.erroredL (kids.filter keepChild) = Built.erroredL kids := by
  induction kids with
  | nil => rfl
  | cons k ks ih =>
    cases k with
    | empty => simp [List.filter, keepChild, Built.erroredL, Built.errored, ih]
    | leaf it => simp [List.filter, keepChild, Built.erroredL, ih]
    | list a b c => simp [List.filter, keepChild, Built.erroredL, ih]

theorem all_childClean (kids : List Built) (hk : ∀ k ∈ kids, childClean k = !k.errored) :
    kids.all childClean = !Built.erroredL kids := by
  induction kids with
  | nil => simp [Built.erroredL]
  | cons k ks ih =>
    have h1 := hk k (by simp)
    have h2 := ih (fun x hx => hk x (by simp [hx]))
    simp [List.all_cons, Built.erroredL, h1, h2]

theorem childClean_eq (b : Built) (h : Built.Constructed b) : childClean b = !b.errored := by
  induction h with
  | leaf it => cases it <;> simp [childClean, Built.errored]
  | empty => simp [childClean, Built.errored]
  | list kids _ ih =>
    unfold newList
    split
    · simp [childClean, Built.errored]
    · have := all_childClean kids ih
      simp only [childClean, Built.errored, Bool.not_false, Bool.true_and, Bool.false_or, this,
        erroredL_filter]

/-- The cached `clean` flag is exact: `Error()` is non-nil iff an error sits anywhere in the tree. -/
theorem errorNonNil_eq_errored (b : Built) (h : Built.Constructed b) : b.errorNonNil = b.errored := by
  cases h with
  | leaf it => rfl
  | empty => rfl
  | list kids hk =>
    have hall := all_childClean kids (fun k hk' => childClean_eq k (hk k hk'))
    unfold newList
    split
    · simp [Built.errorNonNil, Built.errored]
    · simp only [Built.errorNonNil, Built.errored, hall, erroredL_filter, Bool.false_or]
      cases Built.erroredL kids <;> simp

end GoSecs.Construct

namespace GoSecs.Construct
open GoSecs GoSecs.Secs2

mutual
/-- Every error-free leaf of a built tree is a well-formed non-list item (what the leaf constructors
    return without error: `newInt_wf` and its analogues, ASCII/JIS-8/binary/localized within the cap). -/
def Built.leavesOK : Built → Prop
  | .leaf (some it) => WF it ∧ depth it = 0
  | .leaf none => True
  | .list _ _ kids => Built.leavesOKL kids
  | .empty => True
def Built.leavesOKL : List Built → Prop
  | [] => True
  | k :: ks => k.leavesOK ∧ Built.leavesOKL ks
end

theorem values_filter_wf (kids : List Built)
    (h : ∀ k ∈ kids, k ≠ .empty → WF k.value) :
    WFL (Built.values (kids.filter keepChild)) := by
  induction kids with
  | nil => simp [List.filter, Built.values, WFL]
  | cons k ks ih =>
    have ih' := ih (fun x hx => h x (by simp [hx]))
    cases k with
    | empty => simpa [List.filter, keepChild] using ih'
    | leaf it =>
      have := h (.leaf it) (by simp) (by simp)
      simp [List.filter, keepChild, Built.values, WFL, this, ih']
    | list a b c =>
      have := h (.list a b c) (by simp) (by simp)
      simp [List.filter, keepChild, Built.values, WFL, this, ih']

theorem values_filter_length (kids : List Built) : (Built.values (kids.filter keepChild)).length ≤ kids.length := by
  induction kids with
  | nil => simp [Built.values]
  | cons k ks ih => cases k <;> simp [List.filter, keepChild, Built.values] <;> omega

theorem erroredL_mem (kids : List Built) (h : Built.erroredL kids = false) : ∀ k ∈ kids, k.errored = false := by
  induction kids with
  | nil => simp
  | cons k ks ih =>
    simp only [Built.erroredL, Bool.or_eq_false_iff] at h
    intro x hx
    rcases List.mem_cons.1 hx with rfl | hx
    · exact h.1
    · exact ih h.2 x hx

theorem leavesOKL_mem (kids : List Built) (h : Built.leavesOKL kids) : ∀ k ∈ kids, k.leavesOK := by
  induction kids with
  | nil => simp
  | cons k ks ih =>
    intro x hx
    rcases List.mem_cons.1 hx with rfl | hx
    · exact h.1
    · exact ih h.2 x hx

theorem leavesOKL_of_filter (kids : List Built) (h : Built.leavesOKL (kids.filter keepChild)) :
    Built.leavesOKL kids := by
  induction kids with
  | nil => trivial
  | cons k ks ih =>
    cases k with
    | empty => simp only [List.filter, keepChild] at h; exact ⟨trivial, ih h⟩
    | leaf it => simp only [List.filter, keepChild, Built.leavesOKL] at h; exact ⟨h.1, ih h.2⟩
    | list a c d => simp only [List.filter, keepChild, Built.leavesOKL] at h; exact ⟨h.1, ih h.2⟩

/-- **Everything the constructors return without error is well-formed** (so C01's round trip applies to
    it): for every tree built by NewListItem over error-free leaves, if no node carries an error the
    logical value satisfies `WF` — sizes within the cap at every level and no empty placeholder left
    below a list. -/
theorem constructed_wf (b : Built) (hc : Built.Constructed b) (he : b.errored = false)
    (hl : b.leavesOK) (hne : b ≠ .empty) : WF b.value := by
  induction hc with
  | leaf it =>
    cases it with
    | none => simp [Built.errored] at he
    | some v => exact hl.1
  | empty => exact absurd rfl hne
  | list kids hk ih =>
    by_cases hlen : kids.length > maxByteSize
    · simp [newList, hlen, Built.errored] at he
    · simp only [newList, hlen, if_false] at he hl ⊢
      simp only [Built.errored, Bool.false_or, erroredL_filter] at he
      simp only [Built.leavesOK] at hl
      have hl' := leavesOKL_of_filter kids hl
      have hmem := erroredL_mem kids he
      have hlm := leavesOKL_mem kids hl'
      simp only [Built.value]
      refine ⟨?_, values_filter_wf kids (fun k hk' hne' => ih k hk' (hmem k hk') (hlm k hk') hne')⟩
      have := values_filter_length kids
      omega

end GoSecs.Construct
