import GoSecs.Model.Construct
import GoSecs.Lemmas.Secs2

namespace GoSecs.Construct
open GoSecs GoSecs.Secs2

theorem clampI_range (v lo hi : Int) (h : lo ≤ hi) : lo ≤ clampI v lo hi ∧ clampI v lo hi ≤ hi := by
  unfold clampI; split
  · omega
  · split <;> omega

theorem intLo_le_intHi (w : Width) : intLo w.bytes ≤ intHi w.bytes := by
  cases w <;> simp [intLo, intHi, Width.bytes]

theorem intArg_range (lo hi : Int) (h : lo ≤ hi) (a : Arg) (vs : List Int) (ha : intArg lo hi a = some vs) :
    ∀ v ∈ vs, lo ≤ v ∧ v ≤ hi := by
  cases a with
  | int v => simp [intArg] at ha; subst ha; intro x hx; simp at hx; subst hx; exact clampI_range _ _ _ h
  | ints l =>
    simp [intArg] at ha; subst ha; intro x hx
    simp at hx; obtain ⟨y, _, rfl⟩ := hx; exact clampI_range _ _ _ h
  | str p =>
    simp [intArg] at ha; obtain ⟨y, _, rfl⟩ := ha
    intro x hx; simp at hx; subst hx; exact clampI_range _ _ _ h
  | strs ps =>
    simp [intArg] at ha; obtain ⟨ys, _, rfl⟩ := ha
    intro x hx; simp at hx; obtain ⟨y, _, rfl⟩ := hx; exact clampI_range _ _ _ h
  | bool _ => simp [intArg] at ha
  | bools _ => simp [intArg] at ha
  | float => simp [intArg] at ha
  | other => simp [intArg] at ha

theorem intArgs_range (lo hi : Int) (h : lo ≤ hi) : ∀ (as : List Arg) (vs : List Int),
    intArgs lo hi as = some vs → ∀ v ∈ vs, lo ≤ v ∧ v ≤ hi
  | [], vs, ha => by simp [intArgs] at ha; subst ha; simp
  | a :: as, vs, ha => by
    simp only [intArgs, bind, Option.bind] at ha
    cases h1 : intArg lo hi a with
    | none => simp [h1] at ha
    | some x =>
      cases h2 : intArgs lo hi as with
      | none => simp [h1, h2] at ha
      | some xs =>
        simp [h1, h2] at ha; subst ha
        intro v hv
        rcases List.mem_append.1 hv with hv | hv
        · exact intArg_range lo hi h a x h1 v hv
        · exact intArgs_range lo hi h as xs h2 v hv

theorem erroredL_filter (kids : List Built) :
    Built.erroredL (kids.filter keepChild) = Built.erroredL kids := by
  induction kids with
  | nil => rfl
  | cons k ks ih =>
    cases k with
    | empty => simp [List.filter, keepChild, Built.erroredL, Built.errored, ih]
    | leaf it => simp [List.filter, keepChild, Built.erroredL, ih]
    | list a b c => simp [List.filter, keepChild, Built.erroredL, ih]

theorem all_childClean (kids : List Built) (hk : ∀ k ∈ kids, childClean k = !k.errored) :
    kids.all childClean = !Built.erroredL kids := by
  induction kids with
  | nil => simp [Built.erroredL]
  | cons k ks ih =>
    have h1 := hk k (by simp)
    have h2 := ih (fun x hx => hk x (by simp [hx]))
    simp [List.all_cons, Built.erroredL, h1, h2]

theorem childClean_eq (b : Built) (h : Built.Constructed b) : childClean b = !b.errored := by
  induction h with
  | leaf it => cases it <;> simp [childClean, Built.errored]
  | empty => simp [childClean, Built.errored]
  | list kids _ ih =>
    unfold newList
    split
    · simp [childClean, Built.errored]
    · have := all_childClean kids ih
      simp only [childClean, Built.errored, Bool.not_false, Bool.true_and, Bool.false_or, this,
        erroredL_filter]

/-- The cached `clean` flag is exact: `Error()` is non-nil iff an error sits anywhere in the tree. -/
theorem errorNonNil_eq_errored (b : Built) (h : Built.Constructed b) : b.errorNonNil = b.errored := by
  cases h with
  | leaf it => rfl
  | empty => rfl
  | list kids hk =>
    have hall := all_childClean kids (fun k hk' => childClean_eq k (hk k hk'))
    unfold newList
    split
    · simp [Built.errorNonNil, Built.errored]
    · simp only [Built.errorNonNil, Built.errored, hall, erroredL_filter, Bool.false_or]
      cases Built.erroredL kids <;> simp

end GoSecs.Construct
