/-
  Invariants of the SECS-I transport model (Model/Secs1Transport.lean), part 1: generations, the sender / engine /
  lock / wire links, and what is stable once a generation's socket is dead (C09 on SECS-I connections).
  Core Lean only.
-/
import GoSecs.Model.Secs1Transport

set_option linter.unusedSimpArgs false
set_option linter.unusedVariables false

namespace GoSecs.S1T
open GoSecs.Router (upd upd_same upd_other b2n)

/-! ## lifting -/

theorem run_append (c : Cfg) (as bs : List Action) : run c (as ++ bs) = run (run c as) bs := by
  induction as generalizing c with
  | nil => rfl
  | cons a as ih => simp [run, ih]

theorem inv_run {P : Cfg → Prop} (hstep : ∀ c a, P c → P (step c a)) : ∀ (as : List Action) (c : Cfg), P c → P (run c as)
  | [], _, h => h
  | a :: as, c, h => inv_run hstep as (step c a) (hstep c a h)

def Reachable (c : Cfg) : Prop := ∃ as, c = run init as

theorem reachable_of_inv {P : Cfg → Prop} (h0 : P init) (hstep : ∀ c a, P c → P (step c a)) {c : Cfg} (hr : Reachable c) : P c := by
  obtain ⟨as, rfl⟩ := hr
  exact inv_run hstep as init h0

theorem Reachable.run {c : Cfg} (h : Reachable c) (as : List Action) : Reachable (run c as) := by
  obtain ⟨bs, rfl⟩ := h
  exact ⟨bs ++ as, by rw [run_append]⟩

theorem step_of_apply {P : Cfg → Prop} (c : Cfg) (a : Action) (h : P c) (ha : enabled c a = true → P (apply c a)) : P (step c a) := by
  unfold step
  by_cases he : enabled c a = true
  · simp only [he, if_true]; exact ha he
  · simp only [he]; exact h

/-- unfold one step down to record updates -/
macro "unf" : tactic => `(tactic| simp only [apply, setS, setG, upd, Sender.afterPin, Sender.afterGate, Sender.afterEnqueue,
  Sender.failWith, Sender.afterCheck, Sender.afterLoad, Sender.afterUnlock, Sender.afterDecide, Sender.finish] at *)

/-! ## I-gen: generations -/

/-- the order in which a generation's flags can be set -/
def Chain (x : Gen) : Prop :=
  (x.joined = true → x.genDone = true) ∧
  (x.genDone = true → x.stopped = true) ∧
  (x.stopped = true → x.ctxDone = true) ∧
  (x.ctxDone = true → x.sockOpen = false ∧ x.connUp = false) ∧
  (x.genDone = true → x.sockOpen = false) ∧
  (x.sockOpen = true → x.connUp = true)

structure GenOk (c : Cfg) : Prop where
  /-- generations not yet published are untouched -/
  fresh : ∀ g, c.nGens ≤ g → (c.g g).connUp = false ∧ (c.g g).ctxDone = false ∧ (c.g g).sockOpen = false
  /-- at most one generation is not yet joined, and it is the current one -/
  alive : ∀ g, g < c.nGens → (c.g g).joined = false → c.cur = some g
  curlt : ∀ g, c.cur = some g → g < c.nGens
  /-- the transport's published bundle belongs to the core's current epoch and is cleared before Stop goes on -/
  tgen : ∀ g, c.tgen = some g → c.cur = some g ∧ (c.g g).stopped = false
  chain : ∀ g, Chain (c.g g)

theorem genOk_init : GenOk init := by
  constructor <;> simp [init, Chain]

macro "gen_tac" h1:ident h2:ident h3:ident h4:ident h5:ident : tactic => `(tactic| (
  intro g
  have := $h1 g; have := $h2 g; have := $h3 g; have := $h4 g; have := $h5 g
  simp only [curJoined, Chain, upd] at *
  grind))

theorem genOk_apply_a (c : Cfg) (a : Action) (he : enabled c a = true) (h : GenOk c) :
    (∀ g, (apply c a).nGens ≤ g → ((apply c a).g g).connUp = false ∧ ((apply c a).g g).ctxDone = false ∧ ((apply c a).g g).sockOpen = false) ∧
    (∀ g, g < (apply c a).nGens → ((apply c a).g g).joined = false → (apply c a).cur = some g) := by
  obtain ⟨h1, h2, h3, h4, h5⟩ := h
  cases a <;> simp only [enabled] at he <;> simp only [apply, setS, setG]
  all_goals (constructor <;> gen_tac h1 h2 h3 h4 h5)

theorem genOk_apply_b (c : Cfg) (a : Action) (he : enabled c a = true) (h : GenOk c) :
    (∀ g, (apply c a).cur = some g → g < (apply c a).nGens) ∧
    (∀ g, (apply c a).tgen = some g → (apply c a).cur = some g ∧ ((apply c a).g g).stopped = false) := by
  obtain ⟨h1, h2, h3, h4, h5⟩ := h
  cases a <;> simp only [enabled] at he <;> simp only [apply, setS, setG]
  all_goals (constructor <;> gen_tac h1 h2 h3 h4 h5)

theorem genOk_apply_c (c : Cfg) (a : Action) (he : enabled c a = true) (h : GenOk c) : ∀ g, Chain ((apply c a).g g) := by
  obtain ⟨h1, h2, h3, h4, h5⟩ := h
  cases a <;> simp only [enabled] at he <;> simp only [apply, setS, setG]
  all_goals gen_tac h1 h2 h3 h4 h5

theorem genOk_apply (c : Cfg) (a : Action) (he : enabled c a = true) (h : GenOk c) : GenOk (apply c a) :=
  ⟨(genOk_apply_a c a he h).1, (genOk_apply_a c a he h).2, (genOk_apply_b c a he h).1, (genOk_apply_b c a he h).2,
   genOk_apply_c c a he h⟩

/-! ## I-link: sender records, the engine's current request, the wire log, the write lock -/

/-- facts about one sender record -/
def SLoc (w : Sender) : Prop :=
  (w.pc.rank ≤ 6 → w.gs = none) ∧ (∀ g, w.gs = some g → w.ep = g) ∧
  ((w.pc = .loaded ∨ w.pc = .handed) → w.gs = some w.ep) ∧ (w.pc.rank ≤ 7 → w.done = none)

/-- the request an engine works on was handed off on that engine's own generation, and has not been answered -/
def EngOk (c : Cfg) : Prop :=
  ∀ g i, (c.g g).eng.req = some i → (c.s i).gs = some g ∧ 8 ≤ (c.s i).pc.rank ∧ (c.s i).done = none

def WireOk (c : Cfg) : Prop :=
  ∀ ev, ev ∈ c.wire → (c.s ev.src).gs = some ev.sock ∧ 8 ≤ (c.s ev.src).pc.rank

/-- program counters at which a sender holds its epoch's write lock -/
def holds (p : Pc) : Bool := p = .locked || p = .checked || p = .loaded || p = .handed || p = .returned

def LockOk (c : Cfg) : Prop :=
  (∀ g i, (c.g g).lock = some i → (c.s i).ep = g ∧ holds (c.s i).pc = true) ∧
  (∀ i, holds (c.s i).pc = true → (c.g (c.s i).ep).lock = some i)

theorem sloc_apply (c : Cfg) (a : Action) (he : enabled c a = true) (h : ∀ j, SLoc (c.s j)) (h3 : EngOk c) :
    ∀ j, SLoc ((apply c a).s j) := by
  intro j
  have hj := h j
  cases a <;> simp only [enabled] at he <;> unf
  all_goals (try exact hj)
  all_goals (try (have hi := h ‹Nat›))
  all_goals (simp only [SLoc, EngOk] at * ; grind [Pc.rank, Eng.req])

theorem engOk_apply (c : Cfg) (a : Action) (he : enabled c a = true) (h : ∀ j, SLoc (c.s j)) (h3 : EngOk c) :
    EngOk (apply c a) := by
  intro g i
  have h3' := h3 g i
  have hi := h i
  cases a <;> simp only [enabled] at he <;> unf
  all_goals (try exact h3')
  all_goals (simp only [SLoc, EngOk] at * ; grind [Pc.rank, Eng.req])

theorem wireOk_apply (c : Cfg) (a : Action) (he : enabled c a = true) (h : ∀ j, SLoc (c.s j)) (h3 : EngOk c)
    (h4 : WireOk c) : WireOk (apply c a) := by
  intro ev
  have h4' := h4 ev
  have hi := h ev.src
  cases a <;> simp only [enabled] at he <;> unf
  all_goals (try exact h4')
  all_goals (simp only [SLoc, EngOk, WireOk] at * ; grind [Pc.rank, Eng.req])

theorem lockOk_apply_a (c : Cfg) (a : Action) (he : enabled c a = true) (h5 : LockOk c) :
    ∀ g i, ((apply c a).g g).lock = some i → ((apply c a).s i).ep = g ∧ holds ((apply c a).s i).pc = true := by
  obtain ⟨h5a, h5b⟩ := h5
  cases a <;> simp only [enabled] at he <;> unf
  all_goals (first | exact h5a | skip)
  all_goals (intros <;> simp only [holds, upd] at * <;> grind [Pc.rank])

theorem lockOk_apply_b (c : Cfg) (a : Action) (he : enabled c a = true) (h5 : LockOk c) :
    ∀ i, holds ((apply c a).s i).pc = true → ((apply c a).g ((apply c a).s i).ep).lock = some i := by
  obtain ⟨h5a, h5b⟩ := h5
  cases a <;> simp only [enabled] at he <;> unf
  all_goals (first | exact h5b | skip)
  all_goals (intros <;> simp only [holds, upd] at * <;> grind [Pc.rank])

theorem lockOk_apply (c : Cfg) (a : Action) (he : enabled c a = true) (h5 : LockOk c) : LockOk (apply c a) := by
  unfold LockOk
  exact ⟨lockOk_apply_a c a he h5, lockOk_apply_b c a he h5⟩

structure Inv (c : Cfg) : Prop where
  gen : GenOk c
  sloc : ∀ j, SLoc (c.s j)
  eng : EngOk c
  wire : WireOk c
  lock : LockOk c

theorem inv_init : Inv init := by
  refine ⟨genOk_init, ?_, ?_, ?_, ?_⟩
  · intro j; simp [init, SLoc, Pc.rank]
  · intro g i; simp [init, Eng.req]
  · intro ev; simp [init]
  · constructor <;> simp [init, holds]

theorem inv_step (c : Cfg) (a : Action) (h : Inv c) : Inv (step c a) :=
  step_of_apply c a h fun he =>
    ⟨genOk_apply c a he h.gen, sloc_apply c a he h.sloc h.eng, engOk_apply c a he h.sloc h.eng,
     wireOk_apply c a he h.sloc h.eng h.wire, lockOk_apply c a he h.lock⟩

theorem inv_reachable {c : Cfg} (hr : Reachable c) : Inv c := reachable_of_inv inv_init inv_step hr

/-! ## what never changes again -/

/-- a generation whose socket is closed for good: torn down, or dropped by the peer -/
def Dead (x : Gen) : Bool := (x.ctxDone || x.connUp) && !x.sockOpen

theorem dead_of_ctxDone {c : Cfg} (h : Inv c) (g : Nat) (ht : (c.g g).ctxDone = true) : Dead (c.g g) = true := by
  have := h.gen.chain g
  simp only [Chain] at this
  simp only [Dead]
  grind

theorem dead_step (c : Cfg) (a : Action) (g : Nat) (h : Dead (c.g g) = true) : Dead ((step c a).g g) = true := by
  unfold step
  split
  · rename_i he
    cases a <;> simp only [enabled] at he <;> unf <;> simp only [Dead] at * <;> grind
  · exact h

theorem dead_run (g : Nat) : ∀ (as : List Action) (c : Cfg), Dead (c.g g) = true → Dead ((run c as).g g) = true
  | [], _, h => h
  | a :: as, c, h => dead_run g as (step c a) (dead_step c a g h)

/-- the flags of a generation are set once -/
theorem flags_step (c : Cfg) (a : Action) (g : Nat) :
    ((c.g g).ctxDone = true → ((step c a).g g).ctxDone = true) ∧ ((c.g g).stopped = true → ((step c a).g g).stopped = true) ∧
    ((c.g g).genDone = true → ((step c a).g g).genDone = true) ∧ ((c.g g).joined = true → ((step c a).g g).joined = true) := by
  unfold step
  split
  · rename_i he
    cases a <;> simp only [enabled] at he <;> unf <;> grind
  · simp

theorem ctxDone_run (g : Nat) : ∀ (as : List Action) (c : Cfg), (c.g g).ctxDone = true → ((run c as).g g).ctxDone = true
  | [], _, h => h
  | a :: as, c, h => ctxDone_run g as (step c a) ((flags_step c a g).1 h)

theorem genDone_run (g : Nat) : ∀ (as : List Action) (c : Cfg), (c.g g).genDone = true → ((run c as).g g).genDone = true
  | [], _, h => h
  | a :: as, c, h => genDone_run g as (step c a) ((flags_step c a g).2.2.1 h)

def onSock (g : Nat) (ev : WireEv) : Bool := ev.sock = g
def byGen (g : Nat) (d : Deliv) : Bool := d.gen = g

/-- nothing is written on, read from or delivered by a dead generation -/
theorem frozen_step (c : Cfg) (a : Action) (g : Nat) (h : Dead (c.g g) = true) :
    (step c a).wire.filter (onSock g) = c.wire.filter (onSock g) ∧ (step c a).deliv.filter (byGen g) = c.deliv.filter (byGen g) ∧
    (step c a).rxlog.filter (· = g) = c.rxlog.filter (· = g) := by
  unfold step
  split
  · rename_i he
    cases a <;> simp only [enabled] at he <;> unf <;> simp only [Dead, List.filter_cons] at * <;> grind [onSock, byGen]
  · simp

theorem frozen_run (g : Nat) : ∀ (as : List Action) (c : Cfg), Dead (c.g g) = true →
    (run c as).wire.filter (onSock g) = c.wire.filter (onSock g) ∧ (run c as).deliv.filter (byGen g) = c.deliv.filter (byGen g) ∧
    (run c as).rxlog.filter (· = g) = c.rxlog.filter (· = g)
  | [], _, _ => ⟨rfl, rfl, rfl⟩
  | a :: as, c, h => by
    obtain ⟨a1, a2, a3⟩ := frozen_run g as (step c a) (dead_step c a g h)
    obtain ⟨b1, b2, b3⟩ := frozen_step c a g h
    exact ⟨by rw [run, a1, b1], by rw [run, a2, b2], by rw [run, a3, b3]⟩

/-- a sender's program counter only moves forward; its pinned epoch and the bundle it loaded stay -/
theorem sender_stable_step (c : Cfg) (a : Action) (i : Nat) :
    (c.s i).pc.rank ≤ ((step c a).s i).pc.rank ∧ (2 ≤ (c.s i).pc.rank → ((step c a).s i).ep = (c.s i).ep) ∧
    (7 ≤ (c.s i).pc.rank → ((step c a).s i).gs = (c.s i).gs) := by
  unfold step
  split
  · rename_i he
    cases a <;> simp only [enabled] at he <;> unf <;> grind [Pc.rank]
  · simp

theorem sender_stable_run (i : Nat) : ∀ (as : List Action) (c : Cfg),
    (c.s i).pc.rank ≤ ((run c as).s i).pc.rank ∧ (2 ≤ (c.s i).pc.rank → ((run c as).s i).ep = (c.s i).ep) ∧
    (7 ≤ (c.s i).pc.rank → ((run c as).s i).gs = (c.s i).gs)
  | [], _ => ⟨Nat.le_refl _, fun _ => rfl, fun _ => rfl⟩
  | a :: as, c => by
    obtain ⟨a1, a2, a3⟩ := sender_stable_step c a i
    obtain ⟨b1, b2, b3⟩ := sender_stable_run i as (step c a)
    refine ⟨Nat.le_trans a1 b1, fun h => ?_, fun h => ?_⟩
    · rw [run, b2 (Nat.le_trans h a1), a2 h]
    · rw [run, b3 (Nat.le_trans h a1), a3 h]

/-! ## I-deliv: what the assembler holds and what it delivered -/

def PartOk (c : Cfg) : Prop := ∀ g bs, (c.g g).part = some bs → ∀ b, b ∈ bs → b = g

def DelivOk (c : Cfg) : Prop := ∀ d, d ∈ c.deliv → d.cur = some d.gen ∧ ∀ b, b ∈ d.blocks → b = d.gen

theorem asmStep_blocks (p : Option (List Nat)) (g : Nat) (a : Asm) (hp : ∀ bs, p = some bs → ∀ b, b ∈ bs → b = g) :
    (∀ bs, (asmStep p g a).1 = some bs → ∀ b, b ∈ bs → b = g) ∧ (∀ bs, (asmStep p g a).2 = some bs → ∀ b, b ∈ bs → b = g) := by
  cases a with
  | drop => simpa [asmStep] using hp
  | discard => simp [asmStep]
  | first e => cases e <;> simp [asmStep]
  | cont e =>
    cases p with
    | none => simp [asmStep]
    | some bs0 =>
      have := hp bs0 rfl
      cases e <;> simp [asmStep] <;> grind

theorem partOk_apply (c : Cfg) (a : Action) (he : enabled c a = true) (h : PartOk c) : PartOk (apply c a) := by
  intro g bs
  have hg := h g
  cases a <;> simp only [enabled] at he <;> unf
  all_goals (try exact hg bs)
  case rx g' x =>
    by_cases hgg : g = g'
    · subst hgg
      simp only [if_true]
      exact (asmStep_blocks (c.g g).part g x (fun bs hb => hg bs hb)).1 bs
    · simp only [hgg, if_false]; exact hg bs
  all_goals grind

theorem delivOk_apply (c : Cfg) (a : Action) (he : enabled c a = true) (hi : Inv c) (hp : PartOk c) (h : DelivOk c) :
    DelivOk (apply c a) := by
  intro d
  have hd := h d
  cases a <;> simp only [enabled] at he <;> unf
  all_goals (try exact hd)
  case rx g x =>
    have hs := asmStep_blocks (c.g g).part g x (fun bs hb => hp g bs hb)
    cases hst : (asmStep (c.g g).part g x).2 with
    | none => simpa using hd
    | some bs =>
      simp only [List.mem_cons]
      rintro (rfl | hm)
      · have hch := hi.gen.chain g
        have hfr := hi.gen.fresh g
        have hal := hi.gen.alive g
        simp only [Chain] at hch
        refine ⟨?_, fun b hb => hs.2 bs hst b hb⟩
        simp only
        grind
      · exact hd hm

structure Inv2 (c : Cfg) : Prop extends Inv c where
  part : PartOk c
  deliv : DelivOk c

theorem inv2_init : Inv2 init :=
  ⟨inv_init, by intro g bs; simp [init], by intro d; simp [init]⟩

theorem inv2_step (c : Cfg) (a : Action) (h : Inv2 c) : Inv2 (step c a) :=
  step_of_apply c a h fun he =>
    { toInv := by have := inv_step c a h.toInv; unfold step at this; simpa [he] using this
      part := partOk_apply c a he h.part
      deliv := delivOk_apply c a he h.toInv h.part h.deliv }

theorem inv2_reachable {c : Cfg} (hr : Reachable c) : Inv2 c := reachable_of_inv inv2_init inv2_step hr

end GoSecs.S1T
