/-
  Helper lemmas for the responder model (Props/C08 and Props/C07 state the property theorems).
-/
import GoSecs.Model.Responder
import GoSecs.Spec.E37Table
import GoSecs.Gen.Facts

set_option linter.unusedSimpArgs false

namespace GoSecs.Responder
open GoSecs.E37

/-! ### registry lookup: model vs table -/

theorem txOf_eq_lookup (s : RState) (sys : Nat) :
    txOf s sys = (match lookup s sys with | .miss => Tx.none | .ownSelect => Tx.ownSelect | .other => Tx.other | .data => Tx.data) := by
  unfold txOf lookup
  cases hs : s.openSel with
  | none => by_cases hm : sys ∈ s.openOther <;> simp [hm]
  | some x =>
    by_cases hx : x = sys
    · simp [hx]
    · by_cases hm : sys ∈ s.openOther <;> simp [hx, hm]

theorem closeTx_eq_close (s : RState) (sys : Nat) : closeTx s sys = close s sys := by
  unfold closeTx close
  rw [txOf_eq_lookup]
  unfold lookup
  by_cases h1 : s.openSel = some sys
  · simp [h1]
  · by_cases hm : sys ∈ s.openOther <;> simp [h1, hm]

theorem txOfAny_eq_lookupAny (s : RState) (sys : Nat) :
    txOfAny s sys = (match lookupAny s sys with | .miss => Tx.none | .ownSelect => Tx.ownSelect | .other => Tx.other | .data => Tx.data) := by
  unfold txOfAny
  rw [txOf_eq_lookup]
  unfold lookup lookupAny
  by_cases h1 : s.openSel = some sys
  · simp [h1]
  · by_cases hm : sys ∈ s.openOther
    · simp [h1, hm]
    · by_cases hd : sys ∈ s.openData <;> simp [h1, hm, hd]

theorem closeDataTx_eq (s : RState) (sys : Nat) : closeDataTx s sys = closeData s sys := rfl

theorem isReply_eq (f : Frame) : isReply f = isSecondaryReply f := by
  unfold isReply isSecondaryReply
  by_cases h : f.b2 < 128
  · have : f.b2 / 128 = 0 := by omega
    simp [h, this]
  · have : f.b2 / 128 ≠ 0 := by omega
    simp [h, this]

theorem wantsS9F1_eq (c : Cfg) (f : Frame) :
    wantsS9F1 c f = (c.validate && !isS9F1 f && f.session != c.sessionID) := by
  unfold wantsS9F1 isS9F1
  cases c.validate <;> cases (f.session != c.sessionID) <;> cases (f.b2 % 128 == 9 && f.b3 == 1) <;> rfl

/-! ### classification and the main correspondence: the transcribed dispatcher meets the table -/

theorem lookup_stype (n : Nat) :
    stypeTable.lookup n =
      if n = 0 then some .data else if n = 1 then some .selectReq else if n = 2 then some .selectRsp
      else if n = 3 then some .deselectReq else if n = 4 then some .deselectRsp else if n = 5 then some .linktestReq
      else if n = 6 then some .linktestRsp else if n = 7 then some .rejectReq else if n = 9 then some .separateReq
      else none := by
  by_cases h0 : n = 0; · subst h0; rfl
  by_cases h1 : n = 1; · subst h1; rfl
  by_cases h2 : n = 2; · subst h2; rfl
  by_cases h3 : n = 3; · subst h3; rfl
  by_cases h4 : n = 4; · subst h4; rfl
  by_cases h5 : n = 5; · subst h5; rfl
  by_cases h6 : n = 6; · subst h6; rfl
  by_cases h7 : n = 7; · subst h7; rfl
  by_cases h9 : n = 9; · subst h9; rfl
  have e0 : (n == 0) = false := by simp [h0]
  have e1 : (n == 1) = false := by simp [h1]
  have e2 : (n == 2) = false := by simp [h2]
  have e3 : (n == 3) = false := by simp [h3]
  have e4 : (n == 4) = false := by simp [h4]
  have e5 : (n == 5) = false := by simp [h5]
  have e6 : (n == 6) = false := by simp [h6]
  have e7 : (n == 7) = false := by simp [h7]
  have e9 : (n == 9) = false := by simp [h9]
  simp only [stypeTable, List.lookup, e0, e1, e2, e3, e4, e5, e6, e7, e9, h0, h1, h2, h3, h4, h5, h6, h7, h9, reduceIte]

theorem classOf_cases (f : Frame) :
    (f.ptype ≠ 0 ∧ classOf f = .unsupportedPType) ∨
    (f.ptype = 0 ∧ isValidSType f.stype = false ∧ classOf f = .undefinedSType) ∨
    (f.ptype = 0 ∧ isValidSType f.stype = true ∧ f.stype ≠ 0 ∧ f.bodyLen ≠ 0 ∧ classOf f = .controlWithBody) ∨
    (f.ptype = 0 ∧ f.stype = 0 ∧ classOf f = .data) ∨
    (f.ptype = 0 ∧ f.bodyLen = 0 ∧
      ((f.stype = 1 ∧ classOf f = .selectReq) ∨ (f.stype = 2 ∧ classOf f = .selectRsp) ∨
       (f.stype = 3 ∧ classOf f = .deselectReq) ∨ (f.stype = 4 ∧ classOf f = .deselectRsp) ∨
       (f.stype = 5 ∧ classOf f = .linktestReq) ∨ (f.stype = 6 ∧ classOf f = .linktestRsp) ∨
       (f.stype = 7 ∧ classOf f = .rejectReq) ∨ (f.stype = 9 ∧ classOf f = .separateReq))) := by
  unfold classOf
  rw [lookup_stype]
  by_cases hp : f.ptype = 0
  · by_cases h0 : f.stype = 0; · simp [hp, h0]
    by_cases hb : f.bodyLen = 0
    · by_cases h1 : f.stype = 1; · simp [hp, hb, h1]
      by_cases h2 : f.stype = 2; · simp [hp, hb, h2]
      by_cases h3 : f.stype = 3; · simp [hp, hb, h3]
      by_cases h4 : f.stype = 4; · simp [hp, hb, h4]
      by_cases h5 : f.stype = 5; · simp [hp, hb, h5]
      by_cases h6 : f.stype = 6; · simp [hp, hb, h6]
      by_cases h7 : f.stype = 7; · simp [hp, hb, h7]
      by_cases h9 : f.stype = 9; · simp [hp, hb, h9]
      right; left
      simp [hp, isValidSType, h0, h1, h2, h3, h4, h5, h6, h7, h9]
    · by_cases h1 : f.stype = 1; · simp [hp, hb, h1, isValidSType]
      by_cases h2 : f.stype = 2; · simp [hp, hb, h2, isValidSType]
      by_cases h3 : f.stype = 3; · simp [hp, hb, h3, isValidSType]
      by_cases h4 : f.stype = 4; · simp [hp, hb, h4, isValidSType]
      by_cases h5 : f.stype = 5; · simp [hp, hb, h5, isValidSType]
      by_cases h6 : f.stype = 6; · simp [hp, hb, h6, isValidSType]
      by_cases h7 : f.stype = 7; · simp [hp, hb, h7, isValidSType]
      by_cases h9 : f.stype = 9; · simp [hp, hb, h9, isValidSType]
      right; left
      simp [hp, isValidSType, h0, h1, h2, h3, h4, h5, h6, h7, h9]
  · left; simp [hp]

theorem selected_eq (s : RState) : selected s = true ↔ s.st = .selected := by
  unfold selected; cases s.st <;> simp

theorem enterSelected_eq (s : RState) : enterSelected s = (commitSelected s).1 := by
  unfold enterSelected commitSelected; split <;> rfl

theorem dispatch_eq_prescribed (c : Cfg) (s : RState) (f : Frame) (h : s.st ≠ .notConnected) :
    dispatch c s f = prescribed c s f := by
  unfold prescribed dispatch
  simp only [h, reduceIte]
  rcases classOf_cases f with ⟨hp, hc⟩ | ⟨hp, hv, hc⟩ | ⟨hp, hv, h0, hb, hc⟩ | ⟨hp, h0, hc⟩ | ⟨hp, hb, hrest⟩
  · rw [hc]; simp [hp, sendReject, rejectRaw, reject, rejectPTypeNotSupported, stRejectReq]
  · rw [hc]; simp [hp, hv, sendReject, rejectRaw, reject, rejectPTypeNotSupported, rejectSTypeNotSupported, stRejectReq]
  · rw [hc]; simp [hp, hv, h0, hb, stData, sendReject, rejectRaw, reject, rejectPTypeNotSupported, rejectSTypeNotSupported, stRejectReq]
  · -- data
    rw [hc]
    have hv0 : isValidSType 0 = true := rfl
    simp only [hp, hv0, h0, stData, ne_eq, not_true_eq_false, decide_false, Bool.not_true, Bool.or_self,
      Bool.false_eq_true, reduceIte, Bool.false_and, handleData]
    by_cases hs : s.st = .selected
    · have hsel : selected s = true := (selected_eq s).mpr hs
      simp only [hs, hsel, not_true_eq_false, reduceIte, Bool.not_true, Bool.false_eq_true, wantsS9F1_eq, isReply_eq,
        closeDataTx_eq]
      cases hv1 : (c.validate && !isS9F1 f && f.session != c.sessionID) <;>
        cases hr : isSecondaryReply f <;> by_cases hm : f.sys ∈ s.openData <;> simp [hm]
    · have hsel : selected s = false := by
        cases hh : selected s
        · rfl
        · exact absurd ((selected_eq s).mp hh) hs
      simp [hs, hsel, sendRejectNotSelected, rejectRaw, reject, rejectNotSelected, rejectPTypeNotSupported, stRejectReq, h0]
  · -- header-only control frames
    have hsel : selected s = decide (s.st = .selected) := by unfold selected; cases s.st <;> rfl
    have v1 : isValidSType 1 = true := rfl
    have v2 : isValidSType 2 = true := rfl
    have v3 : isValidSType 3 = true := rfl
    have v4 : isValidSType 4 = true := rfl
    have v5 : isValidSType 5 = true := rfl
    have v6 : isValidSType 6 = true := rfl
    have v7 : isValidSType 7 = true := rfl
    have v9 : isValidSType 9 = true := rfl
    rcases hrest with ⟨hs, hc⟩ | ⟨hs, hc⟩ | ⟨hs, hc⟩ | ⟨hs, hc⟩ | ⟨hs, hc⟩ | ⟨hs, hc⟩ | ⟨hs, hc⟩ | ⟨hs, hc⟩
    · -- Select.req
      rw [hc]
      simp only [hp, hs, hb, v1, stData, stSelectRsp, stDeselectRsp, stLinktestRsp, stRejectReq, stSelectReq]
      cases hst : s.st <;> simp_all [handleSelectReq, commitSelected, enterSelected, selectRsp,
        selectStatusSuccess, selectStatusAlreadyActive, stSelectRsp]
    · -- Select.rsp
      rw [hc]
      simp only [hp, hs, hb, v2, stData, stSelectRsp, stDeselectRsp, stLinktestRsp, stRejectReq, stSelectReq,
        handleResponse, txOf_eq_lookup, closeTx_eq_close, enterSelected_eq, down, disconnected]
      cases hl : lookup s f.sys <;>
        simp [sendRejectTransactionNotOpen, rejectRaw, reject, rejectTransactionNotOpen, rejectPTypeNotSupported,
          stRejectReq, hs, selectStatusSuccess, selectStatusAlreadyActive, stSelectRsp]
    · -- Deselect.req
      rw [hc]
      simp only [hp, hs, hb, v3, stData, stSelectRsp, stDeselectRsp, stLinktestRsp, stRejectReq, stSelectReq,
        stLinktestReq, stDeselectReq]
      cases hst : s.st <;> simp_all [handleDeselectReq, deselectRsp, deselectStatusSuccess,
        deselectStatusNotEstablished, stDeselectRsp, leaveSelected]
    · -- Deselect.rsp
      rw [hc]
      simp only [hp, hs, hb, v4, stData, stSelectRsp, stDeselectRsp, stLinktestRsp, stRejectReq, stSelectReq,
        handleResponse, txOf_eq_lookup, closeTx_eq_close, down, disconnected]
      cases hl : lookup s f.sys <;>
        simp [sendRejectTransactionNotOpen, rejectRaw, reject, rejectTransactionNotOpen, rejectPTypeNotSupported,
          stRejectReq, hs, selectStatusSuccess, selectStatusAlreadyActive, stSelectRsp]
    · -- Linktest.req
      rw [hc]
      simp [hp, hs, hb, v5, stData, stSelectRsp, stDeselectRsp, stLinktestRsp, stRejectReq, stSelectReq,
        stLinktestReq, handleLinktestReq, linktestRsp]
    · -- Linktest.rsp
      rw [hc]
      simp only [hp, hs, hb, v6, stData, stSelectRsp, stDeselectRsp, stLinktestRsp, stRejectReq, stSelectReq,
        handleResponse, txOf_eq_lookup, closeTx_eq_close, down, disconnected]
      cases hl : lookup s f.sys <;>
        simp [sendRejectTransactionNotOpen, rejectRaw, reject, rejectTransactionNotOpen, rejectPTypeNotSupported,
          stRejectReq, hs, selectStatusSuccess, selectStatusAlreadyActive, stSelectRsp]
    · -- Reject.req
      rw [hc]
      simp only [hp, hs, hb, v7, stData, stSelectRsp, stDeselectRsp, stLinktestRsp, stRejectReq, stSelectReq,
        handleResponse, txOfAny_eq_lookupAny, closeTx_eq_close, closeDataTx_eq, down, disconnected, reduceIte]
      cases hl : lookupAny s f.sys <;>
        simp [stRejectReq, hs, selectStatusSuccess, selectStatusAlreadyActive, stSelectRsp]
    · -- Separate.req
      rw [hc]
      simp only [hp, hs, hb, v9, stData, stSelectRsp, stDeselectRsp, stLinktestRsp, stRejectReq, stSelectReq,
        stLinktestReq, stDeselectReq, stSeparateReq]
      cases hst : s.st <;> simp_all [handleSeparateReq, down, disconnected]

/-! ### per-frame facts, read off the table -/

def Out.isReject : Out → Bool
  | .ctrl _ _ _ st _ => st == 7
  | _ => false

/-- What "echo" means for one output of handling `f`. -/
def Out.echoes (f : Frame) : Out → Prop
  | .ctrl sess b2 b3 st sys =>
    sys = f.sys ∧
    (st = 7 → sess = f.session ∧ (b3 = 1 ∨ b3 = 2 ∨ b3 = 3 ∨ b3 = 4) ∧ (b3 = 2 → b2 = f.ptype ∧ f.ptype ≠ 0) ∧
      (b3 = 1 ∨ b3 = 3 → b2 = f.stype) ∧ (b3 = 4 → b2 = 0 ∧ f.stype = 0 ∧ f.ptype = 0))
  | _ => True

theorem dispatch_notConnected (c : Cfg) (s : RState) (f : Frame) (h : s.st = .notConnected) :
    dispatch c s f = (s, [], .none) := by simp [dispatch, h]

theorem classOf_data (f : Frame) (h : classOf f = .data) : f.stype = 0 ∧ f.ptype = 0 := by
  rcases classOf_cases f with ⟨_, hc⟩ | ⟨_, _, hc⟩ | ⟨_, _, _, _, hc⟩ | ⟨hp, h0, _⟩ | ⟨_, _, hr⟩
  · rw [h] at hc; cases hc
  · rw [h] at hc; cases hc
  · rw [h] at hc; cases hc
  · exact ⟨h0, hp⟩
  · rcases hr with ⟨_, hc⟩ | ⟨_, hc⟩ | ⟨_, hc⟩ | ⟨_, hc⟩ | ⟨_, hc⟩ | ⟨_, hc⟩ | ⟨_, hc⟩ | ⟨_, hc⟩ <;> (rw [h] at hc; cases hc)

theorem classOf_ptype (f : Frame) (h : classOf f = .unsupportedPType) : f.ptype ≠ 0 := by
  rcases classOf_cases f with ⟨hp, _⟩ | ⟨_, _, hc⟩ | ⟨_, _, _, _, hc⟩ | ⟨_, _, hc⟩ | ⟨_, _, hr⟩
  · exact hp
  · rw [h] at hc; cases hc
  · rw [h] at hc; cases hc
  · rw [h] at hc; cases hc
  · rcases hr with ⟨_, hc⟩ | ⟨_, hc⟩ | ⟨_, hc⟩ | ⟨_, hc⟩ | ⟨_, hc⟩ | ⟨_, hc⟩ | ⟨_, hc⟩ | ⟨_, hc⟩ <;> (rw [h] at hc; cases hc)

theorem prescribed_echo (c : Cfg) (s : RState) (f : Frame) : ∀ o ∈ (prescribed c s f).2.1, o.echoes f := by
  unfold prescribed
  cases hc : classOf f <;> simp only []
  all_goals (repeat' split)
  all_goals simp_all [Out.echoes, reject, selectRsp, deselectRsp, linktestRsp]
  · exact classOf_ptype f hc
  · exact classOf_data f hc

theorem prescribed_len (c : Cfg) (s : RState) (f : Frame) : (prescribed c s f).2.1.length ≤ 1 := by
  unfold prescribed
  cases hc : classOf f <;> simp only []
  all_goals (repeat' split)
  all_goals simp

theorem prescribed_reject (c : Cfg) (s : RState) (f : Frame) (h : ∃ o ∈ (prescribed c s f).2.1, o.isReject = true) :
    (prescribed c s f).1 = s ∧ (prescribed c s f).2.2 = .none := by
  revert h
  unfold prescribed
  cases hc : classOf f <;> simp only []
  all_goals (repeat' split)
  all_goals simp_all [Out.isReject, reject, selectRsp, deselectRsp, linktestRsp]

theorem prescribed_effect (c : Cfg) (s : RState) (f : Frame) (h : (prescribed c s f).2.2 ≠ .none) :
    (prescribed c s f).2.1 = [] ∧ (prescribed c s f).1.st = .notConnected := by
  revert h
  unfold prescribed
  cases hc : classOf f <;> simp only []
  all_goals (repeat' split)
  all_goals simp_all [disconnected]

/-! ### sequences -/

theorem run_eq_runTable (c : Cfg) : ∀ (fs : List Frame) (s : RState), run c s fs = runTable c s fs
  | [], s => rfl
  | f :: fs, s => by
    simp only [run, runTable]
    by_cases h : s.st = .notConnected
    · simp only [h, reduceIte, dispatch_notConnected c s f h]
      rw [run_eq_runTable c fs s]
    · simp only [h, reduceIte, dispatch_eq_prescribed c s f h]
      rw [run_eq_runTable c fs _]

/-- No transaction of our own is open (always the case for a passive endpoint without auto-linktest / W sends). -/
def NoTx (s : RState) : Prop := s.openSel = none ∧ s.openOther = [] ∧ s.openData = []

theorem txOf_noTx (s : RState) (h : NoTx s) (sys : Nat) : txOf s sys = .none := by
  unfold txOf; simp [h.1, h.2]

theorem prescribed_mark (c : Cfg) (s : RState) (f : Frame) (hn : NoTx s) (hu : s.st ≠ .notConnected) :
    NoTx (prescribed c s f).1 ∧
    (prescribed c s f).1.st =
      (match markOf f with
       | .establishes => St.selected
       | .releases => St.notSelected
       | .separates => if s.st = .selected then St.notConnected else s.st
       | .neutral => s.st) ∧
    (markOf f = .neutral → (prescribed c s f).1.t7 = s.t7) := by
  have ht := txOf_noTx s hn f.sys
  have hta : txOfAny s f.sys = .none := by unfold txOfAny; simp [ht, hn.2.2]
  have hd : s.openData.contains f.sys = false := by simp [hn.2.2]
  unfold prescribed markOf
  cases hc : classOf f <;> simp only [ht, hta, hd, Bool.and_false, Bool.false_eq_true, reduceIte]
  all_goals (repeat' split)
  all_goals (cases hst : s.st <;> simp_all [NoTx, selected, enterSelected, leaveSelected, disconnected])

theorem run_fst_cons (c : Cfg) (s : RState) (f : Frame) (fs : List Frame) :
    (run c s (f :: fs)).1 = (run c (dispatch c s f).1 fs).1 := by
  simp [run]

theorem run_down (c : Cfg) : ∀ (fs : List Frame) (s : RState), s.st = .notConnected → (run c s fs).1 = s
  | [], _, _ => rfl
  | f :: fs, s, h => by
    rw [run_fst_cons, dispatch_notConnected c s f h]
    exact run_down c fs s h

theorem selectedAfter_snoc (init : Bool) (f : Frame) : ∀ l : List Frame,
    selectedAfter init (l ++ [f]) = selectedAfter (selectedAfter init [f]) l
  | [] => by simp [selectedAfter]
  | g :: l => by
    simp only [List.cons_append, selectedAfter]
    cases markOf g <;> simp only []
    exact selectedAfter_snoc init f l

theorem selected_iff_history_gen (c : Cfg) : ∀ (fs : List Frame) (s : RState), NoTx s → s.st ≠ .notConnected →
    (run c s fs).1.st ≠ .notConnected →
    ((run c s fs).1.st = .selected ↔ selectedAfter (decide (s.st = .selected)) fs.reverse = true)
  | [], s, _, _, _ => by simp [run, selectedAfter]
  | f :: fs, s, hn, hu, hfin => by
    rw [run_fst_cons] at hfin ⊢
    have hm := prescribed_mark c s f hn hu
    rw [← dispatch_eq_prescribed c s f hu] at hm
    have hu1 : (dispatch c s f).1.st ≠ .notConnected := by
      intro h
      rw [run_down c fs _ h] at hfin
      exact hfin h
    rw [selected_iff_history_gen c fs _ hm.1 hu1 hfin, List.reverse_cons, selectedAfter_snoc]
    have : decide ((dispatch c s f).1.st = .selected) = selectedAfter (decide (s.st = .selected)) [f] := by
      have h2 := hm.2
      simp only [selectedAfter]
      cases hmk : markOf f <;> simp only [hmk] at h2 ⊢
      · simp [h2]
      · simp [h2]
      · by_cases hs : s.st = .selected
        · simp [hs] at h2; exact absurd h2 hu1
        · simp [hs] at h2; simp [h2, hs]
      · simp [h2]
    rw [this]

theorem run_append (c : Cfg) : ∀ (a b : List Frame) (s : RState),
    run c s (a ++ b) = ((run c (run c s a).1 b).1, (run c s a).2 ++ (run c (run c s a).1 b).2)
  | [], b, s => by simp [run]
  | f :: a, b, s => by
    simp only [List.cons_append, run, run_append c a b]

theorem RState.ext' (a b : RState) (h1 : a.st = b.st) (h2 : a.openSel = b.openSel) (h3 : a.openOther = b.openOther)
    (h4 : a.openData = b.openData) (h5 : a.t7 = b.t7) : a = b := by
  cases a; cases b; simp_all

theorem neutral_keeps_state (c : Cfg) : ∀ (fs : List Frame) (s : RState), NoTx s → s.st ≠ .notConnected →
    (∀ f ∈ fs, markOf f = .neutral) → (run c s fs).1 = s
  | [], _, _, _, _ => rfl
  | f :: fs, s, hn, hu, hall => by
    rw [run_fst_cons]
    have hm := prescribed_mark c s f hn hu
    rw [← dispatch_eq_prescribed c s f hu, hall f (by simp)] at hm
    have he : (dispatch c s f).1 = s :=
      RState.ext' _ _ hm.2.1 (by rw [hm.1.1, hn.1]) (by rw [hm.1.2.1, hn.2.1]) (by rw [hm.1.2.2, hn.2.2]) (hm.2.2 rfl)
    rw [he]
    exact neutral_keeps_state c fs s hn hu (fun g hg => hall g (by simp [hg]))

/-- What the library does with a data message received while Selected (no local transaction pending). -/
def accepted (c : Cfg) (d : Frame) : List Out × Effect :=
  (if wantsS9F1 c d then [.s9f1 c.sessionID d] else [.deliver d], .none)

theorem prescribed_data_selected (c : Cfg) (s : RState) (d : Frame) (hn : NoTx s) (hs : s.st = .selected)
    (hd : classOf d = .data) : prescribed c s d = (s, accepted c d) := by
  unfold prescribed accepted
  simp only [hd, selected, hs]
  cases wantsS9F1 c d <;> cases isReply d <;> simp [hn.2.2]

theorem data_run_selected (c : Cfg) : ∀ (ds : List Frame) (s : RState), NoTx s → s.st = .selected →
    (∀ d ∈ ds, classOf d = .data) → run c s ds = (s, ds.map (accepted c))
  | [], _, _, _, _ => rfl
  | d :: ds, s, hn, hs, hall => by
    have hu : s.st ≠ .notConnected := by rw [hs]; simp
    have h1 : dispatch c s d = (s, accepted c d) := by
      rw [dispatch_eq_prescribed c s d hu, prescribed_data_selected c s d hn hs (hall d (by simp))]
    simp only [run, h1, data_run_selected c ds s hn hs (fun g hg => hall g (by simp [hg])), List.map_cons]

/-! ### send gates: invariant over histories -/

/-- Every data message on the wire was written while the state read under the write lock was Selected. -/
def WireOK (g : GState) : Prop := ∀ w ∈ g.wire, w.2.1 = true → w.2.2 = .selected

theorem writeFrame_wireOK (g : GState) (d : Bool) (sw : St) (id : Nat) (h : WireOK g) : WireOK (writeFrame g d sw id).1 := by
  unfold writeFrame
  cases hl : g.live <;> simp only [Bool.not_false, Bool.not_true, Bool.false_eq_true, reduceIte]
  · exact h
  · by_cases hc : (d && decide (sw ≠ .selected)) = true
    · simp only [hc, reduceIte]; exact h
    · simp only [hc, Bool.false_eq_true, reduceIte]
      intro w hw hd
      rcases List.mem_append.mp hw with hw | hw
      · exact h w hw hd
      · simp only [List.mem_singleton] at hw
        subst hw
        simp only at hd
        subst hd
        cases sw <;> simp_all

theorem applyOp_wireOK (g : GState) (op : GOp) (h : WireOK g) : WireOK (applyOp g op).1 := by
  cases op with
  | call e d s1 sw id =>
    simp only [applyOp, send]
    cases g.opened <;> simp only [Bool.not_false, Bool.not_true, Bool.false_eq_true, reduceIte]
    · exact h
    · by_cases hc : (d && decide (s1 ≠ .selected)) = true
      · simp only [hc, reduceIte]; exact h
      · simp only [hc, Bool.false_eq_true, reduceIte]
        cases e.isAsync <;> simp only [Bool.false_eq_true, reduceIte]
        · exact writeFrame_wireOK g d sw id h
        · cases g.live <;> simp only [Bool.false_eq_true, reduceIte] <;> exact h
  | drain sw =>
    simp only [applyOp, drain]
    cases hq : g.queued with
    | nil => exact h
    | cons q rest =>
      obtain ⟨id, d⟩ := q
      exact writeFrame_wireOK { g with queued := rest } d sw id h


/-! ### timers and the active select procedure -/

@[simp] theorem closeTx_st (s : RState) (x : Nat) : (closeTx s x).st = s.st := by unfold closeTx; split <;> rfl
@[simp] theorem closeTx_t7 (s : RState) (x : Nat) : (closeTx s x).t7 = s.t7 := by unfold closeTx; split <;> rfl
@[simp] theorem closeDataTx_st (s : RState) (x : Nat) : (closeDataTx s x).st = s.st := rfl
@[simp] theorem closeDataTx_t7 (s : RState) (x : Nat) : (closeDataTx s x).t7 = s.t7 := rfl

/-- T7 bookkeeping invariant: the dwell timer is armed only in NotSelected, and (when T7 is configured) always
    while NotSelected. -/
def TInv (c : Cfg) (s : RState) : Prop :=
  (s.t7 = true → s.st = .notSelected) ∧ (c.t7 = true → s.st = .notSelected → s.t7 = true)

theorem prescribed_tinv (c : Cfg) (s : RState) (f : Frame) (h : TInv c s) : TInv c (prescribed c s f).1 := by
  obtain ⟨h1, h2⟩ := h
  unfold prescribed
  cases hc : classOf f <;> simp only []
  all_goals (repeat' split)
  all_goals (cases hst : s.st <;> cases ht : s.t7 <;> cases hct : c.t7 <;>
    simp_all [TInv, selected, enterSelected, leaveSelected, disconnected])

theorem step_tinv (c : Cfg) (s : RState) (e : Ev) (h : TInv c s) : TInv c (step c s e).1 := by
  cases e with
  | tcpUp a x =>
    simp only [step]; split
    · cases hct : c.t7 <;> simp [TInv, hct]
    · exact h
  | frame f =>
    simp only [step]
    by_cases hu : s.st = .notConnected
    · rw [dispatch_notConnected c s f hu]; exact h
    · rw [dispatch_eq_prescribed c s f hu]; exact prescribed_tinv c s f h
  | t6Select => simp only [step]; split <;> simp_all [TInv, down]
  | t7 =>
    obtain ⟨h1, h2⟩ := h
    simp only [step]
    cases ht : s.t7 <;> cases hst : s.st <;> simp_all [TInv, down]
  | t8 => simp only [step]; split <;> simp_all [TInv, down]

theorem runEv_tinv (c : Cfg) : ∀ (es : List Ev) (s : RState), TInv c s → TInv c (runEv c s es).1
  | [], _, h => h
  | e :: es, s, h => by
    simp only [runEv]
    exact runEv_tinv c es _ (step_tinv c s e h)

theorem idle_tinv (c : Cfg) : TInv c RState.idle := by simp [TInv, RState.idle]

/-- An event that ends our own Select procedure: T6 expiry, or a control response / Reject.req carrying the
    system bytes of our Select.req. -/
def ClosesSelect (x : Nat) : Ev → Prop
  | .t6Select => True
  | .frame f => f.sys = x ∧
      (classOf f = .selectRsp ∨ classOf f = .deselectRsp ∨ classOf f = .linktestRsp ∨ classOf f = .rejectReq)
  | _ => False

theorem select_outcomes (c : Cfg) (s : RState) (x : Nat) (e : Ev) (ho : s.openSel = some x)
    (hu : s.st ≠ .notConnected) (hc : ClosesSelect x e) :
    (step c s e).1.openSel = none ∧
    ((∃ f, e = .frame f ∧ classOf f = .selectRsp ∧ f.b3 = 0 ∧ (step c s e).1.st = .selected ∧ (step c s e).2.2 = .none) ∨
     (∃ f, e = .frame f ∧ classOf f = .selectRsp ∧ f.b3 = 1 ∧ (step c s e).1.st = s.st ∧
        (step c s e).1.t7 = s.t7 ∧ (step c s e).2.2 = .none) ∨
     ((step c s e).1.st = .notConnected ∧ (step c s e).2.2 = .selectFailed ∧ (step c s e).2.1 = [])) := by
  cases e with
  | t6Select => simp [step, ho, hu, down]
  | tcpUp a y => exact absurd hc (by simp [ClosesSelect])
  | t7 => exact absurd hc (by simp [ClosesSelect])
  | t8 => exact absurd hc (by simp [ClosesSelect])
  | frame f =>
    obtain ⟨hx, hcl⟩ := hc
    have htx : txOf s f.sys = .ownSelect := by simp [txOf, ho, hx]
    have hta : txOfAny s f.sys = .ownSelect := by simp [txOfAny, htx]
    have hct : closeTx s f.sys = { s with openSel := none } := by simp [closeTx, htx]
    simp only [step, dispatch_eq_prescribed c s f hu]
    unfold prescribed
    rcases hcl with h | h | h | h
    · simp only [h, htx, hct]
      by_cases h0 : f.b3 = 0
      · simp only [h0, reduceIte]
        refine ⟨?_, Or.inl ⟨f, rfl, h, h0, ?_, trivial⟩⟩ <;> cases hst : s.st <;> simp_all [enterSelected]
      · by_cases h1 : f.b3 = 1
        · have h10 : ¬ ((1 : Nat) = 0) := by decide
          simp only [h1, h10, reduceIte]
          exact ⟨trivial, Or.inr (Or.inl ⟨f, rfl, h, h1, trivial, trivial, trivial⟩)⟩
        · simp [h0, h1, disconnected]
    · simp [h, htx, disconnected]
    · simp [h, htx, disconnected]
    · simp [h, hta, disconnected]

/-- Functions of package hsmsss (hook files excluded) that call `callee`, without repetitions, in source order. -/
def sitesOf (callee : String) : List String :=
  ((GoSecs.Gen.hsmsss_controlSites.filter (fun s => s.2.2 == callee)).map (fun s => s.2.1)).eraseDups


end GoSecs.Responder
