/-
  Invariants of the SECS-I transport model, part 2 (C20 on SECS-I connections): every counter is the sum of the per-call
  contributions of the calls that have begun; what each call contributed, by outcome; block counters against the wire log.
  Core Lean only.
-/
import GoSecs.Lemmas.Secs1Transport

set_option linter.unusedSimpArgs false
set_option linter.unusedVariables false

namespace GoSecs.S1T
open GoSecs.Router (upd upd_same upd_other b2n)

/-! ## the one sender record a step rewrites -/

def touched (c : Cfg) : Action → Option (Nat × Sender)
  | .ctxCancel i => some (i, { c.s i with cancelled := true })
  | .begin i k n => some (i, { c.s i with kind := k, pc := .begun, nblk := n })
  | .pin i => some (i, (c.s i).afterPin c.cur)
  | .gate i => some (i, (c.s i).afterGate c.selected)
  | .enqueue i ch => some (i, (c.s i).afterEnqueue ch)
  | .lock i => some (i, { c.s i with pc := .locked })
  | .check i => some (i, (c.s i).afterCheck (checkRes c (c.s i).ep))
  | .load i => some (i, (c.s i).afterLoad c.tgen)
  | .take i => some (i, { c.s i with pc := .handed })
  | .bail i => some (i, (c.s i).failWith .closed)
  | .result i => some (i, (c.s i).failWith ((c.s i).done.getD .closed))
  | .unlock i => some (i, (c.s i).afterUnlock)
  | .incInflight i => some (i, { c.s i with pc := .waiting })
  | .decide i ch => some (i, (c.s i).afterDecide ch)
  | .decInflight i => some (i, { c.s i with pc := .done })
  | .xmit g ak => some ((c.g g).eng.req.getD 0, { c.s ((c.g g).eng.req.getD 0) with acked := (c.s ((c.g g).eng.req.getD 0)).acked + b2n ak })
  | .finish g r => some ((c.g g).eng.req.getD 0,
      { c.s ((c.g g).eng.req.getD 0) with done := some r, late := decide ((c.s ((c.g g).eng.req.getD 0)).pc ≠ .handed) })
  | _ => none

theorem apply_s (c : Cfg) (a : Action) : (apply c a).s = match touched c a with
    | none => c.s
    | some (i, w) => upd c.s i w := by
  cases a <;> rfl

theorem apply_started (c : Cfg) (a : Action) : (apply c a).started = match a with
    | .begin i _ _ => i :: c.started
    | _ => c.started := by
  cases a <;> rfl

/-- the calls that have begun -/
structure StartedOk (c : Cfg) : Prop where
  nodup : c.started.Nodup
  mem : ∀ i, i ∈ c.started ↔ (c.s i).pc ≠ .new

theorem startedOk_init : StartedOk init := by
  constructor <;> simp [init]

/-- no step other than `begin i` moves sender i away from `new`, or touches a sender that has not begun -/
theorem touched_begun (c : Cfg) (a : Action) (he : enabled c a = true) (hi : Inv c) (i : Nat) (w : Sender)
    (ht : touched c a = some (i, w)) : (∃ k n, a = .begin i k n ∧ (c.s i).pc = .new ∧ w.pc = .begun) ∨
      ((c.s i).pc ≠ .new ∧ w.pc ≠ .new ∧ ∀ j k n, a ≠ .begin j k n) ∨ (a = .ctxCancel i ∧ w = { c.s i with cancelled := true }) := by
  have heng := hi.eng
  cases a <;> simp only [touched, reduceCtorEq, Option.some.injEq, Prod.mk.injEq] at ht
  all_goals (obtain ⟨rfl, rfl⟩ := ht)
  all_goals (simp only [enabled] at he)
  case begin i k n =>
    simp only [Bool.and_eq_true, decide_eq_true_eq] at he
    left; exact ⟨k, n, rfl, he.1, rfl⟩
  case ctxCancel i => right; right; exact ⟨rfl, rfl⟩
  case xmit g ak =>
    right; left
    cases hq : (c.g g).eng <;> simp only [hq, Bool.false_eq_true] at he
    have := heng g _ (by rw [hq]; rfl)
    simp only [hq, Eng.req, Option.getD_some]
    refine ⟨?_, ?_, by simp⟩ <;> (intro hn; rw [hn] at this; simp [Pc.rank] at this)
  case finish g r =>
    right; left
    cases hq : (c.g g).eng <;> simp only [hq, Bool.false_eq_true] at he
    have := heng g _ (by rw [hq]; rfl)
    simp only [hq, Eng.req, Option.getD_some]
    refine ⟨?_, ?_, by simp⟩ <;> (intro hn; rw [hn] at this; simp [Pc.rank] at this)
  all_goals (right; left; unf; grind [Pc.rank])

theorem startedOk_apply (c : Cfg) (a : Action) (he : enabled c a = true) (hi : Inv c) (h : StartedOk c) : StartedOk (apply c a) := by
  obtain ⟨h1, h2⟩ := h
  have hs := apply_s c a
  have hst := apply_started c a
  cases hta : touched c a with
  | none =>
    have hnb : (apply c a).started = c.started := by
      rw [hst]; cases a <;> first | rfl | simp [touched] at hta
    simp only [hta] at hs
    exact ⟨by rw [hnb]; exact h1, fun i => by rw [hnb, hs]; exact h2 i⟩
  | some p =>
    obtain ⟨i, w⟩ := p
    simp only [hta] at hs
    rcases touched_begun c a he hi i w hta with ⟨k, n, rfl, hn, hw⟩ | ⟨hn, hw, hnb⟩ | ⟨rfl, hw⟩
    · have hnot : i ∉ c.started := by rw [h2]; simp [hn]
      simp only at hst
      refine ⟨by rw [hst]; exact List.nodup_cons.mpr ⟨hnot, h1⟩, fun j => ?_⟩
      rw [hst, hs, List.mem_cons, h2]
      by_cases hj : j = i
      · subst hj; simp [upd, hw]
      · simp [upd, hj]
    · have hstd : (apply c a).started = c.started := by
        rw [hst]; cases a <;> first | rfl | exact absurd rfl (hnb _ _ _)
      refine ⟨by rw [hstd]; exact h1, fun j => ?_⟩
      rw [hstd, hs, h2]
      by_cases hj : j = i
      · subst hj; simp [upd, hn, hw]
      · simp [upd, hj]
    · refine ⟨h1, fun j => ?_⟩
      show j ∈ c.started ↔ _
      rw [hs, h2]
      by_cases hj : j = i
      · subst hj; simp [upd, hw]
      · simp [upd, hj]

/-! ## sums over the calls that have begun -/

def sumOver (c : Cfg) (f : Sender → Nat) : Nat := (c.started.map (fun j => f (c.s j))).sum

theorem sum_upd (s : Nat → Sender) (i : Nat) (w : Sender) (f : Sender → Nat) :
    ∀ (l : List Nat), l.Nodup →
      (l.map (fun j => f (upd s i w j))).sum + (if i ∈ l then f (s i) else 0) =
        (l.map (fun j => f (s j))).sum + (if i ∈ l then f w else 0)
  | [], _ => by simp
  | x :: l, hn => by
    have hn' := List.nodup_cons.mp hn
    have ih := sum_upd s i w f l hn'.2
    simp only [List.map_cons, List.sum_cons, List.mem_cons]
    by_cases hx : x = i
    · subst hx
      have hnot : x ∉ l := hn'.1
      simp only [upd_same, true_or, if_true, hnot, if_false] at ih ⊢
      omega
    · have hxi : ¬ i = x := fun h => hx h.symm
      simp only [upd, hx, if_false, hxi, false_or] at ih ⊢
      split at ih <;> simp_all <;> omega

/-- a counter `μ` that every step moves by the change of one call's contribution `f` is the sum of the contributions -/
theorem ledger_apply (μ : Cfg → Int) (f : Sender → Nat) (c : Cfg) (a : Action) (he : enabled c a = true) (hi : Inv c)
    (hst : StartedOk c)
    (hδn : touched c a = none → μ (apply c a) = μ c)
    (hδs : ∀ i w, touched c a = some (i, w) → μ (apply c a) + (f (c.s i) : Int) = μ c + (f w : Int))
    (hz : ∀ j, (c.s j).pc = .new → f (c.s j) = 0)
    (hzc : ∀ j, f { c.s j with cancelled := true } = f (c.s j))
    (h : μ c = (sumOver c f : Int)) : μ (apply c a) = (sumOver (apply c a) f : Int) := by
  unfold sumOver at *
  have hs := apply_s c a
  have hstd := apply_started c a
  cases hta : touched c a with
  | none =>
    have hnb : (apply c a).started = c.started := by
      rw [hstd]; cases a <;> first | rfl | simp [touched] at hta
    simp only [hta] at hs
    rw [hδn hta, h, hnb, hs]
  | some p =>
    obtain ⟨i, w⟩ := p
    simp only [hta] at hs
    have hd := hδs i w hta
    have hsum := sum_upd c.s i w f c.started hst.nodup
    rcases touched_begun c a he hi i w hta with ⟨k, n, rfl, hn, hw⟩ | ⟨hn, hw, hnb⟩ | ⟨rfl, hw⟩
    · have hnot : i ∉ c.started := by rw [hst.mem]; simp [hn]
      simp only [hnot, if_false, Nat.add_zero] at hsum
      simp only at hstd
      rw [hstd, hs, List.map_cons, List.sum_cons, upd_same, hsum]
      have := hz i hn
      push_cast
      omega
    · have hstd' : (apply c a).started = c.started := by
        rw [hstd]; cases a <;> first | rfl | exact absurd rfl (hnb _ _ _)
      have hin : i ∈ c.started := (hst.mem i).mpr hn
      simp only [hin, if_true] at hsum
      rw [hstd', hs]
      omega
    · have hstd' : (apply c (.ctxCancel i)).started = c.started := rfl
      have hfw := hzc i
      rw [← hw] at hfw
      rw [hfw] at hsum hd
      rw [hstd', hs]
      omega

/-! ## how each step moves each counter: by the change of exactly one call's contribution -/

/-- in-flight indicator: the write returned nil (W-bit send) and the deferred decrement has not run -/
def Sender.inflight (w : Sender) : Bool := w.pc = .waiting || w.pc = .decided

macro "delta_tac" ht:ident : tactic => `(tactic| (
  all_goals (simp only [touched, reduceCtorEq, Option.some.injEq, Prod.mk.injEq] at $ht:ident)
  all_goals (obtain ⟨h1, h2⟩ := $ht:ident; subst h1; subst h2)
  all_goals (simp only [apply, setS, setG, Sender.afterPin, Sender.afterGate, Sender.afterEnqueue, Sender.failWith,
    Sender.afterCheck, Sender.afterLoad, Sender.afterUnlock, Sender.afterDecide, Sender.finish, Sender.inflight])
  all_goals (try (simp; done))
  all_goals (repeat' split)
  all_goals (first | (simp_all [b2n] <;> omega) | grind [b2n, WRes.counted])))

theorem counters_none (c : Cfg) (a : Action) (ht : touched c a = none) :
    (apply c a).m.sent = c.m.sent ∧ (apply c a).m.err = c.m.err ∧ (apply c a).m.drop = c.m.drop ∧
    (apply c a).m.asyncErr = c.m.asyncErr ∧ (apply c a).m.inflight = c.m.inflight ∧ (apply c a).m.blockSend = c.m.blockSend := by
  cases a <;> simp only [touched, reduceCtorEq] at ht <;> simp [apply, setS, setG]

theorem sent_delta (c : Cfg) (a : Action) (i : Nat) (w : Sender) (ht : touched c a = some (i, w)) :
    (apply c a).m.sent + (c.s i).dSent = c.m.sent + w.dSent := by
  cases a
  delta_tac ht

theorem err_delta (c : Cfg) (a : Action) (i : Nat) (w : Sender) (ht : touched c a = some (i, w)) :
    (apply c a).m.err + (c.s i).dErr = c.m.err + w.dErr := by
  cases a
  delta_tac ht

theorem drop_delta (c : Cfg) (a : Action) (i : Nat) (w : Sender) (ht : touched c a = some (i, w)) :
    (apply c a).m.drop + (c.s i).dDrop = c.m.drop + w.dDrop := by
  cases a
  delta_tac ht

theorem asyncErr_delta (c : Cfg) (a : Action) (i : Nat) (w : Sender) (ht : touched c a = some (i, w)) :
    (apply c a).m.asyncErr + (c.s i).dAsyncErr = c.m.asyncErr + w.dAsyncErr := by
  cases a
  delta_tac ht

theorem blockSend_delta (c : Cfg) (a : Action) (i : Nat) (w : Sender) (ht : touched c a = some (i, w)) :
    (apply c a).m.blockSend + (c.s i).acked = c.m.blockSend + w.acked := by
  cases a
  delta_tac ht

theorem inflight_delta (c : Cfg) (a : Action) (i : Nat) (w : Sender) (ht : touched c a = some (i, w))
    (he : enabled c a = true) :
    (apply c a).m.inflight + (b2n (c.s i).inflight : Int) = c.m.inflight + (b2n w.inflight : Int) := by
  cases a <;> simp only [enabled] at he
  all_goals (simp only [touched, reduceCtorEq, Option.some.injEq, Prod.mk.injEq] at ht)
  all_goals (obtain ⟨h1, h2⟩ := ht; subst h1; subst h2)
  all_goals (simp only [apply, setS, setG, Sender.afterPin, Sender.afterGate, Sender.afterEnqueue, Sender.failWith,
    Sender.afterCheck, Sender.afterLoad, Sender.afterUnlock, Sender.afterDecide, Sender.finish, Sender.inflight])
  all_goals (try (simp; done))
  all_goals (repeat' split)
  all_goals (first | (simp_all [b2n]; done) | (simp_all [b2n] <;> omega) | grind [b2n])

/-! ## I-cnt: what one call has contributed, from its own record -/

def Sender.wcounted (w : Sender) : Bool := match w.wres with | some r => r.counted | none => false

/-- facts about one sender record (counters side) -/
def SCnt (w : Sender) : Prop :=
  (w.pc.rank ≤ 8 → w.wres = none) ∧
  (w.pc = .returned → w.wres.isSome = true) ∧
  (w.dSent = b2n (decide (w.wres = some .ok) && decide (10 ≤ w.pc.rank))) ∧
  ((w.pc = .written ∨ w.pc = .waiting ∨ w.pc = .decided) → w.kind = .sync ∧ w.wres = some .ok) ∧
  (∀ r, w.wres = some r → r ≠ .closed → r ≠ .notSelected → w.done = some r) ∧
  (w.dErr = b2n (decide (w.kind ≠ .async) && decide (10 ≤ w.pc.rank) && w.wcounted) + b2n (decide (w.out = some .timeout))) ∧
  (w.dAsyncErr = b2n (decide (w.kind = .async) && decide (10 ≤ w.pc.rank) && w.wres.isSome && decide (w.wres ≠ some .ok))) ∧
  (w.dDrop = b2n (decide (w.out = some .notSelected) || decide (w.wres = some .notSelected))) ∧
  (w.out = some .notSelected → w.pc = .done) ∧
  (w.out = some .timeout → 12 ≤ w.pc.rank ∧ w.kind = .sync) ∧
  (w.pc.rank ≤ 7 → w.acked = 0) ∧
  (∀ r, w.done = some r → r ≠ .closed ∧ r ≠ .notSelected)

/-- a fact about single sender records that every rewritten record satisfies is preserved -/
theorem sender_step {Q : Sender → Prop} (c : Cfg) (a : Action) (h : ∀ j, Q (c.s j))
    (ht : ∀ i w, touched c a = some (i, w) → Q w) : ∀ j, Q ((apply c a).s j) := by
  intro j
  rw [apply_s]
  cases hta : touched c a with
  | none => exact h j
  | some p =>
    obtain ⟨i, w⟩ := p
    simp only [upd]
    split
    · exact ht i w hta
    · exact h j

/-- what the engine knows about the request it works on, for `xmit` / `finish` -/
theorem eng_req_facts (c : Cfg) (g : Nat) (h3 : EngOk c) (i : Nat) (hq : (c.g g).eng = .sending i) :
    (c.g g).eng.req.getD 0 = i ∧ 8 ≤ (c.s i).pc.rank ∧ (c.s i).done = none := by
  have := h3 g i (by rw [hq]; rfl)
  exact ⟨by rw [hq]; rfl, this.2.1, this.2.2⟩

theorem checkRes_cases (c : Cfg) (e : Nat) : checkRes c e = .closed ∨ checkRes c e = .notSelected ∨ checkRes c e = .ok := by
  unfold checkRes
  split <;> (try split) <;> (try split) <;> simp

macro "scnt_fin" : tactic => `(tactic| (
  simp only [SCnt, Sender.wcounted, Sender.afterPin, Sender.afterGate, Sender.afterEnqueue, Sender.failWith, Sender.afterCheck,
    Sender.afterLoad, Sender.afterUnlock, Sender.afterDecide, Sender.finish] at *
  (repeat' split) <;> (try subst_vars) <;> (simp_all [Pc.rank, b2n, WRes.counted, WRes.outcome]) <;> grind))

set_option hygiene false in
/-- destructure a sender record into its fields -/
macro "rec_cases" w:ident : tactic => `(tactic| (
  rcases $w:ident with ⟨kind, pc, nblk, ep, gs, acked, done, late, wres, out, cancelled, dSent, dErr, dDrop, dAsyncErr⟩
  simp only [Bool.and_eq_true, Bool.or_eq_true, decide_eq_true_eq, bne_iff_ne, ne_eq] at *))

/-! record-level preservation, one lemma per rewriting function -/

theorem scnt_cancel (w : Sender) (hi : SCnt w) : SCnt { w with cancelled := true } := by rec_cases w; scnt_fin
theorem scnt_begin (w : Sender) (hi : SCnt w) (he : w.pc = .new) (k : Kind) (n : Nat) :
    SCnt { w with kind := k, pc := .begun, nblk := n } := by rec_cases w; subst he; scnt_fin
theorem scnt_pin (w : Sender) (hi : SCnt w) (he : w.pc = .begun) (cur : Option Nat) : SCnt (w.afterPin cur) := by
  rec_cases w; subst he; cases cur <;> scnt_fin
theorem scnt_gate (w : Sender) (hi : SCnt w) (he : w.pc = .pinned) (b : Bool) : SCnt (w.afterGate b) := by
  rec_cases w; subst he; cases b <;> scnt_fin
theorem scnt_enqueue (w : Sender) (hi : SCnt w) (he : w.pc = .gated) (ch : Choice) : SCnt (w.afterEnqueue ch) := by
  rec_cases w; subst he; cases ch <;> scnt_fin
theorem scnt_lock (w : Sender) (hi : SCnt w) (he : w.pc = .gated ∨ w.pc = .queued) : SCnt { w with pc := .locked } := by
  rec_cases w; rcases he with he | he <;> subst he <;> scnt_fin
theorem scnt_check (w : Sender) (hi : SCnt w) (he : w.pc = .locked) (r : WRes) (hr : r = .closed ∨ r = .notSelected ∨ r = .ok) :
    SCnt (w.afterCheck r) := by
  rec_cases w; subst he; rcases hr with rfl | rfl | rfl <;> scnt_fin
theorem scnt_load (w : Sender) (hi : SCnt w) (he : w.pc = .checked) (t : Option Nat) : SCnt (w.afterLoad t) := by
  rec_cases w; subst he; cases t <;> scnt_fin
theorem scnt_take (w : Sender) (hi : SCnt w) (he : w.pc = .loaded) : SCnt { w with pc := .handed } := by
  rec_cases w; subst he; scnt_fin
theorem scnt_bail (w : Sender) (hi : SCnt w) (he : w.pc = .loaded ∨ w.pc = .handed) : SCnt (w.failWith .closed) := by
  rec_cases w; rcases he with he | he <;> subst he <;> scnt_fin
theorem scnt_result (w : Sender) (hi : SCnt w) (he : w.pc = .handed) (hd : w.done.isSome = true) :
    SCnt (w.failWith (w.done.getD .closed)) := by
  rec_cases w; subst he
  cases done <;> simp at hd
  rename_i r
  cases r <;> scnt_fin
theorem scnt_unlock (w : Sender) (hi : SCnt w) (he : w.pc = .returned) : SCnt w.afterUnlock := by
  rec_cases w; subst he
  cases kind <;> cases wres <;> (try (rename_i r; cases r)) <;> scnt_fin
theorem scnt_incInflight (w : Sender) (hi : SCnt w) (he : w.pc = .written) : SCnt { w with pc := .waiting } := by
  rec_cases w; subst he; scnt_fin
theorem scnt_decide (w : Sender) (hi : SCnt w) (he : w.pc = .waiting) (ch : Choice) : SCnt (w.afterDecide ch) := by
  rec_cases w; subst he; cases ch <;> scnt_fin
theorem scnt_decInflight (w : Sender) (hi : SCnt w) (he : w.pc = .decided) : SCnt { w with pc := .done } := by
  rec_cases w; subst he; scnt_fin
theorem scnt_xmit (w : Sender) (hi : SCnt w) (e2 : 8 ≤ w.pc.rank) (n : Nat) : SCnt { w with acked := w.acked + n } := by
  rec_cases w; cases pc <;> simp [Pc.rank] at e2 <;> scnt_fin
theorem scnt_finish (w : Sender) (hi : SCnt w) (e2 : 8 ≤ w.pc.rank) (e3 : w.done = none) (r : WRes)
    (hr : r ≠ .closed ∧ r ≠ .notSelected) (b : Bool) : SCnt { w with done := some r, late := b } := by
  rec_cases w; subst e3; cases pc <;> simp [Pc.rank] at e2 <;> scnt_fin

theorem scnt_touched (c : Cfg) (a : Action) (he : enabled c a = true) (h : ∀ j, SCnt (c.s j)) (h3 : EngOk c) (i : Nat) (w : Sender)
    (ht : touched c a = some (i, w)) : SCnt w := by
  cases a <;> simp only [touched, reduceCtorEq, Option.some.injEq, Prod.mk.injEq] at ht
  all_goals (obtain ⟨rfl, rfl⟩ := ht)
  all_goals (simp only [enabled, Bool.and_eq_true, Bool.or_eq_true, decide_eq_true_eq, bne_iff_ne, ne_eq] at he)
  case xmit g ak =>
    cases hq : (c.g g).eng <;> simp only [hq, Bool.false_eq_true, false_and] at he
    obtain ⟨e1, e2, e3⟩ := eng_req_facts c g h3 _ hq
    simp only [Eng.req, Option.getD_some]
    exact scnt_xmit _ (h _) e2 _
  case finish g r =>
    cases hq : (c.g g).eng <;> simp only [hq, Bool.false_eq_true] at he
    obtain ⟨e1, e2, e3⟩ := eng_req_facts c g h3 _ hq
    simp only [Eng.req, Option.getD_some]
    exact scnt_finish _ (h _) e2 e3 r (by cases r <;> simp [finishOk] at he <;> simp) _
  case ctxCancel i => exact scnt_cancel _ (h i)
  case begin i k n => exact scnt_begin _ (h i) he.1 k n
  case pin i => exact scnt_pin _ (h i) he _
  case gate i => exact scnt_gate _ (h i) he _
  case enqueue i ch => exact scnt_enqueue _ (h i) he.1.1 ch
  case lock i => exact scnt_lock _ (h i) (he.1.elim (fun x => Or.inl x.1) Or.inr)
  case check i => exact scnt_check _ (h i) he _ (checkRes_cases c _)
  case load i => exact scnt_load _ (h i) he _
  case take i => exact scnt_take _ (h i) he.1
  case bail i => exact scnt_bail _ (h i) (he.1.elim Or.inl (fun x => Or.inr x.1))
  case result i => exact scnt_result _ (h i) he.1 he.2
  case unlock i => exact scnt_unlock _ (h i) he
  case incInflight i => exact scnt_incInflight _ (h i) he
  case decide i ch => exact scnt_decide _ (h i) he.1 ch
  case decInflight i => exact scnt_decInflight _ (h i) he

theorem scnt_apply (c : Cfg) (a : Action) (he : enabled c a = true) (h : ∀ j, SCnt (c.s j)) (h3 : EngOk c) :
    ∀ j, SCnt ((apply c a).s j) :=
  sender_step c a h (scnt_touched c a he h h3)

/-- acknowledged blocks of a request: never more than it has; all of them when the engine reported success -/
def AckOk (c : Cfg) : Prop := ∀ i, (c.s i).acked ≤ (c.s i).nblk ∧ ((c.s i).done = some .ok → (c.s i).acked = (c.s i).nblk)

theorem ackOk_apply (c : Cfg) (a : Action) (he : enabled c a = true) (h : ∀ j, SCnt (c.s j)) (hl : ∀ j, SLoc (c.s j)) (h3 : EngOk c)
    (h4 : AckOk c) : AckOk (apply c a) := by
  intro j
  have hj := h4 j
  have hc := (h j).2.2.2.2.2.2.2.2.2.2.1
  have hlj := (hl j).2.2.2
  cases a <;> simp only [enabled] at he <;> unf
  all_goals (try exact hj)
  all_goals (clear h hl h4; simp only [EngOk, finishOk] at * ; grind [Pc.rank, Eng.req, b2n])

/-- ACKed transmissions of request i on the wire log -/
def ackedCount (i : Nat) (l : List WireEv) : Nat := (l.filter (fun ev => ev.src = i && ev.acked)).length

theorem ackedCount_cons (i : Nat) (ev : WireEv) (l : List WireEv) :
    ackedCount i (ev :: l) = ackedCount i l + b2n (ev.src = i && ev.acked) := by
  unfold ackedCount
  rw [List.filter_cons]
  split <;> simp_all [b2n]

/-- the wire log against the per-request and global block counters; the receive logs against theirs -/
structure LogOk (c : Cfg) : Prop where
  ackedWire : ∀ i, ackedCount i c.wire = (c.s i).acked
  blockSend : c.m.blockSend = (c.wire.filter (·.acked)).length
  blockRetry : c.m.blockRetry = (c.wire.filter (fun ev => !ev.acked)).length
  recv : c.m.recv = c.deliv.length
  blockRecv : c.m.blockRecv = c.rxlog.length

theorem logOk_init : LogOk init := by constructor <;> simp [init, ackedCount]

theorem logOk_apply_a (c : Cfg) (a : Action) (he : enabled c a = true) (h : ∀ i, ackedCount i c.wire = (c.s i).acked) :
    ∀ i, ackedCount i (apply c a).wire = ((apply c a).s i).acked := by
  intro i
  have hi := h i
  cases a <;> simp only [enabled] at he <;> unf
  all_goals (try exact hi)
  case xmit g ak =>
    rw [ackedCount_cons]
    cases ak <;> simp only [b2n] <;> grind
  all_goals grind

theorem logOk_apply_b (c : Cfg) (a : Action) (he : enabled c a = true) (h : LogOk c) :
    (apply c a).m.blockSend = ((apply c a).wire.filter (·.acked)).length ∧
    (apply c a).m.blockRetry = ((apply c a).wire.filter (fun ev => !ev.acked)).length ∧
    (apply c a).m.recv = (apply c a).deliv.length ∧ (apply c a).m.blockRecv = (apply c a).rxlog.length := by
  obtain ⟨h1, h2, h3', h4, h5⟩ := h
  cases a <;> simp only [enabled] at he <;> unf
  all_goals (first | exact ⟨h2, h3', h4, h5⟩ | skip)
  case xmit g ak => cases ak <;> simp [List.filter_cons, b2n, h2, h3', h4, h5]
  case rx g x => cases (asmStep (c.g g).part g x).2 <;> simp [b2n, h2, h3', h4, h5]

theorem logOk_apply (c : Cfg) (a : Action) (he : enabled c a = true) (h : LogOk c) : LogOk (apply c a) :=
  ⟨logOk_apply_a c a he h.ackedWire, (logOk_apply_b c a he h).1, (logOk_apply_b c a he h).2.1, (logOk_apply_b c a he h).2.2.1,
   (logOk_apply_b c a he h).2.2.2⟩

/-! ## the ledgers -/

structure LedgerOk (c : Cfg) : Prop where
  sent : (c.m.sent : Int) = (sumOver c (·.dSent) : Int)
  err : (c.m.err : Int) = (sumOver c (·.dErr) : Int)
  drop : (c.m.drop : Int) = (sumOver c (·.dDrop) : Int)
  asyncErr : (c.m.asyncErr : Int) = (sumOver c (·.dAsyncErr) : Int)
  inflight : c.m.inflight = (sumOver c (fun w => b2n w.inflight) : Int)
  blockSend : (c.m.blockSend : Int) = (sumOver c (·.acked) : Int)

theorem ledgerOk_init : LedgerOk init := by
  constructor <;> simp [init, sumOver]

/-- a call that has not begun has contributed nothing -/
theorem scnt_new (w : Sender) (h : SCnt w) (hn : w.pc = .new) :
    w.dSent = 0 ∧ w.dErr = 0 ∧ w.dDrop = 0 ∧ w.dAsyncErr = 0 ∧ w.acked = 0 ∧ b2n w.inflight = 0 := by
  rec_cases w
  subst hn
  simp only [SCnt, Sender.wcounted, Sender.inflight] at *
  simp_all [Pc.rank, b2n]

theorem ledgerOk_apply (c : Cfg) (a : Action) (he : enabled c a = true) (hi : Inv c) (hst : StartedOk c) (hc : ∀ j, SCnt (c.s j))
    (h : LedgerOk c) : LedgerOk (apply c a) := by
  have hn := counters_none c a
  refine ⟨?_, ?_, ?_, ?_, ?_, ?_⟩
  · exact ledger_apply (fun c => (c.m.sent : Int)) (·.dSent) c a he hi hst (fun ht => by show ((_ : Nat) : Int) = _; rw [(hn ht).1])
      (fun i w ht => by have := sent_delta c a i w ht; show ((_ : Nat) : Int) + _ = ((_ : Nat) : Int) + _; omega) (fun j hj => (scnt_new _ (hc j) hj).1) (fun _ => rfl) h.sent
  · exact ledger_apply (fun c => (c.m.err : Int)) (·.dErr) c a he hi hst (fun ht => by show ((_ : Nat) : Int) = _; rw [(hn ht).2.1])
      (fun i w ht => by have := err_delta c a i w ht; show ((_ : Nat) : Int) + _ = ((_ : Nat) : Int) + _; omega) (fun j hj => (scnt_new _ (hc j) hj).2.1) (fun _ => rfl) h.err
  · exact ledger_apply (fun c => (c.m.drop : Int)) (·.dDrop) c a he hi hst (fun ht => by show ((_ : Nat) : Int) = _; rw [(hn ht).2.2.1])
      (fun i w ht => by have := drop_delta c a i w ht; show ((_ : Nat) : Int) + _ = ((_ : Nat) : Int) + _; omega) (fun j hj => (scnt_new _ (hc j) hj).2.2.1) (fun _ => rfl) h.drop
  · exact ledger_apply (fun c => (c.m.asyncErr : Int)) (·.dAsyncErr) c a he hi hst (fun ht => by show ((_ : Nat) : Int) = _; rw [(hn ht).2.2.2.1])
      (fun i w ht => by have := asyncErr_delta c a i w ht; show ((_ : Nat) : Int) + _ = ((_ : Nat) : Int) + _; omega) (fun j hj => (scnt_new _ (hc j) hj).2.2.2.1) (fun _ => rfl)
      h.asyncErr
  · exact ledger_apply (fun c => c.m.inflight) (fun w => b2n w.inflight) c a he hi hst (fun ht => (hn ht).2.2.2.2.1)
      (fun i w ht => inflight_delta c a i w ht he) (fun j hj => (scnt_new _ (hc j) hj).2.2.2.2.2) (fun _ => rfl) h.inflight
  · exact ledger_apply (fun c => (c.m.blockSend : Int)) (·.acked) c a he hi hst (fun ht => by show ((_ : Nat) : Int) = _; rw [(hn ht).2.2.2.2.2])
      (fun i w ht => by have := blockSend_delta c a i w ht; show ((_ : Nat) : Int) + _ = ((_ : Nat) : Int) + _; omega) (fun j hj => (scnt_new _ (hc j) hj).2.2.2.2.1) (fun _ => rfl)
      h.blockSend

/-! ## I-out: the outcome a call returned against what `writeFrame` got; where a connection-closed answer came from -/

/-- for a finished or decided synchronous call: how its outcome relates to the result of the write -/
def SOut (w : Sender) : Prop :=
  (w.pc = .decided → w.kind = .sync ∧ (w.out = some .reply ∨ w.out = some .timeout ∨ w.out = some .closed ∨ w.out = some .ctx)) ∧
  (w.pc = .done → w.kind ≠ .async →
    (w.wres = none ∧ (w.out = some .notOpen ∨ w.out = some .notSelected)) ∨
    (w.wres.isSome = true ∧ w.wres ≠ some .ok ∧ w.out = w.wres.map WRes.outcome) ∨
    (w.wres = some .ok ∧ w.kind = .ff ∧ w.out = some .sent) ∨
    (w.wres = some .ok ∧ w.kind = .sync ∧ (w.out = some .reply ∨ w.out = some .timeout ∨ w.out = some .closed ∨ w.out = some .ctx))) ∧
  (w.wres = some .notSelected → w.gs = none) ∧
  (w.gs.isSome = true → 9 ≤ w.pc.rank → w.wres.isSome = true) ∧
  (w.late = true → w.wres = some .closed ∧ w.done.isSome = true) ∧
  (∀ r, w.done = some r → w.late = false → (w.pc = .handed ∧ w.wres = none) ∨ w.wres = some r)

macro "sout_fin" : tactic => `(tactic| (
  simp only [SOut, SCnt, SLoc, Sender.wcounted, Sender.afterPin, Sender.afterGate, Sender.afterEnqueue, Sender.failWith, Sender.afterCheck,
    Sender.afterLoad, Sender.afterUnlock, Sender.afterDecide, Sender.finish] at *
  (repeat' split) <;> (try subst_vars) <;> (simp_all [Pc.rank, b2n, WRes.counted, WRes.outcome]) <;> grind))

theorem sout_finish (w : Sender) (hi : SOut w) (hci : SCnt w) (e2 : 8 ≤ w.pc.rank) (e3 : w.done = none) (egs : w.gs.isSome = true)
    (r : WRes) (hr : r ≠ .closed ∧ r ≠ .notSelected) : SOut { w with done := some r, late := decide (w.pc ≠ .handed) } := by
  rec_cases w
  subst e3
  cases gs <;> simp at egs
  cases pc <;> simp [Pc.rank] at e2 <;> cases wres <;> (try (rename_i r'; cases r')) <;> sout_fin

theorem sout_touched (c : Cfg) (a : Action) (he : enabled c a = true) (h : ∀ j, SOut (c.s j)) (hc : ∀ j, SCnt (c.s j))
    (hl : ∀ j, SLoc (c.s j)) (h3 : EngOk c) (i : Nat) (w : Sender) (ht : touched c a = some (i, w)) : SOut w := by
  cases a <;> simp only [touched, reduceCtorEq, Option.some.injEq, Prod.mk.injEq] at ht
  all_goals (obtain ⟨rfl, rfl⟩ := ht)
  all_goals (simp only [enabled, Bool.and_eq_true, Bool.or_eq_true, decide_eq_true_eq, bne_iff_ne, ne_eq] at he)
  case xmit g ak => have hi := h ((c.g g).eng.req.getD 0); clear h hc hl; generalize c.s _ = w at *; rec_cases w; sout_fin
  case finish g r =>
    cases hq : (c.g g).eng <;> simp only [hq, Bool.false_eq_true] at he
    obtain ⟨e1, e2, e3⟩ := eng_req_facts c g h3 _ hq
    have egs := (h3 g _ (by rw [hq]; rfl)).1
    simp only [Eng.req, Option.getD_some]
    exact sout_finish _ (h _) (hc _) e2 e3 (by rw [egs]; rfl) r (by cases r <;> simp [finishOk] at he <;> simp)
  case check i =>
    have hi := h i; have hci := hc i; have hli := hl i; clear h hc hl
    have hcr := checkRes_cases c (c.s i).ep
    generalize checkRes c (c.s i).ep = r at *
    generalize c.s i = w at *
    rec_cases w; subst he
    rcases hcr with rfl | rfl | rfl <;> sout_fin
  case result i =>
    have hi := h i; have hci := hc i; have hli := hl i; clear h hc hl
    generalize c.s i = w at *
    rec_cases w
    obtain ⟨he1, he2⟩ := he
    subst he1
    cases done <;> simp at he2
    rename_i r
    cases r <;> sout_fin
  case unlock i =>
    have hi := h i; have hci := hc i; have hli := hl i; clear h hc hl
    generalize c.s i = w at *
    rec_cases w; subst he
    cases kind <;> cases wres <;> (try (rename_i r; cases r)) <;> sout_fin
  case ctxCancel i => have hi := h i; have hli := hl i; clear h hc hl; generalize c.s i = w at *; rec_cases w; sout_fin
  case begin i k n =>
    have hi := (h i).2.2
    have hg := (hl i).1
    rw [he.1] at hg
    have hd := (hl i).2.2.2
    rw [he.1] at hd
    refine ⟨by simp, by simp, ?_, ?_, ?_, ?_⟩
    · simpa using hi.1
    · simp [hg (by simp [Pc.rank])]
    · simpa using hi.2.2.1
    · simp [hd (by simp [Pc.rank])]
  case pin i => have hi := h i; have hci := hc i; have hli := hl i; clear h hc hl; generalize c.s i = w at *; rec_cases w; subst he; generalize c.cur = b at *; cases b <;> sout_fin
  case gate i =>
    have hi := h i; have hci := hc i; have hli := hl i; clear h hc hl; generalize c.s i = w at *; rec_cases w; subst he
    have h1 := hci.1 (by simp [Pc.rank])
    have hlate := hi.2.2.2.2.1
    have hdn := hli.2.2.2 (by simp [Pc.rank])
    clear hi hci
    simp only at h1 hlate hdn
    subst h1
    subst hdn
    have hl0 : late = false := by cases late <;> simp_all
    subst hl0
    generalize c.selected = b
    have hg := hli.1 (by simp [Pc.rank])
    simp only at hg
    subst hg
    cases b <;> simp [SOut, Sender.afterGate, Sender.finish]
  case enqueue i ch =>
    have hi := h i; have hci := hc i; have hli := hl i; clear h hc hl; generalize c.s i = w at *; rec_cases w
    obtain ⟨⟨he, hk⟩, _⟩ := he; subst he; subst hk; cases ch <;> sout_fin
  case lock i =>
    have hi := h i; have hci := hc i; have hli := hl i; clear h hc hl; generalize c.s i = w at *; rec_cases w
    obtain ⟨he | he, _⟩ := he
    · obtain ⟨he, _⟩ := he; subst he; sout_fin
    · subst he; sout_fin
  case load i => have hi := h i; have hci := hc i; have hli := hl i; clear h hc hl; generalize c.s i = w at *; rec_cases w; subst he; generalize c.tgen = b at *; cases b <;> sout_fin
  case take i => have hi := h i; have hci := hc i; have hli := hl i; clear h hc hl; generalize c.s i = w at *; rec_cases w; obtain ⟨he, _⟩ := he; subst he; sout_fin
  case bail i =>
    have hi := h i; have hci := hc i; have hli := hl i; clear h hc hl; generalize c.s i = w at *; rec_cases w
    obtain ⟨he | ⟨he, hdn⟩, _⟩ := he
    · subst he; sout_fin
    · subst he; cases done <;> simp at hdn; sout_fin
  case incInflight i => have hi := h i; have hci := hc i; have hli := hl i; clear h hc hl; generalize c.s i = w at *; rec_cases w; subst he; sout_fin
  case decide i ch => have hi := h i; have hci := hc i; have hli := hl i; clear h hc hl; generalize c.s i = w at *; rec_cases w; obtain ⟨he, _⟩ := he; subst he; cases ch <;> sout_fin
  case decInflight i => have hi := h i; have hci := hc i; have hli := hl i; clear h hc hl; generalize c.s i = w at *; rec_cases w; subst he; sout_fin

theorem sout_apply (c : Cfg) (a : Action) (he : enabled c a = true) (h : ∀ j, SOut (c.s j)) (hc : ∀ j, SCnt (c.s j))
    (hl : ∀ j, SLoc (c.s j)) (h3 : EngOk c) : ∀ j, SOut ((apply c a).s j) :=
  sender_step c a h (sout_touched c a he h hc hl h3)

/-- a connection-closed answer given after the hand-off stage was reached came from the `genDone` branch: that generation's
    teardown broadcast had been closed; and an engine report exists only for a request that was handed off -/
def BailOk (c : Cfg) : Prop :=
  ∀ i, (∀ g, (c.s i).gs = some g → (c.s i).wres = some .closed → (c.g g).genDone = true) ∧
       ((c.s i).done.isSome = true → (c.s i).gs.isSome = true)

theorem bailOk_apply (c : Cfg) (a : Action) (he : enabled c a = true) (hl : ∀ j, SLoc (c.s j)) (hc : ∀ j, SCnt (c.s j)) (h3 : EngOk c)
    (h : BailOk c) : BailOk (apply c a) := by
  intro i
  have hi := h i
  have hli := hl i
  have hci := (hc i).1
  have hcd := (hc i).2.2.2.2.2.2.2.2.2.2.2
  cases a <;> simp only [enabled] at he <;> unf
  all_goals (try exact hi)
  case result j =>
    cases hd : (c.s j).done with
    | none => simp [hd] at he
    | some r =>
      have := (hc j).2.2.2.2.2.2.2.2.2.2.2 r hd
      clear h hl hc; simp only [EngOk, SLoc, hd, Option.getD_some] at *
      grind
  all_goals (clear h hl hc; simp only [EngOk, SLoc] at * ; grind [Pc.rank, Eng.req, checkRes])

/-! ## everything together -/

structure CInv (c : Cfg) : Prop extends Inv2 c where
  started : StartedOk c
  scnt : ∀ j, SCnt (c.s j)
  ack : AckOk c
  log : LogOk c
  ledger : LedgerOk c
  sout : ∀ j, SOut (c.s j)
  bail : BailOk c

theorem scnt_init : ∀ j, SCnt (init.s j) := by
  intro j; simp [init, SCnt, Pc.rank, b2n, Sender.wcounted]

theorem cinv_init : CInv init :=
  ⟨inv2_init, startedOk_init, scnt_init, by intro i; simp [init], logOk_init, ledgerOk_init,
   by intro j; simp [init, SOut], by intro i; simp [init]⟩

theorem cinv_step (c : Cfg) (a : Action) (h : CInv c) : CInv (step c a) :=
  step_of_apply c a h fun he =>
    { toInv2 := by have := inv2_step c a h.toInv2; unfold step at this; simpa [he] using this
      started := startedOk_apply c a he h.toInv h.started
      scnt := scnt_apply c a he h.scnt h.eng
      ack := ackOk_apply c a he h.scnt h.sloc h.eng h.ack
      log := logOk_apply c a he h.log
      ledger := ledgerOk_apply c a he h.toInv h.started h.scnt h.ledger
      sout := sout_apply c a he h.sout h.scnt h.sloc h.eng
      bail := bailOk_apply c a he h.sloc h.scnt h.eng h.bail }

theorem cinv_reachable {c : Cfg} (hr : Reachable c) : CInv c := reachable_of_inv cinv_init cinv_step hr

theorem sum_b2n (l : List Nat) (p : Nat → Bool) : (l.map (fun j => b2n (p j))).sum = (l.filter p).length := by
  induction l with
  | nil => rfl
  | cons x l ih =>
    simp only [List.map_cons, List.sum_cons, List.filter_cons, ih]
    cases p x <;> simp [b2n] <;> omega

end GoSecs.S1T
