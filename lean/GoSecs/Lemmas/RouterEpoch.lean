/-
  Router invariants, part 7 (C09): a torn-down generation is final — its context stays cancelled, its socket
  stays closed, nothing is written on it any more; every reply a call returns came from a delivery record.
-/
import GoSecs.Lemmas.RouterInv2

set_option linter.unusedSimpArgs false

namespace GoSecs.Router

/-! ## teardown is final -/

theorem ctxDone_stable (c : Cfg) (a : Action) (e : Nat) (h : (c.ep e).ctxDone = true) : ((step c a).ep e).ctxDone = true := by
  unfold step
  split
  · rw [apply_ep]
    cases a <;> simp only <;> try exact h
    case connUp =>
      cases hc : c.cur with
      | none => exact h
      | some ce => simp only [upd_apply]; split <;> simp_all
    case teardown e' => simp only [upd_apply]; split <;> simp_all
    case join e' => simp only [upd_apply]; split <;> simp_all
  · exact h

theorem ctxDone_run (e : Nat) : ∀ (as : List Action) (c : Cfg), (c.ep e).ctxDone = true → ((run c as).ep e).ctxDone = true
  | [], _, h => h
  | a :: as, c, h => ctxDone_run e as (step c a) (ctxDone_stable c a e h)

/-- on a torn-down epoch the pre-write check fails with connection-closed -/
theorem check_closed (c : Cfg) (he : EpochOk c) (e : Nat) (d : Bool) (h : (c.ep e).ctxDone = true) : checkRes c e d = .closed := by
  have := he.down e h
  simp [checkRes, this]

/-- ... and a write that had passed the check fails: nothing reaches a closed socket -/
theorem xmit_err (c : Cfg) (he : EpochOk c) (e : Nat) (ok : Bool) (h : (c.ep e).ctxDone = true) : xmitRes c e ok = .err := by
  have := he.down e h
  simp [xmitRes, this]

theorem drain_not_ok (c : Cfg) (he : EpochOk c) (e : Nat) (ok : Bool) (h : (c.ep e).ctxDone = true) : drainRes c e ok ≠ .ok := by
  simp [drainRes, check_closed c he e true h]

def onSock (e : Nat) (ev : WireEv) : Bool := ev.sock = e

/-- no step appends a frame to the wire of a torn-down epoch -/
theorem wire_frozen_step (c : Cfg) (a : Action) (hep : EpochOk c) (e : Nat) (h : (c.ep e).ctxDone = true) :
    (step c a).wire.filter (onSock e) = c.wire.filter (onSock e) := by
  unfold step
  by_cases hen : enabled c a = true
  · simp only [hen, if_true]
    rw [apply_wire]
    cases a <;> simp only <;> try rfl
    case write i ok =>
      split
      · rename_i hx
        by_cases hi : (c.s i).ep = e
        · rw [hi, xmit_err c hep e ok h] at hx; simp at hx
        · simp [List.filter_cons, onSock, hi]
      · rfl
    case drain e' ok =>
      cases hq : c.queue e' with
      | nil => rfl
      | cons i rest =>
        simp only
        split
        · rename_i hx
          by_cases hi : e' = e
          · subst hi; exact absurd hx (drain_not_ok c hep e' ok h)
          · simp [List.filter_cons, onSock, hi]
        · rfl
  · simp only [hen]
    rfl

theorem wire_frozen_run (e : Nat) : ∀ (as : List Action) (c : Cfg), Inv c → (c.ep e).ctxDone = true →
    (run c as).wire.filter (onSock e) = c.wire.filter (onSock e)
  | [], _, _, _ => rfl
  | a :: as, c, hi, h => by
    rw [run, wire_frozen_run e as (step c a) (inv_step c a hi) (ctxDone_stable c a e h), wire_frozen_step c a hi.epoch e h]

/-- a returned call keeps its record (pinned epoch in particular) for ever -/
theorem done_stable_run (i : Nat) : ∀ (as : List Action) (c : Cfg), (c.s i).pc = .done →
    ((run c as).s i).pc = .done ∧ ((run c as).s i).ep = (c.s i).ep
  | [], _, h => ⟨h, rfl⟩
  | a :: as, c, h => by
    have hs : ((step c a).s i).pc = .done ∧ ((step c a).s i).ep = (c.s i).ep := by
      unfold step
      split
      · rename_i he
        obtain ⟨s1, _, s3⟩ := apply_sender_stable c a he i
        refine ⟨rank_done _ (by simpa [h, Pc.rank] using s1), s3 (by simp [h]) (by simp [h])⟩
      · exact ⟨h, rfl⟩
    obtain ⟨r1, r2⟩ := done_stable_run i as (step c a) hs.1
    exact ⟨r1, by rw [run, r2, hs.2]⟩

/-! ## I-link: what a call returns from the peer came through a delivery record that hit this very sender -/

def FromDeliv (c : Cfg) (i : Nat) (r : Res) : Prop :=
  ∃ d, d ∈ c.deliv ∧ d.to.hit = some i ∧ ∃ sb, d.frame.offer = some (sb, r)

def Outcome.fromPeer : Outcome → Bool
  | .reply .. | .ctrlReply .. | .nilnil _ | .reject _ => true
  | _ => false

structure LinkOk (c : Cfg) (i : Nat) : Prop where
  chan : ∀ r, (c.s i).chan = some r → FromDeliv c i r
  out : ∀ o, (c.s i).out = some o → o.fromPeer = true → ∃ r, o = outcomeOfRes (c.s i).kind r ∧ FromDeliv c i r

theorem linkOk_init (i : Nat) : LinkOk init i := by
  constructor <;> simp [init]

theorem fromDeliv_mono (c : Cfg) (a : Action) (i : Nat) (r : Res) (h : FromDeliv c i r) : FromDeliv (apply c a) i r := by
  obtain ⟨d, hd, h1, h2⟩ := h
  refine ⟨d, ?_, h1, h2⟩
  rw [apply_deliv]
  cases a <;> simp only <;> first | exact hd | exact List.mem_cons_of_mem _ hd

theorem dispatch_fill_hit (c : Cfg) (f : Frame) (i : Nat) (r : Res) (h : (dispatch c f).2 = some (i, r)) :
    (dispatch c f).1.hit = some i := by
  obtain ⟨sb, hoff, hl, hc, hm⟩ := dispatch_target c f i r h
  unfold dispatch at h ⊢
  split at h
  · simp at h
  · rename_i hns
    simp only [hns, hoff, hl, hm, if_false, if_true]
    exact hitRecipient_hit _ _

/-- steps other than the reply-wait decision and the receive thread leave a sender's channel alone (or reset it),
    and the outcome they may set is never one that comes from the peer -/
theorem touched_pre (c : Cfg) (a : Action) (i : Nat) (w : Sender) (he : enabled c a = true) (ht : touched c a = some (i, w))
    (hd : ∀ j ch, a ≠ .decide j ch) (hr : ∀ e f, a ≠ .recv e f) :
    (w.chan = (c.s i).chan ∨ w.chan = none) ∧
    (w.out = (c.s i).out ∨ ∃ o, w.out = some o ∧ o.fromPeer = false) ∧
    (w.kind = (c.s i).kind ∨ (c.s i).pc = .new) := by
  cases a
  case drain e ok =>
    obtain ⟨rest, _, rfl⟩ := touched_drain c e ok i w ht
    unfold Sender.afterDrain
    split <;> simp
  case recv e f => exact absurd rfl (hr e f)
  case decide j ch => exact absurd rfl (hd j ch)
  sender_cases he ht
  all_goals unfold_after
  all_goals (try (rcases he with ⟨he1, he2⟩ | ⟨he1, he2⟩))
  all_goals (repeat' split)
  all_goals (simp_all [Outcome.fromPeer, WRes.outcome])
  all_goals (repeat' split)
  all_goals (simp_all [Outcome.fromPeer])

theorem linkOk_apply (c : Cfg) (a : Action) (he : enabled c a = true) (hp : ∀ j, PcOk (c.s j))
    (h : ∀ j, LinkOk c j) : ∀ j, LinkOk (apply c a) j := by
  intro j
  have hj := h j
  -- the old facts survive (the log only grows) as long as j's record keeps chan / out / kind
  have keep : ((apply c a).s j).chan = (c.s j).chan → ((apply c a).s j).out = (c.s j).out →
      ((apply c a).s j).kind = (c.s j).kind → LinkOk (apply c a) j := by
    intro e1 e2 e3
    constructor
    · intro r hr; rw [e1] at hr; exact fromDeliv_mono c a j r (hj.chan r hr)
    · intro o ho hf; rw [e2] at ho; rw [e3]
      obtain ⟨r, h1, h2⟩ := hj.out o ho hf
      exact ⟨r, h1, fromDeliv_mono c a j r h2⟩
  cases hta : touched c a with
  | none =>
    have : (apply c a).s = c.s := by rw [apply_s, hta]
    exact keep (by rw [this]) (by rw [this]) (by rw [this])
  | some p =>
    obtain ⟨i, w⟩ := p
    have hs : (apply c a).s = upd c.s i w := by rw [apply_s, hta]
    by_cases hji : j = i
    · subst hji
      have hsj : (apply c a).s j = w := by rw [hs]; simp
      have hpj := hp j
      cases a
      case drain e ok =>
        obtain ⟨rest, _, rfl⟩ := touched_drain c e ok j w hta
        apply keep <;> rw [hsj] <;> unfold Sender.afterDrain <;> split <;> rfl
      case recv e f =>
        obtain ⟨r, hd, rfl⟩ := touched_recv c e f j w hta
        constructor
        · intro r' hr'
          rw [hsj] at hr'
          simp only [Option.some.injEq] at hr'
          subst hr'
          obtain ⟨sb, hoff, _, _, _⟩ := dispatch_target c f j r hd
          refine ⟨⟨e, c.cur, f, (dispatch c f).1⟩, ?_, dispatch_fill_hit c f j r hd, sb, hoff⟩
          rw [apply_deliv]; exact List.mem_cons_self
        · intro o ho hf
          rw [hsj] at ho ⊢
          obtain ⟨r', h1, h2⟩ := hj.out o ho hf
          exact ⟨r', h1, fromDeliv_mono c _ j r' h2⟩
      case decide i ch =>
        simp only [touched, Option.some.injEq, Prod.mk.injEq] at hta
        obtain ⟨rfl, rfl⟩ := hta
        simp only [enabled, Bool.and_eq_true, decide_eq_true_eq] at he
        cases ch <;> simp only [Sender.afterDecide] at hsj
        · cases hc : (c.s i).chan with
          | none => simp [hc] at he
          | some r =>
            simp only [hc] at hsj
            constructor
            · intro r' hr'; rw [hsj] at hr'; simp at hr'
            · intro o ho _
              rw [hsj] at ho ⊢
              simp only [Option.some.injEq] at ho
              exact ⟨r, ho.symm, fromDeliv_mono c _ i r (hj.chan r hc)⟩
        all_goals (
          constructor
          · intro r' hr'; rw [hsj] at hr'; exact fromDeliv_mono c _ i r' (hj.chan r' hr')
          · intro o ho hf; rw [hsj] at ho; simp only [Option.some.injEq] at ho; subst ho; simp [Outcome.fromPeer] at hf)
      all_goals (
        obtain ⟨t1, t2, t3⟩ := touched_pre c _ j w he hta (by intro _ _ hh; cases hh) (by intro _ _ hh; cases hh)
        constructor
        · intro r' hr'
          rw [hsj] at hr'
          rcases t1 with t1 | t1
          · rw [t1] at hr'; exact fromDeliv_mono c _ j r' (hj.chan r' hr')
          · rw [t1] at hr'; cases hr'
        · intro o ho hf
          rw [hsj] at ho ⊢
          rcases t2 with t2 | ⟨o', t2, t2'⟩
          · rw [t2] at ho
            rcases t3 with t3 | t3
            · rw [t3]
              obtain ⟨r', h1, h2⟩ := hj.out o ho hf
              exact ⟨r', h1, fromDeliv_mono c _ j r' h2⟩
            · rw [(hpj.fresh t3).1] at ho; cases ho
          · rw [t2] at ho
            simp only [Option.some.injEq] at ho
            subst ho
            rw [t2'] at hf; cases hf)
    · have : (apply c a).s j = c.s j := by rw [hs]; simp [upd_apply, hji]
      exact keep (by rw [this]) (by rw [this]) (by rw [this])

/-- linking invariant for every sender, on reachable configurations -/
theorem link_reachable {c : Cfg} (hr : Reachable c) : ∀ j, LinkOk c j := by
  have : Inv c ∧ ∀ j, LinkOk c j := by
    refine reachable_of_inv (P := fun c => Inv c ∧ ∀ j, LinkOk c j) ⟨inv_init, linkOk_init⟩ ?_ hr
    intro c a ⟨hi, hl⟩
    exact step_of_apply (P := fun c => Inv c ∧ ∀ j, LinkOk c j) c a ⟨hi, hl⟩
      (fun he => ⟨inv_apply c a he hi, linkOk_apply c a he hi.pc hl⟩)
  exact this.2


end GoSecs.Router
