/-
  Helper lemmas about the SML model (Model/Sml.lean), part 1: renderers, number tokens, newParseError,
  scanning primitives.  Part 2 (parser on encoder output, invariants) is Lemmas/Sml.lean.
-/
import GoSecs.Model.Sml

namespace GoSecs.Sml
open GoSecs GoSecs.Secs2
set_option linter.unusedSimpArgs false

/-! ## C15: default encoder = ToSML -/

theorem repeatB_succ_right (u : Bytes) (n : Nat) : repeatB u (n + 1) = repeatB u n ++ u := by
  induction n with
  | zero => simp [repeatB]
  | succ n ih =>
    show u ++ repeatB u (n + 1) = (u ++ repeatB u n) ++ u
    rw [ih, List.append_assoc]

theorem encodeLeaf_default (O : Oracle) (it : Item) : encodeLeaf O defaultOpts it = leafSML O it := by
  cases it <;> simp [encodeLeaf, leafSML, defaultOpts, encodeString, Opts.quoteByte]

/-- For a non-list item both renderers ignore the level. -/
theorem toSMLAt_leaf (O : Oracle) (level : Nat) (it : Item) (h : ∀ cs, it ≠ .list cs) :
    toSMLAt O level it = leafSML O it := by
  cases it <;> simp [toSMLAt] at h ⊢

theorem encodeItem_leaf (O : Oracle) (o : Opts) (level : Nat) (it : Item) (h : ∀ cs, it ≠ .list cs) :
    encodeItem O o level it = encodeLeaf O o it := by
  cases it <;> simp [encodeItem] at h ⊢

mutual
/-- The default encoder's tree walk produces `formatSML(level)` / `ToSML()` at every level. -/
theorem encodeItem_eq_toSMLAt (O : Oracle) : ∀ (level : Nat) (it : Item),
    encodeItem O defaultOpts level it = toSMLAt O level it
  | level, .list [] => by simp [encodeItem, toSMLAt, ind2, defaultOpts]
  | level, .list (c :: cs) => by
    have ih := encodeKids_eq_kidsSML O level (c :: cs)
    simp only [encodeItem, toSMLAt, ind2]
    rw [ih]
    simp [defaultOpts]
  | level, .empty => by simp [encodeItem, toSMLAt, encodeLeaf_default]
  | level, .binary _ => by simp [encodeItem, toSMLAt, encodeLeaf_default]
  | level, .boolean _ => by simp [encodeItem, toSMLAt, encodeLeaf_default]
  | level, .ascii _ => by simp [encodeItem, toSMLAt, encodeLeaf_default]
  | level, .jis8 _ => by simp [encodeItem, toSMLAt, encodeLeaf_default]
  | level, .lstr _ _ => by simp [encodeItem, toSMLAt, encodeLeaf_default]
  | level, .int _ _ => by simp [encodeItem, toSMLAt, encodeLeaf_default]
  | level, .uint _ _ => by simp [encodeItem, toSMLAt, encodeLeaf_default]
  | level, .float _ _ => by simp [encodeItem, toSMLAt, encodeLeaf_default]
theorem encodeKids_eq_kidsSML (O : Oracle) : ∀ (level : Nat) (cs : List Item),
    encodeKids O defaultOpts level cs = kidsSML O level cs
  | _, [] => by simp [encodeKids, kidsSML]
  | level, c :: cs => by
    have ihk := encodeKids_eq_kidsSML O level cs
    have ihc := encodeItem_eq_toSMLAt O (level + 1) c
    have ind : repeatB defaultOpts.indent (level + 1) = ind2 level ++ [cSP, cSP] := by
      simp [defaultOpts, ind2, repeatB_succ_right]
    cases c with
    | list ds => simp only [encodeKids, kidsSML, ihk, ihc]
    | empty => simp [encodeKids, kidsSML, ihk, ind, encodeItem, toSMLAt, encodeLeaf_default]
    | binary _ => simp [encodeKids, kidsSML, ihk, ind, encodeItem, toSMLAt, encodeLeaf_default]
    | boolean _ => simp [encodeKids, kidsSML, ihk, ind, encodeItem, toSMLAt, encodeLeaf_default]
    | ascii _ => simp [encodeKids, kidsSML, ihk, ind, encodeItem, toSMLAt, encodeLeaf_default]
    | jis8 _ => simp [encodeKids, kidsSML, ihk, ind, encodeItem, toSMLAt, encodeLeaf_default]
    | lstr _ _ => simp [encodeKids, kidsSML, ihk, ind, encodeItem, toSMLAt, encodeLeaf_default]
    | int _ _ => simp [encodeKids, kidsSML, ihk, ind, encodeItem, toSMLAt, encodeLeaf_default]
    | uint _ _ => simp [encodeKids, kidsSML, ihk, ind, encodeItem, toSMLAt, encodeLeaf_default]
    | float _ _ => simp [encodeKids, kidsSML, ihk, ind, encodeItem, toSMLAt, encodeLeaf_default]
end

/-! ## Decimal rendering and parsing -/

theorem digitChar_toNat (d : Nat) (h : d < 10) : (digitChar d).toNat = 48 + d := by
  simp [digitChar, UInt8.toNat_ofNat']; omega

theorem isDigit_digitChar (d : Nat) (h : d < 10) : isDigit (digitChar d) = true := by
  simp [isDigit, digitChar_toNat d h]; omega

theorem digitChar_ne_48 (d : Nat) (h : d < 10) (h0 : 0 < d) : digitChar d ≠ 48 := by
  intro e
  have := congrArg UInt8.toNat e
  rw [digitChar_toNat d h] at this
  simp at this; omega

theorem showDecAux_acc (f n : Nat) (acc : Bytes) : showDecAux f n acc = showDecAux f n [] ++ acc := by
  induction f generalizing n acc with
  | zero => simp [showDecAux]
  | succ f ih =>
    simp only [showDecAux]
    split
    · simp
    · rw [ih (n / 10) (digitChar (n % 10) :: acc), ih (n / 10) [digitChar (n % 10)]]; simp

theorem decVal_append (a : Nat) (xs ys : Bytes) : decVal a (xs ++ ys) = decVal (decVal a xs) ys := by
  induction xs generalizing a with
  | nil => rfl
  | cons x xs ih =>
    show decVal (a * 10 + (x.toNat - 48)) (xs ++ ys) = decVal (decVal (a * 10 + (x.toNat - 48)) xs) ys
    exact ih _

/-- With enough fuel the digits denote `n`. -/
theorem decVal_showDecAux (f n : Nat) (h : n < f) : decVal 0 (showDecAux f n []) = n := by
  induction f generalizing n with
  | zero => omega
  | succ f ih =>
    simp only [showDecAux]
    split
    · rename_i hn
      show 0 * 10 + ((digitChar n).toNat - 48) = n
      rw [digitChar_toNat n hn]; omega
    · rename_i hn
      rw [showDecAux_acc, decVal_append, ih (n / 10) (by omega)]
      have : n % 10 < 10 := Nat.mod_lt _ (by omega)
      show n / 10 * 10 + ((digitChar (n % 10)).toNat - 48) = n
      rw [digitChar_toNat _ this]; omega

theorem decVal_showDec (n : Nat) : decVal 0 (showDec n) = n := decVal_showDecAux (n + 1) n (by omega)

/-- Shape of the digits of a positive number: a non-zero leading digit then digits. -/
theorem showDecAux_shape (f n : Nat) (h : n < f) (hp : 0 < n) :
    ∃ c cs, showDecAux f n [] = c :: cs ∧ c ≠ 48 ∧ isDigit c = true ∧ cs.all isDigit = true := by
  induction f generalizing n with
  | zero => omega
  | succ f ih =>
    simp only [showDecAux]
    split
    · rename_i hn
      exact ⟨digitChar n, [], rfl, digitChar_ne_48 n hn hp, isDigit_digitChar n hn, rfl⟩
    · rename_i hn
      obtain ⟨c, cs, e, h1, h2, h3⟩ := ih (n / 10) (by omega) (by omega)
      refine ⟨c, cs ++ [digitChar (n % 10)], ?_, h1, h2, ?_⟩
      · rw [showDecAux_acc, e]; rfl
      · have : n % 10 < 10 := Nat.mod_lt _ (by omega)
        simp [List.all_append, h3, isDigit_digitChar _ this]

theorem showDec_zero : showDec 0 = [48] := by
  simp [showDec, showDecAux, digitChar]

theorem showDec_shape (n : Nat) (hp : 0 < n) :
    ∃ c cs, showDec n = c :: cs ∧ c ≠ 48 ∧ isDigit c = true ∧ cs.all isDigit = true :=
  showDecAux_shape (n + 1) n (by omega) hp

theorem showDec_all_digits (n : Nat) : (showDec n).all isDigit = true := by
  by_cases h : n = 0
  · subst h; rw [showDec_zero]; decide
  · obtain ⟨c, cs, e, _, h2, h3⟩ := showDec_shape n (by omega)
    simp [e, h2, h3]

theorem showDec_ne_nil (n : Nat) : showDec n ≠ [] := by
  by_cases h : n = 0
  · subst h; simp [showDec_zero]
  · obtain ⟨c, cs, e, _⟩ := showDec_shape n (by omega)
    simp [e]

theorem canonDec_showDec (n : Nat) : canonDec (showDec n) = true := by
  by_cases h : n = 0
  · subst h; rw [showDec_zero]; decide
  · obtain ⟨c, cs, e, h1, h2, h3⟩ := showDec_shape n (by omega)
    rw [e]
    cases cs with
    | nil => simpa [canonDec] using h2
    | cons d ds => simp [canonDec, h1, h2, h3]

/-- **parseDec (showDec n) = n**: the modelled literal reader inverts the decimal renderer. -/
theorem natLit_showDec (n : Nat) : natLit (showDec n) = some n := by
  simp [natLit, canonDec_showDec, decVal_showDec]

theorem canonDec_neg (cs : Bytes) : canonDec (45 :: cs) = false := by
  cases cs <;> simp [canonDec, isDigit]

theorem natLit_neg (cs : Bytes) : natLit (45 :: cs) = none := by
  simp only [natLit, canonDec_neg]
  cases cs with
  | nil => simp
  | cons x xs => cases xs with
    | nil => simp
    | cons d ds => simp

/-- Unsigned integer elements parse back (`ParseUint(FormatUint(v,10), 0, 8k)`). -/
theorem parseUintW_showDec (O : Oracle) (k v : Nat) (hk : k ≤ 8) (hv : v < 256 ^ k) :
    parseUintW O k (showDec v) = some v := by
  have h64 : v < 2 ^ 64 := by
    have : 256 ^ k ≤ 256 ^ 8 := Nat.pow_le_pow_right (by omega) hk
    have e : (256 : Nat) ^ 8 = 2 ^ 64 := by decide
    omega
  simp [parseUintW, parseUint64, natLit_showDec, h64, hv]

theorem showInt_nonneg (v : Int) (h : 0 ≤ v) : showInt v = showDec v.toNat := by
  have : ¬ v < 0 := by omega
  simp only [showInt, this, ↓reduceIte]
  congr 1; omega

theorem showInt_neg (v : Int) (h : v < 0) : showInt v = 45 :: showDec (-v).toNat := by
  simp only [showInt, h, ↓reduceIte]
  congr 2; omega

/-- Signed integer elements parse back (`ParseInt(FormatInt(v,10), 0, 8k)`). -/
theorem parseIntW_showInt (O : Oracle) (k : Nat) (v : Int) (hk : k ≤ 8) (hk0 : 0 < k)
    (hlo : intLo k ≤ v) (hhi : v ≤ intHi k) : parseIntW O k (showInt v) = some v := by
  have hp : 256 ^ k ≤ 256 ^ 8 := Nat.pow_le_pow_right (by omega) hk
  have e8 : (256 : Nat) ^ 8 = 2 ^ 64 := by decide
  have hpos : 2 ≤ 256 ^ k := by
    have : 256 ^ 1 ≤ 256 ^ k := Nat.pow_le_pow_right (by omega) hk0
    omega
  unfold intLo at hlo
  unfold intHi at hhi
  by_cases hv : v < 0
  · rw [showInt_neg v hv]
    have hn : (-v).toNat ≤ 2 ^ 63 := by omega
    have hback : -((-v).toNat : Int) = v := by omega
    simp only [parseIntW, parseInt64, natLit_neg, canonDec_showDec, decVal_showDec, ↓reduceIte, hn, hback]
    have : intLo k ≤ v ∧ v ≤ intHi k := by unfold intLo intHi; omega
    simp [this]
  · rw [showInt_nonneg v (by omega)]
    have hn : v.toNat < 2 ^ 63 := by omega
    have hback : ((v.toNat : Nat) : Int) = v := by omega
    simp only [parseIntW, parseInt64, natLit_showDec, hn, ↓reduceIte, hback]
    have : intLo k ≤ v ∧ v ≤ intHi k := by unfold intLo intHi; omega
    simp [this]

/-! ## Boolean and binary tokens -/

theorem parseBoolTok_boolTok (b : Bool) : parseBoolTok (boolTok b) = some b := by
  cases b <;> decide

theorem hexDigitVal_hexUpper : ∀ d, d < 16 → hexDigitVal (hexUpper d) = some d := by decide

/-- Binary elements rendered `0xHH` parse back. -/
theorem parseBinTok_hexTok (O : Oracle) (b : UInt8) : parseBinTok O (hexTok b) = some b := by
  have hb := b.toNat_lt
  have h1 : b.toNat / 16 < 16 := by omega
  have h2 : b.toNat % 16 < 16 := by omega
  have hx : hexVal 0 [hexUpper (b.toNat / 16), hexUpper (b.toNat % 16)] = some b.toNat := by
    simp only [hexVal, hexDigitVal_hexUpper _ h1, hexDigitVal_hexUpper _ h2]
    congr 1; omega
  have hc : canonDec (hexTok b) = false := by
    simp [hexTok, canonDec, isDigit]
  have hn : natLit (hexTok b) = some b.toNat := by
    simp only [natLit, hc]
    simp [hexTok, hx]
  have h63 : b.toNat < 2 ^ 63 := by omega
  simp only [parseBinTok, parseInt64, hn, h63, ↓reduceIte]
  have : (0 : Int) ≤ (b.toNat : Int) ∧ (b.toNat : Int) < 256 := by omega
  simp [this]

theorem parseCharTok_hexTok (O : Oracle) (b : UInt8) : parseCharTok O (hexTok b) = some b := by
  have hb := b.toNat_lt
  have h1 : b.toNat / 16 < 16 := by omega
  have h2 : b.toNat % 16 < 16 := by omega
  have hx : hexVal 0 [hexUpper (b.toNat / 16), hexUpper (b.toNat % 16)] = some b.toNat := by
    simp only [hexVal, hexDigitVal_hexUpper _ h1, hexDigitVal_hexUpper _ h2]
    congr 1; omega
  have hc : canonDec (hexTok b) = false := by
    simp [hexTok, canonDec, isDigit]
  have hn : natLit (hexTok b) = some b.toNat := by
    simp only [natLit, hc]
    simp [hexTok, hx]
  have h64 : b.toNat < 2 ^ 64 := by omega
  have h255 : b.toNat ≤ 255 := by omega
  simp [parseCharTok, parseUint64, hn, h64, h255]

set_option maxRecDepth 20000 in
theorem binTok_table : ∀ n, n < 256 →
    natLit (48 :: 98 :: showBinAux 8 n []) = some n := by decide

/-- Binary elements rendered `0b…` (BinaryLiteral style) parse back. -/
theorem parseBinTok_binTok (O : Oracle) (b : UInt8) : parseBinTok O (binTok b) = some b := by
  have hb := b.toNat_lt
  have hn := binTok_table b.toNat hb
  have h63 : b.toNat < 2 ^ 63 := by omega
  simp only [parseBinTok, parseInt64, binTok, hn, h63, ↓reduceIte]
  have : (0 : Int) ≤ (b.toNat : Int) ∧ (b.toNat : Int) < 256 := by omega
  simp [this]

/-! ## C14: newParseError -/

/-- What `lineCol n line col bs` computes, stated through a split of the scanned prefix into
    complete lines `pre` and the current partial line `post`. -/
theorem lineCol_spec : ∀ (bs : Bytes) (n line col : Nat),
    ∃ pre post, bs.take n = pre ++ post ∧ cNL ∉ post ∧
      ((pre = [] ∧ (lineCol n line col bs).1 = line ∧ (lineCol n line col bs).2 = col + post.length) ∨
       (pre.getLast? = some cNL ∧ (lineCol n line col bs).1 = line + pre.count cNL ∧
        (lineCol n line col bs).2 = post.length + 1))
  | [], n, line, col => ⟨[], [], by simp, by simp, Or.inl ⟨rfl, by cases n <;> simp [lineCol], by cases n <;> simp [lineCol]⟩⟩
  | x :: r, 0, line, col => ⟨[], [], by simp, by simp, Or.inl ⟨rfl, by simp [lineCol], by simp [lineCol]⟩⟩
  | x :: r, n+1, line, col => by
    by_cases hx : x = cNL
    · obtain ⟨pre, post, e, hp, h⟩ := lineCol_spec r n (line + 1) 1
      refine ⟨x :: pre, post, by simp [e], hp, Or.inr ?_⟩
      have hl : lineCol (n + 1) line col (x :: r) = lineCol n (line + 1) 1 r := by simp [lineCol, hx]
      rw [hl]
      rcases h with ⟨h1, h2, h3⟩ | ⟨h1, h2, h3⟩
      · subst h1
        refine ⟨by simp [hx], ?_, by omega⟩
        simp [h2, hx]
      · refine ⟨?_, ?_, h3⟩
        · cases pre with
          | nil => simp at h1
          | cons p ps => simpa [List.getLast?_cons_cons] using h1
        · rw [h2, hx]; simp; omega
    · obtain ⟨pre, post, e, hp, h⟩ := lineCol_spec r n line (col + 1)
      have hl : lineCol (n + 1) line col (x :: r) = lineCol n line (col + 1) r := by simp [lineCol, hx]
      rw [hl]
      rcases h with ⟨h1, h2, h3⟩ | ⟨h1, h2, h3⟩
      · subst h1
        refine ⟨[], x :: post, by simpa using e, ?_, Or.inl ⟨rfl, h2, ?_⟩⟩
        · simp only [List.mem_cons, not_or]; exact ⟨fun h => hx h.symm, hp⟩
        · rw [h3]; simp; omega
      · refine ⟨x :: pre, post, by simp [e], hp, Or.inr ⟨?_, ?_, h3⟩⟩
        · cases pre with
          | nil => simp at h1
          | cons p ps => simpa [List.getLast?_cons_cons] using h1
        · rw [h2]
          have : (x :: pre).count cNL = pre.count cNL := by
            rw [List.count_cons]; simp [hx]
          rw [this]

/-! ## Parser on encoder output: scanning primitives -/

/-- Advance the scan window: `n` bytes consumed, `r` remaining. -/
def St.adv (st : St) (n : Nat) (r : Bytes) : St := { st with pos := st.pos + n, data := r }

@[simp] theorem St.adv_data (st : St) (n : Nat) (r : Bytes) : (st.adv n r).data = r := rfl
@[simp] theorem St.adv_pos (st : St) (n : Nat) (r : Bytes) : (st.adv n r).pos = st.pos + n := rfl
@[simp] theorem St.adv_len (st : St) (n : Nat) (r : Bytes) : (st.adv n r).len = st.len := rfl
@[simp] theorem St.adv_alloc (st : St) (n : Nat) (r : Bytes) : (st.adv n r).alloc = st.alloc := rfl
@[simp] theorem St.adv_maxDepth (st : St) (n : Nat) (r : Bytes) : (st.adv n r).maxDepth = st.maxDepth := rfl
theorem St.adv_adv (st : St) (n m : Nat) (r r' : Bytes) : (st.adv n r).adv m r' = st.adv (n + m) r' := by
  simp [St.adv, Nat.add_assoc]
theorem St.adv_zero (st : St) : st.adv 0 st.data = st := by cases st; rfl

def AllWS (ws : Bytes) : Prop := ∀ x ∈ ws, isWS x = true

theorem wsSpan_ws (ws : Bytes) (c : UInt8) (r : Bytes) (n : Nat) (hws : AllWS ws) (hc : isWS c = false) :
    wsSpan n (ws ++ c :: r) = (n + ws.length, c :: r) := by
  induction ws generalizing n with
  | nil => simp [wsSpan, hc]
  | cons x xs ih =>
    have hx : isWS x = true := hws x (by simp)
    have hxs : AllWS xs := fun y hy => hws y (by simp [hy])
    simp only [List.cons_append, wsSpan, hx, ↓reduceIte, List.length_cons]
    rw [ih (n + 1) hxs]; congr 1; omega

theorem skipSpace_ws (st : St) (ws : Bytes) (c : UInt8) (r : Bytes) (h : st.data = ws ++ c :: r)
    (hws : AllWS ws) (hc : isWS c = false) : skipSpace st = (true, st.adv ws.length (c :: r)) := by
  simp only [skipSpace, h, wsSpan_ws ws c r 0 hws hc, Nat.zero_add, St.adv]

theorem skipSpace_none (st : St) (c : UInt8) (r : Bytes) (h : st.data = c :: r) (hc : isWS c = false) :
    skipSpace st = (true, st) := by
  have := skipSpace_ws st [] c r (by simpa using h) (by intro x hx; simp at hx) hc
  rw [this]; congr 1
  cases st; simp_all [St.adv]

theorem skipComment_ws (st : St) (ws : Bytes) (c : UInt8) (r : Bytes) (h : st.data = ws ++ c :: r)
    (hws : AllWS ws) (hc : isWS c = false) (h47 : c ≠ 47) : skipComment st = st.adv ws.length (c :: r) := by
  simp only [skipComment, skipSpace_ws st ws c r h hws hc, St.adv_data]
  split
  · rename_i heq; simp at heq; exact absurd heq.1 h47
  · rename_i heq; simp at heq; exact absurd heq.1 h47
  · rfl

theorem peekNS_ws (st : St) (ws : Bytes) (c : UInt8) (r : Bytes) (h : st.data = ws ++ c :: r)
    (hws : AllWS ws) (hc : isWS c = false) : peekNS st = (some c, st.adv ws.length (c :: r)) := by
  simp [peekNS, skipSpace_ws st ws c r h hws hc]

theorem nextNS_ws (st : St) (ws : Bytes) (c : UInt8) (r : Bytes) (h : st.data = ws ++ c :: r)
    (hws : AllWS ws) (hc : isWS c = false) : nextNS st = (some c, st.adv (ws.length + 1) r) := by
  simp [nextNS, skipSpace_ws st ws c r h hws hc, nextRune, St.adv, Nat.add_assoc]

theorem fwd_exact (st : St) (x r : Bytes) (h : st.data = x ++ r) : fwd x.length st = st.adv x.length r := by
  have : lenLt (x ++ r) x.length = false := by rw [lenLt_false_iff]; simp
  simp only [fwd, h, this, Bool.false_eq_true, ↓reduceIte, St.adv, List.drop_left]

/-! ### numbers in the text -/

theorem digitSpan_digits (ds : Bytes) (c : UInt8) (r : Bytes) (n : Nat) (hd : ds.all isDigit = true)
    (hc : isDigit c = false) : digitSpan n (ds ++ c :: r) = (n + ds.length, c :: r) := by
  induction ds generalizing n with
  | nil => simp [digitSpan, hc]
  | cons x xs ih =>
    simp only [List.all_cons, Bool.and_eq_true] at hd
    simp only [List.cons_append, digitSpan, hd.1, ↓reduceIte, List.length_cons]
    rw [ih (n + 1) hd.2]; congr 1; omega

theorem nextNumber_showDec (limit n : Nat) (st : St) (c : UInt8) (r : Bytes)
    (h : st.data = showDec n ++ c :: r) (hc : isDigit c = false) (hn : n ≤ limit) :
    nextNumber limit st = .ok (n, st.adv (showDec n).length (c :: r)) := by
  have hne := showDec_ne_nil n
  have hspan := digitSpan_digits (showDec n) c r 0 (showDec_all_digits n) hc
  have hlen : 0 < (showDec n).length := List.length_pos_iff.mpr hne
  unfold nextNumber
  rw [h]
  cases hs : showDec n with
  | nil => exact absurd hs hne
  | cons d ds =>
    rw [hs] at hspan hlen
    simp only [List.cons_append] at hspan ⊢
    rw [hspan]
    simp only [Nat.zero_add, List.length_cons]
    have htake : (d :: (ds ++ c :: r)).take (ds.length + 1) = d :: ds := by simp
    rw [htake, ← hs, decVal_showDec]
    simp [hn, St.adv]

theorem isWS_of_isDigit (d : UInt8) (h : isDigit d = true) : isWS d = false := by
  simp only [isDigit, Bool.and_eq_true, decide_eq_true_eq] at h
  simp only [isWS, Bool.or_eq_false_iff, beq_eq_false_iff_ne, decide_eq_false_iff_not]
  refine ⟨⟨⟨?_, ?_⟩, ?_⟩, ?_⟩ <;> (intro e; subst e; simp at h)

theorem showDec_head (n : Nat) : ∃ d ds, showDec n = d :: ds ∧ isDigit d = true := by
  have hne := showDec_ne_nil n
  have hall := showDec_all_digits n
  cases hs : showDec n with
  | nil => exact absurd hs hne
  | cons d ds => rw [hs] at hall; simp at hall; exact ⟨d, ds, rfl, hall.1⟩

theorem isDigit_ne (d c : UInt8) (h : isDigit d = true) (hc : isDigit c = false) : d ≠ c := by
  intro e; subst e; rw [h] at hc; cases hc

/-- `[n]` after the type tag. -/
theorem parseItemSize_hint (last : UInt8) (st : St) (n : Nat) (rest : Bytes)
    (h : st.data = cLB :: (showDec n ++ cRB :: rest)) (hn : n ≤ maxInt32) :
    parseItemSize last st = .ok ((n, n), st.adv ((showDec n).length + 2) rest) := by
  obtain ⟨d, ds, hs, hd⟩ := showDec_head n
  have h1 := skipSpace_none st cLB _ h (by decide)
  have hdws := isWS_of_isDigit d hd
  have hd46 : d ≠ 46 := isDigit_ne d 46 hd (by decide)
  have hrb : isDigit cRB = false := by decide
  unfold parseItemSize
  rw [h1]
  simp only [h]
  -- st2: after '['
  have e2 : ({ st with pos := st.pos + 1, data := showDec n ++ cRB :: rest } : St) = st.adv 1 (showDec n ++ cRB :: rest) := rfl
  rw [if_neg (by simp)]
  simp only [e2]
  have hp : peekNS (st.adv 1 (showDec n ++ cRB :: rest)) = (some d, st.adv 1 (showDec n ++ cRB :: rest)) := by
    have := peekNS_ws (st.adv 1 (showDec n ++ cRB :: rest)) [] d (ds ++ cRB :: rest) (by simp [hs]) (by intro x hx; simp at hx) hdws
    rw [this]; simp [St.adv_adv, hs]
  rw [hp]
  have hnum := nextNumber_showDec maxInt32 n (st.adv 1 (showDec n ++ cRB :: rest)) cRB rest rfl hrb hn
  have hp2 : peekNS ((st.adv 1 (showDec n ++ cRB :: rest)).adv (showDec n).length (cRB :: rest)) =
      (some cRB, (st.adv 1 (showDec n ++ cRB :: rest)).adv (showDec n).length (cRB :: rest)) := by
    have := peekNS_ws ((st.adv 1 (showDec n ++ cRB :: rest)).adv (showDec n).length (cRB :: rest)) [] cRB rest rfl (by intro x hx; simp at hx) (by decide)
    rw [this]; simp [St.adv_adv]
  have hn2 : nextNS ((st.adv 1 (showDec n ++ cRB :: rest)).adv (showDec n).length (cRB :: rest)) =
      (some cRB, st.adv ((showDec n).length + 2) rest) := by
    have := nextNS_ws ((st.adv 1 (showDec n ++ cRB :: rest)).adv (showDec n).length (cRB :: rest)) [] cRB rest rfl (by intro x hx; simp at hx) (by decide)
    rw [this]; simp [St.adv_adv]; congr 1; omega
  split
  · rename_i st3 heq
    simp at heq; exact absurd heq.1 hd46
  · rename_i _ fst st3 hne heq
    cases heq
    rw [hnum]
    simp only [hp2]
    split
    · rename_i heq2; simp at heq2; exact absurd heq2.1 (by decide)
    · rename_i _ f2 st5 hne2 heq2
      cases heq2
      simp only [hn2]
      simp


end GoSecs.Sml
