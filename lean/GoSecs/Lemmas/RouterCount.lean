/-
  Router invariants, part 5 (C20): the counters, as functions of the wire / delivery log / sender records.
-/
import GoSecs.Lemmas.RouterInv2

set_option linter.unusedSimpArgs false

namespace GoSecs.Router

/-! ## `apply`, counter by counter -/

theorem apply_sent (c : Cfg) (a : Action) : (apply c a).m.sent = match a with
    | .write i ok => (match xmitRes c (c.s i).ep ok with
      | .ok => c.m.sent + b2n (c.s i).kind.isData
      | _ => c.m.sent)
    | .drain e ok => (match c.queue e with
      | [] => c.m.sent
      | _ :: _ => c.m.sent + b2n (drainRes c e ok = .ok))
    | _ => c.m.sent := by
  field_cases c a

theorem apply_recv (c : Cfg) (a : Action) : (apply c a).m.recv = match a with
    | .recv _ f => c.m.recv + b2n (counted c f)
    | _ => c.m.recv := by
  field_cases c a

theorem apply_retry (c : Cfg) (a : Action) : (apply c a).m.retry = match a with
    | .loopStart => c.m.retry + 1
    | .loopEnd => c.m.retry - 1
    | _ => c.m.retry := by
  field_cases c a

theorem apply_loops (c : Cfg) (a : Action) : (apply c a).loops = match a with
    | .loopStart => c.loops + 1
    | .loopEnd => c.loops - 1
    | _ => c.loops := by
  field_cases c a

theorem apply_inflight (c : Cfg) (a : Action) : (apply c a).m.inflight = match a with
    | .incInflight i => c.m.inflight + (b2n ((c.s i).kind = .sync) : Nat)
    | .decInflight i => c.m.inflight - (b2n ((c.s i).kind = .sync) : Nat)
    | _ => c.m.inflight := by
  field_cases c a

theorem apply_err (c : Cfg) (a : Action) : (apply c a).m.err = match a with
    | .write i ok => (match xmitRes c (c.s i).ep ok with
      | .ok => c.m.err
      | _ => c.m.err + b2n (c.s i).kind.isData)
    | .decide i ch => c.m.err + b2n (ch = .timer && (c.s i).kind = .sync)
    | _ => c.m.err := by
  field_cases c a

theorem apply_drop (c : Cfg) (a : Action) : (apply c a).m.drop = match a with
    | .gate i => c.m.drop + b2n ((c.s i).kind.isData && !c.selected)
    | .wcheck i => c.m.drop + b2n (checkRes c (c.s i).ep (c.s i).kind.isData = .notSelected)
    | .drain e ok => (match c.queue e with
      | [] => c.m.drop
      | _ :: _ => c.m.drop + b2n (drainRes c e ok = .notSelected))
    | _ => c.m.drop := by
  field_cases c a

theorem apply_asyncErr (c : Cfg) (a : Action) : (apply c a).m.asyncErr = match a with
    | .drain e ok => (match c.queue e with
      | [] => c.m.asyncErr
      | _ :: _ => c.m.asyncErr + b2n (drainRes c e ok != .ok))
    | _ => c.m.asyncErr := by
  field_cases c a


/-! ## I-sent / I-recv / I-retry -/

def SentOk (c : Cfg) : Prop := c.m.sent = (c.wire.filter (·.data)).length

theorem sentOk_init : SentOk init := rfl

theorem sentOk_apply (c : Cfg) (a : Action) (h : SentOk c) : SentOk (apply c a) := by
  unfold SentOk at *
  rw [apply_sent, apply_wire]
  cases a <;> simp only <;> try exact h
  case write i ok =>
    cases hx : xmitRes c (c.s i).ep ok <;> simp only [reduceCtorEq, if_false, if_true] <;> try exact h
    cases hd : (c.s i).kind.isData <;> simp [List.filter_cons, hd, b2n, h]
  case drain e ok =>
    cases hq : c.queue e with
    | nil => exact h
    | cons i rest =>
      simp only
      by_cases hx : drainRes c e ok = .ok
      · simp [hx, List.filter_cons, b2n, h]
      · simp [hx, b2n, h]

/-- a delivery record of a well-formed data frame that was received while Selected -/
def Deliv.counted (d : Deliv) : Bool := d.frame.isData && d.to != .notSelected

def RecvOk (c : Cfg) : Prop := c.m.recv = (c.deliv.filter Deliv.counted).length

theorem recvOk_init : RecvOk init := rfl

theorem dispatch_notSelected (c : Cfg) (f : Frame) :
    ((dispatch c f).1 = .notSelected) ↔ (f.isData = true ∧ c.selected = false) := by
  unfold dispatch
  split
  · rename_i h; simp_all
  · rename_i h
    have hn : ¬ (f.isData = true ∧ c.selected = false) := by simpa using h
    simp only [hn, iff_false]
    split
    · cases f <;> simp [missRecipient, fanout] <;> (repeat' split) <;> simp
    · split
      · cases f <;> simp [missRecipient, fanout] <;> (repeat' split) <;> simp
      · split
        · simp only [hitRecipient]
          repeat' split
          all_goals simp
        · cases f <;> simp [missRecipient, fanout] <;> (repeat' split) <;> simp

theorem recvOk_apply (c : Cfg) (a : Action) (h : RecvOk c) : RecvOk (apply c a) := by
  unfold RecvOk at *
  rw [apply_recv, apply_deliv]
  cases a <;> simp only <;> try exact h
  case recv e f =>
    simp only [List.filter_cons, Deliv.counted, counted]
    have hns := dispatch_notSelected c f
    by_cases hd : f.isData = true <;> by_cases hs : c.selected = true
    · have : (dispatch c f).1 ≠ .notSelected := by rw [Ne, hns]; simp [hs]
      simp [hd, hs, this, b2n, h]
    · have : (dispatch c f).1 = .notSelected := by rw [hns]; simp [hd, hs]
      simp [hd, hs, this, b2n, h]
    · simp [hd, b2n, h]
    · simp [hd, b2n, h]

def RetryOk (c : Cfg) : Prop := c.m.retry = (c.loops : Int)

theorem retryOk_init : RetryOk init := rfl

theorem retryOk_apply (c : Cfg) (a : Action) (he : enabled c a = true) (h : RetryOk c) : RetryOk (apply c a) := by
  unfold RetryOk at *
  rw [apply_retry, apply_loops]
  cases a <;> simp only <;> try exact h
  · omega
  · simp only [enabled, decide_eq_true_eq] at he
    omega


/-! ## counting over the senders that have begun -/

structure StartedOk (c : Cfg) : Prop where
  nodup : c.started.Nodup
  mem : ∀ i, i ∈ c.started ↔ (c.s i).pc ≠ .new

theorem startedOk_init : StartedOk init := by
  constructor <;> simp [init]

theorem startedOk_apply (c : Cfg) (a : Action) (he : enabled c a = true) (h : StartedOk c) : StartedOk (apply c a) := by
  obtain ⟨h1, h2⟩ := h
  by_cases hb : ∃ i k, a = .begin i k
  · obtain ⟨i, k, rfl⟩ := hb
    simp only [enabled, decide_eq_true_eq] at he
    constructor
    · rw [apply_started]
      simp only [List.nodup_cons]
      exact ⟨by rw [h2]; simp [he], h1⟩
    · intro j
      rw [apply_started, apply_s]
      simp only [touched, upd_apply, List.mem_cons]
      by_cases hj : j = i
      · simp [hj]
      · simp [hj, h2]
  · have hnb : ∀ j k, a ≠ .begin j k := fun j k hk => hb ⟨j, k, hk⟩
    have hst : (apply c a).started = c.started := by
      rw [apply_started]
      cases a <;> first | rfl | exact absurd rfl (hnb _ _)
    constructor
    · rw [hst]; exact h1
    · intro j
      rw [hst, h2]
      constructor
      · intro hn hn'
        have := (apply_sender_stable c a he j).1
        rw [hn'] at this
        cases hp : (c.s j).pc <;> simp_all [Pc.rank]
      · intro hn hn'
        exact hn (stays_new c a he j hn' (hnb j))

/-- counting a per-sender Boolean over a duplicate-free id list after rewriting one record -/
theorem countP_upd (s : Nat → Sender) (i : Nat) (w : Sender) (p : Sender → Bool) :
    ∀ (l : List Nat), l.Nodup →
      ((l.countP (fun j => p (upd s i w j)) : Nat) : Int) =
        (l.countP (fun j => p (s j)) : Nat) + (if i ∈ l then (b2n (p w) : Int) - (b2n (p (s i)) : Int) else 0)
  | [], _ => by simp
  | x :: l, hn => by
    have hn' := List.nodup_cons.mp hn
    have ih := countP_upd s i w p l hn'.2
    simp only [List.countP_cons, List.mem_cons]
    by_cases hx : x = i
    · subst hx
      have hnot : x ∉ l := hn'.1
      simp only [upd_same, true_or, if_true, hnot, if_false] at ih ⊢
      cases hpw : p w <;> cases hps : p (s x) <;> simp [b2n, hpw, hps] at ih ⊢ <;> omega
    · have hxi : ¬ i = x := fun h => hx h.symm
      simp only [upd_apply, hx, if_false, hxi, false_or] at ih ⊢
      split at ih <;> split <;> simp_all <;> omega

/-- summing a per-sender Nat over a duplicate-free id list after rewriting one record -/
theorem sum_upd (s : Nat → Sender) (i : Nat) (w : Sender) (g : Sender → Nat) :
    ∀ (l : List Nat), l.Nodup →
      (((l.map (fun j => g (upd s i w j))).sum : Nat) : Int) =
        ((l.map (fun j => g (s j))).sum : Nat) + (if i ∈ l then (g w : Int) - (g (s i) : Int) else 0)
  | [], _ => by simp
  | x :: l, hn => by
    have hn' := List.nodup_cons.mp hn
    have ih := sum_upd s i w g l hn'.2
    simp only [List.map_cons, List.sum_cons, List.mem_cons]
    by_cases hx : x = i
    · subst hx
      have hnot : x ∉ l := hn'.1
      simp only [upd_same, true_or, if_true, hnot, if_false] at ih ⊢
      omega
    · have hxi : ¬ i = x := fun h => hx h.symm
      simp only [upd_apply, hx, if_false, hxi, false_or] at ih ⊢
      split at ih <;> split <;> simp_all <;> omega


/-! ## I-cnt: what each call contributed to the counters (per sender) -/

theorem out_none_of_rank {w : Sender} (hp : PcOk w) (h : w.pc.rank ≤ 7) : w.out = none := by
  cases ho : w.out with
  | none => rfl
  | some o =>
    have := hp.out_iff.mpr (by simp [ho])
    rcases this with h1 | h1 | h1 <;> simp [h1, Pc.rank] at h

/-- DataMsgSendCount contribution by program counter: nothing before the write returned, exactly one frame
    (data kinds; none for control transactions) right after -/
structure CntPc (w : Sender) : Prop where
  fresh : w.pc = .new → w.dSent = 0 ∧ w.dErr = 0 ∧ w.dDrop = 0 ∧ w.dAsyncErr = 0
  early : w.pc.rank ≤ 5 → w.dSent = 0
  wrote : (w.pc = .written ∨ w.pc = .waiting) → w.dSent = b2n w.kind.isData

theorem cntPc_init (j : Nat) : CntPc (init.s j) := by
  constructor <;> simp [init, Pc.rank, b2n]

theorem cntPc_apply (c : Cfg) (a : Action) (he : enabled c a = true) (hq : QueueOk c)
    (h : ∀ j, CntPc (c.s j)) : ∀ j, CntPc ((apply c a).s j) := by
  apply sender_step c a h
  intro i w ht
  have hi := h i
  cases a
  case drain e ok =>
    obtain ⟨rest, hqe, rfl⟩ := touched_drain c e ok i w ht
    obtain ⟨q1, q2, q3⟩ := hq e i (by rw [hqe]; exact List.mem_cons_self)
    obtain ⟨g1, g2, g3⟩ := hi
    unfold Sender.afterDrain
    split <;> constructor <;> simp_all [Pc.rank]
  case recv e f =>
    obtain ⟨r, _, rfl⟩ := touched_recv c e f i w ht
    obtain ⟨g1, g2, g3⟩ := hi
    constructor <;> simp_all
  sender_cases he ht
  all_goals (obtain ⟨g1, g2, g3⟩ := hi)
  all_goals unfold_after
  all_goals (try (rcases he with ⟨he1, he2⟩ | ⟨he1, he2⟩))
  all_goals (repeat' split)
  all_goals (constructor <;> simp_all [Pc.rank, b2n])

/-- DataMsgErrCount / DataMsgDropNotSelectedCount contribution by outcome (synchronous kinds):
    err = T3 expiry of a data transaction or a transport write error of a data send, nothing else
    (in particular nothing for a peer reject); drop = exactly the refused (B1 / B2) calls -/
structure CntOut (w : Sender) : Prop where
  err : w.kind ≠ .async → w.dErr = b2n ((w.out = some .timeout && w.kind = .sync) || (w.out = some .writeErr && w.kind.isData))
  drop : w.kind ≠ .async → w.dDrop = b2n (w.out = some .notSelected)
  noAsync : w.kind ≠ .async → w.dAsyncErr = 0

theorem cntOut_init (j : Nat) : CntOut (init.s j) := by
  constructor <;> simp [init, b2n]

theorem cntOut_apply (c : Cfg) (a : Action) (he : enabled c a = true) (hp : ∀ j, PcOk (c.s j)) (hq : QueueOk c)
    (hc : ∀ j, CntPc (c.s j)) (h : ∀ j, CntOut (c.s j)) : ∀ j, CntOut ((apply c a).s j) := by
  apply sender_step c a h
  intro i w ht
  have hi := h i
  have hpi := hp i
  have hci := (hc i).fresh
  cases a
  case drain e ok =>
    obtain ⟨rest, hqe, rfl⟩ := touched_drain c e ok i w ht
    obtain ⟨q1, q2, q3⟩ := hq e i (by rw [hqe]; exact List.mem_cons_self)
    constructor <;> (intro hk; unfold Sender.afterDrain at hk; split at hk <;> simp_all)
  case recv e f =>
    obtain ⟨r, _, rfl⟩ := touched_recv c e f i w ht
    obtain ⟨g1, g2, g3⟩ := hi
    constructor <;> simp_all
  all_goals (have hout := @out_none_of_rank (c.s i) hpi)
  sender_cases he ht
  all_goals (obtain ⟨g1, g2, g3⟩ := hi)
  case wcheck i =>
    have ho := hout (by rcases he with ⟨h1, _⟩ | ⟨h1, _⟩ <;> simp [h1, Pc.rank])
    rcases checkRes_cases c (c.s i).ep (c.s i).kind.isData with hc | hc | ⟨hc, hd⟩ <;>
      simp only [hc, Sender.afterCheck, Sender.leave, Sender.finish, WRes.outcome] <;>
      (try split) <;> constructor <;> simp_all [b2n]
  case write i ok =>
    have ho := hout (by simp [he, Pc.rank])
    rcases xmitRes_cases c (c.s i).ep ok with ⟨hx, _⟩ | hx <;>
      simp only [hx, Sender.afterWrite, Sender.leave, Sender.finish] <;>
      (try split) <;> constructor <;> simp_all [b2n]
  case decide i ch =>
    have ho := hout (by simp [he.1, Pc.rank])
    cases ch <;> simp only [Sender.afterDecide]
    · cases hch : (c.s i).chan with
      | none => simp [hch] at he
      | some r =>
        constructor <;> simp_all [b2n]
        all_goals (cases r <;> simp [outcomeOfRes] <;> (try split) <;> simp)
    all_goals (constructor <;> simp_all [b2n])
  case begin i k => have ho := hout (by simp [he, Pc.rank]); constructor <;> simp_all [b2n]
  case pin i => have ho := hout (by simp [he, Pc.rank]); unfold Sender.afterPin Sender.finish; split <;> constructor <;> simp_all [b2n]
  case gate i =>
    have ho := hout (by simp [he, Pc.rank])
    unfold Sender.afterGate Sender.finish; split <;> constructor <;> simp_all [b2n]
  case register i => have ho := hout (by simp [he.1, Pc.rank]); constructor <;> simp_all [b2n]
  case incInflight i => have ho := hout (by simp [he, Pc.rank]); constructor <;> simp_all [b2n]
  case enqueue i ch =>
    constructor <;> (intro hk; exfalso; revert hk; unfold Sender.afterEnqueue Sender.finish; split <;> simp_all)
  all_goals (constructor <;> simp_all [b2n])


/-- DataMsgSendCount contribution by outcome: a reply / reject / T3 / cancel / (nil, nil) all come after the frame was
    written and counted; a refusal or a write error come before; connection-closed can be either side of the write -/
def SentBy (w : Sender) : Outcome → Prop
  | .reply .. | .ctrlReply .. | .nilnil _ | .reject _ | .timeout | .ctx | .sent => w.dSent = b2n w.kind.isData
  | .notOpen | .notSelected | .writeErr => w.dSent = 0
  | .closed => w.dSent ≤ b2n w.kind.isData

def CntSent (w : Sender) : Prop := w.kind ≠ .async → ∀ o, w.out = some o → SentBy w o

theorem cntSent_init (j : Nat) : CntSent (init.s j) := by
  intro _ o h; simp [init] at h

theorem cntSent_apply (c : Cfg) (a : Action) (he : enabled c a = true) (hp : ∀ j, PcOk (c.s j)) (hq : QueueOk c)
    (hc : ∀ j, CntPc (c.s j)) (h : ∀ j, CntSent (c.s j)) : ∀ j, CntSent ((apply c a).s j) := by
  apply sender_step c a h
  intro i w ht
  have hi := h i
  have hpi := hp i
  obtain ⟨c1, c2, c3⟩ := hc i
  cases a
  case drain e ok =>
    obtain ⟨rest, hqe, rfl⟩ := touched_drain c e ok i w ht
    obtain ⟨q1, q2, q3⟩ := hq e i (by rw [hqe]; exact List.mem_cons_self)
    intro hk; exfalso; revert hk; unfold Sender.afterDrain; split <;> simp_all
  case recv e f =>
    obtain ⟨r, _, rfl⟩ := touched_recv c e f i w ht
    exact hi
  all_goals (have hout := @out_none_of_rank (c.s i) hpi)
  sender_cases he ht
  case cancel i => exact hi
  case begin i k => have ho := hout (by simp [he, Pc.rank]); intro _ o h; simp [ho] at h
  case pin i =>
    have ho := hout (by simp [he, Pc.rank])
    have h0 := c2 (by simp [he, Pc.rank])
    unfold Sender.afterPin Sender.finish
    split <;> intro _ o h <;> simp_all [SentBy]
    subst h; simp [SentBy, h0]
  case gate i =>
    have ho := hout (by simp [he, Pc.rank])
    have h0 := c2 (by simp [he, Pc.rank])
    unfold Sender.afterGate Sender.finish
    split <;> intro _ o h <;> simp_all [SentBy]
    subst h; simp [SentBy, h0]
  case register i => have ho := hout (by simp [he.1, Pc.rank]); intro _ o h; simp [ho] at h
  case incInflight i => have ho := hout (by simp [he, Pc.rank]); intro _ o h; simp [ho] at h
  case decInflight i => exact hi
  case deregister i => exact hi
  case enqueue i ch =>
    intro hk; exfalso; revert hk; unfold Sender.afterEnqueue Sender.finish; split <;> simp_all
  case wcheck i =>
    have ho := hout (by rcases he with ⟨h1, _⟩ | ⟨h1, _⟩ <;> simp [h1, Pc.rank])
    have h0 := c2 (by rcases he with ⟨h1, _⟩ | ⟨h1, _⟩ <;> simp [h1, Pc.rank])
    rcases checkRes_cases c (c.s i).ep (c.s i).kind.isData with hc | hc | ⟨hc, hd⟩ <;>
      simp only [hc, Sender.afterCheck, Sender.leave, Sender.finish, WRes.outcome] <;>
      (try split) <;> intro _ o h <;> simp_all [SentBy]
    all_goals (subst h; simp [SentBy, h0])
  case write i ok =>
    have ho := hout (by simp [he, Pc.rank])
    have h0 := c2 (by simp [he, Pc.rank])
    rcases xmitRes_cases c (c.s i).ep ok with ⟨hx, _⟩ | hx <;>
      simp only [hx, Sender.afterWrite, Sender.leave, Sender.finish] <;>
      (try split) <;> intro _ o h <;> simp_all [SentBy]
    all_goals (subst h; simp [SentBy, h0])
  case decide i ch =>
    have ho := hout (by simp [he.1, Pc.rank])
    have hs := c3 (Or.inr he.1)
    cases ch <;> simp only [Sender.afterDecide]
    · cases hch : (c.s i).chan with
      | none => simp [hch] at he
      | some r =>
        intro _ o h
        simp only [Option.some.injEq] at h
        subst h
        cases r with
        | data fid sb fn wb => simp only [outcomeOfRes, SentBy]; exact hs
        | rej reason => simp only [outcomeOfRes, SentBy]; exact hs
        | ctrl fid sb st => simp only [outcomeOfRes]; split <;> (simp only [SentBy]; exact hs)
    all_goals (intro _ o h; simp only [Option.some.injEq] at h; subst h; simp only [SentBy]; first | exact hs | exact Nat.le_of_eq hs)

end GoSecs.Router
