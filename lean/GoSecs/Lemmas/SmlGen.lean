/-
  Tie lemmas between the sml functions regenerated from the Go source (GoSecs/Gen/Sml.lean) and the
  hand-written model (GoSecs/Model/Sml.lean): `newParseError` (offset clamp, line / column loop),
  `Parser.checkASCIICloseQuote` (the close-quote scan with its early returns), `toUpperRune`,
  `getIntFormatCode`.  For ALL inputs, including that no index is ever out of range.
  Re-exported as the `…_gen` theorems of Props/C14.  Core Lean only.
-/
import GoSecs.Model.Sml
import GoSecs.Gen.Sml
import GoSecs.Lemmas.GoPrelude

set_option linter.unusedSimpArgs false

namespace GoSecs.Sml
open GoSecs.Gen

/-! ### newParseError -/

/-- The body of the generated `for i := 0; i < offset; i++` loop of `newParseError`. -/
def LineColStep (input : Bytes) (f : Int → Int × Int → Option (Int × Int)) : Prop :=
  ∀ (i line col : Int), f i (line, col) =
    (Go.idx? input i).bind fun t =>
      ((if (t == 10) then some (line + 1, 1) else some (line, col + 1)) : Option (Int × Int)).bind fun (p : Int × Int) =>
        some (p.1, p.2)

theorem lineCol_loop (input : Bytes) (f) (hf : LineColStep input f) :
    ∀ (n i line col : Nat), i + n ≤ input.length →
      Go.foldUpNM 1 f n (i : Int) ((line : Int), (col : Int)) =
        some (((lineCol n line col (input.drop i)).1 : Int), ((lineCol n line col (input.drop i)).2 : Int)) := by
  intro n
  induction n with
  | zero =>
    intro i line col _
    cases h : input.drop i <;> simp [Go.foldUpNM, lineCol]
  | succ n ih =>
    intro i line col hi
    have hlt : i < input.length := by omega
    have hd : input.drop i = input[i] :: input.drop (i + 1) := (List.drop_eq_getElem_cons hlt)
    simp only [Go.foldUpNM]
    rw [hf, Go.idx?_eq input i hlt, hd]
    simp only [Option.bind_some, lineCol]
    by_cases hc : input[i] = cNL
    · have : (Go.u8 input[i] == 10) = true := by rw [hc]; rfl
      simp only [this, reduceIte, Option.bind_some]
      simp only [hc, reduceIte]
      have := ih (i + 1) (line + 1) 1 (by omega)
      simpa using this
    · have : (Go.u8 input[i] == 10) = false := by
        simp only [Go.u8_nat, beq_eq_false_iff_ne, ne_eq]
        intro h
        apply hc
        apply UInt8.toNat_inj.mp
        simp only [cNL]
        have : (input[i].toNat : Int) = 10 := h
        show input[i].toNat = 10
        omega
      simp only [this, reduceIte, Option.bind_some, Bool.false_eq_true]
      simp only [hc, reduceIte]
      have := ih (i + 1) line (col + 1) (by omega)
      simpa using this


theorem lineCol_loop0 (input : Bytes) (f) (hf : LineColStep input f) (n : Nat) (h : n ≤ input.length) :
    Go.foldUpNM 1 f n 0 (1, 1) = some (((lineCol n 1 1 input).1 : Int), ((lineCol n 1 1 input).2 : Int)) := by
  have := lineCol_loop input f hf n 0 1 1 (by omega)
  simpa using this

theorem newParseError_gen (input : Bytes) (offset : Nat) (msg : Bytes) :
    sml_newParseError input (offset : Int) msg =
      some { Offset := ((newParseError input offset).offset : Int), Line := ((newParseError input offset).line : Int),
             Col := ((newParseError input offset).col : Int), Msg := msg } := by
  unfold sml_newParseError newParseError
  by_cases h : offset > input.length
  · have : decide ((offset : Int) > Go.len input) = true := by
      have : (offset : Int) > (input.length : Int) := by omega
      exact decide_eq_true this
    simp only [this, reduceIte, Option.bind_some, h, Go.foldUpM]
    simp only [Go.len_nat]
    have hn : Go.iters 0 (input.length : Int) 1 = input.length := by
      unfold Go.iters; split <;> omega
    rw [hn, lineCol_loop0 input _ (fun _ _ _ => rfl) input.length (by omega)]
    simp [sml_ParseError.zero]
  · have : decide ((offset : Int) > Go.len input) = false := by
      have : ¬ ((offset : Int) > (input.length : Int)) := by omega
      exact decide_eq_false this
    simp only [this, reduceIte, Option.bind_some, h, Go.foldUpM, Bool.false_eq_true]
    have hn : Go.iters 0 (offset : Int) 1 = offset := by
      unfold Go.iters; split <;> omega
    rw [hn, lineCol_loop0 input _ (fun _ _ _ => rfl) offset (by omega)]
    simp [sml_ParseError.zero]

/-! ### checkASCIICloseQuote -/

def closeRes : Close → Bool × Int
  | .no => (false, 0)
  | .yes n => (true, (n : Int))

def CloseStep (data : Bytes) (f : Int → Unit → Option (Go.Ctl Unit (Bool × Int))) : Prop :=
  ∀ (nidx : Int) (u : Unit), f nidx u =
    (Go.idx? data nidx).bind fun t =>
      if (t == 32) || (t == 9) || (t == 13) || (t == 10) then some (.next ())
      else if (t == 62) then some (.ret (true, nidx + 1))
      else some (.ret (false, 0))

def loopOut : Except (Bool × Int) Unit → Option (Bool × Int)
  | .error r => some r
  | .ok _ => some (false, 0)

theorem u8_beq (c : UInt8) (k : Nat) (hk : k < 256) : (Go.u8 c == (k : Int)) = decide (c = UInt8.ofNat k) := by
  by_cases h : c = UInt8.ofNat k
  · subst h
    simp [Go.u8, Nat.mod_eq_of_lt hk]
  · have : (Go.u8 c == (k : Int)) = false := by
      simp only [Go.u8_nat, beq_eq_false_iff_ne, ne_eq]
      intro e
      apply h
      apply UInt8.toNat_inj.mp
      simp only [UInt8.toNat_ofNat', Nat.mod_eq_of_lt hk]
      omega
    simp [this, h]

theorem isWS_gen (c : UInt8) :
    ((Go.u8 c == 32) || (Go.u8 c == 9) || (Go.u8 c == 13) || (Go.u8 c == 10)) = isWS c := by
  have e32 : (Go.u8 c == 32) = decide (c = 32) := u8_beq c 32 (by decide)
  have e9 : (Go.u8 c == 9) = decide (c = 9) := u8_beq c 9 (by decide)
  have e13 : (Go.u8 c == 13) = decide (c = 13) := u8_beq c 13 (by decide)
  have e10 : (Go.u8 c == 10) = decide (c = 10) := u8_beq c 10 (by decide)
  rw [e32, e9, e13, e10]
  rfl

theorem isGT_gen (c : UInt8) : (Go.u8 c == 62) = decide (c = cGT) := u8_beq c 62 (by decide)

theorem closeScan_loop (data : Bytes) (f) (hf : CloseStep data f) :
    ∀ (n i : Nat), i + n = data.length →
      (Go.loopUpNM 1 f n (i : Int) ()).bind loopOut = some (closeRes (closeScan i (data.drop i))) := by
  intro n
  induction n with
  | zero =>
    intro i hi
    have : data.drop i = [] := by apply List.drop_eq_nil_of_le; omega
    simp [Go.loopUpNM, loopOut, this, closeScan, closeRes]
  | succ n ih =>
    intro i hi
    have hlt : i < data.length := by omega
    have hd : data.drop i = data[i] :: data.drop (i + 1) := List.drop_eq_getElem_cons hlt
    simp only [Go.loopUpNM]
    rw [hf, Go.idx?_eq data i hlt, hd]
    simp only [Option.bind_some, closeScan, isWS_gen, isGT_gen]
    cases hw : isWS data[i]
    · by_cases hg : data[i] = cGT
      · simp [hg, loopOut, closeRes]
      · simp [hg, loopOut, closeRes]
    · simp only [reduceIte]
      have := ih (i + 1) (by omega)
      simpa using this

theorem checkASCIICloseQuote_gen (p : sml_Parser) (idx : Nat) (q : UInt8) :
    sml_Parser_checkASCIICloseQuote p (idx : Int) (q.toNat : Int) =
      some (closeRes (checkClose q idx (p.data.drop idx))) := by
  unfold sml_Parser_checkASCIICloseQuote checkClose
  by_cases h1 : idx + 1 ≥ p.data.length
  · have : decide ((idx : Int) + 1 ≥ Go.len p.data) = true := by
      have : (idx : Int) + 1 ≥ (p.data.length : Int) := by omega
      exact decide_eq_true this
    simp only [this, reduceIte, Option.bind_some]
    by_cases h0 : idx < p.data.length
    · have hd : p.data.drop idx = [p.data[idx]] := by
        rw [List.drop_eq_getElem_cons h0]
        congr 1
        apply List.drop_eq_nil_of_le; omega
      simp [hd, closeRes]
    · have hd : p.data.drop idx = [] := by apply List.drop_eq_nil_of_le; omega
      simp [hd, closeRes]
  · have : decide ((idx : Int) + 1 ≥ Go.len p.data) = false := by
      have : ¬ ((idx : Int) + 1 ≥ (p.data.length : Int)) := by omega
      exact decide_eq_false this
    have hlt : idx < p.data.length := by omega
    have hd : p.data.drop idx = p.data[idx] :: p.data.drop (idx + 1) := List.drop_eq_getElem_cons hlt
    have hne : (p.data.drop (idx + 1)).isEmpty = false := by simp; omega
    simp only [this, Bool.false_eq_true, reduceIte, Go.idx?_eq p.data idx hlt, Option.bind_some, hd, hne, false_or]
    by_cases hq : p.data[idx] = q
    · have e : (Go.u8 p.data[idx] != (q.toNat : Int)) = false := by
        rw [hq]; simp [Go.u8]
      simp only [e, Bool.false_eq_true, reduceIte, Go.loopUpM]
      simp only [hq, ne_eq, not_true_eq_false, reduceIte]
      have hn : Go.iters ((idx : Int) + 1) (Go.len p.data) 1 = p.data.length - (idx + 1) := by
        show Go.iters ((idx : Int) + 1) ((p.data.length : Nat) : Int) 1 = _
        unfold Go.iters
        rw [if_pos (by omega)]; omega
      rw [hn, show (idx : Int) + 1 = ((idx + 1 : Nat) : Int) by simp]
      have := closeScan_loop p.data _ (fun _ _ => rfl) (p.data.length - (idx + 1)) (idx + 1) (by omega)
      rw [← this]
      cases Go.loopUpNM 1 _ (p.data.length - (idx + 1)) ((idx + 1 : Nat) : Int) () with
      | none => rfl
      | some r => cases r <;> rfl
    · have e : (Go.u8 p.data[idx] != (q.toNat : Int)) = true := by
        simp only [Go.u8_nat, bne_iff_ne, ne_eq]
        intro e
        apply hq
        apply UInt8.toNat_inj.mp
        omega
      simp [e, hq, closeRes]

/-- `toUpperRune` on a byte is the model's `upperB`. -/
theorem toUpperRune_gen (c : UInt8) : sml_toUpperRune (c.toNat : Int) = ((upperB c).toNat : Int) := by
  unfold sml_toUpperRune upperB
  have hc := c.toNat_lt
  by_cases h : 97 ≤ c.toNat ∧ c.toNat ≤ 122
  · have : (decide ((97 : Int) ≤ (c.toNat : Int)) && decide ((c.toNat : Int) ≤ 122)) = true := by
      simp only [Bool.and_eq_true, decide_eq_true_eq]; omega
    simp only [this, Bool.false_or, Bool.not_true, Bool.false_eq_true, reduceIte, h, and_self]
    have hs : (c - 32).toNat = c.toNat - 32 := by
      rw [UInt8.toNat_sub_of_le]
      · rfl
      · show (32 : UInt8).toNat ≤ c.toNat
        have : (32 : UInt8).toNat = 32 := rfl
        omega
    rw [hs]
    unfold Go.wrapS
    simp only [Nat.reduceEqDiff, reduceIte]
    omega
  · have : (decide ((97 : Int) ≤ (c.toNat : Int)) && decide ((c.toNat : Int) ≤ 122)) = false := by
      simp only [Bool.and_eq_false_iff, decide_eq_false_iff_not]; omega
    simp only [this, Bool.false_or, Bool.not_false, reduceIte, h]

/-! ### getIntFormatCode -/

/-- `getIntFormatCode(signed, byteSize)` on bytes: 'I' / 'U' select the signed / unsigned table, the digit
    selects the width; anything else is `(0, false)`. -/
def intFormatCode (s d : UInt8) : Int × Bool :=
  if s = 73 then (match widthOfDigit d with | some w => ((Secs2.fcInt w : Nat), true) | none => (0, false))
  else if s = 85 then (match widthOfDigit d with | some w => ((Secs2.fcUint w : Nat), true) | none => (0, false))
  else (0, false)

theorem getIntFormatCode_gen (s d : UInt8) :
    sml_getIntFormatCode (s.toNat : Int) (d.toNat : Int) = intFormatCode s d := by
  have es (k : Nat) (hk : k < 256) : ((s.toNat : Int) == (k : Int)) = decide (s = UInt8.ofNat k) := u8_beq s k hk
  have ed (k : Nat) (hk : k < 256) : ((d.toNat : Int) == (k : Int)) = decide (d = UInt8.ofNat k) := u8_beq d k hk
  have s73 : ((s.toNat : Int) == 73) = decide (s = 73) := es 73 (by decide)
  have s85 : ((s.toNat : Int) == 85) = decide (s = 85) := es 85 (by decide)
  have d49 : ((d.toNat : Int) == 49) = decide (d = 49) := ed 49 (by decide)
  have d50 : ((d.toNat : Int) == 50) = decide (d = 50) := ed 50 (by decide)
  have d52 : ((d.toNat : Int) == 52) = decide (d = 52) := ed 52 (by decide)
  have d56 : ((d.toNat : Int) == 56) = decide (d = 56) := ed 56 (by decide)
  unfold sml_getIntFormatCode intFormatCode widthOfDigit
  rw [s73, s85, d49, d50, d52, d56]
  by_cases h1 : s = 73 <;> by_cases h2 : s = 85 <;> by_cases a : d = 49 <;> by_cases b : d = 50 <;>
    by_cases c : d = 52 <;> by_cases e : d = 56 <;>
    simp [h1, h2, a, b, c, e, Secs2.fcInt, Secs2.fcUint]

end GoSecs.Sml
