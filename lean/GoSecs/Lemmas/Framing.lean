/-
  Helper lemmas for the stream-framing model (C04).
-/
import GoSecs.Model.Framing
import GoSecs.Lemmas.Hsms

namespace GoSecs.Framing
open GoSecs GoSecs.Hsms

/-! ### Basic facts about the byte step -/

theorem stepByte_dropped (cap : Nat) (s : RState) (b : UInt8) (d : Drop) (h : s.dropped = some d) :
    stepByte cap s b = s := by
  simp [stepByte, h]

theorem feed_dropped (cap : Nat) (bs : Bytes) : ∀ (s : RState) (d : Drop), s.dropped = some d → feed cap s bs = s := by
  induction bs with
  | nil => intro s d _; rfl
  | cons b bs ih =>
    intro s d h
    simp only [feed, List.foldl_cons] at ih ⊢
    rw [stepByte_dropped cap s b d h]
    exact ih s d h

theorem feed_append (cap : Nat) (s : RState) (a b : Bytes) : feed cap s (a ++ b) = feed cap (feed cap s a) b := by
  simp [feed, List.foldl_append]

theorem feed_cons (cap : Nat) (s : RState) (b : UInt8) (bs : Bytes) :
    feed cap s (b :: bs) = feed cap (stepByte cap s b) bs := rfl

theorem dropped_cases (s : RState) : s.dropped = none ∨ ∃ d, s.dropped = some d := by
  cases s.dropped <;> simp

/-- The byte step forgets the idle clock: a byte arrived. -/
theorem stepByte_idle (cap : Nat) (s : RState) (i : Nat) (b : UInt8) (h : s.dropped = none) :
    stepByte cap { s with idle := i } b = stepByte cap s b := by
  simp only [stepByte, h]

/-- The observation ignores the idle clock, and so does everything fed afterwards. -/
theorem feed_idle_obs (cap : Nat) (s : RState) (i : Nat) (bs : Bytes) :
    (feed cap { s with idle := i } bs).obs = (feed cap s bs).obs := by
  cases bs with
  | nil => rfl
  | cons b bs =>
    rcases dropped_cases s with hd | ⟨d, hd⟩
    · have := stepByte_idle cap s i b hd
      rw [feed_cons, feed_cons, this]
    · have h1 := feed_dropped cap (b :: bs) { s with idle := i } d hd
      rw [h1, feed_dropped cap _ s d hd]
      rfl

/-- A byte step never produces a T8 timeout. -/
theorem stepByte_no_timeout (cap : Nat) (s : RState) (b : UInt8) (h : s.dropped ≠ some .timeout) :
    (stepByte cap s b).dropped ≠ some .timeout := by
  rcases dropped_cases s with hd | ⟨d, hd⟩
  · simp only [stepByte, hd]
    cases s.len with
    | none => simp only; (repeat' split) <;> simp
    | some L => simp only; (repeat' split) <;> simp
  · rw [stepByte_dropped cap s b d hd]; exact h

theorem feed_no_timeout (cap : Nat) (bs : Bytes) : ∀ (s : RState), s.dropped ≠ some .timeout →
    (feed cap s bs).dropped ≠ some .timeout := by
  induction bs with
  | nil => intro s h; exact h
  | cons b bs ih => intro s h; rw [feed_cons]; exact ih _ (stepByte_no_timeout cap s b h)

/-- After a byte step the state is dropped or the idle clock is zero. -/
theorem stepByte_idle_zero (cap : Nat) (s : RState) (b : UInt8) (h : s.dropped = none) :
    (stepByte cap s b).dropped ≠ none ∨ (stepByte cap s b).idle = 0 := by
  simp only [stepByte, h]
  cases s.len with
  | none => simp only; (repeat' split) <;> simp
  | some L => simp only; (repeat' split) <;> simp

theorem feed_idle_zero (cap : Nat) (bs : Bytes) : ∀ (s : RState),
    (s.dropped ≠ none ∨ s.idle = 0 ∨ bs ≠ []) → (feed cap s bs).dropped ≠ none ∨ (feed cap s bs).idle = 0 := by
  induction bs with
  | nil =>
    intro s h
    rcases h with h | h | h
    · exact .inl h
    · exact .inr h
    · exact absurd rfl h
  | cons b bs ih =>
    intro s _
    rw [feed_cons]
    apply ih
    rcases dropped_cases s with hd | ⟨d, hd⟩
    · rcases stepByte_idle_zero cap s b hd with h | h
      · exact .inl h
      · exact .inr (.inl h)
    · rw [stepByte_dropped cap s b d hd]; exact .inl (by simp [hd])

/-! ### Events -/

theorem stepEvent_dropped (t8 cap : Nat) (s : RState) (e : Event) (d : Drop) (h : s.dropped = some d) :
    stepEvent t8 cap s e = s := by
  simp [stepEvent, h]

theorem run_dropped (t8 cap : Nat) (evs : List Event) : ∀ (s : RState) (d : Drop), s.dropped = some d →
    run t8 cap s evs = s := by
  induction evs with
  | nil => intro s d _; rfl
  | cons e es ih =>
    intro s d h
    simp only [run, List.foldl_cons] at ih ⊢
    rw [stepEvent_dropped t8 cap s e d h]
    exact ih s d h

theorem run_cons (t8 cap : Nat) (s : RState) (e : Event) (es : List Event) :
    run t8 cap s (e :: es) = run t8 cap (stepEvent t8 cap s e) es := rfl

theorem stream_cons (e : Event) (es : List Event) : stream (e :: es) = e.chunk ++ stream es := by
  simp [stream]

/-- An event that does not time out is: advance the clock, feed the chunk. -/
theorem stepEvent_ok (t8 cap : Nat) (s : RState) (e : Event) (hd : s.dropped = none)
    (hg : s.started = true → s.idle + e.gap ≤ t8) :
    stepEvent t8 cap s e = feed cap { s with idle := s.idle + e.gap } e.chunk := by
  simp only [stepEvent, hd]
  cases hs : s.started with
  | false => simp
  | true =>
    have := hg hs
    have h2 : ¬ s.idle + e.gap > t8 := by omega
    simp [h2]

/-- **The core of segmentation invariance**: as long as every in-frame gap is within T8, running a
    schedule of read events from any state observes exactly what feeding the concatenated bytes does.
    Invariant of the induction: what has been consumed so far ++ what the remaining events carry is
    the unread stream. -/
theorem run_obs (t8 cap : Nat) (evs : List Event) : ∀ (s : RState), GapsOK t8 cap s evs →
    (run t8 cap s evs).obs = (feed cap s (stream evs)).obs := by
  induction evs with
  | nil => intro s _; rfl
  | cons e es ih =>
    intro s hg
    obtain ⟨hg1, hg2⟩ := hg
    rw [run_cons, stream_cons, feed_append, ih _ hg2]
    rcases dropped_cases s with hd | ⟨d, hd⟩
    · rw [stepEvent_ok t8 cap s e hd (hg1 hd)]
      cases e.chunk with
      | nil =>
        show (feed cap { s with idle := s.idle + e.gap } (stream es)).obs = (feed cap s (stream es)).obs
        exact feed_idle_obs cap s _ _
      | cons b bs =>
        rw [feed_cons, feed_cons, stepByte_idle cap s _ b hd]
    · rw [stepEvent_dropped t8 cap s e d hd, feed_dropped cap e.chunk s d hd]

/-- Sufficient condition that does not mention the receiver: every gap within T8 and no empty reads. -/
theorem gapsOK_of_all_le (t8 cap : Nat) (evs : List Event) : ∀ (s : RState),
    (s.dropped ≠ none ∨ s.idle = 0) → (∀ e ∈ evs, e.gap ≤ t8 ∧ e.chunk ≠ []) → GapsOK t8 cap s evs := by
  induction evs with
  | nil => intro s _ _; trivial
  | cons e es ih =>
    intro s hs hall
    have he := hall e (by simp)
    refine ⟨?_, ?_⟩
    · intro hd _
      rcases hs with h | h
      · exact absurd hd h
      · rw [h]; simpa using he.1
    · apply ih
      · rcases dropped_cases s with hd | ⟨d, hd⟩
        · have hg : s.started = true → s.idle + e.gap ≤ t8 := by
            intro _
            rcases hs with h | h
            · exact absurd hd h
            · rw [h]; simpa using he.1
          rw [stepEvent_ok t8 cap s e hd hg]
          exact feed_idle_zero cap e.chunk _ (.inr (.inr he.2))
        · rw [stepEvent_dropped t8 cap s e d hd]; exact .inl (by simp [hd])
      · intro e' he'; exact hall e' (by simp [he'])

/-! ### Whole frames -/

/-- The wire image of a payload `[header ‖ body]`. -/
def frameOf (p : Bytes) : Bytes := beBytes 4 p.length ++ p

/-- A state between frames (`readFrame` about to be called). -/
def Boundary (s : RState) : Prop :=
  s.rbuf = [] ∧ s.got = 0 ∧ s.len = none ∧ s.started = false ∧ s.dropped = none

/-- Payload phase: bytes short of completing the frame only accumulate. -/
theorem feed_payload (cap L : Nat) (xs : Bytes) : ∀ (s : RState), s.dropped = none → s.len = some L →
    s.started = true → s.idle = 0 → s.got + xs.length < 4 + L →
    feed cap s xs = { s with rbuf := xs.reverse ++ s.rbuf, got := s.got + xs.length } := by
  induction xs with
  | nil => intro s _ _ _ _ _; simp [feed]
  | cons b bs ih =>
    intro s hd hl hs hi hlen
    rw [feed_cons]
    have hlt : s.got + 1 < 4 + L := by simp at hlen; omega
    have hstep : stepByte cap s b = { s with rbuf := b :: s.rbuf, got := s.got + 1 } := by
      simp only [stepByte, hd, hl, hlt, reduceIte]
      cases s; simp_all
    rw [hstep, ih _ (by simpa using hd) (by simpa using hl) (by simpa using hs) (by simpa using hi)
      (by simp at hlen ⊢; omega)]
    simp [Nat.add_assoc, Nat.add_comm 1]

/-- From a boundary state a well-formed frame is delivered, exactly its payload is allocated, and the
    receiver is at a boundary again. -/
theorem feed_frame (cap : Nat) (p : Bytes) (h10 : 10 ≤ p.length) (hcap : p.length ≤ cap) (h32 : p.length < 4294967296)
    (s : RState) (hb : Boundary s) :
    feed cap s (frameOf p) = { s with out := p :: s.out, alloc := s.alloc + p.length, idle := 0 } := by
  obtain ⟨h1, h2, h3, h4, h5⟩ := hb
  have hv : beVal (beBytes 4 p.length) = p.length := beVal_beBytes4 _ h32
  -- split the payload into all but the last byte and the last byte
  obtain ⟨ini, last, rfl⟩ : ∃ ini last, p = ini ++ [last] := by
    cases hp : p.reverse with
    | nil => have : p.length = 0 := by rw [← List.length_reverse, hp]; rfl
             omega
    | cons l r => exact ⟨r.reverse, l, by rw [← List.reverse_reverse p, hp]; simp⟩
  generalize hL : (ini ++ [last]).length = L at *
  have hbe : ∃ a b c d, beBytes 4 L = [a, b, c, d] := ⟨_, _, _, _, rfl⟩
  obtain ⟨a, b, c, d, hbe⟩ := hbe
  rw [hbe] at hv
  unfold frameOf
  rw [hL, hbe]
  -- the four prefix bytes
  have hs4 : feed cap s [a, b, c, d] =
      { s with rbuf := [d, c, b, a], got := 4, started := true, idle := 0, len := some L, alloc := s.alloc + L } := by
    have e1 : ¬ L < 10 := by omega
    have e2 : ¬ L > cap := by omega
    simp [feed, stepByte, h1, h2, h3, h5, hv, e1, e2]
  have hsplit : [a, b, c, d] ++ (ini ++ [last]) = [a, b, c, d] ++ ini ++ [last] := by simp
  rw [hsplit, feed_append, feed_append, hs4]
  have hini : ini.length + 1 = L := by simpa using hL
  have hp := feed_payload cap L ini
    { s with rbuf := [d, c, b, a], got := 4, started := true, idle := 0, len := some L, alloc := s.alloc + L }
    h5 rfl rfl rfl (by simp; omega)
  rw [hp]
  have hfin : ¬ (4 + ini.length + 1 < 4 + L) := by omega
  simp [feed, stepByte, hfin, h1, h2, h3, h4, h5]

theorem boundary_after_frame (s : RState) (hb : Boundary s) (p : Bytes) (n i : Nat) :
    Boundary { s with out := p :: s.out, alloc := n, idle := i } := hb

/-- Feeding a sequence of well-formed frames delivers them all, in order. -/
theorem feed_frames (cap : Nat) (hcap : cap < 4294967296) (fs : List Bytes) : ∀ (s : RState), Boundary s →
    (∀ p ∈ fs, 10 ≤ p.length ∧ p.length ≤ cap) →
    Boundary (feed cap s (fs.map frameOf).flatten) ∧
    (feed cap s (fs.map frameOf).flatten).out = fs.reverse ++ s.out ∧
    (feed cap s (fs.map frameOf).flatten).alloc = s.alloc + (fs.map List.length).sum := by
  induction fs with
  | nil => intro s hb _; exact ⟨hb, by simp [feed], by simp [feed]⟩
  | cons p ps ih =>
    intro s hb hall
    have hp := hall p (by simp)
    simp only [List.map_cons, List.flatten_cons]
    rw [feed_append, feed_frame cap p hp.1 hp.2 (by omega) s hb]
    obtain ⟨i1, i2, i3⟩ := ih _ (boundary_after_frame s hb p _ _) (fun q hq => hall q (by simp [hq]))
    refine ⟨i1, ?_, ?_⟩
    · rw [i2]; simp
    · rw [i3]; simp; omega

/-- A length field outside [10, cap] drops the link at the fourth prefix byte: nothing was allocated for
    it, nothing is delivered, whatever follows is ignored. -/
theorem feed_bad_length (cap L : Nat) (h32 : L < 4294967296) (hbad : L < 10 ∨ L > cap) (rest : Bytes)
    (s : RState) (hb : Boundary s) :
    (feed cap s (beBytes 4 L ++ rest)).dropped = some (if L < 10 then .lenSmall else .lenBig) ∧
    (feed cap s (beBytes 4 L ++ rest)).alloc = s.alloc ∧
    (feed cap s (beBytes 4 L ++ rest)).out = s.out := by
  obtain ⟨h1, h2, h3, h4, h5⟩ := hb
  have hv : beVal (beBytes 4 L) = L := beVal_beBytes4 _ h32
  have hbe : ∃ a b c d, beBytes 4 L = [a, b, c, d] := ⟨_, _, _, _, rfl⟩
  obtain ⟨a, b, c, d, hbe⟩ := hbe
  rw [hbe] at hv ⊢
  rw [feed_append]
  by_cases hs : L < 10
  · have hs4 : feed cap s [a, b, c, d] =
        { s with rbuf := [d, c, b, a], got := 4, started := true, idle := 0, dropped := some .lenSmall } := by
      simp [feed, stepByte, h1, h2, h3, h5, hv, hs]
    rw [hs4, feed_dropped cap rest _ .lenSmall rfl]
    simp [hs]
  · have hbig : L > cap := by omega
    have hs4 : feed cap s [a, b, c, d] =
        { s with rbuf := [d, c, b, a], got := 4, started := true, idle := 0, dropped := some .lenBig } := by
      simp [feed, stepByte, h1, h2, h3, h5, hv, hs, hbig]
    rw [hs4, feed_dropped cap rest _ .lenBig rfl]
    simp [hs]


/-! ### Allocation is bounded by what was actually received -/

/-- Payload bytes of the frame in progress that were allocated but have not arrived yet. -/
def unreceived (s : RState) : Nat :=
  match s.len with
  | some L => 4 + L - s.got
  | none => 0

/-- Phase invariant: in the prefix phase fewer than four bytes are buffered (unless the link was just
    dropped by the length gate); in the payload phase the validated length is within the cap and the frame is
    not yet complete. -/
def LenInv (cap : Nat) (s : RState) : Prop :=
  match s.len with
  | none => s.dropped = none → s.got < 4
  | some L => 4 ≤ s.got ∧ s.got < 4 + L ∧ L ≤ cap

theorem stepByte_alloc (cap : Nat) (s : RState) (b : UInt8) (k : Nat) (hi : LenInv cap s)
    (h : s.alloc ≤ k + unreceived s) :
    LenInv cap (stepByte cap s b) ∧ (stepByte cap s b).alloc ≤ (k + 1) + unreceived (stepByte cap s b) := by
  rcases dropped_cases s with hd | ⟨d, hd⟩
  · unfold LenInv unreceived at *
    simp only [stepByte, hd]
    cases hl : s.len with
    | none =>
      simp only [hl] at hi h
      have hg := hi hd
      simp only
      by_cases h1 : s.got + 1 < 4
      · simp only [h1, reduceIte]
        exact ⟨fun _ => trivial, by omega⟩
      · simp only [h1, reduceIte]
        by_cases h2 : beVal (b :: s.rbuf).reverse < 10
        · simp only [h2, reduceIte]
          exact ⟨fun hc => by simp at hc, by omega⟩
        · by_cases h3 : beVal (b :: s.rbuf).reverse > cap
          · simp only [h2, h3, reduceIte]
            exact ⟨fun hc => by simp at hc, by omega⟩
          · simp only [h2, h3, reduceIte]
            exact ⟨⟨by omega, by omega, by omega⟩, by omega⟩
    | some L =>
      simp only [hl] at hi h
      obtain ⟨i1, i2, i3⟩ := hi
      simp only
      by_cases h1 : s.got + 1 < 4 + L
      · simp only [h1, reduceIte]
        exact ⟨⟨by omega, trivial, i3⟩, by omega⟩
      · simp only [h1, reduceIte]
        exact ⟨fun _ => by omega, by omega⟩
  · rw [stepByte_dropped cap s b d hd]
    exact ⟨hi, by omega⟩

theorem feed_alloc (cap : Nat) (bs : Bytes) : ∀ (s : RState) (k : Nat), LenInv cap s → s.alloc ≤ k + unreceived s →
    LenInv cap (feed cap s bs) ∧ (feed cap s bs).alloc ≤ (k + bs.length) + unreceived (feed cap s bs) := by
  induction bs with
  | nil => intro s k hi h; exact ⟨hi, h⟩
  | cons b bs ih =>
    intro s k hi h
    obtain ⟨i1, i2⟩ := stepByte_alloc cap s b k hi h
    rw [feed_cons]
    obtain ⟨j1, j2⟩ := ih _ (k + 1) i1 i2
    refine ⟨j1, ?_⟩
    simp only [List.length_cons]
    omega

theorem unreceived_le_cap (cap : Nat) (s : RState) (hi : LenInv cap s) : unreceived s ≤ cap := by
  unfold LenInv at hi
  unfold unreceived
  cases hl : s.len with
  | none => simp
  | some L => simp only [hl] at hi ⊢; omega

end GoSecs.Framing
