/-
  Router invariants, part 4: system-bytes uniqueness among open transactions and, under it,
  registry ownership (register-before-write).
-/
import GoSecs.Lemmas.RouterInv2

namespace GoSecs.Router

/-- a transaction is open from the moment its system bytes are drawn until the call has returned -/
def Sender.isOpen (w : Sender) : Prop := w.pc ≠ .new ∧ w.pc ≠ .done

/-- Stated hypothesis of C06's uniqueness clause: no open transaction is 2^32 or more draws old
    (fewer than 2^32 system bytes were drawn while it has been open). -/
def NoWrap (c : Cfg) : Prop := ∀ i, (c.s i).isOpen → c.gen < (c.s i).raw + wrap

theorem mod_ne_of_close (a b g : Nat) (hab : a ≠ b) (ha : a ≤ g) (hb : b ≤ g) (ha' : g < a + wrap) (hb' : g < b + wrap) :
    a % wrap ≠ b % wrap := by
  unfold wrap at *
  omega

theorem sb_unique (c : Cfg) (h : Inv c) (hnw : NoWrap c) (i j : Nat) (hij : i ≠ j)
    (hi : (c.s i).isOpen) (hj : (c.s j).isOpen) : (c.s i).sb ≠ (c.s j).sb := by
  rw [((h.pc i).sb_raw hi.1).1, ((h.pc j).sb_raw hj.1).1]
  exact mod_ne_of_close _ _ c.gen (h.raw.inj i j hij hi.1 hj.1) (h.raw.le i hi.1) (h.raw.le j hj.1) (hnw i hi) (hnw j hj)

/-- every open correlating sender that has registered still owns its registry slot -/
def Owned (c : Cfg) : Prop :=
  ∀ i, (c.s i).kind.correlates = true → (c.s i).pc.open = true → c.reg (c.s i).ep (c.s i).sb = some i

theorem owned_init : Owned init := by
  intro i _ h; simp [init, Pc.open] at h

/-- a correlating sender becomes open only by its own `register` -/
theorem opens_only_by_register (c : Cfg) (a : Action) (he : enabled c a = true) (j : Nat)
    (hk : ((apply c a).s j).kind.correlates = true) (hclosed : (c.s j).pc.open = false)
    (hopen : ((apply c a).s j).pc.open = true) : a = .register j := by
  rw [apply_s] at hk hopen
  cases hta : touched c a with
  | none => simp [hta, hclosed] at hopen
  | some p =>
    obtain ⟨i, w⟩ := p
    simp only [hta, upd_apply] at hk hopen
    by_cases hj : j = i
    · subst hj
      simp only [if_true] at hk hopen
      cases a
      case drain e ok =>
        obtain ⟨rest, _, rfl⟩ := touched_drain c e ok j w hta
        unfold Sender.afterDrain at hopen
        split at hopen <;> simp_all
      case recv e f =>
        obtain ⟨r, _, rfl⟩ := touched_recv c e f j w hta
        simp_all
      case register i =>
        simp only [touched, Option.some.injEq, Prod.mk.injEq] at hta
        rw [hta.1]
      sender_cases he hta
      all_goals (exfalso; revert hk hopen; unfold_after)
      all_goals (try (rcases he with ⟨he1, he2⟩ | ⟨he1, he2⟩))
      all_goals (repeat' split)
      all_goals (simp_all [Pc.open, Kind.correlates])
    · simp [hj, hclosed] at hopen

theorem owned_apply (c : Cfg) (a : Action) (he : enabled c a = true) (hinv : Inv c) (hnw : NoWrap c) (h : Owned c) :
    Owned (apply c a) := by
  intro i hk hopen
  by_cases hwas : (c.s i).pc.open = true
  · -- i was already open: its key is stable, and nobody else uses that key
    have h4 := rank_open hwas
    obtain ⟨hn, hb⟩ := rank_ne_of_ge h4 (by omega)
    obtain ⟨s1, s2, s3⟩ := apply_sender_stable c a he i
    have hk0 : (c.s i).kind.correlates = true := by rw [← (s2 hn).1]; exact hk
    have hown := h i hk0 hwas
    rw [s3 hn hb, (s2 hn).2.1, apply_reg]
    have hiopen : (c.s i).isOpen := ⟨hn, by intro hd; simp [hd, Pc.open] at hwas⟩
    cases a <;> simp only <;> try exact hown
    case register j =>
      simp only [enabled, Bool.and_eq_true, decide_eq_true_eq] at he
      rw [upd2_apply]
      by_cases hji : j = i
      · subst hji; simp
      · have hjopen : (c.s j).isOpen := ⟨by simp [he.1], by simp [he.1]⟩
        have := sb_unique c hinv hnw i j (Ne.symm hji) hiopen hjopen
        simp [this, hown]
    case deregister j =>
      simp only [enabled, decide_eq_true_eq] at he
      rw [upd2_apply]
      by_cases hji : j = i
      · subst hji
        -- i itself deregisters: then it is done afterwards, not open
        simp [apply_s, touched, Pc.open] at hopen
      · have hjopen : (c.s j).isOpen := ⟨by simp [he], by simp [he]⟩
        have := sb_unique c hinv hnw i j (Ne.symm hji) hiopen hjopen
        simp [this, hown]
  · -- i opens in this step: the step is its own register
    have hwas' : (c.s i).pc.open = false := by simpa using hwas
    have := opens_only_by_register c a he i hk hwas' hopen
    subst this
    simp [apply_reg, apply_s, touched, upd2_apply]

/-- runs along which the no-wrap hypothesis holds at every configuration -/
def Along (P : Cfg → Prop) : Cfg → List Action → Prop
  | c, [] => P c
  | c, a :: as => P c ∧ Along P (step c a) as

theorem owned_run : ∀ (as : List Action) (c : Cfg), Inv c → Owned c → Along NoWrap c as → Owned (run c as) ∧ Inv (run c as)
  | [], _, hi, ho, _ => ⟨ho, hi⟩
  | a :: as, c, hi, ho, hal => by
    obtain ⟨hnw, hal'⟩ := hal
    have hi' := inv_step c a hi
    have ho' : Owned (step c a) := by
      unfold step
      by_cases he : enabled c a = true
      · simp only [he, if_true]; exact owned_apply c a he hi hnw ho
      · simp only [he]; exact ho
    exact owned_run as (step c a) hi' ho' hal'


end GoSecs.Router
