/-
  Helper lemmas for the linktest loop model (Props/C19 states the property theorems).
-/
import GoSecs.Model.Linktest

namespace GoSecs.Linktest

/-! ### `step`, case by case -/

theorem step_suppressed (c : Cfg) (s : LState) (o : Obs)
    (h : (c.suppress && (o.active || decide (o.inflightPre > 0))) = true) : step c s o = (s, .suppressed) := by
  simp only [step, h, reduceIte]

theorem step_ok (c : Cfg) (s : LState) (o : Obs)
    (h : (c.suppress && (o.active || decide (o.inflightPre > 0))) = false) (hok : o.probeOk = true) :
    step c s o = (⟨0, s.recvAtLastFail⟩, .probeOk) := by
  simp only [step, h, hok, reduceIte, Bool.false_eq_true]

/-- Suppression off: the whole iteration. -/
theorem step_off (c : Cfg) (s : LState) (o : Obs) (hs : c.suppress = false) :
    step c s o =
      if o.probeOk then (⟨0, s.recvAtLastFail⟩, .probeOk)
      else if s.fails + 1 ≥ c.threshold then (⟨s.fails + 1, o.recvNow⟩, .disconnect)
      else (⟨s.fails + 1, o.recvNow⟩, .counted) := by
  simp only [step, hs, failureStep, disconnectRecheck, Bool.false_and, Bool.false_eq_true, reduceIte,
    Bool.not_false, Bool.true_or]
  by_cases hok : o.probeOk = true
  · simp [hok]
  · by_cases ht : s.fails + 1 ≥ c.threshold <;> simp [hok, ht]

/-- Suppression on, probe sent and timed out, life at evaluation time: credited, run resets. -/
theorem step_on_life (c : Cfg) (s : LState) (o : Obs) (hs : c.suppress = true)
    (hp : (o.active || decide (o.inflightPre > 0)) = false) (hok : o.probeOk = false)
    (hl : life o.recvNow o.sentAt o.inflight = true) (ht : 0 < c.threshold) :
    step c s o = (⟨0, s.recvAtLastFail⟩, .credited) := by
  have : ¬ (0 ≥ c.threshold) := by omega
  simp [step, hs, hp, hok, failureStep, hl, this]

/-- Suppression on, probe sent and timed out, no life at evaluation time. -/
theorem step_on_nolife (c : Cfg) (s : LState) (o : Obs) (hs : c.suppress = true)
    (hp : (o.active || decide (o.inflightPre > 0)) = false) (hok : o.probeOk = false)
    (hl : life o.recvNow o.sentAt o.inflight = false) :
    step c s o =
      let fails := if s.fails > 0 ∧ o.recvNow > s.recvAtLastFail then 1 else s.fails + 1
      if fails ≥ c.threshold then
        if life o.finalRecv o.sentAt o.finalInflight then (⟨0, s.recvAtLastFail⟩, .recheckCredited)
        else (⟨fails, o.recvNow⟩, .disconnect)
      else (⟨fails, o.recvNow⟩, .counted) := by
  by_cases h1 : s.fails > 0 ∧ o.recvNow > s.recvAtLastFail
  · obtain ⟨h1a, h1b⟩ := h1
    by_cases ht : (1 : Int) ≥ c.threshold <;>
      cases hf : life o.finalRecv o.sentAt o.finalInflight <;>
      simp [step, hs, hp, hok, failureStep, hl, h1a, h1b, ht, disconnectRecheck, hf]
  · have h1' : (decide (s.fails > 0) && decide (o.recvNow > s.recvAtLastFail)) = false := by
      by_cases ha : s.fails > 0
      · have hb : ¬ (o.recvNow > s.recvAtLastFail) := fun hb => h1 ⟨ha, hb⟩
        simp [hb]
      · simp [ha]
    by_cases ht : s.fails + 1 ≥ c.threshold <;>
      cases hf : life o.finalRecv o.sentAt o.finalInflight <;>
      simp [step, hs, hp, hok, failureStep, hl, h1, h1', ht, disconnectRecheck, hf]

/-- A wake-up that is not suppressed puts a probe on the wire. -/
theorem step_unsuppressed_probed (c : Cfg) (s : LState) (o : Obs)
    (h : (c.suppress && (o.active || decide (o.inflightPre > 0))) = false) : (step c s o).2.probed = true := by
  simp only [step, h, Bool.false_eq_true, reduceIte]
  repeat' split
  all_goals rfl

/-- An unsuppressed wake-up whose probe timed out never reports `probeOk`. -/
theorem step_timeout_not_ok (c : Cfg) (s : LState) (o : Obs)
    (h : (c.suppress && (o.active || decide (o.inflightPre > 0))) = false) (hok : o.probeOk = false) :
    (step c s o).2 ≠ .probeOk := by
  simp only [step, h, hok, Bool.false_eq_true, reduceIte]
  repeat' split
  all_goals simp

/-! ### Suppression off: disconnect ⇔ a run of `threshold` consecutive timeouts -/

theorem prefixTimeouts_zero (l : List Obs) : prefixTimeouts 0 l = true := by
  simp [prefixTimeouts]

theorem prefixTimeouts_nil_succ (k : Nat) : prefixTimeouts (k + 1) [] = false := by
  simp [prefixTimeouts]

theorem prefixTimeouts_cons (k : Nat) (o : Obs) (r : List Obs) :
    prefixTimeouts (k + 1) (o :: r) = (!o.probeOk && prefixTimeouts k r) := by
  simp only [prefixTimeouts, List.length_cons, List.take_succ_cons, List.all_cons, Nat.add_le_add_iff_right]
  cases o.probeOk <;> cases decide (k ≤ r.length) <;> simp

theorem prefixTimeouts_mono : ∀ (j k : Nat) (l : List Obs), j ≤ k → prefixTimeouts k l = true → prefixTimeouts j l = true
  | 0, _, l, _, _ => prefixTimeouts_zero l
  | j + 1, 0, _, h, _ => by omega
  | j + 1, k + 1, [], _, h => by simp [prefixTimeouts_nil_succ] at h
  | j + 1, k + 1, o :: r, hjk, h => by
    rw [prefixTimeouts_cons] at h ⊢
    cases hok : o.probeOk <;> simp [hok] at h ⊢
    exact prefixTimeouts_mono j k r (by omega) h

theorem prefix_imp_hasRun (k : Nat) : ∀ l, prefixTimeouts k l = true → hasRun k l = true
  | [], h => by simpa [hasRun] using h
  | o :: r, h => by simp [hasRun, h]

theorem hasRun_zero (l : List Obs) : hasRun 0 l = true := prefix_imp_hasRun 0 l (prefixTimeouts_zero l)

/-- Generalised over the counter value `n` reached so far. -/
theorem discAt_off_gen (c : Cfg) (k : Nat) (hs : c.suppress = false) (hk : c.threshold = (k : Int)) :
    ∀ (os : List Obs) (s : LState) (n : Nat), s.fails = (n : Int) → n < k →
      ((discAt c s os).isSome = true ↔ (prefixTimeouts (k - n) os = true ∨ hasRun k os = true))
  | [], s, n, _, hn => by
    have : k - n = (k - n - 1) + 1 := by omega
    have hk' : k = (k - 1) + 1 := by omega
    rw [this]
    simp only [discAt, Option.isSome_none, Bool.false_eq_true, prefixTimeouts_nil_succ, hasRun, false_or, false_iff]
    rw [hk', prefixTimeouts_nil_succ]; simp
  | o :: r, s, n, hf, hn => by
    have hkn : k - n = (k - n - 1) + 1 := by omega
    have hk' : k = (k - 1) + 1 := by omega
    simp only [discAt, step_off c s o hs]
    cases hok : o.probeOk
    · -- timeout
      simp only [Bool.false_eq_true, reduceIte]
      by_cases ht : s.fails + 1 ≥ c.threshold
      · -- disconnect now; n + 1 = k
        have : k - n = 1 := by omega
        simp only [ht, reduceIte, Option.isSome_some, true_iff, this]
        left
        have h1 : (1 : Nat) = 0 + 1 := rfl
        rw [h1, prefixTimeouts_cons, hok, prefixTimeouts_zero]; rfl
      · simp only [ht, reduceIte]
        have hlt : n + 1 < k := by omega
        have ih := discAt_off_gen c k hs hk r ⟨s.fails + 1, o.recvNow⟩ (n + 1) (by simp [hf]) hlt
        have : (Act.counted = Act.disconnect) = False := by simp
        simp only [this, reduceIte, Option.isSome_map]
        rw [ih]
        have e1 : k - (n + 1) = k - n - 1 := by omega
        rw [e1, hkn, prefixTimeouts_cons, hok, hasRun, ← hkn]
        simp only [Bool.not_false, Bool.true_and, Bool.or_eq_true]
        constructor
        · rintro (h | h)
          · exact Or.inl h
          · exact Or.inr (Or.inr h)
        · rintro (h | h | h)
          · exact Or.inl h
          · left
            have := prefixTimeouts_mono (k - n) k (o :: r) (by omega) h
            rw [hkn, prefixTimeouts_cons, hok] at this
            simpa using this
          · exact Or.inr h
    · -- answered: counter back to 0
      simp only [reduceIte]
      have : (Act.probeOk = Act.disconnect) = False := by simp
      simp only [this, reduceIte, Option.isSome_map]
      have ih := discAt_off_gen c k hs hk r ⟨0, s.recvAtLastFail⟩ 0 rfl (by omega)
      rw [ih, hkn, prefixTimeouts_cons, hok, hasRun]
      have : prefixTimeouts k (o :: r) = false := by rw [hk', prefixTimeouts_cons, hok]; rfl
      simp only [Nat.sub_zero, Bool.not_true, Bool.false_and, Bool.false_eq_true, false_or, this, Bool.false_or]
      constructor
      · rintro (h | h)
        · exact prefix_imp_hasRun k r h
        · exact h
      · exact Or.inr

/-! ### prefixes of a run -/

theorem discAt_take (c : Cfg) : ∀ (os : List Obs) (s : LState) (i : Nat), discAt c s os = some i →
    discAt c s (os.take (i + 1)) = some i ∧ discAt c s (os.take i) = none
  | [], _, _, h => by simp [discAt] at h
  | o :: r, s, i, h => by
    simp only [discAt] at h
    by_cases hd : (step c s o).2 = .disconnect
    · simp only [hd, reduceIte, Option.some.injEq] at h
      subst h
      simp [discAt, hd]
    · simp only [hd, reduceIte, Option.map_eq_some_iff] at h
      obtain ⟨j, hj, rfl⟩ := h
      have ih := discAt_take c r (step c s o).1 j hj
      simp [discAt, hd, ih.1, ih.2]

/-! ### Suppression on: the two loop variables summarise the event history -/

/-- The loop state is a faithful summary of the event history. -/
def Summ (s : LState) (evs : List Ev) : Prop :=
  s.fails = (silentRun evs : Int) ∧
  (s.fails > 0 → prevCounted evs = some s.recvAtLastFail) ∧ (s.fails = 0 → prevCounted evs = none)

theorem summ_step (c : Cfg) (hs : c.suppress = true) (ht : 0 < c.threshold) (s : LState) (o : Obs) (evs : List Ev)
    (h : Summ s evs) : Summ (step c s o).1 (evOf o (step c s o).2 :: evs) := by
  obtain ⟨h1, h2, h3⟩ := h
  cases hp : (o.active || decide (o.inflightPre > 0))
  · cases hok : o.probeOk
    · cases hl : life o.recvNow o.sentAt o.inflight
      · -- timeout without life: counted / disconnect / recheck-credited
        rw [step_on_nolife c s o hs hp hok hl]
        have h0 : 0 ≤ s.fails := by omega
        by_cases hr : s.fails > 0 ∧ o.recvNow > s.recvAtLastFail
        · have hpc := h2 hr.1
          simp only [hr, and_self, reduceIte]
          by_cases htt : (1 : Int) ≥ c.threshold
          · cases hf : life o.finalRecv o.sentAt o.finalInflight <;>
              simp [htt, evOf, Summ, silentRun, prevCounted, hpc, hr.2]
          · simp [htt, evOf, Summ, silentRun, prevCounted, hpc, hr.2]
        · simp only [hr, reduceIte]
          have key : ((silentRun (.counted o.recvNow :: evs) : Nat) : Int) = s.fails + 1 := by
            by_cases hz : s.fails > 0
            · have hpc := h2 hz
              have : ¬ (o.recvNow > s.recvAtLastFail) := fun hb => hr ⟨hz, hb⟩
              simp [silentRun, hpc, this, h1]
            · have hz' : s.fails = 0 := by omega
              simp [silentRun, h3 hz', hz']
          by_cases htt : s.fails + 1 ≥ c.threshold
          · cases hf : life o.finalRecv o.sentAt o.finalInflight
            · simp only [htt, reduceIte, Bool.false_eq_true, evOf, Summ, key, prevCounted, true_and]
              constructor
              · intro _; trivial
              · intro h; omega
            · simp [htt, evOf, Summ, silentRun, prevCounted]
          · simp only [htt, reduceIte, evOf, Summ, key, prevCounted, true_and]
            constructor
            · intro _; trivial
            · intro h; omega
      · rw [step_on_life c s o hs hp hok hl ht]
        simp [evOf, Summ, silentRun, prevCounted]
    · rw [step_ok c s o (by simp [hp]) hok]
      simp [evOf, Summ, silentRun, prevCounted]
  · rw [step_suppressed c s o (by simp [hs, hp])]
    exact ⟨by simpa [evOf, silentRun] using h1, by simpa [evOf, prevCounted] using h2, by simpa [evOf, prevCounted] using h3⟩

theorem summ_run (c : Cfg) (hs : c.suppress = true) (ht : 0 < c.threshold) :
    ∀ (os : List Obs) (s : LState) (acc : List Ev), Summ s acc → Summ (run c s os).1 (events c s os acc)
  | [], s, acc, h => by simpa [run, events] using h
  | o :: r, s, acc, h => by
    have hstep := summ_step c hs ht s o acc h
    simp only [run, events]
    by_cases hd : (step c s o).2 = .disconnect
    · simpa [hd] using hstep
    · simp only [hd, reduceIte]
      exact summ_run c hs ht r _ _ hstep

/-! ### Suppression on: a history that keeps showing life is never disconnected (threshold ≥ 2) -/

theorem never_disc_gen (c : Cfg) (hs : c.suppress = true) (ht : 2 ≤ c.threshold) :
    ∀ (os : List Obs) (s : LState) (last : Option Int),
      (s.fails = 0 ∨ (s.fails = 1 ∧ last = some s.recvAtLastFail)) → AliveHistory c last os → discAt c s os = none
  | [], _, _, _, _ => rfl
  | o :: r, s, last, hinv, hal => by
    simp only [AliveHistory, hs, Bool.true_and] at hal
    simp only [discAt]
    cases hp : (o.active || decide (o.inflightPre > 0))
    · simp only [hp, Bool.false_eq_true, reduceIte] at hal
      cases hok : o.probeOk
      · simp only [hok, Bool.false_eq_true, reduceIte] at hal
        cases hl : life o.recvNow o.sentAt o.inflight
        · simp only [hl, Bool.false_eq_true, reduceIte] at hal
          rw [step_on_nolife c s o hs hp hok hl]
          have hone : (if s.fails > 0 ∧ o.recvNow > s.recvAtLastFail then (1 : Int) else s.fails + 1) = 1 := by
            rcases hinv with h0 | ⟨h1, hlast⟩
            · simp [h0]
            · subst hlast
              have : o.recvNow > s.recvAtLastFail := hal.1
              simp [h1, this]
          have hnt : ¬ ((1 : Int) ≥ c.threshold) := by omega
          simp only [hone, hnt, reduceIte]
          have : (Act.counted = Act.disconnect) = False := by simp
          simp only [this, reduceIte, Option.map_eq_none_iff]
          exact never_disc_gen c hs ht r ⟨1, o.recvNow⟩ (some o.recvNow) (Or.inr ⟨rfl, rfl⟩) hal.2
        · simp only [hl, reduceIte] at hal
          rw [step_on_life c s o hs hp hok hl (by omega)]
          have : (Act.credited = Act.disconnect) = False := by simp
          simp only [this, reduceIte, Option.map_eq_none_iff]
          exact never_disc_gen c hs ht r ⟨0, s.recvAtLastFail⟩ none (Or.inl rfl) hal
      · simp only [hok, reduceIte] at hal
        rw [step_ok c s o (by simp [hp]) hok]
        have : (Act.probeOk = Act.disconnect) = False := by simp
        simp only [this, reduceIte, Option.map_eq_none_iff]
        exact never_disc_gen c hs ht r ⟨0, s.recvAtLastFail⟩ none (Or.inl rfl) hal
    · simp only [hp, reduceIte] at hal
      rw [step_suppressed c s o (by simp [hs, hp])]
      have : (Act.suppressed = Act.disconnect) = False := by simp
      simp only [this, reduceIte, Option.map_eq_none_iff]
      exact never_disc_gen c hs ht r s last hinv hal

/-! ### A silent peer is dropped after exactly `threshold` probes (either mode) -/

/-- An observation of a dead-silent link: the line was idle for a full interval, nothing is outstanding,
    the probe times out, and no frame has arrived since receive stamp `r` (which is not after the probe). -/
def Silent (r : Int) (o : Obs) : Prop :=
  o.active = false ∧ o.inflightPre ≤ 0 ∧ o.probeOk = false ∧ o.recvNow = r ∧ r ≤ o.sentAt ∧
  o.inflight ≤ 0 ∧ o.finalInflight ≤ 0 ∧ o.finalRecv ≤ o.sentAt

theorem step_silent (c : Cfg) (s : LState) (o : Obs) (r : Int) (h : Silent r o)
    (hr : s.fails > 0 → s.recvAtLastFail = r) :
    step c s o = if s.fails + 1 ≥ c.threshold then (⟨s.fails + 1, r⟩, .disconnect) else (⟨s.fails + 1, r⟩, .counted) := by
  obtain ⟨ha, hi, hok, hrn, hrs, hin, hfi, hfr⟩ := h
  cases hs : c.suppress
  · rw [step_off c s o hs]; simp [hok, hrn]
  · have hp : (o.active || decide (o.inflightPre > 0)) = false := by
      have : ¬ (o.inflightPre > 0) := by omega
      simp [ha, this]
    have hl : life o.recvNow o.sentAt o.inflight = false := by
      have h1 : ¬ (o.recvNow > o.sentAt) := by omega
      have h2 : ¬ (o.inflight > 0) := by omega
      simp [life, h1, h2]
    have hl2 : life o.finalRecv o.sentAt o.finalInflight = false := by
      have h1 : ¬ (o.finalRecv > o.sentAt) := by omega
      have h2 : ¬ (o.finalInflight > 0) := by omega
      simp [life, h1, h2]
    rw [step_on_nolife c s o hs hp hok hl]
    have hn : ¬ (s.fails > 0 ∧ o.recvNow > s.recvAtLastFail) := by
      rintro ⟨h1, h2⟩
      have := hr h1
      omega
    have hn' : ¬ (0 < s.fails ∧ s.recvAtLastFail < r) := by
      rintro ⟨h1, h2⟩
      have := hr h1
      omega
    simp [hl2, hrn, hn']

theorem discAt_silent_gen (c : Cfg) (k : Nat) (hk : c.threshold = (k : Int)) (r : Int) :
    ∀ (os : List Obs) (s : LState) (n : Nat), s.fails = (n : Int) → n < k → (n > 0 → s.recvAtLastFail = r) →
      (∀ o ∈ os, Silent r o) → discAt c s os = if k - n ≤ os.length then some (k - n - 1) else none
  | [], s, n, _, hn, _, _ => by
    have : ¬ (k - n ≤ 0) := by omega
    simp [discAt, this]
  | o :: os, s, n, hf, hn, hr, hall => by
    have ho : Silent r o := hall o (by simp)
    have hr' : s.fails > 0 → s.recvAtLastFail = r := fun h => hr (by omega)
    simp only [discAt, step_silent c s o r ho hr']
    by_cases ht : s.fails + 1 ≥ c.threshold
    · have : k - n = 1 := by omega
      simp [ht, this]
    · have hlt : n + 1 < k := by omega
      have : (Act.counted = Act.disconnect) = False := by simp
      simp only [ht, reduceIte, this]
      rw [discAt_silent_gen c k hk r os ⟨s.fails + 1, r⟩ (n + 1) (by simp [hf]) hlt (fun _ => rfl)
        (fun o' ho' => hall o' (by simp [ho']))]
      by_cases hlen : k - (n + 1) ≤ os.length
      · have h2 : k - n ≤ (o :: os).length := by simp; omega
        have h3 : k - (n + 1) - 1 + 1 = k - n - 1 := by omega
        simp only [hlen, h2, reduceIte, Option.map_some, h3]
      · have h2 : ¬ (k - n ≤ (o :: os).length) := by simp; omega
        simp only [hlen, h2, reduceIte, Option.map_none]

/-- A silent timeout from ANY accounting state: counted, the run either continues or restarts at 1. -/
theorem step_silent_any (c : Cfg) (s : LState) (o : Obs) (r : Int) (h : Silent r o) :
    ∃ f : Int, (f = 1 ∨ f = s.fails + 1) ∧
      step c s o = if f ≥ c.threshold then (⟨f, r⟩, .disconnect) else (⟨f, r⟩, .counted) := by
  obtain ⟨ha, hi, hok, hrn, hrs, hin, hfi, hfr⟩ := h
  cases hs : c.suppress
  · refine ⟨s.fails + 1, Or.inr rfl, ?_⟩
    rw [step_off c s o hs]; simp [hok, hrn]
  · have hp : (o.active || decide (o.inflightPre > 0)) = false := by
      have : ¬ (o.inflightPre > 0) := by omega
      simp [ha, this]
    have hl : life o.recvNow o.sentAt o.inflight = false := by
      have h1 : ¬ (o.recvNow > o.sentAt) := by omega
      have h2 : ¬ (o.inflight > 0) := by omega
      simp [life, h1, h2]
    have hl2 : life o.finalRecv o.sentAt o.finalInflight = false := by
      have h1 : ¬ (o.finalRecv > o.sentAt) := by omega
      have h2 : ¬ (o.finalInflight > 0) := by omega
      simp [life, h1, h2]
    rw [step_on_nolife c s o hs hp hok hl]
    subst hrn
    by_cases hr : s.fails > 0 ∧ o.recvNow > s.recvAtLastFail
    · exact ⟨1, Or.inl rfl, by simp only [hr, and_self, reduceIte, hl2, Bool.false_eq_true]⟩
    · exact ⟨s.fails + 1, Or.inr rfl, by simp only [hr, reduceIte, hl2, Bool.false_eq_true]⟩

/-- From any accounting state, `threshold` silent timeouts are enough. -/
theorem discAt_silent_bounded (c : Cfg) (k : Nat) (hk : c.threshold = (k : Int)) (r : Int)
    (os : List Obs) (s : LState) (n : Nat) (hf : s.fails = (n : Int)) (hn : n < k)
    (hall : ∀ o ∈ os, Silent r o) (hlen : k ≤ os.length) :
    ∃ i, discAt c s os = some i ∧ i < k := by
  cases os with
  | nil => simp at hlen; omega
  | cons o rest =>
    obtain ⟨f, hf1, hstep⟩ := step_silent_any c s o r (hall o (by simp))
    simp only [discAt, hstep]
    by_cases ht : f ≥ c.threshold
    · exact ⟨0, by simp [ht], by omega⟩
    · have hfk : ∃ m : Nat, f = (m : Int) ∧ 1 ≤ m ∧ m < k := by
        rcases hf1 with h | h
        · exact ⟨1, by simp [h], by omega, by omega⟩
        · exact ⟨n + 1, by simp [h, hf], by omega, by omega⟩
      obtain ⟨m, hm, hm1, hmk⟩ := hfk
      have : (Act.counted = Act.disconnect) = False := by simp
      simp only [ht, reduceIte, this]
      rw [discAt_silent_gen c k hk r rest ⟨f, r⟩ m hm hmk (fun _ => rfl) (fun o' ho' => hall o' (by simp [ho']))]
      have hl : k - m ≤ rest.length := by simp at hlen; omega
      simp only [hl, reduceIte, Option.map_some]
      exact ⟨k - m - 1 + 1, rfl, by omega⟩

end GoSecs.Linktest
