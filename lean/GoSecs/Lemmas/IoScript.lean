/-
  Shared vocabulary of the I/O ties (SECS-I line engine: Lemmas/Secs1LineGen.lean; HSMS-SS frame reader:
  Lemmas/ReadFrameGen.lean).

  * `Io.Ans`: ONE ANSWER of the environment to a call the translated code makes and whose result it uses (a clock
    reading, the live timer configuration, the result of SetReadDeadline, of a Read / ReadByte / Write, of the context
    poll, of the allocator).  A *script* is a `List Ans`; `Io.enc` renders it as the raw oracle list of the regenerated
    function (tools/go2lean, "I/O" section of the subset text).  The hand-written sequential functions consume a script
    answer by answer and return `none` when the next answer is not of the kind the code asks for (such a script is not
    an execution of the code: no claim).
  * `Io.mloop` / `Io.loopWhileM_sim`: a Go loop without an evident trip count is `Go.loopWhileM cond body post fuel`.
    A hand-written loop is given by a guard and a step function on its own state; once the regenerated `cond`/`body`/
    `post` are shown to compute the guard and the step on encoded states (a statement about ONE iteration, no
    induction), the whole loops agree for EVERY fuel, including "out of fuel" (both `none`).  `mloop_mono`: more fuel
    never changes a result.

  Core Lean only.
-/
import GoSecs.GoPrelude
import GoSecs.Gen.Hsms
import GoSecs.Lemmas.GoPrelude

set_option linter.unusedSimpArgs false

namespace GoSecs.Io
open GoSecs.Gen

/-- one answer of the environment -/
inductive Ans where
  /-- `now()` -/
  | clock (t : Int)
  /-- `timers()` / `rt.Timers()` -/
  | timers (tc : hsms_TimerConfig)
  /-- an `error` result: `SetReadDeadline`, `ctx.Err()` -/
  | err (e : Go.Err)
  /-- `reader.ReadByte()` -/
  | byte (b : UInt8) (e : Go.Err)
  /-- `conn.Write(p)`: n, err -/
  | wrote (n : Int) (e : Go.Err)
  /-- `Read(p)`: the bytes the reader delivers (at most len(p) of them are stored), err -/
  | read (data : Go.Bytes) (e : Go.Err)
  /-- `select { case <-ctx.Done(): … default: }`: is the context cancelled? -/
  | poll (cancelled : Bool)
  /-- the frame allocator's result -/
  | alloc (b : Go.Bytes)
  deriving Repr

def timerVals (tc : hsms_TimerConfig) : List Go.Val :=
  [.int tc.T1, .int tc.T2, .int tc.T3, .int tc.T4, .int tc.T5, .int tc.T6, .int tc.T7, .int tc.T8]

def Ans.vals : Ans → List Go.Val
  | .clock t => [.int t]
  | .timers tc => timerVals tc
  | .err e => [.err e]
  | .byte b e => [.int (b.toNat : Int), .err e]
  | .wrote n e => [.int n, .err e]
  | .read d e => [.bytes d, .err e]
  | .poll c => [.bool c]
  | .alloc b => [.bytes b]

/-- the raw oracle list of a script -/
def enc : List Ans → List Go.Val
  | [] => []
  | a :: as => a.vals ++ enc as

@[simp] theorem enc_nil : enc [] = [] := rfl
theorem enc_cons (a : Ans) (as : List Ans) : enc (a :: as) = a.vals ++ enc as := rfl
theorem enc_append (a b : List Ans) : enc (a ++ b) = enc a ++ enc b := by
  induction a with
  | nil => rfl
  | cons x xs ih => simp [enc_cons, ih, List.append_assoc]

theorem ofVals_timers (tc : hsms_TimerConfig) (rest : List Go.Val) :
    hsms_TimerConfig.ofVals (timerVals tc ++ rest) = (tc, rest) := rfl

/-! ## taking the next answer (`none`: the script does not answer what is asked) -/

def expClock : List Ans → Option (Int × List Ans)
  | .clock t :: s => some (t, s)
  | _ => none
def expTimers : List Ans → Option (hsms_TimerConfig × List Ans)
  | .timers tc :: s => some (tc, s)
  | _ => none
def expErr : List Ans → Option (Go.Err × List Ans)
  | .err e :: s => some (e, s)
  | _ => none
def expByte : List Ans → Option (UInt8 × Go.Err × List Ans)
  | .byte b e :: s => some (b, e, s)
  | _ => none
def expWrote : List Ans → Option (Int × Go.Err × List Ans)
  | .wrote n e :: s => some (n, e, s)
  | _ => none
def expRead : List Ans → Option (Go.Bytes × Go.Err × List Ans)
  | .read d e :: s => some (d, e, s)
  | _ => none
def expPoll : List Ans → Option (Bool × List Ans)
  | .poll c :: s => some (c, s)
  | _ => none
def expAlloc : List Ans → Option (Go.Bytes × List Ans)
  | .alloc b :: s => some (b, s)
  | _ => none

theorem expClock_some {s s' : List Ans} {t : Int} (h : expClock s = some (t, s')) : s = .clock t :: s' := by
  unfold expClock at h; split at h <;> simp_all
theorem expTimers_some {s s' : List Ans} {tc : hsms_TimerConfig} (h : expTimers s = some (tc, s')) :
    s = .timers tc :: s' := by
  unfold expTimers at h; split at h <;> simp_all
theorem expErr_some {s s' : List Ans} {e : Go.Err} (h : expErr s = some (e, s')) : s = .err e :: s' := by
  unfold expErr at h; split at h <;> simp_all
theorem expByte_some {s s' : List Ans} {b : UInt8} {e : Go.Err} (h : expByte s = some (b, e, s')) :
    s = .byte b e :: s' := by
  unfold expByte at h; split at h <;> simp_all
theorem expWrote_some {s s' : List Ans} {n : Int} {e : Go.Err} (h : expWrote s = some (n, e, s')) :
    s = .wrote n e :: s' := by
  unfold expWrote at h; split at h <;> simp_all
theorem expRead_some {s s' : List Ans} {d : Go.Bytes} {e : Go.Err} (h : expRead s = some (d, e, s')) :
    s = .read d e :: s' := by
  unfold expRead at h; split at h <;> simp_all
theorem expPoll_some {s s' : List Ans} {c : Bool} (h : expPoll s = some (c, s')) : s = .poll c :: s' := by
  unfold expPoll at h; split at h <;> simp_all
theorem expAlloc_some {s s' : List Ans} {b : Go.Bytes} (h : expAlloc s = some (b, s')) : s = .alloc b :: s' := by
  unfold expAlloc at h; split at h <;> simp_all

/-! ## `p[read:]` and a Read into it -/

theorem slice_tail (buf : Go.Bytes) (read : Nat) (h : read ≤ buf.length) :
    Go.slice? buf (read : Int) (Go.len buf) = some (buf.drop read) := by
  unfold Go.len
  rw [Go.slice?_eq buf read buf.length h (Nat.le_refl _)]
  show some (List.take (buf.length - read) (List.drop read buf)) = _
  rw [List.take_of_length_le (by simp)]

theorem splice_read (buf got : Go.Bytes) (read : Nat) (h : read ≤ buf.length) (hg : got.length ≤ buf.length - read) :
    Go.splice buf read (Go.copy (buf.drop read) got) = buf.take read ++ got ++ buf.drop (read + got.length) := by
  have h1 : got.take (buf.drop read).length = got := by
    apply List.take_of_length_le; simp; omega
  have hl : (Go.copy (buf.drop read) got).length = buf.length - read := by
    simp [Go.copy, h1]; omega
  simp only [Go.splice, hl]
  have : buf.drop (read + (buf.length - read)) = [] := by
    apply List.drop_eq_nil_of_le; omega
  have h2 : got.take (buf.length - read) = got := List.take_of_length_le hg
  simp [this, Go.copy, h1, h2, List.drop_drop, Nat.add_comm]

/-! ## loops -/

/-- result of one iteration of a hand-written loop: it returned `r`, or goes on in state `s` -/
inductive Step (σ ρ : Type) where
  | done (r : ρ)
  | next (s : σ)

/-- a step result as the control value of the regenerated loop body, given the encodings of states and results -/
def Step.ctl {σ ρ σ' ρ' : Type} (E : σ' → σ) (R : ρ' → ρ) : Step σ' ρ' → Go.Ctl σ ρ
  | .done r => .ret (R r)
  | .next s' => .next (E s')

/-- `for guard { step }` with the fuel semantics of `Go.loopWhileM`: `.ok s` = left because the guard failed in `s`,
    `.error r` = returned `r`, `none` = a step was undefined, or out of fuel. -/
def mloop {σ ρ : Type} (guard : σ → Bool) (step : σ → Option (Step σ ρ)) : Nat → σ → Option (Except ρ σ)
  | 0, _ => none
  | fuel + 1, s =>
    if guard s then
      match step s with
      | none => none
      | some (.done r) => some (.error r)
      | some (.next s') => mloop guard step fuel s'
    else some (.ok s)

theorem mloop_mono {σ ρ : Type} (guard : σ → Bool) (step : σ → Option (Step σ ρ)) :
    ∀ (fuel : Nat) (s : σ) (out : Except ρ σ), mloop guard step fuel s = some out →
      ∀ k, mloop guard step (fuel + k) s = some out := by
  intro fuel
  induction fuel with
  | zero => intro s out h; simp [mloop] at h
  | succ n ih =>
    intro s out h k
    have e : n + 1 + k = (n + k) + 1 := by omega
    rw [e]
    simp only [mloop] at h ⊢
    cases hg : guard s
    · simpa [hg] using h
    · simp only [hg, reduceIte] at h ⊢
      cases hs : step s with
      | none => simp [hs] at h
      | some x =>
        cases x with
        | done r => simpa [hs] using h
        | next s' => simp only [hs] at h ⊢; exact ih s' out h k

/-- invariants: a property of the states preserved by every defined step holds of the state the loop is left in
    (together with the failed guard), and what a returning step establishes holds of the returned value -/
theorem mloop_inv {σ ρ : Type} (guard : σ → Bool) (step : σ → Option (Step σ ρ)) (P : σ → Prop) (Q : ρ → Prop)
    (hstep : ∀ s x, P s → guard s = true → step s = some x → (match x with | .done r => Q r | .next s' => P s')) :
    ∀ (fuel : Nat) (s : σ) (out : Except ρ σ), P s → mloop guard step fuel s = some out →
      (match out with | .ok s' => P s' ∧ guard s' = false | .error r => Q r) := by
  intro fuel
  induction fuel with
  | zero => intro s out _ h; simp [mloop] at h
  | succ n ih =>
    intro s out hP h
    simp only [mloop] at h
    cases hg : guard s
    · simp only [hg, Bool.false_eq_true, reduceIte, Option.some.injEq] at h
      subst h
      exact ⟨hP, hg⟩
    · simp only [hg, reduceIte] at h
      cases hs : step s with
      | none => simp [hs] at h
      | some x =>
        have hx := hstep s x hP hg hs
        cases x with
        | done r =>
          simp only [hs, Option.some.injEq] at h
          subst h
          exact hx
        | next s' =>
          simp only [hs] at h
          exact ih s' out hx h

/-- The regenerated loop computes the hand-written one, for every fuel: it suffices that, on encoded states, the
    regenerated `cond` is the guard, `post` does nothing, and the regenerated `body` computes the step whenever the
    step is defined. -/
theorem loopWhileM_sim {σ ρ σ' ρ' : Type}
    (cond : σ → Option (Bool × σ)) (body : σ → Option (Go.Ctl σ ρ)) (post : σ → Option σ)
    (guard : σ' → Bool) (step : σ' → Option (Step σ' ρ')) (E : σ' → σ) (R : ρ' → ρ)
    (hc : ∀ s, cond (E s) = some (guard s, E s))
    (hb : ∀ s x, guard s = true → step s = some x →
            body (E s) = some (Step.ctl E R x))
    (hp : ∀ s, post (E s) = some (E s)) :
    ∀ (fuel : Nat) (s : σ') (out : Except ρ' σ'), mloop guard step fuel s = some out →
      Go.loopWhileM cond body post fuel (E s) =
        some (match out with | .ok s' => .ok (E s') | .error r => .error (R r)) := by
  intro fuel
  induction fuel with
  | zero => intro s out h; simp [mloop] at h
  | succ n ih =>
    intro s out h
    simp only [mloop] at h
    cases hg : guard s
    · simp only [hg, Bool.false_eq_true, reduceIte, Option.some.injEq] at h
      subst h
      simp only [Go.loopWhileM, hc, hg]
    · simp only [hg, reduceIte] at h
      cases hs : step s with
      | none => simp [hs] at h
      | some x =>
        simp only [Go.loopWhileM, hc, hg, hb s x hg hs]
        cases x with
        | done r =>
          simp only [hs, Option.some.injEq] at h
          subst h; rfl
        | next s' =>
          simp only [hs] at h
          simp only [Step.ctl, hp]
          exact ih s' out h

end GoSecs.Io
