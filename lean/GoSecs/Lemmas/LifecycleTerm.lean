/-
  Lifecycle model, third part (C10): the VARIANT of a pending Close.

  `mu : Cfg → Nat` is a weighted sum over the api program counter, the supervisor (queued events and the
  stage of the reaction in progress), the phase of every generation and the position of every reconnect
  loop.  While a Close (or the rollback of a failed Open) is between entry and return:
    * every LIBRARY action strictly decreases `mu`                      (`mu_lib_decreases`);
    * so does a pending re-dial that completes (`loopStartOk`), whichever way;
    * the only actions that increase it are the two failure injections of the transport goroutines
      (`envDown`, `envT7`), by exactly `evW` each (one more queued event for the supervisor);
    * every other environment action leaves it unchanged; Open/Close entries and Open's own dial are
      disabled (`lifeMu` is held).
  Core Lean only.
-/
import GoSecs.Lemmas.LifecycleLive

namespace GoSecs.Lifecycle

/-! ## The measure -/

def phaseRank : Phase → Nat
  | .live => 4 | .torn => 3 | .sealed => 2 | .stopped => 1 | .done => 0

def loopRank : LoopPc → Nat
  | .start _ => 5 | .failWait _ => 4 | .waitPrev => 4 | .sleep => 3 | .fence => 2 | .publish _ => 1
  | .exited => 0

/-- stage of the supervisor's run goroutine; `reactSpawn` pays for the loop it is about to add -/
def runRank : RunPc → Nat
  | .exited => 0 | .idle => 1 | .closeTeardown => 2 | .reactTeardown _ _ => 3 | .reactSpawn _ _ => 8
  | .reactCheck _ => 9

/-- weight of one queued event: `supStep` + a full reaction -/
def evW : Nat := 10

def apiRank : ApiPc → Nat
  | .closeReq _ => 14 | .closeWaitEpoch _ => 3 | .closeJoinSup => 2 | .closeJoinLoops => 1
  | .openRollbackWait _ => 2 | .openRollbackSup => 1
  | _ => 0

def supRank : Option Sup → Nat
  | none => 0
  | some s => evW * s.queue.length + runRank s.pc

def esum (l : List Epoch) : Nat := (l.map (fun ep => phaseRank ep.phase)).sum
def lsum (l : List Loop) : Nat := (l.map (fun lp => loopRank lp.pc)).sum

/-- **The variant.** -/
def mu (c : Cfg) : Nat := apiRank c.api + supRank c.sup + esum c.epochs + lsum c.loops

/-! ## Sums under a point update -/

theorem sum_map_modify {α} (g : α → Nat) (f : α → α) (l : List α) (i : Nat) (x : α) (h : l[i]? = some x) :
    ((l.modify i f).map g).sum + g x = (l.map g).sum + g (f x) := by
  induction l generalizing i with
  | nil => simp at h
  | cons y ys ih =>
    cases i with
    | zero =>
      simp only [List.getElem?_cons_zero, Option.some.injEq] at h
      subst h
      simp only [List.modify_zero_cons, List.map_cons, List.sum_cons]; omega
    | succ i =>
      simp only [List.getElem?_cons_succ] at h
      have := ih i h
      simp only [List.modify_succ_cons, List.map_cons, List.sum_cons]; omega

theorem modify_of_none {α} (f : α → α) (l : List α) (i : Nat) (h : l[i]? = none) : l.modify i f = l :=
  List.modify_eq_self (by simpa using h)

theorem phaseOf_ne_done (c : Cfg) (e : Nat) (p : Phase) (h : phaseOf c e = p) (hp : p ≠ .done) :
    ∃ ep, c.epochs[e]? = some ep ∧ ep.phase = p := by
  unfold phaseOf at h
  cases he : c.epochs[e]? with
  | none => simp [he] at h; exact absurd h.symm hp
  | some ep => simp [he] at h; exact ⟨ep, rfl, h⟩

theorem esum_setPhase (c : Cfg) (e : Nat) (p q : Phase) (h : phaseOf c e = p) (hp : p ≠ .done) :
    esum (c.epochs.modify e (fun ep => { ep with phase := q })) + phaseRank p = esum c.epochs + phaseRank q := by
  obtain ⟨ep, hep, hph⟩ := phaseOf_ne_done c e p h hp
  have := sum_map_modify (fun ep => phaseRank ep.phase) (fun ep => { ep with phase := q }) c.epochs e ep hep
  simp only [hph] at this
  exact this

theorem esum_teardown_le (c : Cfg) (e : Nat) : esum (teardown c e).epochs ≤ esum c.epochs := by
  rw [teardown_epochs]
  split
  · next h =>
    have := esum_setPhase c e .live .torn h (by simp)
    simp only [phaseRank] at this
    omega
  · exact Nat.le_refl _

theorem lsum_setLoop (c : Cfg) (i : Nat) (f : Loop → Loop) (l : Loop) (h : c.loops[i]? = some l) :
    lsum (c.loops.modify i f) + loopRank l.pc = lsum c.loops + loopRank (f l).pc :=
  sum_map_modify (fun (lp : Loop) => loopRank lp.pc) f c.loops i l h

theorem lsum_append (l : List Loop) (x : Loop) : lsum (l ++ [x]) = lsum l + loopRank x.pc := by
  simp [lsum]

theorem esum_append (l : List Epoch) (x : Epoch) : esum (l ++ [x]) = esum l + phaseRank x.phase := by
  simp [esum]

/-! ## How the helpers move the measure -/

theorem mu_teardown_le (c : Cfg) (e : Nat) : mu (teardown c e) ≤ mu c := by
  simp only [mu, teardown_api, teardown_sup, teardown_loops]
  have := esum_teardown_le c e
  omega

theorem mu_setLoop (c : Cfg) (i : Nat) (f : Loop → Loop) (l : Loop) (h : c.loops[i]? = some l) :
    mu (setLoop c i f) + loopRank l.pc = mu c + loopRank (f l).pc := by
  simp only [mu, setLoop_api, setLoop_sup, setLoop_epochs, setLoop_loops]
  have := lsum_setLoop c i f l h
  omega

theorem mu_setLoop_lt (c : Cfg) (i : Nat) (f : Loop → Loop) (l : Loop) (h : c.loops[i]? = some l)
    (hlt : loopRank (f l).pc < loopRank l.pc) : mu (setLoop c i f) < mu c := by
  have := mu_setLoop c i f l h
  omega

theorem mu_setPhase (c : Cfg) (e : Nat) (p q : Phase) (h : phaseOf c e = p) (hp : p ≠ .done) :
    mu (setPhase c e q) + phaseRank p = mu c + phaseRank q := by
  simp only [mu, setPhase_api, setPhase_sup, setPhase_epochs, setPhase_loops]
  have := esum_setPhase c e p q h hp
  omega

theorem supRank_map (o : Option Sup) (f : Sup → Sup) (hq : ∀ s, (f s).queue = s.queue)
    (hp : ∀ s, (f s).pc = s.pc) : supRank (o.map f) = supRank o := by
  cases o <;> simp [supRank, hq, hp]

theorem supRank_inject (c : Cfg) (ev : Ev) :
    supRank (inject c ev).sup = supRank c.sup + (if (c.sup.map (·.pc)).getD .exited = .exited then 0 else evW) := by
  rw [inject_sup]
  cases c.sup with
  | none => simp [supRank]
  | some s =>
    simp only [Option.map_some, Option.getD_some, supRank]
    split <;> simp [Nat.mul_add, evW] <;> omega

theorem supRank_inject_le (c : Cfg) (ev : Ev) : supRank (inject c ev).sup ≤ supRank c.sup + evW := by
  rw [supRank_inject]; split <;> omega

/-- rewrite `supRank (o.map f)` to `supRank o` when `f` keeps queue and pc -/
macro "sup_map" : tactic =>
  `(tactic| (rw [supRank_map] <;> try (intro s; first | rfl | (split <;> rfl))))
macro "sup_map" "at" h:ident : tactic =>
  `(tactic| (rw [supRank_map] at $h:ident <;> try (intro s; first | rfl | (split <;> rfl))))

/-- finisher: unfold the ranks on the explicit successor configuration -/
macro "mu_fin" : tactic =>
  `(tactic| (simp_all [mu, supRank, runRank, evW, apiRank, loopRank, phaseRank, lsum_append, esum_append,
               closingApi, stale] <;> omega))

/-! ## Every library action decreases the measure while `shutdown` is set -/

theorem mu_supStep (c c' : Cfg) (hs : step? c .supStep = some c') : mu c' < mu c := by
  step_cases hs <;> mu_fin

theorem mu_reactCheck (c c' : Cfg) (hs : step? c .reactCheck = some c') : mu c' < mu c := by
  step_cases hs <;> simp_all [mu, supRank, runRank, evW] <;> (repeat' split) <;> simp [runRank] <;> omega

theorem mu_reactSpawn (c c' : Cfg) (hs : step? c .reactSpawn = some c') : mu c' < mu c := by
  step_cases hs <;> mu_fin

theorem mu_supExit (c c' : Cfg) (hs : step? c .supExit = some c') : mu c' < mu c := by
  step_cases hs <;> simp_all [mu, supRank, runRank, evW]

theorem mu_reactTeardown (c c' : Cfg) (hs : step? c .reactTeardown = some c') : mu c' < mu c := by
  step_cases hs
  all_goals
    apply Nat.lt_of_le_of_lt (mu_teardown_le _ _)
    simp only [mu]
    simp_all [supRank, runRank, evW]

theorem mu_closeTeardown (c c' : Cfg) (hs : step? c .closeTeardown = some c') : mu c' < mu c := by
  step_cases hs
  all_goals
    (try apply Nat.lt_of_le_of_lt (mu_teardown_le _ _))
    simp only [mu]
    simp_all [supRank, runRank, evW]

theorem mu_joinSeal (c c' : Cfg) (e : Nat) (hs : step? c (.joinSeal e) = some c') : mu c' < mu c := by
  step_cases hs
  rename_i h
  have := mu_setPhase c e .torn .sealed (by simpa using h) (by simp)
  simp only [phaseRank] at this
  show mu (setPhase c e .sealed) < mu c
  omega

theorem mu_joinStop (c c' : Cfg) (e : Nat) (hs : step? c (.joinStop e) = some c') : mu c' < mu c := by
  step_cases hs
  rename_i h
  have := mu_setPhase c e .sealed .stopped (by simpa using h) (by simp)
  simp only [phaseRank] at this
  show mu (setPhase c e .stopped) < mu c
  omega

theorem mu_joinDone (c c' : Cfg) (e : Nat) (hs : step? c (.joinDone e) = some c') : mu c' < mu c := by
  step_cases hs
  rename_i h
  have := mu_setPhase c e .stopped .done (by simpa using h) (by simp)
  simp only [phaseRank] at this
  omega

theorem mu_loopWake (c c' : Cfg) (i : Nat) (hs : step? c (.loopWake i) = some c') : mu c' < mu c := by
  step_cases hs
  exact mu_setLoop_lt _ _ _ _ ‹_› (by simp_all [loopRank])

theorem mu_loopSleep (c c' : Cfg) (i : Nat) (hs : step? c (.loopSleep i) = some c') : mu c' < mu c := by
  step_cases hs
  exact mu_setLoop_lt _ _ _ _ ‹_› (by simp_all [loopRank])

theorem mu_loopFence (c c' : Cfg) (i : Nat) (hsd : c.shutdown = true) (hs : step? c (.loopFence i) = some c') :
    mu c' < mu c := by
  step_cases hs
  · exact mu_setLoop_lt _ _ _ _ ‹_› (by simp_all [loopRank])
  · simp_all [stale]

theorem mu_loopPublish (c c' : Cfg) (i : Nat) (hsd : c.shutdown = true) (hs : step? c (.loopPublish i) = some c') :
    mu c' < mu c := by
  step_cases hs
  · exact mu_setLoop_lt _ _ _ _ ‹_› (by simp_all [loopRank])
  · simp_all [stale]

theorem mu_loopStartFail (c c' : Cfg) (i : Nat) (hs : step? c (.loopStartFail i) = some c') : mu c' < mu c := by
  step_cases hs
  refine Nat.lt_of_lt_of_le (mu_setLoop_lt _ _ _ _ (by rw [teardown_loops]; assumption) (by simp_all [loopRank])) ?_
  exact mu_teardown_le _ _

theorem mu_loopFailDone (c c' : Cfg) (i : Nat) (hs : step? c (.loopFailDone i) = some c') : mu c' < mu c := by
  step_cases hs
  exact mu_setLoop_lt _ _ _ _ ‹_› (by simp_all [loopRank])

/-- a pending re-dial that completes (either way) also decreases the measure -/
theorem mu_loopStartOk (c c' : Cfg) (i : Nat) (hs : step? c (.loopStartOk i) = some c') : mu c' < mu c := by
  step_cases hs
  · refine Nat.lt_of_lt_of_le (mu_setLoop_lt _ _ _ _ (by rw [teardown_loops]; assumption) (by simp_all [loopRank])) ?_
    exact mu_teardown_le _ _
  all_goals
    refine Nat.lt_of_lt_of_le (mu_setLoop_lt _ _ _ _ (by assumption) (by simp_all [loopRank])) ?_
    simp only [mu, register_api, register_sup, register_epochs, register_loops]
    sup_map
    exact Nat.le_refl _

/-! ### the `lifeMu` holder's own steps -/

theorem mu_closeRequest (c c' : Cfg) (hs : step? c .closeRequest = some c') : mu c' < mu c := by
  step_cases hs
  rename_i e hapi _
  have h1 := supRank_inject_le (setSup c (fun s => { s with closeEpoch := some e })) .close
  rw [setSup_sup] at h1
  sup_map at h1
  simp only [mu, inject_epochs, inject_loops, setSup_epochs, setSup_loops, hapi, apiRank]
  simp only [evW] at h1
  omega

theorem mu_closeEpochDone (c c' : Cfg) (hs : step? c .closeEpochDone = some c') : mu c' < mu c := by
  step_cases hs
  simp only [mu, setSup_sup, setSup_epochs, setSup_loops]
  sup_map
  mu_fin

theorem mu_closeSupDone (c c' : Cfg) (hs : step? c .closeSupDone = some c') : mu c' < mu c := by
  step_cases hs
  mu_fin

theorem mu_closeLoopsDone (c c' : Cfg) (hs : step? c .closeLoopsDone = some c') : mu c' < mu c := by
  step_cases hs
  simp only [mu, setSup_sup, setSup_epochs, setSup_loops]
  sup_map
  mu_fin

theorem mu_openRollbackEpoch (c c' : Cfg) (hs : step? c .openRollbackEpoch = some c') : mu c' < mu c := by
  step_cases hs
  simp only [mu, setSup_sup, setSup_epochs, setSup_loops]
  sup_map
  mu_fin

theorem mu_openRollbackDone (c c' : Cfg) (hs : step? c .openRollbackDone = some c') : mu c' < mu c := by
  step_cases hs
  mu_fin

/-! ### the environment -/

theorem mu_envAccept (c c' : Cfg) (hs : step? c .envAccept = some c') : mu c' = mu c := by
  step_cases hs
  simp only [mu, commitConnected_api, commitConnected_sup, commitConnected_epochs, commitConnected_loops]
  sup_map

theorem mu_envSelected (c c' : Cfg) (hs : step? c .envSelected = some c') : mu c' = mu c := by
  step_cases hs
  simp only [mu, setSup_api, setSup_sup, setSup_epochs, setSup_loops]
  sup_map

theorem mu_envSelectLost (c c' : Cfg) (hs : step? c .envSelectLost = some c') : mu c' = mu c := by
  step_cases hs
  simp only [mu, setSup_api, setSup_sup, setSup_epochs, setSup_loops]
  sup_map

theorem mu_envDown (c c' : Cfg) (hs : step? c .envDown = some c') : mu c' ≤ mu c + evW := by
  step_cases hs
  have := supRank_inject_le c .disc
  simp only [mu, inject_api, inject_epochs, inject_loops]
  omega

theorem mu_envT7 (c c' : Cfg) (hs : step? c .envT7 = some c') : mu c' ≤ mu c + evW := by
  step_cases hs
  have := supRank_inject_le c .t7
  simp only [mu, inject_api, inject_epochs, inject_loops]
  omega

/-! ## The variant, for every action -/

/-- actions that make progress toward the return of Close: the library's own, and a pending re-dial
    that completes (successfully or not) -/
def isProgressAct : Act → Bool
  | .loopStartOk _ => true
  | a => isLibAct a

/-- the two failure injections of the transport goroutines (`TCPDown`, `T7Expired`) -/
def isInjectAct : Act → Bool
  | .envDown | .envT7 => true
  | _ => false

def progressCost (a : Act) : Nat := if isProgressAct a then 1 else 0
def injectCost (a : Act) : Nat := if isInjectAct a then evW else 0

/-- **One inequality for all 34 actions.** While a Close / rollback is pending (`shutdown` set, api past
    its entry): a progress action pays 1, a failure injection adds at most `evW`, every other enabled
    action (peer accept / select / deselect) leaves the measure alone, and Open / Close entries, Open's
    dial and `waitSelected` are not enabled at all. -/
theorem mu_step (c c' : Cfg) (a : Act) (hsd : c.shutdown = true) (hcl : closingApi c.api = true)
    (hs : step? c a = some c') : mu c' + progressCost a ≤ mu c + injectCost a := by
  cases a with
  | openEnter m => simp only [step?] at hs; split at hs; cases hs; simp_all [closingApi]
  | closeEnter => simp only [step?] at hs; split at hs; cases hs; simp_all [closingApi]
  | openArm => step_cases hs <;> simp_all [closingApi]
  | openStartOk => step_cases hs <;> simp_all [closingApi]
  | openStartFail => step_cases hs <;> simp_all [closingApi]
  | openColdDone => step_cases hs <;> simp_all [closingApi]
  | openWaitRet r => step_cases hs <;> simp_all [closingApi]
  | openRollbackEpoch => have := mu_openRollbackEpoch c c' hs; simp [progressCost, injectCost, isProgressAct, isInjectAct, isLibAct]; omega
  | openRollbackDone => have := mu_openRollbackDone c c' hs; simp [progressCost, injectCost, isProgressAct, isInjectAct, isLibAct]; omega
  | closeRequest => have := mu_closeRequest c c' hs; simp [progressCost, injectCost, isProgressAct, isInjectAct, isLibAct]; omega
  | closeEpochDone => have := mu_closeEpochDone c c' hs; simp [progressCost, injectCost, isProgressAct, isInjectAct, isLibAct]; omega
  | closeSupDone => have := mu_closeSupDone c c' hs; simp [progressCost, injectCost, isProgressAct, isInjectAct, isLibAct]; omega
  | closeLoopsDone => have := mu_closeLoopsDone c c' hs; simp [progressCost, injectCost, isProgressAct, isInjectAct, isLibAct]; omega
  | supStep => have := mu_supStep c c' hs; simp [progressCost, injectCost, isProgressAct, isInjectAct, isLibAct]; omega
  | reactCheck => have := mu_reactCheck c c' hs; simp [progressCost, injectCost, isProgressAct, isInjectAct, isLibAct]; omega
  | reactSpawn => have := mu_reactSpawn c c' hs; simp [progressCost, injectCost, isProgressAct, isInjectAct, isLibAct]; omega
  | reactTeardown => have := mu_reactTeardown c c' hs; simp [progressCost, injectCost, isProgressAct, isInjectAct, isLibAct]; omega
  | closeTeardown => have := mu_closeTeardown c c' hs; simp [progressCost, injectCost, isProgressAct, isInjectAct, isLibAct]; omega
  | supExit => have := mu_supExit c c' hs; simp [progressCost, injectCost, isProgressAct, isInjectAct, isLibAct]; omega
  | joinSeal e => have := mu_joinSeal c c' e hs; simp [progressCost, injectCost, isProgressAct, isInjectAct, isLibAct]; omega
  | joinStop e => have := mu_joinStop c c' e hs; simp [progressCost, injectCost, isProgressAct, isInjectAct, isLibAct]; omega
  | joinDone e => have := mu_joinDone c c' e hs; simp [progressCost, injectCost, isProgressAct, isInjectAct, isLibAct]; omega
  | loopWake i => have := mu_loopWake c c' i hs; simp [progressCost, injectCost, isProgressAct, isInjectAct, isLibAct]; omega
  | loopSleep i => have := mu_loopSleep c c' i hs; simp [progressCost, injectCost, isProgressAct, isInjectAct, isLibAct]; omega
  | loopFence i => have := mu_loopFence c c' i hsd hs; simp [progressCost, injectCost, isProgressAct, isInjectAct, isLibAct]; omega
  | loopPublish i => have := mu_loopPublish c c' i hsd hs; simp [progressCost, injectCost, isProgressAct, isInjectAct, isLibAct]; omega
  | loopStartOk i => have := mu_loopStartOk c c' i hs; simp [progressCost, injectCost, isProgressAct, isInjectAct, isLibAct]; omega
  | loopStartFail i => have := mu_loopStartFail c c' i hs; simp [progressCost, injectCost, isProgressAct, isInjectAct, isLibAct]; omega
  | loopFailDone i => have := mu_loopFailDone c c' i hs; simp [progressCost, injectCost, isProgressAct, isInjectAct, isLibAct]; omega
  | envAccept => have := mu_envAccept c c' hs; simp [progressCost, injectCost, isProgressAct, isInjectAct, isLibAct]; omega
  | envSelected => have := mu_envSelected c c' hs; simp [progressCost, injectCost, isProgressAct, isInjectAct, isLibAct]; omega
  | envSelectLost => have := mu_envSelectLost c c' hs; simp [progressCost, injectCost, isProgressAct, isInjectAct, isLibAct]; omega
  | envDown => have := mu_envDown c c' hs; simp [progressCost, injectCost, isProgressAct, isInjectAct, isLibAct]; omega
  | envT7 => have := mu_envT7 c c' hs; simp [progressCost, injectCost, isProgressAct, isInjectAct, isLibAct]; omega

/-- a step taken while Close is pending keeps it pending or returns it; `shutdown` stays set -/
theorem closing_step (c c' : Cfg) (a : Act) (hcl : closingApi c.api = true) (hs : step? c a = some c') :
    c'.shutdown = c.shutdown ∧ (closingApi c'.api = true ∨ c'.api = .idle) := by
  cases a <;> step_cases hs <;> simp_all [closingApi]

theorem apiShut_of_closing (api : ApiPc) (h : closingApi api = true) : apiShut api = some true := by
  cases api <;> simp_all [closingApi, apiShut]

/-! ## A third small invariant: a rolling-back Open is NotConnected -/

/-- while a failed Open is rolling back the state is NotConnected (its transport never registered, so
    nobody can commit a TCP-up), and so it is in every closed configuration -/
def RB (c : Cfg) : Prop :=
  (c.api = .openRollbackSup ∨ (∃ e, c.api = .openRollbackWait e) ∨ (c.api = .idle ∧ c.shutdown = true)) →
    supSt c = .nc

theorem rb_init (a : Bool) : RB (init a) := by simp [RB, init]

set_option maxHeartbeats 1000000 in
theorem rb_step? (c c' : Cfg) (a : Act) (h : Inv c) (hr : RB c) (hs : step? c a = some c') : RB c' := by
  unfold RB at hr ⊢
  cases a <;> step_cases hs <;> (first | (inv_fin h; done) | skip)
  all_goals
    (rename_i heq _
     intro _
     have := hr (Or.inr (Or.inl ⟨_, heq⟩))
     cases hsup : c.sup <;> simp_all [supSt, setSup])

/-- All three invariants. -/
structure Inv3 (c : Cfg) : Prop where
  i1 : Inv c
  i2 : Inv2 c
  rb : RB c

theorem inv3_init (a : Bool) : Inv3 (init a) := ⟨inv_init a, inv2_init a, rb_init a⟩

theorem inv3_step? (c c' : Cfg) (a : Act) (h : Inv3 c) (hs : step? c a = some c') : Inv3 c' :=
  ⟨inv_step? c c' a h.i1 hs, inv2_step? c c' a h.i1 h.i2 hs, rb_step? c c' a h.i1 h.rb hs⟩

theorem inv3_run (c : Cfg) (as : List Act) (h : Inv3 c) : Inv3 (run c as) := by
  induction as generalizing c with
  | nil => exact h
  | cons a as ih =>
    apply ih
    unfold step
    cases hs : step? c a with
    | none => exact h
    | some c' => exact inv3_step? c c' a h hs

/-! ## Runs of a pending Close -/

/-- `pend? c as = some c'`: `as` is a run from `c` (every action enabled in turn) and a Close / rollback
    is pending in every configuration an action is taken from (`c'` itself may be the returned one). -/
def pend? (c : Cfg) : List Act → Option Cfg
  | [] => some c
  | a :: as =>
    if closingApi c.api then
      match step? c a with
      | some c' => pend? c' as
      | none => none
    else none

theorem pend_cons (c c' : Cfg) (a : Act) (as : List Act) (h : pend? c (a :: as) = some c') :
    closingApi c.api = true ∧ ∃ c1, step? c a = some c1 ∧ pend? c1 as = some c' := by
  simp only [pend?] at h
  split at h
  · next hcl =>
    split at h
    · next c1 hs => exact ⟨hcl, c1, hs, h⟩
    · cases h
  · cases h

theorem isInject_of_progress (a : Act) (h : isProgressAct a = true) : isInjectAct a = false := by
  cases a <;> simp_all [isProgressAct, isInjectAct, isLibAct]

/-- **The bound.** Along any run of a pending Close — library actions and environment actions in any
    interleaving — the number of progress actions is at most the measure of the starting configuration
    plus `evW` per failure injection by a transport goroutine. -/
theorem close_bound (c c' : Cfg) (as : List Act) (h : Inv c) (hr : pend? c as = some c') :
    as.countP isProgressAct + mu c' ≤ mu c + evW * as.countP isInjectAct := by
  induction as generalizing c with
  | nil => simp only [pend?, Option.some.injEq] at hr; subst hr; simp
  | cons a as ih =>
    obtain ⟨hcl, c1, hs, hr1⟩ := pend_cons c c' a as hr
    have hsd : c.shutdown = true := h.S1 true (apiShut_of_closing _ hcl)
    have h1 := ih c1 (inv_step? c c1 a h hs) hr1
    have h2 := mu_step c c1 a hsd hcl hs
    simp only [List.countP_cons, progressCost, injectCost] at h2 ⊢
    cases hp : isProgressAct a <;> cases hi : isInjectAct a <;> simp only [hp, hi, evW] at h1 h2 ⊢ <;>
      simp at h2 ⊢ <;> omega

/-- a closed configuration has no enabled library action at all -/
theorem closed_no_lib (c : Cfg) (h : Closed c) (a : Act) (hl : isLibAct a = true) : step? c a = none := by
  obtain ⟨s, hs, hpc⟩ := h.sup
  have hapi := h.api
  have hloops := exited_of_loopsExited c h.loops
  have hph := phaseOf_closed c h
  cases a <;> simp [isLibAct] at hl <;> simp only [step?, hapi, hs, hpc] <;> try (simp_all; done)
  case joinSeal e' => rcases hph e' with h1 | h1 <;> simp [h1]
  case joinStop e' => rcases hph e' with h1 | h1 <;> simp [h1]
  case joinDone e' => rcases hph e' with h1 | h1 <;> simp [h1]
  all_goals
    (rename_i i
     cases hl : c.loops[i]? with
     | none => simp
     | some l => have := hloops i l hl; simp [this])

/-- the step on which a pending Close returns leaves the closed configuration, state NotConnected -/
theorem close_return (c c' : Cfg) (a : Act) (h : Inv3 c) (hcl : closingApi c.api = true)
    (hs : step? c a = some c') (hidle : c'.api = .idle) : Closed c' ∧ supSt c' = .nc := by
  have hsd : c.shutdown = true := h.i1.S1 true (apiShut_of_closing _ hcl)
  have hsd' : c'.shutdown = true := by rw [(closing_step c c' a hcl hs).1]; exact hsd
  refine ⟨closed_of_inv c' (inv_step? c c' a h.i1 hs) hidle hsd', ?_⟩
  have hrb := h.rb
  unfold RB at hrb
  cases a <;> step_cases hs <;> simp_all [closingApi, supSt]
  all_goals (cases hsup : c.sup <;> simp_all [setSup])

theorem pend_inv3 (c c' : Cfg) (as : List Act) (h : Inv3 c) (hr : pend? c as = some c') : Inv3 c' := by
  induction as generalizing c with
  | nil => simp only [pend?, Option.some.injEq] at hr; subst hr; exact h
  | cons a as ih =>
    obtain ⟨_, c1, hs, hr1⟩ := pend_cons c c' a as hr
    exact ih c1 (inv3_step? c c1 a h hs) hr1

/-- where a run of a pending Close can end: still pending, or returned into the closed configuration -/
theorem pend_end (c c' : Cfg) (as : List Act) (h : Inv3 c) (hcl : closingApi c.api = true)
    (hr : pend? c as = some c') :
    closingApi c'.api = true ∨ (c'.api = .idle ∧ Closed c' ∧ supSt c' = .nc) := by
  induction as generalizing c with
  | nil => simp only [pend?, Option.some.injEq] at hr; subst hr; exact Or.inl hcl
  | cons a as ih =>
    obtain ⟨_, c1, hs, hr1⟩ := pend_cons c c' a as hr
    rcases (closing_step c c1 a hcl hs).2 with hc1 | hc1
    · exact ih c1 (inv3_step? c c1 a h hs) hc1 hr1
    · have hret := close_return c c1 a h hcl hs hc1
      cases as with
      | nil => simp only [pend?, Option.some.injEq] at hr1; subst hr1; exact Or.inr ⟨hc1, hret⟩
      | cons b bs => simp [pend?, hc1, closingApi] at hr1

/-- **Maximal runs end closed.** If no library action is enabled at the end of a run of a pending
    Close, then Close has returned: the configuration is `Closed` and the state is NotConnected. -/
theorem pend_maximal (c c' : Cfg) (as : List Act) (h : Inv3 c) (hcl : closingApi c.api = true)
    (hr : pend? c as = some c') (hmax : ∀ a, isLibAct a = true → step? c' a = none) :
    c'.api = .idle ∧ Closed c' ∧ supSt c' = .nc := by
  rcases pend_end c c' as h hcl hr with hc | hc
  · have h' := pend_inv3 c c' as h hr
    obtain ⟨a, hl, hen⟩ := close_never_stuck_inv c' h'.i1 h'.i2 hc
    rw [hmax a hl] at hen
    simp at hen
  · exact hc

/-- **Close can always be completed**, by library actions alone, within `mu c` steps. -/
theorem close_completes (c : Cfg) (h : Inv3 c) (hcl : closingApi c.api = true) :
    ∃ (bs : List Act) (c' : Cfg), (∀ b ∈ bs, isLibAct b = true) ∧ pend? c bs = some c' ∧ bs.length ≤ mu c ∧
      c'.api = .idle ∧ Closed c' ∧ supSt c' = .nc := by
  suffices H : ∀ n (c : Cfg), mu c ≤ n → Inv3 c → closingApi c.api = true →
      ∃ (bs : List Act) (c' : Cfg), (∀ b ∈ bs, isLibAct b = true) ∧ pend? c bs = some c' ∧ bs.length ≤ mu c ∧
        c'.api = .idle ∧ Closed c' ∧ supSt c' = .nc from H (mu c) c (Nat.le_refl _) h hcl
  intro n
  induction n with
  | zero =>
    intro c hn h hcl
    obtain ⟨a, hl, hen⟩ := close_never_stuck_inv c h.i1 h.i2 hcl
    obtain ⟨c1, hs⟩ := Option.isSome_iff_exists.1 hen
    have hsd : c.shutdown = true := h.i1.S1 true (apiShut_of_closing _ hcl)
    have := mu_step c c1 a hsd hcl hs
    have hp : isProgressAct a = true := by cases a <;> simp_all [isProgressAct, isLibAct]
    have hi := isInject_of_progress a hp
    simp [progressCost, injectCost, hp, hi] at this
    omega
  | succ n ih =>
    intro c hn h hcl
    obtain ⟨a, hl, hen⟩ := close_never_stuck_inv c h.i1 h.i2 hcl
    obtain ⟨c1, hs⟩ := Option.isSome_iff_exists.1 hen
    have hsd : c.shutdown = true := h.i1.S1 true (apiShut_of_closing _ hcl)
    have hlt := mu_step c c1 a hsd hcl hs
    have hp : isProgressAct a = true := by cases a <;> simp_all [isProgressAct, isLibAct]
    have hi := isInject_of_progress a hp
    simp [progressCost, injectCost, hp, hi] at hlt
    rcases (closing_step c c1 a hcl hs).2 with hc1 | hc1
    · obtain ⟨bs, c', hbs, hrun, hlen, hrest⟩ := ih c1 (by omega) (inv3_step? c c1 a h hs) hc1
      refine ⟨a :: bs, c', ?_, ?_, ?_, hrest⟩
      · intro b hb
        rcases List.mem_cons.1 hb with rfl | hb
        · exact hl
        · exact hbs b hb
      · simp [pend?, hcl, hs, hrun]
      · simp only [List.length_cons]; omega
    · refine ⟨[a], c1, ?_, ?_, ?_, hc1, close_return c c1 a h hcl hs hc1⟩
      · intro b hb; simp at hb; subst hb; exact hl
      · simp [pend?, hcl, hs]
      · simp only [List.length_cons, List.length_nil]; omega

/-- **No infinite run.** Any schedule of progress actions, however chosen, is cut within `mu c + 1`
    steps: some scheduled action is not enabled, or Close has already returned. -/
theorem no_infinite_pending (c : Cfg) (h : Inv c) (f : Nat → Act) (hf : ∀ n, isProgressAct (f n) = true) :
    pend? c ((List.range (mu c + 1)).map f) = none := by
  cases hr : pend? c ((List.range (mu c + 1)).map f) with
  | none => rfl
  | some c' =>
    have hb := close_bound c c' _ h hr
    have h1 : ((List.range (mu c + 1)).map f).countP isProgressAct = mu c + 1 := by
      rw [List.countP_eq_length.2]
      · simp
      · intro a ha
        obtain ⟨n, _, rfl⟩ := List.mem_map.1 ha
        exact hf n
    have h2 : ((List.range (mu c + 1)).map f).countP isInjectAct = 0 := by
      rw [List.countP_eq_zero]
      intro a ha
      obtain ⟨n, _, rfl⟩ := List.mem_map.1 ha
      simp [isInject_of_progress _ (hf n)]
    rw [h1, h2] at hb
    omega

end GoSecs.Lifecycle
