/-
  Lifecycle model, fourth part (C10): REOPEN IS FRESH — a bisimulation up to renaming.

  A connection that was closed and is opened again carries residue: joined generations and exited
  reconnect loops from earlier cycles (the model never garbage-collects them), a fence counter, a
  Reconnects() gauge and a dial count that do not start at zero.  `emb r c` is the configuration `c`
  *with such residue put in front*: `r.oldE` old generations prepended (so every epoch index of `c` is
  shifted by `r.oldE.length`), `r.oldL` old loops prepended (loop indices shifted by `r.oldL.length`),
  the fence counter / gauge / dial count offset by `r.kg` / `r.kr` / `r.kd`.

  MAIN RESULT (`step?_emb`, `step?_emb_old`): `emb r` commutes with every one of the 34 actions
      step? (emb r c) (shAct r a) = (step? c a).map (emb r)
  and the only actions of `emb r c` that are not of the form `shAct r a` — the ones naming an OLD epoch or
  an OLD loop — are disabled when the old epochs are inert and the old loops exited.  Hence
  `fun c₁ c₂ => c₁ = emb r c₂` is a bisimulation between the reopened connection and a fresh one, action by
  action, with equal observations (`obs_emb`).
  Core Lean only.
-/
import GoSecs.Lemmas.LifecycleLive

namespace GoSecs.Lifecycle

/-! ## The renaming -/

/-- Residue of earlier Open/Close cycles. -/
structure Ren where
  oldE : List Epoch := []
  oldL : List Loop := []
  kg : Nat := 0
  kr : Nat := 0
  kd : Nat := 0

def Ren.ke (r : Ren) : Nat := r.oldE.length
def Ren.kl (r : Ren) : Nat := r.oldL.length

def shLoopPc (k : Nat) : LoopPc → LoopPc
  | .publish e => .publish (k + e)
  | .start e => .start (k + e)
  | .failWait e => .failWait (k + e)
  | .waitPrev => .waitPrev
  | .sleep => .sleep
  | .fence => .fence
  | .exited => .exited

def shRunPc (k : Nat) : RunPc → RunPc
  | .reactSpawn e b => .reactSpawn (k + e) b
  | .reactTeardown e b => .reactTeardown (k + e) b
  | .idle => .idle
  | .reactCheck b => .reactCheck b
  | .closeTeardown => .closeTeardown
  | .exited => .exited

def shApi (k : Nat) : ApiPc → ApiPc
  | .openStart m e => .openStart m (k + e)
  | .openColdWait e => .openColdWait (k + e)
  | .openRollbackWait e => .openRollbackWait (k + e)
  | .openWaitSel e => .openWaitSel (k + e)
  | .closeReq e => .closeReq (k + e)
  | .closeWaitEpoch e => .closeWaitEpoch (k + e)
  | .idle => .idle
  | .openJoin m => .openJoin m
  | .openRollbackSup => .openRollbackSup
  | .closeJoinSup => .closeJoinSup
  | .closeJoinLoops => .closeJoinLoops

def shSup (k : Nat) (s : Sup) : Sup :=
  { s with pc := shRunPc k s.pc, closeEpoch := s.closeEpoch.map (k + ·) }

def shTr (k : Nat) (t : Tr) : Tr := { t with owner := t.owner.map (k + ·) }

def shLoop (r : Ren) (l : Loop) : Loop :=
  { l with prev := r.ke + l.prev, gen := r.kg + l.gen, pc := shLoopPc r.ke l.pc }

/-- `c` with the residue `r` put in front of it. -/
def emb (r : Ren) (c : Cfg) : Cfg :=
  { active := c.active
    api := shApi r.ke c.api
    shutdown := c.shutdown
    gen := r.kg + c.gen
    cur := c.cur.map (r.ke + ·)
    sup := c.sup.map (shSup r.ke)
    epochs := r.oldE ++ c.epochs
    loops := r.oldL ++ c.loops.map (shLoop r)
    tr := shTr r.ke c.tr
    reconnects := r.kr + c.reconnects
    dials := r.kd + c.dials }

/-- the same action, on the renamed epoch / loop -/
def shAct (r : Ren) : Act → Act
  | .joinSeal e => .joinSeal (r.ke + e)
  | .joinStop e => .joinStop (r.ke + e)
  | .joinDone e => .joinDone (r.ke + e)
  | .loopWake i => .loopWake (r.kl + i)
  | .loopSleep i => .loopSleep (r.kl + i)
  | .loopFence i => .loopFence (r.kl + i)
  | .loopPublish i => .loopPublish (r.kl + i)
  | .loopStartOk i => .loopStartOk (r.kl + i)
  | .loopStartFail i => .loopStartFail (r.kl + i)
  | .loopFailDone i => .loopFailDone (r.kl + i)
  | a => a

/-! ## List facts -/

theorem getElem?_append_add {α} (l₁ l₂ : List α) (i : Nat) : (l₁ ++ l₂)[l₁.length + i]? = l₂[i]? := by
  rw [List.getElem?_append_right (Nat.le_add_right _ _)]
  congr 1
  omega

theorem modify_append_add {α} (l₁ l₂ : List α) (i : Nat) (f : α → α) :
    (l₁ ++ l₂).modify (l₁.length + i) f = l₁ ++ l₂.modify i f := by
  induction l₁ with
  | nil => simp
  | cons x xs ih =>
    have : (x :: xs).length + i = (xs.length + i) + 1 := by simp; omega
    rw [this]
    simp only [List.cons_append, List.modify_succ_cons, ih]

theorem map_modify_comm {α β} (g : α → β) (f : α → α) (f' : β → β) (hf : ∀ a, f' (g a) = g (f a))
    (l : List α) (i : Nat) : (l.map g).modify i f' = (l.modify i f).map g := by
  induction l generalizing i with
  | nil => simp
  | cons x xs ih =>
    cases i with
    | zero => simp [hf]
    | succ i => simp [ih]

/-! ## `emb` commutes with the helpers of the step function -/

section helpers
variable (r : Ren) (c : Cfg)

@[simp] theorem emb_active : (emb r c).active = c.active := rfl
@[simp] theorem emb_api : (emb r c).api = shApi r.ke c.api := rfl
@[simp] theorem emb_shutdown : (emb r c).shutdown = c.shutdown := rfl
@[simp] theorem emb_gen : (emb r c).gen = r.kg + c.gen := rfl
@[simp] theorem emb_cur : (emb r c).cur = c.cur.map (r.ke + ·) := rfl
@[simp] theorem emb_sup : (emb r c).sup = c.sup.map (shSup r.ke) := rfl
@[simp] theorem emb_epochs : (emb r c).epochs = r.oldE ++ c.epochs := rfl
@[simp] theorem emb_loops : (emb r c).loops = r.oldL ++ c.loops.map (shLoop r) := rfl
@[simp] theorem emb_tr : (emb r c).tr = shTr r.ke c.tr := rfl
@[simp] theorem emb_reconnects : (emb r c).reconnects = r.kr + c.reconnects := rfl
@[simp] theorem emb_dials : (emb r c).dials = r.kd + c.dials := rfl

theorem epochs_emb_get (e : Nat) : (emb r c).epochs[r.ke + e]? = c.epochs[e]? :=
  getElem?_append_add _ _ _

theorem loops_emb_get (i : Nat) : (emb r c).loops[r.kl + i]? = (c.loops[i]?).map (shLoop r) := by
  show (r.oldL ++ c.loops.map (shLoop r))[r.oldL.length + i]? = _
  rw [getElem?_append_add]; simp

@[simp] theorem phaseOf_emb (e : Nat) : phaseOf (emb r c) (r.ke + e) = phaseOf c e := by
  unfold phaseOf; rw [epochs_emb_get]

@[simp] theorem isDone_emb (e : Nat) : isDone (emb r c) (r.ke + e) = isDone c e := by
  unfold isDone; rw [phaseOf_emb]

theorem setPhase_emb (e : Nat) (p : Phase) : setPhase (emb r c) (r.ke + e) p = emb r (setPhase c e p) := by
  unfold setPhase
  simp only [emb, Ren.ke, modify_append_add]

theorem teardown_emb (e : Nat) : teardown (emb r c) (r.ke + e) = emb r (teardown c e) := by
  unfold teardown
  rw [phaseOf_emb]
  split
  · exact setPhase_emb r c e .torn
  · rfl

theorem setLoop_emb (i : Nat) (f f' : Loop → Loop) (hf : ∀ l, f' (shLoop r l) = shLoop r (f l)) :
    setLoop (emb r c) (r.kl + i) f' = emb r (setLoop c i f) := by
  unfold setLoop
  simp only [emb, Ren.kl, modify_append_add, map_modify_comm (shLoop r) f f' hf]

theorem setSup_emb (f f' : Sup → Sup) (hf : ∀ s, f' (shSup r.ke s) = shSup r.ke (f s)) :
    setSup (emb r c) f' = emb r (setSup c f) := by
  unfold setSup
  simp only [emb, Option.map_map]
  congr 2
  funext s; exact hf s

@[simp] theorem supSt_emb : supSt (emb r c) = supSt c := by
  unfold supSt; simp [Option.map_map, Function.comp_def, shSup]

theorem inject_emb (ev : Ev) : inject (emb r c) ev = emb r (inject c ev) := by
  unfold inject
  apply setSup_emb
  intro s
  cases hp : s.pc <;> simp [shSup, shRunPc, hp]

theorem shRunPc_beq_exited (k : Nat) (p : RunPc) : (shRunPc k p == .exited) = (p == .exited) := by
  cases p <;> rfl

theorem shRunPc_eq_exited (k : Nat) (p : RunPc) : shRunPc k p = .exited ↔ p = .exited := by
  cases p <;> simp [shRunPc]

theorem shRunPc_eq_idle (k : Nat) (p : RunPc) : shRunPc k p = .idle ↔ p = .idle := by
  cases p <;> simp [shRunPc]

@[simp] theorem injectOk_emb : injectOk (emb r c) = injectOk c := by
  unfold injectOk
  cases hs : c.sup with
  | none => simp [hs]
  | some s => simp [hs, shSup, shRunPc_beq_exited]

theorem commitConnected_emb : commitConnected (emb r c) = emb r (commitConnected c) := by
  unfold commitConnected
  apply setSup_emb
  intro s
  by_cases h : s.st = .nc <;> simp [h, shSup]

theorem register_emb (e : Nat) : register (emb r c) (r.ke + e) = emb r (register c e) := by
  unfold register
  simp only [emb, Option.map_map, shTr]
  congr 2
  funext s
  by_cases h : c.active = true ∧ s.st = .nc <;> simp [h, shSup]

theorem shLoopPc_beq_exited (k : Nat) (p : LoopPc) : (shLoopPc k p == .exited) = (p == .exited) := by
  cases p <;> rfl

theorem bne_add_left (k a b : Nat) : (k + a != k + b) = (a != b) := by
  rw [Bool.eq_iff_iff]
  simp only [bne_iff_ne, ne_eq]
  omega

theorem loopsExited_emb (hL : ∀ l ∈ r.oldL, l.pc = .exited) : loopsExited (emb r c) = loopsExited c := by
  unfold loopsExited
  simp only [emb_loops, List.all_append, List.all_map]
  have : r.oldL.all (fun l => l.pc == .exited) = true := by
    rw [List.all_eq_true]; intro l hl; simp [hL l hl]
  rw [this, Bool.true_and]
  congr 1
  funext l
  simp [shLoop, shLoopPc_beq_exited]

theorem stale_emb (l : Loop) : stale (emb r c) (shLoop r l) = stale c l := by
  unfold stale
  simp [shLoop, bne_add_left]

end helpers

/-! ## `emb` commutes with every action -/

theorem map_modify_pc (r : Ren) (l : List Loop) (i : Nat) (p : LoopPc) :
    (l.modify i (fun l => { l with pc := p })).map (shLoop r) =
      (l.map (shLoop r)).modify i (fun l => { l with pc := shLoopPc r.ke p }) :=
  (map_modify_comm (shLoop r) (fun l => { l with pc := p }) (fun l => { l with pc := shLoopPc r.ke p })
    (fun _ => rfl) l i).symm

theorem map_modify_sleep (r : Ren) (l : List Loop) (i : Nat) :
    (l.modify i (fun l => { l with pc := .fence, k := l.k + 1 })).map (shLoop r) =
      (l.map (shLoop r)).modify i (fun l => { l with pc := .fence, k := l.k + 1 }) :=
  (map_modify_comm (shLoop r) (fun l => { l with pc := .fence, k := l.k + 1 })
    (fun l => { l with pc := .fence, k := l.k + 1 }) (fun _ => rfl) l i).symm

theorem cfg_ext (a b : Cfg) (h1 : a.active = b.active) (h2 : a.api = b.api) (h3 : a.shutdown = b.shutdown)
    (h4 : a.gen = b.gen) (h5 : a.cur = b.cur) (h6 : a.sup = b.sup) (h7 : a.epochs = b.epochs)
    (h8 : a.loops = b.loops) (h9 : a.tr = b.tr) (h10 : a.reconnects = b.reconnects) (h11 : a.dials = b.dials) :
    a = b := by
  cases a; cases b; simp_all

/-- field-by-field comparison of a successor with the embedding of the fresh side's successor -/
macro "emb_fields" : tactic =>
  `(tactic| (apply cfg_ext <;>
      simp [phaseOf, isDone, Ren.ke, Ren.kl, getElem?_append_add, modify_append_add, map_modify_pc,
        map_modify_sleep, shApi, shSup, shRunPc, shLoop, shLoopPc, shTr, Nat.add_assoc, Option.map_map, Function.comp_def, *] <;>
      (try (split <;> simp [*]))))

macro "split_both" : tactic =>
  `(tactic| (split <;> (rename_i hsplit; simp only [hsplit, ↓reduceIte, if_true, if_false, Bool.false_eq_true, Option.map_some, Option.map_none, Option.some.injEq])))

/-- normalise the guards of the renamed side to those of the fresh side -/
macro "emb_guards" : tactic =>
  `(tactic| (try simp only [step?, shAct]
             try simp [Ren.kl, getElem?_append_add, List.getElem?_map, phaseOf_emb, isDone_emb, injectOk_emb, supSt_emb, emb_api, emb_sup,
               emb_cur, emb_shutdown, emb_active, emb_tr, shApi, shSup, shRunPc, shTr, shLoop, shLoopPc, stale, bne_add_left, emb_gen]))

macro "emb_fin" : tactic =>
  `(tactic| first
      | rfl
      | (emb_fields; done)
      | (simp only [Option.map_some, Option.some.injEq]; emb_fields; done)
      | (split_both <;> first | rfl | (emb_fields; done) | (split_both <;> first | rfl | (emb_fields; done) | (split_both <;> first | rfl | (emb_fields; done)))))

variable (r : Ren)

theorem emb_openEnter (c : Cfg) (m : Mode) : step? (emb r c) (shAct r (.openEnter m)) = (step? c (.openEnter m)).map (emb r) := by
  obtain ⟨active, api, shutdown, gen, cur, sup, epochs, loops, ⟨stopping, owner, acceptAvail⟩, reconnects, dials⟩ := c
  rcases sup with _ | ⟨st, closed, queue, spc, stopReq, closeEpoch⟩
  all_goals (cases api <;> emb_guards <;> emb_fin)

theorem emb_openStartOk (c : Cfg) : step? (emb r c) (shAct r (.openStartOk)) = (step? c (.openStartOk)).map (emb r) := by
  obtain ⟨active, api, shutdown, gen, cur, sup, epochs, loops, ⟨stopping, owner, acceptAvail⟩, reconnects, dials⟩ := c
  rcases sup with _ | ⟨st, closed, queue, spc, stopReq, closeEpoch⟩
  all_goals (cases api <;> emb_guards <;> emb_fin)

theorem emb_openStartFail (c : Cfg) : step? (emb r c) (shAct r (.openStartFail)) = (step? c (.openStartFail)).map (emb r) := by
  obtain ⟨active, api, shutdown, gen, cur, sup, epochs, loops, ⟨stopping, owner, acceptAvail⟩, reconnects, dials⟩ := c
  rcases sup with _ | ⟨st, closed, queue, spc, stopReq, closeEpoch⟩
  all_goals (cases api <;> emb_guards <;> emb_fin)

theorem emb_openColdDone (c : Cfg) : step? (emb r c) (shAct r (.openColdDone)) = (step? c (.openColdDone)).map (emb r) := by
  obtain ⟨active, api, shutdown, gen, cur, sup, epochs, loops, ⟨stopping, owner, acceptAvail⟩, reconnects, dials⟩ := c
  rcases sup with _ | ⟨st, closed, queue, spc, stopReq, closeEpoch⟩
  all_goals (cases api <;> emb_guards <;> emb_fin)

theorem emb_openRollbackEpoch (c : Cfg) : step? (emb r c) (shAct r (.openRollbackEpoch)) = (step? c (.openRollbackEpoch)).map (emb r) := by
  obtain ⟨active, api, shutdown, gen, cur, sup, epochs, loops, ⟨stopping, owner, acceptAvail⟩, reconnects, dials⟩ := c
  rcases sup with _ | ⟨st, closed, queue, spc, stopReq, closeEpoch⟩
  all_goals (cases api <;> emb_guards <;> emb_fin)

theorem emb_openRollbackDone (c : Cfg) : step? (emb r c) (shAct r (.openRollbackDone)) = (step? c (.openRollbackDone)).map (emb r) := by
  obtain ⟨active, api, shutdown, gen, cur, sup, epochs, loops, ⟨stopping, owner, acceptAvail⟩, reconnects, dials⟩ := c
  rcases sup with _ | ⟨st, closed, queue, spc, stopReq, closeEpoch⟩
  · cases api <;> emb_guards <;> emb_fin
  · cases api <;> cases spc <;> emb_guards <;> emb_fin

theorem emb_openWaitRet (c : Cfg) (w : WaitRes) : step? (emb r c) (shAct r (.openWaitRet w)) = (step? c (.openWaitRet w)).map (emb r) := by
  obtain ⟨active, api, shutdown, gen, cur, sup, epochs, loops, ⟨stopping, owner, acceptAvail⟩, reconnects, dials⟩ := c
  rcases sup with _ | ⟨st, closed, queue, spc, stopReq, closeEpoch⟩
  all_goals (cases api <;> cases w <;> emb_guards <;> emb_fin)

theorem emb_closeEnter (c : Cfg) : step? (emb r c) (shAct r (.closeEnter)) = (step? c (.closeEnter)).map (emb r) := by
  obtain ⟨active, api, shutdown, gen, cur, sup, epochs, loops, ⟨stopping, owner, acceptAvail⟩, reconnects, dials⟩ := c
  rcases sup with _ | ⟨st, closed, queue, spc, stopReq, closeEpoch⟩
  · cases api <;> cases cur <;> emb_guards <;> emb_fin
  · cases api <;> cases cur <;> cases spc <;> emb_guards <;> emb_fin

theorem emb_closeRequest (c : Cfg) : step? (emb r c) (shAct r (.closeRequest)) = (step? c (.closeRequest)).map (emb r) := by
  obtain ⟨active, api, shutdown, gen, cur, sup, epochs, loops, ⟨stopping, owner, acceptAvail⟩, reconnects, dials⟩ := c
  rcases sup with _ | ⟨st, closed, queue, spc, stopReq, closeEpoch⟩
  all_goals (cases api <;> emb_guards <;> emb_fin)

theorem emb_closeEpochDone (c : Cfg) : step? (emb r c) (shAct r (.closeEpochDone)) = (step? c (.closeEpochDone)).map (emb r) := by
  obtain ⟨active, api, shutdown, gen, cur, sup, epochs, loops, ⟨stopping, owner, acceptAvail⟩, reconnects, dials⟩ := c
  rcases sup with _ | ⟨st, closed, queue, spc, stopReq, closeEpoch⟩
  all_goals (cases api <;> emb_guards <;> emb_fin)

theorem emb_closeSupDone (c : Cfg) : step? (emb r c) (shAct r (.closeSupDone)) = (step? c (.closeSupDone)).map (emb r) := by
  obtain ⟨active, api, shutdown, gen, cur, sup, epochs, loops, ⟨stopping, owner, acceptAvail⟩, reconnects, dials⟩ := c
  rcases sup with _ | ⟨st, closed, queue, spc, stopReq, closeEpoch⟩
  · cases api <;> emb_guards <;> emb_fin
  · cases api <;> cases spc <;> emb_guards <;> emb_fin

theorem emb_supStep (c : Cfg) : step? (emb r c) (shAct r .supStep) = (step? c .supStep).map (emb r) := by
  obtain ⟨active, api, shutdown, gen, cur, sup, epochs, loops, ⟨stopping, owner, acceptAvail⟩, reconnects, dials⟩ := c
  rcases sup with _ | ⟨st, closed, queue, spc, stopReq, closeEpoch⟩
  · rfl
  · rcases queue with _ | ⟨ev, q⟩ <;> cases spc <;> (try cases ev) <;> cases closed <;> cases st <;> emb_guards <;> emb_fin

theorem emb_reactCheck (c : Cfg) : step? (emb r c) (shAct r .reactCheck) = (step? c .reactCheck).map (emb r) := by
  obtain ⟨active, api, shutdown, gen, cur, sup, epochs, loops, ⟨stopping, owner, acceptAvail⟩, reconnects, dials⟩ := c
  rcases sup with _ | ⟨st, closed, queue, spc, stopReq, closeEpoch⟩
  · rfl
  · cases spc <;> cases cur <;> emb_guards <;> emb_fin

theorem emb_reactSpawn (c : Cfg) : step? (emb r c) (shAct r .reactSpawn) = (step? c .reactSpawn).map (emb r) := by
  obtain ⟨active, api, shutdown, gen, cur, sup, epochs, loops, ⟨stopping, owner, acceptAvail⟩, reconnects, dials⟩ := c
  rcases sup with _ | ⟨st, closed, queue, spc, stopReq, closeEpoch⟩
  · rfl
  · cases spc <;> emb_guards <;> emb_fin

theorem emb_reactTeardown (c : Cfg) : step? (emb r c) (shAct r .reactTeardown) = (step? c .reactTeardown).map (emb r) := by
  obtain ⟨active, api, shutdown, gen, cur, sup, epochs, loops, ⟨stopping, owner, acceptAvail⟩, reconnects, dials⟩ := c
  rcases sup with _ | ⟨st, closed, queue, spc, stopReq, closeEpoch⟩
  · rfl
  · cases spc <;> emb_guards <;> emb_fin

theorem emb_closeTeardown (c : Cfg) : step? (emb r c) (shAct r .closeTeardown) = (step? c .closeTeardown).map (emb r) := by
  obtain ⟨active, api, shutdown, gen, cur, sup, epochs, loops, ⟨stopping, owner, acceptAvail⟩, reconnects, dials⟩ := c
  rcases sup with _ | ⟨st, closed, queue, spc, stopReq, closeEpoch⟩
  · rfl
  · cases spc <;> cases closeEpoch <;> emb_guards <;> emb_fin

theorem emb_supExit (c : Cfg) : step? (emb r c) (shAct r .supExit) = (step? c .supExit).map (emb r) := by
  obtain ⟨active, api, shutdown, gen, cur, sup, epochs, loops, ⟨stopping, owner, acceptAvail⟩, reconnects, dials⟩ := c
  rcases sup with _ | ⟨st, closed, queue, spc, stopReq, closeEpoch⟩
  · rfl
  · cases spc <;> emb_guards <;> emb_fin

theorem emb_joinSeal (c : Cfg) (e : Nat) : step? (emb r c) (shAct r (.joinSeal e)) = (step? c (.joinSeal e)).map (emb r) := by
  obtain ⟨active, api, shutdown, gen, cur, sup, epochs, loops, ⟨stopping, owner, acceptAvail⟩, reconnects, dials⟩ := c
  rcases sup with _ | ⟨st, closed, queue, spc, stopReq, closeEpoch⟩
  all_goals (emb_guards <;> emb_fin)

theorem emb_joinStop (c : Cfg) (e : Nat) : step? (emb r c) (shAct r (.joinStop e)) = (step? c (.joinStop e)).map (emb r) := by
  obtain ⟨active, api, shutdown, gen, cur, sup, epochs, loops, ⟨stopping, owner, acceptAvail⟩, reconnects, dials⟩ := c
  rcases sup with _ | ⟨st, closed, queue, spc, stopReq, closeEpoch⟩
  all_goals (emb_guards <;> emb_fin)

theorem emb_joinDone (c : Cfg) (e : Nat) : step? (emb r c) (shAct r (.joinDone e)) = (step? c (.joinDone e)).map (emb r) := by
  obtain ⟨active, api, shutdown, gen, cur, sup, epochs, loops, ⟨stopping, owner, acceptAvail⟩, reconnects, dials⟩ := c
  rcases sup with _ | ⟨st, closed, queue, spc, stopReq, closeEpoch⟩
  all_goals (emb_guards <;> emb_fin)

theorem emb_envAccept (c : Cfg) : step? (emb r c) (shAct r (.envAccept)) = (step? c (.envAccept)).map (emb r) := by
  obtain ⟨active, api, shutdown, gen, cur, sup, epochs, loops, ⟨stopping, owner, acceptAvail⟩, reconnects, dials⟩ := c
  rcases sup with _ | ⟨st, closed, queue, spc, stopReq, closeEpoch⟩
  all_goals (emb_guards <;> emb_fin)

theorem emb_envSelected (c : Cfg) : step? (emb r c) (shAct r (.envSelected)) = (step? c (.envSelected)).map (emb r) := by
  obtain ⟨active, api, shutdown, gen, cur, sup, epochs, loops, ⟨stopping, owner, acceptAvail⟩, reconnects, dials⟩ := c
  rcases sup with _ | ⟨st, closed, queue, spc, stopReq, closeEpoch⟩
  all_goals (emb_guards <;> emb_fin)

theorem emb_envSelectLost (c : Cfg) : step? (emb r c) (shAct r (.envSelectLost)) = (step? c (.envSelectLost)).map (emb r) := by
  obtain ⟨active, api, shutdown, gen, cur, sup, epochs, loops, ⟨stopping, owner, acceptAvail⟩, reconnects, dials⟩ := c
  rcases sup with _ | ⟨st, closed, queue, spc, stopReq, closeEpoch⟩
  all_goals (emb_guards <;> emb_fin)

theorem emb_envDown (c : Cfg) : step? (emb r c) (shAct r (.envDown)) = (step? c (.envDown)).map (emb r) := by
  obtain ⟨active, api, shutdown, gen, cur, sup, epochs, loops, ⟨stopping, owner, acceptAvail⟩, reconnects, dials⟩ := c
  rcases sup with _ | ⟨st, closed, queue, spc, stopReq, closeEpoch⟩
  all_goals (emb_guards <;> emb_fin)

theorem emb_envT7 (c : Cfg) : step? (emb r c) (shAct r (.envT7)) = (step? c (.envT7)).map (emb r) := by
  obtain ⟨active, api, shutdown, gen, cur, sup, epochs, loops, ⟨stopping, owner, acceptAvail⟩, reconnects, dials⟩ := c
  rcases sup with _ | ⟨st, closed, queue, spc, stopReq, closeEpoch⟩
  all_goals (emb_guards <;> emb_fin)

theorem emb_loopWake (c : Cfg) (i : Nat) : step? (emb r c) (shAct r (.loopWake i)) = (step? c (.loopWake i)).map (emb r) := by
  obtain ⟨active, api, shutdown, gen, cur, sup, epochs, loops, ⟨stopping, owner, acceptAvail⟩, reconnects, dials⟩ := c
  rcases sup with _ | ⟨st, closed, queue, spc, stopReq, closeEpoch⟩
  all_goals
    (emb_guards
     cases hl : loops[i]? with
     | none => simp
     | some l =>
       obtain ⟨prev, lgen, count, pc, k⟩ := l
       cases pc <;> emb_guards <;> emb_fin)

theorem emb_loopSleep (c : Cfg) (i : Nat) : step? (emb r c) (shAct r (.loopSleep i)) = (step? c (.loopSleep i)).map (emb r) := by
  obtain ⟨active, api, shutdown, gen, cur, sup, epochs, loops, ⟨stopping, owner, acceptAvail⟩, reconnects, dials⟩ := c
  rcases sup with _ | ⟨st, closed, queue, spc, stopReq, closeEpoch⟩
  all_goals
    (emb_guards
     cases hl : loops[i]? with
     | none => simp
     | some l =>
       obtain ⟨prev, lgen, count, pc, k⟩ := l
       cases pc <;> emb_guards <;> emb_fin)

theorem emb_loopFence (c : Cfg) (i : Nat) : step? (emb r c) (shAct r (.loopFence i)) = (step? c (.loopFence i)).map (emb r) := by
  obtain ⟨active, api, shutdown, gen, cur, sup, epochs, loops, ⟨stopping, owner, acceptAvail⟩, reconnects, dials⟩ := c
  rcases sup with _ | ⟨st, closed, queue, spc, stopReq, closeEpoch⟩
  all_goals
    (emb_guards
     cases hl : loops[i]? with
     | none => simp
     | some l =>
       obtain ⟨prev, lgen, count, pc, k⟩ := l
       cases pc <;> emb_guards <;> emb_fin)

theorem emb_loopPublish (c : Cfg) (i : Nat) : step? (emb r c) (shAct r (.loopPublish i)) = (step? c (.loopPublish i)).map (emb r) := by
  obtain ⟨active, api, shutdown, gen, cur, sup, epochs, loops, ⟨stopping, owner, acceptAvail⟩, reconnects, dials⟩ := c
  rcases sup with _ | ⟨st, closed, queue, spc, stopReq, closeEpoch⟩
  all_goals
    (emb_guards
     cases hl : loops[i]? with
     | none => simp
     | some l =>
       obtain ⟨prev, lgen, count, pc, k⟩ := l
       cases pc <;> emb_guards <;> emb_fin)

theorem emb_loopStartOk (c : Cfg) (i : Nat) : step? (emb r c) (shAct r (.loopStartOk i)) = (step? c (.loopStartOk i)).map (emb r) := by
  obtain ⟨active, api, shutdown, gen, cur, sup, epochs, loops, ⟨stopping, owner, acceptAvail⟩, reconnects, dials⟩ := c
  rcases sup with _ | ⟨st, closed, queue, spc, stopReq, closeEpoch⟩
  all_goals
    (emb_guards
     cases hl : loops[i]? with
     | none => simp
     | some l =>
       obtain ⟨prev, lgen, count, pc, k⟩ := l
       cases pc <;> emb_guards <;> emb_fin)

theorem emb_loopStartFail (c : Cfg) (i : Nat) : step? (emb r c) (shAct r (.loopStartFail i)) = (step? c (.loopStartFail i)).map (emb r) := by
  obtain ⟨active, api, shutdown, gen, cur, sup, epochs, loops, ⟨stopping, owner, acceptAvail⟩, reconnects, dials⟩ := c
  rcases sup with _ | ⟨st, closed, queue, spc, stopReq, closeEpoch⟩
  all_goals
    (emb_guards
     cases hl : loops[i]? with
     | none => simp
     | some l =>
       obtain ⟨prev, lgen, count, pc, k⟩ := l
       cases pc <;> emb_guards <;> emb_fin)

theorem emb_loopFailDone (c : Cfg) (i : Nat) : step? (emb r c) (shAct r (.loopFailDone i)) = (step? c (.loopFailDone i)).map (emb r) := by
  obtain ⟨active, api, shutdown, gen, cur, sup, epochs, loops, ⟨stopping, owner, acceptAvail⟩, reconnects, dials⟩ := c
  rcases sup with _ | ⟨st, closed, queue, spc, stopReq, closeEpoch⟩
  all_goals
    (emb_guards
     cases hl : loops[i]? with
     | none => simp
     | some l =>
       obtain ⟨prev, lgen, count, pc, k⟩ := l
       cases pc <;> emb_guards <;> emb_fin)

theorem emb_openArm (hL : ∀ l ∈ r.oldL, l.pc = .exited) (c : Cfg) : step? (emb r c) (shAct r .openArm) = (step? c .openArm).map (emb r) := by
  have hle := loopsExited_emb r c hL
  obtain ⟨active, api, shutdown, gen, cur, sup, epochs, loops, ⟨stopping, owner, acceptAvail⟩, reconnects, dials⟩ := c
  rcases sup with _ | ⟨st, closed, queue, spc, stopReq, closeEpoch⟩
  all_goals (cases api <;> emb_guards <;> (try simp only [hle]) <;> emb_fin)

theorem emb_closeLoopsDone (hL : ∀ l ∈ r.oldL, l.pc = .exited) (c : Cfg) : step? (emb r c) (shAct r .closeLoopsDone) = (step? c .closeLoopsDone).map (emb r) := by
  have hle := loopsExited_emb r c hL
  obtain ⟨active, api, shutdown, gen, cur, sup, epochs, loops, ⟨stopping, owner, acceptAvail⟩, reconnects, dials⟩ := c
  rcases sup with _ | ⟨st, closed, queue, spc, stopReq, closeEpoch⟩
  all_goals (cases api <;> emb_guards <;> (try simp only [hle]) <;> emb_fin)


/-! ## The commutation theorem -/

/-- what the residue must satisfy: old generations are joined (or were never published), old loops
    have exited -/
structure Ren.Inert (r : Ren) : Prop where
  epochs : ∀ ep ∈ r.oldE, ep.phase = .done ∨ ep.phase = .live
  loops : ∀ l ∈ r.oldL, l.pc = .exited

/-- **`emb` commutes with every action** (the renamed action on the renamed configuration). -/
theorem step?_emb (r : Ren) (hL : ∀ l ∈ r.oldL, l.pc = .exited) (c : Cfg) (a : Act) :
    step? (emb r c) (shAct r a) = (step? c a).map (emb r) := by
  cases a with
  | openEnter m => exact emb_openEnter r c m
  | openArm => exact emb_openArm r hL c
  | openStartOk => exact emb_openStartOk r c
  | openStartFail => exact emb_openStartFail r c
  | openColdDone => exact emb_openColdDone r c
  | openRollbackEpoch => exact emb_openRollbackEpoch r c
  | openRollbackDone => exact emb_openRollbackDone r c
  | openWaitRet w => exact emb_openWaitRet r c w
  | closeEnter => exact emb_closeEnter r c
  | closeRequest => exact emb_closeRequest r c
  | closeEpochDone => exact emb_closeEpochDone r c
  | closeSupDone => exact emb_closeSupDone r c
  | closeLoopsDone => exact emb_closeLoopsDone r hL c
  | supStep => exact emb_supStep r c
  | reactCheck => exact emb_reactCheck r c
  | reactSpawn => exact emb_reactSpawn r c
  | reactTeardown => exact emb_reactTeardown r c
  | closeTeardown => exact emb_closeTeardown r c
  | supExit => exact emb_supExit r c
  | joinSeal e => exact emb_joinSeal r c e
  | joinStop e => exact emb_joinStop r c e
  | joinDone e => exact emb_joinDone r c e
  | loopWake i => exact emb_loopWake r c i
  | loopSleep i => exact emb_loopSleep r c i
  | loopFence i => exact emb_loopFence r c i
  | loopPublish i => exact emb_loopPublish r c i
  | loopStartOk i => exact emb_loopStartOk r c i
  | loopStartFail i => exact emb_loopStartFail r c i
  | loopFailDone i => exact emb_loopFailDone r c i
  | envAccept => exact emb_envAccept r c
  | envSelected => exact emb_envSelected r c
  | envSelectLost => exact emb_envSelectLost r c
  | envDown => exact emb_envDown r c
  | envT7 => exact emb_envT7 r c

/-- the action of the fresh side that a reopened-side action is the renaming of, if any: actions that
    name an OLD generation or an OLD loop have none -/
def unshAct (r : Ren) : Act → Option Act
  | .joinSeal e => if r.ke ≤ e then some (.joinSeal (e - r.ke)) else none
  | .joinStop e => if r.ke ≤ e then some (.joinStop (e - r.ke)) else none
  | .joinDone e => if r.ke ≤ e then some (.joinDone (e - r.ke)) else none
  | .loopWake i => if r.kl ≤ i then some (.loopWake (i - r.kl)) else none
  | .loopSleep i => if r.kl ≤ i then some (.loopSleep (i - r.kl)) else none
  | .loopFence i => if r.kl ≤ i then some (.loopFence (i - r.kl)) else none
  | .loopPublish i => if r.kl ≤ i then some (.loopPublish (i - r.kl)) else none
  | .loopStartOk i => if r.kl ≤ i then some (.loopStartOk (i - r.kl)) else none
  | .loopStartFail i => if r.kl ≤ i then some (.loopStartFail (i - r.kl)) else none
  | .loopFailDone i => if r.kl ≤ i then some (.loopFailDone (i - r.kl)) else none
  | a => some a

theorem shAct_of_unshAct (r : Ren) (a₁ a₂ : Act) (h : unshAct r a₁ = some a₂) : shAct r a₂ = a₁ := by
  cases a₁ <;> simp only [unshAct, Option.some.injEq] at h <;>
    first
    | (subst h; rfl)
    | (split at h
       · simp only [Option.some.injEq] at h; subst h; simp only [shAct]; congr 1; omega
       · cases h)

theorem unshAct_shAct (r : Ren) (a : Act) : unshAct r (shAct r a) = some a := by
  cases a <;> simp [unshAct, shAct]

theorem phaseOf_emb_old (r : Ren) (hr : r.Inert) (c : Cfg) (e : Nat) (he : e < r.ke) :
    phaseOf (emb r c) e = .done ∨ phaseOf (emb r c) e = .live := by
  unfold phaseOf
  have hlt : e < r.oldE.length := he
  simp only [emb_epochs, List.getElem?_append_left hlt, List.getElem?_eq_getElem hlt, Option.map_some, Option.getD_some]
  exact hr.epochs _ (List.getElem_mem hlt)

theorem loops_emb_old (r : Ren) (hr : r.Inert) (c : Cfg) (i : Nat) (hi : i < r.kl) :
    ∃ l, (emb r c).loops[i]? = some l ∧ l.pc = .exited := by
  have hlt : i < r.oldL.length := hi
  refine ⟨r.oldL[i], ?_, hr.loops _ (List.getElem_mem hlt)⟩
  simp only [emb_loops, List.getElem?_append_left hlt, List.getElem?_eq_getElem hlt]

/-- **Actions on the residue are dead**: an action naming an old generation or an old loop is disabled. -/
theorem step?_emb_old (r : Ren) (hr : r.Inert) (c : Cfg) (a₁ : Act) (h : unshAct r a₁ = none) :
    step? (emb r c) a₁ = none := by
  cases a₁ <;> simp only [unshAct, reduceCtorEq] at h
  case joinSeal e => 
    have he : e < r.ke := by split at h <;> simp_all <;> omega
    rcases phaseOf_emb_old r hr c e he with hp | hp <;> simp [step?, hp]
  case joinStop e => 
    have he : e < r.ke := by split at h <;> simp_all <;> omega
    rcases phaseOf_emb_old r hr c e he with hp | hp <;> simp [step?, hp]
  case joinDone e => 
    have he : e < r.ke := by split at h <;> simp_all <;> omega
    rcases phaseOf_emb_old r hr c e he with hp | hp <;> simp [step?, hp]
  all_goals
    (rename_i i
     have hi : i < r.kl := by split at h <;> simp_all <;> omega
     obtain ⟨l, hl, hpc⟩ := loops_emb_old r hr c i hi
     simp only [step?, hl, hpc]
     try simp)


/-! ## Observations -/

/-- api program counter with the generation index erased (which call is in flight, and where) -/
def eraseApi : ApiPc → ApiPc
  | .openStart m _ => .openStart m 0
  | .openColdWait _ => .openColdWait 0
  | .openRollbackWait _ => .openRollbackWait 0
  | .openWaitSel _ => .openWaitSel 0
  | .closeReq _ => .closeReq 0
  | .closeWaitEpoch _ => .closeWaitEpoch 0
  | p => p

/-- What the outside can see of a configuration: `State()`, which API call is in flight and at which
    wait, what an Open / a Close issued now would answer (only meaningful when `lifeMu` is free),
    whether the transport runs a generation (socket / listener) / still owes a first accept, the number
    of live reconnect loops (the Reconnecting gauge), and the Reconnects() gauge and dial / listen count
    relative to the offsets `kr`, `kd`. -/
structure Obs where
  state : St
  api : ApiPc
  openSaysAlreadyOpen : Bool
  closeSaysNotOpen : Bool
  linkUp : Bool
  accepting : Bool
  retrying : Nat
  reconnects : Nat
  dials : Nat
  deriving DecidableEq, Repr

def liveLoops (l : List Loop) : Nat := l.countP (fun x => x.pc != .exited)

def obsOf (kr kd : Nat) (c : Cfg) : Obs :=
  { state := supSt c
    api := eraseApi c.api
    openSaysAlreadyOpen := c.api == .idle && c.sup.isSome && !c.shutdown
    closeSaysNotOpen := c.api == .idle && c.cur.isNone
    linkUp := c.tr.owner.isSome
    accepting := c.tr.acceptAvail
    retrying := liveLoops c.loops
    reconnects := c.reconnects - kr
    dials := c.dials - kd }

theorem eraseApi_shApi (k : Nat) (p : ApiPc) : eraseApi (shApi k p) = eraseApi p := by
  cases p <;> rfl

theorem shApi_beq_idle (k : Nat) (p : ApiPc) : (shApi k p == .idle) = (p == .idle) := by
  cases p <;> rfl

theorem liveLoops_emb (r : Ren) (hL : ∀ l ∈ r.oldL, l.pc = .exited) (c : Cfg) :
    liveLoops (emb r c).loops = liveLoops c.loops := by
  unfold liveLoops
  simp only [emb_loops, List.countP_append, List.countP_map]
  have h0 : r.oldL.countP (fun x => x.pc != .exited) = 0 := by
    rw [List.countP_eq_zero]; intro l hl; simp [hL l hl]
  rw [h0, Nat.zero_add]
  congr 1
  funext l
  simp only [Function.comp, shLoop, bne, shLoopPc_beq_exited]

/-- **Equal observations**: a configuration with residue in front looks exactly like the one without,
    once the gauges are read relative to their values at the reopen. -/
theorem obs_emb (r : Ren) (hL : ∀ l ∈ r.oldL, l.pc = .exited) (c : Cfg) :
    obsOf r.kr r.kd (emb r c) = obsOf 0 0 c := by
  unfold obsOf
  simp only [supSt_emb, emb_api, eraseApi_shApi, shApi_beq_idle, emb_sup, Option.isSome_map, emb_shutdown,
    emb_cur, Option.isNone_map, emb_tr, shTr, liveLoops_emb r hL, emb_reconnects, emb_dials, Nat.add_sub_cancel_left,
    Nat.sub_zero]

/-! ## Reopen: the two starting points and the simulation relation -/

/-- the residue a closed configuration leaves behind -/
def renOf (c : Cfg) : Ren :=
  { oldE := c.epochs, oldL := c.loops, kg := c.gen, kr := c.reconnects, kd := c.dials }

theorem renOf_inert (c : Cfg) (h : Closed c) : (renOf c).Inert := by
  constructor
  · intro ep hep
    obtain ⟨e, he⟩ := List.getElem?_of_mem hep
    have := h.epochs e ep he
    cases hp : ep.published <;> simp_all [renOf]
  · intro l hl
    obtain ⟨i, hi⟩ := List.getElem?_of_mem hl
    exact exited_of_loopsExited c h.loops i l hi

/-- Open has passed its guard on a closed connection (fence bumped, `shutdown` cleared) -/
def reopenJoin (c : Cfg) (m : Mode) : Cfg := { c with gen := c.gen + 1, shutdown := false, api := .openJoin m }
/-- Open has passed its guard on a never-opened connection -/
def freshJoin (active : Bool) (m : Mode) : Cfg := { init active with gen := 1, api := .openJoin m }
/-- a never-opened connection whose Open has armed the first generation -/
def freshArmed (active : Bool) (m : Mode) : Cfg :=
  { active := active, api := .openStart m 0, gen := 1, cur := some 0, sup := some {}, epochs := [{ published := true }] }

theorem step_openEnter_closed (c : Cfg) (h : Closed c) (m : Mode) :
    step? c (.openEnter m) = some (reopenJoin c m) := by
  obtain ⟨s, hs, _⟩ := h.sup
  simp [step?, h.api, h.shutdown, hs, reopenJoin]

theorem step_openEnter_init (active : Bool) (m : Mode) :
    step? (init active) (.openEnter m) = some (freshJoin active m) := by
  simp [step?, init, freshJoin]

/-- on a never-opened connection between Open's guard and its arming, only the arming is enabled -/
theorem freshJoin_step (active : Bool) (m : Mode) (a : Act) :
    step? (freshJoin active m) a = if a = .openArm then some (freshArmed active m) else none := by
  cases a <;> simp [step?, freshJoin, init, loopsExited, freshArmed, phaseOf]

/-- on a closed connection between a new Open's guard and its arming, only the arming is enabled, and it
    yields the fresh armed configuration with the residue in front -/
theorem reopenJoin_step (c : Cfg) (h : Closed c) (m : Mode) (a : Act) :
    step? (reopenJoin c m) a = if a = .openArm then some (emb (renOf c) (freshArmed c.active m)) else none := by
  obtain ⟨s, hs, hpc⟩ := h.sup
  have hloops := exited_of_loopsExited c h.loops
  have hl : loopsExited (reopenJoin c m) = true := h.loops
  have hph : ∀ e, phaseOf (reopenJoin c m) e = .done ∨ phaseOf (reopenJoin c m) e = .live := phaseOf_closed c h
  have hown := h.owner
  have hav := h.avail
  cases a <;> simp only [step?, reduceCtorEq, ↓reduceIte]
  case openArm =>
    simp only [reopenJoin] at hl ⊢
    simp only [hl, ↓reduceIte, Option.some.injEq]
    apply cfg_ext <;> simp [emb, freshArmed, renOf, Ren.ke, shApi, shSup, shRunPc, shTr, hown, hav]
  case joinSeal e' => rcases hph e' with h1 | h1 <;> simp [h1]
  case joinStop e' => rcases hph e' with h1 | h1 <;> simp [h1]
  case joinDone e' => rcases hph e' with h1 | h1 <;> simp [h1]
  case loopWake i => cases hli : c.loops[i]? <;> simp [reopenJoin, hli]; rename_i l; simp [hloops i l hli]
  case loopSleep i => cases hli : c.loops[i]? <;> simp [reopenJoin, hli]; rename_i l; simp [hloops i l hli]
  case loopFence i => cases hli : c.loops[i]? <;> simp [reopenJoin, hli]; rename_i l; simp [hloops i l hli]
  case loopPublish i => cases hli : c.loops[i]? <;> simp [reopenJoin, hli]; rename_i l; simp [hloops i l hli]
  case loopStartOk i => cases hli : c.loops[i]? <;> simp [reopenJoin, hli]; rename_i l; simp [hloops i l hli]
  case loopStartFail i => cases hli : c.loops[i]? <;> simp [reopenJoin, hli]; rename_i l; simp [hloops i l hli]
  case loopFailDone i => cases hli : c.loops[i]? <;> simp [reopenJoin, hli]; rename_i l; simp [hloops i l hli]
  all_goals simp [reopenJoin, hs, hpc, hown]

/-- **The simulation relation** between a connection reopened after the closed configuration `c0` (left)
    and a connection opened for the first time (right), both with an `Open m` past its guard:
    either both are between the guard and the arming, or the left is the right with `c0`'s residue in
    front (`emb`). -/
inductive Sim (c0 : Cfg) (m : Mode) : Cfg → Cfg → Prop
  | join : Sim c0 m (reopenJoin c0 m) (freshJoin c0.active m)
  | armed (c₂ : Cfg) : Sim c0 m (emb (renOf c0) c₂) c₂

/-- every step of the reopened connection is the renaming of a step of the fresh one -/
theorem sim_forward (c0 : Cfg) (h : Closed c0) (m : Mode) (c₁ c₂ : Cfg) (hs : Sim c0 m c₁ c₂)
    (a₁ : Act) (c₁' : Cfg) (hstep : step? c₁ a₁ = some c₁') :
    ∃ a₂ c₂', a₁ = shAct (renOf c0) a₂ ∧ step? c₂ a₂ = some c₂' ∧ Sim c0 m c₁' c₂' := by
  cases hs with
  | join =>
    rw [reopenJoin_step c0 h m a₁] at hstep
    split at hstep
    · next ha =>
      cases hstep
      refine ⟨.openArm, freshArmed c0.active m, by rw [ha]; rfl, ?_, Sim.armed _⟩
      rw [freshJoin_step]; simp
    · cases hstep
  | armed c₂ =>
    cases hu : unshAct (renOf c0) a₁ with
    | none => rw [step?_emb_old _ (renOf_inert c0 h) c₂ a₁ hu] at hstep; cases hstep
    | some a₂ =>
      have ha := shAct_of_unshAct _ a₁ a₂ hu
      rw [← ha, step?_emb _ (renOf_inert c0 h).loops] at hstep
      cases h2 : step? c₂ a₂ with
      | none => rw [h2] at hstep; cases hstep
      | some c₂' =>
        rw [h2] at hstep
        simp only [Option.map_some, Option.some.injEq] at hstep
        exact ⟨a₂, c₂', ha.symm, h2, hstep ▸ Sim.armed c₂'⟩

/-- every step of the fresh connection is matched, renamed, by the reopened one -/
theorem sim_backward (c0 : Cfg) (h : Closed c0) (m : Mode) (c₁ c₂ : Cfg) (hs : Sim c0 m c₁ c₂)
    (a₂ : Act) (c₂' : Cfg) (hstep : step? c₂ a₂ = some c₂') :
    ∃ c₁', step? c₁ (shAct (renOf c0) a₂) = some c₁' ∧ Sim c0 m c₁' c₂' := by
  cases hs with
  | join =>
    rw [freshJoin_step] at hstep
    split at hstep
    · next ha =>
      cases hstep
      refine ⟨_, ?_, Sim.armed _⟩
      rw [ha, reopenJoin_step c0 h m]; rfl
    · cases hstep
  | armed c₂ =>
    refine ⟨emb (renOf c0) c₂', ?_, Sim.armed _⟩
    rw [step?_emb _ (renOf_inert c0 h).loops, hstep]; rfl

/-- related configurations look the same from outside -/
theorem sim_obs (c0 : Cfg) (h : Closed c0) (hnc : supSt c0 = .nc) (m : Mode) (c₁ c₂ : Cfg) (hs : Sim c0 m c₁ c₂) :
    obsOf c0.reconnects c0.dials c₁ = obsOf 0 0 c₂ := by
  cases hs with
  | join =>
    have hl : liveLoops c0.loops = 0 := by
      unfold liveLoops
      rw [List.countP_eq_zero]
      intro l hl
      obtain ⟨i, hi⟩ := List.getElem?_of_mem hl
      simp [exited_of_loopsExited c0 h.loops i l hi]
    have hex : ∀ a ∈ c0.loops, a.pc = LoopPc.exited := by
      intro l hl
      obtain ⟨i, hi⟩ := List.getElem?_of_mem hl
      exact exited_of_loopsExited c0 h.loops i l hi
    have hst : (Option.map (fun x => x.st) c0.sup).getD St.nc = St.nc := hnc
    simp [obsOf, reopenJoin, freshJoin, init, eraseApi, h.owner, h.avail, supSt, liveLoops]
    exact ⟨hst, hex⟩
  | armed c₂ => exact obs_emb (renOf c0) (renOf_inert c0 h).loops c₂


/-! ## Runs and observable traces -/

/-- `exec? c as = some c'`: `as` is a run from `c` (every action enabled in turn) ending in `c'`. -/
def exec? (c : Cfg) : List Act → Option Cfg
  | [] => some c
  | a :: as => match step? c a with
    | some c' => exec? c' as
    | none => none

/-- the observation after each step of a run (`none` if some action is not enabled) -/
def otrace (kr kd : Nat) (c : Cfg) : List Act → Option (List Obs)
  | [] => some []
  | a :: as => match step? c a with
    | some c' => (otrace kr kd c' as).map (obsOf kr kd c' :: ·)
    | none => none

/-- **Bisimulation, lifted to runs (fresh ⇒ reopened).** Every run of the first-time-opened connection
    is, action for action (renamed), a run of the reopened one; the end configurations are related and
    the observable traces are EQUAL. -/
theorem sim_run_backward (c0 : Cfg) (h : Closed c0) (hnc : supSt c0 = .nc) (m : Mode) (c₁ c₂ : Cfg)
    (hs : Sim c0 m c₁ c₂) (as₂ : List Act) (c₂' : Cfg) (hrun : exec? c₂ as₂ = some c₂') :
    ∃ c₁', exec? c₁ (as₂.map (shAct (renOf c0))) = some c₁' ∧ Sim c0 m c₁' c₂' ∧
      otrace c0.reconnects c0.dials c₁ (as₂.map (shAct (renOf c0))) = otrace 0 0 c₂ as₂ := by
  induction as₂ generalizing c₁ c₂ with
  | nil =>
    simp only [exec?, Option.some.injEq] at hrun
    subst hrun
    exact ⟨c₁, rfl, hs, rfl⟩
  | cons a as ih =>
    simp only [exec?] at hrun
    cases h2 : step? c₂ a with
    | none => rw [h2] at hrun; cases hrun
    | some c₂1 =>
      rw [h2] at hrun
      obtain ⟨c₁1, hs1, hsim1⟩ := sim_backward c0 h m c₁ c₂ hs a c₂1 h2
      obtain ⟨c₁', hr, hsim', htr⟩ := ih c₁1 c₂1 hsim1 hrun
      refine ⟨c₁', ?_, hsim', ?_⟩
      · simp only [List.map_cons, exec?, hs1]; exact hr
      · simp only [List.map_cons, otrace, hs1, h2, htr, sim_obs c0 h hnc m c₁1 c₂1 hsim1]

/-- **Bisimulation, lifted to runs (reopened ⇒ fresh).** Every run of the reopened connection is the
    renaming of a run of a first-time-opened one, with related end configurations and EQUAL observable
    traces. -/
theorem sim_run_forward (c0 : Cfg) (h : Closed c0) (hnc : supSt c0 = .nc) (m : Mode) (c₁ c₂ : Cfg)
    (hs : Sim c0 m c₁ c₂) (as₁ : List Act) (c₁' : Cfg) (hrun : exec? c₁ as₁ = some c₁') :
    ∃ as₂ c₂', as₁ = as₂.map (shAct (renOf c0)) ∧ exec? c₂ as₂ = some c₂' ∧ Sim c0 m c₁' c₂' ∧
      otrace c0.reconnects c0.dials c₁ as₁ = otrace 0 0 c₂ as₂ := by
  induction as₁ generalizing c₁ c₂ with
  | nil =>
    simp only [exec?, Option.some.injEq] at hrun
    subst hrun
    exact ⟨[], c₂, rfl, rfl, hs, rfl⟩
  | cons a as ih =>
    simp only [exec?] at hrun
    cases h1 : step? c₁ a with
    | none => rw [h1] at hrun; cases hrun
    | some c₁1 =>
      rw [h1] at hrun
      obtain ⟨a₂, c₂1, ha, hs2, hsim1⟩ := sim_forward c0 h m c₁ c₂ hs a c₁1 h1
      obtain ⟨as₂, c₂', has, hr, hsim', htr⟩ := ih c₁1 c₂1 hsim1 hrun
      refine ⟨a₂ :: as₂, c₂', ?_, ?_, hsim', ?_⟩
      · simp only [List.map_cons, ha, has]
      · simp only [exec?, hs2]; exact hr
      · simp only [otrace, h1, hs2, htr, sim_obs c0 h hnc m c₁1 c₂1 hsim1]


end GoSecs.Lifecycle
