/-
  Invariants of the supervisor interleaving model (used by Props/C05).
-/
import GoSecs.Model.Supervisor

namespace GoSecs.Sup

@[simp] theorem emit_st (c : Cfg) (sc) : (emit c sc).st = c.st := by unfold emit; split <;> rfl
@[simp] theorem emit_pc (c : Cfg) (sc) : (emit c sc).pc = c.pc := by unfold emit; split <;> rfl
@[simp] theorem emit_queue (c : Cfg) (sc) : (emit c sc).queue = c.queue := by unfold emit; split <;> rfl
@[simp] theorem emit_closed (c : Cfg) (sc) : (emit c sc).closed = c.closed := by unfold emit; split <;> rfl
@[simp] theorem emit_pendStart (c : Cfg) (sc) : (emit c sc).pendStart = c.pendStart := by unfold emit; split <;> rfl
@[simp] theorem emit_pendRecv (c : Cfg) (sc) : (emit c sc).pendRecv = c.pendRecv := by unfold emit; split <;> rfl
@[simp] theorem emit_lastReacted (c : Cfg) (sc) : (emit c sc).lastReacted = c.lastReacted := by unfold emit; split <;> rfl
@[simp] theorem emit_emitted (c : Cfg) (sc) : (emit c sc).emitted = c.emitted ++ [sc] := by unfold emit; split <;> rfl
@[simp] theorem emit_delivered (c : Cfg) (sc) : (emit c sc).delivered = c.delivered := by unfold emit; split <;> rfl
@[simp] theorem emit_reactions (c : Cfg) (sc) : (emit c sc).reactions = c.reactions := by unfold emit; split <;> rfl

@[simp] theorem emit_gen (c : Cfg) (sc) : (emit c sc).gen = c.gen := by unfold emit; split <;> rfl
@[simp] theorem emit_dwell (c : Cfg) (sc) : (emit c sc).dwell = c.dwell := by unfold emit; split <;> rfl
@[simp] theorem emit_stopped (c : Cfg) (sc) : (emit c sc).stopped = c.stopped := by unfold emit; split <;> rfl
@[simp] theorem fire_gen (c : Cfg) (n) : (fire c n).gen = c.gen := by simp [fire]
@[simp] theorem fire_dwell (c : Cfg) (n) : (fire c n).dwell = c.dwell := by simp [fire]
@[simp] theorem fire_stopped (c : Cfg) (n) : (fire c n).stopped = c.stopped := by simp [fire]
@[simp] theorem reactTo_gen (c : Cfg) (n) : (reactTo c n).gen = c.gen := by unfold reactTo; split <;> simp
@[simp] theorem reactTo_dwell (c : Cfg) (n) : (reactTo c n).dwell = c.dwell := by unfold reactTo; split <;> simp
@[simp] theorem reactTo_stopped (c : Cfg) (n) : (reactTo c n).stopped = c.stopped := by unfold reactTo; split <;> simp
@[simp] theorem latch_gen (c : Cfg) (e) : (latch c e).gen = c.gen := by unfold latch; split <;> rfl
@[simp] theorem latch_dwell (c : Cfg) (e) : (latch c e).dwell = c.dwell := by unfold latch; split <;> rfl
@[simp] theorem latch_stopped (c : Cfg) (e) : (latch c e).stopped = c.stopped := by unfold latch; split <;> rfl

@[simp] theorem fire_st (c : Cfg) (n) : (fire c n).st = c.st := by simp [fire]
@[simp] theorem fire_pc (c : Cfg) (n) : (fire c n).pc = c.pc := by simp [fire]
@[simp] theorem fire_queue (c : Cfg) (n) : (fire c n).queue = c.queue := by simp [fire]
@[simp] theorem fire_closed (c : Cfg) (n) : (fire c n).closed = c.closed := by simp [fire]
@[simp] theorem fire_pendStart (c : Cfg) (n) : (fire c n).pendStart = c.pendStart := by simp [fire]
@[simp] theorem fire_pendRecv (c : Cfg) (n) : (fire c n).pendRecv = c.pendRecv := by simp [fire]
@[simp] theorem fire_lastReacted (c : Cfg) (n) : (fire c n).lastReacted = n := by simp [fire]
@[simp] theorem fire_emitted (c : Cfg) (n) : (fire c n).emitted = c.emitted ++ [(c.lastReacted, n)] := by simp [fire]
@[simp] theorem fire_delivered (c : Cfg) (n) : (fire c n).delivered = c.delivered := by simp [fire]
@[simp] theorem fire_reactions (c : Cfg) (n) : (fire c n).reactions = c.reactions ++ [(c.lastReacted, n)] := by simp [fire]

@[simp] theorem reactTo_st (c : Cfg) (n) : (reactTo c n).st = c.st := by unfold reactTo; split <;> simp
@[simp] theorem reactTo_pc (c : Cfg) (n) : (reactTo c n).pc = c.pc := by unfold reactTo; split <;> simp
@[simp] theorem reactTo_queue (c : Cfg) (n) : (reactTo c n).queue = c.queue := by unfold reactTo; split <;> simp
@[simp] theorem reactTo_closed (c : Cfg) (n) : (reactTo c n).closed = c.closed := by unfold reactTo; split <;> simp
@[simp] theorem reactTo_pendStart (c : Cfg) (n) : (reactTo c n).pendStart = c.pendStart := by unfold reactTo; split <;> simp
@[simp] theorem reactTo_pendRecv (c : Cfg) (n) : (reactTo c n).pendRecv = c.pendRecv := by unfold reactTo; split <;> simp
@[simp] theorem reactTo_lastReacted (c : Cfg) (n) : (reactTo c n).lastReacted = n := by
  unfold reactTo; split <;> simp_all
@[simp] theorem reactTo_delivered (c : Cfg) (n) : (reactTo c n).delivered = c.delivered := by unfold reactTo; split <;> simp

@[simp] theorem latch_st (c : Cfg) (e) : (latch c e).st = c.st := by unfold latch; split <;> rfl
@[simp] theorem latch_pc (c : Cfg) (e) : (latch c e).pc = c.pc := by unfold latch; split <;> rfl
@[simp] theorem latch_queue (c : Cfg) (e) : (latch c e).queue = c.queue := by unfold latch; split <;> rfl
@[simp] theorem latch_pendStart (c : Cfg) (e) : (latch c e).pendStart = c.pendStart := by unfold latch; split <;> rfl
@[simp] theorem latch_pendRecv (c : Cfg) (e) : (latch c e).pendRecv = c.pendRecv := by unfold latch; split <;> rfl
@[simp] theorem latch_lastReacted (c : Cfg) (e) : (latch c e).lastReacted = c.lastReacted := by unfold latch; split <;> rfl
@[simp] theorem latch_emitted (c : Cfg) (e) : (latch c e).emitted = c.emitted := by unfold latch; split <;> rfl
@[simp] theorem latch_delivered (c : Cfg) (e) : (latch c e).delivered = c.delivered := by unfold latch; split <;> rfl
@[simp] theorem latch_notify (c : Cfg) (e) : (latch c e).notify = c.notify := by unfold latch; split <;> rfl
@[simp] theorem latch_dropped (c : Cfg) (e) : (latch c e).dropped = c.dropped := by unfold latch; split <;> rfl
@[simp] theorem latch_reactions (c : Cfg) (e) : (latch c e).reactions = c.reactions := by unfold latch; split <;> rfl
theorem latch_closed (c : Cfg) (e) : (latch c e).closed = (c.closed || decide (e = .close)) := by
  unfold latch; split <;> simp_all

/-- The load/store window invariant. -/
def WinInv (c : Cfg) : Prop :=
  match c.pc with
  | .idle => True
  | .loaded _ cur => CommitReach cur c.st

theorem winInv_init : WinInv init := trivial

/-- `st` after the commit half of step. -/
theorem commit_st (c : Cfg) (ev : Ev) (cur : St) :
    (commit c ev cur).st = if outcome ev cur c.st (deselPending c) = .store then (transition cur ev).1 else c.st := by
  unfold commit
  cases h : outcome ev cur c.st (deselPending c) <;> simp

theorem commit_pc (c : Cfg) (ev : Ev) (cur : St) : (commit c ev cur).pc = .idle := by
  unfold commit
  cases h : outcome ev cur c.st (deselPending c) <;> simp

theorem winInv_step (c : Cfg) (a : Act) (h : WinInv c) : WinInv (step c a) := by
  unfold step; split
  · exact h
  rename_i hstop; clear hstop
  cases a with
  | casConnected =>
    simp only [stepLive]; split
    · rename_i hc; unfold WinInv at *; cases hp : c.pc <;> simp_all
      rename_i ev cur; cases cur <;> simp_all [CommitReach]
    · exact h
  | casSelected =>
    simp only [stepLive]; split
    · rename_i hc; unfold WinInv at *; cases hp : c.pc <;> simp_all
      rename_i ev cur; cases cur <;> simp_all [CommitReach]
    · exact h
  | casSelectLost =>
    simp only [stepLive]; split
    · rename_i hc; unfold WinInv at *; cases hp : c.pc <;> simp_all
      rename_i ev cur; cases cur <;> simp_all [CommitReach]
    · exact h
  | injStart => simp only [stepLive]; split <;> (unfold WinInv at *; simpa using h)
  | injRecv => simp only [stepLive]; split <;> (unfold WinInv at *; simpa using h)
  | inject k => simp only [stepLive]; unfold WinInv at *; simpa using h
  | runLoad =>
    simp only [stepLive]
    split
    · split
      · unfold WinInv at *; simp_all
      · split
        · unfold WinInv at *; simp_all
        · unfold WinInv; simp; cases c.st <;> simp [CommitReach]
    · exact h
  | runCommit =>
    simp only [stepLive]
    split
    · exact h
    · split
      · unfold WinInv; trivial
      · unfold WinInv; rw [commit_pc]; trivial
  | deliver => simp only [stepLive]; split <;> (unfold WinInv at *; simpa using h)
  | closeReturn => simp only [stepLive]; split <;> (unfold WinInv at *; simp_all)

theorem winInv_run (as : List Act) : WinInv (run init as) := by
  suffices ∀ c, WinInv c → WinInv (run c as) from this init winInv_init
  induction as with
  | nil => intro c h; exact h
  | cons a as ih => intro c h; exact ih _ (winInv_step c a h)

end GoSecs.Sup

namespace GoSecs.Sup

/-- Finite core of `legal_edges`: for a loaded `(ev, cur)` and any `st` the commits can have produced
    since the load, the store either leaves `st` or moves it along an E37 edge. -/
theorem store_edge (ev : Ev) (cur st : St) (d : Bool) (h : CommitReach cur st) :
    (if outcome ev cur st d = .store then (transition cur ev).1 else st) = st ∨
    Edge st (if outcome ev cur st d = .store then (transition cur ev).1 else st) := by
  cases ev <;> cases cur <;> cases st <;> cases d <;> simp_all [outcome, transition, Edge, CommitReach]

theorem legal_edges_step (c : Cfg) (a : Act) (h : WinInv c) :
    (step c a).st = c.st ∨ Edge c.st (step c a).st := by
  unfold step; split
  · exact Or.inl rfl
  rename_i hstop; clear hstop
  cases a with
  | closeReturn => simp only [stepLive]; split <;> (cases hs : c.st <;> simp_all [Edge])
  | casConnected => simp only [stepLive]; split <;> simp_all [Edge]
  | casSelected => simp only [stepLive]; split <;> simp_all [Edge]
  | casSelectLost => simp only [stepLive]; split <;> simp_all [Edge]
  | injStart => simp only [stepLive]; split <;> simp
  | injRecv => simp only [stepLive]; split <;> simp
  | inject k => simp only [stepLive]; simp
  | runLoad => simp only [stepLive]; (repeat' split) <;> simp
  | deliver => simp only [stepLive]; split <;> simp
  | runCommit =>
    simp only [stepLive]
    split
    · simp
    · rename_i ev cur hp
      split
      · simp
      · rw [commit_st]
        unfold WinInv at h; rw [hp] at h
        exact store_edge ev cur c.st _ h

/-- T7 can never take the session out of Selected: whatever value the run goroutine loaded, if the
    atomic reads Selected at the store, the T7 store does not happen. -/
theorem t7_commit_keeps_selected (c : Cfg) (d : Nat) (cur : St) (h : c.st = .S) :
    (commit c (.t7 d) cur).st = .S := by
  rw [commit_st]
  cases cur <;> cases deselPending c <;> simp [outcome, transition, h]

/-- A stale select-lost (state observed Selected at the load) is dropped without touching anything
    but the queue. -/
theorem selLost_abandoned (c : Cfg) (q : List Ev) (hst : c.stopped = false) (hpc : c.pc = .idle)
    (hq : c.queue = .selLost :: q) (hs : c.st = .S) : step c .runLoad = { c with queue := q } := by
  simp only [step, hst, Bool.false_eq_true, if_false, stepLive, hpc, hq]
  split <;> simp_all

/-- After the close event has been processed, the run goroutine never changes `st` again. -/
theorem closed_latch_load (c : Cfg) (h : c.closed = true) :
    (step c .runLoad).st = c.st ∧ (step c .runLoad).pc = c.pc ∧ (step c .runLoad).closed = true := by
  unfold step; split
  · exact ⟨rfl, rfl, h⟩
  rename_i hstop; clear hstop
  simp only [stepLive]
  split
  · rename_i hpc hq; simp [h, hpc]
  · exact ⟨rfl, rfl, h⟩

end GoSecs.Sup

namespace GoSecs.Sup

theorem commit_queue (c : Cfg) (ev : Ev) (cur : St) : (commit c ev cur).queue = c.queue := by
  unfold commit; cases h : outcome ev cur c.st (deselPending c) <;> simp
theorem commit_pendStart (c : Cfg) (ev : Ev) (cur : St) : (commit c ev cur).pendStart = c.pendStart := by
  unfold commit; cases h : outcome ev cur c.st (deselPending c) <;> simp
theorem commit_pendRecv (c : Cfg) (ev : Ev) (cur : St) : (commit c ev cur).pendRecv = c.pendRecv := by
  unfold commit; cases h : outcome ev cur c.st (deselPending c) <;> simp
theorem commit_lastReacted (c : Cfg) (ev : Ev) (cur : St) :
    (commit c ev cur).lastReacted =
      match outcome ev cur c.st (deselPending c) with
      | .noop => c.lastReacted | .abandon => c.lastReacted
      | .react => (transition cur ev).1 | .store => (transition cur ev).1 := by
  unfold commit; cases h : outcome ev cur c.st (deselPending c) <;> simp
theorem commit_closed (c : Cfg) (ev : Ev) (cur : St) :
    (commit c ev cur).closed = (c.closed || (decide (ev = .close) && decide (outcome ev cur c.st (deselPending c) ≠ .abandon))) := by
  unfold commit; cases h : outcome ev cur c.st (deselPending c) <;> simp [latch_closed]

/-- Once closed, the run goroutine is parked at idle forever. -/
def ClosedInv (c : Cfg) : Prop := c.closed = true → c.pc = .idle

theorem closedInv_step (c : Cfg) (a : Act) (h : ClosedInv c) : ClosedInv (step c a) := by
  unfold step; split
  · exact h
  rename_i hstop; clear hstop
  unfold ClosedInv at *
  cases a with
  | casConnected => simp only [stepLive]; split <;> simp_all
  | casSelected => simp only [stepLive]; split <;> simp_all
  | casSelectLost => simp only [stepLive]; split <;> simp_all
  | injStart => simp only [stepLive]; split <;> simp_all
  | injRecv => simp only [stepLive]; split <;> simp_all
  | inject k => simp only [stepLive]; simp_all
  | deliver => simp only [stepLive]; split <;> simp_all
  | closeReturn => simp only [stepLive]; split <;> simp_all
  | runLoad =>
    simp only [stepLive]
    split
    · rename_i hpc hq
      split
      · simp_all
      · split <;> simp_all
    · exact h
  | runCommit =>
    simp only [stepLive]
    split
    · exact h
    · split
      · intro _; rfl
      · intro _; exact commit_pc _ _ _

theorem closedInv_run (as : List Act) : ClosedInv (run init as) := by
  suffices ∀ c, ClosedInv c → ClosedInv (run c as) from this init (by intro h; cases h)
  induction as with
  | nil => intro c h; exact h
  | cons a as ih => intro c h; exact ih _ (closedInv_step c a h)

/-- An event is in flight: queued, or parked between a commit's CAS and its inject. -/
def InFlight (c : Cfg) (e : Ev) : Prop := e ∈ c.queue ∨ c.pendStart = some e ∨ c.pendRecv = some e

/-- Some in-flight commit event announces exactly the current value of the atomic. -/
def Covered (c : Cfg) : Prop := ∃ e, InFlight c e ∧ tgt e = some c.st

/-- `st` and `lastReacted` agree, or the discrepancy is covered by an in-flight commit event. -/
def AgreeInv (c : Cfg) : Prop :=
  c.closed = false →
    match c.pc with
    | .idle => c.st = c.lastReacted ∨ Covered c
    | .loaded ev cur => (c.st = cur ∧ (c.st = c.lastReacted ∨ tgt ev = some c.st)) ∨ Covered c

theorem tgt_legal (ev : Ev) (s : St) (h : tgt ev = some s) : transition s ev = (s, true) := by
  cases ev <;> cases s <;> simp_all [tgt, transition]

theorem agreeInv_init : AgreeInv init := by intro _; exact Or.inl rfl

theorem covered_of_eq (c c' : Cfg) (hs : c'.st = c.st) (hq : ∀ e, InFlight c e → InFlight c' e)
    (h : Covered c) : Covered c' := by
  obtain ⟨e, he, ht⟩ := h
  exact ⟨e, hq e he, by rw [hs]; exact ht⟩

/-- A stale event announces no state (only disconnect / T7 events can be stale). -/
theorem stale_tgt (c : Cfg) (ev : Ev) (h : stale c ev = true) : tgt ev = none := by
  cases ev <;> simp_all [stale, tgt]

theorem agreeInv_commit (c : Cfg) (ev : Ev) (cur : St) (hp : c.pc = .loaded ev cur) (h : AgreeInv c) :
    AgreeInv (commit c ev cur) := by
  intro hc
  rw [commit_closed] at hc
  have hc0 : c.closed = false := by
    cases hcc : c.closed <;> simp_all
  have h' := h hc0
  simp only [hp] at h'
  rw [commit_pc]
  show (commit c ev cur).st = (commit c ev cur).lastReacted ∨ Covered (commit c ev cur)
  have hcovmono : Covered c → (commit c ev cur).st = c.st → Covered (commit c ev cur) := by
    intro hcov hst
    refine covered_of_eq c _ hst ?_ hcov
    intro x hx
    unfold InFlight at *
    rw [commit_queue, commit_pendStart, commit_pendRecv]; exact hx
  rw [commit_st, commit_lastReacted]
  cases ho : outcome ev cur c.st (deselPending c)
  · -- noop
    simp only [reduceCtorEq, if_false]
    rcases h' with ⟨hcur, hl | ht⟩ | hcov
    · exact Or.inl hl
    · have := tgt_legal ev c.st ht
      rw [← hcur] at ho
      simp [outcome, this] at ho
    · exact Or.inr (hcovmono hcov (by rw [commit_st, ho]; simp))
  · -- react
    simp only [reduceCtorEq, if_false]
    have hnext : (transition cur ev).1 = cur ∨
        (ev = .selAcc ∧ cur = .NS ∧ deselPending c = true) := by
      unfold outcome at ho
      (repeat' split at ho) <;> first
        | (left; simp_all; done)
        | (right; rename_i h1 h2 h3 h4; obtain ⟨rfl, hd⟩ := h4
           refine ⟨rfl, ?_, hd⟩
           cases cur <;> simp_all [transition])
        | simp_all
    rcases hnext with hnext | ⟨rfl, rfl, hd⟩
    · rcases h' with ⟨hcur, _⟩ | hcov
      · exact Or.inl (by rw [hnext, hcur])
      · exact Or.inr (hcovmono hcov (by rw [commit_st, ho]; simp))
    · -- superseded Select: state left as the Deselect commit published it; its event covers it
      have hst : (commit c .selAcc .NS).st = c.st := by rw [commit_st, ho]; simp
      have hcov : c.st = .NS → Covered c := by
        intro hs
        refine ⟨.selLost, ?_, by rw [hs]; rfl⟩
        unfold deselPending at hd
        simp only [Bool.or_eq_true, decide_eq_true_eq, beq_iff_eq] at hd
        rcases hd with hd | hd
        · exact Or.inl hd
        · exact Or.inr (Or.inr hd)
      rcases h' with ⟨hcur, _⟩ | hc
      · exact Or.inr (hcovmono (hcov hcur) hst)
      · exact Or.inr (hcovmono hc hst)
  · -- abandon
    simp only [reduceCtorEq, if_false]
    have hne : c.st ≠ cur := by
      unfold outcome at ho
      (repeat' split at ho) <;> simp_all
    rcases h' with ⟨hcur, _⟩ | hcov
    · exact absurd hcur hne
    · exact Or.inr (hcovmono hcov (by rw [commit_st, ho]; simp))
  · -- store
    simp

theorem agreeInv_step (c : Cfg) (a : Act) (h : AgreeInv c) : AgreeInv (step c a) := by
  unfold step; split
  · exact h
  rename_i hstop; clear hstop
  cases a with
  | casConnected =>
    simp only [stepLive]; split
    · intro hc
      have hcov : Covered { c with st := .NS, pendStart := some .tcpUp } :=
        ⟨.tcpUp, Or.inr (Or.inl rfl), rfl⟩
      cases hp : c.pc <;> simp only [hp] <;> exact Or.inr hcov
    · exact h
  | casSelected =>
    simp only [stepLive]; split
    · intro hc
      have hcov : Covered { c with st := .S, pendRecv := some .selAcc } :=
        ⟨.selAcc, Or.inr (Or.inr rfl), rfl⟩
      cases hp : c.pc <;> simp only [hp] <;> exact Or.inr hcov
    · exact h
  | casSelectLost =>
    simp only [stepLive]; split
    · intro hc
      have hcov : Covered { c with st := .NS, pendRecv := some .selLost } :=
        ⟨.selLost, Or.inr (Or.inr rfl), rfl⟩
      cases hp : c.pc <;> simp only [hp] <;> exact Or.inr hcov
    · exact h
  | injStart =>
    simp only [stepLive]
    split
    · rename_i e he
      intro hc
      have h' := h hc
      have mono : ∀ x, InFlight c x → InFlight { c with pendStart := none, queue := c.queue ++ [e] } x := by
        intro x hx
        rcases hx with hx | hx | hx
        · exact Or.inl (by simp [hx])
        · rw [he] at hx; cases hx; exact Or.inl (by simp)
        · exact Or.inr (Or.inr hx)
      cases hp : c.pc <;> simp only [hp] at h' ⊢
      · exact h'.imp id (covered_of_eq c _ rfl mono)
      · exact h'.imp id (covered_of_eq c _ rfl mono)
    · exact h
  | injRecv =>
    simp only [stepLive]
    split
    · rename_i e he
      intro hc
      have h' := h hc
      have mono : ∀ x, InFlight c x → InFlight { c with pendRecv := none, queue := c.queue ++ [e] } x := by
        intro x hx
        rcases hx with hx | hx | hx
        · exact Or.inl (by simp [hx])
        · exact Or.inr (Or.inl hx)
        · rw [he] at hx; cases hx; exact Or.inl (by simp)
      cases hp : c.pc <;> simp only [hp] at h' ⊢
      · exact h'.imp id (covered_of_eq c _ rfl mono)
      · exact h'.imp id (covered_of_eq c _ rfl mono)
    · exact h
  | inject k =>
    simp only [stepLive]
    intro hc
    have h' := h hc
    have mono : ∀ x, InFlight c x → InFlight { c with queue := c.queue ++ [k.toEv c] } x := by
      intro x hx
      rcases hx with hx | hx | hx
      · exact Or.inl (by simp [hx])
      · exact Or.inr (Or.inl hx)
      · exact Or.inr (Or.inr hx)
    cases hp : c.pc <;> simp only [hp] at h' ⊢
    · exact h'.imp id (covered_of_eq c _ rfl mono)
    · exact h'.imp id (covered_of_eq c _ rfl mono)
  | closeReturn =>
    simp only [stepLive]
    split
    · rename_i hcr; intro hc; simp [hcr.1] at hc
    · exact h
  | deliver =>
    simp only [stepLive]
    split
    · exact h
    · intro hc
      have h' := h hc
      have mono : ∀ x, InFlight c x → InFlight { c with notify := ‹_›, delivered := c.delivered ++ [‹_›] } x :=
        fun x hx => hx
      cases hp : c.pc <;> simp only [hp] at h' ⊢
      · exact h'.imp id (covered_of_eq c _ rfl mono)
      · exact h'.imp id (covered_of_eq c _ rfl mono)
  | runLoad =>
    simp only [stepLive]
    split
    · rename_i e q hpc hq
      split
      · rename_i hcl; intro hc; simp [hcl] at hc
      · rename_i hcl
        have h' := h (by simpa using hcl)
        simp only [hpc] at h'
        split
        · -- stale select-lost abandoned
          rename_i hab
          intro _
          simp only [hpc]
          refine h'.imp id ?_
          rintro ⟨x, hx, ht⟩
          refine ⟨x, ?_, ht⟩
          rcases hx with hx | hx | hx
          · rw [hq] at hx
            rcases List.mem_cons.1 hx with rfl | hx
            · rw [hab.1, hab.2] at ht; simp [tgt] at ht
            · exact Or.inl hx
          · exact Or.inr (Or.inl hx)
          · exact Or.inr (Or.inr hx)
        · intro _
          show (c.st = c.st ∧ (c.st = c.lastReacted ∨ tgt e = some c.st)) ∨ Covered _
          rcases h' with h' | ⟨x, hx, ht⟩
          · exact Or.inl ⟨rfl, Or.inl h'⟩
          · rcases hx with hx | hx | hx
            · rw [hq] at hx
              rcases List.mem_cons.1 hx with rfl | hx
              · exact Or.inl ⟨rfl, Or.inr ht⟩
              · exact Or.inr ⟨x, Or.inl hx, ht⟩
            · exact Or.inr ⟨x, Or.inr (Or.inl hx), ht⟩
            · exact Or.inr ⟨x, Or.inr (Or.inr hx), ht⟩
    · exact h
  | runCommit =>
    simp only [stepLive]
    split
    · exact h
    · rename_i ev cur hp
      split
      · rename_i hstale
        intro hc
        have h' := h hc
        simp only [hp] at h'
        show c.st = c.lastReacted ∨ Covered { c with pc := .idle }
        rcases h' with ⟨_, hl | ht⟩ | hcov
        · exact Or.inl hl
        · rw [stale_tgt c ev hstale] at ht; cases ht
        · exact Or.inr (covered_of_eq c _ rfl (fun x hx => hx) hcov)
      · exact agreeInv_commit c ev cur hp h

theorem agreeInv_run (as : List Act) : AgreeInv (run init as) := by
  suffices ∀ c, AgreeInv c → AgreeInv (run c as) from this init agreeInv_init
  induction as with
  | nil => intro c h; exact h
  | cons a as ih => intro c h; exact ih _ (agreeInv_step c a h)

end GoSecs.Sup

namespace GoSecs.Sup

/-! ### Notification chain -/

/-- `l` is a chain of proper transitions starting from `s`. -/
def IsChain : St → List (St × St) → Prop
  | _, [] => True
  | s, (p, n) :: rest => p = s ∧ p ≠ n ∧ IsChain n rest

def endOf : St → List (St × St) → St
  | s, [] => s
  | _, (_, n) :: rest => endOf n rest

theorem isChain_append_single (s : St) (l : List (St × St)) (p n : St) :
    IsChain s (l ++ [(p, n)]) ↔ IsChain s l ∧ p = endOf s l ∧ p ≠ n := by
  induction l generalizing s with
  | nil => simp [IsChain, endOf]
  | cons x l ih =>
    obtain ⟨a, b⟩ := x
    simp only [List.cons_append, IsChain, endOf, ih]
    constructor
    · rintro ⟨h1, h2, h3, h4, h5⟩; exact ⟨⟨h1, h2, h3⟩, h4, h5⟩
    · rintro ⟨⟨h1, h2, h3⟩, h4, h5⟩; exact ⟨h1, h2, h3, h4, h5⟩

theorem endOf_append_single (s : St) (l : List (St × St)) (p n : St) : endOf s (l ++ [(p, n)]) = n := by
  induction l generalizing s with
  | nil => rfl
  | cons x l ih => obtain ⟨a, b⟩ := x; simp only [List.cons_append, endOf, ih]

def ChainInv (c : Cfg) : Prop := IsChain .NC c.emitted ∧ endOf .NC c.emitted = c.lastReacted

theorem reactTo_emitted (c : Cfg) (n : St) :
    (reactTo c n).emitted = if n = c.lastReacted then c.emitted else c.emitted ++ [(c.lastReacted, n)] := by
  unfold reactTo; split <;> simp

theorem chainInv_reactTo (c : Cfg) (n : St) (h : ChainInv c) : ChainInv (reactTo c n) := by
  unfold ChainInv at *
  rw [reactTo_emitted, reactTo_lastReacted]
  split
  · rename_i hn; subst hn; exact h
  · rename_i hn
    refine ⟨(isChain_append_single _ _ _ _).2 ⟨h.1, h.2.symm, fun e => hn e.symm⟩, endOf_append_single _ _ _ _⟩

theorem chainInv_step (c : Cfg) (a : Act) (h : ChainInv c) : ChainInv (step c a) := by
  unfold step; split
  · exact h
  rename_i hstop; clear hstop
  cases a with
  | casConnected => simp only [stepLive]; split <;> exact h
  | casSelected => simp only [stepLive]; split <;> exact h
  | casSelectLost => simp only [stepLive]; split <;> exact h
  | injStart => simp only [stepLive]; split <;> exact h
  | injRecv => simp only [stepLive]; split <;> exact h
  | inject k => simp only [stepLive]; exact h
  | deliver => simp only [stepLive]; split <;> exact h
  | closeReturn => simp only [stepLive]; split <;> exact h
  | runLoad => simp only [stepLive]; (repeat' split) <;> exact h
  | runCommit =>
    simp only [stepLive]
    split
    · exact h
    · rename_i ev cur hp
      split
      · exact h
      · unfold commit
        have hl : ∀ x : Cfg, ChainInv x → ChainInv (latch x ev) := by
          intro x hx; unfold ChainInv at *; simpa using hx
        cases ho : outcome ev cur c.st (deselPending c)
        · exact hl _ h
        · exact hl _ (chainInv_reactTo _ _ h)
        · exact h
        · exact hl _ (chainInv_reactTo _ _ h)

theorem chainInv_run (as : List Act) : ChainInv (run init as) := by
  suffices ∀ c, ChainInv c → ChainInv (run c as) from this init ⟨trivial, rfl⟩
  induction as with
  | nil => intro c h; exact h
  | cons a as ih => intro c h; exact ih _ (chainInv_step c a h)

/-! ### Delivery: what handlers see is what was emitted minus counted drops -/

def BufInv (c : Cfg) : Prop :=
  (c.delivered ++ c.notify).Sublist c.emitted ∧
  c.emitted.length = c.delivered.length + c.notify.length + c.dropped ∧
  c.notify.length ≤ notifyCap ∧
  (c.delivered ++ c.notify).getLast? = c.emitted.getLast?

theorem bufInv_emit (c : Cfg) (sc : St × St) (h : BufInv c) : BufInv (emit c sc) := by
  obtain ⟨h1, h2, h3, _⟩ := h
  unfold emit
  split
  · rename_i hlt
    refine ⟨?_, ?_, ?_, ?_⟩
    · show (c.delivered ++ (c.notify ++ [sc])).Sublist (c.emitted ++ [sc])
      rw [← List.append_assoc]; exact h1.append (List.Sublist.refl _)
    · simp; omega
    · simp; omega
    · show (c.delivered ++ (c.notify ++ [sc])).getLast? = (c.emitted ++ [sc]).getLast?
      rw [← List.append_assoc]; simp
  · rename_i hge
    refine ⟨?_, ?_, ?_, ?_⟩
    · show (c.delivered ++ (c.notify.drop 1 ++ [sc])).Sublist (c.emitted ++ [sc])
      rw [← List.append_assoc]
      refine List.Sublist.append ?_ (List.Sublist.refl _)
      exact ((List.Sublist.refl _).append (List.drop_sublist 1 c.notify)).trans h1
    · simp [notifyCap] at *; omega
    · simp [notifyCap] at *; omega
    · show (c.delivered ++ (c.notify.drop 1 ++ [sc])).getLast? = (c.emitted ++ [sc]).getLast?
      rw [← List.append_assoc]; simp

theorem bufInv_congr (c c' : Cfg) (h : BufInv c) (h1 : c'.delivered = c.delivered) (h2 : c'.notify = c.notify)
    (h3 : c'.emitted = c.emitted) (h4 : c'.dropped = c.dropped) : BufInv c' := by
  unfold BufInv at *; rw [h1, h2, h3, h4]; exact h

theorem bufInv_reactTo (c : Cfg) (n : St) (h : BufInv c) : BufInv (reactTo c n) := by
  unfold reactTo
  split
  · exact h
  · unfold fire
    exact bufInv_congr (emit c (c.lastReacted, n)) _ (bufInv_emit c _ h) rfl rfl rfl rfl

theorem bufInv_step (c : Cfg) (a : Act) (h : BufInv c) : BufInv (step c a) := by
  unfold step; split
  · exact h
  rename_i hstop; clear hstop
  cases a with
  | casConnected => simp only [stepLive]; split <;> first | exact h | exact bufInv_congr c _ h rfl rfl rfl rfl
  | casSelected => simp only [stepLive]; split <;> first | exact h | exact bufInv_congr c _ h rfl rfl rfl rfl
  | casSelectLost => simp only [stepLive]; split <;> first | exact h | exact bufInv_congr c _ h rfl rfl rfl rfl
  | injStart => simp only [stepLive]; split <;> first | exact h | exact bufInv_congr c _ h rfl rfl rfl rfl
  | injRecv => simp only [stepLive]; split <;> first | exact h | exact bufInv_congr c _ h rfl rfl rfl rfl
  | inject k => simp only [stepLive]; exact bufInv_congr c _ h rfl rfl rfl rfl
  | closeReturn => simp only [stepLive]; split <;> first | exact h | exact bufInv_congr c _ h rfl rfl rfl rfl
  | runLoad => simp only [stepLive]; (repeat' split) <;> first | exact h | exact bufInv_congr c _ h rfl rfl rfl rfl
  | deliver =>
    simp only [stepLive]
    split
    · exact h
    · rename_i sc rest hn
      obtain ⟨h1, h2, h3, h4⟩ := h
      rw [hn] at h1 h2 h3 h4
      refine ⟨?_, ?_, ?_, ?_⟩
      · show ((c.delivered ++ [sc]) ++ rest).Sublist c.emitted
        simpa using h1
      · simp at *; omega
      · simp at *; omega
      · show ((c.delivered ++ [sc]) ++ rest).getLast? = c.emitted.getLast?
        simpa using h4
  | runCommit =>
    simp only [stepLive]
    split
    · exact h
    · rename_i ev cur hp
      split
      · exact bufInv_congr c _ h rfl rfl rfl rfl
      · unfold commit
        have hl : ∀ x : Cfg, BufInv x → BufInv (latch x ev) := by
          intro x hx; exact bufInv_congr x _ hx (by simp) (by simp) (by simp) (by simp)
        cases ho : outcome ev cur c.st (deselPending c)
        · exact hl _ (bufInv_congr c _ h rfl rfl rfl rfl)
        · exact hl _ (bufInv_reactTo _ _ (bufInv_congr c _ h rfl rfl rfl rfl))
        · exact bufInv_congr c _ h rfl rfl rfl rfl
        · exact hl _ (bufInv_reactTo _ _ (bufInv_congr c _ h rfl rfl rfl rfl))

theorem bufInv_run (as : List Act) : BufInv (run init as) := by
  suffices ∀ c, BufInv c → BufInv (run c as) from this init
    ⟨List.Sublist.refl _, rfl, by simp [init, notifyCap], rfl⟩
  induction as with
  | nil => intro c h; exact h
  | cons a as ih => intro c h; exact ih _ (bufInv_step c a h)

/-- A prefix of a chain is a chain. -/
theorem isChain_prefix (s : St) (l m : List (St × St)) (h : IsChain s (l ++ m)) : IsChain s l := by
  induction l generalizing s with
  | nil => trivial
  | cons x l ih => obtain ⟨a, b⟩ := x; exact ⟨h.1, h.2.1, ih _ h.2.2⟩

end GoSecs.Sup
