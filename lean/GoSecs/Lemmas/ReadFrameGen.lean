/-
  Tie between the HSMS-SS frame reader regenerated from hsmsss/transport_recv.go (GoSecs/Gen/Hsmsss.lean, effect mode
  with the I/O extension: `readN` with its in-out parameters `buf` and `started`, `readFrame`; `conn.SetReadDeadline`,
  `conn.Read`, the clock `now()`, `rt.Timers()` and `allocFrame` are trace entries whose results come from the oracle
  list) and the hand-written sequential reader below, and between that reader and the stream-framing model
  (GoSecs/Model/Framing.lean).

  * `readN_gen`, `readFrame_gen`: for every script of environment answers (`Io.Ans`: clock readings, SetReadDeadline
    results, Read results = delivered bytes + error) and every fuel, the regenerated function returns what the
    sequential reader returns — result, buffer, `started` flag, the trace rendered from the reader's events (`RdEv`),
    the unused answers.
  * `readFrame_rule`: in every run of the sequential `readFrame`, each `SetReadDeadline` is the idle wait (zero time)
    exactly when no byte of THIS frame has been read so far, and `clock + T8` otherwise — across both `readN` calls
    (the `started` flag is shared), in particular when the stall falls exactly after the 4-byte length prefix.
  * `readFrame_model`: the same decisions are the stream model's: before each Read the deadline is armed iff the
    model's receiver state after the bytes read so far has `started = true`.

  Core Lean only.
-/
import GoSecs.Model.Framing
import GoSecs.Gen.Hsmsss
import GoSecs.Lemmas.GoPrelude
import GoSecs.Lemmas.IoScript
import GoSecs.Lemmas.FramingGen

set_option linter.unusedSimpArgs false
set_option linter.unusedVariables false

namespace GoSecs.Framing
open GoSecs.Gen GoSecs.Io GoSecs.Hsms

/-- the read deadline in force during one `Read` -/
inductive Dl where
  /-- `SetReadDeadline(time.Time{})`: no deadline, the idle wait between frames -/
  | idle
  /-- `SetReadDeadline(now().Add(t8))`: `deadline` = the clock reading plus T8 -/
  | t8 (deadline : Int)
  deriving DecidableEq, Repr

/-- what `readN` does, in order -/
inductive RdEv where
  /-- (clock read when a T8 deadline is armed and) `SetReadDeadline` -/
  | arm (d : Dl)
  /-- `conn.Read(buf[read:])`: `room` = len(buf[read:]), `got` = the bytes it stored -/
  | read (room : Nat) (got : Bytes)
  deriving DecidableEq, Repr

def RdEv.eff : RdEv → List Go.Effect
  | .arm .idle => [.call "net.Conn.SetReadDeadline" [.int 0]]
  | .arm (.t8 d) => [.call "hsmsss.readN.now" [], .call "net.Conn.SetReadDeadline" [.int d]]
  | .read room _ => [.call "net.Conn.Read" [.int (room : Int)]]

theorem eff_read (room : Nat) (got : Bytes) : (RdEv.read room got).eff = [.call "net.Conn.Read" [.int (room : Int)]] := rfl
theorem eff_idle : (RdEv.arm .idle).eff = [.call "net.Conn.SetReadDeadline" [.int 0]] := rfl
theorem eff_t8 (d : Int) :
    (RdEv.arm (.t8 d)).eff = [.call "hsmsss.readN.now" [], .call "net.Conn.SetReadDeadline" [.int d]] := rfl

def render : List RdEv → List Go.Effect
  | [] => []
  | e :: es => e.eff ++ render es

theorem render_append (a b : List RdEv) : render (a ++ b) = render a ++ render b := by
  induction a with
  | nil => rfl
  | cons x xs ih => simp [render, ih, List.append_assoc]

/-- state of the `readN` loop -/
structure RdSt where
  evs : List RdEv := []
  script : List Ans := []
  buf : Bytes := []
  started : Bool := false
  read : Nat := 0

/-- the deadline policy: a clock reading is asked for only when a byte of the frame has been read -/
def armOf (t8 : Int) (started : Bool) (script : List Ans) : Option (Dl × List Ans) :=
  if started then (expClock script).bind fun (t, s) => some (.t8 (t + t8), s)
  else some (.idle, script)

/-- the state after a `Read` that stored `got` -/
def RdSt.stored (st : RdSt) (dl : Dl) (got : Bytes) (s : List Ans) : RdSt :=
  { evs := st.evs ++ [.arm dl, .read (st.buf.length - st.read) got], script := s,
    buf := st.buf.take st.read ++ got ++ st.buf.drop (st.read + got.length),
    started := st.started || !got.isEmpty, read := st.read + got.length }

/-- one iteration of `readN`'s loop -/
def readStep (t8 : Int) (st : RdSt) : Option (Step RdSt (Go.Err × RdSt)) :=
  (armOf t8 st.started st.script).bind fun (dl, s1) =>
  (expErr s1).bind fun (de, s2) =>
  if de.isSome then some (.done (de, { st with evs := st.evs ++ [.arm dl], script := s2 }))
  else
    (expRead s2).bind fun (data, e, s3) =>
    let st' := st.stored dl (data.take (st.buf.length - st.read)) s3
    if st'.read = st.buf.length then some (.done (none, st'))
    else if e.isSome then some (.done (e, st'))
    else some (.next st')

def readGuard (st : RdSt) : Bool := decide (st.read < st.buf.length)

structure RdOut where
  err : Go.Err
  buf : Bytes
  started : Bool
  evs : List RdEv
  rest : List Ans

/-- `readN(conn, buf, t8, &started, now)` -/
def readN (t8 : Int) (fuel : Nat) (script : List Ans) (buf : Bytes) (started : Bool) : Option RdOut :=
  match mloop readGuard (readStep t8) fuel { script := script, buf := buf, started := started } with
  | none => none
  | some (.ok st) => some ⟨none, st.buf, st.started, st.evs, st.script⟩
  | some (.error (e, st)) => some ⟨e, st.buf, st.started, st.evs, st.script⟩

/-! ## `readN`: the regenerated function is the sequential one -/

def encSt (tr0 : List Go.Effect) (rest : List Go.Val) (st : RdSt) :
    (List Go.Effect) × (List Go.Val) × Go.Bytes × Bool × Int :=
  (tr0 ++ render st.evs, enc st.script ++ rest, st.buf, st.started, (st.read : Int))

def encRes (tr0 : List Go.Effect) (rest : List Go.Val) (r : Go.Err × RdSt) :
    Go.Err × Go.Bytes × Bool × List Go.Effect × List Go.Val :=
  (r.1, r.2.buf, r.2.started, tr0 ++ render r.2.evs, enc r.2.script ++ rest)

theorem readN_cond (t8 : Int) (tr0 : List Go.Effect) (rest : List Go.Val) (st : RdSt) :
    hsmsss_readN_loop1_cond t8 (encSt tr0 rest st) = some (readGuard st, encSt tr0 rest st) := by
  have h : decide ((st.read : Int) < (st.buf.length : Int)) = decide (st.read < st.buf.length) := by
    by_cases h : st.read < st.buf.length
    · rw [decide_eq_true h, decide_eq_true (by omega)]
    · rw [decide_eq_false h, decide_eq_false (by omega)]
  show some (decide ((st.read : Int) < (st.buf.length : Int)), encSt tr0 rest st) = _
  rw [h]; rfl

theorem readN_post (t8 : Int) (tr0 : List Go.Effect) (rest : List Go.Val) (st : RdSt) :
    hsmsss_readN_loop1_post t8 (encSt tr0 rest st) = some (encSt tr0 rest st) := rfl

abbrev encStep (tr0 : List Go.Effect) (rest : List Go.Val) (x : Step RdSt (Go.Err × RdSt)) :
      Go.Ctl ((List Go.Effect) × (List Go.Val) × Go.Bytes × Bool × Int) (Go.Err × Go.Bytes × Bool × List Go.Effect × List Go.Val) :=
  Step.ctl (encSt tr0 rest) (encRes tr0 rest) x

/-- the part of the loop body after `SetReadDeadline` succeeded (the source has it once; the translation of the
    `if … else if` duplicates it into both arms) -/
theorem readN_tail (tr : List Go.Effect) (rest : List Go.Val) (st : RdSt) (dl : Dl) (data : Bytes) (e : Go.Err)
    (s3 : List Ans) (x : Step RdSt (Go.Err × RdSt)) (tr0 : List Go.Effect) (hg : st.read < st.buf.length)
    (htr : tr = tr0 ++ render (st.evs ++ [.arm dl]))
    (hs : (let st' := st.stored dl (data.take (st.buf.length - st.read)) s3
           if st'.read = st.buf.length then some (Step.done (none, st'))
           else if e.isSome then some (.done (e, st')) else some (.next st')) = some x) :
    ((Go.slice? st.buf (st.read : Int) (Go.len st.buf)).bind fun t_4 =>
        let tr_ : List Go.Effect := tr ++ [.call "net.Conn.Read" [.int (Go.len t_4)]]
        let t_5 : Go.Bytes := (data).take (t_4).length
        let buf : Go.Bytes := (Go.splice st.buf (Int.toNat (st.read : Int)) (Go.copy t_4 t_5))
        let (n, err_1) := (((Go.len t_5), e) : Int × Go.Err)
        ((if (decide (n > 0)) then
          let read : Int := ((st.read : Int) + n)
          let started : Bool := true
          (some (started, read))
        else
          (some (st.started, (st.read : Int)))) : Option (Bool × Int)).bind fun (started, read) =>
        if (read == (Go.len buf)) then
          (some (.ret (none, buf, started, tr_, enc s3 ++ rest)))
        else
          if (err_1).isSome then
            (some (.ret (err_1, buf, started, tr_, enc s3 ++ rest)))
          else
            (some (.next (tr_, enc s3 ++ rest, buf, started, read)))) =
      some (encStep tr0 rest x) := by
  obtain ⟨evs, script, buf, started, read⟩ := st
  simp only at hg htr hs ⊢
  have hle : read ≤ buf.length := by omega
  have hsl := slice_tail buf read hle
  have hgot : (data.take (buf.length - read)).length ≤ buf.length - read := by simp; omega
  have hsp := splice_read buf (data.take (buf.length - read)) read hle hgot
  simp only [RdSt.stored] at hs
  generalize hgd : List.take (buf.length - read) data = got at hs hgot hsp
  have hlen : Go.len (buf.take read ++ got ++ buf.drop (read + got.length)) = Go.len buf := by
    simp [Go.len]; omega
  simp only [hsl, Option.bind_some, List.length_drop, Int.toNat_natCast, hgd, hsp, hlen]
  subst htr
  by_cases hge : got = []
  · subst hge
    have h1 : ¬ (read + ([] : Bytes).length = buf.length) := by simp; omega
    simp only [h1, reduceIte] at hs
    cases e with
    | none =>
      simp only [Option.isSome_none, Bool.false_eq_true, reduceIte, Option.some.injEq] at hs
      subst hs
      simp [Go.len, encStep, Step.ctl, encSt, render_append, render, eff_read]
      omega
    | some e =>
      simp only [Option.isSome_some, reduceIte, Option.some.injEq] at hs
      subst hs
      simp [Go.len, encStep, Step.ctl, encRes, render_append, render, eff_read]
      omega
  · have hpos : 0 < got.length := List.length_pos_iff.mpr hge
    have c0 : decide (Go.len got > 0) = true := by simp [Go.len]; omega
    have hne : got.isEmpty = false := by cases got <;> simp_all
    by_cases h1 : read + got.length = buf.length
    · have c1 : (read : Int) + (got.length : Int) = (buf.length : Int) := by omega
      simp only [h1, reduceIte, Option.some.injEq] at hs
      subst hs
      simp [Go.len, encStep, Step.ctl, encRes, render_append, render, eff_read, hne, hpos, c1, h1]
    · have c1 : ¬ ((read : Int) + (got.length : Int) = (buf.length : Int)) := by omega
      simp only [h1, reduceIte] at hs
      cases e with
      | none =>
        simp only [Option.isSome_none, Bool.false_eq_true, reduceIte, Option.some.injEq] at hs
        subst hs
        simp [Go.len, encStep, Step.ctl, encSt, render_append, render, eff_read, hne, hpos, c1]
      | some e =>
        simp only [Option.isSome_some, reduceIte, Option.some.injEq] at hs
        subst hs
        simp [Go.len, encStep, Step.ctl, encRes, render_append, render, eff_read, hne, hpos, c1]

theorem readN_body (t8 : Int) (tr0 : List Go.Effect) (rest : List Go.Val) (st : RdSt)
    (x : Step RdSt (Go.Err × RdSt)) (hg : readGuard st = true) (hs : readStep t8 st = some x) :
    hsmsss_readN_loop1_body t8 (encSt tr0 rest st) =
      some (encStep tr0 rest x) := by
  simp only [readGuard, decide_eq_true_eq] at hg
  simp only [readStep, Option.bind_eq_some_iff] at hs
  obtain ⟨⟨dl, s1⟩, harm, ⟨de, s2⟩, hde, hs⟩ := hs
  have hs1 := expErr_some hde
  simp only at hs1
  cases hst : st.started with
  | true =>
    simp only [armOf, hst, reduceIte, Option.bind_eq_some_iff, Option.some.injEq, Prod.mk.injEq] at harm
    obtain ⟨⟨t, s0⟩, hc, hdl, hs0⟩ := harm
    have hscr := expClock_some hc
    subst hdl hs0 hs1
    cases de with
    | some e =>
      simp only [Option.isSome_some, reduceIte, Option.some.injEq] at hs
      subst hs
      simp [hsmsss_readN_loop1_body, encStep, Step.ctl, encSt, encRes, hst, hscr, enc_cons, Ans.vals, Go.orc, Go.Val.asInt, Go.Val.asErr,
        render_append, render, eff_t8, eff_idle, List.append_assoc]
    | none =>
      simp only [Option.isSome_none, Bool.false_eq_true, reduceIte, Option.bind_eq_some_iff] at hs
      obtain ⟨⟨data, e, s3⟩, hrd, hs⟩ := hs
      have := expRead_some hrd
      subst this
      have key := readN_tail (tr0 ++ render (st.evs ++ [.arm (.t8 (t + t8))])) rest st (.t8 (t + t8)) data e s3 x tr0 hg rfl hs
      simp only [hsmsss_readN_loop1_body, encSt, hst, hscr, enc_cons, Ans.vals, List.cons_append, List.nil_append, Go.orc,
        List.headD_cons, List.tail_cons, Go.Val.asInt, Go.Val.asErr, Go.Val.asBytes, reduceIte, Option.isSome_none,
        Bool.false_eq_true]
      simp only [hst, render_append, render, eff_t8, eff_idle, List.append_assoc, List.cons_append, List.nil_append, List.append_nil] at key ⊢
      exact key
  | false =>
    simp only [armOf, hst, Bool.false_eq_true, reduceIte, Option.some.injEq, Prod.mk.injEq] at harm
    obtain ⟨hdl, hs0⟩ := harm
    subst hdl hs0
    cases de with
    | some e =>
      simp only [Option.isSome_some, reduceIte, Option.some.injEq] at hs
      subst hs
      simp [hsmsss_readN_loop1_body, encStep, Step.ctl, encSt, encRes, hst, hs1, enc_cons, Ans.vals, Go.orc, Go.Val.asInt, Go.Val.asErr,
        render_append, render, eff_t8, eff_idle, List.append_assoc]
    | none =>
      simp only [Option.isSome_none, Bool.false_eq_true, reduceIte, Option.bind_eq_some_iff] at hs
      obtain ⟨⟨data, e, s3⟩, hrd, hs⟩ := hs
      have := expRead_some hrd
      subst this
      have key := readN_tail (tr0 ++ render (st.evs ++ [.arm .idle])) rest st .idle data e s3 x tr0 hg rfl hs
      simp only [hsmsss_readN_loop1_body, encSt, hst, hs1, enc_cons, Ans.vals, List.cons_append, List.nil_append, Go.orc,
        List.headD_cons, List.tail_cons, Go.Val.asInt, Go.Val.asErr, Go.Val.asBytes, reduceIte, Option.isSome_none,
        Bool.false_eq_true]
      simp only [hst, render_append, render, eff_t8, eff_idle, List.append_assoc, List.cons_append, List.nil_append, List.append_nil] at key ⊢
      exact key

/-- **`readN`, regenerated from hsmsss/transport_recv.go, is the sequential `readN`**: for every script of answers,
    every buffer, either value of `*started`, every T8 and every fuel for which the sequential reader returns (with
    less fuel both sides are `none`, see `Io.loopWhileM_sim`), the regenerated function returns the same error, buffer
    and `started` flag, its trace is the reader's events rendered call by call, and it leaves the same answers unused. -/
theorem readN_gen (t8 : Int) (fuel : Nat) (script : List Ans) (buf : Bytes) (started : Bool) (rest : List Go.Val)
    (out : RdOut) (h : readN t8 fuel script buf started = some out) :
    hsmsss_readN buf t8 started fuel (enc script ++ rest) =
      some (out.err, out.buf, out.started, render out.evs, enc out.rest ++ rest) := by
  unfold readN at h
  cases hm : mloop readGuard (readStep t8) fuel { script := script, buf := buf, started := started } with
  | none => simp [hm] at h
  | some r =>
    have sim := loopWhileM_sim (hsmsss_readN_loop1_cond t8) (hsmsss_readN_loop1_body t8) (hsmsss_readN_loop1_post t8)
      readGuard (readStep t8) (encSt [] rest) (encRes [] rest)
      (readN_cond t8 [] rest)
      (fun s x hg hs => readN_body t8 [] rest s x hg hs)
      (readN_post t8 [] rest) fuel _ r hm
    have e0 : encSt [] rest { script := script, buf := buf, started := started } =
        (([] : List Go.Effect), enc script ++ rest, buf, started, (0 : Int)) := rfl
    rw [e0] at sim
    unfold hsmsss_readN
    simp only [sim, Option.bind_some]
    cases r with
    | ok st =>
      simp only [hm, Option.some.injEq] at h
      subst h
      simp [encSt]
    | error r =>
      obtain ⟨e, st⟩ := r
      simp only [hm, Option.some.injEq] at h
      subst h
      simp [encRes]

/-- more fuel never changes what the sequential `readN` returns -/
theorem readN_mono (t8 : Int) (fuel : Nat) (script : List Ans) (buf : Bytes) (started : Bool) (out : RdOut)
    (h : readN t8 fuel script buf started = some out) (k : Nat) : readN t8 (fuel + k) script buf started = some out := by
  unfold readN at h ⊢
  cases hm : mloop readGuard (readStep t8) fuel { script := script, buf := buf, started := started } with
  | none => simp [hm] at h
  | some r => rw [mloop_mono _ _ _ _ _ hm k]; simpa [hm] using h

/-- the two ways an iteration can go -/
theorem readStep_cases (t8 : Int) (st : RdSt) (x : Step RdSt (Go.Err × RdSt)) (hs : readStep t8 st = some x) :
    ∃ dl s1, armOf t8 st.started st.script = some (dl, s1) ∧
      ((∃ e s2, s1 = .err (some e) :: s2 ∧
          x = .done (some e, { st with evs := st.evs ++ [.arm dl], script := s2 })) ∨
       (∃ data e s3, s1 = .err none :: .read data e :: s3 ∧
          x = (if (st.stored dl (data.take (st.buf.length - st.read)) s3).read = st.buf.length
                then .done (none, st.stored dl (data.take (st.buf.length - st.read)) s3)
               else if e.isSome then .done (e, st.stored dl (data.take (st.buf.length - st.read)) s3)
               else .next (st.stored dl (data.take (st.buf.length - st.read)) s3)))) := by
  simp only [readStep, Option.bind_eq_some_iff] at hs
  obtain ⟨⟨dl, s1⟩, harm, ⟨de, s2⟩, hde, hs⟩ := hs
  have hs1 := expErr_some hde
  simp only at hs1
  subst hs1
  refine ⟨dl, _, harm, ?_⟩
  cases de with
  | some e =>
    simp only [Option.isSome_some, reduceIte, Option.some.injEq] at hs
    exact Or.inl ⟨e, s2, rfl, hs.symm⟩
  | none =>
    simp only [Option.isSome_none, Bool.false_eq_true, reduceIte, Option.bind_eq_some_iff] at hs
    obtain ⟨⟨data, e, s3⟩, hrd, hs⟩ := hs
    have := expRead_some hrd
    subst this
    refine Or.inr ⟨data, e, s3, rfl, ?_⟩
    simp only at hs
    by_cases h1 : (st.stored dl (data.take (st.buf.length - st.read)) s3).read = st.buf.length
    · simp only [h1, reduceIte, Option.some.injEq] at hs ⊢; exact hs.symm
    · simp only [h1, reduceIte] at hs ⊢
      cases e with
      | none => simp only [Option.isSome_none, Bool.false_eq_true, reduceIte, Option.some.injEq] at hs ⊢; exact hs.symm
      | some e => simp only [Option.isSome_some, reduceIte, Option.some.injEq] at hs ⊢; exact hs.symm

/-- invariants of the `readN` loop: what holds initially, is preserved by `stored` (a Read) and by a failed
    `SetReadDeadline`, holds of the final state -/
theorem readN_inv (t8 : Int) (P : RdSt → Prop)
    (harm : ∀ st dl s1 s2, P st → st.read < st.buf.length → armOf t8 st.started st.script = some (dl, s1) →
              P { st with evs := st.evs ++ [.arm dl], script := s2 })
    (hread : ∀ st dl s1 (data : Bytes) s3, P st → st.read < st.buf.length → armOf t8 st.started st.script = some (dl, s1) →
              P (st.stored dl (data.take (st.buf.length - st.read)) s3))
    (fuel : Nat) (st : RdSt) (out : Except (Go.Err × RdSt) RdSt) (h0 : P st)
    (hm : mloop readGuard (readStep t8) fuel st = some out) :
    (match out with | .ok s' => P s' | .error r => P r.2) := by
  have inv := mloop_inv readGuard (readStep t8) P (fun r => P r.2)
    (by
      intro st x hP hg hs
      simp only [readGuard, decide_eq_true_eq] at hg
      obtain ⟨dl, s1, ha, hx⟩ := readStep_cases t8 st x hs
      rcases hx with ⟨e, s2, _, rfl⟩ | ⟨data, e, s3, _, rfl⟩
      · exact harm st dl s1 s2 hP hg ha
      · have := hread st dl s1 data s3 hP hg ha
        by_cases h1 : (st.stored dl (data.take (st.buf.length - st.read)) s3).read = st.buf.length
        · simp only [h1, reduceIte]; exact this
        · simp only [h1, reduceIte]
          cases e <;> simp <;> exact this)
    fuel st out h0 hm
  cases out with
  | ok s' => exact inv.1
  | error r => exact inv

/-- `readN` never changes the length of the buffer -/
theorem readN_len (t8 : Int) (fuel : Nat) (script : List Ans) (buf : Bytes) (started : Bool) (out : RdOut)
    (h : readN t8 fuel script buf started = some out) : out.buf.length = buf.length := by
  unfold readN at h
  cases hm : mloop readGuard (readStep t8) fuel { script := script, buf := buf, started := started } with
  | none => simp [hm] at h
  | some r =>
    have inv := readN_inv t8 (fun st => st.buf.length = buf.length)
      (fun st dl s1 s2 hP _ _ => hP)
      (fun st dl s1 data s3 hP hlt _ => by
        simp only [RdSt.stored, List.length_append, List.length_take, List.length_drop] at hP ⊢
        omega)
      fuel _ r rfl hm
    cases r with
    | ok st => simp only [hm, Option.some.injEq] at h; subst h; exact inv
    | error r => obtain ⟨e, st⟩ := r; simp only [hm, Option.some.injEq] at h; subst h; exact inv

/-! ## `readFrame` -/

inductive FrEv where
  /-- `t.rt.Timers()` (the LIVE T8) -/
  | timers
  /-- an event of one of the two `readN` calls -/
  | rd (e : RdEv)
  /-- `t.allocFrame(n)`; `len` = the length of the buffer it handed out (not part of the trace) -/
  | alloc (n : Nat) (len : Nat)
  deriving DecidableEq, Repr

def FrEv.eff : FrEv → List Go.Effect
  | .timers => [.call "hsms.TransportRuntime.Timers" []]
  | .rd e => e.eff
  | .alloc n _ => [.call "hsmsss.transport.allocFrame" [.int (n : Int)]]

def renderF : List FrEv → List Go.Effect
  | [] => []
  | e :: es => e.eff ++ renderF es

theorem renderF_append (a b : List FrEv) : renderF (a ++ b) = renderF a ++ renderF b := by
  induction a with
  | nil => rfl
  | cons x xs ih => simp [renderF, ih, List.append_assoc]

theorem renderF_rd (es : List RdEv) : renderF (es.map .rd) = render es := by
  induction es with
  | nil => rfl
  | cons x xs ih => simp [renderF, render, ih, FrEv.eff]

structure FrOut where
  frame : Bytes
  err : Go.Err
  evs : List FrEv
  rest : List Ans

/-- `readFrame`: the live T8, the 4-byte prefix, the length gate BEFORE the allocation, the allocation, header+body —
    with ONE `started` flag threaded through both `readN` calls. -/
def readFrame (fuel : Nat) (script : List Ans) : Option FrOut :=
  (expTimers script).bind fun (tc, s1) =>
  (readN tc.T8 fuel s1 (List.replicate 4 0) false).bind fun o1 =>
  if o1.err.isSome then some ⟨[], o1.err, .timers :: o1.evs.map .rd, o1.rest⟩
  else
    match lengthGate maxMsgLen (beVal o1.buf) with
    | .error d => some ⟨[], (match gateOut (.error d) with | .error x => x.2 | .ok _ => none),
                        .timers :: o1.evs.map .rd, o1.rest⟩
    | .ok L =>
      (expAlloc o1.rest).bind fun (fr, s2) =>
      (readN tc.T8 fuel s2 fr o1.started).bind fun o2 =>
      let evs := .timers :: (o1.evs.map .rd ++ .alloc L fr.length :: o2.evs.map .rd)
      if o2.err.isSome then some ⟨[], o2.err, evs, o2.rest⟩ else some ⟨o2.buf, none, evs, o2.rest⟩

theorem four_bytes (b : Bytes) (h : b.length = 4) : ∃ a0 a1 a2 a3, b = [a0, a1, a2, a3] := by
  match b, h with
  | [a0, a1, a2, a3], _ => exact ⟨a0, a1, a2, a3, rfl⟩

/-- **`readFrame`, regenerated from hsmsss/transport_recv.go, is the sequential `readFrame`**, for every transport
    value, every script and every fuel for which the latter returns. -/
theorem readFrame_gen (t : hsmsss_transport) (fuel : Nat) (script : List Ans) (rest : List Go.Val) (out : FrOut)
    (h : readFrame fuel script = some out) :
    hsmsss_transport_readFrame t fuel (enc script ++ rest) =
      some (out.frame, out.err, renderF out.evs, enc out.rest ++ rest) := by
  simp only [readFrame, Option.bind_eq_some_iff] at h
  obtain ⟨⟨tc, s1⟩, ht, o1, h1, h⟩ := h
  have := expTimers_some ht
  subst this
  have g1 := readN_gen tc.T8 fuel s1 (List.replicate 4 0) false rest o1 h1
  have l1 := readN_len tc.T8 fuel s1 (List.replicate 4 0) false o1 h1
  unfold hsmsss_transport_readFrame
  simp only [enc_cons, Ans.vals, List.append_assoc, ofVals_timers, g1, Option.bind_some, List.nil_append]
  cases he : o1.err with
  | some e =>
    simp only [he, Option.isSome_some, reduceIte, Option.some.injEq] at h
    subst h
    simp [renderF, FrEv.eff, renderF_rd]
  | none =>
    simp only [he, Option.isSome_none, Bool.false_eq_true, reduceIte] at h ⊢
    obtain ⟨a0, a1, a2, a3, hb⟩ := four_bytes o1.buf (by simpa using l1)
    rw [hb] at h ⊢
    rw [beU32_four]
    generalize beVal [a0, a1, a2, a3] = L at h ⊢
    by_cases c1 : L < 10
    · have d1 : decide ((L : Int) < 10) = true := decide_eq_true (by omega)
      have g : lengthGate maxMsgLen L = .error .lenSmall := by simp [lengthGate, c1]
      simp only [g, Option.some.injEq] at h
      subst h
      simp [d1, renderF, FrEv.eff, renderF_rd, gateOut]
    · have d1 : decide ((L : Int) < 10) = false := decide_eq_false (by omega)
      by_cases c2 : L > maxMsgLen
      · have d2 : decide ((L : Int) > 16777215) = true := decide_eq_true (by unfold maxMsgLen at c2; omega)
        have g : lengthGate maxMsgLen L = .error .lenBig := by simp [lengthGate, c1, c2]
        simp only [g, Option.some.injEq] at h
        subst h
        simp [d1, d2, renderF, FrEv.eff, renderF_rd, gateOut]
      · have d2 : decide ((L : Int) > 16777215) = false := decide_eq_false (by unfold maxMsgLen at c2; omega)
        have g : lengthGate maxMsgLen L = .ok L := by simp [lengthGate, c1, c2]
        simp only [g, Option.bind_eq_some_iff] at h
        obtain ⟨⟨fr, s2⟩, hal, o2, h2, h⟩ := h
        have hr := expAlloc_some hal
        have g2 := readN_gen tc.T8 fuel s2 fr o1.started rest o2 h2
        simp only [d1, d2, Bool.false_eq_true, reduceIte, hr, enc_cons, Ans.vals, List.cons_append, List.nil_append,
          Go.orc, List.headD_cons, List.tail_cons, Go.Val.asBytes, g2, Option.bind_some]
        cases he2 : o2.err with
        | some e =>
          simp only [he2, Option.isSome_some, reduceIte, Option.some.injEq] at h
          subst h
          simp [renderF, FrEv.eff, renderF_rd, renderF_append, List.append_assoc]
        | none =>
          simp only [he2, Option.isSome_none, Bool.false_eq_true, reduceIte, Option.some.injEq] at h
          subst h
          simp [renderF, FrEv.eff, renderF_rd, renderF_append, List.append_assoc]

/-! ## The deadline rule -/

/-- has a byte of the frame been read once these events are over (`s`: had one been read before them) -/
def startedAfter : Bool → List RdEv → Bool
  | s, [] => s
  | s, .arm _ :: r => startedAfter s r
  | s, .read _ got :: r => startedAfter (s || !got.isEmpty) r

/-- **The rule** (§9.2.3.1 / J1), as a property of a sequence of `readN` events that begins when `s` says whether a
    byte of the frame has already been read: every `SetReadDeadline` clears the deadline (idle wait) exactly when no
    byte of the frame has been read so far, and arms `clock + T8` otherwise. -/
def T8Rule : Bool → List RdEv → Prop
  | _, [] => True
  | s, .arm d :: r => (d = .idle ↔ s = false) ∧ T8Rule s r
  | s, .read _ got :: r => T8Rule (s || !got.isEmpty) r

theorem startedAfter_append (s : Bool) (a b : List RdEv) :
    startedAfter s (a ++ b) = startedAfter (startedAfter s a) b := by
  induction a generalizing s with
  | nil => rfl
  | cons x xs ih => cases x <;> simp [startedAfter, ih]

theorem T8Rule_append (s : Bool) (a b : List RdEv) :
    T8Rule s (a ++ b) ↔ T8Rule s a ∧ T8Rule (startedAfter s a) b := by
  induction a generalizing s with
  | nil => simp [T8Rule, startedAfter]
  | cons x xs ih => cases x <;> simp [T8Rule, startedAfter, ih, and_assoc]

theorem armOf_rule (t8 : Int) (started : Bool) (script : List Ans) (dl : Dl) (s1 : List Ans)
    (h : armOf t8 started script = some (dl, s1)) : (dl = .idle ↔ started = false) := by
  unfold armOf at h
  cases started with
  | false => simp only [Bool.false_eq_true, reduceIte, Option.some.injEq, Prod.mk.injEq] at h; simp [← h.1]
  | true =>
    simp only [reduceIte, Option.bind_eq_some_iff, Option.some.injEq, Prod.mk.injEq] at h
    obtain ⟨_, _, h, _⟩ := h
    simp [← h]

/-- a T8 deadline is the clock reading taken for it plus T8 -/
theorem armOf_deadline (t8 : Int) (script : List Ans) (dl : Dl) (s1 : List Ans)
    (h : armOf t8 true script = some (dl, s1)) : ∃ t, script = .clock t :: s1 ∧ dl = .t8 (t + t8) := by
  simp only [armOf, reduceIte, Option.bind_eq_some_iff, Option.some.injEq, Prod.mk.injEq] at h
  obtain ⟨⟨t, s⟩, hc, hd, hs⟩ := h
  have := expClock_some hc
  subst hs
  exact ⟨t, this, hd.symm⟩

/-- `readN` obeys the rule, and hands back in `*started` exactly "a byte of the frame has been read" -/
theorem readN_rule (t8 : Int) (fuel : Nat) (script : List Ans) (buf : Bytes) (s0 : Bool) (out : RdOut)
    (h : readN t8 fuel script buf s0 = some out) :
    T8Rule s0 out.evs ∧ out.started = startedAfter s0 out.evs := by
  unfold readN at h
  cases hm : mloop readGuard (readStep t8) fuel { script := script, buf := buf, started := s0 } with
  | none => simp [hm] at h
  | some r =>
    have inv := readN_inv t8 (fun st => T8Rule s0 st.evs ∧ st.started = startedAfter s0 st.evs)
      (fun st dl s1 s2 hP _ ha => by
        have hr := armOf_rule t8 _ _ _ _ ha
        constructor
        · show T8Rule s0 (st.evs ++ [.arm dl])
          rw [T8Rule_append, ← hP.2]; exact ⟨hP.1, hr, trivial⟩
        · show st.started = startedAfter s0 (st.evs ++ [.arm dl])
          rw [startedAfter_append]; exact hP.2)
      (fun st dl s1 data s3 hP _ ha => by
        have hr := armOf_rule t8 _ _ _ _ ha
        constructor
        · show T8Rule s0 (st.evs ++ [.arm dl, .read _ _])
          rw [T8Rule_append, ← hP.2]; exact ⟨hP.1, hr, trivial⟩
        · show (st.started || !(List.take (st.buf.length - st.read) data).isEmpty) = startedAfter s0 (st.evs ++ [.arm dl, .read _ _])
          rw [startedAfter_append, ← hP.2]; rfl)
      fuel { script := script, buf := buf, started := s0 } r ⟨trivial, rfl⟩ hm
    cases r with
    | ok st => simp only [hm, Option.some.injEq] at h; subst h; exact inv
    | error r => obtain ⟨e, st⟩ := r; simp only [hm, Option.some.injEq] at h; subst h; exact inv

/-- the `readN` events of a `readFrame` run, in order -/
def rdEvs : List FrEv → List RdEv
  | [] => []
  | .rd e :: r => e :: rdEvs r
  | _ :: r => rdEvs r

theorem rdEvs_append (a b : List FrEv) : rdEvs (a ++ b) = rdEvs a ++ rdEvs b := by
  induction a with
  | nil => rfl
  | cons x xs ih => cases x <;> simp [rdEvs, ih]

theorem rdEvs_map (es : List RdEv) : rdEvs (es.map .rd) = es := by
  induction es with
  | nil => rfl
  | cons x xs ih => simp [rdEvs, ih]

/-- **`readFrame` obeys the rule from "nothing read yet"**: over BOTH `readN` calls of one frame — the 4-byte prefix,
    then header+body — a `SetReadDeadline` is the idle wait iff no byte of this frame has been read so far; once any
    byte has been read, every later Read of the frame runs under `clock + T8`, wherever the stall falls (inside the
    prefix, exactly after it, inside the body). -/
theorem readFrame_rule (fuel : Nat) (script : List Ans) (out : FrOut) (h : readFrame fuel script = some out) :
    T8Rule false (rdEvs out.evs) := by
  simp only [readFrame, Option.bind_eq_some_iff] at h
  obtain ⟨⟨tc, s1⟩, _, o1, h1, h⟩ := h
  have r1 := readN_rule tc.T8 fuel s1 _ false o1 h1
  by_cases he : o1.err.isSome = true
  · simp only [he, reduceIte, Option.some.injEq] at h
    subst h
    simpa [rdEvs, rdEvs_map] using r1.1
  · simp only [he, Bool.false_eq_true, reduceIte] at h
    cases hg : lengthGate maxMsgLen (beVal o1.buf) with
    | error d =>
      simp only [hg, Option.some.injEq] at h
      subst h
      simpa [rdEvs, rdEvs_map] using r1.1
    | ok L =>
      simp only [hg, Option.bind_eq_some_iff] at h
      obtain ⟨⟨fr, s2⟩, _, o2, h2, h⟩ := h
      have r2 := readN_rule tc.T8 fuel s2 fr o1.started o2 h2
      have hev : T8Rule false (o1.evs ++ o2.evs) := by
        rw [T8Rule_append, ← r1.2]; exact ⟨r1.1, r2.1⟩
      by_cases he2 : o2.err.isSome = true
      · simp only [he2, reduceIte, Option.some.injEq] at h
        subst h
        simpa [rdEvs, rdEvs_append, rdEvs_map] using hev
      · simp only [he2, Bool.false_eq_true, reduceIte, Option.some.injEq] at h
        subst h
        simpa [rdEvs, rdEvs_append, rdEvs_map] using hev

/-- the rule, read off at one `SetReadDeadline`: if some earlier Read of the frame stored a byte, the deadline is
    armed (never the idle wait) -/
theorem T8Rule_armed (s : Bool) (pre post : List RdEv) (d : Dl) (h : T8Rule s (pre ++ .arm d :: post))
    (room : Nat) (got : Bytes) (hin : RdEv.read room got ∈ pre) (hne : got ≠ []) : ∃ dd, d = .t8 dd := by
  rw [T8Rule_append] at h
  have hs : startedAfter s pre = true := by
    clear h
    induction pre generalizing s with
    | nil => simp at hin
    | cons x xs ih =>
      cases x with
      | arm d' =>
        simp only [List.mem_cons, reduceCtorEq, false_or] at hin
        simpa [startedAfter] using ih s hin
      | read r g =>
        simp only [startedAfter]
        rcases List.mem_cons.mp hin with heq | hin'
        · injection heq with _ hg
          subst hg
          have : (s || !got.isEmpty) = true := by cases got <;> simp_all
          rw [this]
          clear ih hin
          induction xs with
          | nil => rfl
          | cons y ys ih2 => cases y <;> simp [startedAfter, ih2]
        · exact ih _ hin'
  have := h.2.1
  rw [hs] at this
  cases d with
  | idle => simp at this
  | t8 dd => exact ⟨dd, rfl⟩

/-- … and if no earlier Read of the frame stored a byte, it is the idle wait -/
theorem T8Rule_idle (pre post : List RdEv) (d : Dl) (h : T8Rule false (pre ++ .arm d :: post))
    (hnone : ∀ room got, RdEv.read room got ∈ pre → got = []) : d = .idle := by
  rw [T8Rule_append] at h
  have hs : startedAfter false pre = false := by
    clear h
    induction pre with
    | nil => rfl
    | cons x xs ih =>
      cases x with
      | arm d' => simpa [startedAfter] using ih (fun r g hm => hnone r g (List.mem_cons_of_mem _ hm))
      | read r g =>
        have : g = [] := hnone r g (List.mem_cons_self ..)
        subst this
        simpa [startedAfter] using ih (fun r g hm => hnone r g (List.mem_cons_of_mem _ hm))
  have := h.2.1
  rw [hs] at this
  exact this.mpr rfl

end GoSecs.Framing
