/-
  Tie lemmas between the hsms functions regenerated from the Go source (GoSecs/Gen/Hsms.lean) and the
  hand-written model (GoSecs/Model/Hsms.lean; `isSecondaryReply` of GoSecs/Model/Router.lean): header
  accessors, `ToBytes` of data and control messages, `ToSystemBytes` / `FromSystemBytes`, control-message
  constructors and re-stamping, `ControlMessage.Type`, reply classification.  Every statement is for ALL
  inputs.  Re-exported as the `…_gen` theorems of Props/C03, C04, C06, C08.  Core Lean only.
-/
import GoSecs.Model.Hsms
import GoSecs.Model.Router
import GoSecs.Lemmas.Secs2
import GoSecs.Gen.Hsms
import GoSecs.Lemmas.GoPrelude

set_option linter.unusedSimpArgs false

namespace GoSecs.Hsms
open GoSecs.Gen GoSecs.Secs2

/-! ### model values as the generated structures -/

def ControlMsg.toGen (m : ControlMsg) : hsms_ControlMessage :=
  { header := m.hdr.toBytes, replyExpected := m.replyExpected }

/-- A data message with its body devirtualised to the bytes it holds (`wire.Body ↦ rawFrameBody`). -/
def DataMsg.toGen (m : DataMsg) : hsms_DataMessage :=
  { header := m.hdr.toBytes, body := { body := m.body.bytes }, dec := true }

theorem body_len_eq (b : Body) : b.len = b.bytes.length := by
  cases b with
  | tree it => exact (enc_length it).symm
  | raw bs => rfl

/-! ### `IsValidSType` (restated here for `ControlMessage.Type`) -/

set_option maxRecDepth 8192 in
theorem isValidSType_table : ∀ n : Nat, n < 256 → hsms_IsValidSType (n : Int) = definedSType n := by
  decide

/-! ### header accessors -/

theorem sessionID_of_bytes (h : Header) : Go.beU16 (Go.slice h.toBytes 0 2) = (h.sessionID : Int) := by
  simp [Go.beU16, Go.slice, Header.toBytes, Go.getB, Go.u8_nat, Header.sessionID]

theorem sys_of_bytes (h : Header) :
    Go.copy (List.replicate 4 0) (Go.slice h.toBytes 6 10) = h.sys.toBytes := by
  simp [Go.copy, Go.slice, Header.toBytes, Header.sys, Sys.toBytes]

theorem dataSessionID_gen (m : DataMsg) : hsms_DataMessage_SessionID m.toGen = (m.hdr.sessionID : Int) :=
  sessionID_of_bytes m.hdr

theorem dataSystemBytes_gen (m : DataMsg) : hsms_DataMessage_SystemBytes m.toGen = m.hdr.sys.toBytes :=
  sys_of_bytes m.hdr

theorem dataHeaderBytes_gen (m : DataMsg) : hsms_DataMessage_HeaderBytes m.toGen = m.hdr.toBytes := rfl

theorem dataStream_gen (m : DataMsg) : hsms_DataMessage_Stream m.toGen = (m.hdr.stream.toNat : Int) := by
  unfold hsms_DataMessage_Stream DataMsg.toGen Header.toBytes Header.stream
  simp only [Go.getB, List.getD_cons_zero, List.getD_cons_succ, Go.u8_nat, Go.band127_nat]
  have := m.hdr.b2.toNat_lt
  have e : m.hdr.b2.toNat &&& 0x7F = m.hdr.b2.toNat % 128 := Nat.and_two_pow_sub_one_eq_mod _ 7
  rw [e]
  congr 1
  simp only [UInt8.toNat_ofNat']
  omega

theorem dataFunction_gen (m : DataMsg) : hsms_DataMessage_Function m.toGen = (m.hdr.function.toNat : Int) := by
  unfold hsms_DataMessage_Function DataMsg.toGen Header.toBytes Header.function
  simp only [Go.getB, List.getD_cons_zero, List.getD_cons_succ, Go.u8_nat]

theorem dataWaitBit_gen (m : DataMsg) : hsms_DataMessage_WaitBit m.toGen = m.hdr.wbit := by
  unfold hsms_DataMessage_WaitBit DataMsg.toGen Header.toBytes Header.wbit
  simp only [Go.getB, List.getD_cons_zero, List.getD_cons_succ, Go.shr7_u8_ne0]
  have := m.hdr.b2.toNat_lt
  rw [← Go.shr7_ne0_lt256 _ this, Nat.shiftRight_eq_div_pow]

theorem idOfSys_bytes (s : Sys) : Go.beU32 s.toBytes = (idOfSys s : Int) := by
  simp [Go.beU32, Sys.toBytes, Go.getB, Go.u8_nat, idOfSys, beVal]
  omega

theorem fromSystemBytes_gen (s : Sys) : hsms_FromSystemBytes s.toBytes = (idOfSys s : Int) := idOfSys_bytes s

theorem toSystemBytes_gen (id : Nat) : hsms_ToSystemBytes (id : Int) = (sysOfID id).toBytes := by
  unfold hsms_ToSystemBytes sysOfID Sys.toBytes
  simp only [Go.copy, Go.be32, List.length_replicate, List.length_cons, List.length_nil, List.take, List.drop_replicate,
    Nat.sub_self, List.replicate, List.append_nil]
  have e (k : Nat) : Go.byte ((id : Int) / (k : Int) % 256) = UInt8.ofNat (id / k % 256) := by
    rw [show (id : Int) / (k : Int) % 256 = ((id / k % 256 : Nat) : Int) by simp, Go.byte_nat]
  have e0 : Go.byte ((id : Int) % 256) = UInt8.ofNat (id % 256) := by
    rw [show (id : Int) % 256 = ((id % 256 : Nat) : Int) by simp, Go.byte_nat]
  have := e 16777216; have := e 65536; have := e 256
  simp_all

theorem dataID_gen (m : DataMsg) : hsms_DataMessage_ID m.toGen = (idOfSys m.hdr.sys : Int) := by
  unfold hsms_DataMessage_ID
  rw [dataSystemBytes_gen, fromSystemBytes_gen]


/-! ### serialisation -/

theorem be4_bytes (n : Nat) :
    let length := Go.wrapU 32 (10 + (n : Int))
    ([Go.byte (Go.wrapU 8 (Go.shr length 24)), Go.byte (Go.wrapU 8 (Go.shr length 16)),
      Go.byte (Go.wrapU 8 (Go.shr length 8)), Go.byte (Go.wrapU 8 length)] : Bytes) = beBytes 4 (10 + n) := by
  intro length
  have hl : length = (((10 + n) % 4294967296 : Nat) : Int) := by
    show Go.wrapU 32 (10 + (n : Int)) = _
    rw [show (10 : Int) + (n : Int) = ((10 + n : Nat) : Int) by simp, Go.wrapU32_nat]
  rw [hl]
  simp only [Go.shr24_nat, Go.shr16_nat, Go.shr8_nat, Go.wrapU8_nat, Go.byte_nat, beBytes, List.cons.injEq, and_true]
  refine ⟨?_, ?_, ?_, ?_⟩ <;> exact Go.ofNat_congr (by omega)

theorem dataToBytes_gen (m : DataMsg) : hsms_DataMessage_ToBytes m.toGen = some (Msg.toBytes (.data m)) := by
  unfold hsms_DataMessage_ToBytes
  have hm : Go.make? 0 (14 + internal_wire_rawFrameBody_Len m.toGen.body) = some [] := by
    unfold Go.make?
    have : (0 : Int) ≤ 0 ∧ (0 : Int) ≤ 14 + internal_wire_rawFrameBody_Len m.toGen.body := by
      show (0 : Int) ≤ 0 ∧ (0 : Int) ≤ 14 + ((m.body.bytes.length : Nat) : Int)
      omega
    simp only [this, and_self, reduceIte]
    rfl
  simp only [hm, Option.bind_some, List.nil_append]
  have hb := be4_bytes m.body.bytes.length
  simp only at hb
  show some (_ ++ m.hdr.toBytes ++ m.body.bytes) = _
  simp only [Msg.toBytes, body_len_eq]
  congr 2
  exact congrArg (· ++ m.hdr.toBytes) hb

theorem controlToBytes_gen (m : ControlMsg) : hsms_ControlMessage_ToBytes m.toGen = some (Msg.toBytes (.control m)) := by
  unfold hsms_ControlMessage_ToBytes ControlMsg.toGen Header.toBytes
  simp [Go.set?, Go.set, Go.slice?, Go.slice, Go.splice, Go.copy, Go.len, Go.byte, Msg.toBytes, Header.toBytes]

/-! ### reply classification -/

theorem isSecondaryReply_gen (m : DataMsg) :
    hsms_isSecondaryReply m.toGen = Router.isSecondaryReply m.hdr.wbit m.hdr.function.toNat := by
  unfold hsms_isSecondaryReply Router.isSecondaryReply
  rw [dataWaitBit_gen, dataFunction_gen]
  congr 1
  have : Int.tmod (m.hdr.function.toNat : Int) 2 = ((m.hdr.function.toNat % 2 : Nat) : Int) := by
    simp [Int.tmod]
  rw [this, Go.natCast_beq_zero]

/-- `kindOf`: the first of the optional kinds, `replyAny` (0) when there is none; never panics. -/
theorem kindOf_gen (ks : Bytes) :
    hsms_kindOf ks = some (match ks with | [] => 0 | k :: _ => (k.toNat : Int)) := by
  unfold hsms_kindOf
  cases ks with
  | nil => simp [Go.len]
  | cons k ks =>
    have : decide (Go.len (k :: ks) > 0) = true := by
      simp [Go.len]
    simp only [this, reduceIte]
    simp [Go.idx?, Go.u8]

/-! ### control messages -/

theorem controlType_gen (m : ControlMsg) : hsms_ControlMessage_Type m.toGen = (m.type : Int) := by
  unfold hsms_ControlMessage_Type ControlMsg.toGen Header.toBytes ControlMsg.type
  simp only [Go.getB, List.getD_cons_zero, List.getD_cons_succ, Go.u8_nat]
  rw [isValidSType_table _ m.hdr.stype.toNat_lt]
  cases definedSType m.hdr.stype.toNat <;> simp [stUndefined]

theorem controlSessionID_gen (m : ControlMsg) : hsms_ControlMessage_SessionID m.toGen = (m.hdr.sessionID : Int) :=
  sessionID_of_bytes m.hdr

theorem controlSystemBytes_gen (m : ControlMsg) : hsms_ControlMessage_SystemBytes m.toGen = m.hdr.sys.toBytes :=
  sys_of_bytes m.hdr

theorem controlHeaderBytes_gen (m : ControlMsg) : hsms_ControlMessage_HeaderBytes m.toGen = m.hdr.toBytes := rfl

theorem controlWaitBit_gen (m : ControlMsg) : hsms_ControlMessage_WaitBit m.toGen = m.replyExpected := rfl

theorem controlID_gen (m : ControlMsg) : hsms_ControlMessage_ID m.toGen = (idOfSys m.hdr.sys : Int) := by
  unfold hsms_ControlMessage_ID
  rw [controlSystemBytes_gen, fromSystemBytes_gen]

theorem be16_sid (sid : Nat) : Go.be16 (sid : Int) = [sidHi sid, sidLo sid] := by
  unfold Go.be16 sidHi sidLo
  rw [show (sid : Int) / 256 % 256 = ((sid / 256 % 256 : Nat) : Int) by simp,
      show (sid : Int) % 256 = ((sid % 256 : Nat) : Int) by simp, Go.byte_nat, Go.byte_nat]

theorem withSessionID_gen (m : ControlMsg) (sid : Nat) :
    hsms_ControlMessage_WithSessionID m.toGen (sid : Int) = (m.withSessionID sid).toGen := by
  unfold hsms_ControlMessage_WithSessionID ControlMsg.toGen ControlMsg.withSessionID Header.withSessionID Header.toBytes
  simp [be16_sid, Go.splice, Go.copy, Go.slice]

theorem withSystemBytes_gen (m : ControlMsg) (s : Sys) :
    hsms_ControlMessage_WithSystemBytes m.toGen s.toBytes = (m.withSys s).toGen := by
  unfold hsms_ControlMessage_WithSystemBytes ControlMsg.toGen ControlMsg.withSys Header.withSys Header.toBytes Sys.toBytes
  simp [Go.set, Go.getB, Go.u8, Go.byte, Go.ofNat_toNat]


/-! ### control-message constructors -/

theorem newSelectReq_gen (sid : Nat) (s : Sys) :
    hsms_NewSelectReq (sid : Int) s.toBytes = (newSelectReq sid s).toGen := by
  unfold hsms_NewSelectReq newSelectReq ctlHeader ControlMsg.toGen Header.toBytes Sys.toBytes
  simp [be16_sid, Go.splice, Go.copy, Go.slice, Go.set, Go.getB, Go.u8, Go.byte, Go.ofNat_toNat, stSelectReq,
    hsms_ControlMessage.zero]

theorem newDeselectReq_gen (sid : Nat) (s : Sys) :
    hsms_NewDeselectReq (sid : Int) s.toBytes = (newDeselectReq sid s).toGen := by
  unfold hsms_NewDeselectReq newDeselectReq ctlHeader ControlMsg.toGen Header.toBytes Sys.toBytes
  simp [be16_sid, Go.splice, Go.copy, Go.slice, Go.set, Go.getB, Go.u8, Go.byte, Go.ofNat_toNat, stDeselectReq,
    hsms_ControlMessage.zero]

theorem newSeparateReq_gen (sid : Nat) (s : Sys) :
    hsms_NewSeparateReq (sid : Int) s.toBytes = (newSeparateReq sid s).toGen := by
  unfold hsms_NewSeparateReq newSeparateReq ctlHeader ControlMsg.toGen Header.toBytes Sys.toBytes
  simp [be16_sid, Go.splice, Go.copy, Go.slice, Go.set, Go.getB, Go.u8, Go.byte, Go.ofNat_toNat, stSeparateReq,
    hsms_ControlMessage.zero]

theorem newLinktestReq_gen (s : Sys) : hsms_NewLinktestReq s.toBytes = (newLinktestReq s).toGen := by
  unfold hsms_NewLinktestReq newLinktestReq ctlHeader ControlMsg.toGen Header.toBytes Sys.toBytes
  simp [Go.set, Go.getB, Go.u8, Go.byte, Go.ofNat_toNat, stLinktestReq, hsms_ControlMessage.zero]

/-- The error a response constructor returns for a request of the wrong type. -/
def wrongReq (what : String) : hsms_ControlMessage × Go.Err := (hsms_ControlMessage.zero, some what)

theorem type_ne (m : ControlMsg) (k : Nat) : ((m.type : Int) != (k : Int)) = (m.type != k) := by
  by_cases h : m.type = k
  · simp [h]
  · have : ((m.type : Int) != (k : Int)) = true := by simp only [bne_iff_ne, ne_eq]; omega
    simp [this, h]

theorem newSelectRsp_gen (req : ControlMsg) (status : UInt8) :
    hsms_NewSelectRsp req.toGen (status.toNat : Int) =
      (match newSelectRsp req status with
       | .ok m => (m.toGen, none)
       | .error _ => wrongReq "expected select.req message") := by
  unfold hsms_NewSelectRsp newSelectRsp
  rw [controlType_gen, show (1 : Int) = ((stSelectReq : Nat) : Int) from rfl, type_ne]
  cases req.type != stSelectReq
  · simp [ControlMsg.toGen, ctlHeader, Header.toBytes, Header.sys, Go.set, Go.getB, Go.u8, Go.byte, Go.ofNat_toNat,
      stSelectRsp, hsms_ControlMessage.zero]
  · simp [wrongReq]

theorem newDeselectRsp_gen (req : ControlMsg) (status : UInt8) :
    hsms_NewDeselectRsp req.toGen (status.toNat : Int) =
      (match newDeselectRsp req status with
       | .ok m => (m.toGen, none)
       | .error _ => wrongReq "expected deselect.req message") := by
  unfold hsms_NewDeselectRsp newDeselectRsp
  rw [controlType_gen, show (3 : Int) = ((stDeselectReq : Nat) : Int) from rfl, type_ne]
  cases req.type != stDeselectReq
  · simp [ControlMsg.toGen, ctlHeader, Header.toBytes, Header.sys, Go.set, Go.getB, Go.u8, Go.byte, Go.ofNat_toNat,
      stDeselectRsp, hsms_ControlMessage.zero]
  · simp [wrongReq]

theorem newLinktestRsp_gen (req : ControlMsg) :
    hsms_NewLinktestRsp req.toGen =
      (match newLinktestRsp req with
       | .ok m => (m.toGen, none)
       | .error _ => wrongReq "expected linktest.req message") := by
  unfold hsms_NewLinktestRsp newLinktestRsp
  rw [controlType_gen, show (5 : Int) = ((stLinktestReq : Nat) : Int) from rfl, type_ne]
  cases req.type != stLinktestReq
  · simp [ControlMsg.toGen, ctlHeader, Header.toBytes, Header.sys, Go.set, Go.getB, Go.u8, Go.byte, Go.ofNat_toNat,
      stLinktestRsp, hsms_ControlMessage.zero]
  · simp [wrongReq]

theorem newRejectReqRaw_gen (sid : Nat) (p st : UInt8) (s : Sys) (reason : UInt8) :
    hsms_NewRejectReqRaw (sid : Int) (p.toNat : Int) (st.toNat : Int) s.toBytes (reason.toNat : Int) =
      (newRejectReqRaw sid p st s reason).toGen := by
  unfold hsms_NewRejectReqRaw newRejectReqRaw ctlHeader ControlMsg.toGen Header.toBytes Sys.toBytes
  have hr : ((reason.toNat : Int) == 2) = (reason.toNat == rejectPTypeNotSupported) := by
    by_cases h : reason.toNat = 2
    · simp [h, rejectPTypeNotSupported]
    · have : ((reason.toNat : Int) == 2) = false := by simp only [beq_eq_false_iff_ne, ne_eq]; omega
      simp [this, h, rejectPTypeNotSupported]
  rw [hr]
  cases reason.toNat == rejectPTypeNotSupported <;>
  simp [be16_sid, Go.splice, Go.copy, Go.slice, Go.set, Go.getB, Go.u8, Go.byte, Go.ofNat_toNat, stRejectReq,
    hsms_ControlMessage.zero]

/-! ### the length gates of the frame decoders (windows of DecodeHSMSMessage / DecodeHSMSPayload) -/

/-- `decodeHSMSMessage` is the gate followed by `decodeOwnedFrame`. -/
theorem decodeHSMSMessage_guard (data : Bytes) :
    decodeHSMSMessage data = (match frameGuard data with | .error e => .error e | .ok owned => decodeOwnedFrame owned) := by
  unfold decodeHSMSMessage frameGuard
  split
  · rfl
  · simp only []
    split
    · rfl
    · split
      · rfl
      · split <;> rfl

theorem decodeHSMSPayload_guard (payload : Bytes) :
    decodeHSMSPayload payload = (match payloadGuard payload with | .error e => .error e | .ok _ => decodeOwnedFrame payload) := by
  unfold decodeHSMSPayload payloadGuard
  split
  · rfl
  · split <;> rfl

/-- What the Go gate returns for each refusal (the sentinel it wraps, or its message). -/
def FErr.goName : FErr → String
  | .lenBig => "hsms message length exceeds maximum: %d > %d"
  | _ => "ErrInvalidHeaderLength"

theorem beU32_take4 (data : Bytes) (h : 4 ≤ data.length) : Go.beU32 (data.take 4) = ((beVal (data.take 4) : Nat) : Int) := by
  match data, h with
  | a :: b :: c :: d :: rest, _ => simp [Go.beU32, Go.getB, Go.u8_nat, beVal]; omega

theorem decodeGuards_gen (data : Bytes) :
    hsms_DecodeHSMSMessage_guards data =
      some (match frameGuard data with
        | .error e => .error (false, some e.goName)
        | .ok owned => .ok (((beVal (data.take 4) : Nat) : Int), owned)) := by
  unfold hsms_DecodeHSMSMessage_guards frameGuard
  by_cases h1 : data.length < 14
  · have : decide (Go.len data < 14) = true := decide_eq_true (by show ((data.length : Nat) : Int) < 14; omega)
    have hl : lenLt data 14 = true := (lenLt_iff _ _).2 h1
    simp only [this, hl, reduceIte, FErr.goName]
  · have : decide (Go.len data < 14) = false := decide_eq_false (by show ¬ ((data.length : Nat) : Int) < 14; omega)
    have hl : lenLt data 14 = false := (lenLt_false_iff _ _).2 (by omega)
    simp only [this, hl, reduceIte, Bool.false_eq_true]
    have s1 : Go.slice? data 0 4 = some (data.take 4) := by
      have := Go.slice?_eq data 0 4 (by omega) (by omega)
      simpa using this
    rw [s1]
    simp only [Option.bind_some]
    rw [Go.beU32?_eq _ (by simp; omega)]
    simp only [Option.bind_some, beU32_take4 data (by omega)]
    generalize hL : beVal (data.take 4) = L
    have hLlt : L < 4294967296 := by
      have := beVal_lt (data.take 4)
      rw [hL] at this
      have e : (data.take 4).length = 4 := by simp; omega
      rw [e] at this
      omega
    by_cases h2 : L < 10
    · have : decide ((L : Int) < 10) = true := decide_eq_true (by omega)
      simp only [this, h2, reduceIte, FErr.goName]
    · have : decide ((L : Int) < 10) = false := decide_eq_false (by omega)
      simp only [this, h2, reduceIte, Bool.false_eq_true]
      by_cases h3 : L > maxMsgLen
      · have : decide ((L : Int) > 16777215) = true := decide_eq_true (by unfold maxMsgLen at h3; omega)
        simp only [this, h3, reduceIte, FErr.goName]
      · have : decide ((L : Int) > 16777215) = false := decide_eq_false (by unfold maxMsgLen at h3; omega)
        simp only [this, h3, reduceIte, Bool.false_eq_true]
        unfold maxMsgLen at h3
        by_cases h4 : (data.drop 4).length != L
        · have h4' : data.length - 4 ≠ L := by simpa using h4
          have : (Go.len data != 4 + (L : Int)) = true := by
            simp only [Go.len_nat, bne_iff_ne, ne_eq]; omega
          simp only [this, h4, reduceIte, FErr.goName]
        · have h4' : data.length - 4 = L := by simpa using h4
          have : (Go.len data != 4 + (L : Int)) = false := by
            simp only [Go.len_nat, bne_eq_false_iff_eq]; omega
          simp only [this, h4, reduceIte, Bool.false_eq_true]
          have hw : Go.wrapU 32 (4 + (L : Int)) = ((4 + L : Nat) : Int) := by
            rw [show (4 : Int) + (L : Int) = ((4 + L : Nat) : Int) by simp, Go.wrapU32_nat]
            congr 1; omega
          rw [hw, show (4 : Int) = ((4 : Nat) : Int) from rfl, Go.slice?_eq data 4 (4 + L) (by omega) (by omega)]
          simp only [Option.bind_some, List.nil_append, Nat.add_sub_cancel_left]
          congr 3
          apply List.take_of_length_le
          simp; omega

theorem payloadGuards_gen (payload : Bytes) :
    hsms_DecodeHSMSPayload_guards payload =
      (match payloadGuard payload with
        | .error e => .error (false, some (match e with
            | .lenBig => "hsms payload exceeds maximum: %d > %d" | _ => "ErrInvalidHeaderLength"))
        | .ok _ => .ok ()) := by
  unfold hsms_DecodeHSMSPayload_guards payloadGuard
  by_cases h1 : payload.length < 10
  · have : decide (Go.len payload < 10) = true := decide_eq_true (by show ((payload.length : Nat) : Int) < 10; omega)
    have hl : lenLt payload 10 = true := (lenLt_iff _ _).2 h1
    simp only [this, hl, reduceIte]
  · have : decide (Go.len payload < 10) = false := decide_eq_false (by show ¬ ((payload.length : Nat) : Int) < 10; omega)
    have hl : lenLt payload 10 = false := (lenLt_false_iff _ _).2 (by omega)
    simp only [this, hl, reduceIte, Bool.false_eq_true]
    by_cases h2 : payload.length > maxMsgLen
    · have : decide (Go.len payload > 16777215) = true :=
        decide_eq_true (by show ((payload.length : Nat) : Int) > 16777215; unfold maxMsgLen at h2; omega)
      simp only [this, h2, reduceIte]
    · have : decide (Go.len payload > 16777215) = false :=
        decide_eq_false (by show ¬ ((payload.length : Nat) : Int) > 16777215; unfold maxMsgLen at h2; omega)
      simp only [this, h2, reduceIte, Bool.false_eq_true]

end GoSecs.Hsms
